import AwsVerif.Proofs.C05.Tables
/-! C05: base64 encoder = RFC reference; decoder accepts exactly the reference encodings. -/
namespace AwsVerif.Proofs.C05
open AwsVerif.Codec AwsVerif.CodecSpec AwsVerif.Gen.CodecTables

/-! ### encoder -/

theorem encQuad_eq (a b c : Nat) (ha : a < 256) (hb : b < 256) (hc : c < 256) :
    encQuad a b c = [ch (a/4), ch (a%4*16 + b/16), ch (b%16*4 + c/64), ch (c%64)] := by
  have h1 : (a <<< 8) % 2^32 = a <<< 8 := Nat.mod_eq_of_lt (by rw [Nat.shiftLeft_eq]; omega)
  have h2 : a <<< 8 ||| b = a * 256 + b := by
    rw [← Nat.shiftLeft_add_eq_or_of_lt (by omega : b < 2^8), Nat.shiftLeft_eq]
  have h3 : ((a * 256 + b) <<< 8) % 2^32 = (a * 256 + b) <<< 8 :=
    Nat.mod_eq_of_lt (by rw [Nat.shiftLeft_eq]; omega)
  have h4 : (a * 256 + b) <<< 8 ||| c = (a * 256 + b) * 256 + c := by
    rw [← Nat.shiftLeft_add_eq_or_of_lt (by omega : c < 2^8), Nat.shiftLeft_eq]
  have m (x : Nat) : x &&& 0x3F = x % 64 := Nat.and_two_pow_sub_one_eq_mod x 6
  unfold encQuad
  simp only [h1, h2, h3, h4, m, Nat.shiftRight_eq_div_pow]
  clear h1 h2 h3 h4 m
  have e1 : ((a*256+b)*256+c) / 2^18 % 64 = a/4 := by omega
  have e2 : ((a*256+b)*256+c) / 2^12 % 64 = a % 4 * 16 + b / 16 := by omega
  have e3 : ((a*256+b)*256+c) / 2^6 % 64 = b % 16 * 4 + c / 64 := by omega
  have e4 : ((a*256+b)*256+c) % 64 = c % 64 := by omega
  rw [e1, e2, e3, e4]
  rw [encTable_is_alphabet _ (by omega), encTable_is_alphabet _ (by omega),
      encTable_is_alphabet _ (by omega), encTable_is_alphabet _ (by omega)]

theorem u8lt (a : UInt8) : a.toNat < 256 := a.toNat_lt

theorem specEncode_length : ∀ bs : List UInt8, (specEncode bs).length = 4 * ((bs.length + 2) / 3)
  | [] => rfl
  | [_] => by simp [specEncode]
  | [_, _] => by simp [specEncode]
  | _ :: _ :: _ :: rest => by
    simp only [specEncode, List.length_cons, specEncode_length rest]
    omega

theorem encBlocks_length : ∀ bs : List UInt8, (encBlocks bs).length = 4 * ((bs.length + 2) / 3)
  | [] => rfl
  | [_] => by simp [encBlocks, encQuad]
  | [_, _] => by simp [encBlocks, encQuad]
  | _ :: _ :: _ :: rest => by
    simp only [encBlocks, List.length_append, List.length_cons, encBlocks_length rest]
    simp [encQuad]
    omega

/-- loop + padding stores = reference encoder -/
theorem encPad_encBlocks : ∀ bs : List UInt8, encPad bs.length (encBlocks bs) = specEncode bs
  | [] => rfl
  | [a] => by
    simp [encPad, encBlocks, specEncode, encQuad_eq _ _ _ (u8lt a) (by omega : 0 < 256) (by omega : 0 < 256), pad]
  | [a, b] => by
    simp [encPad, encBlocks, specEncode, encQuad_eq _ _ _ (u8lt a) (u8lt b) (by omega : 0 < 256), pad]
  | a :: b :: c :: rest => by
    have ih := encPad_encBlocks rest
    have hl := encBlocks_length rest
    simp only [encBlocks, specEncode, encQuad_eq _ _ _ (u8lt a) (u8lt b) (u8lt c), List.length_cons]
    simp only [encPad] at ih ⊢
    have hm : (rest.length + 1 + 1 + 1) % 3 = rest.length % 3 := by omega
    have hb : (rest.length + 1 + 1 + 1 + 2) / 3 = (rest.length + 2) / 3 + 1 := by omega
    rw [hm, hb]
    by_cases h0 : rest.length % 3 > 0
    · have hpos : (rest.length + 2) / 3 ≥ 1 := by omega
      have i1 : ((rest.length + 2) / 3 + 1) * 4 - 1 = ((rest.length + 2) / 3 * 4 - 1) + 4 := by omega
      have i2 : ((rest.length + 2) / 3 + 1) * 4 - 2 = ((rest.length + 2) / 3 * 4 - 2) + 4 := by omega
      simp only [h0, if_true, i1, i2] at ih ⊢
      by_cases h1 : (rest.length % 3 == 1) = true
      · simp only [h1, if_true] at ih ⊢
        simp only [List.cons_append, List.nil_append, List.set_cons_succ]
        rw [ih]
      · simp only [h1] at ih ⊢
        simp only [List.cons_append, List.nil_append, List.set_cons_succ]
        simp at ih ⊢
        rw [ih]
    · simp only [h0, if_false] at ih ⊢
      simp [ih]

/-! ### decoder: character level -/

theorem decVal_strict {c : UInt8} {v : Nat} (h : decVal c false = some v) : v < 64 ∧ ch v = c := by
  unfold decVal at h
  have hc := decTable_cases c.toNat (u8lt c)
  simp only [sentinel_eq, Bool.or_false] at h
  split at h
  · rename_i hv
    cases h
    simp only [Bool.and_eq_true, bne_iff_ne, ne_eq] at hv
    rcases hc with h1 | h1 | ⟨h1, h2⟩
    · exact absurd h1 hv.1
    · exact absurd h1 hv.2
    · exact ⟨h1, by rw [h2, UInt8.ofNat_toNat]⟩
  · cases h

theorem decVal_sentinel {c : UInt8} {v : Nat} (h : decVal c true = some v) :
    (v < 64 ∧ ch v = c) ∨ (v = 255 ∧ c = 61) := by
  unfold decVal at h
  have hc := decTable_cases c.toNat (u8lt c)
  have hs := decTable_sentinel c.toNat (u8lt c)
  simp only [Bool.or_true, Bool.and_true] at h
  split at h
  · rename_i hv
    cases h
    simp only [bne_iff_ne, ne_eq] at hv
    rcases hc with h1 | h1 | ⟨h1, h2⟩
    · exact absurd h1 hv
    · right
      refine ⟨h1, ?_⟩
      have := hs.1 h1
      exact UInt8.toNat_inj.mp (by simpa using this)
    · left; exact ⟨h1, by rw [h2, UInt8.ofNat_toNat]⟩
  · cases h

theorem decVal_ch {i : Nat} (hi : i < 64) (s : Bool) : decVal (ch i) s = some i := by
  unfold decVal
  rw [decTable_alphabet i hi, sentinel_eq]
  have h1 : (i != 0xDD) = true := by simp; omega
  have h2 : (i != 255) = true := by simp; omega
  simp [h1, h2]

theorem decVal_pad_true : decVal 61 true = some 255 := by decide +kernel
theorem decVal_pad_false : decVal 61 false = none := by decide +kernel

theorem u8_eq_of_toNat {a b : UInt8} (h : a.toNat = b.toNat) : a = b := UInt8.toNat_inj.mp h

/-! ### decoder: accepted ⇒ canonical -/

theorem and15 (x : Nat) : x &&& 0x0F = x % 16 := Nat.and_two_pow_sub_one_eq_mod x 4
theorem and3 (x : Nat) : x &&& 0x03 = x % 4 := Nat.and_two_pow_sub_one_eq_mod x 2

theorem decFinal_sound {c1 c2 c3 c4 : UInt8} {bs : List UInt8}
    (h : decFinal c1 c2 c3 c4 = ⟨bs, true⟩) : specEncode bs = [c1, c2, c3, c4] := by
  unfold decFinal at h
  split at h
  · rename_i v1 v2 v3 v4 h1 h2 h3 h4
    obtain ⟨l1, e1⟩ := decVal_strict h1
    obtain ⟨l2, e2⟩ := decVal_strict h2
    have s3 := decVal_sentinel h3
    have s4 := decVal_sentinel h4
    simp only [sentinel_eq, and15, and3] at h
    by_cases p3 : v3 = 255
    · subst p3
      have c4v : v4 = 255 := by
        by_cases q : v4 = 255
        · exact q
        · simp [q] at h
      subst c4v
      have hz : v2 % 16 = 0 := by
        by_cases q : v2 % 16 = 0
        · exact q
        · simp [q] at h
      simp [hz] at h
      subst h
      · have c3e : c3 = 61 := by rcases s3 with ⟨l, _⟩ | ⟨_, e⟩; (· omega); exact e
        have c4e : c4 = 61 := by
          rcases s4 with ⟨l, _⟩ | ⟨_, e⟩
          · omega
          · exact e
        have d0 := dec0_val v1 l1 v2 l2
        simp only [specEncode, d0, pad]
        have q1 : (v1 * 4 + v2 / 16) / 4 = v1 := by omega
        have q2 : (v1 * 4 + v2 / 16) % 4 * 16 = v2 := by omega
        rw [q1, q2, e1, e2, c3e, c4e]
    · have l3 : v3 < 64 := by rcases s3 with ⟨l, _⟩ | ⟨e, _⟩; (· exact l); exact absurd e p3
      have e3 : ch v3 = c3 := by rcases s3 with ⟨_, e⟩ | ⟨e, _⟩; (· exact e); exact absurd e p3
      have nb : (v3 == 255) = false := by simp [p3]
      simp only [nb] at h
      by_cases p4 : v4 = 255
      · subst p4
        have c4e : c4 = 61 := by
          rcases s4 with ⟨l, _⟩ | ⟨_, e⟩
          · omega
          · exact e
        have hz : v3 % 4 = 0 := by
          by_cases q : v3 % 4 = 0
          · exact q
          · simp [q] at h
        simp [hz] at h
        subst h
        · have d0 := dec0_val v1 l1 v2 l2
          have d1 := dec1_val v2 l2 v3 l3
          simp only [specEncode, d0, d1, pad]
          have q1 : (v1 * 4 + v2 / 16) / 4 = v1 := by omega
          have q2 : (v1 * 4 + v2 / 16) % 4 * 16 + (v2 % 16 * 16 + v3 / 4) / 16 = v2 := by omega
          have q3 : (v2 % 16 * 16 + v3 / 4) % 16 * 4 = v3 := by omega
          rw [q1, q2, q3, e1, e2, e3, c4e]
      · have l4 : v4 < 64 := by rcases s4 with ⟨l, _⟩ | ⟨e, _⟩; (· exact l); exact absurd e p4
        have e4 : ch v4 = c4 := by rcases s4 with ⟨_, e⟩ | ⟨e, _⟩; (· exact e); exact absurd e p4
        have nb4 : (v4 == 255) = false := by simp [p4]
        have nb4' : (v4 != 255) = true := by simp [p4]
        simp only [nb4, nb4', Bool.false_and, if_true] at h
        simp at h
        subst h
        have d0 := dec0_val v1 l1 v2 l2
        have d1 := dec1_val v2 l2 v3 l3
        have d2 := dec2_val v3 l3 v4 l4
        simp only [specEncode, d0, d1, d2]
        have q1 : (v1 * 4 + v2 / 16) / 4 = v1 := by omega
        have q2 : (v1 * 4 + v2 / 16) % 4 * 16 + (v2 % 16 * 16 + v3 / 4) / 16 = v2 := by omega
        have q3 : (v2 % 16 * 16 + v3 / 4) % 16 * 4 + (v3 % 4 * 64 + v4) / 64 = v3 := by omega
        have q4 : (v3 % 4 * 64 + v4) % 64 = v4 := by omega
        rw [q1, q2, q3, q4, e1, e2, e3, e4]
  · cases h

theorem decBlocks_sound : ∀ (t bs : List UInt8), decBlocks t = ⟨bs, true⟩ → specEncode bs = t
  | [], _, h | [_], _, h | [_, _], _, h | [_, _, _], _, h => by simp [decBlocks] at h
  | c1 :: c2 :: c3 :: c4 :: rest, bs, h => by
    unfold decBlocks at h
    by_cases hr : rest.isEmpty = true
    · simp only [hr, if_true] at h
      have : rest = [] := List.isEmpty_iff.mp hr
      subst this
      exact decFinal_sound h
    · have hr' : rest.isEmpty = false := by simpa using hr
      simp only [hr', Bool.false_eq_true, if_false] at h
      split at h
      · rename_i v1 v2 v3 v4 h1 h2 h3 h4
        obtain ⟨l1, e1⟩ := decVal_strict h1
        obtain ⟨l2, e2⟩ := decVal_strict h2
        obtain ⟨l3, e3⟩ := decVal_strict h3
        obtain ⟨l4, e4⟩ := decVal_strict h4
        simp only [DecRes.mk.injEq] at h
        obtain ⟨hw, hok⟩ := h
        have ih := decBlocks_sound rest (decBlocks rest).wr (by rw [← hok])
        subst hw
        have d0 := dec0_val v1 l1 v2 l2
        have d1 := dec1_val v2 l2 v3 l3
        have d2 := dec2_val v3 l3 v4 l4
        simp only [specEncode, d0, d1, d2, ih]
        have q1 : (v1 * 4 + v2 / 16) / 4 = v1 := by omega
        have q2 : (v1 * 4 + v2 / 16) % 4 * 16 + (v2 % 16 * 16 + v3 / 4) / 16 = v2 := by omega
        have q3 : (v2 % 16 * 16 + v3 / 4) % 16 * 4 + (v3 % 4 * 64 + v4) / 64 = v3 := by omega
        have q4 : (v3 % 4 * 64 + v4) % 64 = v4 := by omega
        rw [q1, q2, q3, q4, e1, e2, e3, e4]
      · simp at h

/-! ### decoder: canonical ⇒ accepted with the original bytes -/

theorem specEncode_ne_nil {bs : List UInt8} (h : bs ≠ []) : specEncode bs ≠ [] := by
  intro e
  have := specEncode_length bs
  rw [e] at this
  cases bs with
  | nil => exact h rfl
  | cons a r => simp at this; omega

theorem decFinal_complete1 (a : UInt8) : decFinal (ch (a.toNat / 4)) (ch (a.toNat % 4 * 16)) 61 61 = ⟨[a], true⟩ := by
  have ha := u8lt a
  have l1 : a.toNat / 4 < 64 := by omega
  have l2 : a.toNat % 4 * 16 < 64 := by omega
  unfold decFinal
  rw [decVal_ch l1, decVal_ch l2, decVal_pad_true]
  simp only [sentinel_eq, and15]
  have hz : a.toNat % 4 * 16 % 16 = 0 := by omega
  simp [hz]
  apply u8_eq_of_toNat
  rw [dec0_val _ l1 _ l2]; omega

theorem decFinal_complete2 (a b : UInt8) :
    decFinal (ch (a.toNat / 4)) (ch (a.toNat % 4 * 16 + b.toNat / 16)) (ch (b.toNat % 16 * 4)) 61 = ⟨[a, b], true⟩ := by
  have ha := u8lt a
  have hb := u8lt b
  have l1 : a.toNat / 4 < 64 := by omega
  have l2 : a.toNat % 4 * 16 + b.toNat / 16 < 64 := by omega
  have l3 : b.toNat % 16 * 4 < 64 := by omega
  unfold decFinal
  rw [decVal_ch l1, decVal_ch l2, decVal_ch l3, decVal_pad_true]
  simp only [sentinel_eq, and15, and3]
  have n3 : (b.toNat % 16 * 4 == 255) = false := by simp; omega
  have hz : b.toNat % 16 * 4 % 4 = 0 := by omega
  simp [n3, hz]
  constructor
  · apply u8_eq_of_toNat; rw [dec0_val _ l1 _ l2]; omega
  · apply u8_eq_of_toNat; rw [dec1_val _ l2 _ l3]; omega

theorem quad_vals (a b c : UInt8) :
    a.toNat / 4 < 64 ∧ a.toNat % 4 * 16 + b.toNat / 16 < 64 ∧ b.toNat % 16 * 4 + c.toNat / 64 < 64 ∧ c.toNat % 64 < 64 := by
  have ha := u8lt a
  have hb := u8lt b
  have hc := u8lt c
  omega

theorem quad_bytes (a b c : UInt8) :
    dec0 (a.toNat / 4) (a.toNat % 4 * 16 + b.toNat / 16) = a ∧
    dec1 (a.toNat % 4 * 16 + b.toNat / 16) (b.toNat % 16 * 4 + c.toNat / 64) = b ∧
    dec2 (b.toNat % 16 * 4 + c.toNat / 64) (c.toNat % 64) = c := by
  obtain ⟨l1, l2, l3, l4⟩ := quad_vals a b c
  have ha := u8lt a
  have hb := u8lt b
  have hc := u8lt c
  refine ⟨?_, ?_, ?_⟩
  · apply u8_eq_of_toNat; rw [dec0_val _ l1 _ l2]; omega
  · apply u8_eq_of_toNat; rw [dec1_val _ l2 _ l3]; omega
  · apply u8_eq_of_toNat; rw [dec2_val _ l3 _ l4]; omega

theorem decFinal_complete3 (a b c : UInt8) :
    decFinal (ch (a.toNat / 4)) (ch (a.toNat % 4 * 16 + b.toNat / 16)) (ch (b.toNat % 16 * 4 + c.toNat / 64))
      (ch (c.toNat % 64)) = ⟨[a, b, c], true⟩ := by
  obtain ⟨l1, l2, l3, l4⟩ := quad_vals a b c
  obtain ⟨b0, b1, b2⟩ := quad_bytes a b c
  unfold decFinal
  rw [decVal_ch l1, decVal_ch l2, decVal_ch l3, decVal_ch l4]
  simp only [sentinel_eq]
  have n3 : (b.toNat % 16 * 4 + c.toNat / 64 == 255) = false := by simp; omega
  have n4 : (c.toNat % 64 == 255) = false := by simp; omega
  have n4' : (c.toNat % 64 != 255) = true := by simp; omega
  simp [n3, n4, n4', b0, b1, b2]

theorem decBlocks_complete : ∀ bs : List UInt8, bs ≠ [] → decBlocks (specEncode bs) = ⟨bs, true⟩
  | [], h => absurd rfl h
  | [a], _ => by simp only [specEncode, decBlocks, pad, List.isEmpty_nil, if_true]; exact decFinal_complete1 a
  | [a, b], _ => by simp only [specEncode, decBlocks, pad, List.isEmpty_nil, if_true]; exact decFinal_complete2 a b
  | [a, b, c], _ => by
    simp only [specEncode, decBlocks, List.isEmpty_nil, if_true]; exact decFinal_complete3 a b c
  | a :: b :: c :: d :: rest, _ => by
    have ih := decBlocks_complete (d :: rest) (by simp)
    have hne : specEncode (d :: rest) ≠ [] := specEncode_ne_nil (by simp)
    obtain ⟨l1, l2, l3, l4⟩ := quad_vals a b c
    obtain ⟨b0, b1, b2⟩ := quad_bytes a b c
    rw [show specEncode (a :: b :: c :: d :: rest) = ch (a.toNat / 4) :: ch (a.toNat % 4 * 16 + b.toNat / 16) ::
          ch (b.toNat % 16 * 4 + c.toNat / 64) :: ch (c.toNat % 64) :: specEncode (d :: rest) by simp [specEncode]]
    unfold decBlocks
    have he : (specEncode (d :: rest)).isEmpty = false := by
      cases hs : specEncode (d :: rest) with
      | nil => exact absurd hs hne
      | cons _ _ => rfl
    simp only [he, decVal_ch l1, decVal_ch l2, decVal_ch l3, decVal_ch l4, ih, b0, b1, b2]
    simp

/-! ### decoded length -/

theorem specEncode_tail : ∀ bs : List UInt8, bs ≠ [] → ∃ pre x y, specEncode bs = pre ++ [x, y] ∧
    (bs.length % 3 = 1 → x = 61 ∧ y = 61) ∧ (bs.length % 3 = 2 → x ≠ 61 ∧ y = 61) ∧ (bs.length % 3 = 0 → y ≠ 61)
  | [], h => absurd rfl h
  | [a], _ => ⟨[ch (a.toNat / 4), ch (a.toNat % 4 * 16)], 61, 61, by simp [specEncode, pad]⟩
  | [a, b], _ => by
    have hb := u8lt b
    refine ⟨[ch (a.toNat / 4), ch (a.toNat % 4 * 16 + b.toNat / 16)], ch (b.toNat % 16 * 4), 61, ?_⟩
    simp [specEncode, pad]
    exact ch_ne_pad _ (by omega)
  | [a, b, c], _ => by
    have hc := u8lt c
    refine ⟨[ch (a.toNat / 4), ch (a.toNat % 4 * 16 + b.toNat / 16)], ch (b.toNat % 16 * 4 + c.toNat / 64), ch (c.toNat % 64), ?_⟩
    simp [specEncode]
    exact ch_ne_pad _ (by omega)
  | a :: b :: c :: d :: rest, _ => by
    obtain ⟨pre, x, y, he, h1, h2, h0⟩ := specEncode_tail (d :: rest) (by simp)
    refine ⟨ch (a.toNat / 4) :: ch (a.toNat % 4 * 16 + b.toNat / 16) :: ch (b.toNat % 16 * 4 + c.toNat / 64) ::
      ch (c.toNat % 64) :: pre, x, y, ?_, ?_, ?_, ?_⟩
    · rw [show specEncode (a :: b :: c :: d :: rest) = ch (a.toNat / 4) :: ch (a.toNat % 4 * 16 + b.toNat / 16) ::
          ch (b.toNat % 16 * 4 + c.toNat / 64) :: ch (c.toNat % 64) :: specEncode (d :: rest) by simp [specEncode], he]
      simp
    · intro h; apply h1; simp only [List.length_cons] at h ⊢; omega
    · intro h; apply h2; simp only [List.length_cons] at h ⊢; omega
    · intro h; apply h0; simp only [List.length_cons] at h ⊢; omega

theorem getD_last (pre : List UInt8) (x y : UInt8) :
    (pre ++ [x, y]).getD ((pre ++ [x, y]).length - 1) 0 = y ∧ (pre ++ [x, y]).getD ((pre ++ [x, y]).length - 2) 0 = x := by
  have e1 : (pre ++ [x, y]).length - 1 = pre.length + 1 := by simp
  have e2 : (pre ++ [x, y]).length - 2 = pre.length := by simp
  rw [e1, e2]
  constructor
  · simp [List.getD_eq_getElem?_getD]
  · simp [List.getD_eq_getElem?_getD]

theorem computeDecodedLen_spec (bs : List UInt8) : computeDecodedLen (specEncode bs) = .ok bs.length := by
  by_cases hn : bs = []
  · subst hn; rfl
  · obtain ⟨pre, x, y, he, h1, h2, h0⟩ := specEncode_tail bs hn
    have hlen := specEncode_length bs
    have hpos : bs.length > 0 := by cases bs with | nil => exact absurd rfl hn | cons _ _ => simp
    unfold computeDecodedLen
    have g := getD_last pre x y
    rw [← he, hlen] at g
    have m3 (z : Nat) : z &&& 0x03 = z % 4 := Nat.and_two_pow_sub_one_eq_mod z 2
    simp only [hlen, g.1, g.2, m3]
    have z1 : (4 * ((bs.length + 2) / 3) == 0) = false := by simp <;> omega
    have z2 : (4 * ((bs.length + 2) / 3) % 4 != 0) = false := by simp <;> omega
    simp only [z1, z2, Bool.false_eq_true, if_false]
    have hmod : bs.length % 3 = 0 ∨ bs.length % 3 = 1 ∨ bs.length % 3 = 2 := by omega
    rcases hmod with hm | hm | hm
    · have := h0 hm
      simp [this]; omega
    · obtain ⟨hx, hy⟩ := h1 hm
      simp [hx, hy]; omega
    · obtain ⟨hx, hy⟩ := h2 hm
      simp [hx, hy]; omega

/-! ### stores stay below `(block_count - 1) * 3` until the text is accepted -/

theorem decBlocks_wr_bound : ∀ t : List UInt8, t.length % 4 = 0 →
    (decBlocks t).ok = false → (decBlocks t).wr.length ≤ (t.length / 4 - 1) * 3
  | [], _, _ | [_], _, _ | [_, _], _, _ | [_, _, _], _, _ => by simp [decBlocks]
  | c1 :: c2 :: c3 :: c4 :: rest, hl, hf => by
    unfold decBlocks at hf ⊢
    by_cases hr : rest.isEmpty = true
    · simp only [hr, if_true] at hf ⊢
      have : (decFinal c1 c2 c3 c4).wr = [] := by
        unfold decFinal at hf ⊢
        split
        · split <;> (try split) <;> (try split) <;> simp_all
        · rfl
      simp [this]
    · have hr' : rest.isEmpty = false := by simpa using hr
      simp only [hr', Bool.false_eq_true, if_false] at hf ⊢
      split
      · rename_i v1 v2 v3 v4 h1 h2 h3 h4
        simp only [h1, h2, h3, h4] at hf
        have hl' : rest.length % 4 = 0 := by simp only [List.length_cons] at hl; omega
        have ih := decBlocks_wr_bound rest hl' hf
        have : rest.length ≥ 4 := by
          cases rest with
          | nil => simp at hr'
          | cons _ _ => simp only [List.length_cons] at hl' ⊢; omega
        simp only [List.length_cons]
        omega
      · simp

/-! ### whole calls -/

theorem computeEncodedLen_ok {n el : Nat} (h : computeEncodedLen n = .ok el) :
    el = 4 * ((n + 2) / 3) ∧ el ≤ SIZE_MAX := by
  unfold computeEncodedLen wrap at h
  unfold SIZE_MAX
  dsimp only at h
  split at h
  · cases h
  · split at h
    · cases h
    · simp only [Except.ok.injEq] at h
      omega

theorem computeDecodedLen_ok {t : List UInt8} {dl : Nat} (h : computeDecodedLen t = .ok dl) (hne : t ≠ []) :
    t.length % 4 = 0 ∧ (t.length / 4 - 1) * 3 ≤ dl := by
  unfold computeDecodedLen at h
  dsimp only at h
  have m3 (z : Nat) : z &&& 0x03 = z % 4 := Nat.and_two_pow_sub_one_eq_mod z 2
  have hpos : t.length > 0 := by cases t with | nil => exact absurd rfl hne | cons _ _ => simp
  have z1 : (t.length == 0) = false := by simp <;> omega
  rw [z1, m3] at h
  simp only [Bool.false_eq_true, if_false] at h
  split at h
  · cases h
  · rename_i hm
    simp only [bne_iff_ne, ne_eq, Decidable.not_not] at hm
    simp only [Except.ok.injEq] at h
    refine ⟨hm, ?_⟩
    split at h <;> (try split at h) <;> omega

theorem base64Decode_canonical (bs : List UInt8) (outLen cap : Nat) (hc : bs.length ≤ cap) :
    base64Decode (specEncode bs) outLen cap = { err := none, len := bs.length, off := 0, wr := bs } := by
  unfold base64Decode
  rw [computeDecodedLen_spec]
  dsimp only
  rw [if_neg (by omega)]
  by_cases hb : bs = []
  · subst hb; rfl
  · have hne := specEncode_ne_nil hb
    have h0 : ((specEncode bs).length == 0) = false := by
      cases hs : specEncode bs with
      | nil => exact absurd hs hne
      | cons _ _ => simp
    rw [h0, decBlocks_complete bs hb]
    simp

/-- every call of the decoder either is on a canonical text that fits (and then
`base64Decode_canonical` describes it), or fails without touching `len`, having stored only below
the capacity -/
theorem base64Decode_cases (t : List UInt8) (outLen cap : Nat) :
    (∃ bs, t = specEncode bs ∧ bs.length ≤ cap) ∨
    ((base64Decode t outLen cap).err ≠ none ∧ (base64Decode t outLen cap).len = outLen ∧
      (base64Decode t outLen cap).off = 0 ∧ (base64Decode t outLen cap).wr.length ≤ cap) := by
  unfold base64Decode
  cases hd : computeDecodedLen t with
  | error e => right; simp [Out.fail]
  | ok dl =>
    dsimp only
    by_cases hc : cap < dl
    · right; rw [if_pos hc]; simp [Out.fail]
    · rw [if_neg hc]
      by_cases h0 : (t.length == 0) = true
      · left
        have : t = [] := by simpa using h0
        exact ⟨[], by simp [this, specEncode], by simp⟩
      · have hne : t ≠ [] := by intro e; subst e; simp at h0
        rw [if_neg h0]
        by_cases hk : (decBlocks t).ok = true
        · left
          have hs := decBlocks_sound t (decBlocks t).wr (by rw [← hk])
          refine ⟨(decBlocks t).wr, hs.symm, ?_⟩
          have := computeDecodedLen_spec (decBlocks t).wr
          rw [hs, hd] at this
          simp only [Except.ok.injEq] at this
          omega
        · right
          rw [if_neg hk]
          obtain ⟨hm, hb⟩ := computeDecodedLen_ok hd hne
          have := decBlocks_wr_bound t hm (by simpa using hk)
          simp [Out.fail]
          omega
