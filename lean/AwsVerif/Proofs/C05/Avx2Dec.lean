import AwsVerif.Model.CodecAvx2
import AwsVerif.Proofs.C05.Base64
/-! C05: the hand model of the AVX2 base64 decoder computes what the portable decoder computes. -/
namespace AwsVerif.Proofs.C05
open AwsVerif.Codec AwsVerif.CodecSpec AwsVerif.CodecAvx2 AwsVerif.Gen.CodecAvx2Consts

theorem and_shl (x m k : Nat) : x &&& (m <<< k) = ((x >>> k) &&& m) <<< k := by
  apply Nat.eq_of_testBit_eq; intro i
  simp only [Nat.testBit_and, Nat.testBit_shiftLeft, Nat.testBit_shiftRight]
  by_cases h : k ≤ i
  · simp [h, Nat.add_sub_cancel' h]
  · simp [h]

theorem or_eq_add (X Y k : Nat) (h1 : X % 2 ^ k = 0) (h2 : Y < 2 ^ k) : X ||| Y = X + Y := by
  have hx : X = (X / 2 ^ k) <<< k := by
    rw [Nat.shiftLeft_eq, Nat.div_mul_cancel (Nat.dvd_of_mod_eq_zero h1)]
  rw [hx, Nat.shiftLeft_add_eq_or_of_lt h2]

theorem pk_eD (a b c e : Nat) (ha : a < 64) (hb : b < 64) (hc : c < 64) (he : e < 64) :
  (a + b * 256 + c * 65536 + e * 16777216) / 16777216 % 256 * 16777216 / 16777216 = e := by omega
theorem pk_s1 (a : Nat) : a * 262144 % 2 ^ 18 = 0 := by omega
theorem pk_s2 (b : Nat) (hb : b < 64) : b * 4096 < 2 ^ 18 := by omega
theorem pk_s3 (a b : Nat) : (a * 262144 + b * 4096) % 2 ^ 12 = 0 := by omega
theorem pk_s4 (c e : Nat) (hc : c < 64) (he : e < 64) : c * 64 + e < 2 ^ 12 := by omega
theorem pk_s5 (c : Nat) : c * 64 % 2 ^ 6 = 0 := by omega
theorem pk_s6 (e : Nat) (he : e < 64) : e < 2 ^ 6 := by omega

/-- bridge: the masks and shift counts of `pack_vec` as extracted from the source -/
theorem packOps_eq : packOps = [(0xFF, 1, 18), (0xFF00, 1, 4), (0xFF0000, 0, 10), (0xFF000000, 0, 24)] := by decide +kernel

theorem packDword_unfold (d : Nat) : packDword d =
    ((((d &&& 0xFF) <<< 18) % 2^32 ||| ((d &&& 0xFF00) <<< 4) % 2^32) ||| ((d &&& 0xFF0000) >>> 10 ||| (d &&& 0xFF000000) >>> 24)) := by
  unfold packDword
  rw [packOps_eq]
  rfl

theorem packDword_eq (a b c e : Nat) (ha : a < 64) (hb : b < 64) (hc : c < 64) (he : e < 64) :
    bytesOf (packDword (dwordOf a b c e)) = [c % 4 * 64 + e, b % 16 * 16 + c / 4, a * 4 + b / 16, 0] := by
  have mA (x : Nat) : x &&& 0xFF = x % 256 := Nat.and_two_pow_sub_one_eq_mod x 8
  have mB (x : Nat) : x &&& 0xFF00 = x / 256 % 256 * 256 := by
    rw [show (0xFF00 : Nat) = 0xFF <<< 8 by decide +kernel, and_shl, mA, Nat.shiftRight_eq_div_pow, Nat.shiftLeft_eq]
  have mC (x : Nat) : x &&& 0xFF0000 = x / 65536 % 256 * 65536 := by
    rw [show (0xFF0000 : Nat) = 0xFF <<< 16 by decide +kernel, and_shl, mA, Nat.shiftRight_eq_div_pow, Nat.shiftLeft_eq]
  have mD (x : Nat) : x &&& 0xFF000000 = x / 16777216 % 256 * 16777216 := by
    rw [show (0xFF000000 : Nat) = 0xFF <<< 24 by decide +kernel, and_shl, mA, Nat.shiftRight_eq_div_pow, Nat.shiftLeft_eq]
  rw [packDword_unfold]
  unfold dwordOf
  simp only [mA, mB, mC, mD, Nat.shiftLeft_eq, Nat.shiftRight_eq_div_pow, Nat.reducePow]
  have eA : (a + b * 256 + c * 65536 + e * 16777216) % 256 * 262144 % 4294967296 = a * 262144 := by omega
  have eB : (a + b * 256 + c * 65536 + e * 16777216) / 256 % 256 * 256 * 16 % 4294967296 = b * 4096 := by omega
  have eC : (a + b * 256 + c * 65536 + e * 16777216) / 65536 % 256 * 65536 / 1024 = c * 64 := by omega
  have eD := pk_eD a b c e ha hb hc he
  rw [eA, eB, eC, eD]
  rw [or_eq_add (a * 262144) (b * 4096) 18 (pk_s1 a) (pk_s2 b hb), or_eq_add (c * 64) e 6 (pk_s5 c) (pk_s6 e he),
    or_eq_add (a * 262144 + b * 4096) (c * 64 + e) 12 (pk_s3 a b) (pk_s4 c e hc he)]
  clear mA mB mC mD eA eB eC eD
  unfold bytesOf
  simp only [Nat.reducePow]
  have q0 : (a * 262144 + b * 4096 + (c * 64 + e)) % 256 = c % 4 * 64 + e := by omega
  have q1 : (a * 262144 + b * 4096 + (c * 64 + e)) / 256 % 256 = b % 16 * 16 + c / 4 := by omega
  have q2 : (a * 262144 + b * 4096 + (c * 64 + e)) / 65536 % 256 = a * 4 + b / 16 := by omega
  have q3 : (a * 262144 + b * 4096 + (c * 64 + e)) / 16777216 % 256 = 0 := by omega
  rw [q0, q1, q2, q3]

theorem list_len_succ {α} {l : List α} {n : Nat} (h : l.length = n + 1) : ∃ x r, l = x :: r ∧ r.length = n := by
  cases l with
  | nil => simp at h
  | cons x r => exact ⟨x, r, rfl, by simpa using h⟩

/-- three bytes per four 6-bit values -/
def quadBytes : List Nat → List Nat
  | a :: b :: c :: e :: rest => (a * 4 + b / 16) :: (b % 16 * 16 + c / 4) :: (c % 4 * 64 + e) :: quadBytes rest
  | _ => []

theorem decShufvec_eq : decShufvec = [255, 255, 255, 255, 2, 1, 0, 6, 5, 4, 10, 9, 8, 14, 13, 12,
    255, 255, 255, 255, 2, 1, 0, 6, 5, 4, 10, 9, 8, 14, 13, 12] := by decide
theorem decShuf32_eq : decShuf32 = [1, 2, 3, 5, 6, 7, 0, 0] := by decide

set_option maxRecDepth 4000 in
theorem packVec_eq (v : List Nat) (hl : v.length = 32) (hv : ∀ x ∈ v, x < 64) :
    (packVec v).take 16 ++ ((packVec v).drop 16).take 8 = quadBytes v := by
  obtain ⟨x0, v0, rfl, hl0⟩ := list_len_succ hl
  obtain ⟨x1, v1, rfl, hl1⟩ := list_len_succ hl0
  obtain ⟨x2, v2, rfl, hl2⟩ := list_len_succ hl1
  obtain ⟨x3, v3, rfl, hl3⟩ := list_len_succ hl2
  obtain ⟨x4, v4, rfl, hl4⟩ := list_len_succ hl3
  obtain ⟨x5, v5, rfl, hl5⟩ := list_len_succ hl4
  obtain ⟨x6, v6, rfl, hl6⟩ := list_len_succ hl5
  obtain ⟨x7, v7, rfl, hl7⟩ := list_len_succ hl6
  obtain ⟨x8, v8, rfl, hl8⟩ := list_len_succ hl7
  obtain ⟨x9, v9, rfl, hl9⟩ := list_len_succ hl8
  obtain ⟨x10, v10, rfl, hl10⟩ := list_len_succ hl9
  obtain ⟨x11, v11, rfl, hl11⟩ := list_len_succ hl10
  obtain ⟨x12, v12, rfl, hl12⟩ := list_len_succ hl11
  obtain ⟨x13, v13, rfl, hl13⟩ := list_len_succ hl12
  obtain ⟨x14, v14, rfl, hl14⟩ := list_len_succ hl13
  obtain ⟨x15, v15, rfl, hl15⟩ := list_len_succ hl14
  obtain ⟨x16, v16, rfl, hl16⟩ := list_len_succ hl15
  obtain ⟨x17, v17, rfl, hl17⟩ := list_len_succ hl16
  obtain ⟨x18, v18, rfl, hl18⟩ := list_len_succ hl17
  obtain ⟨x19, v19, rfl, hl19⟩ := list_len_succ hl18
  obtain ⟨x20, v20, rfl, hl20⟩ := list_len_succ hl19
  obtain ⟨x21, v21, rfl, hl21⟩ := list_len_succ hl20
  obtain ⟨x22, v22, rfl, hl22⟩ := list_len_succ hl21
  obtain ⟨x23, v23, rfl, hl23⟩ := list_len_succ hl22
  obtain ⟨x24, v24, rfl, hl24⟩ := list_len_succ hl23
  obtain ⟨x25, v25, rfl, hl25⟩ := list_len_succ hl24
  obtain ⟨x26, v26, rfl, hl26⟩ := list_len_succ hl25
  obtain ⟨x27, v27, rfl, hl27⟩ := list_len_succ hl26
  obtain ⟨x28, v28, rfl, hl28⟩ := list_len_succ hl27
  obtain ⟨x29, v29, rfl, hl29⟩ := list_len_succ hl28
  obtain ⟨x30, v30, rfl, hl30⟩ := list_len_succ hl29
  obtain ⟨x31, v31, rfl, hl31⟩ := list_len_succ hl30
  have : v31 = [] := List.length_eq_zero_iff.mp hl31
  subst this
  simp only [List.mem_cons, List.not_mem_nil, or_false, forall_eq_or_imp, forall_eq] at hv
  obtain ⟨h0, h1, h2, h3, h4, h5, h6, h7, h8, h9, h10, h11, h12, h13, h14, h15, h16, h17, h18, h19, h20, h21, h22, h23,
    h24, h25, h26, h27, h28, h29, h30, h31⟩ := hv
  simp only [packVec, mapDwords, packDword_eq, h0, h1, h2, h3, h4, h5, h6, h7, h8, h9, h10, h11, h12, h13, h14, h15, h16, h17, h18,
    h19, h20, h21, h22, h23, h24, h25, h26, h27, h28, h29, h30, h31, decShufvec_eq, decShuf32_eq, quadBytes]
  simp [shuffleEpi8, shuffleLane, permutevar8x32]

/-! ### lanes: the range translations against the portable decoding table -/

theorem decFail_eq : decFail = 0 := by decide
theorem decBias_eq : decBias = 1 := by decide

/-- the five translations of `decode_vec` OR-ed together give, for each of the 256 byte values,
the portable table's value plus one, and 0 exactly where the portable decoder rejects the byte
(in particular for '=' and for every byte ≥ 0x80) -/
theorem decodeLane_table : ∀ c, c < 256 →
    decodeLane c = (match decVal (UInt8.ofNat c) false with | some v => v + 1 | none => 0) := by decide +kernel

/-- strict 6-bit values of a text (no padding anywhere) -/
def strictVals : List UInt8 → Option (List Nat)
  | [] => some []
  | c :: r =>
    match decVal c false, strictVals r with
    | some v, some vs => some (v :: vs)
    | _, _ => none

theorem strictVals_lt : ∀ (t : List UInt8) (vs : List Nat), strictVals t = some vs → (∀ x ∈ vs, x < 64) ∧ vs.length = t.length
  | [], vs, h => by simp [strictVals] at h; subst h; simp
  | c :: r, vs, h => by
    simp only [strictVals] at h
    cases h1 : decVal c false with
    | none => simp [h1] at h
    | some v =>
      cases h2 : strictVals r with
      | none => simp [h1, h2] at h
      | some vs' =>
        simp only [h1, h2, Option.some.injEq] at h
        subst h
        obtain ⟨ih1, ih2⟩ := strictVals_lt r vs' h2
        have := (decVal_strict h1).1
        constructor
        · intro x hx
          simp only [List.mem_cons] at hx
          rcases hx with rfl | hx
          · exact this
          · exact ih1 x hx
        · simp [ih2]

theorem decodeVec_cons (x : Nat) (xs : List Nat) :
    decodeVec (x :: xs) =
      if decodeLane x == decFail then none else
      match decodeVec xs with
      | none => none
      | some vs => some ((decodeLane x + 256 - decBias) % 256 :: vs) := by
  unfold decodeVec
  simp only [List.map_cons, List.any_cons]
  by_cases h : (decodeLane x == decFail) = true
  · simp [h]
  · simp only [h, Bool.false_or]
    by_cases h2 : (List.map decodeLane xs).any (· == decFail) = true
    · simp [h2]
    · simp [h2]

theorem decodeVec_eq : ∀ t : List UInt8, decodeVec (t.map (·.toNat)) = strictVals t
  | [] => by simp [decodeVec, strictVals]
  | c :: r => by
    rw [List.map_cons, decodeVec_cons, decodeVec_eq r, strictVals, decodeLane_table _ c.toNat_lt, UInt8.ofNat_toNat,
      decFail_eq, decBias_eq]
    cases h1 : decVal c false with
    | none => simp
    | some v =>
      have hv := (decVal_strict h1).1
      have e : (v + 1 + 256 - 1) % 256 = v := by omega
      simp only [e]
      have ne : (v + 1 == 0) = false := by simp
      simp only [ne]
      cases strictVals r <;> simp

/-- bridge: `decode()` copies 64-bit element 2 of the packed vector to `out + 16` (either configuration) -/
theorem decHi_eq : decHiElem = 2 ∧ decHiOff = 16 := by decide

/-- `decode`: 32 characters → 24 bytes, exactly the strict per-quantum formulas -/
theorem decode32_eq (t : List UInt8) (hl : t.length = 32) :
    decode32 (t.map (·.toNat)) = (strictVals t).map quadBytes := by
  unfold decode32
  rw [decodeVec_eq]
  cases h : strictVals t with
  | none => rfl
  | some vs =>
    obtain ⟨h1, h2⟩ := strictVals_lt t vs h
    simp only [Option.map_some, decHi_eq.1, decHi_eq.2, List.take_take, Nat.min_self]
    rw [packVec_eq vs (by rw [h2, hl]) h1]

end AwsVerif.Proofs.C05
