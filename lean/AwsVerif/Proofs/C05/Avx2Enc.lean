import AwsVerif.Proofs.C05.Avx2Dec
set_option linter.unusedSimpArgs false
set_option linter.unusedVariables false
namespace AwsVerif.Proofs.C05
open AwsVerif.Codec AwsVerif.CodecSpec AwsVerif.CodecAvx2 AwsVerif.Gen.CodecAvx2Consts

/-- the five translations of `encode_chars` OR-ed together are the RFC 4648 alphabet on 0..63 -/
theorem encodeLane_table : ∀ i, i < 64 → encodeLane i = (ch i).toNat := by decide +kernel

theorem and63 (x : Nat) : x &&& 0x3F = x % 64 := Nat.and_two_pow_sub_one_eq_mod x 6

theorem sd_a (a b c : Nat) (ha : a < 256) (hb : b < 256) (hc : c < 256) :
    (c + b * 256 + a * 65536) % 64 * 16777216 % 4294967296 = c % 64 * 16777216 := by omega
theorem sd_b (a b c : Nat) (ha : a < 256) (hb : b < 256) (hc : c < 256) :
    (c + b * 256 + a * 65536) / 64 % 64 * 64 * 1024 % 4294967296 = (b % 16 * 4 + c / 64) * 65536 := by omega
theorem sd_c (a b c : Nat) (ha : a < 256) (hb : b < 256) (hc : c < 256) :
    (c + b * 256 + a * 65536) / 4096 % 64 * 4096 / 16 = (a % 4 * 16 + b / 16) * 256 := by omega
theorem sd_d (a b c : Nat) (ha : a < 256) (hb : b < 256) (hc : c < 256) :
    (c + b * 256 + a * 65536) / 262144 % 64 * 262144 / 262144 = a / 4 := by omega

/-- bridge: the masks and shift counts of `encode_stride` as extracted from the source -/
theorem strideOps_eq : strideOps = [(0x3F, 1, 24), (0x3F <<< 6, 1, 10), (0x3F <<< 12, 0, 4), (0x3F <<< 18, 0, 18)] := by decide +kernel

theorem strideDword_unfold (vec : Nat) : strideDword vec =
    ((((vec &&& 0x3F) <<< 24) % 2^32 ||| ((vec &&& (0x3F <<< 6)) <<< 10) % 2^32) |||
      ((vec &&& (0x3F <<< 12)) >>> 4 ||| (vec &&& (0x3F <<< 18)) >>> 18)) := by
  unfold strideDword
  rw [strideOps_eq]
  rfl

theorem strideDword_eq (a b c : Nat) (ha : a < 256) (hb : b < 256) (hc : c < 256) :
    bytesOf (strideDword (dwordOf c b a 0)) = [a / 4, a % 4 * 16 + b / 16, b % 16 * 4 + c / 64, c % 64] := by
  rw [strideDword_unfold]
  unfold dwordOf
  simp only [and_shl, and63]
  simp only [Nat.shiftLeft_eq, Nat.shiftRight_eq_div_pow, Nat.reducePow, Nat.zero_mul, Nat.add_zero]
  rw [sd_a a b c ha hb hc, sd_b a b c ha hb hc, sd_c a b c ha hb hc, sd_d a b c ha hb hc]
  have b0 : c % 64 < 64 := by omega
  have b1 : b % 16 * 4 + c / 64 < 64 := by omega
  have b2 : a % 4 * 16 + b / 16 < 64 := by omega
  have b3 : a / 4 < 64 := by omega
  generalize c % 64 = d0 at *
  generalize b % 16 * 4 + c / 64 = d1 at *
  generalize a % 4 * 16 + b / 16 = d2 at *
  generalize a / 4 = d3 at *
  have o1 : d0 * 16777216 ||| d1 * 65536 = d0 * 16777216 + d1 * 65536 := by
    exact or_eq_add _ _ 24 (by omega) (by omega)
  have o2 : d2 * 256 ||| d3 = d2 * 256 + d3 := or_eq_add _ _ 8 (by omega) (by omega)
  have o3 : (d0 * 16777216 + d1 * 65536) ||| (d2 * 256 + d3) = d0 * 16777216 + d1 * 65536 + (d2 * 256 + d3) :=
    or_eq_add _ _ 16 (by omega) (by omega)
  rw [o1, o2, o3]
  unfold bytesOf
  simp only [Nat.reducePow]
  have q0 : (d0 * 16777216 + d1 * 65536 + (d2 * 256 + d3)) % 256 = d3 := by omega
  have q1 : (d0 * 16777216 + d1 * 65536 + (d2 * 256 + d3)) / 256 % 256 = d2 := by omega
  have q2 : (d0 * 16777216 + d1 * 65536 + (d2 * 256 + d3)) / 65536 % 256 = d1 := by omega
  have q3 : (d0 * 16777216 + d1 * 65536 + (d2 * 256 + d3)) / 16777216 % 256 = d0 := by omega
  rw [q0, q1, q2, q3]


/-- four characters (as byte values) per three bytes -/
def encTriples : List Nat → List Nat
  | a :: b :: c :: rest =>
    (ch (a / 4)).toNat :: (ch (a % 4 * 16 + b / 16)).toNat :: (ch (b % 16 * 4 + c / 64)).toNat :: (ch (c % 64)).toNat ::
      encTriples rest
  | _ => []

theorem encLane0 (a : Nat) (ha : a < 256) : encodeLane (a / 4) = (ch (a / 4)).toNat := encodeLane_table _ (by omega)
theorem encLane1 (a b : Nat) (ha : a < 256) (hb : b < 256) :
    encodeLane (a % 4 * 16 + b / 16) = (ch (a % 4 * 16 + b / 16)).toNat := encodeLane_table _ (by omega)
theorem encLane2 (b c : Nat) (hb : b < 256) (hc : c < 256) :
    encodeLane (b % 16 * 4 + c / 64) = (ch (b % 16 * 4 + c / 64)).toNat := encodeLane_table _ (by omega)
theorem encLane3 (c : Nat) : encodeLane (c % 64) = (ch (c % 64)).toNat := encodeLane_table _ (by omega)

theorem encShufvec_eq : encShufvec = [2, 1, 0, 255, 5, 4, 3, 255, 8, 7, 6, 255, 11, 10, 9, 255,
    2, 1, 0, 255, 5, 4, 3, 255, 8, 7, 6, 255, 11, 10, 9, 255] := by decide
theorem encShuf32_eq : encShuf32 = [0, 1, 2, 6, 3, 4, 5, 7] := by decide

set_option maxRecDepth 4000 in
/-- `encode_stride`: the 32 characters for the first 24 of the 32 loaded bytes (the other 8 are ignored) -/
theorem encodeStride_eq (v : List Nat) (hl : v.length = 32) (hv : ∀ x ∈ v, x < 256) :
    encodeStride v = encTriples (v.take 24) := by
  obtain ⟨x0, v0, rfl, hl0⟩ := list_len_succ hl
  obtain ⟨x1, v1, rfl, hl1⟩ := list_len_succ hl0
  obtain ⟨x2, v2, rfl, hl2⟩ := list_len_succ hl1
  obtain ⟨x3, v3, rfl, hl3⟩ := list_len_succ hl2
  obtain ⟨x4, v4, rfl, hl4⟩ := list_len_succ hl3
  obtain ⟨x5, v5, rfl, hl5⟩ := list_len_succ hl4
  obtain ⟨x6, v6, rfl, hl6⟩ := list_len_succ hl5
  obtain ⟨x7, v7, rfl, hl7⟩ := list_len_succ hl6
  obtain ⟨x8, v8, rfl, hl8⟩ := list_len_succ hl7
  obtain ⟨x9, v9, rfl, hl9⟩ := list_len_succ hl8
  obtain ⟨x10, v10, rfl, hl10⟩ := list_len_succ hl9
  obtain ⟨x11, v11, rfl, hl11⟩ := list_len_succ hl10
  obtain ⟨x12, v12, rfl, hl12⟩ := list_len_succ hl11
  obtain ⟨x13, v13, rfl, hl13⟩ := list_len_succ hl12
  obtain ⟨x14, v14, rfl, hl14⟩ := list_len_succ hl13
  obtain ⟨x15, v15, rfl, hl15⟩ := list_len_succ hl14
  obtain ⟨x16, v16, rfl, hl16⟩ := list_len_succ hl15
  obtain ⟨x17, v17, rfl, hl17⟩ := list_len_succ hl16
  obtain ⟨x18, v18, rfl, hl18⟩ := list_len_succ hl17
  obtain ⟨x19, v19, rfl, hl19⟩ := list_len_succ hl18
  obtain ⟨x20, v20, rfl, hl20⟩ := list_len_succ hl19
  obtain ⟨x21, v21, rfl, hl21⟩ := list_len_succ hl20
  obtain ⟨x22, v22, rfl, hl22⟩ := list_len_succ hl21
  obtain ⟨x23, v23, rfl, hl23⟩ := list_len_succ hl22
  obtain ⟨x24, v24, rfl, hl24⟩ := list_len_succ hl23
  obtain ⟨x25, v25, rfl, hl25⟩ := list_len_succ hl24
  obtain ⟨x26, v26, rfl, hl26⟩ := list_len_succ hl25
  obtain ⟨x27, v27, rfl, hl27⟩ := list_len_succ hl26
  obtain ⟨x28, v28, rfl, hl28⟩ := list_len_succ hl27
  obtain ⟨x29, v29, rfl, hl29⟩ := list_len_succ hl28
  obtain ⟨x30, v30, rfl, hl30⟩ := list_len_succ hl29
  obtain ⟨x31, v31, rfl, hl31⟩ := list_len_succ hl30
  have : v31 = [] := List.length_eq_zero_iff.mp hl31
  subst this
  simp only [List.mem_cons, List.not_mem_nil, or_false, forall_eq_or_imp, forall_eq] at hv
  obtain ⟨h0, h1, h2, h3, h4, h5, h6, h7, h8, h9, h10, h11, h12, h13, h14, h15, h16, h17, h18, h19, h20, h21, h22, h23, h24, h25, h26, h27, h28, h29, h30, h31⟩ := hv
  simp only [encodeStride, encShufvec_eq, encShuf32_eq]
  simp [shuffleEpi8, shuffleLane, permutevar8x32, mapDwords, strideDword_eq, encTriples, encLane0, encLane1, encLane2, encLane3,
    h0, h1, h2, h3, h4, h5, h6, h7, h8, h9, h10, h11, h12, h13, h14, h15, h16, h17, h18, h19, h20, h21, h22, h23, h24, h25, h26, h27, h28, h29, h30, h31]

end AwsVerif.Proofs.C05
