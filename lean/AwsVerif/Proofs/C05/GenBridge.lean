import AwsVerif.Gen.CodecFns
import AwsVerif.Proofs.C05.Tables
/-! C05 bridge: the hand-written model `Model/Codec.lean` against the layer generated from /repo's current
`source/encoding.c` (`Gen/CodecFns.lean`, rewritten by gen/codec_gen.py on every check): `Model.f = Gen.f`.
An edit to a constant, operator or guard of the portable code changes the right-hand sides and breaks a named theorem. -/
set_option linter.unusedSimpArgs false
set_option linter.unusedVariables false
namespace AwsVerif.Proofs.C05
open AwsVerif AwsVerif.Codec AwsVerif.Gen AwsVerif.Gen.CodecTables

/-- library convention `int` status + out-parameter, as the model's `Except` -/
def resOf (r : Except Err Nat) (code : Nat) : CSem.Res :=
  match r with
  | .ok v => CSem.Res.ok v
  | .error _ => CSem.Res.err code

/-! ### length functions -/

theorem gen_b64_encoded_len (n : Nat) : CodecFns.aws_base64_compute_encoded_len n = resOf (computeEncodedLen n) 5 := by
  unfold CodecFns.aws_base64_compute_encoded_len computeEncodedLen wrap resOf
  simp only [Nat.reducePow]
  by_cases h1 : (n + 2) % 18446744073709551616 < n
  · simp [h1]
  · by_cases h2 : 4 * ((n + 2) % 18446744073709551616 / 3) % 18446744073709551616 < (n + 2) % 18446744073709551616 / 3
    · simp [h1, h2]
    · simp [h1, h2]

theorem gen_hex_encoded_len (n : Nat) : CodecFns.aws_hex_compute_encoded_len n = resOf (hexComputeEncodedLen n) 5 := by
  unfold CodecFns.aws_hex_compute_encoded_len hexComputeEncodedLen wrap resOf
  simp only [Nat.reducePow]
  by_cases h1 : (n <<< 1) % 18446744073709551616 < n <;> simp [h1]

theorem gen_hex_decoded_len (n : Nat) : CodecFns.aws_hex_compute_decoded_len n = resOf (hexComputeDecodedLen n) 5 := by
  unfold CodecFns.aws_hex_compute_decoded_len hexComputeDecodedLen wrap resOf
  simp only [Nat.reducePow]
  by_cases h1 : (n + 1) % 18446744073709551616 < n <;> simp [h1]

theorem gen_b64_decoded_len (t : List UInt8) (hl : t.length < 2 ^ 64) :
    CodecFns.verif_c05_declen t.length (t.getD (t.length - 1) 0).toNat (t.getD (t.length - 2) 0).toNat =
      resOf (computeDecodedLen t) 9 := by
  unfold CodecFns.verif_c05_declen computeDecodedLen resOf
  have m3 (z : Nat) : z &&& 0x03 = z % 4 := Nat.and_two_pow_sub_one_eq_mod z 2
  have m3' (z : Nat) : z &&& 3 = z % 4 := m3 z
  have e1 : ∀ c : UInt8, (c.toNat = 61) = (c = 61) := by
    intro c; apply propext; constructor
    · intro h; exact UInt8.toNat_inj.mp (by simpa using h)
    · intro h; subst h; rfl
  simp only [m3, m3', e1, Nat.reducePow]
  by_cases h0 : t.length = 0
  · simp [h0]
  · have hb : (t.length == 0) = false := by rw [beq_eq_false_iff_ne]; exact h0
    simp only [h0, hb, if_false, Bool.false_eq_true]
    by_cases h4 : t.length % 4 = 0
    · have hb4 : (t.length % 4 != 0) = false := by simp [h4]
      have big : t.length / 4 * 3 ≥ 3 := by omega
      have small : t.length / 4 * 3 < 18446744073709551616 := by omega
      simp only [h4, hb4, ne_eq, not_true_eq_false, not_false_eq_true, if_true, if_false, Bool.false_eq_true]
      generalize t.getD (t.length - 1) 0 = x
      generalize t.getD (t.length - 2) 0 = y
      have e : t.length / 4 * 3 % 18446744073709551616 = t.length / 4 * 3 := by omega
      rw [e]
      by_cases a : x = 61
      · by_cases b : y = 61
        · simp only [a, b, and_self, if_true, beq_self_eq_true, Bool.and_self]
          exact congrArg CSem.Res.ok (by omega)
        · have bb : (y == 61) = false := by simp [b]
          simp only [a, b, and_false, if_false, if_true, beq_self_eq_true, bb, Bool.and_false, Bool.false_eq_true]
          exact congrArg CSem.Res.ok (by omega)
      · have ab : (x == 61) = false := by simp [a]
        simp only [a, false_and, if_false, ab, Bool.false_and, Bool.false_eq_true]
        exact congrArg CSem.Res.ok (by omega)
    · have hb4 : (t.length % 4 != 0) = true := by simp [h4]
      simp [h4, hb4]

/-! ### portable base64 encoder -/

/-- the four characters of one loop iteration, through the generated block assembly and table indices -/
theorem gen_encQuad (b0 b1 b2 : Nat) (h1 h2 : Bool) :
    encQuad b0 (if h1 then b1 else 0) (if h2 then b2 else 0) =
      [encChar (CodecFns.verif_c05_enc_idx0 (CodecFns.verif_c05_enc_block b0 b1 b2 (if h1 then 1 else 0) (if h2 then 1 else 0))),
       encChar (CodecFns.verif_c05_enc_idx1 (CodecFns.verif_c05_enc_block b0 b1 b2 (if h1 then 1 else 0) (if h2 then 1 else 0))),
       encChar (CodecFns.verif_c05_enc_idx2 (CodecFns.verif_c05_enc_block b0 b1 b2 (if h1 then 1 else 0) (if h2 then 1 else 0))),
       encChar (CodecFns.verif_c05_enc_idx3 (CodecFns.verif_c05_enc_block b0 b1 b2 (if h1 then 1 else 0) (if h2 then 1 else 0)))] := by
  unfold encQuad CodecFns.verif_c05_enc_block CodecFns.verif_c05_enc_idx0 CodecFns.verif_c05_enc_idx1
    CodecFns.verif_c05_enc_idx2 CodecFns.verif_c05_enc_idx3
  cases h1 <;> cases h2 <;> simp

/-- block_count, remainder_count and the two padding stores of `aws_base64_encode` -/
theorem gen_encPad (n outLen : Nat) (hn : n + 2 < 2 ^ 64) (hb : outLen + (n + 2) / 3 * 4 < 2 ^ 64) (hpos : n > 0) :
    CodecFns.verif_c05_block_count n = (n + 2) / 3 ∧ CodecFns.verif_c05_remainder n = n % 3 ∧
    CodecFns.verif_c05_pad_idx1 outLen (CodecFns.verif_c05_block_count n) = outLen + ((n + 2) / 3 * 4 - 1) ∧
    CodecFns.verif_c05_pad_idx2 outLen (CodecFns.verif_c05_block_count n) = outLen + ((n + 2) / 3 * 4 - 2) ∧
    CodecFns.verif_c05_pad_char1 = 61 ∧ CodecFns.verif_c05_pad_char2 = 61 := by
  unfold CodecFns.verif_c05_block_count CodecFns.verif_c05_remainder CodecFns.verif_c05_pad_idx1 CodecFns.verif_c05_pad_idx2
    CodecFns.verif_c05_pad_char1 CodecFns.verif_c05_pad_char2
  simp only [Nat.reducePow] at hn hb
  have e : (n + 2) % 18446744073709551616 = n + 2 := by omega
  rw [e]
  refine ⟨rfl, rfl, ?_, ?_, rfl, rfl⟩ <;> omega

/-! ### portable base64 decoder -/

theorem gen_invalidMarker : CodecFns.invalidMarker = 0xDD := by decide

/-- `s_base64_get_decoded_value`: table lookup, then the generated acceptance test -/
theorem gen_decVal (c : UInt8) (s : Bool) :
    decVal c s = if CodecFns.verif_c05_accept (tbl base64DecodingTable c.toNat) (if s then 1 else 0) then
      some (tbl base64DecodingTable c.toNat) else none := by
  unfold decVal CodecFns.verif_c05_accept
  simp only [sentinel_eq]
  cases s <;> simp

theorem gen_dec0 (v1 v2 : Nat) (h1 : v1 < 256) : (dec0 v1 v2).toNat = CodecFns.verif_c05_dec0 v1 v2 := by
  unfold dec0 CodecFns.verif_c05_dec0
  have : (v1 <<< 2) % 4294967296 = v1 <<< 2 := Nat.mod_eq_of_lt (by rw [Nat.shiftLeft_eq]; omega)
  simp [this]

theorem gen_dec1 (v2 v3 : Nat) (h2 : v2 < 256) : (dec1 v2 v3).toNat = CodecFns.verif_c05_dec1 v2 v3 := by
  unfold dec1 CodecFns.verif_c05_dec1
  have : (v2 <<< 4) % 4294967296 = v2 <<< 4 := Nat.mod_eq_of_lt (by rw [Nat.shiftLeft_eq]; omega)
  simp [this]

theorem gen_dec2 (v3 v4 : Nat) : (dec2 v3 v4).toNat = CodecFns.verif_c05_dec2 v3 v4 := by
  unfold dec2 CodecFns.verif_c05_dec2
  have : ((v3 &&& 3) <<< 6) % 4294967296 = (v3 &&& 3) <<< 6 := by
    apply Nat.mod_eq_of_lt
    have : v3 &&& 3 < 4 := by rw [show (3 : Nat) = 2 ^ 2 - 1 from rfl, Nat.and_two_pow_sub_one_eq_mod]; omega
    rw [Nat.shiftLeft_eq]; omega
  simp [this]

/-- the trailing-bits tests of the final quantum -/
theorem gen_trail (v : Nat) : ((v &&& 0x0F) != 0) = CodecFns.verif_c05_trail2 v ∧ ((v &&& 0x03) != 0) = CodecFns.verif_c05_trail3 v := by
  unfold CodecFns.verif_c05_trail2 CodecFns.verif_c05_trail3
  constructor
  · by_cases h : v &&& 15 = 0 <;> simp [h]
  · by_cases h : v &&& 3 = 0 <;> simp [h]

/-! ### hex -/

theorem gen_hex_idx (b : Nat) : (b >>> 4) &&& 0x0f = CodecFns.verif_c05_hex_idx0 b ∧ b &&& 0x0f = CodecFns.verif_c05_hex_idx1 b :=
  ⟨rfl, rfl⟩

theorem gen_hex_pair (h l : Nat) : (((h <<< 4) % 256) ||| l) % 256 = CodecFns.verif_c05_hex_pair h l := by
  unfold CodecFns.verif_c05_hex_pair
  have : (h <<< 4) % 4294967296 % 256 = (h <<< 4) % 256 := Nat.mod_mod_of_dvd _ (by decide)
  simp [this]

/-- `s_hex_decode_char_to_int` as translated from the source = the tabulated function the model uses (all 256 bytes) -/
theorem gen_hexVal : ∀ c, c < 256 →
    hexVal (UInt8.ofNat c) = (if (CodecFns.s_hex_decode_char_to_int c true).1 = 0 then some (CodecFns.s_hex_decode_char_to_int c true).2 else none) := by
  decide +kernel

/-! ### UTF-8 decoder step -/

/-- first byte of a sequence: the generated if-chain gives `remaining`, `codepoint`, `min` (255 = rejected) -/
theorem gen_utf8_lead (d : Utf8) (hd : d.remaining = 0) (b : UInt8) :
    updateByte d b =
      if CodecFns.verif_c05_utf8_lead_remaining b.toNat = 255 then (d, some .invalidUtf8, none)
      else ({ remaining := CodecFns.verif_c05_utf8_lead_remaining b.toNat,
              codepoint := CodecFns.verif_c05_utf8_lead_codepoint b.toNat,
              min := CodecFns.verif_c05_utf8_lead_min b.toNat }, none,
            if CodecFns.verif_c05_utf8_lead_remaining b.toNat = 0 then some (CodecFns.verif_c05_utf8_lead_codepoint b.toNat) else none) := by
  unfold updateByte CodecFns.verif_c05_utf8_lead_remaining CodecFns.verif_c05_utf8_lead_codepoint CodecFns.verif_c05_utf8_lead_min
  simp only [hd, beq_self_eq_true, if_true]
  by_cases c1 : b.toNat &&& 128 = 0
  · simp [c1]
  · by_cases c2 : b.toNat &&& 224 = 192
    · simp [c1, c2]
    · by_cases c3 : b.toNat &&& 240 = 224
      · simp [c1, c2, c3]
      · by_cases c4 : b.toNat &&& 248 = 240
        · simp [c1, c2, c3, c4]
        · simp [c1, c2, c3, c4]

/-- continuation byte: the generated continuation test, accumulation, overlong and surrogate tests -/
theorem gen_utf8_cont (d : Utf8) (hd : d.remaining ≠ 0) (b : UInt8) :
    updateByte d b =
      if CodecFns.verif_c05_utf8_not_cont b.toNat then (d, some .invalidUtf8, none) else
      let cp := CodecFns.verif_c05_utf8_accum d.codepoint b.toNat
      let d' : Utf8 := { d with codepoint := cp, remaining := d.remaining - 1 }
      if d.remaining - 1 = 0 then
        if CodecFns.verif_c05_utf8_overlong cp d.min then (d', some .invalidUtf8, none)
        else if CodecFns.verif_c05_utf8_surrogate cp then (d', some .invalidUtf8, none)
        else (d', none, some cp)
      else (d', none, none) := by
  unfold updateByte CodecFns.verif_c05_utf8_not_cont CodecFns.verif_c05_utf8_accum CodecFns.verif_c05_utf8_overlong
    CodecFns.verif_c05_utf8_surrogate
  have h0 : (d.remaining == 0) = false := by rw [beq_eq_false_iff_ne]; exact hd
  simp only [h0, Bool.false_eq_true, if_false, Nat.reducePow]
  by_cases c : b.toNat &&& 192 = 128
  · by_cases r : d.remaining - 1 = 0
    · by_cases o : (d.codepoint <<< 6 % 4294967296 ||| b.toNat &&& 63) < d.min
      · simp [c, r, o]
      · by_cases s1 : (d.codepoint <<< 6 % 4294967296 ||| b.toNat &&& 63) ≥ 55296 ∧ (d.codepoint <<< 6 % 4294967296 ||| b.toNat &&& 63) ≤ 57343
        · simp [c, r, o, s1]
        · simp [c, r, o, s1]
    · simp [c, r]
  · simp [c]

/-- `aws_utf8_decoder_finalize`'s verdict is `remaining == 0` (shape checked by the generator) -/
theorem gen_utf8_finalize (d : Utf8) : (finalize d).2 = if d.remaining = 0 then none else some .invalidUtf8 := by
  unfold finalize
  by_cases h : d.remaining = 0 <;> simp [h]

end AwsVerif.Proofs.C05
