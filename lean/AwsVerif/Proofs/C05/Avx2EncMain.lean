import AwsVerif.Proofs.C05.Avx2Enc
set_option linter.unusedSimpArgs false
set_option linter.unusedVariables false
namespace AwsVerif.Proofs.C05
open AwsVerif.Codec AwsVerif.CodecSpec AwsVerif.CodecAvx2 AwsVerif.Gen.CodecAvx2Consts

theorem encLoopMin_eq : encLoopMin = 32 := by decide
theorem encStride_eq : encStride = 24 := by decide
theorem encPad_eq : AwsVerif.Gen.CodecAvx2Consts.encPad = 61 := by decide

theorem specEncode_append : ∀ (a b : List UInt8), a.length % 3 = 0 → specEncode (a ++ b) = specEncode a ++ specEncode b
  | [], b, _ => by simp [specEncode]
  | [_], _, h | [_, _], _, h => by simp at h
  | x :: y :: z :: a, b, h => by
    have h' : a.length % 3 = 0 := by simp only [List.length_cons] at h; omega
    simp [specEncode, specEncode_append a b h']

/-- full strides: `encTriples` is the reference encoder on whole 24-bit groups -/
theorem encTriples_spec : ∀ (bs : List UInt8), bs.length % 3 = 0 → encTriples (bs.map (·.toNat)) = (specEncode bs).map (·.toNat)
  | [], _ => by simp [encTriples, specEncode]
  | [_], h | [_, _], h => by simp at h
  | x :: y :: z :: a, h => by
    have h' : a.length % 3 = 0 := by simp only [List.length_cons] at h; omega
    simp [encTriples, specEncode, encTriples_spec a h']

/-- the last, zero-filled stride truncated to `outlen` = what the portable loop emits before padding -/
theorem encTriples_zero_fill : ∀ (inp : List UInt8) (m : Nat), (inp.length + m) % 3 = 0 →
    (encTriples (inp.map (·.toNat) ++ List.replicate m 0)).take (4 * ((inp.length + 2) / 3)) = (encBlocks inp).map (·.toNat)
  | [], m, _ => by simp [encBlocks]
  | [a], m, h => by
    obtain ⟨k, rfl⟩ : ∃ k, m = k + 2 := ⟨m - 2, by simp only [List.length_cons, List.length_nil] at h; omega⟩
    have ha := a.toNat_lt
    simp [List.replicate_succ, encTriples, encBlocks, encQuad_eq _ _ _ ha (by omega : 0 < 256) (by omega : 0 < 256)]
  | [a, b], m, h => by
    obtain ⟨k, rfl⟩ : ∃ k, m = k + 1 := ⟨m - 1, by simp only [List.length_cons, List.length_nil] at h; omega⟩
    have ha := a.toNat_lt
    have hb := b.toNat_lt
    simp [List.replicate_succ, encTriples, encBlocks, encQuad_eq _ _ _ ha hb (by omega : 0 < 256)]
  | a :: b :: c :: rest, m, h => by
    have h' : (rest.length + m) % 3 = 0 := by simp only [List.length_cons] at h; omega
    have ih := encTriples_zero_fill rest m h'
    have e : 4 * ((rest.length + 1 + 1 + 1 + 2) / 3) = 4 * ((rest.length + 2) / 3) + 1 + 1 + 1 + 1 := by omega
    simp only [List.length_cons, List.map_cons, List.cons_append, encTriples, encBlocks, e, List.take_succ_cons, ih,
      encQuad_eq _ _ _ a.toNat_lt b.toNat_lt c.toNat_lt]
    simp

theorem map_set_toNat (l : List UInt8) (i : Nat) (x : UInt8) : (l.map (·.toNat)).set i x.toNat = (l.set i x).map (·.toNat) := by
  simp [List.map_set]

/-- a final stride of fewer than 24 bytes, with its padding stores = the reference encoder -/
theorem encodeTail_short (inp : List UInt8) (hl : inp.length < 24) (fuel : Nat) :
    encodeTail (fuel + 1) (inp.map (·.toNat)) = (specEncode inp).map (·.toNat) := by
  unfold encodeTail
  simp only [List.length_map, encStride_eq, encPad_eq]
  by_cases h0 : inp.length = 0
  · have : inp = [] := List.length_eq_zero_iff.mp h0
    subst this; simp [specEncode]
  · have hb : (inp.length == 0) = false := by simp [h0]
    rw [hb]
    simp only [Bool.false_eq_true, if_false, if_neg (by omega : ¬ inp.length > 24), if_pos hl]
    have htake : (inp.map (·.toNat)).take inp.length = inp.map (·.toNat) :=
      List.take_of_length_le (by rw [List.length_map]; exact Nat.le_refl _)
    rw [htake]
    have hs : encodeStride (inp.map (·.toNat) ++ List.replicate (32 - inp.length) 0) =
        encTriples (inp.map (·.toNat) ++ List.replicate (24 - inp.length) 0) := by
      rw [encodeStride_eq _ (by simp; omega) (by
        intro x hx
        simp only [List.mem_append, List.mem_map, List.mem_replicate] at hx
        rcases hx with ⟨c, _, rfl⟩ | ⟨_, rfl⟩
        · exact c.toNat_lt
        · omega)]
      congr 1
      rw [List.take_append, List.take_of_length_le (by simp; omega)]
      simp only [List.length_map, List.take_replicate]
      congr 2
      omega
    rw [hs]
    have hout : (inp.length + 2) / 3 * 4 = 4 * ((inp.length + 2) / 3) := by omega
    rw [hout, encTriples_zero_fill inp (24 - inp.length) (by omega)]
    rw [← encPad_encBlocks inp]
    unfold AwsVerif.Codec.encPad
    have e61 : (61 : Nat) = (61 : UInt8).toNat := rfl
    have i1 : 4 * ((inp.length + 2) / 3) - 1 = (inp.length + 2) / 3 * 4 - 1 := by omega
    have i2 : 4 * ((inp.length + 2) / 3) - 2 = (inp.length + 2) / 3 * 4 - 2 := by omega
    rw [i1, i2, e61]
    by_cases r0 : inp.length % 3 = 0
    · simp [r0]
    · by_cases r1 : inp.length % 3 = 1
      · have g : inp.length % 3 ≥ 1 := by omega
        simp [r1, map_set_toNat]
      · have r2 : inp.length % 3 = 2 := by omega
        simp [r2, map_set_toNat]


theorem stride_full (inp : List UInt8) (h24 : inp.length ≥ 24) (pad : List Nat) (hp : ∀ x ∈ pad, x < 256)
    (hl : ((inp.take 24).map (·.toNat) ++ pad).length = 32) :
    encodeStride ((inp.take 24).map (·.toNat) ++ pad) = (specEncode (inp.take 24)).map (·.toNat) := by
  have l24 : (inp.take 24).length = 24 := by simp; omega
  rw [encodeStride_eq _ hl (by
    intro x hx
    simp only [List.mem_append, List.mem_map] at hx
    rcases hx with ⟨c, _, rfl⟩ | hx
    · exact c.toNat_lt
    · exact hp x hx)]
  rw [List.take_append, List.take_of_length_le (by simp; omega)]
  simp only [List.length_map, l24, Nat.sub_self, List.take_zero, List.append_nil]
  exact encTriples_spec _ (by rw [l24])

/-- the bounce-buffer loop of the vector encoder = the reference encoder -/
theorem encodeTail_eq : ∀ (fuel : Nat) (inp : List UInt8), inp.length < fuel →
    encodeTail fuel (inp.map (·.toNat)) = (specEncode inp).map (·.toNat)
  | 0, _, h => by omega
  | fuel + 1, inp, hf => by
    by_cases hl : inp.length < 24
    · exact encodeTail_short inp hl fuel
    · have h24 : inp.length ≥ 24 := by omega
      unfold encodeTail
      simp only [List.length_map, encStride_eq]
      have hb : (inp.length == 0) = false := by rw [beq_eq_false_iff_ne]; omega
      rw [hb]
      simp only [Bool.false_eq_true, if_false, if_neg hl]
      have hs : (if inp.length > 24 then 24 else inp.length) = 24 := by split <;> omega
      rw [hs]
      have ih := encodeTail_eq fuel (inp.drop 24) (by rw [List.length_drop]; omega)
      rw [← List.map_take, ← List.map_drop, ih]
      have hst := stride_full inp h24 (List.replicate (32 - 24) 0) (by intro x hx; simp at hx; omega) (by simp; omega)
      rw [hst]
      have l32 : ((specEncode (inp.take 24)).map (·.toNat)).length = 32 := by
        rw [List.length_map, specEncode_length]; simp; omega
      rw [show (24 + 2) / 3 * 4 = 32 from rfl, List.take_of_length_le (by rw [l32]; exact Nat.le_refl _)]
      rw [← List.map_append, ← specEncode_append _ _ (by simp; omega), List.take_append_drop]

/-- the full-vector loop followed by the bounce-buffer loop = the reference encoder -/
theorem encodeLoop_eq : ∀ (fuel : Nat) (inp : List UInt8), inp.length < fuel →
    encodeLoop fuel (inp.map (·.toNat)) = (specEncode inp).map (·.toNat)
  | 0, _, h => by omega
  | fuel + 1, inp, hf => by
    unfold encodeLoop
    simp only [List.length_map, encLoopMin_eq, encStride_eq]
    by_cases h32 : inp.length ≥ 32
    · rw [if_pos h32]
      have ih := encodeLoop_eq fuel (inp.drop 24) (by rw [List.length_drop]; omega)
      rw [← List.map_drop, ih]
      have e : (inp.map (·.toNat)).take 32 = (inp.take 24).map (·.toNat) ++ ((inp.drop 24).take 8).map (·.toNat) := by
        rw [← List.map_append, ← List.map_take]
        congr 1
        rw [show 32 = 24 + 8 from rfl, List.take_add]
      rw [e, stride_full inp (by omega) _ (by
        intro x hx
        simp only [List.mem_map] at hx
        obtain ⟨c, _, rfl⟩ := hx
        exact c.toNat_lt) (by simp; omega)]
      rw [← List.map_append, ← specEncode_append _ _ (by simp; omega), List.take_append_drop]
    · rw [if_neg h32]
      exact encodeTail_eq _ inp (by omega)

/-- `aws_base64_encode` through the AVX2 path = through the portable path: the same `Out`
(return code, `len`, offset and stored bytes), for every input, pre-existing length and capacity -/
theorem base64EncodeAvx2_eq (bs : List UInt8) (outLen cap : Nat) :
    base64EncodeAvx2 bs outLen cap = base64Encode bs outLen cap := by
  unfold base64EncodeAvx2 base64Encode
  cases hc : base64EncodeChecks bs.length outLen cap with
  | error e => rfl
  | ok encLen =>
    dsimp only
    congr 1
    unfold encodeSse41
    rw [List.length_map, encodeLoop_eq _ bs (by omega), encPad_encBlocks, List.map_map]
    have : (UInt8.ofNat ∘ fun x : UInt8 => x.toNat) = id := by funext x; simp
    rw [this, List.map_id]

end AwsVerif.Proofs.C05
