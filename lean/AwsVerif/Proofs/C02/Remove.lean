import AwsVerif.Proofs.C02.Emplace
/-! `s_remove_entry`: backward-shift deletion preserves the Robin Hood condition, removes exactly
the entry of the slot it was called on (up to permutation) and terminates inside its fuel. -/
namespace AwsVerif.Proofs.C02
open AwsVerif.HashTable

theorem removeLoop_succ (mask fuel : Nat) (s : Slots) (index : Nat) :
    removeLoop mask (fuel + 1) s index =
      match rd s ((index + 1) &&& mask) with
      | none => some (wr s index none, index)
      | some e =>
        if e.hash &&& mask = (index + 1) &&& mask then some (wr s index none, index)
        else removeLoop mask fuel (wr s index (some e)) ((index + 1) &&& mask) := rfl

/-- emptying slot `i` keeps the Robin Hood condition when the next slot is empty or at home -/
theorem erase_rh {n : Nat} {s : Slots} (hn : 2 ≤ n) (hs : s.size = n) (hrh : RHs n s) {i : Nat} (hi : i < n)
    (hnext : ∀ ex, rd s (nxt n i) = some ex → disp n (nxt n i) ex.hash = 0) :
    RHs n (wr s i none) := by
  intro x ex hx hrx hdx
  have hxi : x ≠ i := by
    intro h; subst h
    rw [rd_wr_same (by omega)] at hrx; cases hrx
  rw [rd_wr_ne (Ne.symm hxi)] at hrx
  obtain ⟨e', hr', hd'⟩ := hrh x ex hx hrx hdx
  by_cases hpi : prv n x = i
  · exfalso
    have hxn : x = nxt n i := by rw [← hpi, nxt_prv hn hx]
    subst hxn
    have := hnext ex hrx
    omega
  · rw [rd_wr_ne (Ne.symm hpi)]
    exact ⟨e', hr', hd'⟩

/-- moving one slot back lowers a positive displacement by one -/
theorem disp_back {n i h : Nat} (hi : i < n) (hpos : 0 < disp n (nxt n i) h) :
    disp n i h + 1 = disp n (nxt n i) h := by
  have hm : h % n < n := Nat.mod_lt _ (by omega)
  have hx : nxt n i < n := nxt_lt (by omega)
  have h1 := disp_cases (h := h) hi
  have h2 := disp_cases (h := h) hx
  have h3 := nxt_cases hi
  generalize disp n (nxt n i) h = d1 at *
  generalize disp n i h = d0 at *
  generalize nxt n i = x at *
  generalize h % n = m at *
  omega

theorem removeLoop_spec {n mask : Nat} (g : Geom n mask) :
    ∀ fuel s i gap, s.size = n → RHs n s → i < n → (∃ y, rd s i = some y) →
      1 ≤ gap → gap ≤ fuel → gap < n → rd s ((i + gap) % n) = none →
      ∃ s' last, removeLoop mask fuel s i = some (s', last) ∧ s'.size = n ∧ RHs n s' ∧
        (entries (wr s i none)).Perm (entries s') ∧ last < n := by
  have hn := g.two_le
  intro fuel
  induction fuel with
  | zero => intro s i gap _ _ _ _ h1 h2; omega
  | succ f ih =>
    intro s i gap hs hrh hi hy hg1 hgf hgn hgap
    rw [removeLoop_succ, g.and (i + 1)]
    change ∃ s' last, (match rd s (nxt n i) with
      | none => some (wr s i none, i)
      | some e => if e.hash &&& mask = nxt n i then some (wr s i none, i)
                  else removeLoop mask f (wr s i (some e)) (nxt n i)) = some (s', last) ∧ _
    have hx : nxt n i < n := nxt_lt (by omega)
    cases hrn : rd s (nxt n i) with
    | none =>
      simp only
      exact ⟨_, _, rfl, by simp [hs], erase_rh hn hs hrh hi (by intro ex h; rw [hrn] at h; cases h), List.Perm.refl _, hi⟩
    | some e =>
      simp only
      rw [g.and]
      by_cases hh : e.hash % n = nxt n i
      · rw [if_pos hh]
        refine ⟨_, _, rfl, by simp [hs], erase_rh hn hs hrh hi ?_, List.Perm.refl _, hi⟩
        intro ex h; rw [hrn] at h; cases h
        exact (home_iff_disp0 hx).1 hh
      · rw [if_neg hh]
        have hdpos : 0 < disp n (nxt n i) e.hash := by
          rcases Nat.eq_zero_or_pos (disp n (nxt n i) e.hash) with h0 | h0
          · exact absurd ((home_iff_disp0 hx).2 h0) hh
          · exact h0
        have hdb := disp_back (h := e.hash) hi hdpos
        obtain ⟨y, hy⟩ := hy
        obtain ⟨e', hr', hd'⟩ := hrh _ e hx hrn hdpos
        rw [prv_nxt hn hi, hy] at hr'
        cases hr'
        rw [prv_nxt hn hi] at hd'
        have hg2 : 2 ≤ gap := by
          rcases Nat.lt_or_ge gap 2 with h | h
          · have : gap = 1 := by omega
            subst this
            change rd s (nxt n i) = none at hgap
            rw [hrn] at hgap; cases hgap
          · exact h
        have hne : nxt n i ≠ i := nxt_ne hn hi
        have hrh1 : RHs n (wr s i (some e)) := by
          refine store_rh' hn hs hrh hi rfl ?_ ?_
          · intro hp
            obtain ⟨e'', hr'', hd''⟩ := hrh i y hi hy (by omega)
            exact ⟨e'', hr'', by omega⟩
          · intro ex hex
            rw [hrn] at hex; cases hex
            omega
        obtain ⟨s', last, h1, h2, h3, h4, h5⟩ :=
          ih (wr s i (some e)) (nxt n i) (gap - 1) (by simp [hs]) hrh1 hx
            ⟨e, by rw [rd_wr_ne (Ne.symm hne)]; exact hrn⟩ (by omega) (by omega) (by omega)
            (by rw [nxt_add hg1, rd_wr_ne (Ne.symm (add_gap_ne hi hg1 hgn))]; exact hgap)
        refine ⟨s', last, h1, h2, h3, ?_, h5⟩
        have q1 : (entries (wr s i none)).Perm (e :: entries (wr (wr s i none) (nxt n i) none)) :=
          entries_of_rd_some _ _ e (by rw [rd_wr_ne (Ne.symm hne)]; exact hrn)
        have q2 : (entries (wr (wr s i (some e)) (nxt n i) none)).Perm (e :: entries (wr (wr s i none) (nxt n i) none)) := by
          rw [wr_comm s (some e) none (Ne.symm hne), wr_comm s none none (Ne.symm hne)]
          have := entries_wr_some (wr s (nxt n i) none) i e (by simp [hs]; omega)
          exact this
        exact q1.trans (q2.symm.trans h4)

end AwsVerif.Proofs.C02
