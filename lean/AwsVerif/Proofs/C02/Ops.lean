import AwsVerif.Proofs.C02.Put
/-! `aws_hash_table_put`, `remove`, `remove_element`, `clear`, `find` on a table satisfying the invariant. -/
namespace AwsVerif.Proofs.C02
open AwsVerif.HashTable

theorem put_spec {h : Nat → Nat} {t : Table} (hinv : Inv h t) (key : Key) (val : Val) :
    (∃ e, put h t key val = .error e ∧ e = .overflow ∧ ∀ e ∈ entries t.slots, e.key.id ≠ key.id) ∨
    (∃ r, put h t key val = .ok r ∧ Inv h r.table ∧ r.table.dk = t.dk ∧ r.table.dv = t.dv ∧
      ((r.created = true ∧ (∀ e ∈ entries t.slots, e.key.id ≠ key.id) ∧ r.log = [] ∧
          (entries r.table.slots).Perm (⟨hashFor h key, key, val⟩ :: entries t.slots)) ∨
       (r.created = false ∧ ∃ e0 rest, e0.key.id = key.id ∧ (entries t.slots).Perm (e0 :: rest) ∧
          (entries r.table.slots).Perm (⟨e0.hash, key, val⟩ :: rest) ∧
          r.log = (if e0.key ≠ key ∧ t.dk = true then [Ev.k e0.key] else []) ++ (if t.dv = true then [Ev.v e0.val] else [])))) := by
  unfold put
  rcases create_spec hinv key with ⟨e, he, hne, hmiss⟩ | ⟨r, hr, hinv', hidx, hdk, hdv, hcase⟩
  · rw [he]; exact Or.inl ⟨e, rfl, hne, hmiss⟩
  · rw [hr]
    simp only
    rcases hcase with ⟨hc, hmiss, hrd, hperm⟩ | ⟨hc, htab, e0, hrd, hid⟩
    · rw [hrd]
      simp only
      obtain ⟨i1, i2, i3⟩ := replace_inv hinv' hrd (key := key) rfl val
      refine Or.inr ⟨_, rfl, i1, hdk, hdv, Or.inl ⟨hc, hmiss, by simp [hc], ?_⟩⟩
      simp only
      have : (entries (wr r.table.slots r.idx none)).Perm (entries t.slots) :=
        List.Perm.cons_inv (i3.symm.trans hperm)
      exact i2.trans (List.Perm.cons _ this)
    · rw [htab, hrd]
      simp only
      obtain ⟨i1, i2, i3⟩ := replace_inv hinv hrd hid val
      refine Or.inr ⟨_, rfl, i1, rfl, rfl, Or.inr ⟨hc, e0, _, hid, i3, i2, ?_⟩⟩
      simp [hc]

theorem find_spec {h : Nat → Nat} {t : Table} (hinv : Inv h t) (key : Key) (kv : Key × Val) :
    find h t key = some kv ↔ (∃ e ∈ entries t.slots, e.key.id = key.id ∧ kv = (e.key, e.val)) := by
  have b := hinv.1
  unfold find
  constructor
  · intro hf
    cases hfe : findEntry t (hashFor h key) key with
    | outOfFuel => rw [hfe] at hf; cases hf
    | notFound a c => rw [hfe] at hf; cases hf
    | found idx q =>
      rw [hfe] at hf
      obtain ⟨e, h1, _, h3, _⟩ := findEntry_sound b hfe
      simp only at hf
      rw [h1] at hf
      simp only [Option.map_some, Option.some.injEq] at hf
      exact ⟨e, mem_entries.2 ⟨idx, rd_lt_size h1, h1⟩, h3, hf.symm⟩
  · rintro ⟨e, he, hid, rfl⟩
    obtain ⟨j, _, hr⟩ := mem_entries.1 he
    obtain ⟨q, hq⟩ := findEntry_complete hinv hr hid
    rw [hq]
    simp only
    rw [hr]; rfl

theorem find_none {h : Nat → Nat} {t : Table} (hinv : Inv h t) (key : Key) :
    find h t key = none ↔ ∀ e ∈ entries t.slots, e.key.id ≠ key.id := by
  constructor
  · intro hf e he hid
    have := (find_spec hinv key (e.key, e.val)).2 ⟨e, he, hid, rfl⟩
    rw [hf] at this; cases this
  · intro hall
    cases hf : find h t key with
    | none => rfl
    | some kv =>
      obtain ⟨e, he, hid, _⟩ := (find_spec hinv key kv).1 hf
      exact absurd hid (hall e he)

/-- `s_remove_entry` on an occupied slot -/
theorem removeEntry_spec {h : Nat → Nat} {t : Table} (hinv : Inv h t) {i : Nat} {e : Entry} (hr : rd t.slots i = some e) :
    ∃ t' last, removeEntry t i = some (t', last) ∧ Inv h t' ∧ (entries t.slots).Perm (e :: entries t'.slots) ∧
      t'.dk = t.dk ∧ t'.dv = t.dv ∧ t'.size = t.size ∧ last < t.size := by
  obtain ⟨b, hrh⟩ := hinv
  have hn := b.two_le
  have hi : i < t.size := by rw [← b.sizeEq]; exact rd_lt_size hr
  obtain ⟨z, hz, hzn⟩ := b.empty_slot
  have hzi : z ≠ i := by intro h; subst h; rw [hr] at hzn; cases hzn
  have hgap : (i + (z + t.size - i) % t.size) % t.size = z := by
    rcases mod_lt2 (a := z + t.size - i) (n := t.size) (by omega) with ⟨a, c⟩ | ⟨a, c⟩ <;>
    rcases mod_lt2 (a := i + (z + t.size - i) % t.size) (n := t.size) (by omega) with ⟨d, f⟩ | ⟨d, f⟩ <;> omega
  have hg1 : 1 ≤ (z + t.size - i) % t.size := by
    rcases mod_lt2 (a := z + t.size - i) (n := t.size) (by omega) with ⟨a, c⟩ | ⟨a, c⟩ <;> omega
  have hg2 : (z + t.size - i) % t.size < t.size := Nat.mod_lt _ (by omega)
  obtain ⟨s', last, h1, h2, h3, h4, h5⟩ :=
    removeLoop_spec b.geom t.size t.slots i _ b.sizeEq hrh hi ⟨e, hr⟩ hg1 (Nat.le_of_lt hg2) hg2 (by rw [hgap]; exact hzn)
  unfold removeEntry
  rw [h1]
  have p : (entries t.slots).Perm (e :: entries s') := (entries_of_rd_some _ _ _ hr).trans (List.Perm.cons _ h4)
  have hsym : ∀ {x y : Entry}, x.key.id ≠ y.key.id → y.key.id ≠ x.key.id := fun h => Ne.symm h
  refine ⟨_, _, rfl, ⟨⟨b.pow2, b.sizeLt, b.mask, h2, ?_, ?_, b.maxLt, ?_, ?_⟩, h3⟩, p, rfl, rfl, rfl, h5⟩
  · simp only; rw [b.count, p.length_eq]; rfl
  · simp only; have := b.load; omega
  · have q := (List.Perm.pairwise_iff (R := fun (a b : Entry) => a.key.id ≠ b.key.id) hsym p).1 b.nodup
    exact (List.pairwise_cons.1 q).2
  · intro x hx
    exact b.hashOk x (p.mem_iff.2 (List.mem_cons_of_mem _ hx))

theorem remove_spec {h : Nat → Nat} {t : Table} (hinv : Inv h t) (key : Key) (wantOut : Bool) :
    ∃ r, remove h t key wantOut = .ok r ∧ Inv h r.table ∧ r.table.dk = t.dk ∧ r.table.dv = t.dv ∧
      ((r.present = false ∧ r.table = t ∧ r.out = none ∧ r.log = [] ∧ ∀ e ∈ entries t.slots, e.key.id ≠ key.id) ∨
       (r.present = true ∧ ∃ e, e.key.id = key.id ∧ (entries t.slots).Perm (e :: entries r.table.slots) ∧
          r.out = (if wantOut then some (e.key, e.val) else none) ∧
          r.log = (if wantOut then [] else destroyLog t e.key e.val))) := by
  have b := hinv.1
  unfold remove
  cases hfe : findEntry t (hashFor h key) key with
  | outOfFuel => exact absurd hfe (findEntry_fuel b _ _)
  | notFound idx q =>
    obtain ⟨_, _, _, h4⟩ := findEntry_notFound hinv hfe
    exact ⟨_, rfl, hinv, rfl, rfl, Or.inl ⟨rfl, rfl, rfl, rfl, h4⟩⟩
  | found idx q =>
    obtain ⟨e, h1, _, h3, _⟩ := findEntry_sound b hfe
    simp only
    rw [h1]
    simp only
    obtain ⟨t', last, r1, r2, r3, r4, r5, _, _⟩ := removeEntry_spec hinv h1
    rw [r1]
    exact ⟨_, rfl, r2, r4, r5, Or.inr ⟨rfl, e, h3, r3, rfl, rfl⟩⟩

theorem findIdx_spec {h : Nat → Nat} {t : Table} (hinv : Inv h t) (key : Key) :
    (findIdx h t key = none ∧ ∀ e ∈ entries t.slots, e.key.id ≠ key.id) ∨
    (∃ idx e, findIdx h t key = some idx ∧ rd t.slots idx = some e ∧ e.key.id = key.id) := by
  have b := hinv.1
  unfold findIdx
  cases hfe : findEntry t (hashFor h key) key with
  | outOfFuel => exact absurd hfe (findEntry_fuel b _ _)
  | notFound idx q =>
    obtain ⟨_, _, _, h4⟩ := findEntry_notFound hinv hfe
    exact Or.inl ⟨rfl, h4⟩
  | found idx q =>
    obtain ⟨e, h1, _, h3, _⟩ := findEntry_sound b hfe
    exact Or.inr ⟨idx, e, rfl, h1, h3⟩

theorem removeElement_spec {h : Nat → Nat} {t : Table} (hinv : Inv h t) {i : Nat} {e : Entry} (hr : rd t.slots i = some e) :
    ∃ t', removeElement t i = .ok t' ∧ Inv h t' ∧ (entries t.slots).Perm (e :: entries t'.slots) ∧
      t'.dk = t.dk ∧ t'.dv = t.dv := by
  obtain ⟨t', last, r1, r2, r3, r4, r5, _, _⟩ := removeEntry_spec hinv hr
  unfold removeElement
  rw [r1]
  exact ⟨t', rfl, r2, r3, r4, r5⟩

theorem clear_spec {h : Nat → Nat} {t : Table} (hinv : Inv h t) :
    Inv h (clear t).1 ∧ entries (clear t).1.slots = [] ∧ (clear t).1.dk = t.dk ∧ (clear t).1.dv = t.dv ∧
    (clear t).2 = clearLog t := by
  obtain ⟨b, _⟩ := hinv
  unfold clear
  refine ⟨⟨⟨b.pow2, b.sizeLt, b.mask, by simp, ?_, Nat.zero_le _, b.maxLt, ?_, ?_⟩, RHs_empty _ _⟩, entries_replicate _, rfl, rfl, rfl⟩
  · simp only; rw [entries_replicate]; rfl
  · unfold NoDup; simp only; rw [entries_replicate]; exact List.Pairwise.nil
  · intro e he; simp only at he; rw [entries_replicate] at he; cases he

end AwsVerif.Proofs.C02
