import AwsVerif.Proofs.C02.Init
/-! `s_find_entry` on a table satisfying the invariant. -/
namespace AwsVerif.Proofs.C02
open AwsVerif.HashTable

/-- the inlined fast path is the first iteration of the probe loop -/
theorem findEntry_eq {n : Nat} {t : Table} (g : Geom n t.mask) (hs : t.size = n) (hc : Nat) (key : Key) :
    findEntry t hc key = findLoop t.slots t.mask hc key (n + 1) 0 := by
  unfold findEntry
  rw [findLoop_succ, g.idxOf, g.and, Nat.add_zero, hs]
  simp only
  cases rd t.slots (hc % n) with
  | none => rfl
  | some e =>
    simp only
    split
    · rfl
    · rw [if_neg (Nat.not_lt_zero _)]

theorem Basic.empty_slot {h : Nat → Nat} {t : Table} (b : Basic h t) : ∃ z, z < t.size ∧ rd t.slots z = none := by
  have := exists_empty_slot t.slots (by rw [← b.count, b.sizeEq]; exact Nat.lt_of_le_of_lt b.load b.maxLt)
  rw [b.sizeEq] at this
  exact this

theorem Basic.two_le {h : Nat → Nat} {t : Table} (b : Basic h t) : 2 ≤ t.size := b.geom.two_le

theorem rd_lt_size {s : Slots} {i : Nat} {e : Entry} (h : rd s i = some e) : i < s.size := by
  rcases Nat.lt_or_ge i s.size with h1 | h1
  · exact h1
  · rw [rd_oob h1] at h; cases h

theorem Basic.hash_of_rd {h : Nat → Nat} {t : Table} (b : Basic h t) {i : Nat} {e : Entry} (hr : rd t.slots i = some e) :
    e.hash = hashFor h e.key := b.hashOk e (mem_entries.2 ⟨i, rd_lt_size hr, hr⟩)

theorem findEntry_sound {h : Nat → Nat} {t : Table} (b : Basic h t) {hc : Nat} {key : Key} {idx q : Nat}
    (hf : findEntry t hc key = .found idx q) :
    ∃ e, rd t.slots idx = some e ∧ e.hash = hc ∧ e.key.id = key.id ∧ idx < t.size := by
  rw [findEntry_eq b.geom rfl] at hf
  obtain ⟨e, h1, h2, _⟩ := findLoop_sound _ _ _ _ hf
  exact ⟨e, h1, h2.1, ((keysEq_iff _ _).1 h2.2).symm, by rw [← b.sizeEq]; exact rd_lt_size h1⟩

/-- completeness: a stored key is found, in the slot where it is stored -/
theorem findEntry_complete {h : Nat → Nat} {t : Table} (hinv : Inv h t) {key : Key} {j : Nat} {e : Entry}
    (hr : rd t.slots j = some e) (hid : e.key.id = key.id) :
    ∃ q, findEntry t (hashFor h key) key = .found j q := by
  obtain ⟨b, hrh⟩ := hinv
  have hj : j < t.size := by rw [← b.sizeEq]; exact rd_lt_size hr
  have hm : Match (hashFor h key) key e :=
    ⟨by rw [b.hash_of_rd hr]; exact hashFor_congr h hid, (keysEq_iff _ _).2 hid.symm⟩
  rw [findEntry_eq b.geom rfl]
  have hd : disp t.size j (hashFor h key) < t.size := disp_lt (by have := b.two_le; omega)
  obtain ⟨idx, q, hf⟩ := findLoop_complete b.geom hrh hj hr hm (disp t.size j (hashFor h key)) 0 (t.size + 1) (by omega) (by omega)
  obtain ⟨e', h1, h2, _⟩ := findLoop_sound _ _ _ _ hf
  have : idx = j := by
    apply Classical.byContradiction
    intro hne
    exact b.nodup.ne h1 hr hne (by rw [hid]; exact ((keysEq_iff _ _).1 h2.2).symm)
  subst this
  exact ⟨q, hf⟩

theorem findEntry_fuel {h : Nat → Nat} {t : Table} (b : Basic h t) (hc : Nat) (key : Key) :
    findEntry t hc key ≠ .outOfFuel := by
  rw [findEntry_eq b.geom rfl]
  exact findLoop_fuel b.geom _ _ (by omega) (by omega)

theorem prv_probe {n hc q : Nat} (hn : 2 ≤ n) (hq : 0 < q) : prv n ((hc + q) % n) = (hc + (q - 1)) % n := by
  have h1 : (hc + q) % n = nxt n ((hc + (q - 1)) % n) := by
    have := next_probe (n := n) (h := hc) (p := q - 1) (i := (hc + (q - 1)) % n) rfl
    rw [← this]; congr 2; omega
  rw [h1, prv_nxt hn (Nat.mod_lt _ (by omega))]

/-- a miss: no stored key equals `key`, and `(idx, q)` is a legitimate starting point for emplace -/
theorem findEntry_notFound {h : Nat → Nat} {t : Table} (hinv : Inv h t) {key : Key} {idx q : Nat}
    (hf : findEntry t (hashFor h key) key = .notFound idx q) :
    idx = (hashFor h key + q) % t.size ∧ q < t.size ∧
    (0 < q → ∃ e', rd t.slots (prv t.size idx) = some e' ∧ q ≤ disp t.size (prv t.size idx) e'.hash + 1) ∧
    (∀ e ∈ entries t.slots, e.key.id ≠ key.id) := by
  obtain ⟨b, hrh⟩ := hinv
  have hn := b.two_le
  have hmiss : ∀ e ∈ entries t.slots, e.key.id ≠ key.id := by
    intro e he hid
    obtain ⟨j, _, hr⟩ := mem_entries.1 he
    obtain ⟨q', hq'⟩ := findEntry_complete ⟨b, hrh⟩ hr hid
    rw [hf] at hq'; cases hq'
  rw [findEntry_eq b.geom rfl] at hf
  obtain ⟨h1, _, _, h4⟩ := findLoop_notFound b.geom _ _ _ _ hf
  have hpred : 0 < q → ∃ e', rd t.slots (prv t.size idx) = some e' ∧ q ≤ disp t.size (prv t.size idx) e'.hash + 1 := by
    intro hq
    obtain ⟨e', h5, _, h7⟩ := h4 (q - 1) (by omega) (by omega)
    rw [h1, prv_probe hn hq]
    exact ⟨e', h5, by omega⟩
  refine ⟨h1, ?_, hpred, hmiss⟩
  rcases Nat.eq_zero_or_pos q with h0 | h0
  · omega
  · obtain ⟨e', h5, h6⟩ := hpred h0
    obtain ⟨z, hz, hzn⟩ := b.empty_slot
    have hp : prv t.size idx < t.size := prv_lt (by omega)
    have := disp_lt_of_empty hn hrh hz hzn hp h5
    have : (prv t.size idx + t.size - z) % t.size < t.size := Nat.mod_lt _ (by omega)
    omega

end AwsVerif.Proofs.C02
