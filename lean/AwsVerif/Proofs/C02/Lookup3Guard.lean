import AwsVerif.Model.Lookup3
/-! Evaluation guard in front of the symbolic case lemmas: the extracted path tables are *run* against the byte-wise
definition on a few dozen concrete keys (every length 0..25, two byte patterns, two contents of the memory behind the
key).  A table that is wrong on one of them makes this module fail at once (with `decide` naming the false
proposition), and the expensive symbolic module that imports it is then not attempted.  This is a test, not part of
the proof: the theorems are in `Lookup3Cases` / `Lookup3Paths`. -/
namespace AwsVerif.Proofs.C02
open AwsVerif.Lookup3 AwsVerif

def guardKey (n pat : Nat) : List UInt8 :=
  (List.range n).map fun i => if pat = 0 then 0xFF else (i * 37 + 1).toUInt8

def guardOk (blk : List Term) (tail : List (List Term)) : Bool :=
  (List.range 26).all fun n => [0, 1].all fun pat =>
    [[0xFF, 0xFF, 0xFF], [0x11, 0x22, 0x33]].all fun after =>
      hashlittle2Path blk tail (guardKey n pat ++ after) n 5 9 == hashlittle2 (guardKey n pat) 5 9

set_option maxRecDepth 100000 in
theorem guard32 : guardOk Gen.l3Block32 Gen.l3Tail32 = true := by decide
set_option maxRecDepth 100000 in
theorem guard16 : guardOk Gen.l3Block16 Gen.l3Tail16 = true := by decide
set_option maxRecDepth 100000 in
theorem guard8 : guardOk Gen.l3Block8 Gen.l3Tail8 = true := by decide
set_option maxRecDepth 100000 in
theorem guard32V : guardOk Gen.l3Block32 Gen.l3Tail32V = true := by decide

end AwsVerif.Proofs.C02
