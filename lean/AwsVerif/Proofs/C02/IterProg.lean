import AwsVerif.Proofs.C02.IterOnce
/-! Explicit iterator programs and early-stopping `foreach` passes: one invariant (`IterJ`) relating the
iterator window `[slot, limit)` to what has been visited / deleted so far, and two step lemmas (keep + next,
delete + next) from which every pass theorem follows by a short induction. -/
namespace AwsVerif.Proofs.C02
open AwsVerif.HashTable

/-- `C0` = contents at `begin`, `V` = elements shown so far (in order), `D` = those deleted through the iterator -/
structure IterJ (h : Nat → Nat) (C0 : List (Key × Val)) (t : Table) (it : Iter) (V D : List (Key × Val)) : Prop where
  inv : Inv h t
  lim : it.limit ≤ t.size
  slot : it.slot ≤ it.limit
  elem : it.slot < it.limit → ∃ e, rd t.slots it.slot = some e ∧ it.elem = some (e.key, e.val)
  ahead : (V ++ (seg t.slots it.slot it.limit).map kvOf).Perm C0
  behind : ((seg t.slots 0 it.slot ++ seg t.slots it.limit t.size).map kvOf ++ D).Perm V

def iterMeasure (t : Table) (it : Iter) : Nat := (it.limit - it.slot) + t.entryCount

theorem IterJ.begin {h : Nat → Nat} {t : Table} (hinv : Inv h t) :
    IterJ h (contents t) t (iterBegin t) [] [] ∧ iterMeasure t (iterBegin t) < 2 * t.size + 1 := by
  have b := hinv.1
  unfold iterBegin getNext
  have hscan := getNextLoop_scan t.slots { slot := 0, limit := t.size, status := .done, elem := none }
    (t.size - 0 + 1) 0 (Nat.zero_le _) (by simp only; omega)
  simp only at hscan
  generalize getNextLoop t.slots { slot := 0, limit := t.size, status := IterStatus.done, elem := none }
    (t.size - 0 + 1) 0 = it at hscan
  obtain ⟨s1, s2, s3, s4, s5⟩ := hscan
  have hempty : seg t.slots 0 it.slot = [] := seg_empty s4
  have hcnt : t.entryCount < t.size := Nat.lt_of_le_of_lt b.load b.maxLt
  refine ⟨⟨hinv, by rw [s1]; exact Nat.le_refl _, by rw [s1]; exact s3, by rw [s1]; exact s5, ?_, ?_⟩, ?_⟩
  · rw [s1, List.nil_append, contents_eq, entries_eq_seg, b.sizeEq,
        seg_split t.slots (a := 0) (m := it.slot) (b := t.size) (Nat.zero_le _) s3, hempty]
    exact List.Perm.refl _
  · rw [s1, hempty, seg_self]
    exact List.Perm.refl _
  · unfold iterMeasure; rw [s1]; omega

/-- nothing is ever lost: what is in the table plus what was deleted is what was there at `begin` -/
theorem IterJ.total {h : Nat → Nat} {C0 : List (Key × Val)} {t : Table} {it : Iter} {V D : List (Key × Val)}
    (j : IterJ h C0 t it V D) : (contents t ++ D).Perm C0 := by
  have b := j.inv.1
  rw [contents_eq, entries_eq_seg, b.sizeEq,
      seg_split t.slots (a := 0) (m := it.slot) (b := t.size) (Nat.zero_le _) (Nat.le_trans j.slot j.lim),
      seg_split t.slots (a := it.slot) (m := it.limit) (b := t.size) j.slot j.lim]
  refine List.Perm.trans ?_ j.ahead
  refine List.Perm.trans ?_ (List.Perm.append_right _ j.behind)
  simp only [List.map_append, List.append_assoc]
  generalize List.map kvOf (seg t.slots 0 it.slot) = A
  generalize List.map kvOf (seg t.slots it.slot it.limit) = W
  generalize List.map kvOf (seg t.slots it.limit t.size) = B
  -- A ++ (W ++ (B ++ D)) ~ A ++ (B ++ (D ++ W))
  refine List.Perm.append_left A ?_
  have : (W ++ (B ++ D)).Perm ((B ++ D) ++ W) := List.perm_append_comm
  rw [List.append_assoc] at this
  exact this

/-- when the iterator is done, everything present at `begin` has been shown exactly once -/
theorem IterJ.atDone {h : Nat → Nat} {C0 : List (Key × Val)} {t : Table} {it : Iter} {V D : List (Key × Val)}
    (j : IterJ h C0 t it V D) (hd : it.slot = it.limit) : V.Perm C0 := by
  have := j.ahead
  rw [hd, seg_self] at this
  simpa using this

theorem IterJ.notDone {h : Nat → Nat} {C0 : List (Key × Val)} {t : Table} {it : Iter} {V D : List (Key × Val)}
    (j : IterJ h C0 t it V D) (hd : iterDone it = false) : it.slot < it.limit := by
  have : it.slot ≠ it.limit := by
    intro h; unfold iterDone at hd; simp [h] at hd
  have := j.slot
  omega

/-- the unvisited rest of the window (used when a pass stops early) -/
theorem IterJ.rest {h : Nat → Nat} {C0 : List (Key × Val)} {t : Table} {it : Iter} {V D : List (Key × Val)}
    (j : IterJ h C0 t it V D) (hlt : it.slot < it.limit) :
    ∃ kv U, it.elem = some kv ∧ (V ++ [kv] ++ U).Perm C0 := by
  obtain ⟨e, hre, hele⟩ := j.elem hlt
  refine ⟨(e.key, e.val), (seg t.slots (it.slot + 1) it.limit).map kvOf, hele, ?_⟩
  have := j.ahead
  rw [seg_head_some _ hlt hre] at this
  simpa [kvOf] using this

/-- keep the current element and call `aws_hash_iter_next` -/
theorem IterJ.keep {h : Nat → Nat} {C0 : List (Key × Val)} {t : Table} {it : Iter} {V D : List (Key × Val)}
    (j : IterJ h C0 t it V D) (hlt : it.slot < it.limit) :
    ∃ kv, it.elem = some kv ∧ IterJ h C0 t (iterNext t it) (V ++ [kv]) D ∧
      iterMeasure t (iterNext t it) < iterMeasure t it := by
  have b := j.inv.1
  obtain ⟨e, hre, hele⟩ := j.elem hlt
  have hcw : it.slot + 1 < W64 := by have := b.sizeLt; have := j.lim; omega
  have hsplit : seg t.slots it.slot it.limit = e :: seg t.slots (it.slot + 1) it.limit := seg_head_some _ hlt hre
  refine ⟨(e.key, e.val), hele, ?_⟩
  unfold iterNext getNext
  rw [stepfwd hcw]
  have hscan := getNextLoop_scan t.slots it (it.limit - (it.slot + 1) + 1) (it.slot + 1) (by omega) (by omega)
  generalize getNextLoop t.slots it (it.limit - (it.slot + 1) + 1) (it.slot + 1) = it2 at hscan
  obtain ⟨s1, s2, s3, s4, s5⟩ := hscan
  have hempty : seg t.slots (it.slot + 1) it2.slot = [] := seg_empty s4
  refine ⟨⟨j.inv, by rw [s1]; exact j.lim, by rw [s1]; exact s3, by rw [s1]; exact s5, ?_, ?_⟩, ?_⟩
  · rw [s1]
    have : seg t.slots (it.slot + 1) it.limit = seg t.slots it2.slot it.limit := by
      rw [seg_split t.slots (a := it.slot + 1) (m := it2.slot) (b := it.limit) s2 s3, hempty]; rfl
    rw [← this]
    have := j.ahead
    rw [hsplit] at this
    simpa [kvOf] using this
  · rw [s1]
    have e1 : seg t.slots 0 it2.slot = seg t.slots 0 it.slot ++ [e] := by
      rw [seg_split t.slots (a := 0) (m := it.slot) (b := it2.slot) (by omega) (by omega),
          seg_split t.slots (a := it.slot) (m := it.slot + 1) (b := it2.slot) (by omega) s2,
          seg_one, hre, hempty]
      simp
    rw [e1]
    have hK := j.behind
    simp only [List.map_append, List.map_cons, List.map_nil, List.append_assoc] at hK ⊢
    generalize List.map kvOf (seg t.slots 0 it.slot) = A at *
    generalize List.map kvOf (seg t.slots it.limit t.size) = B at *
    -- A ++ ([kv] ++ (B ++ D)) ~ V ++ [kv]
    have p1 : (A ++ (kvOf e :: (B ++ D))).Perm ((A ++ (B ++ D)) ++ [kvOf e]) := by
      rw [List.append_assoc]
      exact List.Perm.append_left A (List.perm_append_comm (l₁ := [kvOf e]))
    exact p1.trans (List.Perm.append_right _ hK)
  · unfold iterMeasure; rw [s1]; omega

/-- `aws_hash_iter_delete(iter, destroy)` for any `destroy_contents` -/
theorem iterDelete_eq' {t t' : Table} {it : Iter} {last : Nat} {kv : Key × Val} (destroy : Bool)
    (h : removeEntry t it.slot = some (t', last)) (hel : it.elem = some kv) :
    iterDelete t it destroy =
      some (t', { it with limit := if last < it.slot ∨ last ≥ it.limit then it.limit - 1 else it.limit,
                          slot := (it.slot + W64 - 1) % W64, status := .deleteCalled },
            if destroy then specDestroy t.dk t.dv kv else []) := by
  unfold iterDelete
  rw [h, hel]
  cases destroy <;> rfl

/-- delete the current element through the iterator and call `aws_hash_iter_next` -/
theorem IterJ.delete {h : Nat → Nat} {C0 : List (Key × Val)} {t : Table} {it : Iter} {V D : List (Key × Val)}
    (j : IterJ h C0 t it V D) (hlt : it.slot < it.limit) (destroy : Bool) :
    ∃ kv t' it', it.elem = some kv ∧
      iterDelete t it destroy = some (t', it', if destroy then specDestroy t.dk t.dv kv else []) ∧
      t'.dk = t.dk ∧ t'.dv = t.dv ∧ Inv h t' ∧ (contents t).Perm (kv :: contents t') ∧
      IterJ h C0 t' (iterNext t' it') (V ++ [kv]) (D ++ [kv]) ∧
      iterMeasure t' (iterNext t' it') < iterMeasure t it := by
  have b := j.inv.1
  obtain ⟨e, hre, hele⟩ := j.elem hlt
  have hsplit : seg t.slots it.slot it.limit = e :: seg t.slots (it.slot + 1) it.limit := seg_head_some _ hlt hre
  obtain ⟨t', last, len, d1, d2, d3, d4, d5, d6, d7, d8, d9, d10, d11⟩ := removeEntry_full j.inv hre
  obtain ⟨_, _, r1, _, r3, _⟩ := removeEntry_spec j.inv hre
  have hperm : (contents t).Perm ((e.key, e.val) :: contents t') := by
    rw [d1] at r1
    simp only [Option.some.injEq, Prod.mk.injEq] at r1
    obtain ⟨r1a, _⟩ := r1
    subst r1a
    rw [contents_eq, contents_eq]; exact r3.map kvOf
  have hreg := delete_regions (n := t.size) (s := t.slots) (s' := t'.slots) (c := it.slot) (limit := it.limit)
    (last := last) (len := len) hlt j.lim d7 d8 d9 d10 d11
  simp only at hreg
  obtain ⟨g1, g2, g3, g4, g5⟩ := hreg
  refine ⟨(e.key, e.val), t', _, hele, iterDelete_eq' destroy d1 hele, d5, d6, d2, hperm, ?_⟩
  generalize (if last < it.slot ∨ last ≥ it.limit then it.limit - 1 else it.limit) = limit' at g1 g2 g3 g4 g5 ⊢
  unfold iterNext getNext
  simp only
  rw [stepback (by have := b.sizeLt; have := j.lim; omega)]
  have hscan := getNextLoop_scan t'.slots
    { it with limit := limit', slot := (it.slot + W64 - 1) % W64, status := .deleteCalled }
    (limit' - it.slot + 1) it.slot g1 (by simp only; omega)
  simp only at hscan
  generalize getNextLoop t'.slots
    { slot := (it.slot + W64 - 1) % W64, limit := limit', status := IterStatus.deleteCalled, elem := it.elem }
    (limit' - it.slot + 1) it.slot = it2 at hscan ⊢
  obtain ⟨s1, s2, s3, s4, s5⟩ := hscan
  have hempty : seg t'.slots it.slot it2.slot = [] := seg_empty s4
  refine ⟨⟨d2, by rw [s1, d3]; have := j.lim; omega, by rw [s1]; exact s3, by rw [s1]; exact s5, ?_, ?_⟩, ?_⟩
  · rw [s1]
    have : seg t'.slots it2.slot limit' = seg t.slots (it.slot + 1) it.limit := by
      rw [← g4, seg_split t'.slots (a := it.slot) (m := it2.slot) (b := limit') s2 s3, hempty]; rfl
    rw [this]
    have := j.ahead
    rw [hsplit] at this
    simpa [kvOf] using this
  · rw [s1, d3]
    have e1 : seg t'.slots 0 it2.slot = seg t'.slots 0 it.slot := by
      rw [seg_split t'.slots (a := 0) (m := it.slot) (b := it2.slot) (by omega) s2, hempty]; simp
    rw [e1, ← List.append_assoc]
    exact List.Perm.append_right _ ((List.Perm.append_right _ (g5.map kvOf)).trans j.behind)
  · unfold iterMeasure; rw [s1]; omega

end AwsVerif.Proofs.C02
