import AwsVerif.Gen.HashValid
import AwsVerif.Proofs.C16.Bits
import AwsVerif.Proofs.C02.Inv
/-! C02: the structural invariant `Basic` of the hash-table model implies the integer part of the library's own
`hash_table_state_is_valid`, re-translated from hash_table.c on every run (`AwsVerif.Gen.HashValid.stateValidInt`). -/
namespace AwsVerif.Proofs.C02
open AwsVerif.HashTable AwsVerif.Gen

theorem ite10_ne {p : Prop} [Decidable p] : ((if p then 1 else 0 : Nat) ≠ 0) ↔ p := by
  by_cases h : p <;> simp [h]

/-- `aws_is_power_of_two` (generated from math.inl) accepts every table size `2^k < 2^64` -/
theorem isPow2_of_size {n k : Nat} (hk : n = 2 ^ k) (hn : n < W64) : Math.MathInl.aws_is_power_of_two n = true := by
  unfold Math.MathInl.aws_is_power_of_two
  have hpos : 0 < n := by rw [hk]; exact Nat.two_pow_pos k
  have hn0 : n ≠ 0 := by omega
  have hW : W64 = 18446744073709551616 := by decide
  have hm : (n + 18446744073709551616 - 1) % 18446744073709551616 = n - 1 := by omega
  have hz : n &&& (n - 1) = 0 := (AwsVerif.Proofs.C16.Bits.and_pred_eq_zero_iff hn0).mpr ⟨k, hk⟩
  rw [hm, hz]
  simp [hn0]

/-- the model invariant implies the translated validity conjuncts -/
theorem Basic.stateValidInt {h : Nat → Nat} {t : Table} (hb : Basic h t) :
    HashValid.stateValidInt t.size t.entryCount t.maxLoad t.mask = true := by
  obtain ⟨k, hk1, _, hk⟩ := hb.pow2
  have h2 : 2 ≤ t.size := by
    rw [hk]; calc 2 = 2 ^ 1 := rfl
      _ ≤ 2 ^ k := Nat.pow_le_pow_right (by decide) hk1
  have hW : W64 = 18446744073709551616 := by decide
  have hlt := hb.sizeLt
  have hm : (t.size + 18446744073709551616 - 1) % 18446744073709551616 = t.size - 1 := by omega
  have hp := isPow2_of_size hk hb.sizeLt
  unfold HashValid.stateValidInt
  simp only [hm, hp, if_true, decide_eq_true_eq, ite10_ne]
  exact ⟨⟨⟨⟨h2, by decide⟩, hb.load⟩, hb.maxLt⟩, hb.mask⟩

/-! ### `aws_hash_iter_is_valid` -/

/-- `enum aws_hash_iter_status` -/
def statusCode : IterStatus → Nat
  | .done => 0
  | .deleteCalled => 1
  | .ready => 2

/-- what `s_get_next_element` returns: the limit is unchanged, and the iterator is DONE at `slot = limit` or READY at an
occupied slot strictly below the limit -/
theorem getNextLoop_valid (s : Slots) (it : Iter) : ∀ fuel i,
    (getNextLoop s it fuel i).limit = it.limit ∧
    (((getNextLoop s it fuel i).status = .done ∧ (getNextLoop s it fuel i).slot = it.limit) ∨
     ((getNextLoop s it fuel i).status = .ready ∧ (getNextLoop s it fuel i).slot < it.limit ∧
        (rd s (getNextLoop s it fuel i).slot).isSome = true)) := by
  intro fuel
  induction fuel with
  | zero => intro i; exact ⟨rfl, Or.inl ⟨rfl, rfl⟩⟩
  | succ f ih =>
    intro i
    unfold getNextLoop
    split
    · next hlt =>
      cases hr : rd s i with
      | none => simp only; exact ih _
      | some e => simp [hlt, hr]
    · exact ⟨rfl, Or.inl ⟨rfl, rfl⟩⟩

/-- the translated `aws_hash_iter_is_valid` tail accepts every iterator `s_get_next_element` produces from an iterator whose
limit is within the table (`slotHash`: any value that is non-zero exactly on occupied slots, as `hash_code` is) -/
theorem getNext_iterValid (t : Table) (it : Iter) (start : Nat) (hl : it.limit ≤ t.size) (slotHash : Nat → Nat)
    (hh : ∀ i, slotHash i ≠ 0 ↔ (rd t.slots i).isSome = true) :
    HashValid.iterValidInt (getNext t it start).limit t.size (statusCode (getNext t it start).status)
      (getNext t it start).slot (slotHash (getNext t it start).slot) = true := by
  unfold getNext
  obtain ⟨h1, h2⟩ := getNextLoop_valid t.slots it (it.limit - start + 1) start
  unfold HashValid.iterValidInt
  rw [h1]
  have hng : ¬ (it.limit > t.size) := by omega
  simp only [hng, if_false]
  rcases h2 with ⟨hs, hslot⟩ | ⟨hs, hlt, hocc⟩
  · rw [hs, hslot]; simp [statusCode]
  · rw [hs]
    have := (hh _).mpr hocc
    simp [statusCode, hlt, this]

/-- `aws_hash_iter_delete` from a READY iterator inside the table leaves an iterator the translated predicate accepts as
DELETE_CALLED: the slot steps back by one (to `SIZE_MAX` from slot 0, the underflow the C comments describe) and stays at
or below the possibly reduced limit; the table keeps its size -/
theorem iterDelete_iterValid (t t' : Table) (it it' : Iter) (destroy : Bool) (log : List Ev) (h : Nat)
    (hs : it.slot < it.limit) (hl : it.limit ≤ t.size) (hw : t.size < W64)
    (hd : iterDelete t it destroy = some (t', it', log)) :
    t'.size = t.size ∧ it'.status = .deleteCalled ∧
    HashValid.iterValidInt it'.limit t'.size (statusCode it'.status) it'.slot h = true := by
  unfold iterDelete at hd
  simp only at hd
  cases hr : removeEntry t it.slot with
  | none => rw [hr] at hd; cases hd
  | some p =>
    obtain ⟨t1, last⟩ := p
    rw [hr] at hd
    simp only [Option.some.injEq, Prod.mk.injEq] at hd
    obtain ⟨ht, hit, _⟩ := hd
    have hsz : t1.size = t.size := by
      unfold removeEntry at hr
      cases hq : removeLoop t.mask t.size t.slots it.slot with
      | none => rw [hq] at hr; cases hr
      | some q =>
        rw [hq] at hr
        simp only [Option.some.injEq, Prod.mk.injEq] at hr
        rw [← hr.1]
    subst ht hit
    refine ⟨hsz, rfl, ?_⟩
    have hW : W64 = 18446744073709551616 := by decide
    rw [hW] at hw
    unfold HashValid.iterValidInt
    simp only [statusCode, hsz]
    by_cases h0 : it.slot = 0
    · have e : (it.slot + W64 - 1) % W64 = 18446744073709551615 := by rw [hW]; omega
      rw [e]
      split <;> simp <;> omega
    · have e : (it.slot + W64 - 1) % W64 = it.slot - 1 := by rw [hW]; omega
      rw [e]
      split <;> simp <;> omega

end AwsVerif.Proofs.C02
