import AwsVerif.Proofs.C02.Iter
import AwsVerif.Model.HashTableSpec
/-! Refinement of the reference map: every operation's result equals the reference map's and the
abstraction (`contents`, up to permutation) commutes with every step. -/
namespace AwsVerif.Proofs.C02
open AwsVerif.HashTable

def kvOf (e : Entry) : Key × Val := (e.key, e.val)

theorem contents_eq (t : Table) : contents t = (entries t.slots).map kvOf := rfl

/-- unique key identities in a reference map -/
def SpecOk (m : Spec) : Prop := m.Pairwise (fun a b => a.1.id ≠ b.1.id)

theorem specOk_of_abs {h : Nat → Nat} {t : Table} {m : Spec} (b : Basic h t) (habs : (contents t).Perm m) : SpecOk m := by
  have hsym : ∀ {x y : Key × Val}, x.1.id ≠ y.1.id → y.1.id ≠ x.1.id := fun h => Ne.symm h
  refine (List.Perm.pairwise_iff (R := fun (a b : Key × Val) => a.1.id ≠ b.1.id) hsym habs).1 ?_
  rw [contents_eq, List.pairwise_map]
  exact b.nodup

theorem specFind_iff {m : Spec} (hok : SpecOk m) (k : Key) (kv : Key × Val) :
    m.find k = some kv ↔ kv ∈ m ∧ kv.1.id = k.id := by
  unfold Spec.find
  induction m with
  | nil => simp
  | cons a rest ih =>
    unfold SpecOk at hok
    rw [List.pairwise_cons] at hok
    rw [List.find?_cons]
    by_cases ha : a.1.id = k.id
    · simp only [ha, beq_self_eq_true, Option.some.injEq, List.mem_cons]
      constructor
      · intro h; subst h; exact ⟨Or.inl rfl, ha⟩
      · rintro ⟨h1 | h1, h2⟩
        · exact h1.symm
        · exact absurd (h2.trans ha.symm) (Ne.symm (hok.1 kv h1))
    · have : (a.1.id == k.id) = false := by simp [ha]
      simp only [this, List.mem_cons]
      rw [ih hok.2]
      constructor
      · rintro ⟨h1, h2⟩; exact ⟨Or.inr h1, h2⟩
      · rintro ⟨h1 | h1, h2⟩
        · subst h1; exact absurd h2 ha
        · exact ⟨h1, h2⟩

theorem specFind_none {m : Spec} (k : Key) : m.find k = none ↔ ∀ kv ∈ m, kv.1.id ≠ k.id := by
  unfold Spec.find
  rw [List.find?_eq_none]
  constructor
  · intro h kv hkv; have := h kv hkv; simpa using this
  · intro h kv hkv; have := h kv hkv; simpa using this

theorem mem_contents {t : Table} {kv : Key × Val} : kv ∈ contents t ↔ ∃ e ∈ entries t.slots, kv = (e.key, e.val) := by
  rw [contents_eq, List.mem_map]
  constructor
  · rintro ⟨e, he, rfl⟩; exact ⟨e, he, rfl⟩
  · rintro ⟨e, he, rfl⟩; exact ⟨e, he, rfl⟩

/-- lookups agree -/
theorem find_refines {h : Nat → Nat} {t : Table} {m : Spec} (hinv : Inv h t) (habs : (contents t).Perm m) (k : Key) :
    find h t k = m.find k := by
  have hok := specOk_of_abs hinv.1 habs
  apply Option.ext
  intro kv
  rw [find_spec hinv k kv, specFind_iff hok k kv, ← habs.mem_iff, mem_contents]
  constructor
  · rintro ⟨e, he, hid, rfl⟩; exact ⟨⟨e, he, rfl⟩, hid⟩
  · rintro ⟨⟨e, he, rfl⟩, hid⟩; exact ⟨e, he, hid, rfl⟩

/-- erasing the one pair with identity `k.id` -/
theorem erase_perm {m rest : Spec} {kv : Key × Val} {k : Key} (hok : SpecOk m) (hp : m.Perm (kv :: rest))
    (hid : kv.1.id = k.id) : (m.erase k).Perm rest := by
  have hsym : ∀ {x y : Key × Val}, x.1.id ≠ y.1.id → y.1.id ≠ x.1.id := fun h => Ne.symm h
  have hok' := (List.Perm.pairwise_iff (R := fun (a b : Key × Val) => a.1.id ≠ b.1.id) hsym hp).1 hok
  rw [List.pairwise_cons] at hok'
  unfold Spec.erase
  refine (hp.filter _).trans ?_
  rw [List.filter_cons]
  have : (!(kv.1.id == k.id)) = false := by simp [hid]
  rw [this]
  simp only [Bool.false_eq_true, if_false]
  rw [List.filter_eq_self.2]
  intro x hx
  have := hok'.1 x hx
  simp only [Bool.not_eq_true', beq_eq_false_iff_ne, ne_eq]
  intro h; exact this (hid.trans h.symm)

theorem flatMap_nil_of_forall {α β : Type} (l : List α) (f : α → List β) (h : ∀ x, f x = []) : l.flatMap f = [] := by
  induction l with
  | nil => rfl
  | cons a l ih => rw [List.flatMap_cons, h a, ih]; rfl

theorem clearLog_eq (t : Table) : clearLog t = (contents t).flatMap (specDestroy t.dk t.dv) := by
  unfold clearLog
  have key : ∀ l : List (Option Entry),
      (l.flatMap fun o => match o with | none => [] | some e => destroyLog t e.key e.val) =
      ((ents l).map kvOf).flatMap (specDestroy t.dk t.dv) := by
    intro l
    induction l with
    | nil => rfl
    | cons o l ih =>
      cases o with
      | none => simp only [List.flatMap_cons, ents, List.filterMap_cons, id, List.nil_append]; exact ih
      | some e =>
        simp only [List.flatMap_cons, ents, List.filterMap_cons, id, List.map_cons]
        rw [← ents]; rw [ih]; rfl
  split
  · rw [contents_eq, entries_eq]; exact key _
  · rename_i hno
    rw [flatMap_nil_of_forall]
    intro kv
    unfold specDestroy
    cases hk : t.dk <;> cases hv : t.dv <;> simp_all

theorem step_refines {h : Nat → Nat} {t : Table} {m : Spec} (hinv : Inv h t) (habs : (contents t).Perm m) (op : Op) :
    Inv h (apply h t op).1 ∧ (apply h t op).1.dk = t.dk ∧ (apply h t op).1.dv = t.dv ∧
    ((∃ e, (apply h t op).2 = .error e ∧ e = .overflow ∧ (apply h t op).1 = t ∧
        Res.log (specApply t.dk t.dv m op).2 = []) ∨
     ((contents (apply h t op).1).Perm (specApply t.dk t.dv m op).1 ∧
      (apply h t op).2.sim (specApply t.dk t.dv m op).2)) := by
  have hok := specOk_of_abs hinv.1 habs
  cases op with
  | put k v =>
    simp only [apply, specApply]
    rcases put_spec hinv k v with ⟨e, he, hne, hmiss⟩ | ⟨r, hr, hinv', hdk, hdv, hcase⟩
    · rw [he]
      have hfn : m.find k = none := by
        rw [← find_refines hinv habs]; exact (find_none hinv k).2 hmiss
      rw [hfn]
      exact ⟨hinv, rfl, rfl, Or.inl ⟨e, rfl, hne, rfl, rfl⟩⟩
    · rw [hr]
      refine ⟨hinv', hdk, hdv, Or.inr ?_⟩
      rcases hcase with ⟨hc, hmiss, hlog, hperm⟩ | ⟨hc, e0, rest, hid, hp1, hp2, hlog⟩
      · have hfn : m.find k = none := by
          rw [← find_refines hinv habs]; exact (find_none hinv k).2 hmiss
        rw [hfn]
        simp only
        refine ⟨?_, ?_⟩
        · rw [contents_eq]
          exact (hperm.map kvOf).trans (List.Perm.cons _ (by rw [← contents_eq]; exact habs))
        · rw [hc, hlog]; rfl
      · have hfs : m.find k = some (e0.key, e0.val) := by
          rw [← find_refines hinv habs]
          exact (find_spec hinv k _).2 ⟨e0, hp1.mem_iff.2 (by simp), hid, rfl⟩
        rw [hfs]
        simp only
        refine ⟨?_, ?_⟩
        · rw [contents_eq]
          refine (hp2.map kvOf).trans (List.Perm.cons _ ?_)
          have : m.Perm ((e0.key, e0.val) :: rest.map kvOf) := by
            refine habs.symm.trans ?_
            rw [contents_eq]; exact hp1.map kvOf
          exact (erase_perm hok this hid).symm
        · rw [hc, hlog]; rfl
  | create k =>
    simp only [apply, specApply]
    rcases create_spec hinv k with ⟨e, he, hne, hmiss⟩ | ⟨r, hr, hinv', _, hdk, hdv, hcase⟩
    · rw [he]
      have hfn : m.find k = none := by
        rw [← find_refines hinv habs]; exact (find_none hinv k).2 hmiss
      rw [hfn]
      exact ⟨hinv, rfl, rfl, Or.inl ⟨e, rfl, hne, rfl, rfl⟩⟩
    · rw [hr]
      refine ⟨hinv', hdk, hdv, Or.inr ?_⟩
      rcases hcase with ⟨hc, hmiss, hrd, hperm⟩ | ⟨hc, htab, e, hrd, hid⟩
      · have hfn : m.find k = none := by
          rw [← find_refines hinv habs]; exact (find_none hinv k).2 hmiss
        rw [hfn]
        simp only
        refine ⟨?_, ?_⟩
        · rw [contents_eq]
          exact (hperm.map kvOf).trans (List.Perm.cons _ (by rw [← contents_eq]; exact habs))
        · rw [hc, hrd]; rfl
      · have hfs : m.find k = some (e.key, e.val) := by
          rw [← find_refines hinv habs]
          exact (find_spec hinv k _).2 ⟨e, mem_entries.2 ⟨_, rd_lt_size hrd, hrd⟩, hid, rfl⟩
        rw [hfs]
        simp only
        rw [htab]
        exact ⟨habs, by rw [hc, hrd]; rfl⟩
  | find k =>
    simp only [apply, specApply]
    exact ⟨hinv, by trivial, by trivial, Or.inr ⟨habs, by rw [find_refines hinv habs]; rfl⟩⟩
  | remove k o =>
    simp only [apply, specApply]
    obtain ⟨r, hr, hinv', hdk, hdv, hcase⟩ := remove_spec hinv k o
    rw [hr]
    refine ⟨hinv', hdk, hdv, Or.inr ?_⟩
    rcases hcase with ⟨hp, htab, hout, hlog, hmiss⟩ | ⟨hp, e, hid, hperm, hout, hlog⟩
    · have hfn : m.find k = none := by
        rw [← find_refines hinv habs]; exact (find_none hinv k).2 hmiss
      rw [hfn]
      simp only
      rw [htab]
      exact ⟨habs, by rw [hp, hout, hlog]; rfl⟩
    · have hfs : m.find k = some (e.key, e.val) := by
        rw [← find_refines hinv habs]
        exact (find_spec hinv k _).2 ⟨e, hperm.mem_iff.2 (by simp), hid, rfl⟩
      rw [hfs]
      simp only
      refine ⟨?_, ?_⟩
      · have : m.Perm ((e.key, e.val) :: contents r.table) := by
          refine habs.symm.trans ?_
          rw [contents_eq, contents_eq]; exact hperm.map kvOf
        exact (erase_perm hok this hid).symm
      · rw [hp, hout, hlog]; rfl
  | removeElement k =>
    simp only [apply, specApply]
    rcases findIdx_spec hinv k with ⟨hf, hmiss⟩ | ⟨idx, e, hf, hrd, hid⟩
    · have hfn : m.find k = none := by
        rw [← find_refines hinv habs]; exact (find_none hinv k).2 hmiss
      rw [hf, hfn]
      exact ⟨hinv, rfl, rfl, Or.inr ⟨habs, rfl⟩⟩
    · have hfs : m.find k = some (e.key, e.val) := by
        rw [← find_refines hinv habs]
        exact (find_spec hinv k _).2 ⟨e, mem_entries.2 ⟨_, rd_lt_size hrd, hrd⟩, hid, rfl⟩
      obtain ⟨t', h1, h2, h3, h4, h5⟩ := removeElement_spec hinv hrd
      rw [hf, hfs]
      simp only
      rw [h1]
      refine ⟨h2, h4, h5, Or.inr ⟨?_, rfl⟩⟩
      have : m.Perm ((e.key, e.val) :: contents t') := by
        refine habs.symm.trans ?_
        rw [contents_eq, contents_eq]; exact h3.map kvOf
      exact (erase_perm hok this hid).symm
  | clear =>
    simp only [apply, specApply]
    obtain ⟨h1, h2, h3, h4, h5⟩ := clear_spec hinv
    refine ⟨h1, h3, h4, Or.inr ⟨?_, ?_⟩⟩
    · rw [contents_eq, h2]; exact List.Perm.refl _
    · rw [h5, clearLog_eq]
      exact habs.flatMap_right _

end AwsVerif.Proofs.C02
