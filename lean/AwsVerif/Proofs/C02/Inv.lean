import AwsVerif.Proofs.C02.Slots
/-! The invariant: structural part (`Basic`) and the Robin Hood condition (`RHs` / `RH`),
with the two consequences everything else rests on: the *chain* lemma (behind an entry of
displacement `d` there are `d` occupied slots whose displacements fall by at most one per step)
and the fact that a probe run never crosses an empty slot. -/
namespace AwsVerif.Proofs.C02
open AwsVerif.HashTable

/-- Robin Hood condition on an `n`-slot array: an entry displaced by `d > 0` has an occupied
predecessor slot whose entry is displaced by at least `d - 1`. -/
def RHs (n : Nat) (s : Slots) : Prop :=
  ∀ i e, i < n → rd s i = some e → 0 < disp n i e.hash →
    ∃ e', rd s (prv n i) = some e' ∧ disp n i e.hash ≤ disp n (prv n i) e'.hash + 1

/-- no two entries with equal keys (equality as the table sees it: `Key.id`) -/
def NoDup (s : Slots) : Prop := (entries s).Pairwise (fun a b => a.key.id ≠ b.key.id)

/-- every stored hash code is the hash code of the stored key -/
def HashOk (h : Nat → Nat) (s : Slots) : Prop := ∀ e ∈ entries s, e.hash = hashFor h e.key

structure Basic (h : Nat → Nat) (t : Table) : Prop where
  pow2 : ∃ k, 1 ≤ k ∧ k ≤ 64 ∧ t.size = 2 ^ k
  sizeLt : t.size < W64          -- a size_t
  mask : t.mask = t.size - 1
  sizeEq : t.slots.size = t.size
  count : t.entryCount = (entries t.slots).length
  load : t.entryCount ≤ t.maxLoad
  maxLt : t.maxLoad < t.size
  nodup : NoDup t.slots
  hashOk : HashOk h t.slots

def RH (t : Table) : Prop := RHs t.size t.slots

def Inv (h : Nat → Nat) (t : Table) : Prop := Basic h t ∧ RH t

theorem keysEq_iff (a b : Key) : keysEq a b = true ↔ a.id = b.id := by
  unfold keysEq
  cases a <;> cases b <;> simp [Key.id]
  rename_i i p j q
  by_cases h : i = j <;> simp [h]

theorem hashFor_congr (h : Nat → Nat) {a b : Key} (hab : a.id = b.id) : hashFor h a = hashFor h b := by
  cases a <;> cases b <;> simp [Key.id] at hab <;> simp [hashFor, hab]

theorem hashFor_lt (h : Nat → Nat) (a : Key) : hashFor h a < W64 := by
  cases a
  · simp [hashFor, W64]
  · simp only [hashFor]
    split
    · simp [W64]
    · exact Nat.mod_lt _ (by simp [W64])

theorem hashFor_pos (h : Nat → Nat) (a : Key) : 0 < hashFor h a := by
  cases a
  · simp [hashFor]
  · simp only [hashFor]
    split <;> omega

/-- two different slots never hold equal keys -/
theorem NoDup.ne {s : Slots} (hn : NoDup s) {i j : Nat} {a b : Entry}
    (hi : rd s i = some a) (hj : rd s j = some b) (hij : i ≠ j) : a.key.id ≠ b.key.id := by
  have p1 := entries_of_rd_some s i a hi
  have hj' : rd (wr s i none) j = some b := by rw [rd_wr_ne hij]; exact hj
  have p2 := entries_of_rd_some _ j b hj'
  have p : (entries s).Perm (a :: b :: entries (wr (wr s i none) j none)) := p1.trans (p2.cons a)
  have hsym : ∀ {x y : Entry}, x.key.id ≠ y.key.id → y.key.id ≠ x.key.id := fun h => Ne.symm h
  have := (List.Perm.pairwise_iff (R := fun (a b : Entry) => a.key.id ≠ b.key.id) hsym p).1 hn
  rw [List.pairwise_cons] at this
  exact this.1 b (by simp)

theorem idx_sub_zero {n i : Nat} (hi : i < n) : (i + n - 0) % n = i := by
  rcases mod_lt2 (a := i + n - 0) (n := n) (by omega) with ⟨a, b⟩ | ⟨a, b⟩ <;> omega

/-- chain lemma -/
theorem chain {n : Nat} {s : Slots} (hn : 2 ≤ n) (hrh : RHs n s) :
    ∀ t i e, i < n → rd s i = some e → t ≤ disp n i e.hash →
      ∃ e', rd s ((i + n - t) % n) = some e' ∧ disp n i e.hash ≤ disp n ((i + n - t) % n) e'.hash + t := by
  intro t
  induction t with
  | zero =>
    intro i e hi hr _
    rw [idx_sub_zero hi]
    exact ⟨e, hr, by omega⟩
  | succ t ih =>
    intro i e hi hr ht
    obtain ⟨e', hr', hd'⟩ := ih i e hi hr (by omega)
    have hdl : disp n i e.hash < n := disp_lt (by omega)
    have hx : (i + n - t) % n < n := Nat.mod_lt _ (by omega)
    obtain ⟨e'', hr'', hd''⟩ := hrh _ e' hx hr' (by omega)
    have hp : prv n ((i + n - t) % n) = (i + n - (t + 1)) % n := by
      rcases mod_lt2 (a := i + n - t) (n := n) (by omega) with ⟨a, b⟩ | ⟨a, b⟩ <;>
      rcases mod_lt2 (a := i + n - (t + 1)) (n := n) (by omega) with ⟨c, d⟩ | ⟨c, d⟩ <;>
      rcases prv_cases hx with ⟨f, g⟩ | ⟨f, g⟩ <;> omega
    rw [hp] at hr'' hd''
    exact ⟨e'', hr'', by omega⟩

/-- a displaced entry's run back to its home never contains an empty slot -/
theorem disp_lt_of_empty {n : Nat} {s : Slots} (hn : 2 ≤ n) (hrh : RHs n s) {z i : Nat} {e : Entry}
    (hz : z < n) (hzn : rd s z = none) (hi : i < n) (hr : rd s i = some e) :
    disp n i e.hash < (i + n - z) % n := by
  rcases Nat.lt_or_ge (disp n i e.hash) ((i + n - z) % n) with h | h
  · exact h
  · exfalso
    obtain ⟨e', hr', _⟩ := chain hn hrh _ i e hi hr h
    have : (i + n - (i + n - z) % n) % n = z := by
      rcases mod_lt2 (a := i + n - z) (n := n) (by omega) with ⟨a, b⟩ | ⟨a, b⟩ <;>
      rcases mod_lt2 (a := i + n - (i + n - z) % n) (n := n) (by omega) with ⟨c, d⟩ | ⟨c, d⟩ <;> omega
    rw [this, hzn] at hr'
    cases hr'

end AwsVerif.Proofs.C02
