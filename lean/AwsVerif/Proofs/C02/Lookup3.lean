import AwsVerif.Model.Lookup3
/-! The content hashes are functions of the key's bytes only, so keys the library's content-equality callbacks
identify hash equally; published `hashlittle2` values are reproduced by the byte-wise model. -/
namespace AwsVerif.Proofs.C02
open AwsVerif.Lookup3

theorem join64_lt (b c : UInt32) : join64 b c < 2 ^ 64 := by
  unfold join64
  have h1 := b.toNat_lt
  have h2 := c.toNat_lt
  omega

theorem hashBytes_lt (bs : List UInt8) : hashBytes bs < 2 ^ 64 := by
  unfold hashBytes; exact join64_lt _ _

theorem bytesEq_hash (a b : List UInt8) (h : bytesEq a b = true) : hashBytes a = hashBytes b := by
  unfold bytesEq at h
  rw [beq_iff_eq.1 h]

theorem cstrEq_hash (a b : List UInt8) (h : cstrEq a b = true) : hashCStr a = hashCStr b := by
  unfold cstrEq at h
  unfold hashCStr
  rw [beq_iff_eq.1 h]

/-- a C string without NUL bytes hashes like the cursor / `aws_string` over the same bytes -/
theorem hashCStr_eq_hashBytes (a : List UInt8) (h : ∀ x ∈ a, x ≠ 0) : hashCStr a = hashBytes a := by
  unfold hashCStr
  congr 1
  induction a with
  | nil => rfl
  | cons x xs ih =>
    have hx : x ≠ 0 := h x (by simp)
    simp only [List.takeWhile_cons, hx, ne_eq, not_false_eq_true, decide_true, if_true]
    rw [ih (fun y hy => h y (List.mem_cons_of_mem _ hy))]

def fourScore : List UInt8 :=
  [70, 111, 117, 114, 32, 115, 99, 111, 114, 101, 32, 97, 110, 100, 32, 115, 101, 118, 101, 110, 32, 121, 101, 97,
   114, 115, 32, 97, 103, 111]

/-- the values printed in lookup3.c's own `driver5()` ("Four score and seven years ago", 30 bytes) -/
theorem known_answers :
    hashlittle2 [] 0 0 = (0xdeadbeef, 0xdeadbeef) ∧
    hashlittle2 [] 0 0xdeadbeef = (0xbd5b7dde, 0xdeadbeef) ∧
    hashlittle2 [] 0xdeadbeef 0xdeadbeef = (0x9c093ccd, 0xbd5b7dde) ∧
    hashlittle2 fourScore 0 0 = (0x17770551, 0xce7226e6) ∧
    hashlittle2 fourScore 0 1 = (0xe3607cae, 0xbd371de4) ∧
    hashlittle2 fourScore 1 0 = (0xcd628161, 0x6cbea4b3) := by
  decide

end AwsVerif.Proofs.C02
