import AwsVerif.Proofs.C02.Find
/-! `s_emplace_item`: victim swapping preserves the Robin Hood condition, adds exactly the new
entry (up to permutation), touches only the probe window up to the first empty slot, returns the
slot of the new entry, and terminates inside its fuel. -/
namespace AwsVerif.Proofs.C02
open AwsVerif.HashTable

theorem disp_of_probe {n h p : Nat} (hn : 0 < n) (hp : p < n) : disp n ((h + p) % n) h = p := by
  have hm : h % n < n := Nat.mod_lt _ hn
  have hx : (h + p) % n < n := Nat.mod_lt _ hn
  have h1 := probe_cases (h := h) (p := p) hn (by omega)
  have h2 := disp_cases (h := h) hx
  generalize (h + p) % n = x at *
  generalize disp n x h = d at *
  generalize h % n = m at *
  omega

theorem next_probe {n h p i : Nat} (hi : i = (h + p) % n) : (h + (p + 1)) % n = nxt n i := by
  unfold nxt; rw [hi, Nat.mod_add_mod]; rfl

theorem next_of_disp {n i h : Nat} (hn : 0 < n) (hi : i < n) : (h + (disp n i h + 1)) % n = nxt n i :=
  next_probe (slot_of_disp hn hi).symm

theorem prv_nxt {n i : Nat} (hn : 2 ≤ n) (hi : i < n) : prv n (nxt n i) = i := by
  have hx : nxt n i < n := nxt_lt (by omega)
  rcases nxt_cases hi with ⟨a, b⟩ | ⟨a, b⟩ <;> rcases prv_cases hx with ⟨c, d⟩ | ⟨c, d⟩ <;> omega

theorem nxt_prv {n i : Nat} (hn : 2 ≤ n) (hi : i < n) : nxt n (prv n i) = i := by
  have hx : prv n i < n := prv_lt (by omega)
  rcases prv_cases hi with ⟨a, b⟩ | ⟨a, b⟩ <;> rcases nxt_cases hx with ⟨c, d⟩ | ⟨c, d⟩ <;> omega

theorem prv_ne {n i : Nat} (hn : 2 ≤ n) (hi : i < n) : prv n i ≠ i := by
  rcases prv_cases hi with ⟨a, b⟩ | ⟨a, b⟩ <;> omega

theorem nxt_ne {n i : Nat} (hn : 2 ≤ n) (hi : i < n) : nxt n i ≠ i := by
  rcases nxt_cases hi with ⟨a, b⟩ | ⟨a, b⟩ <;> omega

theorem nxt_add {n i g : Nat} (hg : 1 ≤ g) : (nxt n i + (g - 1)) % n = (i + g) % n := by
  unfold nxt; rw [Nat.mod_add_mod]; congr 1; omega

theorem add_gap_ne {n i g : Nat} (hi : i < n) (h1 : 1 ≤ g) (h2 : g < n) : (i + g) % n ≠ i := by
  rcases mod_lt2 (a := i + g) (n := n) (by omega) with ⟨a, b⟩ | ⟨a, b⟩ <;> omega

theorem add_zero_mod {n i : Nat} (hi : i < n) : (i + 0) % n = i := Nat.mod_eq_of_lt hi

/-- distance from `z` forward to `i` when `z = (i + gap) % n`, `1 ≤ gap < n`: it is `n - gap` -/
theorem back_dist {n i g : Nat} (hi : i < n) (h1 : 1 ≤ g) (h2 : g < n) : (i + n - (i + g) % n) % n = n - g := by
  rcases mod_lt2 (a := i + g) (n := n) (by omega) with ⟨a, b⟩ | ⟨a, b⟩ <;>
  rcases mod_lt2 (a := i + n - (i + g) % n) (n := n) (by omega) with ⟨c, d⟩ | ⟨c, d⟩ <;> omega

/-- storing `e` (displacement `p`) into slot `i` keeps the Robin Hood condition when the predecessor
supports `p` and the successor's displacement is at most `p + 1` -/
theorem store_rh' {n : Nat} {s : Slots} (hn : 2 ≤ n) (hs : s.size = n) (hrh : RHs n s) {i : Nat} {e : Entry} {p : Nat}
    (hi : i < n) (hd : disp n i e.hash = p)
    (hpred : 0 < p → ∃ e', rd s (prv n i) = some e' ∧ p ≤ disp n (prv n i) e'.hash + 1)
    (hsucc : ∀ ex, rd s (nxt n i) = some ex → disp n (nxt n i) ex.hash ≤ p + 1) :
    RHs n (wr s i (some e)) := by
  intro x ex hx hrx hdx
  by_cases hxi : x = i
  · subst hxi
    rw [rd_wr_same (by omega)] at hrx
    cases hrx
    rw [rd_wr_ne (Ne.symm (prv_ne hn hx))]
    rw [hd] at hdx ⊢
    exact hpred hdx
  · rw [rd_wr_ne (Ne.symm hxi)] at hrx
    obtain ⟨e', hr', hd'⟩ := hrh x ex hx hrx hdx
    by_cases hpi : prv n x = i
    · have hxn : x = nxt n i := by rw [← hpi, nxt_prv hn hx]
      rw [hpi, rd_wr_same (by omega)]
      refine ⟨e, rfl, ?_⟩
      rw [hd]
      subst hxn
      exact hsucc ex hrx
    · rw [rd_wr_ne (Ne.symm hpi)]
      exact ⟨e', hr', hd'⟩

/-- the same, with the successor bound derived from the previous occupant (displaced by at most `p`) -/
theorem store_rh {n : Nat} {s : Slots} (hn : 2 ≤ n) (hs : s.size = n) (hrh : RHs n s) {i : Nat} {e : Entry} {p : Nat}
    (hi : i < n) (hd : disp n i e.hash = p)
    (hpred : 0 < p → ∃ e', rd s (prv n i) = some e' ∧ p ≤ disp n (prv n i) e'.hash + 1)
    (hold : ∀ v, rd s i = some v → disp n i v.hash ≤ p) :
    RHs n (wr s i (some e)) := by
  refine store_rh' hn hs hrh hi hd hpred ?_
  intro ex hrx
  rcases Nat.eq_zero_or_pos (disp n (nxt n i) ex.hash) with h0 | h0
  · omega
  · obtain ⟨e', hr', hd'⟩ := hrh _ ex (nxt_lt (by omega)) hrx h0
    rw [prv_nxt hn hi] at hr' hd'
    have := hold e' hr'
    omega

theorem emplaceLoop_succ (mask fuel : Nat) (s : Slots) (e : Entry) (probe : Nat) (rval : Option Nat) :
    emplaceLoop mask (fuel + 1) s e probe rval =
      match rd s (idxOf mask e.hash probe) with
      | none => some (wr s (idxOf mask e.hash probe) (some e), rval.orElse fun _ => some (idxOf mask e.hash probe))
      | some v =>
        if probeOf mask (idxOf mask e.hash probe) v.hash < probe then
          emplaceLoop mask fuel (wr s (idxOf mask e.hash probe) (some e)) v
            (probeOf mask (idxOf mask e.hash probe) v.hash + 1) (rval.orElse fun _ => some (idxOf mask e.hash probe))
        else emplaceLoop mask fuel s e (probe + 1) rval := rfl

/-- what the caller learns about the returned slot -/
def RvalOk (n : Nat) (s' : Slots) (e : Entry) (rv r : Option Nat) : Prop :=
  match rv with
  | some r0 => r = some r0
  | none => ∃ idx, r = some idx ∧ idx < n ∧ rd s' idx = some e

theorem emplaceLoop_spec {n mask : Nat} (g : Geom n mask) :
    ∀ fuel s e p rv gap i, s.size = n → RHs n s → i = (e.hash + p) % n → p < n →
      (0 < p → ∃ e', rd s (prv n i) = some e' ∧ p ≤ disp n (prv n i) e'.hash + 1) →
      gap < fuel → gap < n → rd s ((i + gap) % n) = none →
      ∃ s' r, emplaceLoop mask fuel s e p rv = some (s', r) ∧ s'.size = n ∧ RHs n s' ∧
        (entries s').Perm (e :: entries s) ∧
        (∀ x, (∀ g', g' ≤ gap → x ≠ (i + g') % n) → rd s' x = rd s x) ∧
        RvalOk n s' e rv r := by
  have hn := g.two_le
  intro fuel
  induction fuel with
  | zero => intro s e p rv gap i _ _ _ _ _ hg; omega
  | succ f ih =>
    intro s e p rv gap i hs hrh hi hp hpred hgf hgn hgap
    have hin : i < n := by rw [hi]; exact Nat.mod_lt _ (by omega)
    have hde : disp n i e.hash = p := by rw [hi]; exact disp_of_probe (by omega) hp
    rw [emplaceLoop_succ, g.idxOf, ← hi]
    cases hri : rd s i with
    | none =>
      simp only
      refine ⟨_, _, rfl, by simp [hs], ?_, ?_, ?_, ?_⟩
      · exact store_rh hn hs hrh hin hde hpred (by intro v hv; rw [hri] at hv; cases hv)
      · have := entries_wr_some s i e (by omega)
        rw [wr_none_of_rd_none s i hri] at this
        exact this
      · intro x hx
        have := hx 0 (by omega)
        rw [add_zero_mod hin] at this
        exact rd_wr_ne (Ne.symm this)
      · cases rv with
        | some r0 => simp [RvalOk]
        | none => exact ⟨i, by simp, hin, rd_wr_same (by omega)⟩
    | some v =>
      simp only
      have hg1 : 1 ≤ gap := by
        rcases Nat.eq_zero_or_pos gap with h0 | h0
        · subst h0; rw [add_zero_mod hin, hri] at hgap; cases hgap
        · exact h0
      have hz : (i + gap) % n < n := Nat.mod_lt _ (by omega)
      have hvlt : disp n i v.hash + 1 < n := by
        have := disp_lt_of_empty hn hrh hz hgap hin hri
        rw [back_dist hin hg1 hgn] at this
        omega
      have hzne : (i + gap) % n ≠ i := add_gap_ne hin hg1 hgn
      rw [g.probeOf]
      by_cases hlt : disp n i v.hash < p
      · rw [if_pos hlt]
        have hrh1 : RHs n (wr s i (some e)) :=
          store_rh hn hs hrh hin hde hpred (by intro v' hv'; rw [hri] at hv'; cases hv'; omega)
        obtain ⟨s', r, h1, h2, h3, h4, h5, h6⟩ :=
          ih (wr s i (some e)) v (disp n i v.hash + 1) (rv.orElse fun _ => some i) (gap - 1) (nxt n i)
            (by simp [hs]) hrh1 (next_of_disp (by omega) hin).symm hvlt
            (by intro _; rw [prv_nxt hn hin, rd_wr_same (by omega)]; exact ⟨e, rfl, by omega⟩)
            (by omega) (by omega)
            (by rw [nxt_add hg1, rd_wr_ne (Ne.symm hzne)]; exact hgap)
        refine ⟨s', r, h1, h2, h3, ?_, ?_, ?_⟩
        · have p1 := entries_wr_some s i e (by omega)
          have p2 := entries_of_rd_some s i v hri
          exact h4.trans ((p1.cons v).trans ((List.Perm.swap e v _).trans (p2.symm.cons e)))
        · intro x hx
          have hxi : x ≠ i := by have := hx 0 (by omega); rwa [add_zero_mod hin] at this
          rw [h5 x (by
            intro g' hg'
            have := hx (g' + 1) (by omega)
            rw [← nxt_add (by omega : 1 ≤ g' + 1)] at this
            simpa using this)]
          exact rd_wr_ne (Ne.symm hxi)
        · cases rv with
          | some r0 => simpa [RvalOk] using h6
          | none =>
            have h6' : r = some i := by simpa [RvalOk] using h6
            refine ⟨i, h6', hin, ?_⟩
            rw [h5 i (by
              intro g' hg'
              rw [show nxt n i + g' = nxt n i + ((g' + 1) - 1) by omega, nxt_add (by omega)]
              exact (add_gap_ne hin (by omega) (by omega)).symm)]
            exact rd_wr_same (by omega)
      · rw [if_neg hlt]
        obtain ⟨s', r, h1, h2, h3, h4, h5, h6⟩ :=
          ih s e (p + 1) rv (gap - 1) (nxt n i) hs hrh (next_probe hi).symm (by omega)
            (by intro _; rw [prv_nxt hn hin]; exact ⟨v, hri, by omega⟩)
            (by omega) (by omega)
            (by rw [nxt_add hg1]; exact hgap)
        refine ⟨s', r, h1, h2, h3, h4, ?_, h6⟩
        intro x hx
        exact h5 x (by
          intro g' hg'
          have := hx (g' + 1) (by omega)
          rw [← nxt_add (by omega : 1 ≤ g' + 1)] at this
          simpa using this)

end AwsVerif.Proofs.C02
