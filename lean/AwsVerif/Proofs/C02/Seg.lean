import AwsVerif.Proofs.C02.Shape
/-! Entries of an index interval `[a, b)` of the slot array, in slot order. -/
namespace AwsVerif.Proofs.C02
open AwsVerif.HashTable

def segk (s : Slots) (a k : Nat) : List Entry := (List.range' a k).filterMap (rd s)
def seg (s : Slots) (a b : Nat) : List Entry := segk s a (b - a)

theorem segk_zero (s : Slots) (a : Nat) : segk s a 0 = [] := rfl

theorem segk_succ (s : Slots) (a k : Nat) : segk s a (k + 1) = (rd s a).toList ++ segk s (a + 1) k := by
  unfold segk
  rw [List.range'_succ, List.filterMap_cons]
  cases rd s a <;> rfl

theorem segk_append (s : Slots) (a k l : Nat) : segk s a (k + l) = segk s a k ++ segk s (a + k) l := by
  unfold segk
  rw [← List.range'_append (s := a) (m := k) (n := l), List.filterMap_append, Nat.one_mul]

theorem segk_congr {s s' : Slots} : ∀ k a, (∀ x, a ≤ x → x < a + k → rd s' x = rd s x) → segk s' a k = segk s a k := by
  intro k
  induction k with
  | zero => intro a _; rfl
  | succ k ih =>
    intro a h
    rw [segk_succ, segk_succ, h a (Nat.le_refl _) (by omega), ih (a + 1) (fun x h1 h2 => h x (by omega) (by omega))]

theorem segk_shift {s s' : Slots} : ∀ k a, (∀ x, a ≤ x → x < a + k → rd s' x = rd s (x + 1)) →
    segk s' a k = segk s (a + 1) k := by
  intro k
  induction k with
  | zero => intro a _; rfl
  | succ k ih =>
    intro a h
    rw [segk_succ, segk_succ, h a (Nat.le_refl _) (by omega), ih (a + 1) (fun x h1 h2 => h x (by omega) (by omega))]

theorem segk_empty {s : Slots} : ∀ k a, (∀ x, a ≤ x → x < a + k → rd s x = none) → segk s a k = [] := by
  intro k
  induction k with
  | zero => intro a _; rfl
  | succ k ih =>
    intro a h
    rw [segk_succ, h a (Nat.le_refl _) (by omega), ih (a + 1) (fun x h1 h2 => h x (by omega) (by omega))]
    rfl

theorem seg_self (s : Slots) (a : Nat) : seg s a a = [] := by unfold seg; rw [Nat.sub_self]; rfl

theorem seg_of_le (s : Slots) {a b : Nat} (h : b ≤ a) : seg s a b = [] := by
  unfold seg; rw [Nat.sub_eq_zero_of_le h]; rfl

theorem seg_split (s : Slots) {a m b : Nat} (h1 : a ≤ m) (h2 : m ≤ b) : seg s a b = seg s a m ++ seg s m b := by
  unfold seg
  have : b - a = (m - a) + (b - m) := by omega
  rw [this, segk_append]
  congr 2; omega

theorem seg_head (s : Slots) {a b : Nat} (h : a < b) : seg s a b = (rd s a).toList ++ seg s (a + 1) b := by
  unfold seg
  have : b - a = (b - (a + 1)) + 1 := by omega
  rw [this, segk_succ]

theorem seg_head_some (s : Slots) {a b : Nat} {e : Entry} (h : a < b) (hr : rd s a = some e) :
    seg s a b = e :: seg s (a + 1) b := by
  rw [seg_head s h, hr]; rfl

theorem seg_one (s : Slots) (a : Nat) : seg s a (a + 1) = (rd s a).toList := by
  rw [seg_head s (Nat.lt_succ_self a), seg_self]; simp

theorem seg_congr {s s' : Slots} {a b : Nat} (h : ∀ x, a ≤ x → x < b → rd s' x = rd s x) : seg s' a b = seg s a b := by
  unfold seg
  exact segk_congr _ _ (fun x h1 h2 => h x h1 (by omega))

theorem seg_shift {s s' : Slots} {a b : Nat} (hab : a ≤ b) (h : ∀ x, a ≤ x → x < b → rd s' x = rd s (x + 1)) :
    seg s' a b = seg s (a + 1) (b + 1) := by
  unfold seg
  have : b + 1 - (a + 1) = b - a := by omega
  rw [this]
  exact segk_shift _ _ (fun x h1 h2 => h x h1 (by omega))

theorem seg_empty {s : Slots} {a b : Nat} (h : ∀ x, a ≤ x → x < b → rd s x = none) : seg s a b = [] := by
  unfold seg
  exact segk_empty _ _ (fun x h1 h2 => h x h1 (by omega))

theorem toList_eq_map_rd (s : Slots) : s.toList = (List.range s.size).map (rd s) := by
  apply List.ext_getElem?
  intro i
  rw [Array.getElem?_toList, List.getElem?_map]
  by_cases h : i < s.size
  · rw [List.getElem?_range h]
    simp only [Option.map_some]
    rw [rd_eq, Array.getElem?_eq_getElem h]
    rfl
  · rw [Array.getElem?_eq_none (by omega), List.getElem?_eq_none (by simp; omega)]
    rfl

theorem entries_eq_seg (s : Slots) : entries s = seg s 0 s.size := by
  rw [entries_eq]
  unfold ents seg segk
  rw [toList_eq_map_rd, List.filterMap_map, List.range_eq_range', Nat.sub_zero]
  rfl

end AwsVerif.Proofs.C02
