import AwsVerif.Proofs.C02.Refine
/-! `aws_hash_table_eq` as written (count comparison, then one-directional lookup) decides equality of the two
key→value maps under `s_safe_eq_check(value_eq, ·, ·)`; `swap` / `move` are struct copies. -/
namespace AwsVerif.Proofs.C02
open AwsVerif.HashTable

/-! ### pigeonhole on duplicate-free lists -/

theorem nodup_subset_length_le {α : Type} [DecidableEq α] : ∀ (A B : List α), A.Nodup → (∀ x ∈ A, x ∈ B) →
    A.length ≤ B.length := by
  intro A
  induction A with
  | nil => intro B _ _; exact Nat.zero_le _
  | cons a A ih =>
    intro B hnd hsub
    rw [List.nodup_cons] at hnd
    have haB : a ∈ B := hsub a (by simp)
    have h1 : ∀ x ∈ A, x ∈ B.erase a := by
      intro x hx
      have hne : x ≠ a := by intro h; subst h; exact hnd.1 hx
      exact (List.mem_erase_of_ne hne).2 (hsub x (List.mem_cons_of_mem _ hx))
    have := ih (B.erase a) hnd.2 h1
    rw [List.length_erase_of_mem haB] at this
    have hpos : 0 < B.length := List.length_pos_of_mem haB
    simp only [List.length_cons]
    omega

theorem nodup_subset_surj {α : Type} [DecidableEq α] : ∀ (A B : List α), A.Nodup → (∀ x ∈ A, x ∈ B) →
    B.length ≤ A.length → ∀ x ∈ B, x ∈ A := by
  intro A
  induction A with
  | nil =>
    intro B _ _ hlen x hx
    have := List.length_pos_of_mem hx
    have h0 : B.length ≤ 0 := hlen
    omega
  | cons a A ih =>
    intro B hnd hsub hlen x hx
    rw [List.nodup_cons] at hnd
    have haB : a ∈ B := hsub a (by simp)
    have h1 : ∀ x ∈ A, x ∈ B.erase a := by
      intro x hx
      have hne : x ≠ a := by intro h; subst h; exact hnd.1 hx
      exact (List.mem_erase_of_ne hne).2 (hsub x (List.mem_cons_of_mem _ hx))
    have hl : (B.erase a).length ≤ A.length := by
      rw [List.length_erase_of_mem haB]
      simp only [List.length_cons] at hlen
      omega
    by_cases hxa : x = a
    · subst hxa; simp
    · have := ih (B.erase a) hnd.2 h1 hl x ((List.mem_erase_of_ne hxa).2 hx)
      exact List.mem_cons_of_mem _ this

/-! ### aws_hash_table_eq -/

/-- the two association lists denote the same key→value map under `safeEq veq` (first argument: the value in `A`) -/
def SameMap (veq : Nat → Nat → Bool) (A B : List (Key × Val)) : Prop :=
  (∀ kv ∈ A, ∃ kv' ∈ B, kv'.1.id = kv.1.id ∧ safeEq veq kv.2 kv'.2 = true) ∧
  (∀ kv' ∈ B, ∃ kv ∈ A, kv'.1.id = kv.1.id ∧ safeEq veq kv.2 kv'.2 = true)

theorem some_mem_toList {s : Slots} {e : Entry} : some e ∈ s.toList ↔ e ∈ entries s := by
  rw [entries_eq]; unfold ents
  rw [List.mem_filterMap]
  constructor
  · intro h; exact ⟨some e, h, rfl⟩
  · rintro ⟨o, ho, hid⟩; simp only [id] at hid; subst hid; exact ho

/-- what the code computes, literally -/
theorem tableEq_iff {h : Nat → Nat} {a b : Table} (hb : Inv h b) (veq : Nat → Nat → Bool) :
    tableEq h veq a b = true ↔
      a.entryCount = b.entryCount ∧
      ∀ kv ∈ contents a, ∃ kv' ∈ contents b, kv'.1.id = kv.1.id ∧ safeEq veq kv.2 kv'.2 = true := by
  unfold tableEq
  by_cases hc : a.entryCount = b.entryCount
  · rw [if_neg (by simp [hc]), List.all_eq_true]
    constructor
    · intro hall
      refine ⟨hc, ?_⟩
      intro kv hkv
      obtain ⟨e, he, rfl⟩ := mem_contents.1 hkv
      have := hall (some e) (some_mem_toList.2 he)
      simp only at this
      cases hf : find h b e.key with
      | none => rw [hf] at this; cases this
      | some bkv =>
        rw [hf] at this
        obtain ⟨e', he', hid, hkv'⟩ := (find_spec hb e.key bkv).1 hf
        refine ⟨bkv, ?_, ?_, this⟩
        · rw [hkv']; exact mem_contents.2 ⟨e', he', rfl⟩
        · rw [hkv']; exact hid
    · rintro ⟨_, hall⟩ o ho
      cases o with
      | none => rfl
      | some e =>
        simp only
        have he := some_mem_toList.1 ho
        obtain ⟨kv', hkv', hid, hs⟩ := hall (e.key, e.val) (mem_contents.2 ⟨e, he, rfl⟩)
        obtain ⟨e', he', rfl⟩ := mem_contents.1 hkv'
        have := (find_spec hb e.key (e'.key, e'.val)).2 ⟨e', he', hid, rfl⟩
        rw [this]
        exact hs
  · rw [if_pos hc]
    constructor
    · intro h; cases h
    · rintro ⟨h, _⟩; exact absurd h hc

theorem ids_nodup {h : Nat → Nat} {t : Table} (hinv : Inv h t) : ((contents t).map (·.1.id)).Nodup := by
  unfold List.Nodup
  rw [List.pairwise_map]
  exact specOk_of_abs hinv.1 (List.Perm.refl _)

theorem count_eq_contents {h : Nat → Nat} {t : Table} (hinv : Inv h t) : t.entryCount = (contents t).length := by
  rw [hinv.1.count, contents_eq, List.length_map]

/-- `aws_hash_table_eq` decides equality of the two maps -/
theorem tableEq_sameMap {h : Nat → Nat} {a b : Table} (ha : Inv h a) (hb : Inv h b) (veq : Nat → Nat → Bool) :
    tableEq h veq a b = true ↔ SameMap veq (contents a) (contents b) := by
  rw [tableEq_iff hb veq]
  have hsubAB : (∀ kv ∈ contents a, ∃ kv' ∈ contents b, kv'.1.id = kv.1.id ∧ safeEq veq kv.2 kv'.2 = true) →
      ∀ x ∈ (contents a).map (·.1.id), x ∈ (contents b).map (·.1.id) := by
    intro hall x hx
    obtain ⟨kv, hkv, rfl⟩ := List.mem_map.1 hx
    obtain ⟨kv', hkv', hid, _⟩ := hall kv hkv
    exact List.mem_map.2 ⟨kv', hkv', hid⟩
  constructor
  · rintro ⟨hc, hall⟩
    refine ⟨hall, ?_⟩
    intro kv' hkv'
    have hlen : ((contents b).map (·.1.id)).length ≤ ((contents a).map (·.1.id)).length := by
      rw [List.length_map, List.length_map, ← count_eq_contents ha, ← count_eq_contents hb, hc]
      exact Nat.le_refl _
    have := nodup_subset_surj _ _ (ids_nodup ha) (hsubAB hall) hlen kv'.1.id (List.mem_map.2 ⟨kv', hkv', rfl⟩)
    obtain ⟨kv, hkv, hid⟩ := List.mem_map.1 this
    obtain ⟨kv'', hkv'', hid'', hs⟩ := hall kv hkv
    -- kv'' and kv' are both in b with the same identity: they are the same pair
    have hsame : kv'' = kv' := by
      have hu := specOk_of_abs hb.1 (List.Perm.refl (contents b))
      have f1 := (specFind_iff hu kv'.1 kv'').2 ⟨hkv'', by rw [hid'', hid]⟩
      have f2 := (specFind_iff hu kv'.1 kv').2 ⟨hkv', rfl⟩
      rw [f1] at f2; exact Option.some.inj f2
    subst hsame
    exact ⟨kv, hkv, hid.symm, hs⟩
  · rintro ⟨hall, hback⟩
    refine ⟨?_, hall⟩
    have hsubBA : ∀ x ∈ (contents b).map (·.1.id), x ∈ (contents a).map (·.1.id) := by
      intro x hx
      obtain ⟨kv', hkv', rfl⟩ := List.mem_map.1 hx
      obtain ⟨kv, hkv, hid, _⟩ := hback kv' hkv'
      exact List.mem_map.2 ⟨kv, hkv, hid.symm⟩
    have l1 := nodup_subset_length_le _ _ (ids_nodup ha) (hsubAB hall)
    have l2 := nodup_subset_length_le _ _ (ids_nodup hb) hsubBA
    rw [List.length_map, List.length_map] at l1 l2
    rw [count_eq_contents ha, count_eq_contents hb]
    omega

end AwsVerif.Proofs.C02
