import AwsVerif.Proofs.C02.Iter
/-! The exact effect of `s_remove_entry` on the slot array: a run of `len` slots starting at the
removed slot is shifted back by one (cyclically) and the last slot of the run is emptied; everything
else is untouched.  Needed for the iterator's `limit` adjustment argument. -/
namespace AwsVerif.Proofs.C02
open AwsVerif.HashTable

theorem nxt_add' {n i j : Nat} : (nxt n i + j) % n = (i + (j + 1)) % n := by
  unfold nxt; rw [Nat.mod_add_mod]; congr 1; omega

theorem removeLoop_shape {n mask : Nat} (g : Geom n mask) :
    ∀ fuel s i gap, s.size = n → i < n → 1 ≤ gap → gap ≤ fuel → gap < n → rd s ((i + gap) % n) = none →
      ∃ s' last len, removeLoop mask fuel s i = some (s', last) ∧ len < gap ∧ last = (i + len) % n ∧
        (∀ j, j < len → rd s' ((i + j) % n) = rd s ((i + (j + 1)) % n)) ∧ rd s' last = none ∧
        (∀ x, (∀ j, j ≤ len → x ≠ (i + j) % n) → rd s' x = rd s x) ∧ s'.size = n := by
  have hn := g.two_le
  intro fuel
  induction fuel with
  | zero => intro s i gap _ _ h1 h2; omega
  | succ f ih =>
    intro s i gap hs hi hg1 hgf hgn hgap
    rw [removeLoop_succ, g.and (i + 1)]
    change ∃ s' last len, (match rd s (nxt n i) with
      | none => some (wr s i none, i)
      | some e => if e.hash &&& mask = nxt n i then some (wr s i none, i)
                  else removeLoop mask f (wr s i (some e)) (nxt n i)) = some (s', last) ∧ _
    have stop : ∃ s' last len, some (wr s i none, i) = some (s', last) ∧ len < gap ∧ last = (i + len) % n ∧
        (∀ j, j < len → rd s' ((i + j) % n) = rd s ((i + (j + 1)) % n)) ∧ rd s' last = none ∧
        (∀ x, (∀ j, j ≤ len → x ≠ (i + j) % n) → rd s' x = rd s x) ∧ s'.size = n := by
      refine ⟨_, _, 0, rfl, by omega, (add_zero_mod hi).symm, by intro j hj; omega, rd_wr_same (by omega), ?_, by simp [hs]⟩
      intro x hx
      have := hx 0 (Nat.le_refl _)
      rw [add_zero_mod hi] at this
      exact rd_wr_ne (Ne.symm this)
    cases hrn : rd s (nxt n i) with
    | none => simp only; exact stop
    | some e =>
      simp only
      by_cases hh : e.hash &&& mask = nxt n i
      · rw [if_pos hh]; exact stop
      · rw [if_neg hh]
        have hx : nxt n i < n := nxt_lt (by omega)
        have hne : nxt n i ≠ i := nxt_ne hn hi
        have hg2 : 2 ≤ gap := by
          rcases Nat.lt_or_ge gap 2 with h | h
          · have : gap = 1 := by omega
            subst this
            change rd s (nxt n i) = none at hgap
            rw [hrn] at hgap; cases hgap
          · exact h
        obtain ⟨s', last, len, h1, h2, h3, h4, h5, h6, h7⟩ :=
          ih (wr s i (some e)) (nxt n i) (gap - 1) (by simp [hs]) hx (by omega) (by omega) (by omega)
            (by rw [nxt_add hg1, rd_wr_ne (Ne.symm (add_gap_ne hi hg1 hgn))]; exact hgap)
        refine ⟨s', last, len + 1, h1, by omega, by rw [h3, nxt_add'], ?_, h5, ?_, h7⟩
        · intro j hj
          cases j with
          | zero =>
            rw [add_zero_mod hi]
            rw [h6 i (by
              intro j' hj'
              rw [nxt_add']
              exact (add_gap_ne hi (by omega) (by omega)).symm)]
            rw [rd_wr_same (by omega)]
            change some e = rd s (nxt n i)
            rw [hrn]
          | succ j' =>
            have := h4 j' (by omega)
            rw [nxt_add', nxt_add'] at this
            rw [this]
            exact rd_wr_ne (Ne.symm (add_gap_ne hi (by omega) (by omega)))
        · intro x hx'
          have hxi : x ≠ i := by have := hx' 0 (by omega); rwa [add_zero_mod hi] at this
          rw [h6 x (by
            intro j hj
            rw [nxt_add']
            exact hx' (j + 1) (by omega))]
          exact rd_wr_ne (Ne.symm hxi)

end AwsVerif.Proofs.C02
