import AwsVerif.Proofs.C02.Insert
/-! `aws_hash_table_create`, `aws_hash_table_put`. -/
namespace AwsVerif.Proofs.C02
open AwsVerif.HashTable

theorem createAt_spec {h : Nat → Nat} {t : Table} (hinv : Inv h t) (key : Key) {p : Nat}
    (hmiss : ∀ e ∈ entries t.slots, e.key.id ≠ key.id) (hload : t.entryCount + 1 ≤ t.maxLoad) (hp : p < t.size)
    (hpred : 0 < p → ∃ e', rd t.slots (prv t.size ((hashFor h key + p) % t.size)) = some e' ∧
      p ≤ disp t.size (prv t.size ((hashFor h key + p) % t.size)) e'.hash + 1) :
    ∃ r, createAt (hashFor h key) key t p = .ok r ∧ Inv h r.table ∧ r.idx < r.table.size ∧ r.created = true ∧
      r.table.dk = t.dk ∧ r.table.dv = t.dv ∧ r.table.size = t.size ∧
      rd r.table.slots r.idx = some ⟨hashFor h key, key, none⟩ ∧
      (entries r.table.slots).Perm (⟨hashFor h key, key, none⟩ :: entries t.slots) := by
  obtain ⟨b, hrh⟩ := hinv
  have hcnt : (entries t.slots).length < t.size := by
    rw [← b.count]; exact Nat.lt_of_le_of_lt b.load b.maxLt
  obtain ⟨s', idx, h1, h2, h3, h4, h5, h6⟩ :=
    emplace_spec b.geom (e := ⟨hashFor h key, key, none⟩) (p := p) b.sizeEq hrh hcnt hp hpred
  unfold createAt
  rw [h1]
  refine ⟨_, rfl, ⟨⟨b.pow2, b.sizeLt, b.mask, h2, ?_, hload, b.maxLt, ?_, ?_⟩, h3⟩, h5, rfl, rfl, rfl, rfl, h6, h4⟩
  · simp only; rw [h4.length_eq, b.count]; rfl
  · have hsym : ∀ {x y : Entry}, x.key.id ≠ y.key.id → y.key.id ≠ x.key.id := fun h => Ne.symm h
    refine (List.Perm.pairwise_iff (R := fun (a b : Entry) => a.key.id ≠ b.key.id) hsym h4).2 ?_
    rw [List.pairwise_cons]
    exact ⟨fun e he => Ne.symm (hmiss e he), b.nodup⟩
  · intro e he
    rcases List.mem_cons.1 (h4.mem_iff.1 he) with h7 | h7
    · subst h7; rfl
    · exact b.hashOk e h7

theorem create_spec {h : Nat → Nat} {t : Table} (hinv : Inv h t) (key : Key) :
    (∃ e, create h t key = .error e ∧ e = .overflow ∧ ∀ e ∈ entries t.slots, e.key.id ≠ key.id) ∨
    (∃ r, create h t key = .ok r ∧ Inv h r.table ∧ r.idx < r.table.size ∧ r.table.dk = t.dk ∧ r.table.dv = t.dv ∧
      ((r.created = true ∧ (∀ e ∈ entries t.slots, e.key.id ≠ key.id) ∧
          rd r.table.slots r.idx = some ⟨hashFor h key, key, none⟩ ∧
          (entries r.table.slots).Perm (⟨hashFor h key, key, none⟩ :: entries t.slots)) ∨
       (r.created = false ∧ r.table = t ∧ ∃ e, rd t.slots r.idx = some e ∧ e.key.id = key.id))) := by
  have b := hinv.1
  unfold create
  simp only
  cases hfe : findEntry t (hashFor h key) key with
  | outOfFuel => exact absurd hfe (findEntry_fuel b _ _)
  | found idx q =>
    obtain ⟨e, h1, _, h3, h4⟩ := findEntry_sound b hfe
    exact Or.inr ⟨_, rfl, hinv, h4, rfl, rfl, Or.inr ⟨rfl, rfl, e, h1, h3⟩⟩
  | notFound idx q =>
    obtain ⟨h1, h2, h3, h4⟩ := findEntry_notFound hinv hfe
    simp only
    split
    · exact Or.inl ⟨_, rfl, rfl, h4⟩
    · split
      · rcases expand_spec hinv with ⟨e, he, hne⟩ | ⟨t', ht', hinv', hperm, hc, hl, hdk, hdv⟩
        · rw [he]; exact Or.inl ⟨e, rfl, hne, h4⟩
        · rw [ht']
          simp only
          obtain ⟨r, r1, r2, r3, r4, r5, r6, _, r7, r8⟩ := createAt_spec hinv' key (p := 0)
            (fun e he => h4 e (hperm.mem_iff.1 he)) (by omega) (by have := hinv'.1.two_le; omega) (by intro h; omega)
          exact Or.inr ⟨r, r1, r2, r3, by rw [r5, hdk], by rw [r6, hdv],
            Or.inl ⟨r4, h4, r7, r8.trans (List.Perm.cons _ hperm)⟩⟩
      · rename_i hnl
        obtain ⟨r, r1, r2, r3, r4, r5, r6, _, r7, r8⟩ := createAt_spec hinv key (p := q) h4 (by omega) h2
          (by rw [← h1]; exact h3)
        exact Or.inr ⟨r, r1, r2, r3, r5, r6, Or.inl ⟨r4, h4, r7, r8⟩⟩

/-- the Robin Hood condition only looks at which slots are occupied and at the stored hash codes -/
theorem RHs_congr {n : Nat} {s s' : Slots} (hh : ∀ x, (rd s' x).map (·.hash) = (rd s x).map (·.hash)) (hrh : RHs n s) :
    RHs n s' := by
  intro i e hi hr hd
  have h1 := hh i
  rw [hr] at h1
  cases hri : rd s i with
  | none => rw [hri] at h1; cases h1
  | some e0 =>
    rw [hri] at h1
    simp only [Option.map_some, Option.some.injEq] at h1
    obtain ⟨e', hr', hd'⟩ := hrh i e0 hi hri (by rw [← h1]; exact hd)
    have h2 := hh (prv n i)
    rw [hr'] at h2
    cases hrp : rd s' (prv n i) with
    | none => rw [hrp] at h2; cases h2
    | some e1 =>
      rw [hrp] at h2
      simp only [Option.map_some, Option.some.injEq] at h2
      exact ⟨e1, rfl, by rw [h1, h2]; exact hd'⟩

/-- overwriting key pointer and value of the entry in slot `i` (same identity, same hash) -/
theorem replace_inv {h : Nat → Nat} {t : Table} (hinv : Inv h t) {i : Nat} {e0 : Entry} (hr : rd t.slots i = some e0)
    {key : Key} (hid : e0.key.id = key.id) (val : Val) :
    Inv h { t with slots := wr t.slots i (some { e0 with key := key, val := val }) } ∧
    (entries (wr t.slots i (some { e0 with key := key, val := val }))).Perm
      ({ e0 with key := key, val := val } :: entries (wr t.slots i none)) ∧
    (entries t.slots).Perm (e0 :: entries (wr t.slots i none)) := by
  obtain ⟨b, hrh⟩ := hinv
  have hi : i < t.slots.size := rd_lt_size hr
  have p1 := entries_wr_some t.slots i { e0 with key := key, val := val } hi
  have p2 := entries_of_rd_some t.slots i e0 hr
  refine ⟨⟨⟨b.pow2, b.sizeLt, b.mask, by simp [b.sizeEq], ?_, b.load, b.maxLt, ?_, ?_⟩, ?_⟩, p1, p2⟩
  · simp only; rw [p1.length_eq, b.count, p2.length_eq]; rfl
  · have hsym : ∀ {x y : Entry}, x.key.id ≠ y.key.id → y.key.id ≠ x.key.id := fun h => Ne.symm h
    have q := (List.Perm.pairwise_iff (R := fun (a b : Entry) => a.key.id ≠ b.key.id) hsym p2).1 b.nodup
    refine (List.Perm.pairwise_iff (R := fun (a b : Entry) => a.key.id ≠ b.key.id) hsym p1).2 ?_
    rw [List.pairwise_cons] at q ⊢
    exact ⟨fun x hx => by simp only; rw [← hid]; exact q.1 x hx, q.2⟩
  · intro e he
    rcases List.mem_cons.1 (p1.mem_iff.1 he) with h7 | h7
    · subst h7
      simp only
      rw [b.hash_of_rd hr]; exact hashFor_congr h hid
    · exact b.hashOk e (p2.mem_iff.2 (List.mem_cons_of_mem _ h7))
  · refine RHs_congr ?_ hrh
    intro x
    rw [rd_wr]
    split
    · rename_i hx; rw [← hx.1, hr]; rfl
    · rfl

end AwsVerif.Proofs.C02
