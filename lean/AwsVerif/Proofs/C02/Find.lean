import AwsVerif.Proofs.C02.Inv
/-! `s_find_entry` / `s_find_entry1`: soundness, completeness under the Robin Hood condition,
what a "not found" answer says about the probe path, and termination inside the fuel. -/
namespace AwsVerif.Proofs.C02
open AwsVerif.HashTable

/-- the table geometry the C code relies on: `n = 2^k`, `mask = n - 1` -/
def Geom (n mask : Nat) : Prop := ∃ k, 1 ≤ k ∧ k ≤ 64 ∧ n = 2 ^ k ∧ mask = 2 ^ k - 1

theorem Geom.two_le {n mask : Nat} (g : Geom n mask) : 2 ≤ n := by
  obtain ⟨k, h1, _, rfl, _⟩ := g
  calc 2 = 2 ^ 1 := rfl
    _ ≤ 2 ^ k := Nat.pow_le_pow_right (by decide) h1

theorem Geom.idxOf {n mask : Nat} (g : Geom n mask) (hc p : Nat) : idxOf mask hc p = (hc + p) % n := by
  obtain ⟨k, _, h2, rfl, rfl⟩ := g
  exact idxOf_eq h2

theorem Geom.probeOf {n mask : Nat} (g : Geom n mask) (i h : Nat) : probeOf mask i h = disp n i h := by
  obtain ⟨k, _, h2, rfl, rfl⟩ := g
  exact probeOf_eq h2

theorem Geom.and {n mask : Nat} (g : Geom n mask) (x : Nat) : x &&& mask = x % n := by
  obtain ⟨k, _, _, rfl, rfl⟩ := g
  exact and_mask

theorem Basic.geom {h : Nat → Nat} {t : Table} (b : Basic h t) : Geom t.size t.mask := by
  obtain ⟨k, h1, h2, h3⟩ := b.pow2
  exact ⟨k, h1, h2, h3, by rw [b.mask, h3]⟩

/-- an entry that answers the query `(hc, key)` -/
def Match (hc : Nat) (key : Key) (e : Entry) : Prop := e.hash = hc ∧ keysEq key e.key = true

instance (hc : Nat) (key : Key) (e : Entry) : Decidable (Match hc key e) := by unfold Match; exact inferInstance

theorem findLoop_succ (s : Slots) (mask hc : Nat) (key : Key) (fuel probe : Nat) :
    findLoop s mask hc key (fuel + 1) probe =
      match rd s (idxOf mask hc probe) with
      | none => .notFound (idxOf mask hc probe) probe
      | some e =>
        if e.hash = hc ∧ keysEq key e.key then .found (idxOf mask hc probe) probe
        else if probeOf mask (idxOf mask hc probe) e.hash < probe then .notFound (idxOf mask hc probe) probe
        else findLoop s mask hc key fuel (probe + 1) := rfl

theorem findLoop_sound {s : Slots} {mask hc : Nat} {key : Key} :
    ∀ fuel p idx q, findLoop s mask hc key fuel p = .found idx q →
      ∃ e, rd s idx = some e ∧ Match hc key e ∧ idx = idxOf mask hc q := by
  intro fuel
  induction fuel with
  | zero => intro p idx q h; simp [findLoop] at h
  | succ f ih =>
    intro p idx q h
    rw [findLoop_succ] at h
    split at h
    · cases h
    · rename_i e he
      split at h
      · rename_i hm
        cases h
        exact ⟨e, he, hm, rfl⟩
      · split at h
        · cases h
        · exact ih _ _ _ h

/-- where the entry with hash `hc` in slot `j` sits on the probe path of `hc` -/
theorem slot_of_disp {n j hc : Nat} (hn : 0 < n) (hj : j < n) : (hc + disp n j hc) % n = j := by
  have hd : disp n j hc < n := disp_lt hn
  have h1 := disp_cases (h := hc) hj
  have h2 := probe_cases (h := hc) (p := disp n j hc) hn (by omega)
  have hm : hc % n < n := Nat.mod_lt _ hn
  generalize disp n j hc = d at *
  generalize hc % n = m at *
  generalize (hc + d) % n = x at *
  omega

theorem findLoop_complete {n mask : Nat} {s : Slots} {hc : Nat} {key : Key} (g : Geom n mask) (hrh : RHs n s)
    {j : Nat} {e : Entry} (hj : j < n) (hr : rd s j = some e) (hm : Match hc key e) :
    ∀ m p fuel, p + m = disp n j hc → m < fuel →
      ∃ idx q, findLoop s mask hc key fuel p = .found idx q := by
  have hn := g.two_le
  intro m
  induction m with
  | zero =>
    intro p fuel hp hf
    obtain ⟨f, rfl⟩ : ∃ f, fuel = f + 1 := ⟨fuel - 1, by omega⟩
    rw [findLoop_succ, g.idxOf]
    have : (hc + p) % n = j := by
      have : p = disp n j hc := by omega
      rw [this]; exact slot_of_disp (by omega) hj
    rw [this, hr]
    simp only
    rw [if_pos (show e.hash = hc ∧ keysEq key e.key = true from hm)]
    exact ⟨_, _, rfl⟩
  | succ m ih =>
    intro p fuel hp hf
    obtain ⟨f, rfl⟩ : ∃ f, fuel = f + 1 := ⟨fuel - 1, by omega⟩
    rw [findLoop_succ, g.idxOf]
    have hd : disp n j hc < n := disp_lt (by omega)
    have he : e.hash = hc := hm.1
    obtain ⟨e', hr', hd'⟩ := chain hn hrh (m + 1) j e hj hr (by rw [he]; omega)
    have hidx : (j + n - (m + 1)) % n = (hc + p) % n := by
      rcases disp_cases (h := hc) hj with ⟨a, b⟩ | ⟨a, b⟩ <;>
      rcases probe_cases (h := hc) (p := p) (by omega : 0 < n) (by omega) with ⟨c, d⟩ | ⟨c, d⟩ <;>
      rcases mod_lt2 (a := j + n - (m + 1)) (n := n) (by omega) with ⟨x, y⟩ | ⟨x, y⟩ <;> omega
    rw [hidx] at hr' hd'
    rw [hr']
    simp only
    by_cases hm' : e'.hash = hc ∧ keysEq key e'.key = true
    · rw [if_pos hm']; exact ⟨_, _, rfl⟩
    · rw [if_neg hm', g.probeOf]
      rw [he] at hd'
      rw [if_neg (by omega)]
      exact ih (p + 1) f (by omega) (by omega)

/-- what `notFound idx q` (from probe `p`) says: `idx` is the `q`-th probe slot, it is empty or
holds a less displaced entry that does not match, and every earlier probe slot from `p` on holds a
non-matching entry displaced at least as far as the probe count. -/
theorem findLoop_notFound {n mask : Nat} {s : Slots} {hc : Nat} {key : Key} (g : Geom n mask) :
    ∀ fuel p idx q, findLoop s mask hc key fuel p = .notFound idx q →
      idx = (hc + q) % n ∧ p ≤ q ∧
      (rd s idx = none ∨ ∃ e, rd s idx = some e ∧ ¬ Match hc key e ∧ disp n idx e.hash < q) ∧
      (∀ r, p ≤ r → r < q → ∃ e, rd s ((hc + r) % n) = some e ∧ ¬ Match hc key e ∧ r ≤ disp n ((hc + r) % n) e.hash) := by
  intro fuel
  induction fuel with
  | zero => intro p idx q h; simp [findLoop] at h
  | succ f ih =>
    intro p idx q h
    rw [findLoop_succ, g.idxOf] at h
    split at h
    · rename_i hnone
      cases h
      exact ⟨rfl, Nat.le_refl _, Or.inl hnone, fun r h1 h2 => by omega⟩
    · rename_i e he
      split at h
      · cases h
      · rename_i hnm
        rw [g.probeOf] at h
        split at h
        · rename_i hlt
          cases h
          exact ⟨rfl, Nat.le_refl _, Or.inr ⟨e, he, hnm, hlt⟩, fun r h1 h2 => by omega⟩
        · rename_i hge
          obtain ⟨a, b, c, d⟩ := ih _ _ _ h
          refine ⟨a, by omega, c, ?_⟩
          intro r h1 h2
          rcases Nat.eq_or_lt_of_le h1 with h3 | h3
          · subst h3
            exact ⟨e, he, hnm, by omega⟩
          · exact d r (by omega) h2

theorem findLoop_fuel {n mask : Nat} {s : Slots} {hc : Nat} {key : Key} (g : Geom n mask) :
    ∀ fuel p, n < fuel + p → p ≤ n → findLoop s mask hc key fuel p ≠ .outOfFuel := by
  have hn := g.two_le
  intro fuel
  induction fuel with
  | zero => intro p h1 h2; omega
  | succ f ih =>
    intro p h1 h2
    rw [findLoop_succ, g.idxOf]
    split
    · simp
    · rename_i e he
      split
      · simp
      · rw [g.probeOf]
        split
        · simp
        · rename_i hge
          have : disp n ((hc + p) % n) e.hash < n := disp_lt (by omega)
          exact ih (p + 1) (by omega) (by omega)

end AwsVerif.Proofs.C02
