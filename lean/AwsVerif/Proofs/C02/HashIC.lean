import AwsVerif.Model.HashTable
/-! The library's case-insensitive pair: `aws_array_eq_ignore_case a b → aws_hash_array_ignore_case a = … b`,
and what the generated `s_tolower_table` is (checked over all 256 entries by `decide`). -/
namespace AwsVerif.Proofs.C02
open AwsVerif.HashTable

theorem eqLoop_hash : ∀ (a b : List UInt8) (acc : Nat), eqIgnoreCaseLoop a b = true →
    hashIgnoreCaseFrom acc a = hashIgnoreCaseFrom acc b := by
  intro a
  induction a with
  | nil =>
    intro b acc h
    cases b with
    | nil => rfl
    | cons y ys => simp [eqIgnoreCaseLoop] at h
  | cons x xs ih =>
    intro b acc h
    cases b with
    | nil => simp [eqIgnoreCaseLoop] at h
    | cons y ys =>
      unfold eqIgnoreCaseLoop at h
      by_cases hxy : tolower x = tolower y
      · simp only [hxy, ne_eq, not_true_eq_false, if_false] at h
        unfold hashIgnoreCaseFrom
        rw [hxy]
        exact ih ys _ h
      · simp [hxy] at h

theorem eq_hash (a b : List UInt8) (h : eqIgnoreCase a b = true) : hashIgnoreCase a = hashIgnoreCase b := by
  unfold eqIgnoreCase at h
  split at h
  · cases h
  · exact eqLoop_hash a b _ h

set_option maxRecDepth 1000000 in
/-- the generated table, all 256 entries: ASCII upper-case letters are moved to lower case, everything
else is fixed (so `eqIgnoreCase` is equality up to ASCII case) -/
theorem tolowerTable_ascii :
    Gen.tolowerTable.toList.map UInt8.toNat =
      (List.range 256).map (fun i => if 65 ≤ i ∧ i ≤ 90 then i + 32 else i) := by
  decide

theorem fnv_constants : FNV_OFFSET = 0xcbf29ce484222325 ∧ FNV_PRIME = 0x100000001b3 := by decide

end AwsVerif.Proofs.C02
