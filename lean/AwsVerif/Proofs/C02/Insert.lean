import AwsVerif.Proofs.C02.Lookup
/-! `s_emplace_item` on a table, `s_expand_table`, `aws_hash_table_create`, `aws_hash_table_put`. -/
namespace AwsVerif.Proofs.C02
open AwsVerif.HashTable

theorem exists_gap {n : Nat} {s : Slots} (hs : s.size = n) (hlt : (entries s).length < n) {i : Nat} (hi : i < n) :
    ∃ gap, gap < n ∧ rd s ((i + gap) % n) = none := by
  obtain ⟨z, hz, hzn⟩ := exists_empty_slot s (by omega)
  refine ⟨(z + n - i) % n, Nat.mod_lt _ (by omega), ?_⟩
  have : (i + (z + n - i) % n) % n = z := by
    rcases mod_lt2 (a := z + n - i) (n := n) (by omega) with ⟨a, b⟩ | ⟨a, b⟩ <;>
    rcases mod_lt2 (a := i + (z + n - i) % n) (n := n) (by omega) with ⟨c, d⟩ | ⟨c, d⟩ <;> omega
  rw [this]; exact hzn

/-- `s_emplace_item` with fuel `n` on an array with at least one empty slot -/
theorem emplace_spec {n mask : Nat} (g : Geom n mask) {s : Slots} {e : Entry} {p : Nat} (hs : s.size = n)
    (hrh : RHs n s) (hlt : (entries s).length < n) (hp : p < n)
    (hpred : 0 < p → ∃ e', rd s (prv n ((e.hash + p) % n)) = some e' ∧ p ≤ disp n (prv n ((e.hash + p) % n)) e'.hash + 1) :
    ∃ s' idx, emplace mask n s e p = some (s', some idx) ∧ s'.size = n ∧ RHs n s' ∧
      (entries s').Perm (e :: entries s) ∧ idx < n ∧ rd s' idx = some e := by
  have hn := g.two_le
  have hi : (e.hash + p) % n < n := Nat.mod_lt _ (by omega)
  obtain ⟨gap, hg1, hg2⟩ := exists_gap hs hlt hi
  obtain ⟨s', r, h1, h2, h3, h4, _, h6⟩ :=
    emplaceLoop_spec g n s e p none gap _ hs hrh rfl hp hpred hg1 hg1 hg2
  obtain ⟨idx, h7, h8, h9⟩ := h6
  subst h7
  exact ⟨s', idx, h1, h2, h3, h4, h8, h9⟩

theorem reinsert_spec {n mask : Nat} (g : Geom n mask) :
    ∀ (l : List (Option Entry)) (s : Slots), s.size = n → RHs n s → (entries s).length + (ents l).length < n →
      ∃ s', reinsert mask n l s = some s' ∧ s'.size = n ∧ RHs n s' ∧ (entries s').Perm (ents l ++ entries s) := by
  have hn := g.two_le
  intro l
  induction l with
  | nil => intro s hs hrh _; exact ⟨s, rfl, hs, hrh, by simp [ents]⟩
  | cons o rest ih =>
    intro s hs hrh hlen
    cases o with
    | none =>
      have : ents (none :: rest) = ents rest := by simp [ents]
      rw [this] at hlen ⊢
      exact ih s hs hrh hlen
    | some e =>
      have hE : ents (some e :: rest) = e :: ents rest := by simp [ents]
      rw [hE] at hlen ⊢
      simp only [List.length_cons] at hlen
      obtain ⟨s1, idx, h1, h2, h3, h4, _, _⟩ :=
        emplace_spec g (e := e) (p := 0) hs hrh (by omega) (by omega) (by intro h; omega)
      have hl1 : (entries s1).length = (entries s).length + 1 := by rw [h4.length_eq]; rfl
      obtain ⟨s', h5, h6, h7, h8⟩ := ih s1 h2 h3 (by omega)
      refine ⟨s', ?_, h6, h7, ?_⟩
      · simp only [reinsert, h1]; exact h5
      · refine h8.trans ?_
        refine (List.Perm.append_left _ h4).trans ?_
        simp only [List.cons_append]
        exact List.perm_middle

/-- consequences of the structural invariant that are stable under permutation of the entries -/
theorem NoDup_of_perm {s s' : Slots} (hp : (entries s').Perm (entries s)) (h : NoDup s) : NoDup s' := by
  have hsym : ∀ {x y : Entry}, x.key.id ≠ y.key.id → y.key.id ≠ x.key.id := fun h => Ne.symm h
  exact (List.Perm.pairwise_iff (R := fun (a b : Entry) => a.key.id ≠ b.key.id) hsym hp).2 h

theorem HashOk_of_perm {h : Nat → Nat} {s s' : Slots} (hp : (entries s').Perm (entries s)) (hh : HashOk h s) : HashOk h s' :=
  fun e he => hh e (hp.mem_iff.1 he)

theorem expand_spec {h : Nat → Nat} {t : Table} (hinv : Inv h t) :
    (∃ e, expand t = .error e ∧ e = .overflow) ∨
    (∃ t', expand t = .ok t' ∧ Inv h t' ∧ (entries t'.slots).Perm (entries t.slots) ∧
      t'.entryCount = t.entryCount ∧ t.entryCount + 1 ≤ t'.maxLoad ∧ t'.dk = t.dk ∧ t'.dv = t.dv) := by
  obtain ⟨b, hrh⟩ := hinv
  unfold expand
  split
  · exact Or.inl ⟨_, rfl, rfl⟩
  · split
    · rename_i e heq
      exact Or.inl ⟨_, rfl, updateTemplateSize_err heq⟩
    · rename_i tp htp
      obtain ⟨g1, g2, g3, g4⟩ := updateTemplateSize_spec htp
      split
      · rename_i e heq
        exact Or.inl ⟨_, rfl, allocState_err heq⟩
      · rename_i nt hnt
        obtain ⟨a1, a2, a3, a4, a5, a6, a7⟩ := allocState_spec hnt
        have gnt : Geom nt.size nt.mask := by
          obtain ⟨k, k1, k2, k3⟩ := g1
          exact ⟨k, k1, k2, by rw [a2, k3], by rw [a5, g2, k3]⟩
        have hcnt : (entries t.slots).length < t.size := by
          rw [← b.count]; exact Nat.lt_of_le_of_lt b.load b.maxLt
        have hsz : 2 * t.size ≤ nt.size := by rw [a2]; omega
        have hpre : (entries nt.slots).length + (ents t.slots.toList).length < nt.size := by
          rw [a1, entries_replicate, ← entries_eq]
          simp only [List.length_nil, Nat.zero_add]
          omega
        obtain ⟨s', h5, h6, h7, h8⟩ := reinsert_spec gnt t.slots.toList nt.slots (by rw [a1, a2]; simp)
          (by rw [a1]; exact RHs_empty _ _) hpre
        rw [h5]
        simp only
        have hperm : (entries s').Perm (entries t.slots) := by
          rw [a1, entries_replicate, List.append_nil, ← entries_eq] at h8; exact h8
        have htwo := b.two_le
        have hml : t.size ≤ maxLoadOf tp.size := maxLoadOf_double (c := t.size) (by omega) (by rw [← a2]; exact hsz)
        have hcount := b.count
        refine Or.inr ⟨_, rfl, ⟨⟨?_, ?_, ?_, ?_, ?_, ?_, ?_, ?_, ?_⟩, ?_⟩, hperm, a3, ?_, a6, a7⟩
        · obtain ⟨k, k1, k2, k3⟩ := g1
          exact ⟨k, k1, k2, by simp only; rw [a2, k3]⟩
        · simp only; rw [a2]; exact allocState_size_lt hnt
        · simp only; rw [a5, a2, g2]
        · simp only; exact h6
        · simp only; rw [a3, b.count, hperm.length_eq]
        · simp only; rw [a3, a4, g3]; omega
        · simp only; rw [a4, a2, g3]; exact maxLoadOf_lt (by have := b.two_le; omega)
        · exact NoDup_of_perm hperm b.nodup
        · exact HashOk_of_perm hperm b.hashOk
        · exact h7
        · simp only; rw [a4, g3]; omega

end AwsVerif.Proofs.C02
