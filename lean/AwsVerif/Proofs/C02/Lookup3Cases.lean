import AwsVerif.Proofs.C02.Lookup3Guard
/-! Case lemmas for the three code paths of `hashlittle2` (tables extracted from lookup3.inl into
`Gen/Lookup3Paths.lean`): the adds of one block iteration, and of every case of the tail switch, put into
(a, b, c) exactly the little-endian words of the key's bytes — for the 32-bit path independently of the bytes
that lie behind the key (`after`), which its masked word loads do read.
This file is mechanical: one lemma per (path, length); each is closed by unfolding the generated table on an
explicit byte list and comparing the two sides as natural numbers (`omega`). -/
namespace AwsVerif.Proofs.C02
open AwsVerif.Lookup3 AwsVerif

theorem and_ff (x : Nat) : x &&& 255 = x % 256 := Nat.and_two_pow_sub_one_eq_mod x 8
theorem and_ffff (x : Nat) : x &&& 65535 = x % 65536 := Nat.and_two_pow_sub_one_eq_mod x 16
theorem and_ffffff (x : Nat) : x &&& 16777215 = x % 16777216 := Nat.and_two_pow_sub_one_eq_mod x 24
theorem and_ffffffff (x : Nat) : x &&& 4294967295 = x % 4294967296 := Nat.and_two_pow_sub_one_eq_mod x 32

/-- equality of two `UInt32` expressions built from bytes by `+`, `<<<`, `&&&`: compare as numbers -/
macro "l3_nat" : tactic => `(tactic| (
  rw [← UInt32.toNat_inj]
  simp only [UInt32.toNat_add, UInt32.toNat_shiftLeft, UInt32.toNat_and, UInt8.toNat_toUInt32, UInt32.toNat_ofNat,
    Nat.shiftLeft_eq, Nat.reducePow, Nat.reduceMod, Nat.reduceMul, and_ff, and_ffff, and_ffffff, and_ffffffff]
  omega))

theorem tail32_1 (x0 : UInt8) (after : List UInt8) (a b c : UInt32) :
    addTerms ([x0] ++ after) (Gen.l3Tail32.getD 1 []) (a, b, c) =
      (a + le32 [x0] 0, b + le32 [x0] 4, c + le32 [x0] 8) := by
  simp [Gen.l3Tail32, addTerms, evalTerm, load, byteAt, le32]
  have h0 := x0.toNat_lt
  have g0 := (after[0]?.getD 0).toNat_lt; have g1 := (after[1]?.getD 0).toNat_lt; have g2 := (after[2]?.getD 0).toNat_lt
  and_intros <;> l3_nat

theorem tail32_2 (x0 x1 : UInt8) (after : List UInt8) (a b c : UInt32) :
    addTerms ([x0, x1] ++ after) (Gen.l3Tail32.getD 2 []) (a, b, c) =
      (a + le32 [x0, x1] 0, b + le32 [x0, x1] 4, c + le32 [x0, x1] 8) := by
  simp [Gen.l3Tail32, addTerms, evalTerm, load, byteAt, le32]
  have h0 := x0.toNat_lt; have h1 := x1.toNat_lt
  have g0 := (after[0]?.getD 0).toNat_lt; have g1 := (after[1]?.getD 0).toNat_lt; have g2 := (after[2]?.getD 0).toNat_lt
  and_intros <;> l3_nat

theorem tail32_3 (x0 x1 x2 : UInt8) (after : List UInt8) (a b c : UInt32) :
    addTerms ([x0, x1, x2] ++ after) (Gen.l3Tail32.getD 3 []) (a, b, c) =
      (a + le32 [x0, x1, x2] 0, b + le32 [x0, x1, x2] 4, c + le32 [x0, x1, x2] 8) := by
  simp [Gen.l3Tail32, addTerms, evalTerm, load, byteAt, le32]
  have h0 := x0.toNat_lt; have h1 := x1.toNat_lt; have h2 := x2.toNat_lt
  have g0 := (after[0]?.getD 0).toNat_lt; have g1 := (after[1]?.getD 0).toNat_lt; have g2 := (after[2]?.getD 0).toNat_lt
  and_intros <;> l3_nat

theorem tail32_4 (x0 x1 x2 x3 : UInt8) (after : List UInt8) (a b c : UInt32) :
    addTerms ([x0, x1, x2, x3] ++ after) (Gen.l3Tail32.getD 4 []) (a, b, c) =
      (a + le32 [x0, x1, x2, x3] 0, b + le32 [x0, x1, x2, x3] 4, c + le32 [x0, x1, x2, x3] 8) := by
  simp [Gen.l3Tail32, addTerms, evalTerm, load, byteAt, le32]
  have h0 := x0.toNat_lt; have h1 := x1.toNat_lt; have h2 := x2.toNat_lt; have h3 := x3.toNat_lt
  have g0 := (after[0]?.getD 0).toNat_lt; have g1 := (after[1]?.getD 0).toNat_lt; have g2 := (after[2]?.getD 0).toNat_lt
  and_intros <;> l3_nat

theorem tail32_5 (x0 x1 x2 x3 x4 : UInt8) (after : List UInt8) (a b c : UInt32) :
    addTerms ([x0, x1, x2, x3, x4] ++ after) (Gen.l3Tail32.getD 5 []) (a, b, c) =
      (a + le32 [x0, x1, x2, x3, x4] 0, b + le32 [x0, x1, x2, x3, x4] 4, c + le32 [x0, x1, x2, x3, x4] 8) := by
  simp [Gen.l3Tail32, addTerms, evalTerm, load, byteAt, le32]
  have h0 := x0.toNat_lt; have h1 := x1.toNat_lt; have h2 := x2.toNat_lt; have h3 := x3.toNat_lt; have h4 := x4.toNat_lt
  have g0 := (after[0]?.getD 0).toNat_lt; have g1 := (after[1]?.getD 0).toNat_lt; have g2 := (after[2]?.getD 0).toNat_lt
  and_intros <;> l3_nat

theorem tail32_6 (x0 x1 x2 x3 x4 x5 : UInt8) (after : List UInt8) (a b c : UInt32) :
    addTerms ([x0, x1, x2, x3, x4, x5] ++ after) (Gen.l3Tail32.getD 6 []) (a, b, c) =
      (a + le32 [x0, x1, x2, x3, x4, x5] 0, b + le32 [x0, x1, x2, x3, x4, x5] 4, c + le32 [x0, x1, x2, x3, x4, x5] 8) := by
  simp [Gen.l3Tail32, addTerms, evalTerm, load, byteAt, le32]
  have h0 := x0.toNat_lt; have h1 := x1.toNat_lt; have h2 := x2.toNat_lt; have h3 := x3.toNat_lt; have h4 := x4.toNat_lt; have h5 := x5.toNat_lt
  have g0 := (after[0]?.getD 0).toNat_lt; have g1 := (after[1]?.getD 0).toNat_lt; have g2 := (after[2]?.getD 0).toNat_lt
  and_intros <;> l3_nat

theorem tail32_7 (x0 x1 x2 x3 x4 x5 x6 : UInt8) (after : List UInt8) (a b c : UInt32) :
    addTerms ([x0, x1, x2, x3, x4, x5, x6] ++ after) (Gen.l3Tail32.getD 7 []) (a, b, c) =
      (a + le32 [x0, x1, x2, x3, x4, x5, x6] 0, b + le32 [x0, x1, x2, x3, x4, x5, x6] 4, c + le32 [x0, x1, x2, x3, x4, x5, x6] 8) := by
  simp [Gen.l3Tail32, addTerms, evalTerm, load, byteAt, le32]
  have h0 := x0.toNat_lt; have h1 := x1.toNat_lt; have h2 := x2.toNat_lt; have h3 := x3.toNat_lt; have h4 := x4.toNat_lt; have h5 := x5.toNat_lt; have h6 := x6.toNat_lt
  have g0 := (after[0]?.getD 0).toNat_lt; have g1 := (after[1]?.getD 0).toNat_lt; have g2 := (after[2]?.getD 0).toNat_lt
  and_intros <;> l3_nat

theorem tail32_8 (x0 x1 x2 x3 x4 x5 x6 x7 : UInt8) (after : List UInt8) (a b c : UInt32) :
    addTerms ([x0, x1, x2, x3, x4, x5, x6, x7] ++ after) (Gen.l3Tail32.getD 8 []) (a, b, c) =
      (a + le32 [x0, x1, x2, x3, x4, x5, x6, x7] 0, b + le32 [x0, x1, x2, x3, x4, x5, x6, x7] 4, c + le32 [x0, x1, x2, x3, x4, x5, x6, x7] 8) := by
  simp [Gen.l3Tail32, addTerms, evalTerm, load, byteAt, le32]
  have h0 := x0.toNat_lt; have h1 := x1.toNat_lt; have h2 := x2.toNat_lt; have h3 := x3.toNat_lt; have h4 := x4.toNat_lt; have h5 := x5.toNat_lt; have h6 := x6.toNat_lt; have h7 := x7.toNat_lt
  have g0 := (after[0]?.getD 0).toNat_lt; have g1 := (after[1]?.getD 0).toNat_lt; have g2 := (after[2]?.getD 0).toNat_lt
  and_intros <;> l3_nat

theorem tail32_9 (x0 x1 x2 x3 x4 x5 x6 x7 x8 : UInt8) (after : List UInt8) (a b c : UInt32) :
    addTerms ([x0, x1, x2, x3, x4, x5, x6, x7, x8] ++ after) (Gen.l3Tail32.getD 9 []) (a, b, c) =
      (a + le32 [x0, x1, x2, x3, x4, x5, x6, x7, x8] 0, b + le32 [x0, x1, x2, x3, x4, x5, x6, x7, x8] 4, c + le32 [x0, x1, x2, x3, x4, x5, x6, x7, x8] 8) := by
  simp [Gen.l3Tail32, addTerms, evalTerm, load, byteAt, le32]
  have h0 := x0.toNat_lt; have h1 := x1.toNat_lt; have h2 := x2.toNat_lt; have h3 := x3.toNat_lt; have h4 := x4.toNat_lt; have h5 := x5.toNat_lt; have h6 := x6.toNat_lt; have h7 := x7.toNat_lt; have h8 := x8.toNat_lt
  have g0 := (after[0]?.getD 0).toNat_lt; have g1 := (after[1]?.getD 0).toNat_lt; have g2 := (after[2]?.getD 0).toNat_lt
  and_intros <;> l3_nat

theorem tail32_10 (x0 x1 x2 x3 x4 x5 x6 x7 x8 x9 : UInt8) (after : List UInt8) (a b c : UInt32) :
    addTerms ([x0, x1, x2, x3, x4, x5, x6, x7, x8, x9] ++ after) (Gen.l3Tail32.getD 10 []) (a, b, c) =
      (a + le32 [x0, x1, x2, x3, x4, x5, x6, x7, x8, x9] 0, b + le32 [x0, x1, x2, x3, x4, x5, x6, x7, x8, x9] 4, c + le32 [x0, x1, x2, x3, x4, x5, x6, x7, x8, x9] 8) := by
  simp [Gen.l3Tail32, addTerms, evalTerm, load, byteAt, le32]
  have h0 := x0.toNat_lt; have h1 := x1.toNat_lt; have h2 := x2.toNat_lt; have h3 := x3.toNat_lt; have h4 := x4.toNat_lt; have h5 := x5.toNat_lt; have h6 := x6.toNat_lt; have h7 := x7.toNat_lt; have h8 := x8.toNat_lt; have h9 := x9.toNat_lt
  have g0 := (after[0]?.getD 0).toNat_lt; have g1 := (after[1]?.getD 0).toNat_lt; have g2 := (after[2]?.getD 0).toNat_lt
  and_intros <;> l3_nat

theorem tail32_11 (x0 x1 x2 x3 x4 x5 x6 x7 x8 x9 x10 : UInt8) (after : List UInt8) (a b c : UInt32) :
    addTerms ([x0, x1, x2, x3, x4, x5, x6, x7, x8, x9, x10] ++ after) (Gen.l3Tail32.getD 11 []) (a, b, c) =
      (a + le32 [x0, x1, x2, x3, x4, x5, x6, x7, x8, x9, x10] 0, b + le32 [x0, x1, x2, x3, x4, x5, x6, x7, x8, x9, x10] 4, c + le32 [x0, x1, x2, x3, x4, x5, x6, x7, x8, x9, x10] 8) := by
  simp [Gen.l3Tail32, addTerms, evalTerm, load, byteAt, le32]
  have h0 := x0.toNat_lt; have h1 := x1.toNat_lt; have h2 := x2.toNat_lt; have h3 := x3.toNat_lt; have h4 := x4.toNat_lt; have h5 := x5.toNat_lt; have h6 := x6.toNat_lt; have h7 := x7.toNat_lt; have h8 := x8.toNat_lt; have h9 := x9.toNat_lt; have h10 := x10.toNat_lt
  have g0 := (after[0]?.getD 0).toNat_lt; have g1 := (after[1]?.getD 0).toNat_lt; have g2 := (after[2]?.getD 0).toNat_lt
  and_intros <;> l3_nat

theorem tail32_12 (x0 x1 x2 x3 x4 x5 x6 x7 x8 x9 x10 x11 : UInt8) (after : List UInt8) (a b c : UInt32) :
    addTerms ([x0, x1, x2, x3, x4, x5, x6, x7, x8, x9, x10, x11] ++ after) (Gen.l3Tail32.getD 12 []) (a, b, c) =
      (a + le32 [x0, x1, x2, x3, x4, x5, x6, x7, x8, x9, x10, x11] 0, b + le32 [x0, x1, x2, x3, x4, x5, x6, x7, x8, x9, x10, x11] 4, c + le32 [x0, x1, x2, x3, x4, x5, x6, x7, x8, x9, x10, x11] 8) := by
  simp [Gen.l3Tail32, addTerms, evalTerm, load, byteAt, le32]
  have h0 := x0.toNat_lt; have h1 := x1.toNat_lt; have h2 := x2.toNat_lt; have h3 := x3.toNat_lt; have h4 := x4.toNat_lt; have h5 := x5.toNat_lt; have h6 := x6.toNat_lt; have h7 := x7.toNat_lt; have h8 := x8.toNat_lt; have h9 := x9.toNat_lt; have h10 := x10.toNat_lt; have h11 := x11.toNat_lt
  have g0 := (after[0]?.getD 0).toNat_lt; have g1 := (after[1]?.getD 0).toNat_lt; have g2 := (after[2]?.getD 0).toNat_lt
  and_intros <;> l3_nat

theorem block32 (x0 x1 x2 x3 x4 x5 x6 x7 x8 x9 x10 x11 : UInt8) (rest after : List UInt8) (a b c : UInt32) :
    addTerms ((x0 :: x1 :: x2 :: x3 :: x4 :: x5 :: x6 :: x7 :: x8 :: x9 :: x10 :: x11 :: rest) ++ after) Gen.l3Block32 (a, b, c) =
      (a + le32 (x0 :: x1 :: x2 :: x3 :: x4 :: x5 :: x6 :: x7 :: x8 :: x9 :: x10 :: x11 :: rest) 0, b + le32 (x0 :: x1 :: x2 :: x3 :: x4 :: x5 :: x6 :: x7 :: x8 :: x9 :: x10 :: x11 :: rest) 4, c + le32 (x0 :: x1 :: x2 :: x3 :: x4 :: x5 :: x6 :: x7 :: x8 :: x9 :: x10 :: x11 :: rest) 8) := by
  simp [Gen.l3Block32, addTerms, evalTerm, load, byteAt, le32]
  have h0 := x0.toNat_lt; have h1 := x1.toNat_lt; have h2 := x2.toNat_lt; have h3 := x3.toNat_lt; have h4 := x4.toNat_lt; have h5 := x5.toNat_lt; have h6 := x6.toNat_lt; have h7 := x7.toNat_lt; have h8 := x8.toNat_lt; have h9 := x9.toNat_lt; have h10 := x10.toNat_lt; have h11 := x11.toNat_lt
  and_intros <;> l3_nat

theorem tail16_1 (x0 : UInt8) (after : List UInt8) (a b c : UInt32) :
    addTerms ([x0] ++ after) (Gen.l3Tail16.getD 1 []) (a, b, c) =
      (a + le32 [x0] 0, b + le32 [x0] 4, c + le32 [x0] 8) := by
  simp [Gen.l3Tail16, addTerms, evalTerm, load, byteAt, le32]
  have h0 := x0.toNat_lt
  have g0 := (after[0]?.getD 0).toNat_lt; have g1 := (after[1]?.getD 0).toNat_lt; have g2 := (after[2]?.getD 0).toNat_lt
  and_intros <;> l3_nat

theorem tail16_2 (x0 x1 : UInt8) (after : List UInt8) (a b c : UInt32) :
    addTerms ([x0, x1] ++ after) (Gen.l3Tail16.getD 2 []) (a, b, c) =
      (a + le32 [x0, x1] 0, b + le32 [x0, x1] 4, c + le32 [x0, x1] 8) := by
  simp [Gen.l3Tail16, addTerms, evalTerm, load, byteAt, le32]
  have h0 := x0.toNat_lt; have h1 := x1.toNat_lt
  have g0 := (after[0]?.getD 0).toNat_lt; have g1 := (after[1]?.getD 0).toNat_lt; have g2 := (after[2]?.getD 0).toNat_lt
  and_intros <;> l3_nat

theorem tail16_3 (x0 x1 x2 : UInt8) (after : List UInt8) (a b c : UInt32) :
    addTerms ([x0, x1, x2] ++ after) (Gen.l3Tail16.getD 3 []) (a, b, c) =
      (a + le32 [x0, x1, x2] 0, b + le32 [x0, x1, x2] 4, c + le32 [x0, x1, x2] 8) := by
  simp [Gen.l3Tail16, addTerms, evalTerm, load, byteAt, le32]
  have h0 := x0.toNat_lt; have h1 := x1.toNat_lt; have h2 := x2.toNat_lt
  have g0 := (after[0]?.getD 0).toNat_lt; have g1 := (after[1]?.getD 0).toNat_lt; have g2 := (after[2]?.getD 0).toNat_lt
  and_intros <;> l3_nat

theorem tail16_4 (x0 x1 x2 x3 : UInt8) (after : List UInt8) (a b c : UInt32) :
    addTerms ([x0, x1, x2, x3] ++ after) (Gen.l3Tail16.getD 4 []) (a, b, c) =
      (a + le32 [x0, x1, x2, x3] 0, b + le32 [x0, x1, x2, x3] 4, c + le32 [x0, x1, x2, x3] 8) := by
  simp [Gen.l3Tail16, addTerms, evalTerm, load, byteAt, le32]
  have h0 := x0.toNat_lt; have h1 := x1.toNat_lt; have h2 := x2.toNat_lt; have h3 := x3.toNat_lt
  have g0 := (after[0]?.getD 0).toNat_lt; have g1 := (after[1]?.getD 0).toNat_lt; have g2 := (after[2]?.getD 0).toNat_lt
  and_intros <;> l3_nat

theorem tail16_5 (x0 x1 x2 x3 x4 : UInt8) (after : List UInt8) (a b c : UInt32) :
    addTerms ([x0, x1, x2, x3, x4] ++ after) (Gen.l3Tail16.getD 5 []) (a, b, c) =
      (a + le32 [x0, x1, x2, x3, x4] 0, b + le32 [x0, x1, x2, x3, x4] 4, c + le32 [x0, x1, x2, x3, x4] 8) := by
  simp [Gen.l3Tail16, addTerms, evalTerm, load, byteAt, le32]
  have h0 := x0.toNat_lt; have h1 := x1.toNat_lt; have h2 := x2.toNat_lt; have h3 := x3.toNat_lt; have h4 := x4.toNat_lt
  have g0 := (after[0]?.getD 0).toNat_lt; have g1 := (after[1]?.getD 0).toNat_lt; have g2 := (after[2]?.getD 0).toNat_lt
  and_intros <;> l3_nat

theorem tail16_6 (x0 x1 x2 x3 x4 x5 : UInt8) (after : List UInt8) (a b c : UInt32) :
    addTerms ([x0, x1, x2, x3, x4, x5] ++ after) (Gen.l3Tail16.getD 6 []) (a, b, c) =
      (a + le32 [x0, x1, x2, x3, x4, x5] 0, b + le32 [x0, x1, x2, x3, x4, x5] 4, c + le32 [x0, x1, x2, x3, x4, x5] 8) := by
  simp [Gen.l3Tail16, addTerms, evalTerm, load, byteAt, le32]
  have h0 := x0.toNat_lt; have h1 := x1.toNat_lt; have h2 := x2.toNat_lt; have h3 := x3.toNat_lt; have h4 := x4.toNat_lt; have h5 := x5.toNat_lt
  have g0 := (after[0]?.getD 0).toNat_lt; have g1 := (after[1]?.getD 0).toNat_lt; have g2 := (after[2]?.getD 0).toNat_lt
  and_intros <;> l3_nat

theorem tail16_7 (x0 x1 x2 x3 x4 x5 x6 : UInt8) (after : List UInt8) (a b c : UInt32) :
    addTerms ([x0, x1, x2, x3, x4, x5, x6] ++ after) (Gen.l3Tail16.getD 7 []) (a, b, c) =
      (a + le32 [x0, x1, x2, x3, x4, x5, x6] 0, b + le32 [x0, x1, x2, x3, x4, x5, x6] 4, c + le32 [x0, x1, x2, x3, x4, x5, x6] 8) := by
  simp [Gen.l3Tail16, addTerms, evalTerm, load, byteAt, le32]
  have h0 := x0.toNat_lt; have h1 := x1.toNat_lt; have h2 := x2.toNat_lt; have h3 := x3.toNat_lt; have h4 := x4.toNat_lt; have h5 := x5.toNat_lt; have h6 := x6.toNat_lt
  have g0 := (after[0]?.getD 0).toNat_lt; have g1 := (after[1]?.getD 0).toNat_lt; have g2 := (after[2]?.getD 0).toNat_lt
  and_intros <;> l3_nat

theorem tail16_8 (x0 x1 x2 x3 x4 x5 x6 x7 : UInt8) (after : List UInt8) (a b c : UInt32) :
    addTerms ([x0, x1, x2, x3, x4, x5, x6, x7] ++ after) (Gen.l3Tail16.getD 8 []) (a, b, c) =
      (a + le32 [x0, x1, x2, x3, x4, x5, x6, x7] 0, b + le32 [x0, x1, x2, x3, x4, x5, x6, x7] 4, c + le32 [x0, x1, x2, x3, x4, x5, x6, x7] 8) := by
  simp [Gen.l3Tail16, addTerms, evalTerm, load, byteAt, le32]
  have h0 := x0.toNat_lt; have h1 := x1.toNat_lt; have h2 := x2.toNat_lt; have h3 := x3.toNat_lt; have h4 := x4.toNat_lt; have h5 := x5.toNat_lt; have h6 := x6.toNat_lt; have h7 := x7.toNat_lt
  have g0 := (after[0]?.getD 0).toNat_lt; have g1 := (after[1]?.getD 0).toNat_lt; have g2 := (after[2]?.getD 0).toNat_lt
  and_intros <;> l3_nat

theorem tail16_9 (x0 x1 x2 x3 x4 x5 x6 x7 x8 : UInt8) (after : List UInt8) (a b c : UInt32) :
    addTerms ([x0, x1, x2, x3, x4, x5, x6, x7, x8] ++ after) (Gen.l3Tail16.getD 9 []) (a, b, c) =
      (a + le32 [x0, x1, x2, x3, x4, x5, x6, x7, x8] 0, b + le32 [x0, x1, x2, x3, x4, x5, x6, x7, x8] 4, c + le32 [x0, x1, x2, x3, x4, x5, x6, x7, x8] 8) := by
  simp [Gen.l3Tail16, addTerms, evalTerm, load, byteAt, le32]
  have h0 := x0.toNat_lt; have h1 := x1.toNat_lt; have h2 := x2.toNat_lt; have h3 := x3.toNat_lt; have h4 := x4.toNat_lt; have h5 := x5.toNat_lt; have h6 := x6.toNat_lt; have h7 := x7.toNat_lt; have h8 := x8.toNat_lt
  have g0 := (after[0]?.getD 0).toNat_lt; have g1 := (after[1]?.getD 0).toNat_lt; have g2 := (after[2]?.getD 0).toNat_lt
  and_intros <;> l3_nat

theorem tail16_10 (x0 x1 x2 x3 x4 x5 x6 x7 x8 x9 : UInt8) (after : List UInt8) (a b c : UInt32) :
    addTerms ([x0, x1, x2, x3, x4, x5, x6, x7, x8, x9] ++ after) (Gen.l3Tail16.getD 10 []) (a, b, c) =
      (a + le32 [x0, x1, x2, x3, x4, x5, x6, x7, x8, x9] 0, b + le32 [x0, x1, x2, x3, x4, x5, x6, x7, x8, x9] 4, c + le32 [x0, x1, x2, x3, x4, x5, x6, x7, x8, x9] 8) := by
  simp [Gen.l3Tail16, addTerms, evalTerm, load, byteAt, le32]
  have h0 := x0.toNat_lt; have h1 := x1.toNat_lt; have h2 := x2.toNat_lt; have h3 := x3.toNat_lt; have h4 := x4.toNat_lt; have h5 := x5.toNat_lt; have h6 := x6.toNat_lt; have h7 := x7.toNat_lt; have h8 := x8.toNat_lt; have h9 := x9.toNat_lt
  have g0 := (after[0]?.getD 0).toNat_lt; have g1 := (after[1]?.getD 0).toNat_lt; have g2 := (after[2]?.getD 0).toNat_lt
  and_intros <;> l3_nat

theorem tail16_11 (x0 x1 x2 x3 x4 x5 x6 x7 x8 x9 x10 : UInt8) (after : List UInt8) (a b c : UInt32) :
    addTerms ([x0, x1, x2, x3, x4, x5, x6, x7, x8, x9, x10] ++ after) (Gen.l3Tail16.getD 11 []) (a, b, c) =
      (a + le32 [x0, x1, x2, x3, x4, x5, x6, x7, x8, x9, x10] 0, b + le32 [x0, x1, x2, x3, x4, x5, x6, x7, x8, x9, x10] 4, c + le32 [x0, x1, x2, x3, x4, x5, x6, x7, x8, x9, x10] 8) := by
  simp [Gen.l3Tail16, addTerms, evalTerm, load, byteAt, le32]
  have h0 := x0.toNat_lt; have h1 := x1.toNat_lt; have h2 := x2.toNat_lt; have h3 := x3.toNat_lt; have h4 := x4.toNat_lt; have h5 := x5.toNat_lt; have h6 := x6.toNat_lt; have h7 := x7.toNat_lt; have h8 := x8.toNat_lt; have h9 := x9.toNat_lt; have h10 := x10.toNat_lt
  have g0 := (after[0]?.getD 0).toNat_lt; have g1 := (after[1]?.getD 0).toNat_lt; have g2 := (after[2]?.getD 0).toNat_lt
  and_intros <;> l3_nat

theorem tail16_12 (x0 x1 x2 x3 x4 x5 x6 x7 x8 x9 x10 x11 : UInt8) (after : List UInt8) (a b c : UInt32) :
    addTerms ([x0, x1, x2, x3, x4, x5, x6, x7, x8, x9, x10, x11] ++ after) (Gen.l3Tail16.getD 12 []) (a, b, c) =
      (a + le32 [x0, x1, x2, x3, x4, x5, x6, x7, x8, x9, x10, x11] 0, b + le32 [x0, x1, x2, x3, x4, x5, x6, x7, x8, x9, x10, x11] 4, c + le32 [x0, x1, x2, x3, x4, x5, x6, x7, x8, x9, x10, x11] 8) := by
  simp [Gen.l3Tail16, addTerms, evalTerm, load, byteAt, le32]
  have h0 := x0.toNat_lt; have h1 := x1.toNat_lt; have h2 := x2.toNat_lt; have h3 := x3.toNat_lt; have h4 := x4.toNat_lt; have h5 := x5.toNat_lt; have h6 := x6.toNat_lt; have h7 := x7.toNat_lt; have h8 := x8.toNat_lt; have h9 := x9.toNat_lt; have h10 := x10.toNat_lt; have h11 := x11.toNat_lt
  have g0 := (after[0]?.getD 0).toNat_lt; have g1 := (after[1]?.getD 0).toNat_lt; have g2 := (after[2]?.getD 0).toNat_lt
  and_intros <;> l3_nat

theorem block16 (x0 x1 x2 x3 x4 x5 x6 x7 x8 x9 x10 x11 : UInt8) (rest after : List UInt8) (a b c : UInt32) :
    addTerms ((x0 :: x1 :: x2 :: x3 :: x4 :: x5 :: x6 :: x7 :: x8 :: x9 :: x10 :: x11 :: rest) ++ after) Gen.l3Block16 (a, b, c) =
      (a + le32 (x0 :: x1 :: x2 :: x3 :: x4 :: x5 :: x6 :: x7 :: x8 :: x9 :: x10 :: x11 :: rest) 0, b + le32 (x0 :: x1 :: x2 :: x3 :: x4 :: x5 :: x6 :: x7 :: x8 :: x9 :: x10 :: x11 :: rest) 4, c + le32 (x0 :: x1 :: x2 :: x3 :: x4 :: x5 :: x6 :: x7 :: x8 :: x9 :: x10 :: x11 :: rest) 8) := by
  simp [Gen.l3Block16, addTerms, evalTerm, load, byteAt, le32]
  have h0 := x0.toNat_lt; have h1 := x1.toNat_lt; have h2 := x2.toNat_lt; have h3 := x3.toNat_lt; have h4 := x4.toNat_lt; have h5 := x5.toNat_lt; have h6 := x6.toNat_lt; have h7 := x7.toNat_lt; have h8 := x8.toNat_lt; have h9 := x9.toNat_lt; have h10 := x10.toNat_lt; have h11 := x11.toNat_lt
  and_intros <;> l3_nat

theorem tail8_1 (x0 : UInt8) (after : List UInt8) (a b c : UInt32) :
    addTerms ([x0] ++ after) (Gen.l3Tail8.getD 1 []) (a, b, c) =
      (a + le32 [x0] 0, b + le32 [x0] 4, c + le32 [x0] 8) := by
  simp [Gen.l3Tail8, addTerms, evalTerm, load, byteAt, le32]
  have h0 := x0.toNat_lt
  have g0 := (after[0]?.getD 0).toNat_lt; have g1 := (after[1]?.getD 0).toNat_lt; have g2 := (after[2]?.getD 0).toNat_lt
  and_intros <;> l3_nat

theorem tail8_2 (x0 x1 : UInt8) (after : List UInt8) (a b c : UInt32) :
    addTerms ([x0, x1] ++ after) (Gen.l3Tail8.getD 2 []) (a, b, c) =
      (a + le32 [x0, x1] 0, b + le32 [x0, x1] 4, c + le32 [x0, x1] 8) := by
  simp [Gen.l3Tail8, addTerms, evalTerm, load, byteAt, le32]
  have h0 := x0.toNat_lt; have h1 := x1.toNat_lt
  have g0 := (after[0]?.getD 0).toNat_lt; have g1 := (after[1]?.getD 0).toNat_lt; have g2 := (after[2]?.getD 0).toNat_lt
  and_intros <;> l3_nat

theorem tail8_3 (x0 x1 x2 : UInt8) (after : List UInt8) (a b c : UInt32) :
    addTerms ([x0, x1, x2] ++ after) (Gen.l3Tail8.getD 3 []) (a, b, c) =
      (a + le32 [x0, x1, x2] 0, b + le32 [x0, x1, x2] 4, c + le32 [x0, x1, x2] 8) := by
  simp [Gen.l3Tail8, addTerms, evalTerm, load, byteAt, le32]
  have h0 := x0.toNat_lt; have h1 := x1.toNat_lt; have h2 := x2.toNat_lt
  have g0 := (after[0]?.getD 0).toNat_lt; have g1 := (after[1]?.getD 0).toNat_lt; have g2 := (after[2]?.getD 0).toNat_lt
  and_intros <;> l3_nat

theorem tail8_4 (x0 x1 x2 x3 : UInt8) (after : List UInt8) (a b c : UInt32) :
    addTerms ([x0, x1, x2, x3] ++ after) (Gen.l3Tail8.getD 4 []) (a, b, c) =
      (a + le32 [x0, x1, x2, x3] 0, b + le32 [x0, x1, x2, x3] 4, c + le32 [x0, x1, x2, x3] 8) := by
  simp [Gen.l3Tail8, addTerms, evalTerm, load, byteAt, le32]
  have h0 := x0.toNat_lt; have h1 := x1.toNat_lt; have h2 := x2.toNat_lt; have h3 := x3.toNat_lt
  have g0 := (after[0]?.getD 0).toNat_lt; have g1 := (after[1]?.getD 0).toNat_lt; have g2 := (after[2]?.getD 0).toNat_lt
  and_intros <;> l3_nat

theorem tail8_5 (x0 x1 x2 x3 x4 : UInt8) (after : List UInt8) (a b c : UInt32) :
    addTerms ([x0, x1, x2, x3, x4] ++ after) (Gen.l3Tail8.getD 5 []) (a, b, c) =
      (a + le32 [x0, x1, x2, x3, x4] 0, b + le32 [x0, x1, x2, x3, x4] 4, c + le32 [x0, x1, x2, x3, x4] 8) := by
  simp [Gen.l3Tail8, addTerms, evalTerm, load, byteAt, le32]
  have h0 := x0.toNat_lt; have h1 := x1.toNat_lt; have h2 := x2.toNat_lt; have h3 := x3.toNat_lt; have h4 := x4.toNat_lt
  have g0 := (after[0]?.getD 0).toNat_lt; have g1 := (after[1]?.getD 0).toNat_lt; have g2 := (after[2]?.getD 0).toNat_lt
  and_intros <;> l3_nat

theorem tail8_6 (x0 x1 x2 x3 x4 x5 : UInt8) (after : List UInt8) (a b c : UInt32) :
    addTerms ([x0, x1, x2, x3, x4, x5] ++ after) (Gen.l3Tail8.getD 6 []) (a, b, c) =
      (a + le32 [x0, x1, x2, x3, x4, x5] 0, b + le32 [x0, x1, x2, x3, x4, x5] 4, c + le32 [x0, x1, x2, x3, x4, x5] 8) := by
  simp [Gen.l3Tail8, addTerms, evalTerm, load, byteAt, le32]
  have h0 := x0.toNat_lt; have h1 := x1.toNat_lt; have h2 := x2.toNat_lt; have h3 := x3.toNat_lt; have h4 := x4.toNat_lt; have h5 := x5.toNat_lt
  have g0 := (after[0]?.getD 0).toNat_lt; have g1 := (after[1]?.getD 0).toNat_lt; have g2 := (after[2]?.getD 0).toNat_lt
  and_intros <;> l3_nat

theorem tail8_7 (x0 x1 x2 x3 x4 x5 x6 : UInt8) (after : List UInt8) (a b c : UInt32) :
    addTerms ([x0, x1, x2, x3, x4, x5, x6] ++ after) (Gen.l3Tail8.getD 7 []) (a, b, c) =
      (a + le32 [x0, x1, x2, x3, x4, x5, x6] 0, b + le32 [x0, x1, x2, x3, x4, x5, x6] 4, c + le32 [x0, x1, x2, x3, x4, x5, x6] 8) := by
  simp [Gen.l3Tail8, addTerms, evalTerm, load, byteAt, le32]
  have h0 := x0.toNat_lt; have h1 := x1.toNat_lt; have h2 := x2.toNat_lt; have h3 := x3.toNat_lt; have h4 := x4.toNat_lt; have h5 := x5.toNat_lt; have h6 := x6.toNat_lt
  have g0 := (after[0]?.getD 0).toNat_lt; have g1 := (after[1]?.getD 0).toNat_lt; have g2 := (after[2]?.getD 0).toNat_lt
  and_intros <;> l3_nat

theorem tail8_8 (x0 x1 x2 x3 x4 x5 x6 x7 : UInt8) (after : List UInt8) (a b c : UInt32) :
    addTerms ([x0, x1, x2, x3, x4, x5, x6, x7] ++ after) (Gen.l3Tail8.getD 8 []) (a, b, c) =
      (a + le32 [x0, x1, x2, x3, x4, x5, x6, x7] 0, b + le32 [x0, x1, x2, x3, x4, x5, x6, x7] 4, c + le32 [x0, x1, x2, x3, x4, x5, x6, x7] 8) := by
  simp [Gen.l3Tail8, addTerms, evalTerm, load, byteAt, le32]
  have h0 := x0.toNat_lt; have h1 := x1.toNat_lt; have h2 := x2.toNat_lt; have h3 := x3.toNat_lt; have h4 := x4.toNat_lt; have h5 := x5.toNat_lt; have h6 := x6.toNat_lt; have h7 := x7.toNat_lt
  have g0 := (after[0]?.getD 0).toNat_lt; have g1 := (after[1]?.getD 0).toNat_lt; have g2 := (after[2]?.getD 0).toNat_lt
  and_intros <;> l3_nat

theorem tail8_9 (x0 x1 x2 x3 x4 x5 x6 x7 x8 : UInt8) (after : List UInt8) (a b c : UInt32) :
    addTerms ([x0, x1, x2, x3, x4, x5, x6, x7, x8] ++ after) (Gen.l3Tail8.getD 9 []) (a, b, c) =
      (a + le32 [x0, x1, x2, x3, x4, x5, x6, x7, x8] 0, b + le32 [x0, x1, x2, x3, x4, x5, x6, x7, x8] 4, c + le32 [x0, x1, x2, x3, x4, x5, x6, x7, x8] 8) := by
  simp [Gen.l3Tail8, addTerms, evalTerm, load, byteAt, le32]
  have h0 := x0.toNat_lt; have h1 := x1.toNat_lt; have h2 := x2.toNat_lt; have h3 := x3.toNat_lt; have h4 := x4.toNat_lt; have h5 := x5.toNat_lt; have h6 := x6.toNat_lt; have h7 := x7.toNat_lt; have h8 := x8.toNat_lt
  have g0 := (after[0]?.getD 0).toNat_lt; have g1 := (after[1]?.getD 0).toNat_lt; have g2 := (after[2]?.getD 0).toNat_lt
  and_intros <;> l3_nat

theorem tail8_10 (x0 x1 x2 x3 x4 x5 x6 x7 x8 x9 : UInt8) (after : List UInt8) (a b c : UInt32) :
    addTerms ([x0, x1, x2, x3, x4, x5, x6, x7, x8, x9] ++ after) (Gen.l3Tail8.getD 10 []) (a, b, c) =
      (a + le32 [x0, x1, x2, x3, x4, x5, x6, x7, x8, x9] 0, b + le32 [x0, x1, x2, x3, x4, x5, x6, x7, x8, x9] 4, c + le32 [x0, x1, x2, x3, x4, x5, x6, x7, x8, x9] 8) := by
  simp [Gen.l3Tail8, addTerms, evalTerm, load, byteAt, le32]
  have h0 := x0.toNat_lt; have h1 := x1.toNat_lt; have h2 := x2.toNat_lt; have h3 := x3.toNat_lt; have h4 := x4.toNat_lt; have h5 := x5.toNat_lt; have h6 := x6.toNat_lt; have h7 := x7.toNat_lt; have h8 := x8.toNat_lt; have h9 := x9.toNat_lt
  have g0 := (after[0]?.getD 0).toNat_lt; have g1 := (after[1]?.getD 0).toNat_lt; have g2 := (after[2]?.getD 0).toNat_lt
  and_intros <;> l3_nat

theorem tail8_11 (x0 x1 x2 x3 x4 x5 x6 x7 x8 x9 x10 : UInt8) (after : List UInt8) (a b c : UInt32) :
    addTerms ([x0, x1, x2, x3, x4, x5, x6, x7, x8, x9, x10] ++ after) (Gen.l3Tail8.getD 11 []) (a, b, c) =
      (a + le32 [x0, x1, x2, x3, x4, x5, x6, x7, x8, x9, x10] 0, b + le32 [x0, x1, x2, x3, x4, x5, x6, x7, x8, x9, x10] 4, c + le32 [x0, x1, x2, x3, x4, x5, x6, x7, x8, x9, x10] 8) := by
  simp [Gen.l3Tail8, addTerms, evalTerm, load, byteAt, le32]
  have h0 := x0.toNat_lt; have h1 := x1.toNat_lt; have h2 := x2.toNat_lt; have h3 := x3.toNat_lt; have h4 := x4.toNat_lt; have h5 := x5.toNat_lt; have h6 := x6.toNat_lt; have h7 := x7.toNat_lt; have h8 := x8.toNat_lt; have h9 := x9.toNat_lt; have h10 := x10.toNat_lt
  have g0 := (after[0]?.getD 0).toNat_lt; have g1 := (after[1]?.getD 0).toNat_lt; have g2 := (after[2]?.getD 0).toNat_lt
  and_intros <;> l3_nat

theorem tail8_12 (x0 x1 x2 x3 x4 x5 x6 x7 x8 x9 x10 x11 : UInt8) (after : List UInt8) (a b c : UInt32) :
    addTerms ([x0, x1, x2, x3, x4, x5, x6, x7, x8, x9, x10, x11] ++ after) (Gen.l3Tail8.getD 12 []) (a, b, c) =
      (a + le32 [x0, x1, x2, x3, x4, x5, x6, x7, x8, x9, x10, x11] 0, b + le32 [x0, x1, x2, x3, x4, x5, x6, x7, x8, x9, x10, x11] 4, c + le32 [x0, x1, x2, x3, x4, x5, x6, x7, x8, x9, x10, x11] 8) := by
  simp [Gen.l3Tail8, addTerms, evalTerm, load, byteAt, le32]
  have h0 := x0.toNat_lt; have h1 := x1.toNat_lt; have h2 := x2.toNat_lt; have h3 := x3.toNat_lt; have h4 := x4.toNat_lt; have h5 := x5.toNat_lt; have h6 := x6.toNat_lt; have h7 := x7.toNat_lt; have h8 := x8.toNat_lt; have h9 := x9.toNat_lt; have h10 := x10.toNat_lt; have h11 := x11.toNat_lt
  have g0 := (after[0]?.getD 0).toNat_lt; have g1 := (after[1]?.getD 0).toNat_lt; have g2 := (after[2]?.getD 0).toNat_lt
  and_intros <;> l3_nat

theorem block8 (x0 x1 x2 x3 x4 x5 x6 x7 x8 x9 x10 x11 : UInt8) (rest after : List UInt8) (a b c : UInt32) :
    addTerms ((x0 :: x1 :: x2 :: x3 :: x4 :: x5 :: x6 :: x7 :: x8 :: x9 :: x10 :: x11 :: rest) ++ after) Gen.l3Block8 (a, b, c) =
      (a + le32 (x0 :: x1 :: x2 :: x3 :: x4 :: x5 :: x6 :: x7 :: x8 :: x9 :: x10 :: x11 :: rest) 0, b + le32 (x0 :: x1 :: x2 :: x3 :: x4 :: x5 :: x6 :: x7 :: x8 :: x9 :: x10 :: x11 :: rest) 4, c + le32 (x0 :: x1 :: x2 :: x3 :: x4 :: x5 :: x6 :: x7 :: x8 :: x9 :: x10 :: x11 :: rest) 8) := by
  simp [Gen.l3Block8, addTerms, evalTerm, load, byteAt, le32]
  have h0 := x0.toNat_lt; have h1 := x1.toNat_lt; have h2 := x2.toNat_lt; have h3 := x3.toNat_lt; have h4 := x4.toNat_lt; have h5 := x5.toNat_lt; have h6 := x6.toNat_lt; have h7 := x7.toNat_lt; have h8 := x8.toNat_lt; have h9 := x9.toNat_lt; have h10 := x10.toNat_lt; have h11 := x11.toNat_lt
  and_intros <;> l3_nat

/-! ### the tail switch of the 32-bit path in the `-DVALGRIND` configuration -/

theorem tail32V_1 (x0 : UInt8) (after : List UInt8) (a b c : UInt32) :
    addTerms ([x0] ++ after) (Gen.l3Tail32V.getD 1 []) (a, b, c) =
      (a + le32 [x0] 0, b + le32 [x0] 4, c + le32 [x0] 8) := by
  simp [Gen.l3Tail32V, addTerms, evalTerm, load, byteAt, le32]
  have h0 := x0.toNat_lt
  have g0 := (after[0]?.getD 0).toNat_lt; have g1 := (after[1]?.getD 0).toNat_lt; have g2 := (after[2]?.getD 0).toNat_lt
  and_intros <;> l3_nat

theorem tail32V_2 (x0 x1 : UInt8) (after : List UInt8) (a b c : UInt32) :
    addTerms ([x0, x1] ++ after) (Gen.l3Tail32V.getD 2 []) (a, b, c) =
      (a + le32 [x0, x1] 0, b + le32 [x0, x1] 4, c + le32 [x0, x1] 8) := by
  simp [Gen.l3Tail32V, addTerms, evalTerm, load, byteAt, le32]
  have h0 := x0.toNat_lt; have h1 := x1.toNat_lt
  have g0 := (after[0]?.getD 0).toNat_lt; have g1 := (after[1]?.getD 0).toNat_lt; have g2 := (after[2]?.getD 0).toNat_lt
  and_intros <;> l3_nat

theorem tail32V_3 (x0 x1 x2 : UInt8) (after : List UInt8) (a b c : UInt32) :
    addTerms ([x0, x1, x2] ++ after) (Gen.l3Tail32V.getD 3 []) (a, b, c) =
      (a + le32 [x0, x1, x2] 0, b + le32 [x0, x1, x2] 4, c + le32 [x0, x1, x2] 8) := by
  simp [Gen.l3Tail32V, addTerms, evalTerm, load, byteAt, le32]
  have h0 := x0.toNat_lt; have h1 := x1.toNat_lt; have h2 := x2.toNat_lt
  have g0 := (after[0]?.getD 0).toNat_lt; have g1 := (after[1]?.getD 0).toNat_lt; have g2 := (after[2]?.getD 0).toNat_lt
  and_intros <;> l3_nat

theorem tail32V_4 (x0 x1 x2 x3 : UInt8) (after : List UInt8) (a b c : UInt32) :
    addTerms ([x0, x1, x2, x3] ++ after) (Gen.l3Tail32V.getD 4 []) (a, b, c) =
      (a + le32 [x0, x1, x2, x3] 0, b + le32 [x0, x1, x2, x3] 4, c + le32 [x0, x1, x2, x3] 8) := by
  simp [Gen.l3Tail32V, addTerms, evalTerm, load, byteAt, le32]
  have h0 := x0.toNat_lt; have h1 := x1.toNat_lt; have h2 := x2.toNat_lt; have h3 := x3.toNat_lt
  have g0 := (after[0]?.getD 0).toNat_lt; have g1 := (after[1]?.getD 0).toNat_lt; have g2 := (after[2]?.getD 0).toNat_lt
  and_intros <;> l3_nat

theorem tail32V_5 (x0 x1 x2 x3 x4 : UInt8) (after : List UInt8) (a b c : UInt32) :
    addTerms ([x0, x1, x2, x3, x4] ++ after) (Gen.l3Tail32V.getD 5 []) (a, b, c) =
      (a + le32 [x0, x1, x2, x3, x4] 0, b + le32 [x0, x1, x2, x3, x4] 4, c + le32 [x0, x1, x2, x3, x4] 8) := by
  simp [Gen.l3Tail32V, addTerms, evalTerm, load, byteAt, le32]
  have h0 := x0.toNat_lt; have h1 := x1.toNat_lt; have h2 := x2.toNat_lt; have h3 := x3.toNat_lt; have h4 := x4.toNat_lt
  have g0 := (after[0]?.getD 0).toNat_lt; have g1 := (after[1]?.getD 0).toNat_lt; have g2 := (after[2]?.getD 0).toNat_lt
  and_intros <;> l3_nat

theorem tail32V_6 (x0 x1 x2 x3 x4 x5 : UInt8) (after : List UInt8) (a b c : UInt32) :
    addTerms ([x0, x1, x2, x3, x4, x5] ++ after) (Gen.l3Tail32V.getD 6 []) (a, b, c) =
      (a + le32 [x0, x1, x2, x3, x4, x5] 0, b + le32 [x0, x1, x2, x3, x4, x5] 4, c + le32 [x0, x1, x2, x3, x4, x5] 8) := by
  simp [Gen.l3Tail32V, addTerms, evalTerm, load, byteAt, le32]
  have h0 := x0.toNat_lt; have h1 := x1.toNat_lt; have h2 := x2.toNat_lt; have h3 := x3.toNat_lt; have h4 := x4.toNat_lt; have h5 := x5.toNat_lt
  have g0 := (after[0]?.getD 0).toNat_lt; have g1 := (after[1]?.getD 0).toNat_lt; have g2 := (after[2]?.getD 0).toNat_lt
  and_intros <;> l3_nat

theorem tail32V_7 (x0 x1 x2 x3 x4 x5 x6 : UInt8) (after : List UInt8) (a b c : UInt32) :
    addTerms ([x0, x1, x2, x3, x4, x5, x6] ++ after) (Gen.l3Tail32V.getD 7 []) (a, b, c) =
      (a + le32 [x0, x1, x2, x3, x4, x5, x6] 0, b + le32 [x0, x1, x2, x3, x4, x5, x6] 4, c + le32 [x0, x1, x2, x3, x4, x5, x6] 8) := by
  simp [Gen.l3Tail32V, addTerms, evalTerm, load, byteAt, le32]
  have h0 := x0.toNat_lt; have h1 := x1.toNat_lt; have h2 := x2.toNat_lt; have h3 := x3.toNat_lt; have h4 := x4.toNat_lt; have h5 := x5.toNat_lt; have h6 := x6.toNat_lt
  have g0 := (after[0]?.getD 0).toNat_lt; have g1 := (after[1]?.getD 0).toNat_lt; have g2 := (after[2]?.getD 0).toNat_lt
  and_intros <;> l3_nat

theorem tail32V_8 (x0 x1 x2 x3 x4 x5 x6 x7 : UInt8) (after : List UInt8) (a b c : UInt32) :
    addTerms ([x0, x1, x2, x3, x4, x5, x6, x7] ++ after) (Gen.l3Tail32V.getD 8 []) (a, b, c) =
      (a + le32 [x0, x1, x2, x3, x4, x5, x6, x7] 0, b + le32 [x0, x1, x2, x3, x4, x5, x6, x7] 4, c + le32 [x0, x1, x2, x3, x4, x5, x6, x7] 8) := by
  simp [Gen.l3Tail32V, addTerms, evalTerm, load, byteAt, le32]
  have h0 := x0.toNat_lt; have h1 := x1.toNat_lt; have h2 := x2.toNat_lt; have h3 := x3.toNat_lt; have h4 := x4.toNat_lt; have h5 := x5.toNat_lt; have h6 := x6.toNat_lt; have h7 := x7.toNat_lt
  have g0 := (after[0]?.getD 0).toNat_lt; have g1 := (after[1]?.getD 0).toNat_lt; have g2 := (after[2]?.getD 0).toNat_lt
  and_intros <;> l3_nat

theorem tail32V_9 (x0 x1 x2 x3 x4 x5 x6 x7 x8 : UInt8) (after : List UInt8) (a b c : UInt32) :
    addTerms ([x0, x1, x2, x3, x4, x5, x6, x7, x8] ++ after) (Gen.l3Tail32V.getD 9 []) (a, b, c) =
      (a + le32 [x0, x1, x2, x3, x4, x5, x6, x7, x8] 0, b + le32 [x0, x1, x2, x3, x4, x5, x6, x7, x8] 4, c + le32 [x0, x1, x2, x3, x4, x5, x6, x7, x8] 8) := by
  simp [Gen.l3Tail32V, addTerms, evalTerm, load, byteAt, le32]
  have h0 := x0.toNat_lt; have h1 := x1.toNat_lt; have h2 := x2.toNat_lt; have h3 := x3.toNat_lt; have h4 := x4.toNat_lt; have h5 := x5.toNat_lt; have h6 := x6.toNat_lt; have h7 := x7.toNat_lt; have h8 := x8.toNat_lt
  have g0 := (after[0]?.getD 0).toNat_lt; have g1 := (after[1]?.getD 0).toNat_lt; have g2 := (after[2]?.getD 0).toNat_lt
  and_intros <;> l3_nat

theorem tail32V_10 (x0 x1 x2 x3 x4 x5 x6 x7 x8 x9 : UInt8) (after : List UInt8) (a b c : UInt32) :
    addTerms ([x0, x1, x2, x3, x4, x5, x6, x7, x8, x9] ++ after) (Gen.l3Tail32V.getD 10 []) (a, b, c) =
      (a + le32 [x0, x1, x2, x3, x4, x5, x6, x7, x8, x9] 0, b + le32 [x0, x1, x2, x3, x4, x5, x6, x7, x8, x9] 4, c + le32 [x0, x1, x2, x3, x4, x5, x6, x7, x8, x9] 8) := by
  simp [Gen.l3Tail32V, addTerms, evalTerm, load, byteAt, le32]
  have h0 := x0.toNat_lt; have h1 := x1.toNat_lt; have h2 := x2.toNat_lt; have h3 := x3.toNat_lt; have h4 := x4.toNat_lt; have h5 := x5.toNat_lt; have h6 := x6.toNat_lt; have h7 := x7.toNat_lt; have h8 := x8.toNat_lt; have h9 := x9.toNat_lt
  have g0 := (after[0]?.getD 0).toNat_lt; have g1 := (after[1]?.getD 0).toNat_lt; have g2 := (after[2]?.getD 0).toNat_lt
  and_intros <;> l3_nat

theorem tail32V_11 (x0 x1 x2 x3 x4 x5 x6 x7 x8 x9 x10 : UInt8) (after : List UInt8) (a b c : UInt32) :
    addTerms ([x0, x1, x2, x3, x4, x5, x6, x7, x8, x9, x10] ++ after) (Gen.l3Tail32V.getD 11 []) (a, b, c) =
      (a + le32 [x0, x1, x2, x3, x4, x5, x6, x7, x8, x9, x10] 0, b + le32 [x0, x1, x2, x3, x4, x5, x6, x7, x8, x9, x10] 4, c + le32 [x0, x1, x2, x3, x4, x5, x6, x7, x8, x9, x10] 8) := by
  simp [Gen.l3Tail32V, addTerms, evalTerm, load, byteAt, le32]
  have h0 := x0.toNat_lt; have h1 := x1.toNat_lt; have h2 := x2.toNat_lt; have h3 := x3.toNat_lt; have h4 := x4.toNat_lt; have h5 := x5.toNat_lt; have h6 := x6.toNat_lt; have h7 := x7.toNat_lt; have h8 := x8.toNat_lt; have h9 := x9.toNat_lt; have h10 := x10.toNat_lt
  have g0 := (after[0]?.getD 0).toNat_lt; have g1 := (after[1]?.getD 0).toNat_lt; have g2 := (after[2]?.getD 0).toNat_lt
  and_intros <;> l3_nat

theorem tail32V_12 (x0 x1 x2 x3 x4 x5 x6 x7 x8 x9 x10 x11 : UInt8) (after : List UInt8) (a b c : UInt32) :
    addTerms ([x0, x1, x2, x3, x4, x5, x6, x7, x8, x9, x10, x11] ++ after) (Gen.l3Tail32V.getD 12 []) (a, b, c) =
      (a + le32 [x0, x1, x2, x3, x4, x5, x6, x7, x8, x9, x10, x11] 0, b + le32 [x0, x1, x2, x3, x4, x5, x6, x7, x8, x9, x10, x11] 4, c + le32 [x0, x1, x2, x3, x4, x5, x6, x7, x8, x9, x10, x11] 8) := by
  simp [Gen.l3Tail32V, addTerms, evalTerm, load, byteAt, le32]
  have h0 := x0.toNat_lt; have h1 := x1.toNat_lt; have h2 := x2.toNat_lt; have h3 := x3.toNat_lt; have h4 := x4.toNat_lt; have h5 := x5.toNat_lt; have h6 := x6.toNat_lt; have h7 := x7.toNat_lt; have h8 := x8.toNat_lt; have h9 := x9.toNat_lt; have h10 := x10.toNat_lt; have h11 := x11.toNat_lt
  have g0 := (after[0]?.getD 0).toNat_lt; have g1 := (after[1]?.getD 0).toNat_lt; have g2 := (after[2]?.getD 0).toNat_lt
  and_intros <;> l3_nat

end AwsVerif.Proofs.C02
