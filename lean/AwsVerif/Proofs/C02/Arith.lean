import AwsVerif.Model.HashTable
/-! Modular index arithmetic for the hash-table proofs: the C expressions (`& mask`, 64-bit wrap)
are reduced to `% n`, and `% n` of terms below `2n` to a two-way case split that `omega` can use. -/
namespace AwsVerif.Proofs.C02
open AwsVerif.HashTable

/-- displacement of an entry with hash `h` sitting in slot `i` of an `n`-slot table -/
def disp (n i h : Nat) : Nat := (i + n - h % n) % n
/-- previous / next slot, cyclically -/
def prv (n i : Nat) : Nat := (i + n - 1) % n
def nxt (n i : Nat) : Nat := (i + 1) % n

theorem mod_lt2 {a n : Nat} (h : a < 2 * n) : (a < n ∧ a % n = a) ∨ (n ≤ a ∧ a % n = a - n) := by
  by_cases h1 : a < n
  · exact Or.inl ⟨h1, Nat.mod_eq_of_lt h1⟩
  · refine Or.inr ⟨by omega, ?_⟩
    rw [Nat.mod_eq_sub_mod (by omega)]
    exact Nat.mod_eq_of_lt (by omega)

theorem disp_lt {n i h : Nat} (hn : 0 < n) : disp n i h < n := Nat.mod_lt _ hn
theorem prv_lt {n i : Nat} (hn : 0 < n) : prv n i < n := Nat.mod_lt _ hn
theorem nxt_lt {n i : Nat} (hn : 0 < n) : nxt n i < n := Nat.mod_lt _ hn

/-- `disp` as a case split, for `i < n` -/
theorem disp_cases {n i h : Nat} (hi : i < n) :
    (h % n ≤ i ∧ disp n i h = i - h % n) ∨ (i < h % n ∧ disp n i h = i + n - h % n) := by
  have hm : h % n < n := Nat.mod_lt _ (by omega)
  unfold disp
  rcases mod_lt2 (a := i + n - h % n) (n := n) (by omega) with ⟨h1, h2⟩ | ⟨h1, h2⟩
  · right; omega
  · left; omega

theorem prv_cases {n i : Nat} (hi : i < n) : (i = 0 ∧ prv n i = n - 1) ∨ (0 < i ∧ prv n i = i - 1) := by
  unfold prv
  rcases mod_lt2 (a := i + n - 1) (n := n) (by omega) with ⟨h1, h2⟩ | ⟨h1, h2⟩ <;> omega

theorem nxt_cases {n i : Nat} (hi : i < n) : (i + 1 = n ∧ nxt n i = 0) ∨ (i + 1 < n ∧ nxt n i = i + 1) := by
  unfold nxt
  rcases mod_lt2 (a := i + 1) (n := n) (by omega) with ⟨h1, h2⟩ | ⟨h1, h2⟩ <;> omega

/-- slot reached from home of `h` after `p < n` probes -/
theorem probe_cases {n h p : Nat} (hn : 0 < n) (hp : p ≤ n) :
    (h % n + p < n ∧ (h + p) % n = h % n + p) ∨ (n ≤ h % n + p ∧ (h + p) % n = h % n + p - n) := by
  have hm : h % n < n := Nat.mod_lt _ hn
  have e : (h + p) % n = (h % n + p) % n := (Nat.mod_add_mod h n p).symm
  rw [e]
  exact mod_lt2 (by omega)

/-! ### the C index expressions -/

theorem and_mask {x k : Nat} : x &&& (2 ^ k - 1) = x % 2 ^ k := Nat.and_two_pow_sub_one_eq_mod x k

theorem mod_w64_mod {x k : Nat} (hk : k ≤ 64) : x % W64 % 2 ^ k = x % 2 ^ k :=
  Nat.mod_mod_of_dvd x (Nat.pow_dvd_pow 2 hk)

theorem idxOf_eq {k hc p : Nat} (hk : k ≤ 64) : idxOf (2 ^ k - 1) hc p = (hc + p) % 2 ^ k := by
  unfold idxOf; rw [and_mask, mod_w64_mod hk]

theorem w64_eq {k : Nat} (hk : k ≤ 64) : W64 = 2 ^ k * 2 ^ (64 - k) := by
  unfold W64; rw [← Nat.pow_add]; congr 1; omega

theorem probeOf_eq {k i h : Nat} (hk : k ≤ 64) :
    probeOf (2 ^ k - 1) i h = disp (2 ^ k) i h := by
  unfold probeOf disp
  rw [and_mask, mod_w64_mod hk]
  -- (i + W64 - h % W64) ≡ (i + n - h % n)  (mod n)
  have hn : 0 < 2 ^ k := Nat.pow_pos (by decide)
  have hw : W64 = 2 ^ k * 2 ^ (64 - k) := w64_eq hk
  have hq : 0 < 2 ^ (64 - k) := Nat.pow_pos (by decide)
  generalize 2 ^ k = n at *
  generalize 2 ^ (64 - k) = q at *
  have hx : h % W64 < W64 := Nat.mod_lt _ (by rw [hw]; exact Nat.mul_pos hn hq)
  have hmm : h % W64 % n = h % n := by rw [hw]; exact Nat.mod_mul_right_mod h n q
  -- write r := h % W64 = n * c + (h % n)
  have hdiv := Nat.div_add_mod (h % W64) n
  rw [hmm] at hdiv
  generalize h % W64 = r at *
  generalize h % n = m at *
  generalize hc : r / n = c at *
  have hm : m < n := by
    have := Nat.mod_lt r hn; omega
  have hcq : c < q := by
    rcases Nat.lt_or_ge c q with h1 | h1
    · exact h1
    · exfalso
      have : n * q ≤ n * c := Nat.mul_le_mul_left n h1
      omega
  -- i + n*q - (n*c + m) = (i + n - m) + n * (q - c - 1)
  have e : i + W64 - r = (i + n - m) + n * (q - c - 1) := by
    have h3 : n * q = n * c + n + n * (q - c - 1) := by
      have : q = c + 1 + (q - c - 1) := by omega
      conv => lhs; rw [this]
      rw [Nat.mul_add, Nat.mul_add, Nat.mul_one]
    omega
  rw [e, Nat.add_mul_mod_self_left]

theorem and_mask_hash {k h : Nat} : h &&& (2 ^ k - 1) = h % 2 ^ k := and_mask

/-- "the next slot is the home of its entry" is "displacement 0" -/
theorem home_iff_disp0 {n i h : Nat} (hi : i < n) : h % n = i ↔ disp n i h = 0 := by
  have hm : h % n < n := Nat.mod_lt _ (by omega)
  rcases disp_cases (h := h) hi with ⟨a, b⟩ | ⟨a, b⟩ <;> constructor <;> intro hh <;> omega

end AwsVerif.Proofs.C02
