import AwsVerif.Proofs.C02.IterProg
/-! Pass theorems: explicit iterator programs with an arbitrary (history-dependent) decision at each element,
and `aws_hash_table_foreach` with an arbitrary callback (stop / error flags included). -/
namespace AwsVerif.Proofs.C02
open AwsVerif.HashTable

/-- destructor calls requested for one iterator deletion -/
def logOf (dk dv : Bool) (d : (Key × Val) × Bool) : List Ev := if d.2 then specDestroy dk dv d.1 else []

theorem iterPassLoop_spec {h : Nat → Nat} (policy : List (Key × Val) → Key × Val → Decision)
    (C0 : List (Key × Val)) (dk dv : Bool) :
    ∀ fuel t it V dels log r, IterJ h C0 t it V (dels.map (·.1)) → iterMeasure t it < fuel →
      t.dk = dk → t.dv = dv → log = dels.flatMap (logOf dk dv) → (dels.map (·.1)).Sublist V →
      iterPassLoop policy fuel t it V dels log = r →
      r.ok = true ∧ Inv h r.table ∧ r.table.dk = dk ∧ r.table.dv = dv ∧
      (∃ U, (r.visits ++ U).Perm C0 ∧ ((∀ vis kv, (policy vis kv).goOn = true) → U = [])) ∧
      (contents r.table ++ r.dels.map (·.1)).Perm C0 ∧
      r.log = r.dels.flatMap (logOf dk dv) ∧ (r.dels.map (·.1)).Sublist r.visits := by
  intro fuel
  induction fuel with
  | zero => intro t it V dels log r _ hm; omega
  | succ f ih =>
    intro t it V dels log r j hm hdk hdv hlog hsub hr
    unfold iterPassLoop at hr
    cases hd : iterDone it with
    | true =>
      rw [hd] at hr; simp only [if_true] at hr; subst hr
      have hdone : it.slot = it.limit := by unfold iterDone at hd; simpa using hd
      exact ⟨rfl, j.inv, hdk, hdv, ⟨[], by simpa using j.atDone hdone, fun _ => rfl⟩, j.total, hlog, hsub⟩
    | false =>
      rw [hd] at hr
      simp only [Bool.false_eq_true, if_false] at hr
      have hlt := j.notDone hd
      cases hdel : (policy V (match it.elem with | some kv => kv | none => (Key.null, none))).delete with
      | none =>
        obtain ⟨kv, hel, j', hm'⟩ := j.keep hlt
        rw [hel] at hr hdel
        simp only at hr hdel
        rw [hdel] at hr
        simp only at hr
        by_cases hgo : (policy V kv).goOn = true
        · rw [if_pos hgo] at hr
          exact ih t _ _ dels log r j' (by omega) hdk hdv hlog
            (hsub.trans (List.sublist_append_left V [kv])) hr
        · rw [if_neg hgo] at hr
          subst hr
          obtain ⟨kv', U, hel', hU⟩ := j.rest hlt
          rw [hel] at hel'; cases hel'
          refine ⟨rfl, j.inv, hdk, hdv, ⟨U, hU, ?_⟩, j.total, hlog, hsub.trans (List.sublist_append_left V [kv])⟩
          intro hall; exact absurd (hall V kv) hgo
      | some destroy =>
        obtain ⟨kv, t', it', hel, hdl, e1, e2, hinv', hperm, j', hm'⟩ := j.delete hlt destroy
        rw [hel] at hr hdel
        simp only at hr hdel
        rw [hdel] at hr
        simp only at hr
        rw [hdl] at hr
        simp only at hr
        have hmap : (dels ++ [(kv, destroy)]).map (·.1) = dels.map (·.1) ++ [kv] := by simp
        have hlog' : log ++ (if destroy = true then specDestroy t.dk t.dv kv else []) =
            (dels ++ [(kv, destroy)]).flatMap (logOf dk dv) := by
          rw [List.flatMap_append, ← hlog, hdk, hdv]
          simp [logOf]
        have hsub' : ((dels ++ [(kv, destroy)]).map (·.1)).Sublist (V ++ [kv]) := by
          rw [hmap]; exact List.Sublist.append hsub (List.Sublist.refl _)
        by_cases hgo : (policy V kv).goOn = true
        · rw [if_pos hgo] at hr
          exact ih t' _ _ _ _ r (by rw [hmap]; exact j') (by omega) (by rw [e1, hdk]) (by rw [e2, hdv]) hlog' hsub' hr
        · rw [if_neg hgo] at hr
          subst hr
          obtain ⟨kv', U, hel', hU⟩ := j.rest hlt
          rw [hel] at hel'; cases hel'
          refine ⟨rfl, hinv', by rw [e1, hdk], by rw [e2, hdv], ⟨U, hU, ?_⟩, ?_, hlog', hsub'⟩
          · intro hall; exact absurd (hall V kv) hgo
          · simp only
            rw [hmap]
            -- contents t' ++ (D ++ [kv]) ~ kv :: contents t' ++ D ~ contents t ++ D ~ C0
            refine List.Perm.trans ?_ j.total
            have p1 : (contents t' ++ (dels.map (·.1) ++ [kv])).Perm ((kv :: contents t') ++ dels.map (·.1)) := by
              rw [← List.append_assoc]
              refine List.Perm.trans List.perm_append_comm ?_
              simp
            exact p1.trans (List.Perm.append_right _ hperm.symm)

/-- an explicit iterator program on a table satisfying the invariant -/
theorem iterPass_spec {h : Nat → Nat} {t : Table} (hinv : Inv h t)
    (policy : List (Key × Val) → Key × Val → Decision) :
    (iterPass t policy).ok = true ∧ Inv h (iterPass t policy).table ∧
    (iterPass t policy).table.dk = t.dk ∧ (iterPass t policy).table.dv = t.dv ∧
    (∃ U, ((iterPass t policy).visits ++ U).Perm (contents t) ∧
          ((∀ vis kv, (policy vis kv).goOn = true) → U = [])) ∧
    (contents (iterPass t policy).table ++ (iterPass t policy).dels.map (·.1)).Perm (contents t) ∧
    (iterPass t policy).log = (iterPass t policy).dels.flatMap (logOf t.dk t.dv) ∧
    ((iterPass t policy).dels.map (·.1)).Sublist (iterPass t policy).visits := by
  obtain ⟨j, hm⟩ := IterJ.begin hinv
  exact iterPassLoop_spec policy (contents t) t.dk t.dv _ t _ [] [] [] _ j hm rfl rfl rfl (List.Sublist.refl _) rfl

/-- the callback's "delete" decision as `foreach` acts on it: the DELETE bit, unless the ERROR bit ends the pass first -/
def delB (flags : Key → Nat) (kv : Key × Val) : Bool :=
  decide (flags kv.1 &&& ITER_DELETE ≠ 0) && decide (flags kv.1 &&& ITER_ERROR = 0)

theorem foreachLoop_any {h : Nat → Nat} (flags : Key → Nat) (C0 : List (Key × Val)) :
    ∀ fuel t it V r, IterJ h C0 t it V (V.filter (delB flags)) → iterMeasure t it < fuel →
      foreachLoop flags fuel t it V = r →
      (r.rc = none ∨ r.rc = some .unknown) ∧ Inv h r.table ∧
      (∃ U, (r.visits ++ U).Perm C0 ∧
        ((∀ k, flags k &&& ITER_ERROR = 0 ∧ flags k &&& ITER_CONTINUE ≠ 0) → U = [])) ∧
      (contents r.table ++ r.visits.filter (delB flags)).Perm C0 := by
  intro fuel
  induction fuel with
  | zero => intro t it V r _ hm; omega
  | succ f ih =>
    intro t it V r j hm hr
    unfold foreachLoop at hr
    cases hd : iterDone it with
    | true =>
      rw [hd] at hr; simp only [if_true] at hr; subst hr
      have hdone : it.slot = it.limit := by unfold iterDone at hd; simpa using hd
      exact ⟨Or.inl rfl, j.inv, ⟨[], by simpa using j.atDone hdone, fun _ => rfl⟩, j.total⟩
    | false =>
      rw [hd] at hr
      simp only [Bool.false_eq_true, if_false] at hr
      have hlt := j.notDone hd
      obtain ⟨kv, U, hel, hU⟩ := j.rest hlt
      obtain ⟨k, v⟩ := kv
      rw [hel] at hr
      simp only at hr
      by_cases herr : flags k &&& ITER_ERROR ≠ 0
      · rw [if_pos herr] at hr
        subst hr
        have hk : delB flags (k, v) = false := by unfold delB; simp [herr]
        refine ⟨Or.inr rfl, j.inv, ⟨U, hU, fun hall => absurd (hall k).1 herr⟩, ?_⟩
        simp only [List.filter_append, List.filter_cons, hk, List.filter_nil, List.append_nil, Bool.false_eq_true, if_false]
        exact j.total
      · rw [if_neg herr] at hr
        have herr0 : flags k &&& ITER_ERROR = 0 := by
          rcases Nat.eq_zero_or_pos (flags k &&& ITER_ERROR) with h0 | h0
          · exact h0
          · exact absurd (by omega) herr
        by_cases hdel : flags k &&& ITER_DELETE ≠ 0
        · rw [if_pos hdel] at hr
          obtain ⟨kv', t', it', hel', hdl, _, _, hinv', hperm, j', hm'⟩ := j.delete hlt false
          rw [hel] at hel'; cases hel'
          rw [hdl] at hr
          simp only at hr
          have hk : delB flags (k, v) = true := by unfold delB; simp [hdel, herr0]
          have hf : (V ++ [(k, v)]).filter (delB flags) = V.filter (delB flags) ++ [(k, v)] := by
            simp [List.filter_append, hk]
          by_cases hstop : flags k &&& ITER_CONTINUE = 0
          · rw [if_pos hstop] at hr
            subst hr
            refine ⟨Or.inl rfl, hinv', ⟨U, hU, fun hall => absurd hstop (hall k).2⟩, ?_⟩
            simp only
            rw [hf]
            refine List.Perm.trans ?_ j.total
            have p1 : (contents t' ++ (V.filter (delB flags) ++ [(k, v)])).Perm
                (((k, v) :: contents t') ++ V.filter (delB flags)) := by
              rw [← List.append_assoc]
              refine List.Perm.trans List.perm_append_comm ?_
              simp
            exact p1.trans (List.Perm.append_right _ hperm.symm)
          · rw [if_neg hstop] at hr
            exact ih t' _ _ r (by rw [hf]; exact j') (by omega) hr
        · rw [if_neg hdel] at hr
          simp only at hr
          have hk : delB flags (k, v) = false := by unfold delB; simp [hdel]
          have hf : (V ++ [(k, v)]).filter (delB flags) = V.filter (delB flags) := by
            simp [List.filter_append, hk]
          by_cases hstop : flags k &&& ITER_CONTINUE = 0
          · rw [if_pos hstop] at hr
            subst hr
            refine ⟨Or.inl rfl, j.inv, ⟨U, hU, fun hall => absurd hstop (hall k).2⟩, ?_⟩
            simp only
            rw [hf]; exact j.total
          · rw [if_neg hstop] at hr
            obtain ⟨kv', hel', j', hm'⟩ := j.keep hlt
            rw [hel] at hel'; cases hel'
            exact ih t _ _ r (by rw [hf]; exact j') (by omega) hr

/-- `aws_hash_table_foreach` with any callback -/
theorem foreach_any {h : Nat → Nat} {t : Table} (hinv : Inv h t) (flags : Key → Nat) :
    ((foreach t flags).rc = none ∨ (foreach t flags).rc = some .unknown) ∧ Inv h (foreach t flags).table ∧
    (∃ U, ((foreach t flags).visits ++ U).Perm (contents t) ∧
      ((∀ k, flags k &&& ITER_ERROR = 0 ∧ flags k &&& ITER_CONTINUE ≠ 0) → U = [])) ∧
    (contents (foreach t flags).table ++ (foreach t flags).visits.filter (delB flags)).Perm (contents t) := by
  obtain ⟨j, hm⟩ := IterJ.begin hinv
  exact foreachLoop_any flags (contents t) _ t _ [] _ j hm rfl

end AwsVerif.Proofs.C02
