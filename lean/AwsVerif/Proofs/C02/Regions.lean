import AwsVerif.Proofs.C02.Seg
/-! The iterator's window `[slot, limit)` across a deletion: after the backward shift and the
`limit` adjustment of `aws_hash_iter_delete`, the window holds exactly the not-yet-visited entries
that were ahead of the deleted one, and the complement of the window holds exactly (as a multiset)
the entries that were outside the window before. -/
namespace AwsVerif.Proofs.C02
open AwsVerif.HashTable

theorem delete_regions {n : Nat} {s s' : Slots} {c limit last len : Nat}
    (hc : c < limit) (hl : limit ≤ n) (hlen : len < n)
    (hlast : last = (c + len) % n)
    (hshift : ∀ j, j < len → rd s' ((c + j) % n) = rd s ((c + (j + 1)) % n))
    (hempty : rd s' last = none)
    (hframe : ∀ x, (∀ j, j ≤ len → x ≠ (c + j) % n) → rd s' x = rd s x) :
    let limit' := if last < c ∨ last ≥ limit then limit - 1 else limit
    c ≤ limit' ∧ limit' ≤ limit ∧ limit - 1 ≤ limit' ∧
    seg s' c limit' = seg s (c + 1) limit ∧
    (seg s' 0 c ++ seg s' limit' n).Perm (seg s 0 c ++ seg s limit n) := by
  intro limit'
  by_cases hwrap : c + len < n
  · -- no wrap-around: the run is [c, c + len]
    have hlast' : last = c + len := by rw [hlast]; exact Nat.mod_eq_of_lt hwrap
    have hA : ∀ x, c ≤ x → x < c + len → rd s' x = rd s (x + 1) := by
      intro x h1 h2
      have := hshift (x - c) (by omega)
      rw [Nat.mod_eq_of_lt (by omega), Nat.mod_eq_of_lt (by omega)] at this
      rw [show c + (x - c) = x by omega, show c + (x - c + 1) = x + 1 by omega] at this
      exact this
    have hF : ∀ x, (x < c ∨ c + len < x) → rd s' x = rd s x := by
      intro x hx
      apply hframe
      intro j hj
      rw [Nat.mod_eq_of_lt (by omega)]
      omega
    by_cases hin : last < limit
    · -- the run ends inside the window: limit unchanged
      have hl' : limit' = limit := by
        show (if last < c ∨ last ≥ limit then limit - 1 else limit) = limit
        rw [if_neg (by omega)]
      rw [hl']
      refine ⟨by omega, Nat.le_refl _, by omega, ?_, ?_⟩
      · rw [seg_split s' (a := c) (m := last) (b := limit) (by omega) (by omega),
            seg_split s' (a := last) (m := last + 1) (b := limit) (by omega) (by omega),
            seg_one, hempty]
        rw [seg_shift (s := s) (s' := s') (a := c) (b := last) (by omega) (fun x h1 h2 => hA x h1 (by omega))]
        rw [seg_congr (s := s) (s' := s') (a := last + 1) (b := limit) (fun x h1 h2 => hF x (by omega))]
        rw [seg_split s (a := c + 1) (m := last + 1) (b := limit) (by omega) (by omega)]
        rfl
      · rw [seg_congr (s := s) (s' := s') (a := 0) (b := c) (fun x h1 h2 => hF x (by omega))]
        rw [seg_congr (s := s) (s' := s') (a := limit) (b := n) (fun x h1 h2 => hF x (by omega))]
    · -- the run reaches the already-visited tail [limit, n): limit shrinks by one
      have hl' : limit' = limit - 1 := by
        show (if last < c ∨ last ≥ limit then limit - 1 else limit) = limit - 1
        rw [if_pos (by omega)]
      rw [hl']
      refine ⟨by omega, by omega, Nat.le_refl _, ?_, ?_⟩
      · rw [seg_shift (s := s) (s' := s') (a := c) (b := limit - 1) (by omega) (fun x h1 h2 => hA x h1 (by omega))]
        rw [show limit - 1 + 1 = limit by omega]
      · rw [seg_congr (s := s) (s' := s') (a := 0) (b := c) (fun x h1 h2 => hF x (by omega))]
        have : seg s' (limit - 1) n = seg s limit n := by
          rw [seg_split s' (a := limit - 1) (m := last) (b := n) (by omega) (by omega),
              seg_split s' (a := last) (m := last + 1) (b := n) (by omega) (by omega),
              seg_one, hempty]
          rw [seg_shift (s := s) (s' := s') (a := limit - 1) (b := last) (by omega) (fun x h1 h2 => hA x (by omega) (by omega))]
          rw [seg_congr (s := s) (s' := s') (a := last + 1) (b := n) (fun x h1 h2 => hF x (by omega))]
          rw [show limit - 1 + 1 = limit by omega]
          rw [seg_split s (a := limit) (m := last + 1) (b := n) (by omega) (by omega)]
          rfl
        rw [this]
  · -- wrap-around: the run is [c, n) followed by [0, last]
    have hlast' : last = c + len - n := by
      rw [hlast]
      rcases mod_lt2 (a := c + len) (n := n) (by omega) with ⟨a, b⟩ | ⟨a, b⟩ <;> omega
    have hl' : limit' = limit - 1 := by
      show (if last < c ∨ last ≥ limit then limit - 1 else limit) = limit - 1
      rw [if_pos (by omega)]
    have hB1 : ∀ x, c ≤ x → x + 1 < n → rd s' x = rd s (x + 1) := by
      intro x h1 h2
      have := hshift (x - c) (by omega)
      rw [Nat.mod_eq_of_lt (by omega), Nat.mod_eq_of_lt (by omega)] at this
      rw [show c + (x - c) = x by omega, show c + (x - c + 1) = x + 1 by omega] at this
      exact this
    have hBw : rd s' (n - 1) = rd s 0 := by
      have := hshift (n - 1 - c) (by omega)
      rw [show c + (n - 1 - c) = n - 1 by omega, show c + (n - 1 - c + 1) = n by omega,
          Nat.mod_eq_of_lt (by omega), Nat.mod_self] at this
      exact this
    have hB2 : ∀ x, x < last → rd s' x = rd s (x + 1) := by
      intro x h1
      have := hshift (n - c + x) (by omega)
      rw [show c + (n - c + x) = x + n by omega, show c + (n - c + x + 1) = (x + 1) + n by omega,
          Nat.add_mod_right, Nat.add_mod_right, Nat.mod_eq_of_lt (by omega), Nat.mod_eq_of_lt (by omega)] at this
      exact this
    have hF : ∀ x, last < x → x < c → rd s' x = rd s x := by
      intro x h1 h2
      apply hframe
      intro j hj
      rcases mod_lt2 (a := c + j) (n := n) (by omega) with ⟨a, b⟩ | ⟨a, b⟩ <;> omega
    rw [hl']
    refine ⟨by omega, by omega, Nat.le_refl _, ?_, ?_⟩
    · rw [seg_shift (s := s) (s' := s') (a := c) (b := limit - 1) (by omega) (fun x h1 h2 => hB1 x h1 (by omega))]
      rw [show limit - 1 + 1 = limit by omega]
    · have e1 : seg s' 0 c = seg s 1 c := by
        rw [seg_split s' (a := 0) (m := last) (b := c) (by omega) (by omega),
            seg_split s' (a := last) (m := last + 1) (b := c) (by omega) (by omega),
            seg_one, hempty]
        rw [seg_shift (s := s) (s' := s') (a := 0) (b := last) (by omega) (fun x _ h2 => hB2 x h2)]
        rw [seg_congr (s := s) (s' := s') (a := last + 1) (b := c) (fun x h1 h2 => hF x (by omega) h2)]
        rw [seg_split s (a := 1) (m := last + 1) (b := c) (by omega) (by omega)]
        rfl
      have e2 : seg s' (limit - 1) n = seg s limit n ++ (rd s 0).toList := by
        rw [seg_split s' (a := limit - 1) (m := n - 1) (b := n) (by omega) (by omega)]
        rw [seg_shift (s := s) (s' := s') (a := limit - 1) (b := n - 1) (by omega) (fun x h1 h2 => hB1 x (by omega) (by omega))]
        rw [show limit - 1 + 1 = limit by omega, show n - 1 + 1 = n by omega]
        have : seg s' (n - 1) n = (rd s' (n - 1)).toList := by
          have := seg_one s' (n - 1)
          rw [show n - 1 + 1 = n by omega] at this
          exact this
        rw [this, hBw]
      have e3 : seg s 0 c = (rd s 0).toList ++ seg s 1 c := seg_head s (by omega)
      rw [e1, e2, e3]
      -- seg s 1 c ++ (seg s limit n ++ x) ~ (x ++ seg s 1 c) ++ seg s limit n
      generalize seg s 1 c = A
      generalize seg s limit n = B
      generalize (rd s 0).toList = X
      have p1 : (A ++ (B ++ X)).Perm ((A ++ B) ++ X) := by rw [List.append_assoc]
      have p2 : ((A ++ B) ++ X).Perm (X ++ (A ++ B)) := List.perm_append_comm
      have p3 : (X ++ (A ++ B)) = ((X ++ A) ++ B) := by rw [List.append_assoc]
      exact p1.trans (p2.trans (by rw [p3]))

end AwsVerif.Proofs.C02
