import AwsVerif.Proofs.C02.Refine
/-! Programs: the step theorems lifted to operation sequences. -/
namespace AwsVerif.Proofs.C02
open AwsVerif.HashTable

theorem runModel_cons (h : Nat → Nat) (t : Table) (op : Op) (ops : List Op) :
    runModel h t (op :: ops) =
      ((runModel h (apply h t op).1 ops).1, (apply h t op).2 :: (runModel h (apply h t op).1 ops).2) := rfl

theorem runSpec_cons (dk dv : Bool) (m : Spec) (op : Op) (ops : List Op) :
    runSpec dk dv m (op :: ops) =
      ((runSpec dk dv (specApply dk dv m op).1 ops).1, (specApply dk dv m op).2 :: (runSpec dk dv (specApply dk dv m op).1 ops).2) := rfl

/-- no operation ever reports an exhausted loop budget -/
theorem apply_ne_fuel {h : Nat → Nat} {t : Table} (hinv : Inv h t) (op : Op) : (apply h t op).2 ≠ .error .fuel := by
  obtain ⟨_, _, _, h4⟩ := step_refines hinv (List.Perm.refl _) op
  rcases h4 with ⟨e, he, hne, _⟩ | ⟨_, hsim⟩
  · rw [he, hne]; intro hc; cases hc
  · intro hc
    rw [hc] at hsim
    unfold Res.sim at hsim
    cases hop : specApply t.dk t.dv (contents t) op with
    | mk m' r' =>
      rw [hop] at hsim
      simp only at hsim
      cases op <;> simp only [specApply] at hop <;> (try split at hop) <;> cases hop <;> cases hsim

/-- the invariant holds along every program, and no loop ever runs out of fuel -/
theorem run_inv {h : Nat → Nat} : ∀ (ops : List Op) (t : Table), Inv h t →
    Inv h (runModel h t ops).1 ∧ ∀ r ∈ (runModel h t ops).2, r ≠ .error .fuel := by
  intro ops
  induction ops with
  | nil => intro t hinv; exact ⟨hinv, by intro r hr; cases hr⟩
  | cons op ops ih =>
    intro t hinv
    rw [runModel_cons]
    obtain ⟨h1, _, _, _⟩ := step_refines hinv (List.Perm.refl _) op
    obtain ⟨i1, i2⟩ := ih _ h1
    refine ⟨i1, ?_⟩
    intro r hr
    rcases List.mem_cons.1 hr with h5 | h5
    · subst h5; exact apply_ne_fuel hinv op
    · exact i2 r h5

/-- refinement along a program: while the implementation's size arithmetic does not overflow, the
results are those of the reference map and the contents stay a permutation of it -/
theorem run_refines {h : Nat → Nat} : ∀ (ops : List Op) (t : Table) (m : Spec), Inv h t → (contents t).Perm m →
    (∀ r ∈ (runModel h t ops).2, isError r = false) →
    (contents (runModel h t ops).1).Perm (runSpec t.dk t.dv m ops).1 ∧
    simList (runModel h t ops).2 (runSpec t.dk t.dv m ops).2 := by
  intro ops
  induction ops with
  | nil => intro t m _ habs _; exact ⟨habs, trivial⟩
  | cons op ops ih =>
    intro t m hinv habs hne
    rw [runModel_cons, runSpec_cons]
    rw [runModel_cons] at hne
    obtain ⟨h1, h2, h3, h4⟩ := step_refines hinv habs op
    rcases h4 with ⟨e, he, _, _⟩ | ⟨hperm, hsim⟩
    · have := hne _ (List.mem_cons_self)
      rw [he] at this; cases this
    · obtain ⟨i1, i2⟩ := ih _ _ h1 hperm (fun r hr => hne r (List.mem_cons_of_mem _ hr))
      rw [h2, h3] at i1 i2
      exact ⟨i1, hsim, i2⟩

end AwsVerif.Proofs.C02
