import AwsVerif.Proofs.C02.Remove
/-! Sizes: `aws_round_up_to_power_of_two`, `s_update_template_size`, `aws_hash_table_init`. -/
namespace AwsVerif.Proofs.C02
open AwsVerif.HashTable

theorem pow2From_spec : ∀ f a n, n ≤ 2 ^ (a + f) →
    ∃ j, a ≤ j ∧ j ≤ a + f ∧ pow2From f (2 ^ a) n = 2 ^ j ∧ n ≤ 2 ^ j := by
  intro f
  induction f with
  | zero => intro a n h; exact ⟨a, Nat.le_refl _, Nat.le_refl _, rfl, h⟩
  | succ f ih =>
    intro a n h
    unfold pow2From
    by_cases h1 : n ≤ 2 ^ a
    · rw [if_pos h1]; exact ⟨a, Nat.le_refl _, by omega, rfl, h1⟩
    · rw [if_neg h1]
      have : 2 * 2 ^ a = 2 ^ (a + 1) := by rw [Nat.pow_succ]; omega
      rw [this]
      obtain ⟨j, h2, h3, h4, h5⟩ := ih (a + 1) n (by rw [show a + 1 + f = a + (f + 1) by omega]; exact h)
      exact ⟨j, by omega, by omega, h4, h5⟩

theorem roundUpPow2_spec {n r : Nat} (h : roundUpPow2 n = .ok r) : ∃ j, j ≤ 64 ∧ r = 2 ^ j ∧ n ≤ r := by
  unfold roundUpPow2 at h
  split at h
  · rename_i h0; cases h; exact ⟨0, by omega, rfl, by omega⟩
  · split at h
    · cases h
    · rename_i h1 h2
      cases h
      have hle : n ≤ 2 ^ (0 + 64) := by
        have : SIZE_MAX_POWER_OF_TWO = 2 ^ 63 := rfl
        have h3 : n ≤ 2 ^ 63 := by omega
        exact Nat.le_trans h3 (Nat.pow_le_pow_right (by decide) (by decide))
      obtain ⟨j, _, h4, h5, h6⟩ := pow2From_spec 64 0 n hle
      exact ⟨j, by omega, h5, by rw [h5]; exact h6⟩

theorem maxLoadOf_lt {n : Nat} (hn : 0 < n) : maxLoadOf n < n := by
  unfold maxLoadOf
  simp only
  split <;> omega

theorem loadFactor_half : Gen.loadFactorDen ≤ 2 * Gen.loadFactorNum := by decide
theorem loadFactor_den_pos : 0 < Gen.loadFactorDen := by decide

/-- after doubling there is room for one more entry: `maxLoadOf (2c') ≥ c` for `c ≤ c'` -/
theorem maxLoadOf_double {c m : Nat} (hc : 1 ≤ c) (hm : 2 * c ≤ m) : c ≤ maxLoadOf m := by
  unfold maxLoadOf
  simp only
  split
  · omega
  · rw [Nat.le_div_iff_mul_le loadFactor_den_pos]
    have h1 := loadFactor_half
    calc c * Gen.loadFactorDen ≤ c * (2 * Gen.loadFactorNum) := Nat.mul_le_mul_left c h1
      _ = Gen.loadFactorNum * (2 * c) := by rw [Nat.mul_comm c, Nat.mul_assoc, Nat.mul_left_comm]
      _ ≤ Gen.loadFactorNum * m := Nat.mul_le_mul_left _ hm

theorem updateTemplateSize_spec {x : Nat} {tp : Template} (h : updateTemplateSize x = .ok tp) :
    (∃ k, 1 ≤ k ∧ k ≤ 64 ∧ tp.size = 2 ^ k) ∧ tp.mask = tp.size - 1 ∧ tp.maxLoad = maxLoadOf tp.size ∧ x ≤ tp.size := by
  unfold updateTemplateSize at h
  simp only at h
  split at h
  · cases h
  · rename_i size hsz
    cases h
    obtain ⟨j, h1, h2, h3⟩ := roundUpPow2_spec hsz
    refine ⟨⟨j, ?_, h1, h2⟩, rfl, rfl, ?_⟩
    · rcases Nat.eq_zero_or_pos j with h0 | h0
      · subst h0; simp at h2; subst h2; split at h3 <;> omega
      · exact h0
    · simp only
      split at h3 <;> omega

theorem roundUpPow2_err {n : Nat} {e : Err} (h : roundUpPow2 n = .error e) : e = .overflow := by
  unfold roundUpPow2 at h
  split at h
  · cases h
  · split at h
    · cases h; rfl
    · cases h

theorem updateTemplateSize_err {x : Nat} {e : Err} (h : updateTemplateSize x = .error e) : e = .overflow := by
  unfold updateTemplateSize at h
  simp only at h
  split at h
  · rename_i e' hr
    cases h
    exact roundUpPow2_err hr
  · cases h

theorem requiredBytes_err {x : Nat} {e : Err} (h : requiredBytes x = .error e) : e = .overflow := by
  unfold requiredBytes at h
  split at h
  · cases h; rfl
  · split at h
    · cases h; rfl
    · cases h

theorem allocState_err {tp : Template} {c : Nat} {dk dv : Bool} {e : Err} (h : allocState tp c dk dv = .error e) :
    e = .overflow := by
  unfold allocState at h
  split at h
  · rename_i e' hr
    cases h
    exact requiredBytes_err hr
  · cases h

theorem RHs_empty (n m : Nat) : RHs n (Array.replicate m none) := by
  intro i e _ hr
  rw [rd_replicate] at hr; cases hr

theorem allocState_spec {tp : Template} {c : Nat} {dk dv : Bool} {t : Table} (h : allocState tp c dk dv = .ok t) :
    t.slots = Array.replicate tp.size none ∧ t.size = tp.size ∧ t.entryCount = c ∧ t.maxLoad = tp.maxLoad ∧
    t.mask = tp.mask ∧ t.dk = dk ∧ t.dv = dv := by
  unfold allocState at h
  split at h
  · cases h
  · cases h; exact ⟨rfl, rfl, rfl, rfl, rfl, rfl, rfl⟩

theorem allocState_size_lt {tp : Template} {c : Nat} {dk dv : Bool} {t : Table} (h : allocState tp c dk dv = .ok t) :
    tp.size < W64 := by
  unfold allocState at h
  split at h
  · cases h
  · rename_i x hx
    unfold requiredBytes at hx
    split at hx
    · cases hx
    · rename_i hle
      have h1 : SIZE_MAX = 2 ^ 64 - 1 := rfl
      have h2 : ENTRY_BYTES = 24 := rfl
      have h3 : W64 = 2 ^ 64 := rfl
      rw [h1, h2] at hle
      rw [h3]
      omega

theorem init_inv (h : Nat → Nat) {size : Nat} {dk dv : Bool} {t : Table} (hi : init size dk dv = .ok t) :
    Inv h t ∧ entries t.slots = [] := by
  unfold init at hi
  split at hi
  · cases hi
  · rename_i tp htp
    obtain ⟨h1, h2, h3, _⟩ := updateTemplateSize_spec htp
    obtain ⟨a1, a2, a3, a4, a5, _, _⟩ := allocState_spec hi
    have hpos : 0 < tp.size := by
      obtain ⟨k, _, _, hk⟩ := h1; rw [hk]; exact Nat.pow_pos (by decide)
    refine ⟨⟨⟨?_, ?_, ?_, ?_, ?_, ?_, ?_, ?_, ?_⟩, ?_⟩, ?_⟩
    · rw [a2]; exact h1
    · rw [a2]; exact allocState_size_lt hi
    · rw [a5, a2]; exact h2
    · rw [a1, a2]; simp
    · rw [a1, a3, entries_replicate]; rfl
    · rw [a3]; omega
    · rw [a4, a2, h3]; exact maxLoadOf_lt hpos
    · unfold NoDup; rw [a1, entries_replicate]; exact List.Pairwise.nil
    · intro e he; rw [a1, entries_replicate] at he; cases he
    · unfold RH; rw [a1]; exact RHs_empty _ _
    · rw [a1, entries_replicate]

end AwsVerif.Proofs.C02
