import AwsVerif.Proofs.C02.Lookup3Cases
/-! The 32-bit-load, 16-bit-load and byte-load paths of `hashlittle2`, as extracted from the source, all compute
the byte-wise function `hashlittle2` of the model — for every key, every length, every content of the memory
behind the key, every address. -/
namespace AwsVerif.Proofs.C02
open AwsVerif.Lookup3 AwsVerif

/-- the tail switch of a path puts the remaining key bytes (1..12) into (a, b, c) as little-endian words -/
def TailOk (tail : List (List Term)) : Prop :=
  ∀ (key after : List UInt8) (a b c : UInt32), 1 ≤ key.length → key.length ≤ 12 →
    addTerms (key ++ after) (tail.getD key.length []) (a, b, c) = (a + le32 key 0, b + le32 key 4, c + le32 key 8)

/-- one block iteration of a path adds the next 12 key bytes as three little-endian words -/
def BlockOk (blk : List Term) : Prop :=
  ∀ (key after : List UInt8) (a b c : UInt32), 12 < key.length →
    addTerms (key ++ after) blk (a, b, c) = (a + le32 key 0, b + le32 key 4, c + le32 key 8)

theorem tailOk32 : TailOk Gen.l3Tail32 := by
  intro key after a b c h1 h2
  rcases key with _ | ⟨x0, _ | ⟨x1, _ | ⟨x2, _ | ⟨x3, _ | ⟨x4, _ | ⟨x5, _ | ⟨x6, _ | ⟨x7, _ | ⟨x8, _ | ⟨x9, _ | ⟨x10, _ | ⟨x11, _ | ⟨x12, rest⟩⟩⟩⟩⟩⟩⟩⟩⟩⟩⟩⟩⟩
  · simp at h1
  · exact tail32_1 x0 after a b c
  · exact tail32_2 x0 x1 after a b c
  · exact tail32_3 x0 x1 x2 after a b c
  · exact tail32_4 x0 x1 x2 x3 after a b c
  · exact tail32_5 x0 x1 x2 x3 x4 after a b c
  · exact tail32_6 x0 x1 x2 x3 x4 x5 after a b c
  · exact tail32_7 x0 x1 x2 x3 x4 x5 x6 after a b c
  · exact tail32_8 x0 x1 x2 x3 x4 x5 x6 x7 after a b c
  · exact tail32_9 x0 x1 x2 x3 x4 x5 x6 x7 x8 after a b c
  · exact tail32_10 x0 x1 x2 x3 x4 x5 x6 x7 x8 x9 after a b c
  · exact tail32_11 x0 x1 x2 x3 x4 x5 x6 x7 x8 x9 x10 after a b c
  · exact tail32_12 x0 x1 x2 x3 x4 x5 x6 x7 x8 x9 x10 x11 after a b c
  · simp at h2 <;> omega

theorem blockOk32 : BlockOk Gen.l3Block32 := by
  intro key after a b c h
  rcases key with _ | ⟨x0, _ | ⟨x1, _ | ⟨x2, _ | ⟨x3, _ | ⟨x4, _ | ⟨x5, _ | ⟨x6, _ | ⟨x7, _ | ⟨x8, _ | ⟨x9, _ | ⟨x10, _ | ⟨x11, rest⟩⟩⟩⟩⟩⟩⟩⟩⟩⟩⟩⟩
  all_goals first
    | (simp at h; done)
    | (simp at h; omega)
    | exact block32 x0 x1 x2 x3 x4 x5 x6 x7 x8 x9 x10 x11 rest after a b c

theorem tailOk16 : TailOk Gen.l3Tail16 := by
  intro key after a b c h1 h2
  rcases key with _ | ⟨x0, _ | ⟨x1, _ | ⟨x2, _ | ⟨x3, _ | ⟨x4, _ | ⟨x5, _ | ⟨x6, _ | ⟨x7, _ | ⟨x8, _ | ⟨x9, _ | ⟨x10, _ | ⟨x11, _ | ⟨x12, rest⟩⟩⟩⟩⟩⟩⟩⟩⟩⟩⟩⟩⟩
  · simp at h1
  · exact tail16_1 x0 after a b c
  · exact tail16_2 x0 x1 after a b c
  · exact tail16_3 x0 x1 x2 after a b c
  · exact tail16_4 x0 x1 x2 x3 after a b c
  · exact tail16_5 x0 x1 x2 x3 x4 after a b c
  · exact tail16_6 x0 x1 x2 x3 x4 x5 after a b c
  · exact tail16_7 x0 x1 x2 x3 x4 x5 x6 after a b c
  · exact tail16_8 x0 x1 x2 x3 x4 x5 x6 x7 after a b c
  · exact tail16_9 x0 x1 x2 x3 x4 x5 x6 x7 x8 after a b c
  · exact tail16_10 x0 x1 x2 x3 x4 x5 x6 x7 x8 x9 after a b c
  · exact tail16_11 x0 x1 x2 x3 x4 x5 x6 x7 x8 x9 x10 after a b c
  · exact tail16_12 x0 x1 x2 x3 x4 x5 x6 x7 x8 x9 x10 x11 after a b c
  · simp at h2 <;> omega

theorem blockOk16 : BlockOk Gen.l3Block16 := by
  intro key after a b c h
  rcases key with _ | ⟨x0, _ | ⟨x1, _ | ⟨x2, _ | ⟨x3, _ | ⟨x4, _ | ⟨x5, _ | ⟨x6, _ | ⟨x7, _ | ⟨x8, _ | ⟨x9, _ | ⟨x10, _ | ⟨x11, rest⟩⟩⟩⟩⟩⟩⟩⟩⟩⟩⟩⟩
  all_goals first
    | (simp at h; done)
    | (simp at h; omega)
    | exact block16 x0 x1 x2 x3 x4 x5 x6 x7 x8 x9 x10 x11 rest after a b c

theorem tailOk8 : TailOk Gen.l3Tail8 := by
  intro key after a b c h1 h2
  rcases key with _ | ⟨x0, _ | ⟨x1, _ | ⟨x2, _ | ⟨x3, _ | ⟨x4, _ | ⟨x5, _ | ⟨x6, _ | ⟨x7, _ | ⟨x8, _ | ⟨x9, _ | ⟨x10, _ | ⟨x11, _ | ⟨x12, rest⟩⟩⟩⟩⟩⟩⟩⟩⟩⟩⟩⟩⟩
  · simp at h1
  · exact tail8_1 x0 after a b c
  · exact tail8_2 x0 x1 after a b c
  · exact tail8_3 x0 x1 x2 after a b c
  · exact tail8_4 x0 x1 x2 x3 after a b c
  · exact tail8_5 x0 x1 x2 x3 x4 after a b c
  · exact tail8_6 x0 x1 x2 x3 x4 x5 after a b c
  · exact tail8_7 x0 x1 x2 x3 x4 x5 x6 after a b c
  · exact tail8_8 x0 x1 x2 x3 x4 x5 x6 x7 after a b c
  · exact tail8_9 x0 x1 x2 x3 x4 x5 x6 x7 x8 after a b c
  · exact tail8_10 x0 x1 x2 x3 x4 x5 x6 x7 x8 x9 after a b c
  · exact tail8_11 x0 x1 x2 x3 x4 x5 x6 x7 x8 x9 x10 after a b c
  · exact tail8_12 x0 x1 x2 x3 x4 x5 x6 x7 x8 x9 x10 x11 after a b c
  · simp at h2 <;> omega

theorem blockOk8 : BlockOk Gen.l3Block8 := by
  intro key after a b c h
  rcases key with _ | ⟨x0, _ | ⟨x1, _ | ⟨x2, _ | ⟨x3, _ | ⟨x4, _ | ⟨x5, _ | ⟨x6, _ | ⟨x7, _ | ⟨x8, _ | ⟨x9, _ | ⟨x10, _ | ⟨x11, rest⟩⟩⟩⟩⟩⟩⟩⟩⟩⟩⟩⟩
  all_goals first
    | (simp at h; done)
    | (simp at h; omega)
    | exact block8 x0 x1 x2 x3 x4 x5 x6 x7 x8 x9 x10 x11 rest after a b c

theorem blocks_succ (fuel : Nat) (k : List UInt8) (a b c : UInt32) :
    blocks (fuel + 1) k a b c =
      if k.length > 12 then
        blocks fuel (k.drop 12) (mix (a + le32 k 0) (b + le32 k 4) (c + le32 k 8)).1
          (mix (a + le32 k 0) (b + le32 k 4) (c + le32 k 8)).2.1 (mix (a + le32 k 0) (b + le32 k 4) (c + le32 k 8)).2.2
      else (k, a, b, c) := rfl

theorem pathBlocks_succ (blk : List Term) (fuel : Nat) (mem : List UInt8) (len : Nat) (a b c : UInt32) :
    pathBlocks blk (fuel + 1) mem len a b c =
      if len > 12 then
        pathBlocks blk fuel (mem.drop 12) (len - 12)
          (mix (addTerms mem blk (a, b, c)).1 (addTerms mem blk (a, b, c)).2.1 (addTerms mem blk (a, b, c)).2.2).1
          (mix (addTerms mem blk (a, b, c)).1 (addTerms mem blk (a, b, c)).2.1 (addTerms mem blk (a, b, c)).2.2).2.1
          (mix (addTerms mem blk (a, b, c)).1 (addTerms mem blk (a, b, c)).2.1 (addTerms mem blk (a, b, c)).2.2).2.2
      else (mem, len, a, b, c) := rfl

/-- the block loop of a path follows the byte-wise block loop, carrying the memory behind the key along -/
theorem pathBlocks_eq {blk : List Term} (hb : BlockOk blk) :
    ∀ (fuel : Nat) (key after : List UInt8) (a b c : UInt32),
      pathBlocks blk fuel (key ++ after) key.length a b c =
        ((blocks fuel key a b c).1 ++ after, (blocks fuel key a b c).1.length, (blocks fuel key a b c).2.1,
          (blocks fuel key a b c).2.2.1, (blocks fuel key a b c).2.2.2) := by
  intro fuel
  induction fuel with
  | zero => intro key after a b c; rfl
  | succ f ih =>
    intro key after a b c
    rw [pathBlocks_succ, blocks_succ]
    by_cases h : key.length > 12
    · rw [if_pos h, if_pos h, hb key after a b c h]
      have hd : (key ++ after).drop 12 = key.drop 12 ++ after := List.drop_append_of_le_length (by omega)
      have hl : key.length - 12 = (key.drop 12).length := by rw [List.length_drop]
      simp only
      rw [hd, hl]
      exact ih _ _ _ _ _
    · rw [if_neg h, if_neg h]

/-- the byte-wise block loop leaves at most 12 bytes when given enough fuel -/
theorem blocks_length : ∀ (fuel : Nat) (k : List UInt8) (a b c : UInt32), k.length ≤ 12 * fuel + 12 →
    (blocks fuel k a b c).1.length ≤ 12 := by
  intro fuel
  induction fuel with
  | zero => intro k a b c h; exact h
  | succ f ih =>
    intro k a b c h
    rw [blocks_succ]
    by_cases hk : k.length > 12
    · rw [if_pos hk]
      exact ih _ _ _ _ (by rw [List.length_drop]; omega)
    · rw [if_neg hk]; exact Nat.le_of_not_gt hk

/-- a path whose tables satisfy `BlockOk` / `TailOk` computes the byte-wise `hashlittle2`, whatever lies behind the key -/
theorem path_eq {blk : List Term} {tail : List (List Term)} (hb : BlockOk blk) (ht : TailOk tail)
    (key after : List UInt8) (pc pb : UInt32) :
    hashlittle2Path blk tail (key ++ after) key.length pc pb = hashlittle2 key pc pb := by
  unfold hashlittle2Path hashlittle2
  simp only
  rw [pathBlocks_eq hb]
  generalize hbl : blocks key.length key _ _ _ = r
  obtain ⟨k, a, b, c⟩ := r
  have hlen : k.length ≤ 12 := by
    have := blocks_length key.length key (Gen.l3Basis.toUInt32 + key.length.toUInt32 + pc)
      (Gen.l3Basis.toUInt32 + key.length.toUInt32 + pc) (Gen.l3Basis.toUInt32 + key.length.toUInt32 + pc + pb) (by omega)
    rw [hbl] at this; exact this
  simp only
  by_cases h0 : k.length = 0
  · rw [if_pos h0, if_pos h0]
  · rw [if_neg h0, if_neg h0, ht k after a b c (by omega) hlen]

theorem path32_eq (key after : List UInt8) (pc pb : UInt32) :
    hashlittle2Path Gen.l3Block32 Gen.l3Tail32 (key ++ after) key.length pc pb = hashlittle2 key pc pb :=
  path_eq blockOk32 tailOk32 key after pc pb

theorem path16_eq (key after : List UInt8) (pc pb : UInt32) :
    hashlittle2Path Gen.l3Block16 Gen.l3Tail16 (key ++ after) key.length pc pb = hashlittle2 key pc pb :=
  path_eq blockOk16 tailOk16 key after pc pb

theorem path8_eq (key after : List UInt8) (pc pb : UInt32) :
    hashlittle2Path Gen.l3Block8 Gen.l3Tail8 (key ++ after) key.length pc pb = hashlittle2 key pc pb :=
  path_eq blockOk8 tailOk8 key after pc pb

/-- the compiled function: whatever the address of the key and whatever follows it in memory -/
theorem hashlittle2C_eq (addr : Nat) (key after : List UInt8) (pc pb : UInt32) :
    hashlittle2C addr (key ++ after) key.length pc pb = hashlittle2 key pc pb := by
  unfold hashlittle2C
  split
  · exact path32_eq key after pc pb
  · split
    · exact path16_eq key after pc pb
    · exact path8_eq key after pc pb

theorem tailOk32V : TailOk Gen.l3Tail32V := by
  intro key after a b c h1 h2
  rcases key with _ | ⟨x0, _ | ⟨x1, _ | ⟨x2, _ | ⟨x3, _ | ⟨x4, _ | ⟨x5, _ | ⟨x6, _ | ⟨x7, _ | ⟨x8, _ | ⟨x9, _ | ⟨x10, _ | ⟨x11, _ | ⟨x12, rest⟩⟩⟩⟩⟩⟩⟩⟩⟩⟩⟩⟩⟩
  · simp at h1
  · exact tail32V_1 x0 after a b c
  · exact tail32V_2 x0 x1 after a b c
  · exact tail32V_3 x0 x1 x2 after a b c
  · exact tail32V_4 x0 x1 x2 x3 after a b c
  · exact tail32V_5 x0 x1 x2 x3 x4 after a b c
  · exact tail32V_6 x0 x1 x2 x3 x4 x5 after a b c
  · exact tail32V_7 x0 x1 x2 x3 x4 x5 x6 after a b c
  · exact tail32V_8 x0 x1 x2 x3 x4 x5 x6 x7 after a b c
  · exact tail32V_9 x0 x1 x2 x3 x4 x5 x6 x7 x8 after a b c
  · exact tail32V_10 x0 x1 x2 x3 x4 x5 x6 x7 x8 x9 after a b c
  · exact tail32V_11 x0 x1 x2 x3 x4 x5 x6 x7 x8 x9 x10 after a b c
  · exact tail32V_12 x0 x1 x2 x3 x4 x5 x6 x7 x8 x9 x10 x11 after a b c
  · simp at h2 <;> omega

theorem path32V_eq (key after : List UInt8) (pc pb : UInt32) :
    hashlittle2Path Gen.l3Block32 Gen.l3Tail32V (key ++ after) key.length pc pb = hashlittle2 key pc pb :=
  path_eq blockOk32 tailOk32V key after pc pb

/-- the function as compiled with `-DVALGRIND` -/
theorem hashlittle2CV_eq (addr : Nat) (key after : List UInt8) (pc pb : UInt32) :
    hashlittle2CV addr (key ++ after) key.length pc pb = hashlittle2 key pc pb := by
  unfold hashlittle2CV
  split
  · exact path32V_eq key after pc pb
  · split
    · exact path16_eq key after pc pb
    · exact path8_eq key after pc pb

end AwsVerif.Proofs.C02
