import AwsVerif.Proofs.C02.Regions
import AwsVerif.Proofs.C02.Refine
/-! `aws_hash_table_foreach` with a callback that never stops: every stored pair is visited exactly
once, also when pairs are deleted on the way (the iterator's `limit` adjustment and `slot - 1`
step back), the pass ends inside its fuel, and exactly the pairs not asked to be deleted remain. -/
namespace AwsVerif.Proofs.C02
open AwsVerif.HashTable

/-- `s_remove_entry` on an occupied slot: invariant, count, and the exact shape of the shift -/
theorem removeEntry_full {h : Nat → Nat} {t : Table} (hinv : Inv h t) {c : Nat} {e : Entry} (hr : rd t.slots c = some e) :
    ∃ t' last len, removeEntry t c = some (t', last) ∧ Inv h t' ∧ t'.size = t.size ∧
      t'.entryCount + 1 = t.entryCount ∧ t'.dk = t.dk ∧ t'.dv = t.dv ∧ len < t.size ∧ last = (c + len) % t.size ∧
      (∀ j, j < len → rd t'.slots ((c + j) % t.size) = rd t.slots ((c + (j + 1)) % t.size)) ∧
      rd t'.slots last = none ∧
      (∀ x, (∀ j, j ≤ len → x ≠ (c + j) % t.size) → rd t'.slots x = rd t.slots x) := by
  obtain ⟨b, hrh⟩ := hinv
  have hn := b.two_le
  have hi : c < t.size := by rw [← b.sizeEq]; exact rd_lt_size hr
  obtain ⟨z, hz, hzn⟩ := b.empty_slot
  have hzi : z ≠ c := by intro h; subst h; rw [hr] at hzn; cases hzn
  have hgap : (c + (z + t.size - c) % t.size) % t.size = z := by
    rcases mod_lt2 (a := z + t.size - c) (n := t.size) (by omega) with ⟨a, d⟩ | ⟨a, d⟩ <;>
    rcases mod_lt2 (a := c + (z + t.size - c) % t.size) (n := t.size) (by omega) with ⟨f, g⟩ | ⟨f, g⟩ <;> omega
  have hg1 : 1 ≤ (z + t.size - c) % t.size := by
    rcases mod_lt2 (a := z + t.size - c) (n := t.size) (by omega) with ⟨a, d⟩ | ⟨a, d⟩ <;> omega
  have hg2 : (z + t.size - c) % t.size < t.size := Nat.mod_lt _ (by omega)
  obtain ⟨s', last, len, h1, h2, h3, h4, h5, h6, _⟩ :=
    removeLoop_shape b.geom t.size t.slots c _ b.sizeEq hi hg1 (Nat.le_of_lt hg2) hg2 (by rw [hgap]; exact hzn)
  obtain ⟨t', last', r1, r2, r3, r4, r5, r6, _⟩ := removeEntry_spec ⟨b, hrh⟩ hr
  have hslots : t' = { t with slots := s', entryCount := t.entryCount - 1 } ∧ last' = last := by
    unfold removeEntry at r1
    rw [h1] at r1
    simp only [Option.some.injEq, Prod.mk.injEq] at r1
    exact ⟨r1.1.symm, r1.2.symm⟩
  obtain ⟨ht', hl'⟩ := hslots
  subst hl'
  have hcount : t'.entryCount + 1 = t.entryCount := by
    rw [r2.1.count, b.count, r3.length_eq]; rfl
  have hs' : t'.slots = s' := by rw [ht']
  refine ⟨t', last', len, r1, r2, r6, hcount, r4, r5, by omega, h3, ?_, ?_, ?_⟩
  · rw [hs']; exact h4
  · rw [hs']; exact h5
  · rw [hs']; exact h6

/-- `s_get_next_element`: scan from `i` up to `limit` -/
theorem getNextLoop_scan (s : Slots) (it : Iter) : ∀ fuel i, i ≤ it.limit → it.limit < i + fuel →
    (getNextLoop s it fuel i).limit = it.limit ∧ i ≤ (getNextLoop s it fuel i).slot ∧
    (getNextLoop s it fuel i).slot ≤ it.limit ∧
    (∀ x, i ≤ x → x < (getNextLoop s it fuel i).slot → rd s x = none) ∧
    ((getNextLoop s it fuel i).slot < it.limit →
      ∃ e, rd s (getNextLoop s it fuel i).slot = some e ∧ (getNextLoop s it fuel i).elem = some (e.key, e.val)) := by
  intro fuel
  induction fuel with
  | zero => intro i h1 h2; omega
  | succ f ih =>
    intro i h1 h2
    unfold getNextLoop
    by_cases hlt : i < it.limit
    · rw [if_pos hlt]
      cases hri : rd s i with
      | some e =>
        simp only
        exact ⟨trivial, Nat.le_refl _, Nat.le_of_lt hlt, fun x a b => by omega, fun _ => ⟨e, hri, rfl⟩⟩
      | none =>
        simp only
        obtain ⟨a1, a2, a3, a4, a5⟩ := ih (i + 1) (by omega) (by omega)
        refine ⟨a1, by omega, a3, ?_, a5⟩
        intro x hx1 hx2
        rcases Nat.eq_or_lt_of_le hx1 with h3 | h3
        · subst h3; exact hri
        · exact a4 x (by omega) hx2
    · rw [if_neg hlt]
      simp only
      exact ⟨trivial, by omega, Nat.le_refl _, fun x a b => by omega, fun hh => by omega⟩

theorem stepback {c : Nat} (hc : c < W64) : ((c + W64 - 1) % W64 + 1) % W64 = c := by
  unfold W64 at *
  omega

theorem stepfwd {c : Nat} (hc : c + 1 < W64) : (c + 1) % W64 = c + 1 := Nat.mod_eq_of_lt hc

/-- `aws_hash_iter_delete(iter, false)` in terms of the result of `s_remove_entry` -/
theorem iterDelete_eq {t t' : Table} {it : Iter} {last : Nat} (h : removeEntry t it.slot = some (t', last)) :
    iterDelete t it false =
      some (t', { it with limit := if last < it.slot ∨ last ≥ it.limit then it.limit - 1 else it.limit,
                          slot := (it.slot + W64 - 1) % W64, status := .deleteCalled }, []) := by
  unfold iterDelete
  rw [h]

/-- the callback's "keep" decision -/
def keepB (flags : Key → Nat) (kv : Key × Val) : Bool := decide (flags kv.1 &&& ITER_DELETE = 0)

theorem foreachLoop_once {h : Nat → Nat} (flags : Key → Nat)
    (hfl : ∀ k, flags k &&& ITER_ERROR = 0 ∧ flags k &&& ITER_CONTINUE ≠ 0) (C0 : List (Key × Val)) :
    ∀ fuel t it V r, Inv h t → it.limit ≤ t.size → it.slot ≤ it.limit →
      (it.slot < it.limit → ∃ e, rd t.slots it.slot = some e ∧ it.elem = some (e.key, e.val)) →
      (V ++ (seg t.slots it.slot it.limit).map kvOf).Perm C0 →
      ((seg t.slots 0 it.slot ++ seg t.slots it.limit t.size).map kvOf).Perm (V.filter (keepB flags)) →
      (it.limit - it.slot) + t.entryCount < fuel →
      foreachLoop flags fuel t it V = r →
      r.rc = none ∧ r.visits.Perm C0 ∧ (contents r.table).Perm (C0.filter (keepB flags)) := by
  intro fuel
  induction fuel with
  | zero => intro t it V r _ _ _ _ _ _ hm; omega
  | succ f ih =>
    intro t it V r hinv hl hs hel hV hK hm hr
    have b := hinv.1
    unfold foreachLoop at hr
    by_cases hd : it.slot = it.limit
    · have hdone : iterDone it = true := by unfold iterDone; simp [hd]
      rw [hdone] at hr
      simp only [if_true] at hr
      subst hr
      refine ⟨rfl, ?_, ?_⟩
      · rw [hd, seg_self] at hV
        simpa using hV
      · simp only
        rw [contents_eq, entries_eq_seg, b.sizeEq, seg_split t.slots (a := 0) (m := it.limit) (b := t.size) (by omega) hl]
        rw [hd] at hK
        have hV' : V.Perm C0 := by rw [hd, seg_self] at hV; simpa using hV
        exact hK.trans (hV'.filter _)
    · have hlt : it.slot < it.limit := by omega
      have hdone : iterDone it = false := by unfold iterDone; simp [hd]
      obtain ⟨e, hre, hele⟩ := hel hlt
      obtain ⟨hne, hcont⟩ := hfl e.key
      have hcw : it.slot + 1 < W64 := by have := b.sizeLt; omega
      rw [hdone, hele] at hr
      simp only [Bool.false_eq_true, if_false] at hr
      rw [if_neg (by rw [hne]; simp)] at hr
      have hsplit : seg t.slots it.slot it.limit = e :: seg t.slots (it.slot + 1) it.limit := seg_head_some _ hlt hre
      by_cases hdel : flags e.key &&& ITER_DELETE ≠ 0
      · rw [if_pos hdel] at hr
        obtain ⟨t', last, len, d1, d2, d3, d4, _, _, d7, d8, d9, d10, d11⟩ := removeEntry_full hinv hre
        rw [iterDelete_eq d1] at hr
        simp only at hr
        rw [if_neg hcont] at hr
        have hreg := delete_regions (n := t.size) (s := t.slots) (s' := t'.slots) (c := it.slot) (limit := it.limit)
          (last := last) (len := len) hlt hl d7 d8 d9 d10 d11
        simp only at hreg
        obtain ⟨g1, g2, g3, g4, g5⟩ := hreg
        generalize hlim : (if last < it.slot ∨ last ≥ it.limit then it.limit - 1 else it.limit) = limit' at hr g1 g2 g3 g4 g5
        -- the iterator after delete + next
        unfold iterNext getNext at hr
        simp only at hr
        rw [stepback (by omega)] at hr
        have hscan := getNextLoop_scan t'.slots
          { it with limit := limit', slot := (it.slot + W64 - 1) % W64, status := .deleteCalled }
          (limit' - it.slot + 1) it.slot g1 (by simp only; omega)
        simp only at hscan
        generalize hit2 : getNextLoop t'.slots
          { slot := (it.slot + W64 - 1) % W64, limit := limit', status := IterStatus.deleteCalled, elem := it.elem }
          (limit' - it.slot + 1) it.slot = it2 at hr hscan
        obtain ⟨s1, s2, s3, s4, s5⟩ := hscan
        have hempty : seg t'.slots it.slot it2.slot = [] := seg_empty s4
        refine ih t' it2 (V ++ [(e.key, e.val)]) r d2 (by rw [s1, d3]; omega) (by rw [s1]; exact s3)
          (by rw [s1]; exact s5) ?_ ?_ (by rw [s1]; omega) hr
        · rw [s1]
          have : seg t'.slots it2.slot limit' = seg t.slots (it.slot + 1) it.limit := by
            rw [← g4, seg_split t'.slots (a := it.slot) (m := it2.slot) (b := limit') s2 s3, hempty]; rfl
          rw [this]
          rw [hsplit] at hV
          simpa [kvOf] using hV
        · rw [s1, d3]
          have e1 : seg t'.slots 0 it2.slot = seg t'.slots 0 it.slot := by
            rw [seg_split t'.slots (a := 0) (m := it.slot) (b := it2.slot) (by omega) s2, hempty]; simp
          rw [e1]
          have hk : keepB flags (e.key, e.val) = false := by unfold keepB; simp [hdel]
          rw [List.filter_append]
          simp only [List.filter_cons, hk, List.filter_nil, List.append_nil, Bool.false_eq_true, if_false]
          exact (g5.map kvOf).trans hK
      · rw [if_neg hdel] at hr
        simp only at hr
        rw [if_neg hcont] at hr
        unfold iterNext getNext at hr
        rw [stepfwd hcw] at hr
        have hscan := getNextLoop_scan t.slots it (it.limit - (it.slot + 1) + 1) (it.slot + 1) (by omega) (by omega)
        generalize hit2 : getNextLoop t.slots it (it.limit - (it.slot + 1) + 1) (it.slot + 1) = it2 at hr hscan
        obtain ⟨s1, s2, s3, s4, s5⟩ := hscan
        have hempty : seg t.slots (it.slot + 1) it2.slot = [] := seg_empty s4
        refine ih t it2 (V ++ [(e.key, e.val)]) r hinv (by rw [s1]; exact hl) (by rw [s1]; exact s3)
          (by rw [s1]; exact s5) ?_ ?_ (by rw [s1]; omega) hr
        · rw [s1]
          have : seg t.slots (it.slot + 1) it.limit = seg t.slots it2.slot it.limit := by
            rw [seg_split t.slots (a := it.slot + 1) (m := it2.slot) (b := it.limit) s2 s3, hempty]; rfl
          rw [← this]
          rw [hsplit] at hV
          simpa [kvOf] using hV
        · rw [s1]
          have e1 : seg t.slots 0 it2.slot = seg t.slots 0 it.slot ++ [e] := by
            rw [seg_split t.slots (a := 0) (m := it.slot) (b := it2.slot) (by omega) (by omega),
                seg_split t.slots (a := it.slot) (m := it.slot + 1) (b := it2.slot) (by omega) s2,
                seg_one, hre, hempty]
            simp
          rw [e1]
          have hk : keepB flags (e.key, e.val) = true := by
            unfold keepB
            have : flags e.key &&& ITER_DELETE = 0 := by
              rcases Nat.eq_zero_or_pos (flags e.key &&& ITER_DELETE) with h0 | h0
              · exact h0
              · exact absurd (by omega) hdel
            simp [this]
          rw [List.filter_append]
          simp only [List.filter_cons, hk, List.filter_nil, if_true]
          -- (A ++ [e] ++ B).map ~ filter V ++ [kv e]
          have hK' := hK
          rw [List.map_append] at hK' ⊢
          rw [List.map_append]
          simp only [List.map_cons, List.map_nil]
          generalize List.map kvOf (seg t.slots 0 it.slot) = A at *
          generalize List.map kvOf (seg t.slots it.limit t.size) = B at *
          have p1 : (A ++ [kvOf e] ++ B).Perm (A ++ B ++ [kvOf e]) := by
            rw [List.append_assoc, List.append_assoc]
            exact List.Perm.append_left A List.perm_append_comm
          exact p1.trans (List.Perm.append_right _ hK')

end AwsVerif.Proofs.C02

namespace AwsVerif.Proofs.C02
open AwsVerif.HashTable

/-- a full `foreach` pass with a callback that never stops and never fails -/
theorem foreach_once {h : Nat → Nat} {t : Table} (hinv : Inv h t) (flags : Key → Nat)
    (hfl : ∀ k, flags k &&& ITER_ERROR = 0 ∧ flags k &&& ITER_CONTINUE ≠ 0) :
    (foreach t flags).rc = none ∧ (foreach t flags).visits.Perm (contents t) ∧
    (contents (foreach t flags).table).Perm ((contents t).filter (keepB flags)) := by
  have b := hinv.1
  unfold foreach iterBegin getNext
  have hscan := getNextLoop_scan t.slots { slot := 0, limit := t.size, status := .done, elem := none }
    (t.size - 0 + 1) 0 (Nat.zero_le _) (by simp only; omega)
  simp only at hscan
  generalize hit : getNextLoop t.slots { slot := 0, limit := t.size, status := IterStatus.done, elem := none }
    (t.size - 0 + 1) 0 = it at hscan
  obtain ⟨s1, s2, s3, s4, s5⟩ := hscan
  have hempty : seg t.slots 0 it.slot = [] := seg_empty s4
  have hcnt : t.entryCount < t.size := Nat.lt_of_le_of_lt b.load b.maxLt
  refine foreachLoop_once flags hfl (contents t) (2 * t.size + 1) t it [] _ hinv (by rw [s1]; exact Nat.le_refl _)
    (by rw [s1]; exact s3) (by rw [s1]; exact s5) ?_ ?_ (by rw [s1]; omega) rfl
  · rw [s1, List.nil_append, contents_eq, entries_eq_seg, b.sizeEq,
        seg_split t.slots (a := 0) (m := it.slot) (b := t.size) (Nat.zero_le _) s3, hempty]
    exact List.Perm.refl _
  · rw [s1, hempty, seg_self]
    exact List.Perm.refl _

end AwsVerif.Proofs.C02
