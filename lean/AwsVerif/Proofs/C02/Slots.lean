import AwsVerif.Proofs.C02.Arith
/-! `rd` / `wr` on the slot array and the list of entries (`entries`) up to permutation. -/
namespace AwsVerif.Proofs.C02
open AwsVerif.HashTable

theorem rd_eq (s : Slots) (i : Nat) : rd s i = (s[i]?).getD none := by
  unfold rd; exact Array.getD_eq_getD_getElem?

@[simp] theorem size_wr (s : Slots) (i : Nat) (v : Option Entry) : (wr s i v).size = s.size := by
  unfold wr; exact Array.size_setIfInBounds

theorem rd_wr (s : Slots) (i j : Nat) (v : Option Entry) :
    rd (wr s i v) j = if i = j ∧ i < s.size then v else rd s j := by
  rw [rd_eq, rd_eq]; unfold wr
  rw [Array.getElem?_setIfInBounds]
  by_cases h : i = j
  · subst h
    by_cases h2 : i < s.size
    · simp [h2]
    · simp [h2]
  · simp [h]

theorem rd_wr_same {s : Slots} {i : Nat} {v : Option Entry} (h : i < s.size) : rd (wr s i v) i = v := by
  rw [rd_wr]; simp [h]

theorem rd_wr_ne {s : Slots} {i j : Nat} {v : Option Entry} (h : i ≠ j) : rd (wr s i v) j = rd s j := by
  rw [rd_wr]; simp [h]

theorem rd_oob {s : Slots} {i : Nat} (h : s.size ≤ i) : rd s i = none := by
  rw [rd_eq]; simp [Array.getElem?_eq_none h]

theorem slots_ext {a b : Slots} (hs : a.size = b.size) (h : ∀ i, i < a.size → rd a i = rd b i) : a = b := by
  apply Array.ext hs
  intro i h1 h2
  have := h i h1
  rw [rd_eq, rd_eq] at this
  simpa [Array.getElem?_eq_getElem h1, Array.getElem?_eq_getElem h2] using this

theorem wr_wr_same (s : Slots) (i : Nat) (a b : Option Entry) : wr (wr s i a) i b = wr s i b := by
  apply slots_ext (by simp)
  intro j _
  rw [rd_wr, rd_wr, rd_wr]
  simp only [size_wr]
  by_cases h : i = j ∧ i < s.size
  · obtain ⟨h1, h2⟩ := h
    subst h1; simp [h2]
  · simp [h]

theorem wr_comm (s : Slots) {i j : Nat} (a b : Option Entry) (h : i ≠ j) :
    wr (wr s i a) j b = wr (wr s j b) i a := by
  apply slots_ext (by simp)
  intro x _
  simp only [rd_wr, size_wr]
  by_cases h1 : j = x <;> by_cases h2 : i = x <;> simp [h1, h2] <;> omega

theorem wr_rd_self (s : Slots) (i : Nat) : wr s i (rd s i) = s := by
  apply slots_ext (by simp)
  intro j _
  rw [rd_wr]
  by_cases h : i = j ∧ i < s.size
  · obtain ⟨h1, _⟩ := h
    subst h1; simp
  · simp [h]

/-! ### entries -/

def ents (l : List (Option Entry)) : List Entry := l.filterMap id

theorem entries_eq (s : Slots) : entries s = ents s.toList := rfl

theorem wr_toList (s : Slots) (i : Nat) (v : Option Entry) (h : i < s.size) :
    (wr s i v).toList = s.toList.take i ++ v :: s.toList.drop (i + 1) := by
  unfold wr
  rw [Array.toList_setIfInBounds, List.set_eq_take_append_cons_drop]
  simp [h]

theorem toList_split (s : Slots) (i : Nat) (h : i < s.size) :
    s.toList = s.toList.take i ++ rd s i :: s.toList.drop (i + 1) := by
  have := wr_toList s i (rd s i) h
  rw [wr_rd_self] at this
  exact this

theorem ents_append (a b : List (Option Entry)) : ents (a ++ b) = ents a ++ ents b := List.filterMap_append

theorem entries_wr_some (s : Slots) (i : Nat) (e : Entry) (h : i < s.size) :
    (entries (wr s i (some e))).Perm (e :: entries (wr s i none)) := by
  rw [entries_eq, entries_eq, wr_toList _ _ _ h, wr_toList _ _ _ h, ents_append, ents_append]
  simp only [ents, List.filterMap_cons, id]
  exact List.perm_middle

theorem entries_of_rd_some (s : Slots) (i : Nat) (e : Entry) (hr : rd s i = some e) :
    (entries s).Perm (e :: entries (wr s i none)) := by
  have h : i < s.size := by
    rcases Nat.lt_or_ge i s.size with h | h
    · exact h
    · rw [rd_oob h] at hr; cases hr
  have := entries_wr_some s i e h
  rw [← hr, wr_rd_self] at this
  exact this

theorem wr_none_of_rd_none (s : Slots) (i : Nat) (hr : rd s i = none) : wr s i none = s := by
  rw [← hr, wr_rd_self]

theorem mem_entries {s : Slots} {e : Entry} : e ∈ entries s ↔ ∃ i, i < s.size ∧ rd s i = some e := by
  rw [entries_eq]; unfold ents
  rw [List.mem_filterMap]
  constructor
  · rintro ⟨o, ho, hid⟩
    simp only [id] at hid
    subst hid
    rw [Array.mem_toList_iff, Array.mem_iff_getElem] at ho
    obtain ⟨i, hi, he⟩ := ho
    exact ⟨i, hi, by rw [rd_eq]; simp [Array.getElem?_eq_getElem hi, he]⟩
  · rintro ⟨i, hi, hr⟩
    refine ⟨some e, ?_, rfl⟩
    rw [Array.mem_toList_iff, Array.mem_iff_getElem]
    refine ⟨i, hi, ?_⟩
    rw [rd_eq] at hr
    simpa [Array.getElem?_eq_getElem hi] using hr

theorem ents_replicate_none (n : Nat) : ents (List.replicate n none) = [] := by
  induction n with
  | zero => rfl
  | succ n ih => simp [List.replicate_succ, ents] at *; 

theorem entries_replicate (n : Nat) : entries (Array.replicate n none) = [] := by
  rw [entries_eq, Array.toList_replicate]; exact ents_replicate_none n

theorem rd_replicate (n i : Nat) : rd (Array.replicate n (none : Option Entry)) i = none := by
  rw [rd_eq]
  by_cases h : i < n
  · simp [h]
  · simp [h]

/-- fewer entries than slots: some slot is empty -/
theorem ents_length_le (l : List (Option Entry)) : (ents l).length ≤ l.length := List.length_filterMap_le _ _

theorem exists_none_of_ents_lt (l : List (Option Entry)) (h : (ents l).length < l.length) : none ∈ l := by
  induction l with
  | nil => simp at h
  | cons a l ih =>
    cases a with
    | none => simp
    | some e =>
      simp only [ents, List.filterMap_cons, id, List.length_cons] at h
      have := ih (by unfold ents; omega)
      simp [this]

theorem exists_empty_slot (s : Slots) (h : (entries s).length < s.size) : ∃ z, z < s.size ∧ rd s z = none := by
  have := exists_none_of_ents_lt s.toList (by rw [← entries_eq]; simpa using h)
  rw [Array.mem_toList_iff, Array.mem_iff_getElem] at this
  obtain ⟨i, hi, he⟩ := this
  exact ⟨i, hi, by rw [rd_eq]; simp [Array.getElem?_eq_getElem hi, he]⟩

end AwsVerif.Proofs.C02
