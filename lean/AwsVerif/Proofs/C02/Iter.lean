import AwsVerif.Proofs.C02.Ops
/-! Iterators and `aws_hash_table_foreach`: deletion through an iterator that is ready for use, and
any `foreach` (any callback flag function), keep the invariant. -/
namespace AwsVerif.Proofs.C02
open AwsVerif.HashTable

/-- what `s_get_next_element` establishes: the iterator is done (`slot = limit`), or it points at an
occupied slot whose element it carries -/
def GoodIter (t : Table) (it : Iter) : Prop :=
  it.slot = it.limit ∨ (∃ e, rd t.slots it.slot = some e ∧ it.elem = some (e.key, e.val) ∧ it.status = .ready)

theorem getNextLoop_good (t : Table) (it : Iter) : ∀ fuel i, GoodIter t (getNextLoop t.slots it fuel i) := by
  intro fuel
  induction fuel with
  | zero => intro i; exact Or.inl rfl
  | succ f ih =>
    intro i
    unfold getNextLoop
    split
    · cases hr : rd t.slots i with
      | none => simp only; exact ih _
      | some e => simp only; exact Or.inr ⟨e, hr, rfl, rfl⟩
    · exact Or.inl rfl

theorem getNext_good (t : Table) (it : Iter) (start : Nat) : GoodIter t (getNext t it start) :=
  getNextLoop_good t it _ _

theorem iterBegin_good (t : Table) : GoodIter t (iterBegin t) := getNext_good _ _ _
theorem iterNext_good (t : Table) (it : Iter) : GoodIter t (iterNext t it) := getNext_good _ _ _

/-- `aws_hash_iter_delete` on an iterator that is not done -/
theorem iterDelete_spec {h : Nat → Nat} {t : Table} (hinv : Inv h t) {it : Iter} (hg : GoodIter t it)
    (hnd : iterDone it = false) (destroy : Bool) :
    ∃ t' it' log e, iterDelete t it destroy = some (t', it', log) ∧ Inv h t' ∧
      rd t.slots it.slot = some e ∧ it.elem = some (e.key, e.val) ∧
      (entries t.slots).Perm (e :: entries t'.slots) ∧ t'.dk = t.dk ∧ t'.dv = t.dv ∧
      log = (if destroy then destroyLog t e.key e.val else []) := by
  rcases hg with hg | ⟨e, hr, hel, _⟩
  · unfold iterDone at hnd; simp [hg] at hnd
  · obtain ⟨t', last, r1, r2, r3, r4, r5, _, _⟩ := removeEntry_spec hinv hr
    unfold iterDelete
    rw [r1]
    simp only
    refine ⟨_, _, _, e, rfl, r2, hr, hel, r3, r4, r5, ?_⟩
    rw [hel]
    cases destroy <;> rfl

theorem foreachLoop_inv {h : Nat → Nat} (flags : Key → Nat) :
    ∀ fuel t it vis r, Inv h t → GoodIter t it → foreachLoop flags fuel t it vis = r →
      Inv h r.table ∧ r.table.dk = t.dk ∧ r.table.dv = t.dv := by
  intro fuel
  induction fuel with
  | zero => intro t it vis r hinv _ hr; subst hr; exact ⟨hinv, rfl, rfl⟩
  | succ f ih =>
    intro t it vis r hinv hg hr
    unfold foreachLoop at hr
    cases hd : iterDone it with
    | true => rw [hd] at hr; simp only [if_true] at hr; subst hr; exact ⟨hinv, rfl, rfl⟩
    | false =>
      rw [hd] at hr
      simp only [Bool.false_eq_true, if_false] at hr
      cases hel : it.elem with
      | none => rw [hel] at hr; subst hr; exact ⟨hinv, rfl, rfl⟩
      | some kv =>
        obtain ⟨k, v⟩ := kv
        rw [hel] at hr
        simp only at hr
        split at hr
        · subst hr; exact ⟨hinv, rfl, rfl⟩
        · by_cases hdel : flags k &&& ITER_DELETE ≠ 0
          · rw [if_pos hdel] at hr
            obtain ⟨t', it', log, e, d1, d2, _, _, _, d6, d7, _⟩ := iterDelete_spec hinv hg hd false
            rw [d1] at hr
            simp only at hr
            split at hr
            · subst hr; exact ⟨d2, d6, d7⟩
            · obtain ⟨i1, i2, i3⟩ := ih t' (iterNext t' it') (vis ++ [(k, v)]) r d2 (iterNext_good _ _) hr
              exact ⟨i1, by rw [i2, d6], by rw [i3, d7]⟩
          · rw [if_neg hdel] at hr
            simp only at hr
            split at hr
            · subst hr; exact ⟨hinv, rfl, rfl⟩
            · exact ih t (iterNext t it) (vis ++ [(k, v)]) r hinv (iterNext_good _ _) hr

theorem foreach_inv {h : Nat → Nat} {t : Table} (hinv : Inv h t) (flags : Key → Nat) :
    Inv h (foreach t flags).table ∧ (foreach t flags).table.dk = t.dk ∧ (foreach t flags).table.dv = t.dv :=
  foreachLoop_inv flags _ t _ _ _ hinv (iterBegin_good t) rfl

end AwsVerif.Proofs.C02
