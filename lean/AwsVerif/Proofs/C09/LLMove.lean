import AwsVerif.Proofs.C09.LLList
/-! `move_all_back / move_all_front`: the source's nodes are spliced into the destination between
two adjacent chain members; the source becomes empty. -/
set_option linter.unusedSimpArgs false
namespace AwsVerif.Proofs.C09
open AwsVerif.LinkedList

theorem wl_empty {h' : Heap} {l : LL} (hne : l.head ≠ l.tail) (h1 : (h' l.head).next = some l.tail)
    (h2 : (h' l.tail).prev = some l.head) (h3 : (h' l.head).prev = none) (h4 : (h' l.tail).next = none) :
    WellLinked h' l [] :=
  ⟨⟨⟨h1, h2⟩, trivial⟩, by simp [hne], h3, h4⟩

theorem wl_empty_iff {h : Heap} {l : LL} {xs : List NodeId} (w : WellLinked h l xs) : empty h l = true ↔ xs = [] := by
  unfold empty
  cases xs with
  | nil => simp [w.ch.1.1]
  | cons x xs =>
    have : (h l.head).next = some x := w.ch.1.1
    have hx : x ≠ l.tail := fun c => wl_tail_notin w (by rw [← c]; simp)
    simp [this, hx]

/-- the heap after splicing `sf … sb` (the source's nodes) between `p` and `q` and resetting the
source sentinels `Hs`, `Ts` -/
structure SpliceSpec (h h' : Heap) (p q sf sb Hs Ts : NodeId) : Prop where
  next : ∀ m, (h' m).next = if m = Hs then some Ts else if m = sb then some q else if m = p then some sf else (h m).next
  prev : ∀ m, (h' m).prev = if m = Ts then some Hs else if m = q then some sb else if m = sf then some p else (h m).prev

theorem ch_splice {h h' : Heap} {c1 c2 ysT ysI : List NodeId} {p q sf sb Hs Ts : NodeId}
    (hd : Ch h (c1 ++ p :: q :: c2)) (hsrc : Ch h (Hs :: (sf :: ysT) ++ [Ts])) (eys : sf :: ysT = ysI ++ [sb])
    (hndd : (c1 ++ p :: q :: c2).Nodup) (hnds : (Hs :: (sf :: ysT) ++ [Ts]).Nodup)
    (hdis : ∀ m, m ∈ c1 ++ p :: q :: c2 → ∀ s, s ∈ Hs :: (sf :: ysT) ++ [Ts] → m ≠ s)
    (hs : SpliceSpec h h' p q sf sb Hs Ts) :
    Ch h' (c1 ++ p :: ((sf :: ysT) ++ q :: c2)) ∧ Ch h' [Hs, Ts] := by
  obtain ⟨hA, hB⟩ := (ch_append c1 p (q :: c2)).mp hd
  have hC : Ch h (q :: c2) := hB.2
  have hys : Ch h (sf :: ysT) := by
    have e : Hs :: (sf :: ysT) ++ [Ts] = (Hs :: ysI) ++ sb :: [Ts] := by rw [eys]; simp
    rw [e] at hsrc
    have := ((ch_append (Hs :: ysI) sb [Ts]).mp hsrc).1
    rw [eys]; exact ch_tail (by simpa using this)
  -- distinctness inside the destination chain
  obtain ⟨d1, d2, d3⟩ := nodup_split hndd
  -- distinctness inside the source chain
  have hnds0 : ([] ++ Hs :: sf :: (ysT ++ [Ts])).Nodup := by simpa using hnds
  have s1 : ∀ m, m ∈ ysT ++ [Ts] → m ≠ Hs ∧ m ≠ sf := (nodup_split hnds0).2.2
  have e2 : Hs :: (sf :: ysT) ++ [Ts] = (Hs :: ysI) ++ sb :: Ts :: [] := by rw [eys]; simp
  have hnds2 := hnds
  rw [e2] at hnds2
  obtain ⟨t1, hsbT, _⟩ := nodup_split hnds2
  have hHnot : Hs ∉ ysI := by
    have := hnds2
    simp only [List.cons_append, List.nodup_cons, List.mem_append, not_or] at this
    exact this.1.1
  -- membership helpers
  have hsbmem : sb ∈ Hs :: (sf :: ysT) ++ [Ts] := by rw [e2]; simp
  have inI : ∀ m, m ∈ ysI → m ∈ Hs :: (sf :: ysT) ++ [Ts] := fun m hm => by rw [e2]; simp [hm]
  have inT : ∀ m, m ∈ ysT → m ∈ Hs :: (sf :: ysT) ++ [Ts] := fun m hm => by simp [hm]
  have sfT : sf ≠ Ts := by
    have : sf ∈ ysI ++ [sb] := by rw [← eys]; simp
    rcases List.mem_append.mp this with c | c
    · exact (t1 sf (by simp [c])).2
    · simp only [List.mem_singleton] at c; rw [c]; exact hsbT
  have T_of_ysT : ∀ m, m ∈ ysT → m ≠ Ts := by
    intro m hm
    have : m ∈ ysI ++ [sb] := by rw [← eys]; simp [hm]
    rcases List.mem_append.mp this with c | c
    · exact (t1 m (by simp [c])).2
    · simp only [List.mem_singleton] at c; rw [c]; exact hsbT
  have nx : ∀ m, m ≠ Hs → m ≠ sb → m ≠ p → (h' m).next = (h m).next := fun m a b c => by
    rw [hs.next m, if_neg a, if_neg b, if_neg c]
  have pv : ∀ m, m ≠ Ts → m ≠ q → m ≠ sf → (h' m).prev = (h m).prev := fun m a b c => by
    rw [hs.prev m, if_neg a, if_neg b, if_neg c]
  have X : ∀ m, m ∈ c1 ++ p :: q :: c2 → (m ≠ Hs ∧ m ≠ sb ∧ m ≠ Ts ∧ m ≠ sf) := fun m hm =>
    ⟨hdis m hm Hs (by simp), hdis m hm sb hsbmem, hdis m hm Ts (by simp), hdis m hm sf (by simp)⟩
  constructor
  · refine (ch_append c1 p _).mpr ⟨?_, ⟨?_, ?_⟩, ?_⟩
    · refine ch_frame hA (fun m hm => ?_) (fun m hm => ?_)
      · rw [List.dropLast_concat] at hm
        have := X m (by simp [hm])
        exact nx m this.1 this.2.1 (d1 m hm).1
      · have hm' := List.mem_of_mem_tail hm
        rcases List.mem_append.mp hm' with c | c
        · have := X m (by simp [c])
          exact pv m this.2.2.1 (d1 m c).2 this.2.2.2
        · simp only [List.mem_singleton] at c; subst c
          have := X m (by simp)
          exact pv m this.2.2.1 d2 this.2.2.2
    · have := X p (by simp)
      rw [hs.next p, if_neg this.1, if_neg this.2.1, if_pos rfl]
    · have := X q (by simp)
      rw [hs.prev sf, if_neg sfT, if_neg (Ne.symm this.2.2.2), if_pos rfl]
    · show Ch h' ((sf :: ysT) ++ q :: c2)
      rw [eys, List.append_assoc]
      refine (ch_append ysI sb (q :: c2)).mpr ⟨?_, ⟨?_, ?_⟩, ?_⟩
      · rw [← eys]
        refine ch_frame hys (fun m hm => ?_) (fun m hm => ?_)
        · rw [eys, List.dropLast_concat] at hm
          refine nx m (fun c => hHnot (c ▸ hm)) (t1 m (by simp [hm])).1 ?_
          exact Ne.symm (hdis p (by simp) m (inI m hm))
        · simp only [List.tail_cons] at hm
          refine pv m (T_of_ysT m hm) ?_ (s1 m (by simp [hm])).2
          exact Ne.symm (hdis q (by simp) m (inT m hm))
      · rw [hs.next sb, if_neg (t1 Hs (by simp)).1.symm, if_pos rfl]
      · have := X q (by simp)
        rw [hs.prev q, if_neg this.2.2.1, if_pos rfl]
      · refine ch_frame hC (fun m hm => ?_) (fun m hm => ?_)
        · have hm' := List.dropLast_subset _ hm
          have hmem : m ∈ c1 ++ p :: q :: c2 := by
            rcases List.mem_cons.mp hm' with c | c
            · simp [c]
            · simp [c]
          have := X m hmem
          refine nx m this.1 this.2.1 ?_
          rcases List.mem_cons.mp hm' with c | c
          · rw [c]; exact Ne.symm d2
          · exact (d3 m c).1
        · simp only [List.tail_cons] at hm
          have := X m (by simp [hm])
          exact pv m this.2.2.1 (d3 m hm).2 this.2.2.2
  · exact ⟨⟨by rw [hs.next Hs, if_pos rfl], by rw [hs.prev Ts, if_pos rfl]⟩, trivial⟩


theorem mem_chain_of_mem {l : LL} {xs : List NodeId} {m : NodeId} (h : m ∈ xs) : m ∈ chainOf l xs :=
  List.mem_cons_of_mem _ (List.mem_append_left _ h)

theorem nodup_splice {c1 c2 ys : List NodeId} {p q : NodeId} (hnd : (c1 ++ p :: q :: c2).Nodup) (hys : ys.Nodup)
    (hdis : ∀ m, m ∈ c1 ++ p :: q :: c2 → m ∉ ys) : (c1 ++ p :: (ys ++ q :: c2)).Nodup := by
  have e : c1 ++ p :: (ys ++ q :: c2) = (c1 ++ [p]) ++ (ys ++ q :: c2) := by simp
  have pm : ((c1 ++ [p]) ++ (ys ++ q :: c2)).Perm ((c1 ++ [p]) ++ (q :: c2 ++ ys)) :=
    List.Perm.append_left _ List.perm_append_comm
  rw [e, pm.nodup_iff, ← List.append_assoc]
  have e2 : c1 ++ [p] ++ q :: c2 = c1 ++ p :: q :: c2 := by simp
  rw [e2, List.nodup_append]
  exact ⟨hnd, hys, fun a ha b hb c => hdis a ha (c ▸ hb)⟩

/-- splice of the whole source list into the destination, at the edge `p → q` of the destination -/
theorem wl_splice {h h' : Heap} {d s : LL} {xs xs' c1 c2 ysT ysI : List NodeId} {p q sf sb : NodeId}
    (wd : WellLinked h d xs) (ws : WellLinked h s (sf :: ysT)) (eys : sf :: ysT = ysI ++ [sb])
    (hdis : ∀ m, m ∈ chainOf d xs → m ∉ chainOf s (sf :: ysT))
    (e : chainOf d xs = c1 ++ p :: q :: c2) (e' : chainOf d xs' = c1 ++ p :: ((sf :: ysT) ++ q :: c2))
    (hhq : d.head ≠ q) (htp : d.tail ≠ p) (hs : SpliceSpec h h' p q sf sb s.head s.tail) :
    WellLinked h' d xs' ∧ WellLinked h' s [] ∧
      ∀ m, m ∉ chainOf d xs → m ∉ chainOf s (sf :: ysT) → h' m = h m := by
  have hcd := wd.ch; have hndd := wd.nodup
  rw [show d.head :: xs ++ [d.tail] = chainOf d xs from rfl, e] at hcd hndd
  have hdis' : ∀ m, m ∈ c1 ++ p :: q :: c2 → ∀ t, t ∈ s.head :: (sf :: ysT) ++ [s.tail] → m ≠ t := by
    intro m hm t ht c
    exact hdis m (by rw [e]; exact hm) (c ▸ ht)
  obtain ⟨k1, k2⟩ := ch_splice hcd ws.ch eys hndd ws.nodup hdis' hs
  have hsb : sb ∈ chainOf s (sf :: ysT) := mem_chain_of_mem (by rw [eys]; simp)
  have hsf : sf ∈ chainOf s (sf :: ysT) := by simp [chainOf]
  have hHs : s.head ∈ chainOf s (sf :: ysT) := by simp [chainOf]
  have hTs : s.tail ∈ chainOf s (sf :: ysT) := by simp [chainOf]
  have dh : d.head ∈ chainOf d xs := by simp [chainOf]
  have dt : d.tail ∈ chainOf d xs := by simp [chainOf]
  have ne_of : ∀ {m t}, m ∈ chainOf d xs → t ∈ chainOf s (sf :: ysT) → m ≠ t :=
    fun hm ht c => hdis _ hm (c ▸ ht)
  have hysnd : (sf :: ysT).Nodup := by
    have := (List.nodup_cons.mp ws.nodup).2
    exact (List.nodup_append.mp this).1
  refine ⟨⟨by rw [show d.head :: xs' ++ [d.tail] = chainOf d xs' from rfl, e']; exact k1, ?_, ?_, ?_⟩,
    wl_empty (wl_head_ne_tail ws) ?_ ?_ ?_ ?_, ?_⟩
  · rw [show d.head :: xs' ++ [d.tail] = chainOf d xs' from rfl, e']
    refine nodup_splice hndd hysnd (fun m hm c => ?_)
    exact hdis m (by rw [e]; exact hm) (mem_chain_of_mem c)
  · rw [hs.prev, if_neg (ne_of dh hTs), if_neg hhq, if_neg (ne_of dh hsf)]; exact wd.headPrev
  · rw [hs.next, if_neg (ne_of dt hHs), if_neg (ne_of dt hsb), if_neg htp]; exact wd.tailNext
  · rw [hs.next, if_pos rfl]
  · rw [hs.prev, if_pos rfl]
  · have hq : q ∈ chainOf d xs := by rw [e]; simp
    rw [hs.prev, if_neg (wl_head_ne_tail ws), if_neg (Ne.symm (ne_of hq hHs)),
      if_neg (fun c => wl_head_notin ws (by rw [c]; simp))]
    exact ws.headPrev
  · have hp : p ∈ chainOf d xs := by rw [e]; simp
    have hsbT : s.tail ≠ sb := by
      intro c; apply wl_tail_notin ws; rw [c, eys]; simp
    rw [hs.next, if_neg (Ne.symm (wl_head_ne_tail ws)), if_neg hsbT, if_neg (Ne.symm (ne_of hp hTs))]
    exact ws.tailNext
  · intro m hm1 hm2
    have a1 : m ≠ s.head := fun c => hm2 (c ▸ hHs)
    have a2 : m ≠ sb := fun c => hm2 (c ▸ hsb)
    have a3 : m ≠ p := fun c => hm1 (by rw [e, c]; simp)
    have a4 : m ≠ s.tail := fun c => hm2 (c ▸ hTs)
    have a5 : m ≠ q := fun c => hm1 (by rw [e, c]; simp)
    have a6 : m ≠ sf := fun c => hm2 (c ▸ hsf)
    exact node_ext (by rw [hs.next, if_neg a1, if_neg a2, if_neg a3]) (by rw [hs.prev, if_neg a4, if_neg a5, if_neg a6])

theorem ll_moveAllBack {h : Heap} {d s : LL} {xs ys : List NodeId} (wd : WellLinked h d xs) (ws : WellLinked h s ys)
    (hdis : ∀ m, m ∈ chainOf d xs → m ∉ chainOf s ys) :
    ∃ h', moveAllBack h d s = some h' ∧ WellLinked h' d (xs ++ ys) ∧ WellLinked h' s [] ∧
      ∀ m, m ∉ chainOf d xs → m ∉ chainOf s ys → h' m = h m := by
  cases ys with
  | nil =>
    refine ⟨h, ?_, by simpa using wd, ws, fun _ _ _ => rfl⟩
    simp only [moveAllBack, (wl_empty_iff ws).mpr rfl, if_true]
  | cons sf ysT =>
    obtain ⟨ysI, sb, eys⟩ := snoc_exists sf ysT
    obtain ⟨c1, p, ec⟩ := snoc_exists d.head xs
    have hne : ¬ (empty h s = true) := fun c => by have := (wl_empty_iff ws).mp c; cases this
    have e : chainOf d xs = c1 ++ p :: d.tail :: [] := by simp only [chainOf]; rw [ec]; simp
    have e' : chainOf d (xs ++ sf :: ysT) = c1 ++ p :: ((sf :: ysT) ++ d.tail :: []) := by
      simp only [chainOf]; rw [← List.cons_append, ec]; simp
    have l1 : Link h p d.tail := link_of_ch (by rw [← e]; exact wd.ch)
    have l2 : (h s.head).next = some sf := ws.ch.1.1
    have l3 : (h s.tail).prev = some sb := by
      have e3 : chainOf s (sf :: ysT) = (s.head :: ysI) ++ sb :: s.tail :: [] := by
        simp only [chainOf]; rw [eys]; simp
      exact (link_of_ch (h := h) (by rw [← e3]; exact ws.ch)).2
    have hp : p ∈ d.head :: xs := by rw [ec]; simp
    have htp : d.tail ≠ p := by
      intro c; rw [← c] at hp
      rcases List.mem_cons.mp hp with k | k
      · exact wl_head_ne_tail wd k.symm
      · exact wl_tail_notin wd k
    refine ⟨_, (by simp only [moveAllBack, if_neg hne, l1.2, l2, l3]; rfl), ?_⟩
    refine wl_splice wd ws eys hdis e e' (wl_head_ne_tail wd) htp ⟨fun m => ?_, fun m => ?_⟩
    · simp
    · simp

theorem ll_moveAllFront {h : Heap} {d s : LL} {xs ys : List NodeId} (wd : WellLinked h d xs) (ws : WellLinked h s ys)
    (hdis : ∀ m, m ∈ chainOf d xs → m ∉ chainOf s ys) :
    ∃ h', moveAllFront h d s = some h' ∧ WellLinked h' d (ys ++ xs) ∧ WellLinked h' s [] ∧
      ∀ m, m ∉ chainOf d xs → m ∉ chainOf s ys → h' m = h m := by
  cases ys with
  | nil =>
    refine ⟨h, ?_, by simpa using wd, ws, fun _ _ _ => rfl⟩
    simp only [moveAllFront, (wl_empty_iff ws).mpr rfl, if_true]
  | cons sf ysT =>
    obtain ⟨ysI, sb, eys⟩ := snoc_exists sf ysT
    obtain ⟨q, c2, ec⟩ := cons_exists xs d.tail
    have hne : ¬ (empty h s = true) := fun c => by have := (wl_empty_iff ws).mp c; cases this
    have e : chainOf d xs = [] ++ d.head :: q :: c2 := by simp only [chainOf, List.cons_append, ec, List.nil_append]
    have e' : chainOf d ((sf :: ysT) ++ xs) = [] ++ d.head :: ((sf :: ysT) ++ q :: c2) := by
      simp only [chainOf, List.cons_append, List.append_assoc, ec, List.nil_append]
    have l1 : Link h d.head q := link_of_ch (c1 := []) (by rw [← e]; exact wd.ch)
    have l2 : (h s.head).next = some sf := ws.ch.1.1
    have l3 : (h s.tail).prev = some sb := by
      have e3 : chainOf s (sf :: ysT) = (s.head :: ysI) ++ sb :: s.tail :: [] := by
        simp only [chainOf]; rw [eys]; simp
      exact (link_of_ch (h := h) (by rw [← e3]; exact ws.ch)).2
    have hq : q ∈ xs ++ [d.tail] := by rw [ec]; simp
    have hhq : d.head ≠ q := by
      intro c; rw [← c] at hq
      rcases List.mem_append.mp hq with k | k
      · exact wl_head_notin wd k
      · simp only [List.mem_singleton] at k; exact wl_head_ne_tail wd k
    refine ⟨_, (by simp only [moveAllFront, if_neg hne, l1.1, l2, l3]; rfl), ?_⟩
    refine wl_splice wd ws eys hdis e e' hhq (Ne.symm (wl_head_ne_tail wd)) ⟨fun m => ?_, fun m => ?_⟩
    · simp
    · simp

end AwsVerif.Proofs.C09
