import AwsVerif.Proofs.C09.LLSwapC
import AwsVerif.Proofs.C09.LLSwap
/-! `init` and the observers (`empty`, `front/begin`, `back/rbegin`, `next`, `prev`). -/
set_option linter.unusedSimpArgs false
namespace AwsVerif.Proofs.C09
open AwsVerif.LinkedList

theorem ll_init {h : Heap} {l : LL} (hne : l.head ≠ l.tail) :
    WellLinked (init h l) l [] ∧ ∀ m, m ≠ l.head → m ≠ l.tail → init h l m = h m := by
  have hne' := Ne.symm hne
  refine ⟨wl_empty hne ?_ ?_ ?_ ?_, fun m k1 k2 => node_ext ?_ ?_⟩
  all_goals field_tac

theorem ll_front {h : Heap} {l : LL} {xs : List NodeId} (w : WellLinked h l xs) :
    begin_ h l = (xs ++ [l.tail]).head? := by
  obtain ⟨f, c2, ec⟩ := cons_exists xs l.tail
  have e : chainOf l xs = [] ++ l.head :: f :: c2 := by simp only [chainOf, List.cons_append, ec, List.nil_append]
  have hl : Link h l.head f := link_of_ch (c1 := []) (by rw [← e]; exact w.ch)
  rw [ec]; exact hl.1

theorem ll_back {h : Heap} {l : LL} {xs : List NodeId} (w : WellLinked h l xs) :
    rbegin h l = (l.head :: xs).getLast? := by
  obtain ⟨c1, p, ec⟩ := snoc_exists l.head xs
  have e : chainOf l xs = c1 ++ p :: l.tail :: [] := by simp only [chainOf]; rw [ec]; simp
  have hl : Link h p l.tail := link_of_ch (by rw [← e]; exact w.ch)
  rw [ec, List.getLast?_concat]; exact hl.2

theorem ll_next {h : Heap} {l : LL} {ys zs : List NodeId} {x : NodeId} (w : WellLinked h l (ys ++ x :: zs)) :
    next h x = (zs ++ [l.tail]).head? := by
  obtain ⟨q, c2, ec2⟩ := cons_exists zs l.tail
  have e : chainOf l (ys ++ x :: zs) = (l.head :: ys) ++ x :: q :: c2 := by
    simp only [chainOf, List.cons_append, List.append_assoc, ec2]
  have hl : Link h x q := link_of_ch (by rw [← e]; exact w.ch)
  rw [ec2]; exact hl.1

theorem ll_prev {h : Heap} {l : LL} {ys zs : List NodeId} {x : NodeId} (w : WellLinked h l (ys ++ x :: zs)) :
    prev h x = (l.head :: ys).getLast? := by
  obtain ⟨c1, p, ec⟩ := snoc_exists l.head ys
  have e : chainOf l (ys ++ x :: zs) = c1 ++ p :: x :: (zs ++ [l.tail]) := by
    simp only [chainOf]; rw [← List.cons_append, ec]; simp
  have hl : Link h p x := link_of_ch (by rw [← e]; exact w.ch)
  rw [ec, List.getLast?_concat]; exact hl.2

end AwsVerif.Proofs.C09
