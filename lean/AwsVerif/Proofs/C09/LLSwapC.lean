import AwsVerif.Proofs.C09.LLMove
/-! `swap_contents(a, b)` including empty lists. -/
set_option linter.unusedSimpArgs false
namespace AwsVerif.Proofs.C09
open AwsVerif.LinkedList

/-- the four stores that make list `l` hold the chain whose first / last nodes are `f` / `b` -/
def adoptStep (h : Heap) (l : LL) (f b : NodeId) : Heap :=
  setNext (setPrev (setPrev (setNext h l.head (some f)) f (some l.head)) l.tail (some b)) b (some l.tail)

theorem adopt_next (h : Heap) (l : LL) (f b m : NodeId) :
    (adoptStep h l f b m).next = if m = b then some l.tail else if m = l.head then some f else (h m).next := by
  simp [adoptStep]
theorem adopt_prev (h : Heap) (l : LL) (f b m : NodeId) :
    (adoptStep h l f b m).prev = if m = l.tail then some b else if m = f then some l.head else (h m).prev := by
  simp [adoptStep]
theorem init_next (h : Heap) (l : LL) (m : NodeId) :
    (init h l m).next = if m = l.tail then none else if m = l.head then some l.tail else (h m).next := by
  simp [init]
theorem init_prev (h : Heap) (l : LL) (m : NodeId) :
    (init h l m).prev = if m = l.tail then some l.head else if m = l.head then none else (h m).prev := by
  simp [init]

/-- list `l` adopts the inner chain `zs` -/
theorem wl_adopt {h h' : Heap} {l : LL} {f b : NodeId} {zT zI : List NodeId} (hz : Ch h (f :: zT)) (ez : f :: zT = zI ++ [b])
    (hnd : (l.head :: (f :: zT) ++ [l.tail]).Nodup)
    (h1 : (h' l.head).next = some f) (h2 : (h' f).prev = some l.head) (h3 : (h' b).next = some l.tail)
    (h4 : (h' l.tail).prev = some b) (h5 : (h' l.head).prev = none) (h6 : (h' l.tail).next = none)
    (hn : ∀ m, m ∈ zI → (h' m).next = (h m).next) (hp : ∀ m, m ∈ zT → (h' m).prev = (h m).prev) :
    WellLinked h' l (f :: zT) := by
  refine ⟨⟨⟨h1, h2⟩, ?_⟩, hnd, h5, h6⟩
  show Ch h' ((f :: zT) ++ [l.tail])
  rw [ez, List.append_assoc]
  refine (ch_append zI b [l.tail]).mpr ⟨?_, ⟨h3, h4⟩, trivial⟩
  rw [← ez]
  refine ch_frame hz (fun m hm => hn m ?_) (fun m hm => hp m ?_)
  · rwa [ez, List.dropLast_concat] at hm
  · simpa using hm

/-- distinctness facts about the ends of a non-empty well-linked list -/
theorem wl_ends {h : Heap} {l : LL} {f b : NodeId} {zT zI : List NodeId} (w : WellLinked h l (f :: zT)) (ez : f :: zT = zI ++ [b]) :
    l.head ≠ f ∧ l.head ≠ b ∧ l.tail ≠ f ∧ l.tail ≠ b ∧ l.head ≠ l.tail ∧
    (∀ m, m ∈ zI → m ≠ b ∧ m ≠ l.head ∧ m ≠ l.tail) ∧ (∀ m, m ∈ zT → m ≠ f ∧ m ≠ l.head ∧ m ≠ l.tail) ∧
    Ch h (f :: zT) ∧ (h l.head).next = some f ∧ (h l.tail).prev = some b := by
  have hf : f ∈ f :: zT := by simp
  have hb : b ∈ f :: zT := by rw [ez]; simp
  have e2 : l.head :: (f :: zT) ++ [l.tail] = (l.head :: zI) ++ b :: l.tail :: [] := by rw [ez]; simp
  have hnd2 := w.nodup; rw [e2] at hnd2
  obtain ⟨t1, _, _⟩ := nodup_split hnd2
  have hnd0 : ([] ++ l.head :: f :: (zT ++ [l.tail])).Nodup := by simpa using w.nodup
  obtain ⟨_, _, s3⟩ := nodup_split hnd0
  have hc2 := w.ch; rw [e2] at hc2
  have hzc : Ch h (f :: zT) := by
    have := ((ch_append (l.head :: zI) b [l.tail]).mp hc2).1
    rw [ez]; exact ch_tail (by simpa using this)
  refine ⟨fun c => wl_head_notin w (c ▸ hf), fun c => wl_head_notin w (c ▸ hb), fun c => wl_tail_notin w (c ▸ hf),
    fun c => wl_tail_notin w (c ▸ hb), wl_head_ne_tail w, fun m hm => ?_, fun m hm => ?_, hzc, w.ch.1.1, (link_of_ch hc2).2⟩
  · have hm' : m ∈ f :: zT := by rw [ez]; simp [hm]
    exact ⟨(t1 m (by simp [hm])).1, fun c => wl_head_notin w (c ▸ hm'), fun c => wl_tail_notin w (c ▸ hm')⟩
  · have hm' : m ∈ f :: zT := by simp [hm]
    exact ⟨(s3 m (by simp [hm])).2, fun c => wl_head_notin w (c ▸ hm'), fun c => wl_tail_notin w (c ▸ hm')⟩


/-- evaluate a field of a heap built from `adoptStep` / `init`, given distinctness facts in the context -/
macro "field_tac" : tactic =>
  `(tactic| (simp only [adopt_next, adopt_prev, init_next, init_prev]
             repeat' split
             all_goals first
               | rfl
               | assumption
               | contradiction
               | (rename_i hc; exact absurd (Eq.symm hc) (by assumption))
               | (rename_i hc; exact absurd trivial hc)))

theorem nodup_adopt {H T f : NodeId} {zT : List NodeId} (hz : (f :: zT).Nodup) (h1 : H ∉ f :: zT) (h2 : T ∉ f :: zT)
    (h3 : H ≠ T) : (H :: (f :: zT) ++ [T]).Nodup := by
  show (H :: ((f :: zT) ++ [T])).Nodup
  rw [List.nodup_cons, List.nodup_append]
  refine ⟨?_, hz, by simp, ?_⟩
  · intro c
    rcases List.mem_append.mp c with c | c
    · exact h1 c
    · simp only [List.mem_singleton] at c; exact h3 c
  · intro x hx y hy c
    simp only [List.mem_singleton] at hy
    subst hy; subst c; exact h2 hx

theorem inner_nodup {h : Heap} {l : LL} {xs : List NodeId} (w : WellLinked h l xs) : xs.Nodup :=
  (List.nodup_append.mp (List.nodup_cons.mp w.nodup).2).1

theorem sc_eq_NN {h : Heap} {a b : LL} {af al bf bl : NodeId}
    (a1 : (h a.head).next = some af) (a2 : (h a.tail).prev = some al)
    (b1 : (h b.head).next = some bf) (b2 : (h b.tail).prev = some bl)
    (n1 : bf ≠ b.tail) (n2 : af ≠ a.tail) (n3 : b.tail ≠ bf) :
    swapContents h a b = some (adoptStep (adoptStep h a bf bl) b af al) := by
  simp [swapContents, empty, a1, a2, b1, b2, n1, n2, n3, adoptStep]

theorem sc_eq_NE {h : Heap} {a b : LL} {af al : NodeId}
    (a1 : (h a.head).next = some af) (a2 : (h a.tail).prev = some al)
    (b1 : (h b.head).next = some b.tail) (n2 : af ≠ a.tail) :
    swapContents h a b = some (adoptStep (init h a) b af al) := by
  simp [swapContents, empty, a1, a2, b1, n2, adoptStep]

theorem sc_eq_EN {h : Heap} {a b : LL} {bf bl : NodeId}
    (a1 : (h a.head).next = some a.tail)
    (b1 : (h b.head).next = some bf) (b2 : (h b.tail).prev = some bl)
    (n1 : bf ≠ b.tail) (n3 : b.tail ≠ bf) :
    swapContents h a b = some (init (adoptStep h a bf bl) b) := by
  simp [swapContents, empty, a1, b1, b2, n1, n3, adoptStep]

theorem sc_eq_EE {h : Heap} {a b : LL}
    (a1 : (h a.head).next = some a.tail) (b1 : (h b.head).next = some b.tail) :
    swapContents h a b = some (init (init h a) b) := by
  simp [swapContents, empty, a1, b1]

set_option maxHeartbeats 1600000 in
theorem ll_swapContents {h : Heap} {a b : LL} {xa xb : List NodeId} (wa : WellLinked h a xa) (wb : WellLinked h b xb)
    (hdis : ∀ m, m ∈ chainOf a xa → m ∉ chainOf b xb) :
    ∃ h', swapContents h a b = some h' ∧ WellLinked h' a xb ∧ WellLinked h' b xa ∧
      ∀ m, m ∉ chainOf a xa → m ∉ chainOf b xb → h' m = h m := by
  have X : ∀ {m t}, m ∈ chainOf a xa → t ∈ chainOf b xb → m ≠ t := fun hm ht c => hdis _ hm (c ▸ ht)
  have mHa : a.head ∈ chainOf a xa := by simp [chainOf]
  have mTa : a.tail ∈ chainOf a xa := by simp [chainOf]
  have mHb : b.head ∈ chainOf b xb := by simp [chainOf]
  have mTb : b.tail ∈ chainOf b xb := by simp [chainOf]
  have x1 := X mHa mHb; have x2 := X mHa mTb; have x3 := X mTa mHb; have x4 := X mTa mTb
  have aHT := wl_head_ne_tail wa; have bHT := wl_head_ne_tail wb
  have aHP := wa.headPrev; have aTN := wa.tailNext; have bHP := wb.headPrev; have bTN := wb.tailNext
  cases xa with
  | nil =>
    have a1 : (h a.head).next = some a.tail := wa.ch.1.1
    cases xb with
    | nil =>
      have b1 : (h b.head).next = some b.tail := wb.ch.1.1
      refine ⟨_, sc_eq_EE a1 b1, wl_empty aHT ?_ ?_ ?_ ?_, wl_empty bHT ?_ ?_ ?_ ?_, fun m hm1 hm2 => ?_⟩
      all_goals try field_tac
      have k1 : m ≠ a.head := fun c => hm1 (c ▸ mHa)
      have k2 : m ≠ a.tail := fun c => hm1 (c ▸ mTa)
      have k3 : m ≠ b.head := fun c => hm2 (c ▸ mHb)
      have k4 : m ≠ b.tail := fun c => hm2 (c ▸ mTb)
      exact node_ext (by field_tac) (by field_tac)
    | cons bf bT =>
      obtain ⟨bI, bl, eb⟩ := snoc_exists bf bT
      obtain ⟨bHf, bHb, bTf, bTb, _, bI_, bT_, bCh, b1, b2⟩ := wl_ends wb eb
      have mbf : bf ∈ chainOf b (bf :: bT) := mem_chain_of_mem (by simp)
      have mbl : bl ∈ chainOf b (bf :: bT) := mem_chain_of_mem (by rw [eb]; simp)
      have y1 := X mHa mbf; have y2 := X mHa mbl; have y3 := X mTa mbf; have y4 := X mTa mbl
      have hnd : (a.head :: (bf :: bT) ++ [a.tail]).Nodup :=
        nodup_adopt (inner_nodup wb) (fun c => X mHa (mem_chain_of_mem c) rfl) (fun c => X mTa (mem_chain_of_mem c) rfl) aHT
      refine ⟨_, sc_eq_EN a1 b1 b2 (Ne.symm bTf) bTf,
        wl_adopt bCh eb hnd ?_ ?_ ?_ ?_ ?_ ?_ (fun m hm => ?_) (fun m hm => ?_),
        wl_empty bHT ?_ ?_ ?_ ?_, fun m hm1 hm2 => ?_⟩
      all_goals try field_tac
      · obtain ⟨k1, k2, k3⟩ := bI_ m hm
        have k4 := X mHa (mem_chain_of_mem (l := b) (show m ∈ bf :: bT by rw [eb]; simp [hm]))
        have k5 := X mTa (mem_chain_of_mem (l := b) (show m ∈ bf :: bT by rw [eb]; simp [hm]))
        field_tac
      · obtain ⟨k1, k2, k3⟩ := bT_ m hm
        have k4 := X mHa (mem_chain_of_mem (l := b) (show m ∈ bf :: bT by simp [hm]))
        have k5 := X mTa (mem_chain_of_mem (l := b) (show m ∈ bf :: bT by simp [hm]))
        field_tac
      · have k1 : m ≠ a.head := fun c => hm1 (c ▸ mHa)
        have k2 : m ≠ a.tail := fun c => hm1 (c ▸ mTa)
        have k3 : m ≠ b.head := fun c => hm2 (c ▸ mHb)
        have k4 : m ≠ b.tail := fun c => hm2 (c ▸ mTb)
        have k5 : m ≠ bf := fun c => hm2 (c ▸ mbf)
        have k6 : m ≠ bl := fun c => hm2 (c ▸ mbl)
        exact node_ext (by field_tac) (by field_tac)
  | cons af aT =>
    obtain ⟨aI, al, ea⟩ := snoc_exists af aT
    obtain ⟨aHf, aHb, aTf, aTb, _, aI_, aT_, aCh, a1, a2⟩ := wl_ends wa ea
    have maf : af ∈ chainOf a (af :: aT) := mem_chain_of_mem (by simp)
    have mal : al ∈ chainOf a (af :: aT) := mem_chain_of_mem (by rw [ea]; simp)
    have z1 := X maf mHb; have z2 := X maf mTb; have z3 := X mal mHb; have z4 := X mal mTb
    have hnda : (b.head :: (af :: aT) ++ [b.tail]).Nodup :=
      nodup_adopt (inner_nodup wa) (fun c => X (mem_chain_of_mem c) mHb rfl) (fun c => X (mem_chain_of_mem c) mTb rfl) bHT
    cases xb with
    | nil =>
      have b1 : (h b.head).next = some b.tail := wb.ch.1.1
      refine ⟨_, sc_eq_NE a1 a2 b1 (Ne.symm aTf), wl_empty aHT ?_ ?_ ?_ ?_,
        wl_adopt aCh ea hnda ?_ ?_ ?_ ?_ ?_ ?_ (fun m hm => ?_) (fun m hm => ?_), fun m hm1 hm2 => ?_⟩
      all_goals try field_tac
      · obtain ⟨k1, k2, k3⟩ := aI_ m hm
        have k4 := X (mem_chain_of_mem (l := a) (show m ∈ af :: aT by rw [ea]; simp [hm])) mHb
        have k5 := X (mem_chain_of_mem (l := a) (show m ∈ af :: aT by rw [ea]; simp [hm])) mTb
        field_tac
      · obtain ⟨k1, k2, k3⟩ := aT_ m hm
        have k4 := X (mem_chain_of_mem (l := a) (show m ∈ af :: aT by simp [hm])) mHb
        have k5 := X (mem_chain_of_mem (l := a) (show m ∈ af :: aT by simp [hm])) mTb
        field_tac
      · have k1 : m ≠ a.head := fun c => hm1 (c ▸ mHa)
        have k2 : m ≠ a.tail := fun c => hm1 (c ▸ mTa)
        have k3 : m ≠ b.head := fun c => hm2 (c ▸ mHb)
        have k4 : m ≠ b.tail := fun c => hm2 (c ▸ mTb)
        have k5 : m ≠ af := fun c => hm1 (c ▸ maf)
        have k6 : m ≠ al := fun c => hm1 (c ▸ mal)
        exact node_ext (by field_tac) (by field_tac)
    | cons bf bT =>
      obtain ⟨bI, bl, eb⟩ := snoc_exists bf bT
      obtain ⟨bHf, bHb, bTf, bTb, _, bI_, bT_, bCh, b1, b2⟩ := wl_ends wb eb
      have mbf : bf ∈ chainOf b (bf :: bT) := mem_chain_of_mem (by simp)
      have mbl : bl ∈ chainOf b (bf :: bT) := mem_chain_of_mem (by rw [eb]; simp)
      have y1 := X mHa mbf; have y2 := X mHa mbl; have y3 := X mTa mbf; have y4 := X mTa mbl
      have w1 := X maf mbf; have w2 := X maf mbl; have w3 := X mal mbf; have w4 := X mal mbl
      have hndb : (a.head :: (bf :: bT) ++ [a.tail]).Nodup :=
        nodup_adopt (inner_nodup wb) (fun c => X mHa (mem_chain_of_mem c) rfl) (fun c => X mTa (mem_chain_of_mem c) rfl) aHT
      refine ⟨_, sc_eq_NN a1 a2 b1 b2 (Ne.symm bTf) (Ne.symm aTf) bTf,
        wl_adopt bCh eb hndb ?_ ?_ ?_ ?_ ?_ ?_ (fun m hm => ?_) (fun m hm => ?_),
        wl_adopt aCh ea hnda ?_ ?_ ?_ ?_ ?_ ?_ (fun m hm => ?_) (fun m hm => ?_), fun m hm1 hm2 => ?_⟩
      all_goals try field_tac
      · obtain ⟨k1, k2, k3⟩ := bI_ m hm
        have mm := mem_chain_of_mem (l := b) (show m ∈ bf :: bT by rw [eb]; simp [hm])
        have k4 := X mHa mm; have k5 := X mTa mm; have k6 := X maf mm; have k7 := X mal mm
        field_tac
      · obtain ⟨k1, k2, k3⟩ := bT_ m hm
        have mm := mem_chain_of_mem (l := b) (show m ∈ bf :: bT by simp [hm])
        have k4 := X mHa mm; have k5 := X mTa mm; have k6 := X maf mm; have k7 := X mal mm
        field_tac
      · obtain ⟨k1, k2, k3⟩ := aI_ m hm
        have mm := mem_chain_of_mem (l := a) (show m ∈ af :: aT by rw [ea]; simp [hm])
        have k4 := X mm mHb; have k5 := X mm mTb; have k6 := X mm mbf; have k7 := X mm mbl
        field_tac
      · obtain ⟨k1, k2, k3⟩ := aT_ m hm
        have mm := mem_chain_of_mem (l := a) (show m ∈ af :: aT by simp [hm])
        have k4 := X mm mHb; have k5 := X mm mTb; have k6 := X mm mbf; have k7 := X mm mbl
        field_tac
      · have k1 : m ≠ a.head := fun c => hm1 (c ▸ mHa)
        have k2 : m ≠ a.tail := fun c => hm1 (c ▸ mTa)
        have k3 : m ≠ b.head := fun c => hm2 (c ▸ mHb)
        have k4 : m ≠ b.tail := fun c => hm2 (c ▸ mTb)
        have k5 : m ≠ af := fun c => hm1 (c ▸ maf)
        have k6 : m ≠ al := fun c => hm1 (c ▸ mal)
        have k7 : m ≠ bf := fun c => hm2 (c ▸ mbf)
        have k8 : m ≠ bl := fun c => hm2 (c ▸ mbl)
        exact node_ext (by field_tac) (by field_tac)

end AwsVerif.Proofs.C09
