import AwsVerif.Model.ArrayList
/-! Reference semantics for the array list: a list of elements (`none` = element whose bytes are
unspecified: a gap created by `set_at` past the end), the item size, and for static storage the
item count the caller provided.  `Rel` ties a byte-level state to a reference state. -/
namespace AwsVerif.Proofs.C09
open AwsVerif.ArrayList

structure RefL where
  items : List (Option (List UInt8))
  isz   : Nat
  cap   : Option Nat          -- `some c`: static storage of `c` items; `none`: dynamic
deriving Repr

/-- operations on one list -/
inductive Op where
  | pushBack (v : List UInt8)
  | pushFront (v : List UInt8)
  | popBack
  | popFront
  | popFrontN (n : Nat)
  | setAt (i : Nat) (v : List UInt8)
  | erase (i : Nat)
  | swap (a b : Nat)
  | clear
  | shrink
  | ensure (i : Nat)
  | sort
deriving Repr

/-- model step for a one-list operation -/
def step (l : AL) : Op → AL × Rc
  | .pushBack v => pushBack l v
  | .pushFront v => pushFront l v
  | .popBack => popBack l
  | .popFront => popFront l
  | .popFrontN n => popFrontN l n
  | .setAt i v => setAt l v i
  | .erase i => erase l i
  | .swap a b => swap l a b
  | .clear => (clear l, .ok)
  | .shrink => shrinkToFit l
  | .ensure i => match ensureCapacity l i with
    | .ok l' => (l', .ok)
    | .error e => (l, .err e)
  | .sort => (sort l, .ok)

/-- can slot `i` exist?  overflow of `(i+1)*item_size`, or beyond the static item count -/
def RefL.ensureErr (r : RefL) (i : Nat) : Option Err :=
  if i + 1 > SIZE_MAX ∨ (i + 1) * r.isz > SIZE_MAX then some .overflow
  else match r.cap with
    | some c => if c ≤ i then some .invalidIndex else none
    | none => none

/-- the push functions report a full static list as LIST_EXCEEDS_MAX_SIZE -/
def pushErr : Err → Err
  | .invalidIndex => .exceedsMax
  | e => e

/-- the harness comparator (`memcmp` on whole elements) on fully written elements -/
def leBytes (a b : List UInt8) : Bool := elemLe (a.map some) (b.map some)

/-- reference sort: the sorted permutation when every element is specified; otherwise nothing is
claimed about the result (all elements unspecified) -/
def refSort (items : List (Option (List UInt8))) : List (Option (List UInt8)) :=
  if items.all Option.isSome then ((items.filterMap id).mergeSort leBytes).map some
  else List.replicate items.length none

/-- reference step -/
def refStep (r : RefL) : Op → RefL × Rc
  | .pushBack v =>
    match r.ensureErr r.items.length with
    | some e => (r, .err (pushErr e))
    | none => ({ r with items := r.items ++ [some v] }, .ok)
  | .pushFront v =>
    match r.ensureErr r.items.length with
    | some e => (r, .err (pushErr e))
    | none => ({ r with items := some v :: r.items }, .ok)
  | .popBack => if r.items.length > 0 then ({ r with items := r.items.dropLast }, .ok) else (r, .err .listEmpty)
  | .popFront => if r.items.length > 0 then ({ r with items := r.items.drop 1 }, .ok) else (r, .err .listEmpty)
  | .popFrontN n => ({ r with items := r.items.drop n }, .ok)
  | .setAt i v =>
    match r.ensureErr i with
    | some e => (r, .err e)
    | none =>
      if i < r.items.length then ({ r with items := r.items.set i (some v) }, .ok)
      else ({ r with items := r.items ++ List.replicate (i - r.items.length) none ++ [some v] }, .ok)
  | .erase i => if i < r.items.length then ({ r with items := r.items.eraseIdx i }, .ok) else (r, .err .invalidIndex)
  | .swap a b => ({ r with items := (r.items.set a (r.items[b]?.join)).set b (r.items[a]?.join) }, .ok)
  | .clear => ({ r with items := [] }, .ok)
  | .shrink => match r.cap with
    | none => (r, .ok)
    | some _ => (r, .err .staticCantShrink)
  | .ensure i =>
    match r.ensureErr i with
    | some e => (r, .err e)
    | none => (r, .ok)
  | .sort => ({ r with items := refSort r.items }, .ok)

/-- API preconditions of a one-list operation (fatal asserts / pointer validity in the C) -/
def pre (l : AL) : Op → Prop
  | .pushBack v => v.length = l.itemSize
  | .pushFront v => v.length = l.itemSize
  | .setAt _ v => v.length = l.itemSize
  | .swap a b => a < l.length ∧ b < l.length
  | _ => True

/-- the `isz` bytes of element `i` are written and equal `v` -/
def Holds (d : Region) (s i : Nat) (v : List UInt8) : Prop :=
  v.length = s ∧ ∀ j, j < s → d[i * s + j]? = some (v[j]?)

structure Rel (l : AL) (r : RefL) : Prop where
  isz  : l.itemSize = r.isz
  pos  : 0 < r.isz
  len  : l.length = r.items.length
  fit  : r.items.length * r.isz ≤ l.data.length
  max  : l.data.length ≤ SIZE_MAX
  dyn  : l.dyn = r.cap.isNone
  cap  : ∀ c, r.cap = some c → l.data.length = c * r.isz
  elems : ∀ i v, r.items[i]? = some (some v) → Holds l.data r.isz i v

/-! ### several lists: `copy` and `swap_contents` -/

abbrev Store := Nat → AL
abbrev RStore := Nat → RefL

def upd {α : Type} (s : Nat → α) (k : Nat) (x : α) : Nat → α := fun j => if j = k then x else s j

inductive SysOp where
  | on (k : Nat) (op : Op)
  | copy (frm to : Nat)
  | swapContents (a b : Nat)
deriving Repr

def sysStep (s : Store) : SysOp → Store × Rc
  | .on k op => (upd s k (step (s k) op).1, (step (s k) op).2)
  | .copy f t => (upd s t (copy (s f) (s t)).1, (copy (s f) (s t)).2)
  | .swapContents a b =>
    (upd (upd s a (swapContents (s a) (s b)).1.1) b (swapContents (s a) (s b)).1.2, (swapContents (s a) (s b)).2)

def refCopy (f t : RefL) : RefL × Rc :=
  match t.cap with
  | some c => if c < f.items.length then (t, .err .destTooSmall) else ({ t with items := f.items }, .ok)
  | none => ({ t with items := f.items }, .ok)

def refSysStep (r : RStore) : SysOp → RStore × Rc
  | .on k op => (upd r k (refStep (r k) op).1, (refStep (r k) op).2)
  | .copy f t => (upd r t (refCopy (r f) (r t)).1, (refCopy (r f) (r t)).2)
  | .swapContents a b => (upd (upd r a (r b)) b (r a), .ok)

/-- API preconditions (the harness / driver print `skip` when they do not hold) -/
def sysPre (s : Store) : SysOp → Prop
  | .on k op => pre (s k) op
  | .copy f t => f ≠ t ∧ (s f).itemSize = (s t).itemSize ∧ (s f).data.length ≠ 0
  | .swapContents a b => a ≠ b ∧ (s a).dyn = true ∧ (s b).dyn = true ∧ (s a).itemSize = (s b).itemSize

def runM : Store → List SysOp → Store × List Rc
  | s, [] => (s, [])
  | s, op :: ops => let r := runM (sysStep s op).1 ops; (r.1, (sysStep s op).2 :: r.2)

def runR : RStore → List SysOp → RStore × List Rc
  | r, [] => (r, [])
  | r, op :: ops => let x := runR (refSysStep r op).1 ops; (x.1, (refSysStep r op).2 :: x.2)

def PreAll : Store → List SysOp → Prop
  | _, [] => True
  | s, op :: ops => sysPre s op ∧ PreAll (sysStep s op).1 ops

def RelS (s : Store) (r : RStore) : Prop := ∀ k, Rel (s k) (r k)

end AwsVerif.Proofs.C09
