import AwsVerif.Model.LinkedList
/-! Well-linkedness of a doubly linked list with two sentinels, and basic facts about chains. -/
namespace AwsVerif.Proofs.C09
open AwsVerif.LinkedList

/-- `x → y` is a bidirectional edge -/
def Link (h : Heap) (x y : NodeId) : Prop := (h x).next = some y ∧ (h y).prev = some x

/-- consecutive members of the list are linked in both directions -/
def Ch (h : Heap) : List NodeId → Prop
  | [] => True
  | [_] => True
  | x :: y :: r => Link h x y ∧ Ch h (y :: r)

/-- the list `l` holds exactly the node sequence `xs`: head, `xs`, tail are pairwise distinct, every
edge along head → xs → tail is bidirectional (so the forward walk reaches the tail), and the
sentinels' outer pointers are NULL -/
structure WellLinked (h : Heap) (l : LL) (xs : List NodeId) : Prop where
  ch : Ch h (l.head :: xs ++ [l.tail])
  nodup : (l.head :: xs ++ [l.tail]).Nodup
  headPrev : (h l.head).prev = none
  tailNext : (h l.tail).next = none

theorem ch_cons2 {h : Heap} {x y : NodeId} {r : List NodeId} : Ch h (x :: y :: r) ↔ Link h x y ∧ Ch h (y :: r) := Iff.rfl

theorem ch_tail {h : Heap} {x : NodeId} {r : List NodeId} (hc : Ch h (x :: r)) : Ch h r := by
  cases r with
  | nil => trivial
  | cons y r => exact hc.2

theorem ch_append {h : Heap} (c1 : List NodeId) (x : NodeId) (c2 : List NodeId) :
    Ch h (c1 ++ x :: c2) ↔ Ch h (c1 ++ [x]) ∧ Ch h (x :: c2) := by
  induction c1 with
  | nil => simp [Ch]
  | cons a c1 ih =>
    cases c1 with
    | nil =>
      simp only [List.cons_append, List.nil_append]
      constructor
      · intro hc; exact ⟨⟨hc.1, trivial⟩, hc.2⟩
      · intro hc; exact ⟨hc.1.1, hc.2⟩
    | cons b c1 =>
      simp only [List.cons_append] at ih ⊢
      constructor
      · intro hc
        have := ih.mp hc.2
        exact ⟨⟨hc.1, this.1⟩, this.2⟩
      · intro hc
        exact ⟨hc.1.1, ih.mpr ⟨hc.1.2, hc.2⟩⟩

/-- a chain survives a heap change that keeps `next` of all but the last member and `prev` of all
but the first member -/
theorem ch_frame {h h' : Heap} : ∀ {c : List NodeId}, Ch h c →
    (∀ m, m ∈ c.dropLast → (h' m).next = (h m).next) → (∀ m, m ∈ c.tail → (h' m).prev = (h m).prev) → Ch h' c
  | [], _, _, _ => trivial
  | [_], _, _, _ => trivial
  | x :: y :: r, hc, hn, hp => by
    refine ⟨⟨?_, ?_⟩, ch_frame hc.2 (fun m hm => hn m ?_) (fun m hm => hp m ?_)⟩
    · rw [hn x (by simp)]; exact hc.1.1
    · rw [hp y (by simp)]; exact hc.1.2
    · simp only [List.dropLast_cons_cons, List.mem_cons]; exact Or.inr hm
    · simp only [List.tail_cons, List.mem_cons] at hm ⊢; exact Or.inr hm

/-- frame with a set of untouched nodes -/
theorem ch_frame_of {h h' : Heap} {c : List NodeId} (hc : Ch h c) (hs : ∀ m, m ∈ c → h' m = h m) : Ch h' c :=
  ch_frame hc (fun m hm => by rw [hs m (List.dropLast_subset _ hm)])
    (fun m hm => by rw [hs m (List.mem_of_mem_tail hm)])

/-! ### walks -/

theorem walkFwd_ch {h : Heap} {b : NodeId} : ∀ (xs : List NodeId) (a : NodeId) (fuel : Nat),
    Ch h (a :: xs ++ [b]) → b ∉ xs → xs.length + 1 ≤ fuel →
    ∃ f, (h a).next = some f ∧ walkFwd h b fuel f = some xs
  | [], a, fuel, hc, _, hf => by
    refine ⟨b, hc.1.1, ?_⟩
    obtain ⟨f', rfl⟩ : ∃ f', fuel = f' + 1 := ⟨fuel - 1, by simp at hf; omega⟩
    simp [walkFwd]
  | x :: xs, a, fuel, hc, hb, hf => by
    obtain ⟨f', rfl⟩ : ∃ f', fuel = f' + 1 := ⟨fuel - 1, by simp at hf; omega⟩
    have hc' : Ch h (x :: xs ++ [b]) := hc.2
    obtain ⟨g, hg, hw⟩ := walkFwd_ch xs x f' hc' (fun c => hb (List.mem_cons_of_mem _ c))
      (by simp only [List.length_cons] at hf; omega)
    refine ⟨x, hc.1.1, ?_⟩
    have hxb : x ≠ b := fun c => hb (by rw [c]; exact List.mem_cons_self)
    simp only [walkFwd, if_neg hxb, hg, hw, Option.map_some]

theorem walkBwd_ch {h : Heap} {a : NodeId} : ∀ (zs : List NodeId) (b : NodeId) (fuel : Nat),
    Ch h (a :: zs.reverse ++ [b]) → a ∉ zs → zs.length + 1 ≤ fuel →
    ∃ l, (h b).prev = some l ∧ walkBwd h a fuel l = some zs
  | [], b, fuel, hc, _, hf => by
    refine ⟨a, hc.1.2, ?_⟩
    obtain ⟨f', rfl⟩ : ∃ f', fuel = f' + 1 := ⟨fuel - 1, by simp at hf; omega⟩
    simp [walkBwd]
  | z :: zs, b, fuel, hc, ha, hf => by
    obtain ⟨f', rfl⟩ : ∃ f', fuel = f' + 1 := ⟨fuel - 1, by simp at hf; omega⟩
    have e : a :: (z :: zs).reverse ++ [b] = (a :: zs.reverse) ++ z :: [b] := by simp
    rw [e] at hc
    obtain ⟨hc1, hc2⟩ := (ch_append _ _ _).mp hc
    obtain ⟨g, hg, hw⟩ := walkBwd_ch zs z f' (by simpa using hc1) (fun c => ha (List.mem_cons_of_mem _ c))
      (by simp only [List.length_cons] at hf; omega)
    refine ⟨z, hc2.1.2, ?_⟩
    have hza : z ≠ a := fun c => ha (by rw [c]; exact List.mem_cons_self)
    simp only [walkBwd, if_neg hza, hg, hw, Option.map_some]

/-- the forward walk of a well-linked list yields its sequence (any fuel above its length) -/
theorem toList_wl {h : Heap} {l : LL} {xs : List NodeId} (w : WellLinked h l xs) {fuel : Nat} (hf : xs.length + 1 ≤ fuel) :
    toList h l fuel = some xs := by
  have hnt : l.tail ∉ xs := by
    have := w.nodup
    simp only [List.cons_append, List.nodup_cons, List.nodup_append, List.mem_append] at this
    intro c
    exact this.2.2.2 _ c _ (by simp) rfl
  obtain ⟨f, hf1, hf2⟩ := walkFwd_ch xs l.head fuel w.ch hnt hf
  simp only [toList, hf1, hf2]

/-- the backward walk yields the reversed sequence -/
theorem toListRev_wl {h : Heap} {l : LL} {xs : List NodeId} (w : WellLinked h l xs) {fuel : Nat} (hf : xs.length + 1 ≤ fuel) :
    toListRev h l fuel = some xs.reverse := by
  have hnh : l.head ∉ xs.reverse := by
    have := w.nodup
    simp only [List.cons_append, List.nodup_cons, List.mem_append] at this
    intro c
    exact this.1 (Or.inl (List.mem_reverse.mp c))
  obtain ⟨f, hf1, hf2⟩ := walkBwd_ch xs.reverse l.tail fuel (by rw [List.reverse_reverse]; exact w.ch) hnh
    (by rw [List.length_reverse]; exact hf)
  simp only [toListRev, hf1, hf2]

end AwsVerif.Proofs.C09
