import AwsVerif.Proofs.C09.LLSpec
/-! Pointer surgery: insert / remove realise the list operations and preserve well-linkedness. -/
set_option linter.unusedSimpArgs false
namespace AwsVerif.Proofs.C09
open AwsVerif.LinkedList

@[simp] theorem setNext_next (h : Heap) (n : NodeId) (v : Option NodeId) (m : NodeId) :
    (setNext h n v m).next = if m = n then v else (h m).next := by
  unfold setNext; split <;> rfl
@[simp] theorem setNext_prev (h : Heap) (n : NodeId) (v : Option NodeId) (m : NodeId) :
    (setNext h n v m).prev = (h m).prev := by
  unfold setNext; split <;> rfl
@[simp] theorem setPrev_prev (h : Heap) (n : NodeId) (v : Option NodeId) (m : NodeId) :
    (setPrev h n v m).prev = if m = n then v else (h m).prev := by
  unfold setPrev; split <;> rfl
@[simp] theorem setPrev_next (h : Heap) (n : NodeId) (v : Option NodeId) (m : NodeId) :
    (setPrev h n v m).next = (h m).next := by
  unfold setPrev; split <;> rfl
@[simp] theorem setNode_apply (h : Heap) (n : NodeId) (x : Node) (m : NodeId) :
    setNode h n x m = if m = n then x else h m := rfl

/-- `h'` is `h` with `n` spliced in between the adjacent nodes `p` and `q` -/
structure InsSpec (h h' : Heap) (p q n : NodeId) : Prop where
  next : ∀ m, (h' m).next = if m = p then some n else if m = n then some q else (h m).next
  prev : ∀ m, (h' m).prev = if m = q then some n else if m = n then some p else (h m).prev

theorem insertBefore_spec {h : Heap} {p q n : NodeId} (hl : Link h p q) (hnq : n ≠ q) (hnp : n ≠ p) :
    ∃ h', insertBefore h q n = some h' ∧ InsSpec h h' p q n := by
  have hqn : q ≠ n := Ne.symm hnq
  have hpn : p ≠ n := Ne.symm hnp
  have e1 : (setPrev (setNext h n (some q)) n ((setNext h n (some q)) q).prev q).prev = some p := by
    simp [hqn, hl.2]
  refine ⟨_, (by simp only [insertBefore, e1]; rfl), ?_, ?_⟩
  · intro m
    by_cases h1 : m = p <;> by_cases h2 : m = n <;> simp [h1, h2, hpn, hnp]
  · intro m
    by_cases h1 : m = q <;> by_cases h2 : m = n <;> simp [h1, h2, hqn, hnq, hl.2]

theorem insertAfter_spec {h : Heap} {p q n : NodeId} (hl : Link h p q) (hnq : n ≠ q) (hnp : n ≠ p) :
    ∃ h', insertAfter h p n = some h' ∧ InsSpec h h' p q n := by
  have hqn : q ≠ n := Ne.symm hnq
  have hpn : p ≠ n := Ne.symm hnp
  have e1 : (setNext (setPrev h n (some p)) n ((setPrev h n (some p)) p).next p).next = some q := by
    simp [hpn, hl.1]
  refine ⟨_, (by simp only [insertAfter, e1]; rfl), ?_, ?_⟩
  · intro m
    by_cases h1 : m = p <;> by_cases h2 : m = n <;> simp [h1, h2, hpn, hnp, hl.1]
  · intro m
    by_cases h1 : m = q <;> by_cases h2 : m = n <;> simp [h1, h2, hqn, hnq]

/-- `h'` is `h` with `x` (between `p` and `q`) unlinked and reset -/
structure DelSpec (h h' : Heap) (p x q : NodeId) : Prop where
  next : ∀ m, (h' m).next = if m = x then none else if m = p then some q else (h m).next
  prev : ∀ m, (h' m).prev = if m = x then none else if m = q then some p else (h m).prev

theorem remove_spec {h : Heap} {p x q : NodeId} (h1 : Link h p x) (h2 : Link h x q) (hpx : p ≠ x) (hqx : q ≠ x) :
    ∃ h', remove h x = some h' ∧ DelSpec h h' p x q := by
  have hxp : x ≠ p := Ne.symm hpx
  have e1 : (h x).prev = some p := h1.2
  have e2 : (setNext h p (h x).next x).next = some q := by simp [hxp, h2.1]
  refine ⟨_, (by simp only [remove, e1, e2]; rfl), ?_, ?_⟩
  · intro m
    by_cases c1 : m = x <;> by_cases c2 : m = p <;> simp [nodeReset, c1, c2, hxp, hpx, h2.1]
  · intro m
    by_cases c1 : m = x <;> by_cases c2 : m = q <;> simp [nodeReset, c1, c2, hqx, Ne.symm hqx, hxp, e1]


theorem node_ext {a b : Node} (h1 : a.next = b.next) (h2 : a.prev = b.prev) : a = b := by
  cases a; cases b; simp only at h1 h2; subst h1; subst h2; rfl

theorem nodup_split {c1 c2 : List NodeId} {p q : NodeId} (hnd : (c1 ++ p :: q :: c2).Nodup) :
    (∀ m, m ∈ c1 → m ≠ p ∧ m ≠ q) ∧ p ≠ q ∧ (∀ m, m ∈ c2 → m ≠ p ∧ m ≠ q) := by
  simp only [List.nodup_append, List.nodup_cons, List.mem_cons, not_or] at hnd
  obtain ⟨_, ⟨⟨hpq, hpc2⟩, hqc2, _⟩, hdis⟩ := hnd
  refine ⟨fun m hm => ⟨hdis m hm p (Or.inl rfl), hdis m hm q (Or.inr (Or.inl rfl))⟩, hpq, fun m hm => ⟨?_, ?_⟩⟩
  · intro c; subst c; exact hpc2 hm
  · intro c; subst c; exact hqc2 hm

theorem ch_ins {h h' : Heap} {c1 c2 : List NodeId} {p q n : NodeId} (hc : Ch h (c1 ++ p :: q :: c2))
    (hnd : (c1 ++ p :: q :: c2).Nodup) (hn : n ∉ c1 ++ p :: q :: c2) (hs : InsSpec h h' p q n) :
    Ch h' (c1 ++ p :: n :: q :: c2) := by
  obtain ⟨d1, d2, d3⟩ := nodup_split hnd
  have hn' : ∀ m, m ∈ c1 ++ p :: q :: c2 → m ≠ n := fun m hm c => hn (c ▸ hm)
  have hpn : p ≠ n := hn' p (by simp)
  have hqn : q ≠ n := hn' q (by simp)
  obtain ⟨hA, hB⟩ := (ch_append c1 p (q :: c2)).mp hc
  obtain ⟨hl, hC⟩ := hB
  have nx : ∀ m, m ≠ p → m ≠ n → (h' m).next = (h m).next := fun m a b => by rw [hs.next m, if_neg a, if_neg b]
  have pv : ∀ m, m ≠ q → m ≠ n → (h' m).prev = (h m).prev := fun m a b => by rw [hs.prev m, if_neg a, if_neg b]
  refine (ch_append c1 p (n :: q :: c2)).mpr ⟨?_, ⟨?_, ?_⟩, ⟨?_, ?_⟩, ?_⟩
  · refine ch_frame hA (fun m hm => ?_) (fun m hm => ?_)
    · rw [List.dropLast_concat] at hm
      exact nx m (d1 m hm).1 (hn' m (by simp [hm]))
    · have hm' := List.mem_of_mem_tail hm
      rcases List.mem_append.mp hm' with c | c
      · exact pv m (d1 m c).2 (hn' m (by simp [c]))
      · simp only [List.mem_singleton] at c; subst c; exact pv m d2 hpn
  · rw [hs.next p, if_pos rfl]
  · rw [hs.prev n, if_neg (Ne.symm hqn), if_pos rfl]
  · rw [hs.next n, if_neg (Ne.symm hpn), if_pos rfl]
  · rw [hs.prev q, if_pos rfl]
  · refine ch_frame hC (fun m hm => ?_) (fun m hm => ?_)
    · have hm' := List.dropLast_subset _ hm
      rcases List.mem_cons.mp hm' with c | c
      · subst c; exact nx m (Ne.symm d2) hqn
      · exact nx m (d3 m c).1 (hn' m (by simp [c]))
    · simp only [List.tail_cons] at hm
      exact pv m (d3 m hm).2 (hn' m (by simp [hm]))

theorem nodup_ins {c1 c2 : List NodeId} {p q n : NodeId} (hnd : (c1 ++ p :: q :: c2).Nodup)
    (hn : n ∉ c1 ++ p :: q :: c2) : (c1 ++ p :: n :: q :: c2).Nodup := by
  have e : c1 ++ p :: n :: q :: c2 = (c1 ++ [p]) ++ n :: (q :: c2) := by simp
  rw [e, (List.perm_middle).nodup_iff, List.nodup_cons]
  have e2 : c1 ++ [p] ++ q :: c2 = c1 ++ p :: q :: c2 := by simp
  rw [e2]
  exact ⟨hn, hnd⟩

theorem ch_del {h h' : Heap} {c1 c2 : List NodeId} {p x q : NodeId} (hc : Ch h (c1 ++ p :: x :: q :: c2))
    (hnd : (c1 ++ p :: x :: q :: c2).Nodup) (hs : DelSpec h h' p x q) : Ch h' (c1 ++ p :: q :: c2) := by
  have hnd1 := hnd
  obtain ⟨d1, dpx, d3⟩ := nodup_split hnd
  have e : c1 ++ p :: x :: q :: c2 = (c1 ++ [p]) ++ x :: q :: c2 := by simp
  rw [e] at hnd1
  obtain ⟨e1, dxq, e3⟩ := nodup_split hnd1
  have dpq : p ≠ q := (d3 q (by simp)).1.symm
  obtain ⟨hA, hB⟩ := (ch_append c1 p (x :: q :: c2)).mp hc
  obtain ⟨_, _, hC⟩ := hB
  have nx : ∀ m, m ≠ x → m ≠ p → (h' m).next = (h m).next := fun m a b => by rw [hs.next m, if_neg a, if_neg b]
  have pv : ∀ m, m ≠ x → m ≠ q → (h' m).prev = (h m).prev := fun m a b => by rw [hs.prev m, if_neg a, if_neg b]
  refine (ch_append c1 p (q :: c2)).mpr ⟨?_, ⟨?_, ?_⟩, ?_⟩
  · refine ch_frame hA (fun m hm => ?_) (fun m hm => ?_)
    · rw [List.dropLast_concat] at hm
      exact nx m (d1 m hm).2 (d1 m hm).1
    · have hm' := List.mem_of_mem_tail hm
      exact pv m (e1 m hm').1 (e1 m hm').2
  · rw [hs.next p, if_neg dpx, if_pos rfl]
  · rw [hs.prev q, if_neg (Ne.symm dxq), if_pos rfl]
  · refine ch_frame hC (fun m hm => ?_) (fun m hm => ?_)
    · have hm' := List.dropLast_subset _ hm
      rcases List.mem_cons.mp hm' with c | c
      · subst c; exact nx m (Ne.symm dxq) (Ne.symm dpq)
      · exact nx m (e3 m (by simp [c])).1 (d3 m (by simp [c])).1
    · simp only [List.tail_cons] at hm
      exact pv m (e3 m (by simp [hm])).1 (e3 m (by simp [hm])).2

theorem nodup_del {c1 c2 : List NodeId} {p x q : NodeId} (hnd : (c1 ++ p :: x :: q :: c2).Nodup) :
    (c1 ++ p :: q :: c2).Nodup ∧ x ∉ c1 ++ p :: q :: c2 := by
  have e : c1 ++ p :: x :: q :: c2 = (c1 ++ [p]) ++ x :: (q :: c2) := by simp
  rw [e, (List.perm_middle).nodup_iff, List.nodup_cons] at hnd
  have e2 : c1 ++ [p] ++ q :: c2 = c1 ++ p :: q :: c2 := by simp
  rw [e2] at hnd
  exact ⟨hnd.2, hnd.1⟩

/-- a list whose chain the heap change does not touch stays well linked -/
theorem wl_frame {h h' : Heap} {l : LL} {xs : List NodeId} (w : WellLinked h l xs)
    (hs : ∀ m, m ∈ l.head :: xs ++ [l.tail] → h' m = h m) : WellLinked h' l xs :=
  ⟨ch_frame_of w.ch hs, w.nodup, by rw [hs l.head (by simp)]; exact w.headPrev,
   by rw [hs l.tail (by simp)]; exact w.tailNext⟩

theorem insSpec_frame {h h' : Heap} {p q n : NodeId} (hs : InsSpec h h' p q n) {m : NodeId}
    (h1 : m ≠ p) (h2 : m ≠ q) (h3 : m ≠ n) : h' m = h m :=
  node_ext (by rw [hs.next m, if_neg h1, if_neg h3]) (by rw [hs.prev m, if_neg h2, if_neg h3])

theorem delSpec_frame {h h' : Heap} {p x q : NodeId} (hs : DelSpec h h' p x q) {m : NodeId}
    (h1 : m ≠ p) (h2 : m ≠ q) (h3 : m ≠ x) : h' m = h m :=
  node_ext (by rw [hs.next m, if_neg h3, if_neg h1]) (by rw [hs.prev m, if_neg h3, if_neg h2])

/-- splice into a well-linked list, given the decomposition of its chain around the edge `p → q` -/
theorem wl_ins {h h' : Heap} {l : LL} {xs xs' c1 c2 : List NodeId} {p q n : NodeId} (w : WellLinked h l xs)
    (e : l.head :: xs ++ [l.tail] = c1 ++ p :: q :: c2) (e' : l.head :: xs' ++ [l.tail] = c1 ++ p :: n :: q :: c2)
    (hn : n ∉ l.head :: xs ++ [l.tail]) (hhq : l.head ≠ q) (htp : l.tail ≠ p) (hs : InsSpec h h' p q n) :
    WellLinked h' l xs' := by
  have hc := w.ch; have hnd := w.nodup
  rw [e] at hc hnd hn
  have hhn : l.head ≠ n := fun c => hn (by rw [← e, ← c]; simp)
  have htn : l.tail ≠ n := fun c => hn (by rw [← e, ← c]; simp)
  refine ⟨by rw [e']; exact ch_ins hc hnd hn hs, by rw [e']; exact nodup_ins hnd hn, ?_, ?_⟩
  · rw [hs.prev, if_neg hhq, if_neg hhn]; exact w.headPrev
  · rw [hs.next, if_neg htp, if_neg htn]; exact w.tailNext

/-- unlink from a well-linked list, given the decomposition of its chain around `p → x → q` -/
theorem wl_del {h h' : Heap} {l : LL} {xs xs' c1 c2 : List NodeId} {p x q : NodeId} (w : WellLinked h l xs)
    (e : l.head :: xs ++ [l.tail] = c1 ++ p :: x :: q :: c2) (e' : l.head :: xs' ++ [l.tail] = c1 ++ p :: q :: c2)
    (hhx : l.head ≠ x) (htx : l.tail ≠ x) (hhq : l.head ≠ q) (htp : l.tail ≠ p) (hs : DelSpec h h' p x q) :
    WellLinked h' l xs' := by
  have hc := w.ch; have hnd := w.nodup
  rw [e] at hc hnd
  refine ⟨by rw [e']; exact ch_del hc hnd hs, by rw [e']; exact (nodup_del hnd).1, ?_, ?_⟩
  · rw [hs.prev, if_neg hhx, if_neg hhq]; exact w.headPrev
  · rw [hs.next, if_neg htx, if_neg htp]; exact w.tailNext

end AwsVerif.Proofs.C09
