import AwsVerif.Model.ArrayList
import AwsVerif.Gen.ArrayListFns
/-! Bridge between the hand-written array-list model and the definitions regenerated from
`source/array_list.c` (gen/arraylist_gen.py): an edit of those C expressions changes
`AwsVerif.Gen.ArrayListFns` and breaks the theorem of that name. -/
namespace AwsVerif.Proofs.C09
open AwsVerif AwsVerif.ArrayList

/-- what the status convention of the generated layer says about the model's result
(5 = AWS_ERROR_OVERFLOW_DETECTED, the only code the two checked-arithmetic calls raise) -/
def resOfCalc : Except Err Nat → CSem.Res
  | .ok v => .ok v
  | .error _ => .err 5

theorem gen_calc (isz i : Nat) : Gen.ArrayListFns.calc_necessary_size isz i = resOfCalc (calcNecessarySize isz i) := by
  unfold Gen.ArrayListFns.calc_necessary_size Gen.Math.MathInl.aws_add_size_checked Gen.Math.MathInl.aws_mul_size_checked
    Gen.Math.Overflow.aws_add_u64_checked Gen.Math.Overflow.aws_mul_u64_checked calcNecessarySize
  simp only [SIZE_MAX]
  by_cases h1 : i + 1 ≥ 18446744073709551616
  · have : i + 1 > 2 ^ 64 - 1 := by omega
    simp only [h1, if_true, this, resOfCalc]
  · have h1' : ¬ i + 1 > 2 ^ 64 - 1 := by omega
    have e : (i + 1) % 18446744073709551616 = i + 1 := Nat.mod_eq_of_lt (by omega)
    simp only [h1, if_false, h1', e]
    by_cases h2 : (i + 1) * isz ≥ 18446744073709551616
    · have : (i + 1) * isz > 2 ^ 64 - 1 := by omega
      simp only [h2, if_true, this, resOfCalc]
    · have h2' : ¬ (i + 1) * isz > 2 ^ 64 - 1 := by omega
      have e2 : (i + 1) * isz % 18446744073709551616 = (i + 1) * isz := Nat.mod_eq_of_lt (by omega)
      simp only [h2, if_false, h2', e2, resOfCalc]

theorem gen_growth (cs nec : Nat) :
    Gen.ArrayListFns.growth_new_size cs nec = growthNewSize cs nec ∧
    Gen.ArrayListFns.needs_growth cs nec = decide (cs < nec) ∧
    Gen.ArrayListFns.growth_overflowed cs nec = decide (nec < cs) := by
  refine ⟨?_, ?_, ?_⟩
  · unfold Gen.ArrayListFns.growth_new_size growthNewSize
    simp only [Nat.shiftLeft_eq, Nat.pow_one]
  · unfold Gen.ArrayListFns.needs_growth
    by_cases h : cs < nec <;> simp [h]
  · unfold Gen.ArrayListFns.growth_overflowed
    by_cases h : nec < cs <;> simp [h]

theorem gen_slices (n : Nat) :
    Gen.ArrayListFns.slice = SLICE ∧ Gen.ArrayListFns.slice_count n = n / SLICE ∧
    Gen.ArrayListFns.slice_remainder n = n &&& (SLICE - 1) := by
  refine ⟨rfl, rfl, rfl⟩

/-- `pop_front_n`: the model's decisions (`n ≥ length` pops everything, else `n > 0` moves) and its byte counts
are the generated ones (the C products wrap modulo 2^64; below `length` and with `length * item_size ≤ SIZE_MAX`,
which `Rel` guarantees, they do not) -/
theorem gen_popFrontN (isz len n : Nat) :
    Gen.ArrayListFns.pop_front_n_all isz len n = decide (n ≥ len) ∧
    Gen.ArrayListFns.pop_front_n_some isz len n = decide (n > 0) ∧
    (n < len → 0 < isz → len * isz ≤ SIZE_MAX →
      Gen.ArrayListFns.pop_front_n_popping isz len n = n * isz ∧
      Gen.ArrayListFns.pop_front_n_length isz len n = len - n ∧
      Gen.ArrayListFns.pop_front_n_remaining isz len n = (len - n) * isz) := by
  refine ⟨?_, ?_, fun hn hz hfit => ?_⟩
  · unfold Gen.ArrayListFns.pop_front_n_all
    by_cases h : n ≥ len <;> simp [h]
  · unfold Gen.ArrayListFns.pop_front_n_some
    by_cases h : n > 0 <;> simp [h]
  · simp only [SIZE_MAX] at hfit
    have h1 : n * isz ≤ len * isz := Nat.mul_le_mul_right isz (Nat.le_of_lt hn)
    have h2 : (len - n) * isz ≤ len * isz := Nat.mul_le_mul_right isz (Nat.sub_le len n)
    have hlen : len < 18446744073709551616 := by
      have := Nat.le_mul_of_pos_right len hz
      omega
    unfold Gen.ArrayListFns.pop_front_n_popping Gen.ArrayListFns.pop_front_n_length Gen.ArrayListFns.pop_front_n_remaining
    have e1 : (len + 18446744073709551616 - n) % 18446744073709551616 = len - n := by
      have : len + 18446744073709551616 - n = (len - n) + 18446744073709551616 := by omega
      rw [this, Nat.add_mod_right]; exact Nat.mod_eq_of_lt (by omega)
    refine ⟨?_, e1, ?_⟩
    · rw [Nat.mul_comm isz n]; exact Nat.mod_eq_of_lt (by omega)
    · simp only [e1]; exact Nat.mod_eq_of_lt (by omega)

theorem gen_index_guards (len i : Nat) :
    Gen.ArrayListFns.get_at_ok len i = decide (len > i) ∧ Gen.ArrayListFns.get_at_ptr_ok len i = decide (len > i) ∧
    Gen.ArrayListFns.erase_bad_index len i = decide (i ≥ len) := by
  refine ⟨?_, ?_, ?_⟩
  · unfold Gen.ArrayListFns.get_at_ok; by_cases h : len > i <;> simp [h]
  · unfold Gen.ArrayListFns.get_at_ptr_ok; by_cases h : len > i <;> simp [h]
  · unfold Gen.ArrayListFns.erase_bad_index; by_cases h : i ≥ len <;> simp [h]

/-- the model's `ensure_capacity`, spelled with the generated functions -/
theorem ensureCapacity_gen (l : AL) (index : Nat) :
    ensureCapacity l index =
      match Gen.ArrayListFns.calc_necessary_size l.itemSize index with
      | .err _ => .error .overflow
      | .ok nec =>
        if Gen.ArrayListFns.needs_growth l.data.length nec then
          if !l.dyn then .error .invalidIndex
          else if Gen.ArrayListFns.growth_overflowed l.data.length (Gen.ArrayListFns.growth_new_size l.data.length nec)
          then .error .exceedsMax
          else .ok { l with data := l.data ++ List.replicate (Gen.ArrayListFns.growth_new_size l.data.length nec - l.data.length) none }
        else .ok l := by
  rw [gen_calc]
  unfold ensureCapacity
  cases hc : calcNecessarySize l.itemSize index with
  | error e =>
    have : e = .overflow := by
      unfold calcNecessarySize at hc
      split at hc
      · cases hc; rfl
      · split at hc
        · cases hc; rfl
        · cases hc
    simp only [resOfCalc, this]
  | ok nec =>
    simp only [resOfCalc, (gen_growth _ _).1, (gen_growth _ _).2.1, (gen_growth _ _).2.2, decide_eq_true_eq]

end AwsVerif.Proofs.C09
