import AwsVerif.Proofs.C09.LLList
/-! `swap_nodes(a, b)`: the resulting heap is the old one with the names `a` and `b` exchanged, whether
the two nodes are adjacent (either order), distant, or in different lists. -/
set_option linter.unusedSimpArgs false
namespace AwsVerif.Proofs.C09
open AwsVerif.LinkedList

/-- the transposition of `a` and `b` -/
def sw (a b m : NodeId) : NodeId := if m = a then b else if m = b then a else m

theorem sw_invol (a b m : NodeId) : sw a b (sw a b m) = m := by
  unfold sw
  by_cases h1 : m = a
  · subst h1; by_cases h2 : b = m <;> simp [h2]
  · by_cases h2 : m = b
    · subst h2; simp [h1]
    · simp [h1, h2]

theorem sw_inj (a b : NodeId) : Function.Injective (sw a b) := fun x y e => by
  have := congrArg (sw a b) e
  rwa [sw_invol, sw_invol] at this

theorem sw_other {a b m : NodeId} (h1 : m ≠ a) (h2 : m ≠ b) : sw a b m = m := by simp [sw, h1, h2]

theorem sw_left (a b : NodeId) : sw a b a = b := by simp [sw]

theorem sw_right (a b : NodeId) : sw a b b = a := by
  unfold sw; by_cases h : b = a <;> simp [h]

theorem nodup_map_sw (a b : NodeId) {c : List NodeId} (h : c.Nodup) : (c.map (sw a b)).Nodup := by
  unfold List.Nodup at h ⊢
  exact List.Pairwise.map _ (fun x y hxy e => hxy (sw_inj a b e)) h

theorem sw_self (a m : NodeId) : sw a a m = m := by
  unfold sw; by_cases h : m = a <;> simp [h]

/-- the four pointer stores and the exchange of the two structs, in terms of the old heap -/
structure NodeSwapSpec (h h' : Heap) (a b ap an bp bn : NodeId) : Prop where
  next : ∀ m, (h' m).next = if sw a b m = bp then some a else if sw a b m = ap then some b else (h (sw a b m)).next
  prev : ∀ m, (h' m).prev = if sw a b m = bn then some a else if sw a b m = an then some b else (h (sw a b m)).prev

theorem swapNodes_spec {h : Heap} {a b ap an bp bn : NodeId} (hab : a ≠ b) (l1 : Link h ap a) (l2 : Link h a an)
    (l3 : Link h bp b) (l4 : Link h b bn) (hapa : ap ≠ a) :
    ∃ h', swapNodes h a b = some h' ∧ NodeSwapSpec h h' a b ap an bp bn := by
  have e1 : (h a).prev = some ap := l1.2
  have e2 : (setNext h ap (some b) a).next = some an := by simp [Ne.symm hapa, l2.1]
  have e3 : (h b).prev = some bp := l3.2
  have e4 : (h b).next = some bn := l4.1
  refine ⟨_, (by simp only [swapNodes, if_neg hab, e1, e2, e3, e4]; rfl), ?_, ?_⟩
  · intro m
    by_cases c1 : m = b
    · subst c1
      have : sw a m m = a := sw_right a m
      simp [this]
    · by_cases c2 : m = a
      · subst c2
        have : sw m b m = b := sw_left m b
        simp [this, c1]
      · simp [sw_other c2 c1, c1, c2]
  · intro m
    by_cases c1 : m = b
    · subst c1
      have : sw a m m = a := sw_right a m
      simp [this]
    · by_cases c2 : m = a
      · subst c2
        have : sw m b m = b := sw_left m b
        simp [this, c1]
      · simp [sw_other c2 c1, c1, c2]

/-- every bidirectional edge of the old heap is an edge between the renamed nodes in the new heap -/
theorem swap_link {h h' : Heap} {a b ap an bp bn : NodeId} (l1 : Link h ap a) (l2 : Link h a an)
    (l3 : Link h bp b) (l4 : Link h b bn) (hs : NodeSwapSpec h h' a b ap an bp bn) {x y : NodeId} (hl : Link h x y) :
    Link h' (sw a b x) (sw a b y) := by
  constructor
  · rw [hs.next, sw_invol]
    by_cases c1 : x = bp
    · rw [if_pos c1]
      have : y = b := by have := l3.1; rw [← c1, hl.1] at this; exact Option.some.inj this
      rw [this, sw_right]
    · rw [if_neg c1]
      by_cases c2 : x = ap
      · rw [if_pos c2]
        have : y = a := by have := l1.1; rw [← c2, hl.1] at this; exact Option.some.inj this
        rw [this, sw_left]
      · rw [if_neg c2, hl.1]
        have ya : y ≠ a := by
          intro c; apply c2
          have := l1.2; rw [← c, hl.2] at this; exact Option.some.inj this
        have yb : y ≠ b := by
          intro c; apply c1
          have := l3.2; rw [← c, hl.2] at this; exact Option.some.inj this
        rw [sw_other ya yb]
  · rw [hs.prev, sw_invol]
    by_cases c1 : y = bn
    · rw [if_pos c1]
      have : x = b := by have := l4.2; rw [← c1, hl.2] at this; exact Option.some.inj this
      rw [this, sw_right]
    · rw [if_neg c1]
      by_cases c2 : y = an
      · rw [if_pos c2]
        have : x = a := by have := l2.2; rw [← c2, hl.2] at this; exact Option.some.inj this
        rw [this, sw_left]
      · rw [if_neg c2, hl.2]
        have xa : x ≠ a := by
          intro c; apply c2
          have := l2.1; rw [← c, hl.1] at this; exact Option.some.inj this
        have xb : x ≠ b := by
          intro c; apply c1
          have := l4.1; rw [← c, hl.1] at this; exact Option.some.inj this
        rw [sw_other xa xb]

theorem ch_map {h h' : Heap} {f : NodeId → NodeId} (hf : ∀ x y, Link h x y → Link h' (f x) (f y)) :
    ∀ {c : List NodeId}, Ch h c → Ch h' (c.map f)
  | [], _ => trivial
  | [_], _ => trivial
  | x :: y :: r, hc => ⟨hf x y hc.1, ch_map hf (c := y :: r) hc.2⟩

/-- any well-linked list (whether it contains `a`, `b`, both or neither) holds the renamed sequence
afterwards -/
theorem wl_swap {h h' : Heap} {a b ap an bp bn : NodeId} (l1 : Link h ap a) (l2 : Link h a an)
    (l3 : Link h bp b) (l4 : Link h b bn) (hs : NodeSwapSpec h h' a b ap an bp bn)
    {l : LL} {xs : List NodeId} (w : WellLinked h l xs)
    (hh : l.head ≠ a ∧ l.head ≠ b) (ht : l.tail ≠ a ∧ l.tail ≠ b) : WellLinked h' l (xs.map (sw a b)) := by
  have e : l.head :: xs.map (sw a b) ++ [l.tail] = (l.head :: xs ++ [l.tail]).map (sw a b) := by
    simp [sw_other hh.1 hh.2, sw_other ht.1 ht.2]
  refine ⟨by rw [e]; exact ch_map (fun x y hl => swap_link l1 l2 l3 l4 hs hl) w.ch,
    by rw [e]; exact nodup_map_sw a b w.nodup, ?_, ?_⟩
  · rw [hs.prev, sw_other hh.1 hh.2]
    have c1 : l.head ≠ bn := by
      intro c; have := l4.2; rw [← c, w.headPrev] at this; cases this
    have c2 : l.head ≠ an := by
      intro c; have := l2.2; rw [← c, w.headPrev] at this; cases this
    rw [if_neg c1, if_neg c2]; exact w.headPrev
  · rw [hs.next, sw_other ht.1 ht.2]
    have c1 : l.tail ≠ bp := by
      intro c; have := l3.1; rw [← c, w.tailNext] at this; cases this
    have c2 : l.tail ≠ ap := by
      intro c; have := l1.1; rw [← c, w.tailNext] at this; cases this
    rw [if_neg c1, if_neg c2]; exact w.tailNext

/-- a member of a well-linked list has a linked predecessor and successor -/
theorem mem_links {h : Heap} {l : LL} {xs : List NodeId} (w : WellLinked h l xs) {a : NodeId} (ha : a ∈ xs) :
    ∃ p n, Link h p a ∧ Link h a n ∧ p ≠ a := by
  obtain ⟨ys, zs, rfl⟩ := List.append_of_mem ha
  obtain ⟨c1, p, ec⟩ := snoc_exists l.head ys
  obtain ⟨q, c2, ec2⟩ := cons_exists zs l.tail
  have e : chainOf l (ys ++ a :: zs) = c1 ++ p :: a :: q :: c2 := by
    simp only [chainOf]; rw [← List.cons_append, ec]; simp [ec2]
  have hc := w.ch
  have hnd := w.nodup
  rw [show l.head :: (ys ++ a :: zs) ++ [l.tail] = chainOf l (ys ++ a :: zs) from rfl, e] at hnd hc
  obtain ⟨_, dpa, _⟩ := nodup_split hnd
  exact ⟨p, q, link_of_ch hc, link_of_ch (c1 := c1 ++ [p]) (by simpa using hc), dpa⟩

/-- `swap_nodes(a, b)` for two list members -/
theorem ll_swapNodes {h : Heap} {la lb : LL} {xa xb : List NodeId} {a b : NodeId}
    (wa : WellLinked h la xa) (wb : WellLinked h lb xb) (ha : a ∈ xa) (hb : b ∈ xb) :
    ∃ h', swapNodes h a b = some h' ∧
      ∀ (l : LL) (xs : List NodeId), WellLinked h l xs → l.head ≠ a → l.head ≠ b → l.tail ≠ a → l.tail ≠ b →
        WellLinked h' l (xs.map (sw a b)) := by
  by_cases hab : a = b
  · subst hab
    refine ⟨h, by simp [swapNodes], fun l xs w _ _ _ _ => ?_⟩
    have : xs.map (sw a a) = xs := by
      conv => rhs; rw [← List.map_id xs]
      exact List.map_congr_left (fun m _ => sw_self a m)
    rw [this]; exact w
  · obtain ⟨ap, an, l1, l2, hapa⟩ := mem_links wa ha
    obtain ⟨bp, bn, l3, l4, _⟩ := mem_links wb hb
    obtain ⟨h', he, hs⟩ := swapNodes_spec hab l1 l2 l3 l4 hapa
    exact ⟨h', he, fun l xs w h1 h2 h3 h4 => wl_swap l1 l2 l3 l4 hs w ⟨h1, h2⟩ ⟨h3, h4⟩⟩

end AwsVerif.Proofs.C09
