import AwsVerif.Proofs.C09.ALSort
/-! `aws_array_list_is_valid`, `init_static_from_initialized`, `get_at_ptr` against the refinement relation. -/
namespace AwsVerif.Proofs.C09
open AwsVerif.ArrayList

/-- every state related to a reference sequence is one the library itself calls valid -/
theorem rel_isValid {l : AL} {r : RefL} (h : Rel l r) : isValid l = true := by
  have hfit := h.fit
  have hmax := h.max
  have hpos := h.pos
  unfold isValid isValidRaw
  rw [h.len, h.isz]
  have e : r.items.length * r.isz % 2 ^ 64 = r.items.length * r.isz := Nat.mod_eq_of_lt (by simp only [SIZE_MAX] at hmax; omega)
  rw [e]
  by_cases h0 : l.data.length = 0
  · have hz : r.items.length * r.isz = 0 := by omega
    simp only [h0, hz, if_true, ne_eq, not_true_eq_false, if_false, Bool.and_true, Bool.and_eq_true, decide_eq_true_eq]
    exact ⟨⟨by simp [SIZE_MAX], rfl⟩, by omega⟩
  · have : (l.data.length == 0) = false := by simp [h0]
    simp only [this, h0, if_false, ne_eq, not_false_eq_true, if_true, Bool.not_false, Bool.and_true, Bool.and_eq_true,
      decide_eq_true_eq]
    exact ⟨⟨by omega, hfit⟩, by omega⟩

theorem rel_getAtPtr {l : AL} {r : RefL} (h : Rel l r) (i : Nat) :
    getAtPtr l i = if i < r.items.length then .ok (i * r.isz) else .error .invalidIndex := by
  unfold getAtPtr
  rw [h.len, h.isz]

/-- `init_static_from_initialized` over an array that holds the elements `vals` -/
theorem rel_initFull {vals : List (List UInt8)} {isz : Nat} {l : AL} (hv : ∀ v, v ∈ vals → v.length = isz)
    (h : initStaticFromInitialized ((vals.map (fun v => v.map some)).flatten) vals.length isz = .ok l) :
    Rel l ⟨vals.map some, isz, some vals.length⟩ := by
  unfold initStaticFromInitialized at h
  split at h
  · cases h
  · rename_i hn
    cases h
    simp only [not_or, Nat.not_lt, ne_eq, Decidable.not_not] at hn
    obtain ⟨hz, _, hmax, hlen⟩ := hn
    have hL : ∀ e, e ∈ vals.map (fun v => v.map some) → e.length = isz := by
      intro e he
      obtain ⟨v, hvm, rfl⟩ := List.mem_map.mp he
      rw [List.length_map]; exact hv v hvm
    refine ⟨rfl, by show 0 < isz; omega, by simp, by simp only [List.length_map]; omega,
      by simp only; omega, rfl, fun c hc => (by cases hc; exact hlen), ?_⟩
    intro i w hw
    simp only at hw ⊢
    rw [List.getElem?_map] at hw
    cases hvi : vals[i]? with
    | none => rw [hvi] at hw; cases hw
    | some w' =>
      rw [hvi] at hw
      simp only [Option.map_some, Option.some.injEq] at hw
      subst hw
      have hwl : w'.length = isz := hv w' (List.mem_of_getElem? hvi)
      refine holds_written hwl (fun j hj => ?_)
      have hSi : (vals.map (fun v => v.map some))[i]? = some (w'.map some) := by rw [List.getElem?_map, hvi]; rfl
      have := flatten_get (rest := []) hL i j _ hSi hj
      simpa using this

end AwsVerif.Proofs.C09
