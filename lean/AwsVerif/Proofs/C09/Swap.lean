import AwsVerif.Proofs.C09.Region
/-! `aws_array_list_mem_swap`: the slice loop plus remainder exchanges exactly the two ranges. -/
namespace AwsVerif.Proofs.C09
open AwsVerif.ArrayList

/-- `d'` is `d` with the `n`-byte ranges at `o1` and `o2` exchanged, everything else untouched -/
def SwapSpec (d d' : Region) (o1 o2 n : Nat) : Prop :=
  d'.length = d.length ∧
  ∀ k, d'[k]? = if o1 ≤ k ∧ k < o1 + n then d[o2 + (k - o1)]?
               else if o2 ≤ k ∧ k < o2 + n then d[o1 + (k - o2)]? else d[k]?

theorem swapSpec_zero (d : Region) (o1 o2 : Nat) : SwapSpec d d o1 o2 0 := by
  refine ⟨rfl, fun k => ?_⟩
  have h1 : ¬ (o1 ≤ k ∧ k < o1 + 0) := by omega
  have h2 : ¬ (o2 ≤ k ∧ k < o2 + 0) := by omega
  rw [if_neg h1, if_neg h2]

theorem swapSlice_spec {d : Region} {o1 o2 n : Nat} (h1 : o1 + n ≤ d.length) (h2 : o2 + n ≤ d.length)
    (hd : o1 + n ≤ o2 ∨ o2 + n ≤ o1) : ∃ d', swapSlice d o1 o2 n = some d' ∧ SwapSpec d d' o1 o2 n := by
  obtain ⟨tmp, hr1⟩ : ∃ t, d.read o1 n = some t := ⟨_, read_some h1⟩
  obtain ⟨s, hr2⟩ : ∃ t, d.read o2 n = some t := ⟨_, read_some h2⟩
  have hl1 := read_length hr1
  have hl2 := read_length hr2
  obtain ⟨d1, hw1⟩ : ∃ t, d.write o1 s = some t := ⟨_, write_some (by rw [hl2]; exact h1)⟩
  have hlen1 := write_length hw1
  obtain ⟨d2, hw2⟩ : ∃ t, d1.write o2 tmp = some t := ⟨_, write_some (by rw [hl1, hlen1]; exact h2)⟩
  refine ⟨d2, ?_, ?_, fun k => ?_⟩
  · simp only [swapSlice, hr1, hr2, hw1, hw2]
  · rw [write_length hw2, hlen1]
  · rw [write_get hw2 k, hl1]
    by_cases c2 : o2 ≤ k ∧ k < o2 + n
    · have c1 : ¬ (o1 ≤ k ∧ k < o1 + n) := by omega
      rw [if_pos c2, if_neg c1, if_pos c2, read_get hr1]
      have : k - o2 < n := by omega
      rw [if_pos this]
    · rw [if_neg c2, write_get hw1 k, hl2]
      by_cases c1 : o1 ≤ k ∧ k < o1 + n
      · rw [if_pos c1, if_pos c1, read_get hr2]
        have : k - o1 < n := by omega
        rw [if_pos this]
      · rw [if_neg c1, if_neg c1, if_neg c2]

/-- two consecutive exchanges compose to the exchange of the concatenated ranges -/
theorem swapSpec_append {d d1 d2 : Region} {o1 o2 a b : Nat}
    (hd : o1 + (a + b) ≤ o2 ∨ o2 + (a + b) ≤ o1)
    (s1 : SwapSpec d d1 o1 o2 a) (s2 : SwapSpec d1 d2 (o1 + a) (o2 + a) b) : SwapSpec d d2 o1 o2 (a + b) := by
  refine ⟨by rw [s2.1, s1.1], fun k => ?_⟩
  rw [s2.2 k]
  by_cases c1 : o1 + a ≤ k ∧ k < o1 + a + b
  · rw [if_pos c1, s1.2]
    have n1 : ¬ (o1 ≤ o2 + a + (k - (o1 + a)) ∧ o2 + a + (k - (o1 + a)) < o1 + a) := by omega
    have n2 : ¬ (o2 ≤ o2 + a + (k - (o1 + a)) ∧ o2 + a + (k - (o1 + a)) < o2 + a) := by omega
    have p : o1 ≤ k ∧ k < o1 + (a + b) := by omega
    rw [if_neg n1, if_neg n2, if_pos p]
    congr 1; omega
  · rw [if_neg c1]
    by_cases c2 : o2 + a ≤ k ∧ k < o2 + a + b
    · rw [if_pos c2, s1.2]
      have n1 : ¬ (o1 ≤ o1 + a + (k - (o2 + a)) ∧ o1 + a + (k - (o2 + a)) < o1 + a) := by omega
      have n2 : ¬ (o2 ≤ o1 + a + (k - (o2 + a)) ∧ o1 + a + (k - (o2 + a)) < o2 + a) := by omega
      have p1 : ¬ (o1 ≤ k ∧ k < o1 + (a + b)) := by omega
      have p2 : o2 ≤ k ∧ k < o2 + (a + b) := by omega
      rw [if_neg n1, if_neg n2, if_neg p1, if_pos p2]
      congr 1; omega
    · rw [if_neg c2, s1.2]
      by_cases e1 : o1 ≤ k ∧ k < o1 + a
      · have p : o1 ≤ k ∧ k < o1 + (a + b) := by omega
        rw [if_pos e1, if_pos p]
      · have p : ¬ (o1 ≤ k ∧ k < o1 + (a + b)) := by omega
        rw [if_neg e1, if_neg p]
        by_cases e2 : o2 ≤ k ∧ k < o2 + a
        · have q : o2 ≤ k ∧ k < o2 + (a + b) := by omega
          rw [if_pos e2, if_pos q]
        · have q : ¬ (o2 ≤ k ∧ k < o2 + (a + b)) := by omega
          rw [if_neg e2, if_neg q]

/-- the `for` loop: after `k` slices the first `k*128` bytes are exchanged and both pointers advanced -/
theorem swapLoop_spec (k : Nat) : ∀ {d : Region} {o1 o2 : Nat}, o1 + k * SLICE ≤ d.length → o2 + k * SLICE ≤ d.length →
    (o1 + k * SLICE ≤ o2 ∨ o2 + k * SLICE ≤ o1) →
    ∃ d', swapLoop d o1 o2 k = some (d', o1 + k * SLICE, o2 + k * SLICE) ∧ SwapSpec d d' o1 o2 (k * SLICE) := by
  induction k with
  | zero =>
    intro d o1 o2 _ _ _
    exact ⟨d, by simp [swapLoop], by simpa using swapSpec_zero d o1 o2⟩
  | succ k ih =>
    intro d o1 o2 h1 h2 hd
    have e : (k + 1) * SLICE = SLICE + k * SLICE := by rw [Nat.succ_mul]; omega
    rw [e] at h1 h2 hd ⊢
    obtain ⟨d1, hs, sp1⟩ := swapSlice_spec (d := d) (o1 := o1) (o2 := o2) (n := SLICE) (by omega) (by omega) (by omega)
    have hl := sp1.1
    obtain ⟨d2, hl2, sp2⟩ := ih (d := d1) (o1 := o1 + SLICE) (o2 := o2 + SLICE) (by omega) (by omega) (by omega)
    refine ⟨d2, ?_, swapSpec_append (by omega) sp1 sp2⟩
    have e1 : o1 + SLICE + k * SLICE = o1 + (SLICE + k * SLICE) := by omega
    have e2 : o2 + SLICE + k * SLICE = o2 + (SLICE + k * SLICE) := by omega
    simp only [swapLoop, hs, hl2, e1, e2]

theorem and_slice_mask (n : Nat) : n &&& (SLICE - 1) = n % SLICE := by
  have := Nat.and_two_pow_sub_one_eq_mod n 7
  simpa [SLICE] using this

theorem memSwap_spec {d : Region} {o1 o2 n : Nat} (h1 : o1 + n ≤ d.length) (h2 : o2 + n ≤ d.length)
    (hd : o1 + n ≤ o2 ∨ o2 + n ≤ o1) : ∃ d', memSwap d o1 o2 n = some d' ∧ SwapSpec d d' o1 o2 n := by
  have hn : n = n / SLICE * SLICE + n % SLICE := by
    have := Nat.div_add_mod n SLICE
    rw [Nat.mul_comm] at this; omega
  obtain ⟨d1, hl, sp1⟩ := swapLoop_spec (n / SLICE) (d := d) (o1 := o1) (o2 := o2) (by omega) (by omega) (by omega)
  unfold memSwap
  rw [hl]
  simp only [and_slice_mask]
  by_cases hr : n % SLICE = 0
  · simp only [hr, ne_eq, not_true_eq_false, if_false]
    refine ⟨d1, rfl, ?_⟩
    have : n / SLICE * SLICE = n := by omega
    rw [this] at sp1; exact sp1
  · simp only [ne_eq, hr, not_false_eq_true, if_true]
    obtain ⟨d2, hs, sp2⟩ := swapSlice_spec (d := d1) (o1 := o1 + n / SLICE * SLICE) (o2 := o2 + n / SLICE * SLICE) (n := n % SLICE)
      (by rw [sp1.1]; omega) (by rw [sp1.1]; omega) (by omega)
    refine ⟨d2, hs, ?_⟩
    have := swapSpec_append (by omega) sp1 sp2
    rw [← hn] at this
    exact this

end AwsVerif.Proofs.C09
