import AwsVerif.Proofs.C09.ALSpec
import AwsVerif.Proofs.C09.Region
import AwsVerif.Proofs.C09.Swap
/-! Per-operation simulation lemmas: every array-list function maps `Rel`-related states to
`Rel`-related states and returns the code the reference predicts. -/
namespace AwsVerif.Proofs.C09
open AwsVerif.ArrayList

theorem idx_le {i n s : Nat} (h : i < n) : i * s + s ≤ n * s := by
  have := Nat.mul_le_mul_right s (Nat.succ_le_of_lt h)
  rw [Nat.succ_mul] at this; exact this

theorem idx_le' {i n s : Nat} (h : i ≤ n) : i * s ≤ n * s := Nat.mul_le_mul_right s h

theorem lt_len {α} {xs : List α} {i : Nat} {x : α} (h : xs[i]? = some x) : i < xs.length := by
  obtain ⟨h', _⟩ := List.getElem?_eq_some_iff.mp h; exact h'

theorem map_some_get {v : List UInt8} {j : Nat} (hj : j < v.length) : (v.map some)[j]? = some (v[j]?) := by
  rw [List.getElem?_map, List.getElem?_eq_getElem hj]; rfl

theorem holds_transport {d d' : Region} {s i i' : Nat} {v : List UInt8} (h : Holds d s i v)
    (e : ∀ j, j < s → d'[i' * s + j]? = d[i * s + j]?) : Holds d' s i' v :=
  ⟨h.1, fun j hj => by rw [e j hj]; exact h.2 j hj⟩

theorem holds_same {d d' : Region} {s i : Nat} {v : List UInt8} (h : Holds d s i v)
    (e : ∀ k, i * s ≤ k → k < i * s + s → d'[k]? = d[k]?) : Holds d' s i v :=
  holds_transport h (fun j hj => e _ (by omega) (by omega))

theorem holds_written {d' : Region} {s i : Nat} {v : List UInt8} (hv : v.length = s)
    (e : ∀ j, j < s → d'[i * s + j]? = (v.map some)[j]?) : Holds d' s i v :=
  ⟨hv, fun j hj => by rw [e j hj]; exact map_some_get (by omega)⟩

/-- ensure_capacity: the reference predicts the error; on success the prefix is preserved -/
theorem ensure_sim {l : AL} {r : RefL} (h : Rel l r) (i : Nat) :
    match r.ensureErr i with
    | some e => ensureCapacity l i = .error e
    | none => ∃ l', ensureCapacity l i = .ok l' ∧ Rel l' r ∧ (i + 1) * r.isz ≤ l'.data.length ∧
        l'.length = l.length ∧ l'.itemSize = l.itemSize ∧ l'.dyn = l.dyn ∧ l.data.length ≤ l'.data.length := by
  unfold RefL.ensureErr
  by_cases hov : i + 1 > SIZE_MAX ∨ (i + 1) * r.isz > SIZE_MAX
  · rw [if_pos hov]
    simp only [ensureCapacity, calcNecessarySize, h.isz]
    rcases hov with h1 | h2
    · simp [h1]
    · by_cases h1 : i + 1 > SIZE_MAX
      · simp [h1]
      · simp [h1, h2]
  · rw [if_neg hov]
    have h1 : ¬ i + 1 > SIZE_MAX := fun c => hov (Or.inl c)
    have h2 : ¬ (i + 1) * r.isz > SIZE_MAX := fun c => hov (Or.inr c)
    have hcalc : calcNecessarySize l.itemSize i = .ok ((i + 1) * r.isz) := by
      simp only [calcNecessarySize, h.isz, if_neg h1, if_neg h2]
    cases hc : r.cap with
    | some c =>
      have hdyn : l.dyn = false := by rw [h.dyn, hc]; rfl
      have hcs := h.cap c hc
      by_cases hci : c ≤ i
      · simp only [if_pos hci]
        have : l.data.length < (i + 1) * r.isz := by
          rw [hcs]; exact (Nat.mul_lt_mul_right h.pos).mpr (by omega)
        simp only [ensureCapacity, hcalc, if_pos this, hdyn]
        rfl
      · simp only [if_neg hci]
        have : ¬ l.data.length < (i + 1) * r.isz := by
          rw [hcs]; have := idx_le' (s := r.isz) (show i + 1 ≤ c by omega); omega
        refine ⟨l, ?_, h, by omega, rfl, rfl, rfl, Nat.le_refl _⟩
        simp only [ensureCapacity, hcalc, if_neg this]
    | none =>
      have hdyn : l.dyn = true := by rw [h.dyn, hc]; rfl
      by_cases hlt : l.data.length < (i + 1) * r.isz
      · simp only [ensureCapacity, growthNewSize, hcalc, if_pos hlt, hdyn]
        generalize hns : (if l.data.length * 2 % 2 ^ 64 > (i + 1) * r.isz then l.data.length * 2 % 2 ^ 64 else (i + 1) * r.isz) = newSize
        have hge : (i + 1) * r.isz ≤ newSize := by rw [← hns]; split <;> omega
        have hmax : newSize ≤ SIZE_MAX := by
          rw [← hns]; split
          · have : l.data.length * 2 % 2 ^ 64 < 2 ^ 64 := Nat.mod_lt _ (by decide)
            simp only [SIZE_MAX]; omega
          · omega
        have hnl : ¬ newSize < l.data.length := by omega
        simp only [Bool.not_true, Bool.false_eq_true, if_false, if_neg hnl]
        refine ⟨_, rfl, ?_, ?_, rfl, rfl, rfl, ?_⟩
        · refine ⟨h.isz, h.pos, h.len, ?_, ?_, by rw [hc]; rfl, ?_, ?_⟩
          · simp only [List.length_append, List.length_replicate]; have := h.fit; omega
          · simp only [List.length_append, List.length_replicate]; omega
          · intro c hc'; rw [hc] at hc'; cases hc'
          · intro k v hk
            refine holds_same (h.elems k v hk) (fun q _ hq => ?_)
            have := idx_le (s := r.isz) (lt_len hk)
            have := h.fit
            exact List.getElem?_append_left (by omega)
        · simp only [List.length_append, List.length_replicate]; omega
        · simp only [List.length_append, List.length_replicate]; omega
      · refine ⟨l, ?_, h, by omega, rfl, rfl, rfl, Nat.le_refl _⟩
        simp only [ensureCapacity, hcalc, if_neg hlt]


theorem elem_disj {k i s q : Nat} (hne : k ≠ i) (hq1 : k * s ≤ q) (hq2 : q < k * s + s) :
    ¬ (i * s ≤ q ∧ q < i * s + s) := by
  rcases Nat.lt_or_gt_of_ne hne with hlt | hgt
  · have := idx_le (s := s) hlt; omega
  · have := idx_le (s := s) hgt; omega

theorem ensureErr_none {r : RefL} {i : Nat} (h : r.ensureErr i = none) : i + 1 ≤ SIZE_MAX := by
  unfold RefL.ensureErr at h
  by_cases hov : i + 1 > SIZE_MAX ∨ (i + 1) * r.isz > SIZE_MAX
  · rw [if_pos hov] at h; cases h
  · have : ¬ i + 1 > SIZE_MAX := fun c => hov (Or.inl c)
    omega

theorem sim_setAt {l : AL} {r : RefL} (h : Rel l r) (i : Nat) (v : List UInt8) (hv : v.length = l.itemSize) :
    Rel (setAt l v i).1 (refStep r (.setAt i v)).1 ∧ (setAt l v i).2 = (refStep r (.setAt i v)).2 := by
  have hs := ensure_sim h i
  unfold refStep
  cases he : r.ensureErr i with
  | some e =>
    rw [he] at hs
    simp only [setAt, hs, he]
    exact ⟨h, trivial⟩
  | none =>
    rw [he] at hs
    simp only [he]
    obtain ⟨l1, hl1, h1, hcap, hlen, hisz, _, _⟩ := hs
    have hmax := ensureErr_none he
    have hpos := h.pos
    have hsm : (i + 1) * r.isz = i * r.isz + r.isz := Nat.succ_mul _ _
    have hne : l1.data.length ≠ 0 := by omega
    have hvl : (v.map some).length = r.isz := by rw [List.length_map, hv, h.isz]
    have hi1 : l1.itemSize = r.isz := h1.isz
    obtain ⟨d, hw⟩ : ∃ d, l1.data.write (i * l1.itemSize) (v.map some) = some d :=
      ⟨_, write_some (by rw [hvl, hi1]; omega)⟩
    have hwl := write_length hw
    have hwg := write_get hw
    rw [hvl, hi1] at hwg
    simp only [setAt, hl1, if_neg hne, hw]
    have hnm : ¬ i + 1 > SIZE_MAX := by omega
    by_cases hge : i ≥ l1.length
    · have hlt : ¬ i < r.items.length := by rw [← h.len, ← hlen]; omega
      simp only [ge_iff_le, hge, if_true, if_neg hnm, if_neg hlt]
      refine ⟨⟨hi1, hpos, ?_, ?_, by rw [hwl]; exact h1.max, h1.dyn, by rw [hwl]; exact h1.cap, ?_⟩, trivial⟩
      · simp only [List.length_append, List.length_replicate, List.length_cons, List.length_nil]; omega
      · simp only [List.length_append, List.length_replicate, List.length_cons, List.length_nil, hwl]
        have : r.items.length + (i - r.items.length) + (0 + 1) = i + 1 := by omega
        rw [this]; exact hcap
      · intro k w hk
        simp only at hk ⊢
        rw [List.append_assoc, List.getElem?_append] at hk
        by_cases hkl : k < r.items.length
        · rw [if_pos hkl] at hk
          refine holds_same (h1.elems k w hk) (fun q q1 q2 => ?_)
          rw [hwg q, if_neg (elem_disj (by omega) q1 q2)]
        · rw [if_neg hkl, List.getElem?_append, List.length_replicate] at hk
          by_cases hk2 : k - r.items.length < i - r.items.length
          · rw [if_pos hk2, List.getElem?_replicate, if_pos hk2] at hk; cases hk
          · rw [if_neg hk2] at hk
            have hlt' := lt_len hk
            simp only [List.length_cons, List.length_nil] at hlt'
            have hki : k = i := by omega
            have : k - r.items.length - (i - r.items.length) = 0 := by omega
            rw [this] at hk
            simp only [List.getElem?_cons_zero, Option.some.injEq] at hk
            subst hk; subst hki
            refine holds_written (by rw [hv, h.isz]) (fun j hj => ?_)
            rw [hwg, if_pos (by omega)]
            congr 1; omega
    · have hlt : i < r.items.length := by rw [← h.len, ← hlen]; omega
      simp only [ge_iff_le, hge, if_false, if_pos hlt]
      refine ⟨⟨hi1, hpos, ?_, ?_, by rw [hwl]; exact h1.max, h1.dyn, by rw [hwl]; exact h1.cap, ?_⟩, trivial⟩
      · simp only [List.length_set]; exact h1.len
      · simp only [List.length_set, hwl]; exact h1.fit
      · intro k w hk
        simp only at hk ⊢
        rw [List.getElem?_set] at hk
        by_cases hik : i = k
        · rw [if_pos hik, if_pos hlt] at hk
          simp only [Option.some.injEq] at hk
          subst hk; subst hik
          refine holds_written (by rw [hv, h.isz]) (fun j hj => ?_)
          rw [hwg, if_pos (by omega)]
          congr 1; omega
        · rw [if_neg hik] at hk
          refine holds_same (h1.elems k w hk) (fun q q1 q2 => ?_)
          rw [hwg q, if_neg (elem_disj (by omega) q1 q2)]


theorem ensureErr_cases {r : RefL} {i : Nat} {e : Err} (h : r.ensureErr i = some e) :
    e = .overflow ∨ (e = .invalidIndex ∧ r.cap.isNone = false) := by
  unfold RefL.ensureErr at h
  split at h
  · left; cases h; rfl
  · split at h
    · split at h
      · right; cases h; rename_i hc _; exact ⟨rfl, by rw [hc]; rfl⟩
      · cases h
    · cases h

theorem sim_pushBack {l : AL} {r : RefL} (h : Rel l r) (v : List UInt8) (hv : v.length = l.itemSize) :
    Rel (pushBack l v).1 (refStep r (.pushBack v)).1 ∧ (pushBack l v).2 = (refStep r (.pushBack v)).2 := by
  obtain ⟨hrel, hrc⟩ := sim_setAt h l.length v hv
  simp only [refStep] at hrel hrc ⊢
  unfold pushBack
  rcases hsa : setAt l v l.length with ⟨l', rc⟩
  rw [hsa] at hrel hrc
  simp only at hrel hrc
  rw [h.len] at hrel hrc
  cases he : r.ensureErr r.items.length with
  | some e =>
    rw [he] at hrel hrc
    simp only at hrel hrc ⊢
    subst hrc
    rcases ensureErr_cases he with rfl | ⟨rfl, hc⟩
    · exact ⟨hrel, rfl⟩
    · have : l'.dyn = false := by rw [hrel.dyn, hc]
      simp only [this, Bool.not_false, if_true]
      exact ⟨hrel, rfl⟩
  | none =>
    rw [he] at hrel hrc
    have hn : ¬ r.items.length < r.items.length := by omega
    simp only [if_neg hn, Nat.sub_self, List.replicate_zero, List.append_nil] at hrel hrc ⊢
    subst hrc
    exact ⟨hrel, rfl⟩


theorem sim_pushFront {l : AL} {r : RefL} (h : Rel l r) (v : List UInt8) (hv : v.length = l.itemSize) :
    Rel (pushFront l v).1 (refStep r (.pushFront v)).1 ∧ (pushFront l v).2 = (refStep r (.pushFront v)).2 := by
  have hs := ensure_sim h l.length
  simp only [refStep]
  unfold pushFront
  rw [h.len] at hs
  simp only [h.len]
  cases he : r.ensureErr r.items.length with
  | some e =>
    rw [he] at hs
    simp only [hs]
    rcases ensureErr_cases he with rfl | ⟨rfl, hc⟩
    · exact ⟨h, by simp [pushErr]⟩
    · have : l.dyn = false := by rw [h.dyn, hc]
      simp only [this, Bool.not_false, and_self, if_true]
      exact ⟨h, rfl⟩
  | none =>
    rw [he] at hs
    obtain ⟨l1, hl1, h1, hcap, hlen, hisz, _, _⟩ := hs
    simp only [hl1]
    have hpos := h.pos
    have hi1 : l1.itemSize = r.isz := h1.isz
    have hsm : (r.items.length + 1) * r.isz = r.items.length * r.isz + r.isz := Nat.succ_mul _ _
    have hvl : (v.map some).length = r.isz := by rw [List.length_map, hv, h.isz]
    obtain ⟨d1, hm, hml, hmg⟩ : ∃ d1, (if r.items.length ≠ 0 then l1.data.move l1.itemSize 0 (r.items.length * l1.itemSize) else some l1.data) = some d1 ∧
        d1.length = l1.data.length ∧
        ∀ k, d1[k]? = if r.isz ≤ k ∧ k < r.isz + r.items.length * r.isz then l1.data[k - r.isz]? else l1.data[k]? := by
      by_cases h0 : r.items.length ≠ 0
      · rw [if_pos h0, hi1]
        obtain ⟨d1, hd1⟩ := move_some (d := l1.data) (dst := r.isz) (src := 0) (n := r.items.length * r.isz) (by omega) (by omega)
        obtain ⟨_, _, hl, hg⟩ := move_inv hd1
        refine ⟨d1, hd1, hl, fun k => ?_⟩
        rw [hg k]; simp only [Nat.zero_add]
      · rw [if_neg h0]
        refine ⟨_, rfl, rfl, fun k => ?_⟩
        have : r.items.length = 0 := by omega
        rw [this]
        have : ¬ (r.isz ≤ k ∧ k < r.isz + 0 * r.isz) := by omega
        rw [if_neg this]
    rw [hm]
    simp only
    obtain ⟨d2, hw⟩ : ∃ d, d1.write 0 (v.map some) = some d := ⟨_, write_some (by rw [hvl, hml]; omega)⟩
    have hwl := write_length hw
    have hwg := write_get hw
    rw [hvl] at hwg
    rw [hw]
    simp only
    refine ⟨⟨hi1, hpos, ?_, ?_, by rw [hwl, hml]; exact h1.max, h1.dyn, by rw [hwl, hml]; exact h1.cap, ?_⟩, trivial⟩
    · simp only [List.length_cons]; rw [hlen]
    · simp only [List.length_cons, hwl, hml]; exact hcap
    · intro k w hk
      simp only at hk ⊢
      cases k with
      | zero =>
        simp only [List.getElem?_cons_zero, Option.some.injEq] at hk
        subst hk
        refine holds_written (by rw [hv, h.isz]) (fun j hj => ?_)
        rw [hwg, if_pos (by omega)]
        congr 1; omega
      | succ k' =>
        rw [List.getElem?_cons_succ] at hk
        have hkl := idx_le (s := r.isz) (lt_len hk)
        refine holds_transport (h1.elems k' w hk) (fun j hj => ?_)
        have e1 : (k' + 1) * r.isz = k' * r.isz + r.isz := Nat.succ_mul _ _
        rw [hwg, if_neg (by omega), hmg, if_pos (by omega)]
        congr 1; omega


theorem pos_mul_le {n s : Nat} (hn : 0 < n) : s ≤ n * s := by
  have := idx_le (i := 0) (n := n) (s := s) hn; omega

/-- `pop_back` on any state whose last element lies inside the block -/
theorem popBack_eq {l : AL} (hl : 0 < l.length) (hs : 0 < l.itemSize) (hfit : l.length * l.itemSize ≤ l.data.length) :
    ∃ d2, popBack l = ({ l with data := d2, length := l.length - 1 }, .ok) ∧ d2.length = l.data.length ∧
      ∀ k, d2[k]? = if (l.length - 1) * l.itemSize ≤ k ∧ k < (l.length - 1) * l.itemSize + l.itemSize
                    then some (some 0) else l.data[k]? := by
  have h1 := idx_le (i := l.length - 1) (n := l.length) (s := l.itemSize) (by omega)
  have h2 := pos_mul_le (s := l.itemSize) hl
  have hne : l.data.length ≠ 0 := by omega
  obtain ⟨d2, hw⟩ : ∃ d, l.data.write ((l.length - 1) * l.itemSize) (List.replicate l.itemSize (some 0)) = some d :=
    ⟨_, write_some (by rw [List.length_replicate]; omega)⟩
  refine ⟨d2, ?_, write_length hw, fun k => ?_⟩
  · simp only [popBack, gt_iff_lt, hl, if_true, if_neg hne, hw]
  · rw [write_get hw, List.length_replicate]
    by_cases hk : (l.length - 1) * l.itemSize ≤ k ∧ k < (l.length - 1) * l.itemSize + l.itemSize
    · rw [if_pos hk, if_pos hk, List.getElem?_replicate, if_pos (by omega)]
    · rw [if_neg hk, if_neg hk]

theorem sim_popBack {l : AL} {r : RefL} (h : Rel l r) :
    Rel (popBack l).1 (refStep r .popBack).1 ∧ (popBack l).2 = (refStep r .popBack).2 := by
  simp only [refStep]
  by_cases hl : r.items.length > 0
  · rw [if_pos hl]
    obtain ⟨d2, he, hlen, hg⟩ := popBack_eq (l := l) (by rw [h.len]; exact hl) (by rw [h.isz]; exact h.pos)
      (by rw [h.len, h.isz]; exact h.fit)
    rw [he]
    refine ⟨⟨h.isz, h.pos, ?_, ?_, by rw [hlen]; exact h.max, h.dyn, by rw [hlen]; exact h.cap, ?_⟩, rfl⟩
    · simp only [List.length_dropLast, h.len]
    · simp only [List.length_dropLast, hlen]
      have := idx_le' (s := r.isz) (show r.items.length - 1 ≤ r.items.length by omega)
      have := h.fit; omega
    · intro k w hk
      simp only at hk ⊢
      rw [List.getElem?_dropLast] at hk
      by_cases hkl : k < r.items.length - 1
      · rw [if_pos hkl] at hk
        refine holds_same (h.elems k w hk) (fun q q1 q2 => ?_)
        rw [hg q, h.len, h.isz, if_neg (elem_disj (by omega) q1 q2)]
      · rw [if_neg hkl] at hk; cases hk
  · rw [if_neg hl]
    have : ¬ l.length > 0 := by rw [h.len]; exact hl
    simp only [popBack, this, if_false]
    exact ⟨h, trivial⟩

theorem rel_nil {l : AL} {r : RefL} (h : Rel l r) : Rel { l with length := 0 } { r with items := [] } :=
  ⟨h.isz, h.pos, rfl, by simp, h.max, h.dyn, h.cap, fun i v hk => by simp at hk⟩

theorem sim_clear {l : AL} {r : RefL} (h : Rel l r) : Rel (clear l) { r with items := [] } := by
  unfold clear
  by_cases hd : l.data.length ≠ 0
  · rw [if_pos hd]; exact rel_nil h
  · rw [if_neg hd]
    have hl : l.length = 0 := by
      rcases Nat.eq_zero_or_pos l.length with h0 | h0
      · exact h0
      · have := pos_mul_le (s := r.isz) (show 0 < r.items.length by rw [← h.len]; exact h0)
        have := h.fit; have := h.pos; omega
    have : l = { l with length := 0 } := by cases l; simp only at hl; subst hl; rfl
    rw [this]; exact rel_nil h

theorem sim_popFrontN {l : AL} {r : RefL} (h : Rel l r) (n : Nat) :
    Rel (popFrontN l n).1 (refStep r (.popFrontN n)).1 ∧ (popFrontN l n).2 = .ok := by
  simp only [refStep]
  unfold popFrontN
  by_cases hge : n ≥ l.length
  · rw [if_pos hge]
    have : r.items.drop n = [] := List.drop_eq_nil_of_le (by rw [← h.len]; exact hge)
    rw [this]
    exact ⟨sim_clear h, rfl⟩
  · rw [if_neg hge]
    by_cases hn : n > 0
    · rw [if_pos hn]
      have hlen := h.len
      have hadd : r.items.length * r.isz = n * r.isz + (r.items.length - n) * r.isz := by
        rw [← Nat.add_mul]; congr 1; omega
      have hfit := h.fit
      obtain ⟨d1, hd1⟩ := move_some (d := l.data) (dst := 0) (src := n * r.isz) (n := (r.items.length - n) * r.isz)
        (by omega) (by omega)
      obtain ⟨_, _, hl, hg⟩ := move_inv hd1
      have hd1' : l.data.move 0 (n * l.itemSize) ((l.length - n) * l.itemSize) = some d1 := by
        rw [h.isz, hlen]; exact hd1
      simp only [hd1']
      refine ⟨⟨h.isz, h.pos, ?_, ?_, by rw [hl]; exact h.max, h.dyn, by rw [hl]; exact h.cap, ?_⟩, trivial⟩
      · simp only [List.length_drop, hlen]
      · simp only [List.length_drop, hl]; omega
      · intro k w hk
        simp only at hk ⊢
        rw [List.getElem?_drop] at hk
        have hkl := lt_len hk
        have h3 := idx_le (s := r.isz) (show k < r.items.length - n by omega)
        have h4 : (n + k) * r.isz = n * r.isz + k * r.isz := Nat.add_mul _ _ _
        refine holds_transport (h.elems (n + k) w hk) (fun j hj => ?_)
        rw [hg, if_pos (by omega)]
        congr 1; omega
    · rw [if_neg hn]
      have : n = 0 := by omega
      subst this
      simp only [List.drop_zero]
      exact ⟨h, trivial⟩

theorem sim_popFront {l : AL} {r : RefL} (h : Rel l r) :
    Rel (popFront l).1 (refStep r .popFront).1 ∧ (popFront l).2 = (refStep r .popFront).2 := by
  have hp := sim_popFrontN h 1
  simp only [refStep] at hp ⊢
  unfold popFront
  by_cases hl : r.items.length > 0
  · rw [if_pos hl, if_pos (by rw [h.len]; exact hl)]
    exact ⟨hp.1, hp.2⟩
  · rw [if_neg hl, if_neg (by rw [h.len]; exact hl)]
    exact ⟨h, rfl⟩


theorem eraseIdx_zero_eq {α} (xs : List α) : xs.eraseIdx 0 = xs.drop 1 := by cases xs <;> rfl

theorem eraseIdx_last_eq {α} (xs : List α) : xs.eraseIdx (xs.length - 1) = xs.dropLast := by
  apply List.ext_getElem?
  intro k
  rw [List.getElem?_eraseIdx, List.getElem?_dropLast]
  by_cases hk : k < xs.length - 1
  · rw [if_pos hk, if_pos hk]
  · rw [if_neg hk, if_neg hk]; exact List.getElem?_eq_none (by omega)

theorem sim_erase {l : AL} {r : RefL} (h : Rel l r) (i : Nat) :
    Rel (erase l i).1 (refStep r (.erase i)).1 ∧ (erase l i).2 = (refStep r (.erase i)).2 := by
  simp only [refStep]
  unfold erase
  simp only
  by_cases hge : i ≥ l.length
  · rw [if_pos hge, if_neg (by rw [← h.len]; omega)]
    exact ⟨h, rfl⟩
  · have hil : i < r.items.length := by rw [← h.len]; omega
    rw [if_neg hge, if_pos hil]
    by_cases h0 : i = 0
    · subst h0
      rw [if_pos rfl, eraseIdx_zero_eq]
      have hp := sim_popFront h
      simp only [refStep, if_pos (show r.items.length > 0 from hil)] at hp
      refine ⟨hp.1, ?_⟩
      rw [hp.2]; rfl
    · rw [if_neg h0]
      by_cases hlast : i = l.length - 1
      · rw [if_pos hlast]
        have hp := sim_popBack h
        simp only [refStep, if_pos (show r.items.length > 0 by omega)] at hp
        have : i = r.items.length - 1 := by rw [← h.len]; exact hlast
        rw [this, eraseIdx_last_eq]
        refine ⟨hp.1, ?_⟩
        rw [hp.2]; rfl
      · rw [if_neg hlast]
        have hlen := h.len
        have hfit := h.fit
        have hpos := h.pos
        have f2 : r.items.length * r.isz = (i * r.isz + r.isz) + (r.items.length - i - 1) * r.isz := by
          rw [← Nat.succ_mul, ← Nat.add_mul]; congr 1; omega
        obtain ⟨d1, hd1⟩ := move_some (d := l.data) (dst := i * r.isz) (src := i * r.isz + r.isz)
          (n := (r.items.length - i - 1) * r.isz) (by omega) (by omega)
        obtain ⟨_, _, hl1, hg1⟩ := move_inv hd1
        have hd1' : l.data.move (i * l.itemSize) (i * l.itemSize + l.itemSize) ((l.length - i - 1) * l.itemSize) = some d1 := by
          rw [h.isz, hlen]; exact hd1
        simp only [hd1']
        obtain ⟨d2, he, hl2, hg2⟩ := popBack_eq (l := { l with data := d1 }) (by simp only; omega)
          (by simp only; rw [h.isz]; exact hpos) (by simp only; rw [hl1, hlen, h.isz]; exact hfit)
        rw [he]
        simp only at hl2 hg2 ⊢
        refine ⟨⟨h.isz, hpos, ?_, ?_, by rw [hl2, hl1]; exact h.max, h.dyn, by rw [hl2, hl1]; exact h.cap, ?_⟩, rfl⟩
        · rw [List.length_eraseIdx, if_pos hil, hlen]
        · show (r.items.eraseIdx i).length * r.isz ≤ d2.length
          rw [List.length_eraseIdx, if_pos hil, hl2, hl1]
          have := idx_le' (s := r.isz) (show r.items.length - 1 ≤ r.items.length by omega)
          omega
        · intro k w hk
          simp only at hk ⊢
          have hkl : k < r.items.length - 1 := by
            have := lt_len hk
            rw [List.length_eraseIdx, if_pos hil] at this; exact this
          rw [List.getElem?_eraseIdx] at hk
          have z : ∀ q, k * r.isz ≤ q → q < k * r.isz + r.isz → d2[q]? = d1[q]? := by
            intro q q1 q2
            rw [hg2 q, hlen, h.isz, if_neg (elem_disj (by omega) q1 q2)]
          by_cases hki : k < i
          · rw [if_pos hki] at hk
            refine holds_same (h.elems k w hk) (fun q q1 q2 => ?_)
            have := idx_le (s := r.isz) hki
            rw [z q q1 q2, hg1 q, if_neg (by omega)]
          · rw [if_neg hki] at hk
            have e1 : (k + 1) * r.isz = k * r.isz + r.isz := Nat.succ_mul _ _
            have e2 := idx_le' (s := r.isz) (show i ≤ k by omega)
            have e3 := idx_le (s := r.isz) hkl
            have e4 : (r.items.length - 1) * r.isz = i * r.isz + (r.items.length - i - 1) * r.isz := by
              rw [← Nat.add_mul]; congr 1; omega
            refine holds_transport (h.elems (k + 1) w hk) (fun j hj => ?_)
            rw [z _ (by omega) (by omega), hg1, if_pos (by omega)]
            congr 1; omega


theorem join_some {α} {o : Option (Option α)} {w : α} (h : o.join = some w) : o = some (some w) := by
  cases o with
  | none => cases h
  | some x => cases x with
    | none => cases h
    | some y => simp only [Option.join] at h; cases h; rfl

theorem sim_swap {l : AL} {r : RefL} (h : Rel l r) (a b : Nat) (ha : a < l.length) (hb : b < l.length) :
    Rel (swap l a b).1 (refStep r (.swap a b)).1 ∧ (swap l a b).2 = (refStep r (.swap a b)).2 := by
  simp only [refStep]
  unfold swap
  have hab : ¬ ¬ (a < l.length ∧ b < l.length) := by omega
  rw [if_neg hab]
  have ha' : a < r.items.length := by rw [← h.len]; exact ha
  have hb' : b < r.items.length := by rw [← h.len]; exact hb
  have hget : ∀ k, ((r.items.set a (r.items[b]?.join)).set b (r.items[a]?.join))[k]? =
      if b = k then some (r.items[a]?.join) else if a = k then some (r.items[b]?.join) else r.items[k]? := by
    intro k
    rw [List.getElem?_set, List.length_set, if_pos hb', List.getElem?_set, if_pos ha']
  by_cases e : a = b
  · rw [if_pos e]
    subst e
    refine ⟨⟨h.isz, h.pos, by simp only [List.length_set]; exact h.len, by simp only [List.length_set]; exact h.fit,
      h.max, h.dyn, h.cap, ?_⟩, rfl⟩
    intro k w hk
    simp only at hk ⊢
    rw [hget] at hk
    by_cases hk1 : a = k
    · rw [if_pos hk1] at hk
      simp only [Option.some.injEq] at hk
      subst hk1
      exact h.elems a w (join_some hk)
    · rw [if_neg hk1, if_neg hk1] at hk
      exact h.elems k w hk
  · rw [if_neg e]
    have hfit := h.fit
    have h1 := idx_le (s := r.isz) ha'
    have h2 := idx_le (s := r.isz) hb'
    have hdis : a * r.isz + r.isz ≤ b * r.isz ∨ b * r.isz + r.isz ≤ a * r.isz := by
      rcases Nat.lt_or_gt_of_ne e with c | c
      · left; exact idx_le c
      · right; exact idx_le c
    obtain ⟨d', hm, hl, hg⟩ := memSwap_spec (d := l.data) (o1 := a * r.isz) (o2 := b * r.isz) (n := r.isz)
      (by omega) (by omega) hdis
    rw [h.isz, hm]
    simp only
    refine ⟨⟨rfl, h.pos, by simp only [List.length_set]; exact h.len, by simp only [List.length_set, hl]; exact h.fit,
      by rw [hl]; exact h.max, h.dyn, by rw [hl]; exact h.cap, ?_⟩, trivial⟩
    intro k w hk
    simp only at hk ⊢
    rw [hget] at hk
    by_cases hk1 : b = k
    · rw [if_pos hk1] at hk
      simp only [Option.some.injEq] at hk
      subst hk1
      refine holds_transport (h.elems a w (join_some hk)) (fun j hj => ?_)
      rw [hg, if_neg (by omega), if_pos (by omega)]
      congr 1; omega
    · rw [if_neg hk1] at hk
      by_cases hk2 : a = k
      · rw [if_pos hk2] at hk
        simp only [Option.some.injEq] at hk
        subst hk2
        refine holds_transport (h.elems b w (join_some hk)) (fun j hj => ?_)
        rw [hg, if_pos (by omega)]
        congr 1; omega
      · rw [if_neg hk2] at hk
        refine holds_same (h.elems k w hk) (fun q q1 q2 => ?_)
        rw [hg, if_neg (elem_disj (Ne.symm hk2) q1 q2), if_neg (elem_disj (Ne.symm hk1) q1 q2)]

theorem sim_shrink {l : AL} {r : RefL} (h : Rel l r) :
    Rel (shrinkToFit l).1 (refStep r .shrink).1 ∧ (shrinkToFit l).2 = (refStep r .shrink).2 := by
  simp only [refStep]
  unfold shrinkToFit
  cases hc : r.cap with
  | some c =>
    have : l.dyn = false := by rw [h.dyn, hc]; rfl
    simp only [this, Bool.false_eq_true, if_false]
    exact ⟨h, trivial⟩
  | none =>
    have : l.dyn = true := by rw [h.dyn, hc]; rfl
    have hfit := h.fit
    have hmax := h.max
    have hnov : ¬ l.length * l.itemSize > SIZE_MAX := by rw [h.len, h.isz]; omega
    simp only [this, if_true, if_neg hnov]
    by_cases hlt : l.length * l.itemSize < l.data.length
    · rw [if_pos hlt]
      by_cases hp : l.length * l.itemSize > 0
      · rw [if_pos hp]
        obtain ⟨d, hr⟩ : ∃ d, l.data.read 0 (l.length * l.itemSize) = some d := ⟨_, read_some (by omega)⟩
        have hrl := read_length hr
        have hrg := read_get hr
        rw [hr]
        simp only
        refine ⟨⟨h.isz, h.pos, h.len, by rw [hrl, h.len, h.isz]; exact Nat.le_refl _, by rw [hrl]; omega, by rw [hc]; rfl, ?_, ?_⟩, trivial⟩
        · intro c hc'; rw [hc] at hc'; cases hc'
        · intro k w hk
          refine holds_same (h.elems k w hk) (fun q q1 q2 => ?_)
          have := idx_le (s := r.isz) (lt_len hk)
          rw [hrg, h.len, h.isz, if_pos (by omega), Nat.zero_add]
      · rw [if_neg hp]
        have hz : r.items.length * r.isz = 0 := by rw [← h.len, ← h.isz]; omega
        refine ⟨⟨h.isz, h.pos, h.len, by rw [hz]; exact Nat.zero_le _, by simp [SIZE_MAX], by rw [hc]; rfl, ?_, ?_⟩, rfl⟩
        · intro c hc'; rw [hc] at hc'; cases hc'
        · intro k w hk
          have := pos_mul_le (s := r.isz) (show 0 < r.items.length from Nat.lt_of_le_of_lt (Nat.zero_le _) (lt_len hk))
          have := h.pos
          omega
    · rw [if_neg hlt]
      exact ⟨h, rfl⟩

theorem sim_ensure {l : AL} {r : RefL} (h : Rel l r) (i : Nat) :
    Rel (step l (.ensure i)).1 (refStep r (.ensure i)).1 ∧ (step l (.ensure i)).2 = (refStep r (.ensure i)).2 := by
  have hs := ensure_sim h i
  simp only [refStep, step]
  cases he : r.ensureErr i with
  | some e => rw [he] at hs; simp only [hs]; exact ⟨h, trivial⟩
  | none =>
    rw [he] at hs
    obtain ⟨l1, hl1, h1, _⟩ := hs
    simp only [hl1]; exact ⟨h1, trivial⟩

theorem sim_copy {f t : AL} {rf rt : RefL} (hf : Rel f rf) (ht : Rel t rt) (hi : f.itemSize = t.itemSize)
    (hd : f.data.length ≠ 0) :
    Rel (copy f t).1 (refCopy rf rt).1 ∧ (copy f t).2 = (refCopy rf rt).2 := by
  have hisz : rf.isz = rt.isz := by rw [← hf.isz, ← ht.isz]; exact hi
  have hpos := rt.isz.zero_le
  have hfit := hf.fit
  have hmax := hf.max
  unfold copy
  have hpre : ¬ (f.itemSize ≠ t.itemSize ∨ f.data.length = 0) := by
    intro c; rcases c with c | c
    · exact c hi
    · exact hd c
  rw [if_neg hpre]
  simp only
  have hcs : f.length * f.itemSize = rf.items.length * rt.isz := by rw [hf.len, hf.isz, hisz]
  have hnov : ¬ f.length * f.itemSize > SIZE_MAX := by rw [hf.len, hf.isz]; omega
  rw [if_neg hnov]
  have hread : ∃ bs, f.data.read 0 (f.length * f.itemSize) = some bs := ⟨_, read_some (by rw [hf.len, hf.isz]; omega)⟩
  obtain ⟨bs, hr⟩ := hread
  have hrl := read_length hr
  have hrg := read_get hr
  have helems : ∀ (d : Region), (∀ q, q < rf.items.length * rt.isz → d[q]? = f.data[q]?) →
      ∀ i v, rf.items[i]? = some (some v) → Holds d rt.isz i v := by
    intro d hdq i v hk
    have := hf.elems i v hk
    rw [hisz] at this
    refine holds_same this (fun q q1 q2 => hdq q ?_)
    have := idx_le (s := rt.isz) (lt_len hk)
    omega
  by_cases hge : t.data.length ≥ f.length * f.itemSize
  · rw [if_pos hge]
    have href : refCopy rf rt = ({ rt with items := rf.items }, .ok) := by
      unfold refCopy
      cases hc : rt.cap with
      | none => rfl
      | some c =>
        have := ht.cap c hc
        have : ¬ c < rf.items.length := by
          intro hlt
          have := idx_le (s := rt.isz) hlt
          have := ht.pos
          omega
        simp only [if_neg this]
    rw [href]
    by_cases hp : f.length * f.itemSize > 0
    · rw [if_pos hp, hr]
      simp only
      obtain ⟨d, hw⟩ : ∃ d, t.data.write 0 bs = some d := ⟨_, write_some (by rw [hrl]; omega)⟩
      have hwl := write_length hw
      have hwg := write_get hw
      rw [hw]
      simp only
      refine ⟨⟨ht.isz, ht.pos, hf.len, by rw [hwl, ← hcs]; exact hge, by rw [hwl]; exact ht.max, ht.dyn,
        by rw [hwl]; exact ht.cap, ?_⟩, trivial⟩
      refine helems d (fun q hq => ?_)
      rw [hwg, hrl, if_pos (by omega), hrg, if_pos (by omega)]
      congr 1; omega
    · rw [if_neg hp]
      refine ⟨⟨ht.isz, ht.pos, hf.len, by rw [← hcs]; exact hge, ht.max, ht.dyn, ht.cap, ?_⟩, rfl⟩
      intro i v hk
      have := pos_mul_le (s := rt.isz) (show 0 < rf.items.length from Nat.lt_of_le_of_lt (Nat.zero_le _) (lt_len hk))
      have := ht.pos
      omega
  · rw [if_neg hge]
    cases hc : rt.cap with
    | none =>
      have hdyn : t.dyn = true := by rw [ht.dyn, hc]; rfl
      rw [if_pos hdyn, hr]
      simp only [refCopy, hc]
      refine ⟨⟨ht.isz, ht.pos, hf.len, by rw [hrl, hcs]; exact Nat.le_refl _, by rw [hrl]; omega, hdyn, ?_, ?_⟩, trivial⟩
      · intro c hc'; cases hc'
      · refine helems bs (fun q hq => ?_)
        rw [hrg, if_pos (by omega)]
        congr 1; omega
    | some c =>
      have hdyn : t.dyn = false := by rw [ht.dyn, hc]; rfl
      have hcl : c < rf.items.length := by
        have := ht.cap c hc
        apply Nat.lt_of_mul_lt_mul_right (a := rt.isz)
        omega
      simp only [hdyn, Bool.false_eq_true, if_false, refCopy, hc, if_pos hcl]
      exact ⟨ht, trivial⟩

theorem sim_swapContents {a b : AL}
    (hp : a.dyn = true ∧ b.dyn = true ∧ a.itemSize = b.itemSize) :
    (swapContents a b) = ((b, a), .ok) := by
  unfold swapContents
  have : ¬ ¬ (a.dyn = true ∧ b.dyn = true ∧ a.itemSize = b.itemSize) := fun c => c hp
  rw [if_neg this]

end AwsVerif.Proofs.C09
