import AwsVerif.Proofs.C09.ALSim
/-! `aws_array_list_sort`: the model sorts the `length` elements (qsort is specified as the sorted
permutation); the refinement relation is preserved, with the reference holding the sorted values
when every element was specified. -/
namespace AwsVerif.Proofs.C09
open AwsVerif.ArrayList

theorem chunks_length (s : Nat) : ∀ (k : Nat) (d : Region), (chunks s k d).length = k
  | 0, _ => rfl
  | k + 1, d => by simp [chunks, chunks_length s k]

theorem chunks_get (s : Nat) : ∀ (k : Nat) (d : Region) (i : Nat),
    (chunks s k d)[i]? = if i < k then some ((d.drop (i * s)).take s) else none
  | 0, d, i => by simp [chunks]
  | k + 1, d, 0 => by simp [chunks]
  | k + 1, d, i + 1 => by
    simp only [chunks, List.getElem?_cons_succ, chunks_get s k (d.drop s) i, List.drop_drop]
    have : s + i * s = (i + 1) * s := by rw [Nat.succ_mul]; omega
    rw [this]
    by_cases h : i < k
    · rw [if_pos h, if_pos (by omega)]
    · rw [if_neg h, if_neg (by omega)]

theorem chunks_elem_len {s k : Nat} {d : Region} (hfit : k * s ≤ d.length) {e : List Byte} (he : e ∈ chunks s k d) :
    e.length = s := by
  obtain ⟨i, hi⟩ := List.getElem?_of_mem he
  rw [chunks_get] at hi
  by_cases h : i < k
  · rw [if_pos h] at hi
    cases hi
    have := idx_le (s := s) h
    simp only [List.length_take, List.length_drop]; omega
  · rw [if_neg h] at hi; cases hi

theorem flatten_uniform_len {s : Nat} : ∀ {L : List (List Byte)}, (∀ e, e ∈ L → e.length = s) → L.flatten.length = L.length * s
  | [], _ => by simp
  | e :: L, h => by
    simp only [List.flatten_cons, List.length_append, List.length_cons]
    rw [h e (by simp), flatten_uniform_len (fun x hx => h x (by simp [hx])), Nat.succ_mul]; omega

theorem flatten_get {s : Nat} {rest : List Byte} : ∀ {L : List (List Byte)}, (∀ e, e ∈ L → e.length = s) →
    ∀ (i j : Nat) (e : List Byte), L[i]? = some e → j < s → (L.flatten ++ rest)[i * s + j]? = e[j]?
  | [], _, i, j, e, hi, _ => by simp at hi
  | e0 :: L, h, 0, j, e, hi, hj => by
    simp only [List.getElem?_cons_zero, Option.some.injEq] at hi
    subst hi
    simp only [List.flatten_cons, List.append_assoc, Nat.zero_mul, Nat.zero_add]
    exact List.getElem?_append_left (by rw [h e0 (by simp)]; exact hj)
  | e0 :: L, h, i + 1, j, e, hi, hj => by
    simp only [List.getElem?_cons_succ] at hi
    simp only [List.flatten_cons, List.append_assoc]
    have hl := h e0 (by simp)
    rw [List.getElem?_append_right (by rw [hl, Nat.succ_mul]; omega)]
    have : (i + 1) * s + j - e0.length = i * s + j := by rw [hl, Nat.succ_mul]; omega
    rw [this]
    exact flatten_get (fun x hx => h x (by simp [hx])) i j e hi hj

theorem all_some_eq : ∀ (items : List (Option (List UInt8))), items.all Option.isSome = true →
    items = (items.filterMap id).map some
  | [], _ => rfl
  | none :: _, h => by simp at h
  | some v :: items, h => by
    simp only [List.all_cons, Option.isSome_some, Bool.true_and] at h
    simp only [List.filterMap_cons, id, List.map_cons]
    rw [← all_some_eq items h]

theorem slice_holds {d : Region} {s i : Nat} {v : List UInt8} (h : Holds d s i v) :
    (d.drop (i * s)).take s = v.map some := by
  apply List.ext_getElem?
  intro k
  rw [List.getElem?_take, List.getElem?_drop]
  by_cases hk : k < s
  · rw [if_pos hk, h.2 k hk, map_some_get (by rw [h.1]; exact hk)]
  · rw [if_neg hk]
    exact (List.getElem?_eq_none (by rw [List.length_map, h.1]; omega)).symm

theorem sim_sort {l : AL} {r : RefL} (h : Rel l r) :
    Rel (step l .sort).1 (refStep r .sort).1 ∧ (step l .sort).2 = (refStep r .sort).2 := by
  refine ⟨?_, rfl⟩
  simp only [step, refStep]
  unfold sort
  have hpos := h.pos
  by_cases hd : l.data.length ≠ 0
  · rw [if_pos hd]
    have hfit : l.length * l.itemSize ≤ l.data.length := by rw [h.len, h.isz]; exact h.fit
    generalize hS : (chunks l.itemSize l.length l.data).mergeSort (fun a b => elemLe a b) = S
    have hSlen : S.length = l.length := by rw [← hS, List.length_mergeSort, chunks_length]
    have hSel : ∀ e, e ∈ S → e.length = l.itemSize := by
      intro e he
      rw [← hS, List.mem_mergeSort] at he
      exact chunks_elem_len hfit he
    have hflat : S.flatten.length = l.length * l.itemSize := by rw [flatten_uniform_len hSel, hSlen]
    have hdl : (S.flatten ++ l.data.drop (l.length * l.itemSize)).length = l.data.length := by
      rw [List.length_append, hflat, List.length_drop]; omega
    have hlen' : (refSort r.items).length = r.items.length := by
      unfold refSort
      split
      · rename_i hall
        rw [List.length_map, List.length_mergeSort]
        conv => rhs; rw [all_some_eq r.items hall]
        rw [List.length_map]
      · rw [List.length_replicate]
    refine ⟨h.isz, hpos, by simp only; rw [hlen', h.len], by simp only; rw [hlen', hdl]; exact h.fit,
      by simp only; rw [hdl]; exact h.max, h.dyn, by simp only; rw [hdl]; exact h.cap, ?_⟩
    intro i w hw
    simp only at hw ⊢
    unfold refSort at hw
    by_cases hall : r.items.all Option.isSome = true
    · rw [if_pos hall] at hw
      have hitems := all_some_eq r.items hall
      generalize hv : r.items.filterMap id = vals at hitems hw
      -- the chunks are the reference values
      have hvl : vals.length = l.length := by rw [h.len, hitems, List.length_map]
      have hch : chunks l.itemSize l.length l.data = vals.map (fun v => v.map some) := by
        apply List.ext_getElem?
        intro k
        rw [chunks_get, List.getElem?_map]
        by_cases hk : k < l.length
        · rw [if_pos hk]
          have hk' : k < vals.length := by rw [hvl]; exact hk
          rw [List.getElem?_eq_getElem hk']
          simp only [Option.map_some, Option.some.injEq]
          have : r.items[k]? = some (some vals[k]) := by
            rw [hitems, List.getElem?_map, List.getElem?_eq_getElem hk']; rfl
          rw [h.isz]; exact slice_holds (h.elems k _ this)
        · rw [if_neg hk, List.getElem?_eq_none (by rw [hvl]; omega)]; rfl
      have hSV : S = (vals.mergeSort leBytes).map (fun v => v.map some) := by
        rw [← hS, hch]
        exact (List.map_mergeSort (r := leBytes) (s := fun a b => elemLe a b) (f := fun v => v.map some)
          (l := vals) (fun a _ b _ => rfl)).symm
      rw [List.getElem?_map] at hw
      cases hV : (vals.mergeSort leBytes)[i]? with
      | none => rw [hV] at hw; cases hw
      | some w' =>
        rw [hV] at hw
        simp only [Option.map_some, Option.some.injEq] at hw
        subst hw
        have hSi : S[i]? = some (w'.map some) := by rw [hSV, List.getElem?_map, hV]; rfl
        have hwmem : w' ∈ vals := (List.mem_mergeSort).mp (List.mem_of_getElem? hV)
        have hwl : w'.length = r.isz := by
          obtain ⟨k, hk⟩ := List.getElem?_of_mem hwmem
          have : r.items[k]? = some (some w') := by rw [hitems, List.getElem?_map, hk]; rfl
          exact (h.elems k w' this).1
        refine holds_written hwl (fun j hj => ?_)
        have := flatten_get (rest := l.data.drop (l.length * l.itemSize)) hSel i j _ hSi (by rw [h.isz]; exact hj)
        have e : i * l.itemSize + j = i * r.isz + j := by rw [h.isz]
        rw [e] at this
        exact this
    · rw [if_neg hall, List.getElem?_replicate] at hw
      split at hw <;> cases hw
  · rw [if_neg hd]
    have hz : r.items = [] := by
      have hfit := h.fit
      cases hi : r.items with
      | nil => rfl
      | cons x xs =>
        rw [hi] at hfit
        have := pos_mul_le (s := r.isz) (show 0 < (x :: xs).length by simp)
        omega
    have : refSort r.items = r.items := by rw [hz]; simp [refSort]
    rw [this]; exact h


/-! ### the comparator is a total preorder, so the reference sort is the sorted permutation -/

theorem elemLe_total : ∀ (x y : List Byte), (elemLe x y || elemLe y x) = true
  | [], _ => by simp [elemLe]
  | _ :: _, [] => by simp [elemLe]
  | a :: as, b :: bs => by
    simp only [elemLe]
    by_cases h1 : byteVal a < byteVal b
    · simp [h1]
    · by_cases h2 : byteVal b < byteVal a
      · simp [h1, h2]
      · simp only [h1, h2, if_false]; exact elemLe_total as bs

theorem elemLe_trans : ∀ (x y z : List Byte), elemLe x y = true → elemLe y z = true → elemLe x z = true
  | [], _, _, _, _ => by simp [elemLe]
  | _ :: _, [], _, h, _ => by simp [elemLe] at h
  | _ :: _, _ :: _, [], _, h => by simp [elemLe] at h
  | a :: as, b :: bs, c :: cs, h1, h2 => by
    simp only [elemLe] at h1 h2 ⊢
    by_cases ab : byteVal a < byteVal b
    · by_cases bc : byteVal b < byteVal c
      · simp [show byteVal a < byteVal c by omega]
      · by_cases cb : byteVal c < byteVal b
        · simp [bc, cb] at h2
        · simp [show byteVal a < byteVal c by omega]
    · by_cases ba : byteVal b < byteVal a
      · simp [ab, ba] at h1
      · simp only [ab, ba, if_false] at h1
        by_cases bc : byteVal b < byteVal c
        · simp [show byteVal a < byteVal c by omega]
        · by_cases cb : byteVal c < byteVal b
          · simp [bc, cb] at h2
          · simp only [bc, cb, if_false] at h2
            have e1 : ¬ byteVal a < byteVal c := by omega
            have e2 : ¬ byteVal c < byteVal a := by omega
            simp only [e1, e2, if_false]
            exact elemLe_trans as bs cs h1 h2

theorem refSort_sorted (vals : List (List UInt8)) :
    refSort (vals.map some) = (vals.mergeSort leBytes).map some ∧
    (vals.mergeSort leBytes).Perm vals ∧
    (vals.mergeSort leBytes).Pairwise (fun a b => leBytes a b = true) := by
  refine ⟨?_, List.mergeSort_perm _ _, ?_⟩
  · unfold refSort
    have h1 : (vals.map some).all Option.isSome = true := by simp
    have h2 : (vals.map some).filterMap id = vals := by simp [List.filterMap_map]
    rw [if_pos h1, h2]
  · exact List.pairwise_mergeSort (le := leBytes) (fun a b c => elemLe_trans (a.map some) (b.map some) (c.map some))
      (fun a b => elemLe_total (a.map some) (b.map some)) vals

end AwsVerif.Proofs.C09
