import AwsVerif.Model.ArrayList
/-! Pointwise facts about `Region.read / write / move` (memcpy / memmove). -/
namespace AwsVerif.Proofs.C09
open AwsVerif.ArrayList

theorem write_some {d : Region} {off : Nat} {bs : List Byte} (h : off + bs.length ≤ d.length) :
    d.write off bs = some (d.take off ++ bs ++ d.drop (off + bs.length)) := by
  simp [Region.write, h]

theorem write_inv {d d' : Region} {off : Nat} {bs : List Byte} (h : d.write off bs = some d') :
    off + bs.length ≤ d.length ∧ d' = d.take off ++ bs ++ d.drop (off + bs.length) := by
  unfold Region.write at h
  split at h
  · exact ⟨by assumption, by simpa using h.symm⟩
  · cases h

theorem write_length {d d' : Region} {off : Nat} {bs : List Byte} (h : d.write off bs = some d') :
    d'.length = d.length := by
  obtain ⟨hb, rfl⟩ := write_inv h
  simp only [List.length_append, List.length_take, List.length_drop]
  omega

theorem write_get {d d' : Region} {off : Nat} {bs : List Byte} (h : d.write off bs = some d') (k : Nat) :
    d'[k]? = if off ≤ k ∧ k < off + bs.length then bs[k - off]? else d[k]? := by
  obtain ⟨hb, rfl⟩ := write_inv h
  have hlt : (List.take off d).length = off := by simp only [List.length_take]; omega
  rw [List.append_assoc, List.getElem?_append, hlt]
  by_cases h1 : k < off
  · have : ¬ (off ≤ k ∧ k < off + bs.length) := by omega
    simp only [h1, this, if_true, if_false, List.getElem?_take]
  · simp only [h1, if_false]
    rw [List.getElem?_append]
    by_cases h2 : k - off < bs.length
    · have : off ≤ k ∧ k < off + bs.length := by omega
      simp only [h2, this, and_self, if_true]
    · have : ¬ (off ≤ k ∧ k < off + bs.length) := by omega
      simp only [h2, this, if_false, List.getElem?_drop]
      congr 1; omega

theorem read_some {d : Region} {off n : Nat} (h : off + n ≤ d.length) :
    d.read off n = some ((d.drop off).take n) := by
  simp [Region.read, h]

theorem read_inv {d : Region} {off n : Nat} {bs : List Byte} (h : d.read off n = some bs) :
    off + n ≤ d.length ∧ bs = (d.drop off).take n := by
  unfold Region.read at h
  split at h
  · exact ⟨by assumption, by simpa using h.symm⟩
  · cases h

theorem read_length {d : Region} {off n : Nat} {bs : List Byte} (h : d.read off n = some bs) : bs.length = n := by
  obtain ⟨hb, rfl⟩ := read_inv h
  simp only [List.length_take, List.length_drop]; omega

theorem read_get {d : Region} {off n : Nat} {bs : List Byte} (h : d.read off n = some bs) (k : Nat) :
    bs[k]? = if k < n then d[off + k]? else none := by
  obtain ⟨hb, rfl⟩ := read_inv h
  simp only [List.getElem?_take, List.getElem?_drop]

theorem move_some {d : Region} {dst src n : Nat} (hs : src + n ≤ d.length) (hd : dst + n ≤ d.length) :
    ∃ d', d.move dst src n = some d' := by
  unfold Region.move
  rw [read_some hs]
  have : ((d.drop src).take n).length = n := by simp only [List.length_take, List.length_drop]; omega
  exact ⟨_, write_some (by rw [this]; exact hd)⟩

theorem move_inv {d d' : Region} {dst src n : Nat} (h : d.move dst src n = some d') :
    src + n ≤ d.length ∧ dst + n ≤ d.length ∧ d'.length = d.length ∧
    ∀ k, d'[k]? = if dst ≤ k ∧ k < dst + n then d[src + (k - dst)]? else d[k]? := by
  unfold Region.move at h
  split at h
  · cases h
  · rename_i bs hr
    have hl := read_length hr
    have hw := write_inv h
    refine ⟨(read_inv hr).1, by omega, write_length h, fun k => ?_⟩
    rw [write_get h k, hl]
    by_cases hk : dst ≤ k ∧ k < dst + n
    · simp only [hk, and_self, if_true]
      rw [read_get hr]
      have : k - dst < n := by omega
      simp only [this, if_true]
    · simp only [hk, if_false]

end AwsVerif.Proofs.C09
