import AwsVerif.Proofs.C09.LLSwap
/-! The validity predicates of linked_list.inl on well-linked lists. -/
set_option linter.unusedSimpArgs false
namespace AwsVerif.Proofs.C09
open AwsVerif.LinkedList

theorem nextValid_of_link {h : Heap} {x y : NodeId} (hl : Link h x y) : nodeNextIsValid h x = true := by
  simp [nodeNextIsValid, hl.1, hl.2]

theorem prevValid_of_link {h : Heap} {x y : NodeId} (hl : Link h x y) : nodePrevIsValid h y = true := by
  simp [nodePrevIsValid, hl.1, hl.2]

theorem deepFrom_ch {h : Heap} {l : LL} : ∀ (xs : List NodeId) (a : NodeId) (fuel : Nat),
    Ch h (a :: xs ++ [l.tail]) → l.tail ∉ a :: xs → xs.length + 2 ≤ fuel → isValidDeepFrom h l fuel a = true
  | [], a, fuel, hc, hn, hf => by
    obtain ⟨f', rfl⟩ : ∃ f', fuel = f' + 2 := ⟨fuel - 2, by simp at hf; omega⟩
    have ha : a ≠ l.tail := fun c => hn (by simp [c])
    have hl : Link h a l.tail := hc.1
    simp [isValidDeepFrom, ha, nextValid_of_link hl, hl.1]
  | x :: xs, a, fuel, hc, hn, hf => by
    obtain ⟨f', rfl⟩ : ∃ f', fuel = f' + 1 := ⟨fuel - 1, by simp at hf; omega⟩
    have ha : a ≠ l.tail := fun c => hn (by simp [c])
    have hl : Link h a x := hc.1
    have ih := deepFrom_ch xs x f' hc.2 (fun c => hn (List.mem_cons_of_mem _ c)) (by simp only [List.length_cons] at hf; omega)
    simp [isValidDeepFrom, ha, nextValid_of_link hl, hl.1, ih]

/-- on a well-linked list `is_valid` and `is_valid_deep` hold, every member is `in_list` (both edges
bidirectional), the head has a valid `next` edge and no valid `prev` edge, the tail the converse -/
theorem wl_valid {h : Heap} {l : LL} {xs : List NodeId} (w : WellLinked h l xs) {fuel : Nat} (hf : xs.length + 2 ≤ fuel) :
    isValid h l = true ∧ isValidDeep h l fuel = true ∧ (∀ x, x ∈ xs → nodeIsInList h x = true) ∧
    nodeNextIsValid h l.head = true ∧ nodePrevIsValid h l.head = false ∧
    nodePrevIsValid h l.tail = true ∧ nodeNextIsValid h l.tail = false := by
  obtain ⟨f, c2, ec⟩ := cons_exists xs l.tail
  obtain ⟨c1, p, ec1⟩ := snoc_exists l.head xs
  have e : chainOf l xs = [] ++ l.head :: f :: c2 := by simp only [chainOf, List.cons_append, ec, List.nil_append]
  have e1 : chainOf l xs = c1 ++ p :: l.tail :: [] := by simp only [chainOf]; rw [ec1]; simp
  have hl : Link h l.head f := link_of_ch (c1 := []) (by rw [← e]; exact w.ch)
  have hl1 : Link h p l.tail := link_of_ch (by rw [← e1]; exact w.ch)
  have hnt : l.tail ∉ l.head :: xs := by
    intro c
    rcases List.mem_cons.mp c with d | d
    · exact wl_head_ne_tail w d.symm
    · exact wl_tail_notin w d
  refine ⟨?_, deepFrom_ch xs l.head fuel w.ch hnt hf, fun x hx => ?_, nextValid_of_link hl, ?_, prevValid_of_link hl1, ?_⟩
  · simp [isValid, hl.1, w.headPrev, hl1.2, w.tailNext]
  · obtain ⟨pp, nn, a, b, _⟩ := mem_links w hx
    simp [nodeIsInList, prevValid_of_link a, nextValid_of_link b]
  · simp [nodePrevIsValid, w.headPrev]
  · simp [nodeNextIsValid, w.tailNext]

/-- a node with both links NULL (fresh, removed or popped) is in no list -/
theorem detached_not_in_list {h : Heap} {n : NodeId} (hn : h n = ⟨none, none⟩) :
    nodeIsInList h n = false ∧ nodeNextIsValid h n = false ∧ nodePrevIsValid h n = false := by
  simp [nodeIsInList, nodeNextIsValid, nodePrevIsValid, hn]

end AwsVerif.Proofs.C09
