import AwsVerif.Proofs.C09.ALSort
/-! Lifting the per-operation simulation to stores of lists and to operation sequences. -/
namespace AwsVerif.Proofs.C09
open AwsVerif.ArrayList

/-- every one-list operation preserves the refinement relation and returns the predicted code -/
theorem sim_step {l : AL} {r : RefL} (h : Rel l r) (op : Op) (hp : pre l op) :
    Rel (step l op).1 (refStep r op).1 ∧ (step l op).2 = (refStep r op).2 := by
  cases op with
  | pushBack v => exact sim_pushBack h v hp
  | pushFront v => exact sim_pushFront h v hp
  | popBack => exact sim_popBack h
  | popFront => exact sim_popFront h
  | popFrontN n => exact sim_popFrontN h n
  | setAt i v => exact sim_setAt h i v hp
  | erase i => exact sim_erase h i
  | swap a b => exact sim_swap h a b hp.1 hp.2
  | clear => exact ⟨sim_clear h, rfl⟩
  | shrink => exact sim_shrink h
  | ensure i => exact sim_ensure h i
  | sort => exact sim_sort h


theorem relS_upd {s : Store} {r : RStore} (h : RelS s r) {k : Nat} {x : AL} {y : RefL} (hx : Rel x y) :
    RelS (upd s k x) (upd r k y) := by
  intro j
  unfold upd
  by_cases hj : j = k
  · rw [if_pos hj, if_pos hj]; exact hx
  · rw [if_neg hj, if_neg hj]; exact h j

theorem sim_sys {s : Store} {r : RStore} (h : RelS s r) (op : SysOp) (hp : sysPre s op) :
    RelS (sysStep s op).1 (refSysStep r op).1 ∧ (sysStep s op).2 = (refSysStep r op).2 := by
  cases op with
  | on k op =>
    have := sim_step (h k) op hp
    exact ⟨relS_upd h this.1, this.2⟩
  | copy f t =>
    have := sim_copy (h f) (h t) hp.2.1 hp.2.2
    exact ⟨relS_upd h this.1, this.2⟩
  | swapContents a b =>
    have e := sim_swapContents (a := s a) (b := s b) ⟨hp.2.1, hp.2.2.1, hp.2.2.2⟩
    simp only [sysStep, refSysStep, e]
    exact ⟨relS_upd (relS_upd h (h b)) (h a), trivial⟩

/-- the array list refines the reference sequence along every operation sequence -/
theorem run_sim (ops : List SysOp) : ∀ {s : Store} {r : RStore}, RelS s r → PreAll s ops →
    RelS (runM s ops).1 (runR r ops).1 ∧ (runM s ops).2 = (runR r ops).2 := by
  induction ops with
  | nil => intro s r h _; exact ⟨h, rfl⟩
  | cons op ops ih =>
    intro s r h hp
    obtain ⟨h1, h2⟩ := sim_sys h op hp.1
    obtain ⟨h3, h4⟩ := ih h1 hp.2
    simp only [runM, runR]
    exact ⟨h3, by rw [h2, h4]⟩

/-! ### the reference never reports a crash, and never changes item size / storage kind -/

theorem refStep_shape (r : RefL) (op : Op) :
    (refStep r op).2 ≠ .err .fault ∧ (refStep r op).1.isz = r.isz ∧ (refStep r op).1.cap = r.cap := by
  have pe : ∀ e, r.ensureErr r.items.length = some e → pushErr e ≠ .fault := by
    intro e he
    rcases ensureErr_cases he with rfl | ⟨rfl, _⟩ <;> simp [pushErr]
  have ee : ∀ i e, r.ensureErr i = some e → e ≠ .fault := by
    intro i e he
    rcases ensureErr_cases he with rfl | ⟨rfl, _⟩ <;> simp
  cases op with
  | pushBack v =>
    simp only [refStep]
    cases he : r.ensureErr r.items.length with
    | some e => exact ⟨fun c => pe e he (by simpa using c), rfl, rfl⟩
    | none => exact ⟨by simp, rfl, rfl⟩
  | pushFront v =>
    simp only [refStep]
    cases he : r.ensureErr r.items.length with
    | some e => exact ⟨fun c => pe e he (by simpa using c), rfl, rfl⟩
    | none => exact ⟨by simp, rfl, rfl⟩
  | popBack => simp only [refStep]; split <;> exact ⟨by simp, rfl, rfl⟩
  | popFront => simp only [refStep]; split <;> exact ⟨by simp, rfl, rfl⟩
  | popFrontN n => exact ⟨by simp [refStep], rfl, rfl⟩
  | setAt i v =>
    simp only [refStep]
    cases he : r.ensureErr i with
    | some e => exact ⟨fun c => ee i e he (by simpa using c), rfl, rfl⟩
    | none => simp only; split <;> exact ⟨by simp, rfl, rfl⟩
  | erase i => simp only [refStep]; split <;> exact ⟨by simp, rfl, rfl⟩
  | swap a b => exact ⟨by simp [refStep], rfl, rfl⟩
  | clear => exact ⟨by simp [refStep], rfl, rfl⟩
  | shrink => simp only [refStep]; split <;> exact ⟨by simp, rfl, rfl⟩
  | ensure i =>
    simp only [refStep]
    cases he : r.ensureErr i with
    | some e => exact ⟨fun c => ee i e he (by simpa using c), rfl, rfl⟩
    | none => exact ⟨by simp, rfl, rfl⟩
  | sort => exact ⟨by simp [refStep], rfl, rfl⟩

theorem refCopy_shape (f t : RefL) :
    (refCopy f t).2 ≠ .err .fault ∧ (refCopy f t).1.isz = t.isz ∧ (refCopy f t).1.cap = t.cap := by
  unfold refCopy
  split
  · split <;> exact ⟨by simp, rfl, rfl⟩
  · exact ⟨by simp, rfl, rfl⟩

theorem refSys_shape {s : Store} {r : RStore} (h : RelS s r) (op : SysOp) (hp : sysPre s op) :
    (refSysStep r op).2 ≠ .err .fault ∧
    ∀ k, ((refSysStep r op).1 k).isz = (r k).isz ∧ ((refSysStep r op).1 k).cap = (r k).cap := by
  cases op with
  | on k op =>
    have := refStep_shape (r k) op
    refine ⟨this.1, fun j => ?_⟩
    simp only [refSysStep, upd]
    by_cases hj : j = k
    · rw [if_pos hj, hj]; exact this.2
    · rw [if_neg hj]; exact ⟨rfl, rfl⟩
  | copy f t =>
    have := refCopy_shape (r f) (r t)
    refine ⟨this.1, fun j => ?_⟩
    simp only [refSysStep, upd]
    by_cases hj : j = t
    · rw [if_pos hj, hj]; exact this.2
    · rw [if_neg hj]; exact ⟨rfl, rfl⟩
  | swapContents a b =>
    refine ⟨by simp [refSysStep], fun j => ?_⟩
    have hisz : (r a).isz = (r b).isz := by rw [← (h a).isz, ← (h b).isz]; exact hp.2.2.2
    have hca : (r a).cap = none := by
      have := (h a).dyn; rw [hp.2.1] at this
      cases hc : (r a).cap with
      | none => rfl
      | some c => rw [hc] at this; cases this
    have hcb : (r b).cap = none := by
      have := (h b).dyn; rw [hp.2.2.1] at this
      cases hc : (r b).cap with
      | none => rfl
      | some c => rw [hc] at this; cases this
    simp only [refSysStep, upd]
    by_cases hj : j = b
    · rw [if_pos hj, hj]; exact ⟨hisz, by rw [hca, hcb]⟩
    · rw [if_neg hj]
      by_cases hj2 : j = a
      · rw [if_pos hj2, hj2]; exact ⟨hisz.symm, by rw [hca, hcb]⟩
      · rw [if_neg hj2]; exact ⟨rfl, rfl⟩

/-- along every run under the API preconditions: no operation crashes, and every list keeps its item
size and storage kind (in particular static storage keeps its size) -/
theorem run_safe (ops : List SysOp) : ∀ {s : Store} {r : RStore}, RelS s r → PreAll s ops →
    (∀ rc, rc ∈ (runM s ops).2 → rc ≠ .err .fault) ∧
    ∀ k, ((runR r ops).1 k).isz = (r k).isz ∧ ((runR r ops).1 k).cap = (r k).cap := by
  induction ops with
  | nil => intro s r _ _; exact ⟨fun rc hrc => by simp [runM] at hrc, fun k => ⟨rfl, rfl⟩⟩
  | cons op ops ih =>
    intro s r h hp
    obtain ⟨h1, h2⟩ := sim_sys h op hp.1
    obtain ⟨h3, h4⟩ := ih h1 hp.2
    obtain ⟨h5, h6⟩ := refSys_shape (r := r) h op hp.1
    simp only [runM, runR]
    refine ⟨fun rc hrc => ?_, fun k => ?_⟩
    · rcases List.mem_cons.mp hrc with e | e
      · rw [e, h2]; exact h5
      · exact h3 rc e
    · exact ⟨(h4 k).1.trans (h6 k).1, (h4 k).2.trans (h6 k).2⟩

/-- a refused growth leaves the list exactly as it was -/
theorem static_refuses {l : AL} {r : RefL} (h : Rel l r) {c : Nat} (hc : r.cap = some c) (i : Nat) (hi : c ≤ i) :
    ensureCapacity l i = .error .invalidIndex ∨ ensureCapacity l i = .error .overflow := by
  have hs := ensure_sim h i
  cases he : r.ensureErr i with
  | none =>
    exfalso
    unfold RefL.ensureErr at he
    split at he
    · cases he
    · rw [hc] at he; simp only [if_pos hi] at he; cases he
  | some e =>
    rw [he] at hs
    rcases ensureErr_cases he with rfl | ⟨rfl, _⟩
    · right; exact hs
    · left; exact hs


/-- reading an element the reference holds returns exactly its bytes -/
theorem read_holds {d : Region} {s i : Nat} {v : List UInt8} (h : Holds d s i v) (hb : i * s + s ≤ d.length) :
    d.read (i * s) s = some (v.map some) := by
  rw [read_some hb]
  congr 1
  apply List.ext_getElem?
  intro k
  rw [List.getElem?_take, List.getElem?_drop]
  by_cases hk : k < s
  · rw [if_pos hk, h.2 k hk, map_some_get (by rw [h.1]; exact hk)]
  · rw [if_neg hk]
    exact (List.getElem?_eq_none (by rw [List.length_map, h.1]; omega)).symm

theorem getAt_ref {l : AL} {r : RefL} (h : Rel l r) {i : Nat} {v : List UInt8} (hv : r.items[i]? = some (some v)) :
    getAt l i = .ok (v.map some) := by
  have hi := lt_len hv
  have hb := idx_le (s := r.isz) hi
  have hfit := h.fit
  unfold getAt
  rw [if_pos (by rw [h.len]; exact hi), h.isz, read_holds (h.elems i v hv) (by omega)]

theorem getAt_oob {l : AL} {r : RefL} (h : Rel l r) {i : Nat} (hi : r.items.length ≤ i) :
    getAt l i = .error .invalidIndex := by
  unfold getAt
  rw [if_neg (by rw [h.len]; omega)]

theorem front_ref {l : AL} {r : RefL} (h : Rel l r) {v : List UInt8} (hv : r.items[0]? = some (some v)) :
    front l = .ok (v.map some) := by
  have hi := lt_len hv
  have hb := idx_le (s := r.isz) hi
  have hfit := h.fit
  have := read_holds (h.elems 0 v hv) (by omega)
  rw [Nat.zero_mul] at this
  unfold front
  rw [if_pos (by rw [h.len]; exact hi), h.isz, this]

theorem back_ref {l : AL} {r : RefL} (h : Rel l r) {v : List UInt8}
    (hv : r.items[r.items.length - 1]? = some (some v)) : back l = .ok (v.map some) := by
  have hi := lt_len hv
  have hb := idx_le (s := r.isz) hi
  have hfit := h.fit
  unfold back
  rw [if_pos (by rw [h.len]; omega), h.isz, h.len, read_holds (h.elems _ v hv) (by omega)]

theorem empty_ref {l : AL} {r : RefL} (h : Rel l r) (he : r.items = []) :
    front l = .error .listEmpty ∧ back l = .error .listEmpty := by
  have : ¬ l.length > 0 := by rw [h.len, he]; simp
  unfold front back
  rw [if_neg this, if_neg this]
  exact ⟨rfl, rfl⟩

theorem len_le_capacity {l : AL} {r : RefL} (h : Rel l r) : l.length ≤ l.capacity := by
  unfold AL.capacity
  rw [h.len, h.isz]
  exact (Nat.le_div_iff_mul_le h.pos).mpr h.fit

theorem rel_initDynamic {n isz : Nat} {l : AL} (h : initDynamic n isz = .ok l) : Rel l ⟨[], isz, none⟩ := by
  unfold initDynamic at h
  split at h
  · cases h
  · split at h
    · cases h
    · cases h
      refine ⟨rfl, (by show 0 < isz; omega), rfl, by simp, ?_, rfl, fun c hc => (by cases hc), fun i v hv => (by simp at hv)⟩
      simp only [List.length_replicate]; omega

theorem rel_initStatic {c isz : Nat} {l : AL} (h : initStatic c isz = .ok l) : Rel l ⟨[], isz, some c⟩ := by
  unfold initStatic at h
  split at h
  · cases h
  · cases h
    rename_i hn
    refine ⟨rfl, (by show 0 < isz; omega), rfl, by simp, ?_, rfl, fun c' hc => ?_, fun i v hv => (by simp at hv)⟩
    · simp only [List.length_replicate]; omega
    · cases hc; simp only [List.length_replicate]


/-! ### overflow of `index + 1` / `(index + 1) * item_size` -/

theorem calc_overflow {isz i : Nat} (h : i + 1 > SIZE_MAX ∨ (i + 1) * isz > SIZE_MAX) :
    calcNecessarySize isz i = .error .overflow := by
  unfold calcNecessarySize
  by_cases h1 : i + 1 > SIZE_MAX
  · rw [if_pos h1]
  · rw [if_neg h1]
    rcases h with h | h
    · exact absurd h h1
    · rw [if_pos h]

theorem ensure_overflow {l : AL} {i : Nat} (h : i + 1 > SIZE_MAX ∨ (i + 1) * l.itemSize > SIZE_MAX) :
    ensureCapacity l i = .error .overflow := by
  unfold ensureCapacity; rw [calc_overflow h]

theorem setAt_overflow {l : AL} {i : Nat} (v : List UInt8) (h : i + 1 > SIZE_MAX ∨ (i + 1) * l.itemSize > SIZE_MAX) :
    setAt l v i = (l, .err .overflow) := by
  unfold setAt; rw [ensure_overflow h]

theorem pushBack_overflow {l : AL} (v : List UInt8)
    (h : l.length + 1 > SIZE_MAX ∨ (l.length + 1) * l.itemSize > SIZE_MAX) : pushBack l v = (l, .err .overflow) := by
  unfold pushBack; rw [setAt_overflow v h]

theorem pushFront_overflow {l : AL} (v : List UInt8)
    (h : l.length + 1 > SIZE_MAX ∨ (l.length + 1) * l.itemSize > SIZE_MAX) : pushFront l v = (l, .err .overflow) := by
  unfold pushFront
  simp only [ensure_overflow h]
  have : ¬ (Err.overflow = Err.invalidIndex ∧ (!l.dyn) = true) := by simp
  rw [if_neg this]

theorem initDynamic_overflow {n isz : Nat} (hz : isz ≠ 0) (h : n * isz > SIZE_MAX) : initDynamic n isz = .error .overflow := by
  unfold initDynamic; rw [if_neg hz, if_pos h]


/-! ### decidability of the preconditions (used by the concrete examples) -/
instance (l : AL) (op : Op) : Decidable (pre l op) := by
  cases op <;> simp only [pre] <;> infer_instance
instance (s : Store) (op : SysOp) : Decidable (sysPre s op) := by
  cases op <;> simp only [sysPre] <;> infer_instance
instance decPreAll : (s : Store) → (ops : List SysOp) → Decidable (PreAll s ops)
  | _, [] => isTrue trivial
  | s, _ :: ops => by
    simp only [PreAll]
    exact @instDecidableAnd _ _ _ (decPreAll _ ops)

end AwsVerif.Proofs.C09
