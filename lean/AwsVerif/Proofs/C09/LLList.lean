import AwsVerif.Proofs.C09.LLOps
/-! The list-level operations built from insert / remove. -/
set_option linter.unusedSimpArgs false
namespace AwsVerif.Proofs.C09
open AwsVerif.LinkedList

theorem snoc_exists {α} (a : α) (l : List α) : ∃ c p, a :: l = c ++ [p] := by
  induction l generalizing a with
  | nil => exact ⟨[], a, rfl⟩
  | cons b l ih =>
    obtain ⟨c, p, e⟩ := ih b
    exact ⟨a :: c, p, by rw [e]; rfl⟩

theorem cons_exists {α} (l : List α) (t : α) : ∃ f c, l ++ [t] = f :: c := by
  cases l with
  | nil => exact ⟨t, [], rfl⟩
  | cons x l => exact ⟨x, l ++ [t], rfl⟩

/-- the chain of a list -/
abbrev chainOf (l : LL) (xs : List NodeId) : List NodeId := l.head :: xs ++ [l.tail]

theorem link_of_ch {h : Heap} {c1 c2 : List NodeId} {p q : NodeId} (hc : Ch h (c1 ++ p :: q :: c2)) : Link h p q :=
  ((ch_append c1 p (q :: c2)).mp hc).2.1

/-- generic insertion of `n` between the adjacent chain members `p`, `q` -/
theorem ll_insert_between {h : Heap} {l : LL} {xs xs' c1 c2 : List NodeId} {p q n : NodeId} (w : WellLinked h l xs)
    (e : chainOf l xs = c1 ++ p :: q :: c2) (e' : chainOf l xs' = c1 ++ p :: n :: q :: c2)
    (hn : n ∉ chainOf l xs) (hhq : l.head ≠ q) (htp : l.tail ≠ p) :
    (∃ h', insertBefore h q n = some h' ∧ WellLinked h' l xs' ∧ ∀ m, m ∉ chainOf l xs → m ≠ n → h' m = h m) ∧
    (∃ h', insertAfter h p n = some h' ∧ WellLinked h' l xs' ∧ ∀ m, m ∉ chainOf l xs → m ≠ n → h' m = h m) := by
  have hc := w.ch
  have hc' : Ch h (c1 ++ p :: q :: c2) := by rw [← e]; exact hc
  have hl := link_of_ch hc'
  have hnp : n ≠ p := fun c => hn (by rw [e, c]; simp)
  have hnq : n ≠ q := fun c => hn (by rw [e, c]; simp)
  have fr : ∀ h', InsSpec h h' p q n → ∀ m, m ∉ chainOf l xs → m ≠ n → h' m = h m := by
    intro h' hs m hm hmn
    exact insSpec_frame hs (fun c => hm (by rw [e, c]; simp)) (fun c => hm (by rw [e, c]; simp)) hmn
  constructor
  · obtain ⟨h', he, hs⟩ := insertBefore_spec hl hnq hnp
    exact ⟨h', he, wl_ins w e e' hn hhq htp hs, fr h' hs⟩
  · obtain ⟨h', he, hs⟩ := insertAfter_spec hl hnq hnp
    exact ⟨h', he, wl_ins w e e' hn hhq htp hs, fr h' hs⟩

theorem wl_head_ne_tail {h : Heap} {l : LL} {xs : List NodeId} (w : WellLinked h l xs) : l.head ≠ l.tail := by
  have := w.nodup
  simp only [List.cons_append, List.nodup_cons, List.mem_append, List.mem_singleton, not_or] at this
  exact this.1.2

theorem wl_head_notin {h : Heap} {l : LL} {xs : List NodeId} (w : WellLinked h l xs) : l.head ∉ xs := by
  have := w.nodup
  simp only [List.cons_append, List.nodup_cons, List.mem_append, List.mem_singleton, not_or] at this
  exact this.1.1

theorem wl_tail_notin {h : Heap} {l : LL} {xs : List NodeId} (w : WellLinked h l xs) : l.tail ∉ xs := by
  have := w.nodup
  simp only [List.cons_append, List.nodup_cons, List.nodup_append, List.mem_singleton] at this
  intro c
  exact this.2.2.2 _ c _ rfl rfl

theorem ll_pushBack {h : Heap} {l : LL} {xs : List NodeId} {n : NodeId} (w : WellLinked h l xs)
    (hn : n ∉ chainOf l xs) :
    ∃ h', pushBack h l n = some h' ∧ WellLinked h' l (xs ++ [n]) ∧ ∀ m, m ∉ chainOf l xs → m ≠ n → h' m = h m := by
  obtain ⟨c1, p, ec⟩ := snoc_exists l.head xs
  have e : chainOf l xs = c1 ++ p :: l.tail :: [] := by simp only [chainOf]; rw [ec]; simp
  have e' : chainOf l (xs ++ [n]) = c1 ++ p :: n :: l.tail :: [] := by
    simp only [chainOf]; rw [← List.cons_append, ec]; simp
  have hp : p ∈ l.head :: xs := by rw [ec]; simp
  have htp : l.tail ≠ p := by
    intro c; rw [← c] at hp
    rcases List.mem_cons.mp hp with d | d
    · exact wl_head_ne_tail w d.symm
    · exact wl_tail_notin w d
  exact (ll_insert_between w e e' hn (wl_head_ne_tail w) htp).1

theorem ll_pushFront {h : Heap} {l : LL} {xs : List NodeId} {n : NodeId} (w : WellLinked h l xs)
    (hn : n ∉ chainOf l xs) :
    ∃ h', pushFront h l n = some h' ∧ WellLinked h' l (n :: xs) ∧ ∀ m, m ∉ chainOf l xs → m ≠ n → h' m = h m := by
  obtain ⟨f, c2, ec⟩ := cons_exists xs l.tail
  have e : chainOf l xs = [] ++ l.head :: f :: c2 := by simp only [chainOf, List.cons_append, ec, List.nil_append]
  have e' : chainOf l (n :: xs) = [] ++ l.head :: n :: f :: c2 := by
    simp only [chainOf, List.cons_append, ec, List.nil_append]
  have hf : f ∈ xs ++ [l.tail] := by rw [ec]; simp
  have hhf : l.head ≠ f := by
    intro c; rw [← c] at hf
    rcases List.mem_append.mp hf with d | d
    · exact wl_head_notin w d
    · simp only [List.mem_singleton] at d; exact wl_head_ne_tail w d
  have hl : Link h l.head f := link_of_ch (c1 := []) (by rw [← e]; exact w.ch)
  obtain ⟨h', he, hw, hfr⟩ := (ll_insert_between w e e' hn hhf (Ne.symm (wl_head_ne_tail w))).1
  refine ⟨h', ?_, hw, hfr⟩
  simp only [pushFront, hl.1, he]

/-- `insert_before(q, n)` and `insert_after(p, n)` for a member of the list -/
theorem ll_insertBefore {h : Heap} {l : LL} {ys zs : List NodeId} {q n : NodeId} (w : WellLinked h l (ys ++ q :: zs))
    (hn : n ∉ chainOf l (ys ++ q :: zs)) :
    ∃ h', insertBefore h q n = some h' ∧ WellLinked h' l (ys ++ n :: q :: zs) ∧
      ∀ m, m ∉ chainOf l (ys ++ q :: zs) → m ≠ n → h' m = h m := by
  obtain ⟨c1, p, ec⟩ := snoc_exists l.head ys
  have e : chainOf l (ys ++ q :: zs) = c1 ++ p :: q :: (zs ++ [l.tail]) := by
    simp only [chainOf]; rw [← List.cons_append, ec]; simp
  have e' : chainOf l (ys ++ n :: q :: zs) = c1 ++ p :: n :: q :: (zs ++ [l.tail]) := by
    simp only [chainOf]; rw [← List.cons_append, ec]; simp
  have hq : q ∈ ys ++ q :: zs := by simp
  have hhq : l.head ≠ q := fun c => wl_head_notin w (c ▸ hq)
  have hnd := w.nodup
  rw [show l.head :: (ys ++ q :: zs) ++ [l.tail] = chainOf l (ys ++ q :: zs) from rfl, e] at hnd
  have htp : l.tail ≠ p := by
    obtain ⟨_, _, d3⟩ := nodup_split hnd
    exact (d3 l.tail (by simp)).1
  exact (ll_insert_between w e e' hn hhq htp).1

theorem ll_insertAfter {h : Heap} {l : LL} {ys zs : List NodeId} {p n : NodeId} (w : WellLinked h l (ys ++ p :: zs))
    (hn : n ∉ chainOf l (ys ++ p :: zs)) :
    ∃ h', insertAfter h p n = some h' ∧ WellLinked h' l (ys ++ p :: n :: zs) ∧
      ∀ m, m ∉ chainOf l (ys ++ p :: zs) → m ≠ n → h' m = h m := by
  obtain ⟨q, c2, ec⟩ := cons_exists zs l.tail
  have e : chainOf l (ys ++ p :: zs) = (l.head :: ys) ++ p :: q :: c2 := by
    simp only [chainOf, List.cons_append, List.append_assoc, ec]
  have e' : chainOf l (ys ++ p :: n :: zs) = (l.head :: ys) ++ p :: n :: q :: c2 := by
    simp only [chainOf, List.cons_append, List.append_assoc, ec]
  have hp : p ∈ ys ++ p :: zs := by simp
  have htp : l.tail ≠ p := fun c => wl_tail_notin w (c ▸ hp)
  have hnd := w.nodup
  rw [show l.head :: (ys ++ p :: zs) ++ [l.tail] = chainOf l (ys ++ p :: zs) from rfl, e] at hnd
  have hhq : l.head ≠ q := by
    obtain ⟨d1, _, _⟩ := nodup_split hnd
    exact (d1 l.head (by simp)).2
  exact (ll_insert_between w e e' hn hhq htp).2

/-- `remove(x)` for a member of the list: the node is unlinked and fully detached -/
theorem ll_remove {h : Heap} {l : LL} {ys zs : List NodeId} {x : NodeId} (w : WellLinked h l (ys ++ x :: zs)) :
    ∃ h', remove h x = some h' ∧ WellLinked h' l (ys ++ zs) ∧ h' x = ⟨none, none⟩ ∧
      ∀ m, m ∉ chainOf l (ys ++ x :: zs) → h' m = h m := by
  obtain ⟨c1, p, ec⟩ := snoc_exists l.head ys
  obtain ⟨q, c2, ec2⟩ := cons_exists zs l.tail
  have e : chainOf l (ys ++ x :: zs) = c1 ++ p :: x :: q :: c2 := by
    simp only [chainOf]; rw [← List.cons_append, ec]; simp [ec2]
  have e' : chainOf l (ys ++ zs) = c1 ++ p :: q :: c2 := by
    simp only [chainOf]; rw [← List.cons_append, ec]; simp [ec2]
  have hx : x ∈ ys ++ x :: zs := by simp
  have hhx : l.head ≠ x := fun c => wl_head_notin w (c ▸ hx)
  have htx : l.tail ≠ x := fun c => wl_tail_notin w (c ▸ hx)
  have hnd := w.nodup
  have hc := w.ch
  rw [show l.head :: (ys ++ x :: zs) ++ [l.tail] = chainOf l (ys ++ x :: zs) from rfl, e] at hnd hc
  obtain ⟨d1, dpx, d3⟩ := nodup_split hnd
  have hnd2 := hnd
  rw [show c1 ++ p :: x :: q :: c2 = (c1 ++ [p]) ++ x :: q :: c2 by simp] at hnd2
  obtain ⟨f1, dxq, f3⟩ := nodup_split hnd2
  have hl1 : Link h p x := link_of_ch hc
  have hl2 : Link h x q := link_of_ch (c1 := c1 ++ [p]) (by simpa using hc)
  obtain ⟨h', he, hs⟩ := remove_spec hl1 hl2 dpx (Ne.symm dxq)
  have hhq : l.head ≠ q := by
    have : l.head ∈ c1 ++ [p] := by rw [← ec]; simp
    exact (f1 l.head this).2
  have htp : l.tail ≠ p := by
    have : l.tail ∈ q :: c2 := by rw [← ec2]; simp
    exact (d3 l.tail this).1
  refine ⟨h', he, wl_del w e e' hhx htx hhq htp hs, node_ext (by rw [hs.next, if_pos rfl]) (by rw [hs.prev, if_pos rfl]), ?_⟩
  intro m hm
  exact delSpec_frame hs (fun c => hm (by rw [e, c]; simp)) (fun c => hm (by rw [e, c]; simp)) (fun c => hm (by rw [e, c]; simp))

theorem ll_popBack {h : Heap} {l : LL} {ys : List NodeId} {x : NodeId} (w : WellLinked h l (ys ++ [x])) :
    ∃ h', popBack h l = some (h', x) ∧ WellLinked h' l ys ∧ h' x = ⟨none, none⟩ ∧
      ∀ m, m ∉ chainOf l (ys ++ [x]) → h' m = h m := by
  obtain ⟨h', he, hw, hx, hf⟩ := ll_remove (zs := []) w
  have e : chainOf l (ys ++ [x]) = (l.head :: ys) ++ x :: l.tail :: [] := by simp [chainOf]
  have hl : Link h x l.tail := link_of_ch (by rw [← e]; exact w.ch)
  refine ⟨h', ?_, by simpa using hw, hx, hf⟩
  simp only [popBack, hl.2, he, Option.map_some]

theorem ll_popFront {h : Heap} {l : LL} {zs : List NodeId} {x : NodeId} (w : WellLinked h l (x :: zs)) :
    ∃ h', popFront h l = some (h', x) ∧ WellLinked h' l zs ∧ h' x = ⟨none, none⟩ ∧
      ∀ m, m ∉ chainOf l (x :: zs) → h' m = h m := by
  obtain ⟨h', he, hw, hx, hf⟩ := ll_remove (ys := []) (by simpa using w)
  have hl : Link h l.head x := w.ch.1
  refine ⟨h', ?_, by simpa using hw, hx, by simpa using hf⟩
  simp only [popFront, hl.1, he, Option.map_some]

end AwsVerif.Proofs.C09
