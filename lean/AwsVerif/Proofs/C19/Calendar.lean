import AwsVerif.Model.DateTime
/-! Calendar lemmas for C19: `civilFromDays` (bounded search) is the inverse of the closed-form
day count, and both agree with an independent recursive calendar. -/
namespace AwsVerif.Proofs.C19
open AwsVerif.DateTime

/-! ### `searchDown` -/

theorem searchDown_le (f : Nat → Nat) (d k : Nat) : searchDown f d k ≤ k := by
  induction k with
  | zero => simp [searchDown]
  | succ k ih => unfold searchDown; split <;> omega

theorem searchDown_ok (f : Nat → Nat) (d k : Nat) (h0 : f 0 ≤ d) : f (searchDown f d k) ≤ d := by
  induction k with
  | zero => simpa [searchDown] using h0
  | succ k ih => unfold searchDown; split <;> assumption

theorem searchDown_max (f : Nat → Nat) (d k j : Nat) (h1 : searchDown f d k < j) (h2 : j ≤ k) : d < f j := by
  induction k with
  | zero => simp [searchDown] at h1; omega
  | succ k ih =>
    unfold searchDown at h1
    split at h1
    · omega
    · by_cases hj : j = k + 1
      · subst hj; omega
      · exact ih h1 (by omega)

/-- a function that increases at every step below `n` is strictly monotone up to `n` -/
theorem strict_of_step (f : Nat → Nat) (n : Nat) (hs : ∀ m, m < n → f m < f (m + 1)) :
    ∀ a b, a < b → b ≤ n → f a < f b := by
  intro a b hab hb
  induction b with
  | zero => omega
  | succ b ih =>
    by_cases h : a = b
    · subst h; exact hs a (by omega)
    · have := ih (by omega) (by omega); have := hs b (by omega); omega

/-! ### years -/

theorem isLeap_iff (y : Nat) : isLeap y = true ↔ ((y % 4 = 0 ∧ y % 100 ≠ 0) ∨ y % 400 = 0) := by
  simp [isLeap]

theorem div_succ (p k : Nat) : (p + 1) / k = p / k + (if (p + 1) % k = 0 then 1 else 0) := by
  rw [Nat.succ_div]; congr 1; simp [Nat.dvd_iff_mod_eq_zero]

theorem daysInYears_step (p : Nat) : daysInYears (p + 1) = daysInYears p + (if isLeap (p + 1) then 366 else 365) := by
  have e4 := div_succ p 4
  have e100 := div_succ p 100
  have e400 := div_succ p 400
  have l1 : p / 100 ≤ p / 4 := by omega
  have l2 : (p + 1) / 100 ≤ (p + 1) / 4 := by omega
  have i1 : (p + 1) % 400 = 0 → (p + 1) % 100 = 0 := by omega
  have i2 : (p + 1) % 100 = 0 → (p + 1) % 4 = 0 := by omega
  unfold daysInYears isLeap
  generalize (p + 1) / 4 = a1 at *
  generalize (p + 1) / 100 = b1 at *
  generalize (p + 1) / 400 = c1 at *
  generalize p / 4 = a at *
  generalize p / 100 = b at *
  generalize p / 400 = c at *
  by_cases c4 : (p + 1) % 4 = 0 <;> by_cases c100 : (p + 1) % 100 = 0 <;> by_cases c400 : (p + 1) % 400 = 0 <;>
    simp [c4, c100, c400] at * <;> omega

theorem daysInYears_lt_succ (p : Nat) : daysInYears p < daysInYears (p + 1) := by
  rw [daysInYears_step]; split <;> omega

theorem daysInYears_strict {p q : Nat} (h : p < q) : daysInYears p < daysInYears q :=
  strict_of_step daysInYears q (fun m _ => daysInYears_lt_succ m) p q h (Nat.le_refl _)

theorem daysInYears_mono {p q : Nat} (h : p ≤ q) : daysInYears p ≤ daysInYears q := by
  by_cases e : p = q
  · subst e; exact Nat.le_refl _
  · exact Nat.le_of_lt (daysInYears_strict (by omega))

theorem daysInYears_ge (p : Nat) : 365 * p ≤ daysInYears p := by unfold daysInYears; omega

/-- the year found by the search brackets the day -/
theorem year_bracket (z : Nat) :
    daysInYears (searchDown daysInYears z (z / 365 + 1)) ≤ z ∧
    z < daysInYears (searchDown daysInYears z (z / 365 + 1) + 1) := by
  refine ⟨searchDown_ok _ _ _ (by simp [daysInYears]), ?_⟩
  have hle := searchDown_le daysInYears z (z / 365 + 1)
  by_cases hp : searchDown daysInYears z (z / 365 + 1) + 1 ≤ z / 365 + 1
  · exact searchDown_max daysInYears z (z / 365 + 1) _ (Nat.lt_succ_self _) hp
  · have := daysInYears_ge (searchDown daysInYears z (z / 365 + 1) + 1)
    omega

theorem year_unique {z p q : Nat} (hp : daysInYears p ≤ z ∧ z < daysInYears (p + 1))
    (hq : daysInYears q ≤ z ∧ z < daysInYears (q + 1)) : p = q := by
  rcases Nat.lt_trichotomy p q with h | h | h
  · have := daysInYears_mono (show p + 1 ≤ q by omega); omega
  · exact h
  · have := daysInYears_mono (show q + 1 ≤ p by omega); omega

/-! ### months -/

theorem dbm_step (l : Bool) (m : Nat) (h : m < 12) : daysBeforeMonth l m < daysBeforeMonth l (m + 1) := by
  have : m = 0 ∨ m = 1 ∨ m = 2 ∨ m = 3 ∨ m = 4 ∨ m = 5 ∨ m = 6 ∨ m = 7 ∨ m = 8 ∨ m = 9 ∨ m = 10 ∨ m = 11 := by omega
  rcases this with h | h | h | h | h | h | h | h | h | h | h | h <;> subst h <;> cases l <;> simp [daysBeforeMonth]

theorem dbm_strict (l : Bool) {a b : Nat} (h : a < b) (hb : b ≤ 12) : daysBeforeMonth l a < daysBeforeMonth l b :=
  strict_of_step (daysBeforeMonth l) 12 (fun m hm => dbm_step l m hm) a b h hb

theorem dbm_zero (l : Bool) : daysBeforeMonth l 0 = 0 := by simp [daysBeforeMonth]
theorem dbm_twelve (l : Bool) : daysBeforeMonth l 12 = 365 + (if l then 1 else 0) := by simp [daysBeforeMonth]

theorem month_bracket (l : Bool) (r : Nat) (hr : r < daysBeforeMonth l 12) :
    searchDown (daysBeforeMonth l) r 11 ≤ 11 ∧
    daysBeforeMonth l (searchDown (daysBeforeMonth l) r 11) ≤ r ∧
    r < daysBeforeMonth l (searchDown (daysBeforeMonth l) r 11 + 1) := by
  have hle := searchDown_le (daysBeforeMonth l) r 11
  refine ⟨hle, searchDown_ok _ _ _ (by simp [dbm_zero]), ?_⟩
  by_cases hp : searchDown (daysBeforeMonth l) r 11 + 1 ≤ 11
  · exact searchDown_max _ r 11 _ (Nat.lt_succ_self _) hp
  · have : searchDown (daysBeforeMonth l) r 11 = 11 := by omega
    rw [this]; exact hr

theorem month_unique (l : Bool) {r a b : Nat} (ha : a ≤ 11) (hb : b ≤ 11)
    (h1 : daysBeforeMonth l a ≤ r ∧ r < daysBeforeMonth l (a + 1))
    (h2 : daysBeforeMonth l b ≤ r ∧ r < daysBeforeMonth l (b + 1)) : a = b := by
  rcases Nat.lt_trichotomy a b with h | h | h
  · by_cases e : a + 1 = b
    · subst e; omega
    · have := dbm_strict l (show a + 1 < b by omega) (by omega); omega
  · exact h
  · by_cases e : b + 1 = a
    · subst e; omega
    · have := dbm_strict l (show b + 1 < a by omega) (by omega); omega

/-- length of month `m` (0-based) as the table gives it -/
def monthLen (l : Bool) (m : Nat) : Nat := daysBeforeMonth l (m + 1) - daysBeforeMonth l m

/-- a civil date in the model's terms -/
def validCivil (y m d : Nat) : Prop := 1 ≤ y ∧ m ≤ 11 ∧ 1 ≤ d ∧ d ≤ monthLen (isLeap y) m

theorem daysInYears_step' (p : Nat) : daysInYears (p + 1) = daysInYears p + daysBeforeMonth (isLeap (p + 1)) 12 := by
  rw [daysInYears_step, dbm_twelve]
  by_cases hl : isLeap (p + 1) = true
  · rw [if_pos hl, if_pos hl]
  · rw [if_neg hl, if_neg hl]

/-- `civilFromDays` returns a valid date whose day number is the argument -/
theorem civilFromDays_spec (z : Nat) :
    validCivil (civilFromDays z).1 (civilFromDays z).2.1 (civilFromDays z).2.2 ∧
    daysFromCivil (civilFromDays z).1 (civilFromDays z).2.1 (civilFromDays z).2.2 = z := by
  have hy := year_bracket z
  generalize hp : searchDown daysInYears z (z / 365 + 1) = p at hy
  have hstep := daysInYears_step' p
  have hr : z - daysInYears p < daysBeforeMonth (isLeap (p + 1)) 12 := by omega
  have hm := month_bracket (isLeap (p + 1)) (z - daysInYears p) hr
  generalize hmm : searchDown (daysBeforeMonth (isLeap (p + 1))) (z - daysInYears p) 11 = m at hm
  have hc : civilFromDays z = (p + 1, m, z - daysInYears p - daysBeforeMonth (isLeap (p + 1)) m + 1) := by
    simp only [civilFromDays, hp, hmm]
  rw [hc]
  dsimp only
  refine ⟨⟨by omega, hm.1, by omega, ?_⟩, ?_⟩
  · unfold monthLen; omega
  · unfold daysFromCivil; simp only [Nat.add_sub_cancel]; omega

/-- a valid date is determined by its day number -/
theorem civilFromDays_unique {y m d : Nat} (hv : validCivil y m d) :
    civilFromDays (daysFromCivil y m d) = (y, m, d) := by
  obtain ⟨hy1, hm, hd1, hd2⟩ := hv
  obtain ⟨p, rfl⟩ : ∃ p, y = p + 1 := ⟨y - 1, by omega⟩
  unfold monthLen at hd2
  have hmlt : daysBeforeMonth (isLeap (p + 1)) (m + 1) ≤ daysBeforeMonth (isLeap (p + 1)) 12 := by
    by_cases e : m + 1 = 12
    · rw [e]; exact Nat.le_refl _
    · exact Nat.le_of_lt (dbm_strict _ (by omega) (Nat.le_refl _))
  have hstep := daysInYears_step' p
  have hz : daysFromCivil (p + 1) m d = daysInYears p + daysBeforeMonth (isLeap (p + 1)) m + (d - 1) := by
    unfold daysFromCivil; simp
  have hms := dbm_step (isLeap (p + 1)) m (by omega)
  have hbr : daysInYears p ≤ daysFromCivil (p + 1) m d ∧ daysFromCivil (p + 1) m d < daysInYears (p + 1) := by
    rw [hz, hstep]; omega
  have hyb := year_bracket (daysFromCivil (p + 1) m d)
  have hpe := year_unique hyb hbr
  have hr : daysFromCivil (p + 1) m d - daysInYears p = daysBeforeMonth (isLeap (p + 1)) m + (d - 1) := by omega
  have hrlt : daysBeforeMonth (isLeap (p + 1)) m + (d - 1) < daysBeforeMonth (isLeap (p + 1)) 12 := by omega
  have hmb := month_bracket (isLeap (p + 1)) _ hrlt
  have hme := month_unique (isLeap (p + 1)) hmb.1 hm ⟨hmb.2.1, hmb.2.2⟩ ⟨by omega, by omega⟩
  simp only [civilFromDays, hpe, hr, hme]
  congr 2; omega

/-! ### the independent recursive calendar agrees with the closed form -/

theorem spec_yearLen (y : Nat) : Spec.yearLen y = if isLeap y then 366 else 365 := by
  unfold Spec.yearLen
  by_cases h : isLeap y = true
  · have := (isLeap_iff _).1 h; simp only [h, if_true]; split
    · rfl
    · split
      · omega
      · split
        · rfl
        · omega
  · have h' := mt (isLeap_iff _).2 h; simp only [h]; split
    · omega
    · split
      · simp
      · split
        · omega
        · simp

theorem spec_daysInYears (n : Nat) : Spec.daysInYears n = daysInYears n := by
  induction n with
  | zero => simp [Spec.daysInYears, daysInYears]
  | succ n ih => rw [Spec.daysInYears, ih, daysInYears_step, spec_yearLen]

theorem spec_daysInMonths (y m : Nat) (hm : m ≤ 12) : Spec.daysInMonths y m = daysBeforeMonth (isLeap y) m := by
  have hy := spec_yearLen y
  have : m = 0 ∨ m = 1 ∨ m = 2 ∨ m = 3 ∨ m = 4 ∨ m = 5 ∨ m = 6 ∨ m = 7 ∨ m = 8 ∨ m = 9 ∨ m = 10 ∨ m = 11 ∨ m = 12 := by omega
  rcases this with h | h | h | h | h | h | h | h | h | h | h | h | h <;> subst h <;>
    by_cases hl : isLeap y = true <;>
    simp [Spec.daysInMonths, Spec.monthLen, daysBeforeMonth, hl, hy]

theorem spec_monthLen (y m : Nat) (hm : m < 12) : Spec.monthLen y m = monthLen (isLeap y) m := by
  have h1 := spec_daysInMonths y (m + 1) (by omega)
  have h2 := spec_daysInMonths y m (by omega)
  unfold monthLen; rw [← h1, ← h2, Spec.daysInMonths]; omega

theorem spec_valid_iff (y m d : Nat) : Spec.valid y m d ↔ validCivil y m d := by
  unfold Spec.valid validCivil
  constructor
  · rintro ⟨a, b, c, e⟩; rw [spec_monthLen y m b] at e; exact ⟨a, by omega, c, e⟩
  · rintro ⟨a, b, c, e⟩; rw [← spec_monthLen y m (by omega)] at e; exact ⟨a, by omega, c, e⟩

theorem spec_dayNumber (y m d : Nat) (hm : m ≤ 12) : Spec.dayNumber y m d = daysFromCivil y m d := by
  unfold Spec.dayNumber daysFromCivil; rw [spec_daysInYears, spec_daysInMonths y m hm]

theorem spec_weekday (n : Nat) : Spec.weekday n = (n + 4) % 7 := by
  induction n with
  | zero => rfl
  | succ n ih => rw [Spec.weekday, ih]; omega

end AwsVerif.Proofs.C19
