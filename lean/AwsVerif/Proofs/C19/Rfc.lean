import AwsVerif.Proofs.C19.Iso
/-! The RFC 822 state machine on text of the formatter's shape, phase by phase. -/
namespace AwsVerif.Proofs.C19
open AwsVerif.DateTime

theorem isAlpha_iff (c : Nat) : isAlpha c = true ↔ (97 ≤ c ∧ c ≤ 122) ∨ (65 ≤ c ∧ c ≤ 90) := by simp [isAlpha]
theorem isSpace_iff (c : Nat) : isSpace c = true ↔ c = 32 ∨ c = 9 ∨ c = 10 ∨ c = 11 ∨ c = 12 ∨ c = 13 := by
  simp [isSpace, or_assoc]

theorem digit_not_space {c : Nat} (h : isDigit c = true) : isSpace c = false := by
  have := (isDigit_iff c).1 h
  cases hs : isSpace c with
  | false => rfl
  | true => have := (isSpace_iff c).1 hs; omega

theorem alpha_not_space {c : Nat} (h : isAlpha c = true) : isSpace c = false := by
  have := (isAlpha_iff c).1 h
  cases hs : isSpace c with
  | false => rfl
  | true => have := (isSpace_iff c).1 hs; omega

theorem alpha_not_digit {c : Nat} (h : isAlpha c = true) : isDigit c = false := by
  have := (isAlpha_iff c).1 h
  cases hs : isDigit c with
  | false => rfl
  | true => have := (isDigit_iff c).1 hs; omega

theorem space_not_digit {c : Nat} (h : isSpace c = true) : isDigit c = false := by
  have := (isSpace_iff c).1 h
  cases hs : isDigit c with
  | false => rfl
  | true => have := (isDigit_iff c).1 hs; omega

theorem alpha_ne_44 {c : Nat} (h : isAlpha c = true) : c ≠ 44 := by
  have := (isAlpha_iff c).1 h; omega
theorem digit_ne_58 {c : Nat} (h : isDigit c = true) : c ≠ 58 := by
  have := (isDigit_iff c).1 h; omega

/-- weekday name: any run of letters up to the comma -/
theorem rrun_weekday (wd : List Nat) (rest : List Nat) (hwd : ∀ x ∈ wd, isAlpha x = true) :
    ∀ tok tm tz, rrun ⟨.onWeekday, tok, false, tm, tz⟩ (wd ++ 44 :: rest) = rrun ⟨.onSpaceDelim, [], false, tm, tz⟩ rest := by
  induction wd with
  | nil => intro tok tm tz; simp [rrun, rstep]
  | cons x xs ih =>
    intro tok tm tz
    have hx := hwd x (by simp)
    have h1 := alpha_ne_44 hx
    have h2 := alpha_not_digit hx
    simp only [List.cons_append, rrun, rstep, h1, h2, hx]
    simp only [Bool.false_eq_true, if_false, Bool.not_true]
    exact ih (fun y hy => hwd y (by simp [hy])) _ _ _

/-- ` dd ` -/
theorem rrun_mday (sp d1 d2 sp' : Nat) (rest : List Nat) (tm : Tm) (tz : List Nat)
    (hsp : isSpace sp = true) (hd1 : isDigit d1 = true) (hd2 : isDigit d2 = true) (hsp' : isSpace sp' = true) :
    rrun ⟨.onSpaceDelim, [], false, tm, tz⟩ (sp :: d1 :: d2 :: sp' :: rest) =
      rrun ⟨.onMonth, [], false, { tm with mday := wrap32 (wrap32 (tm.mday * 10 + dval d1) * 10 + dval d2) }, tz⟩ rest := by
  have := space_not_digit hsp'
  simp [rrun, rstep, hsp, hd1, hd2, hsp', this]

/-- `Mon ` -/
theorem rrun_month (m0 m1 m2 sp : Nat) (k : Nat) (rest : List Nat) (tm : Tm) (tz : List Nat)
    (h0 : isAlpha m0 = true) (h1 : isAlpha m1 = true) (h2 : isAlpha m2 = true) (hsp : isSpace sp = true)
    (hk : monthNumber [m0, m1, m2, sp] = some k) :
    rrun ⟨.onMonth, [], false, tm, tz⟩ (m0 :: m1 :: m2 :: sp :: rest) =
      rrun ⟨.onYear, [], false, { tm with mon := k }, tz⟩ rest := by
  have a0 := alpha_not_space h0
  have a1 := alpha_not_space h1
  have a2 := alpha_not_space h2
  simp [rrun, rstep, h0, h1, h2, hsp, a0, a1, a2, hk]

/-- `YYYY ` -/
theorem rrun_year4 (y1 y2 y3 y4 sp : Nat) (rest : List Nat) (tm : Tm) (tz : List Nat)
    (h1 : isDigit y1 = true) (h2 : isDigit y2 = true) (h3 : isDigit y3 = true) (h4 : isDigit y4 = true)
    (hsp : isSpace sp = true) :
    rrun ⟨.onYear, [], false, tm, tz⟩ (y1 :: y2 :: y3 :: y4 :: sp :: rest) =
      rrun ⟨.onHour, [], false,
        { tm with year := wrap32 (wrap32 (wrap32 (wrap32 (tm.year * 10 + dval y1) * 10 + dval y2) * 10 + dval y3) * 10 + dval y4)
                    - (Gen.Date.rfcYear4Sub : Nat) + tmYearBase }, tz⟩ rest := by
  have a1 := digit_not_space h1
  have a2 := digit_not_space h2
  have a3 := digit_not_space h3
  have a4 := digit_not_space h4
  simp [rrun, rstep, h1, h2, h3, h4, hsp, a1, a2, a3, a4, Gen.Date.rfcYear4Digits, Gen.Date.rfcYear2Digits]

/-- `hh:mm:ss ` -/
theorem rrun_clock (a1 a2 b1 b2 c1 c2 sp : Nat) (rest : List Nat) (tm : Tm) (tz : List Nat)
    (ha1 : isDigit a1 = true) (ha2 : isDigit a2 = true) (hb1 : isDigit b1 = true) (hb2 : isDigit b2 = true)
    (hc1 : isDigit c1 = true) (hc2 : isDigit c2 = true) (hsp : isSpace sp = true) :
    rrun ⟨.onHour, [], false, tm, tz⟩ (a1 :: a2 :: 58 :: b1 :: b2 :: 58 :: c1 :: c2 :: sp :: rest) =
      rrun ⟨.onTz, [], false,
        { tm with hour := wrap32 (wrap32 (tm.hour * 10 + dval a1) * 10 + dval a2),
                  min := wrap32 (wrap32 (tm.min * 10 + dval b1) * 10 + dval b2),
                  sec := wrap32 (wrap32 (tm.sec * 10 + dval c1) * 10 + dval c2) }, tz⟩ rest := by
  have n1 := digit_ne_58 ha1
  have n2 := digit_ne_58 ha2
  have n3 := digit_ne_58 hb1
  have n4 := digit_ne_58 hb2
  have n5 := digit_not_space hc1
  have n6 := digit_not_space hc2
  simp [rrun, rstep, ha1, ha2, hb1, hb2, hc1, hc2, hsp, n1, n2, n3, n4, n5, n6]

def zoneChar (c : Nat) : Prop := (isAlnum c || c == 45 || c == 43) = true

/-- zone: up to five characters are copied -/
theorem rrun_tz (z : List Nat) (hz : ∀ x ∈ z, zoneChar x) :
    ∀ tok tm tz, tok.length + z.length ≤ Gen.Date.tzMaxChars →
      rrun ⟨.onTz, tok, false, tm, tz⟩ z = ⟨.onTz, tok ++ z, false, tm, tz ++ z⟩ := by
  induction z with
  | nil => intro tok tm tz _; simp [rrun]
  | cons x xs ih =>
    intro tok tm tz hl
    have hx := hz x (by simp)
    unfold zoneChar at hx
    have hlen : tok.length < Gen.Date.tzMaxChars := by simp at hl; omega
    simp only [rrun, rstep, hx, hlen, and_self, if_true, Bool.false_eq_true, if_false]
    rw [ih (fun y hy => hz y (by simp [hy])) _ _ _ (by simp at hl ⊢; omega)]
    simp

end AwsVerif.Proofs.C19
