import AwsVerif.Proofs.C19.Zones
/-! `aws_date_time_init_epoch_secs` on a double: bounds of the rational model `splitDouble`.

Note for definitions used here: products of a symbolic number with a large literal are written with the
literal FIRST (`2 ^ 52 * den`): the kernel reduces `Nat.mul a b` by recursion on `b`, and a large literal in
that position overflows its stack as soon as a proof makes it look at the term. -/
namespace AwsVerif.Proofs.C19
open AwsVerif.DateTime

theorem rne_le_succ (n d : Nat) : rne n d ≤ n / d + 1 := by
  unfold rne; simp only; split
  · omega
  · split
    · omega
    · split <;> omega

theorem rne_le (n d B : Nat) (h : n < B * d) : rne n d ≤ B := by
  have h1 : n / d < B := Nat.div_lt_of_lt_mul (by rw [Nat.mul_comm]; exact h)
  have := rne_le_succ n d
  omega

theorem roundedMillis_some (n den sh : Nat) (h : n < 1000 * den) :
    (2 * rne (n * 2 ^ sh) den + 2 ^ sh) / 2 ^ (sh + 1) % 65536 ≤ 1000 := by
  have hP : 0 < 2 ^ sh := Nat.pow_pos (by omega)
  have hlt : n * 2 ^ sh < (1000 * 2 ^ sh) * den := by
    have := Nat.mul_lt_mul_of_pos_right h hP
    calc n * 2 ^ sh < 1000 * den * 2 ^ sh := this
      _ = 1000 * 2 ^ sh * den := by rw [Nat.mul_assoc, Nat.mul_comm den, ← Nat.mul_assoc]
  have hm := rne_le _ _ _ hlt
  have hp2 : 2 ^ (sh + 1) = 2 * 2 ^ sh := by rw [Nat.pow_succ]; omega
  generalize rne (n * 2 ^ sh) den = m at *
  have hdiv : (2 * m + 2 ^ sh) / 2 ^ (sh + 1) < 1001 := by
    apply Nat.div_lt_of_lt_mul
    rw [hp2]
    generalize 2 ^ sh = P at *
    omega
  exact Nat.le_trans (Nat.mod_le _ _) (by omega)

/-- the stored milliseconds never exceed 1000 (and reach it: see the witness) -/
theorem roundedMillis_le (n den : Nat) (h : n < 1000 * den) : roundedMillis n den ≤ 1000 := by
  unfold roundedMillis
  cases productShift n den with
  | none => exact Nat.zero_le _
  | some sh => exact roundedMillis_some n den sh h

theorem splitDouble_bounds (bits s ms : Nat) (h : splitDouble bits = some (s, ms)) : ms ≤ 1000 ∧ s < 2 ^ 63 := by
  unfold splitDouble at h
  simp only at h
  split at h
  · cases h
  · rename_i hc
    injection h with h; injection h with h1 h2
    subst h2; subst h1
    generalize hE : bits / 2 ^ 52 % 2048 = E at *
    have hden : 0 < 2 ^ (1075 - if E = 0 then 1 else E) := Nat.pow_pos (by omega)
    constructor
    · apply roundedMillis_le
      have := Nat.mod_lt ((if E = 0 then bits % 2 ^ 52 else 2 ^ 52 + bits % 2 ^ 52) * 2 ^ ((if E = 0 then 1 else E) - 1075)) hden
      omega
    · have hE2 : (if E = 0 then 1 else E) - 1075 ≤ 10 := by split <;> omega
      have hp : 2 ^ ((if E = 0 then 1 else E) - 1075) ≤ 2 ^ 10 := Nat.pow_le_pow_right (by omega) hE2
      have hsig : (if E = 0 then bits % 2 ^ 52 else 2 ^ 52 + bits % 2 ^ 52) < 2 ^ 53 := by split <;> omega
      have hnum : (if E = 0 then bits % 2 ^ 52 else 2 ^ 52 + bits % 2 ^ 52) * 2 ^ ((if E = 0 then 1 else E) - 1075) < 2 ^ 53 * 2 ^ 10 :=
        Nat.mul_lt_mul_of_lt_of_le hsig hp (Nat.pow_pos (by omega))
      exact Nat.lt_of_le_of_lt (Nat.div_le_self _ _) (by omega)

end AwsVerif.Proofs.C19
