import AwsVerif.Proofs.C19.Calendar
/-! `gmtime` / `timegm` of the model: the 400-year reduction, `timegm ∘ gmtime = id` on all of
`Int`, and the field ranges for instants of the years 1970–9999. -/
namespace AwsVerif.Proofs.C19
open AwsVerif.DateTime

theorem daysInYears_shift (q p : Nat) : daysInYears (400 * q + p) = 146097 * q + daysInYears p := by
  have e4 : (400 * q + p) / 4 = 100 * q + p / 4 := by omega
  have e100 : (400 * q + p) / 100 = 4 * q + p / 100 := by omega
  have e400 : (400 * q + p) / 400 = q + p / 400 := by omega
  have l1 : p / 100 ≤ p / 4 := by omega
  unfold daysInYears
  rw [e4, e100, e400]
  generalize p / 4 = a at *
  generalize p / 100 = b at *
  generalize p / 400 = c at *
  omega

theorem isLeap_shift (q y : Nat) : isLeap (400 * q + y) = isLeap y := by
  have e4 : (400 * q + y) % 4 = y % 4 := by omega
  have e100 : (400 * q + y) % 100 = y % 100 := by omega
  have e400 : (400 * q + y) % 400 = y % 400 := by omega
  unfold isLeap; rw [e4, e100, e400]

theorem daysInYearsI_shift (q : Int) (p : Nat) : daysInYearsI (400 * q + p) = 146097 * q + (daysInYears p : Nat) := by
  have e4 : (400 * q + (p : Int)) / 4 = 100 * q + ((p / 4 : Nat) : Int) := by omega
  have e100 : (400 * q + (p : Int)) / 100 = 4 * q + ((p / 100 : Nat) : Int) := by omega
  have e400 : (400 * q + (p : Int)) / 400 = q + ((p / 400 : Nat) : Int) := by omega
  have l1 : p / 100 ≤ p / 4 := by omega
  unfold daysInYearsI daysInYears
  rw [e4, e100, e400]
  generalize p / 4 = a at *
  generalize p / 100 = b at *
  generalize p / 400 = c at *
  omega

theorem isLeapI_shift (q : Int) (y : Nat) : isLeapI (400 * q + y) = isLeap y := by
  have e4 : (400 * q + (y : Int)) % 4 = ((y % 4 : Nat) : Int) := by omega
  have e100 : (400 * q + (y : Int)) % 100 = ((y % 100 : Nat) : Int) := by omega
  have e400 : (400 * q + (y : Int)) % 400 = ((y % 400 : Nat) : Int) := by omega
  unfold isLeapI isLeap; rw [e4, e100, e400]
  simp only [Int.natCast_eq_zero, ne_eq]

theorem monthLen_le (l : Bool) (m : Nat) (h : m ≤ 11) : monthLen l m ≤ 31 := by
  have : m = 0 ∨ m = 1 ∨ m = 2 ∨ m = 3 ∨ m = 4 ∨ m = 5 ∨ m = 6 ∨ m = 7 ∨ m = 8 ∨ m = 9 ∨ m = 10 ∨ m = 11 := by omega
  rcases this with h | h | h | h | h | h | h | h | h | h | h | h <;> subst h <;> cases l <;> simp [monthLen, daysBeforeMonth]

/-- `timegm` depends on the date only through its day number; `wday` is ignored -/
theorem timegm_civil (y m d : Nat) (hy : 1 ≤ y) (hm : m ≤ 11) (h mi s w : Int) :
    timegm { year := y, mon := m, mday := d, hour := h, min := mi, sec := s, wday := w } =
      ((daysFromCivil y m d : Nat) + (if d = 0 then -1 else 0) - 719162 : Int) * 86400 + h * 3600 + mi * 60 + s := by
  have e1 : ((m : Int) / 12) = 0 := by omega
  have e2 : ((m : Int) % 12).toNat = m := by omega
  have e3 : (y : Int) + 0 - 1 = 400 * 0 + ((y - 1 : Nat) : Int) := by omega
  have e4 : (y : Int) + 0 = 400 * 0 + (y : Int) := by omega
  unfold timegm
  simp only [e1, e2, epochDay]
  rw [e3, e4, daysInYearsI_shift, isLeapI_shift]
  unfold daysFromCivil
  split <;> omega

/-- the shifted date is the civil date of the full day number -/
theorem civil_shift (q r : Nat) :
    validCivil (400 * q + (civilFromDays r).1) (civilFromDays r).2.1 (civilFromDays r).2.2 ∧
    daysFromCivil (400 * q + (civilFromDays r).1) (civilFromDays r).2.1 (civilFromDays r).2.2 = 146097 * q + r := by
  obtain ⟨⟨hy, hm, hd1, hd2⟩, hz⟩ := civilFromDays_spec r
  generalize (civilFromDays r).1 = y at *
  generalize (civilFromDays r).2.1 = m at *
  generalize (civilFromDays r).2.2 = d at *
  refine ⟨⟨by omega, hm, hd1, by rw [isLeap_shift]; exact hd2⟩, ?_⟩
  unfold daysFromCivil at hz ⊢
  have : 400 * q + y - 1 = 400 * q + (y - 1) := by omega
  rw [this, daysInYears_shift, isLeap_shift]; omega

theorem dIY_1969 : daysInYears 1969 = 719162 := by decide
theorem dIY_9999 : daysInYears 9999 = 3652059 := by decide

/-- a day number inside 1970-01-01 … 9999-12-31 belongs to a year 1970 … 9999 -/
theorem year_range {y m d z : Nat} (hv : validCivil y m d) (hz : daysFromCivil y m d = z)
    (h0 : 719162 ≤ z) (h1 : z ≤ 3652058) : 1970 ≤ y ∧ y ≤ 9999 := by
  obtain ⟨hy, hm, hd1, hd2⟩ := hv
  obtain ⟨p, rfl⟩ : ∃ p, y = p + 1 := ⟨y - 1, by omega⟩
  unfold daysFromCivil monthLen at *
  simp only [Nat.add_sub_cancel] at hz
  have hstep := daysInYears_step' p
  have hmlt : daysBeforeMonth (isLeap (p + 1)) (m + 1) ≤ daysBeforeMonth (isLeap (p + 1)) 12 := by
    by_cases e : m + 1 = 12
    · rw [e]; exact Nat.le_refl _
    · exact Nat.le_of_lt (dbm_strict _ (by omega) (Nat.le_refl _))
  have hms := dbm_step (isLeap (p + 1)) m (by omega)
  constructor
  · by_cases h : 1969 ≤ p
    · omega
    · have := daysInYears_mono (show p + 1 ≤ 1969 by omega); rw [dIY_1969] at this; omega
  · by_cases h : p < 9999
    · omega
    · have := daysInYears_mono (show 9999 ≤ p by omega); rw [dIY_9999] at this; omega

/-- the broken-down time of an instant of the years 1970–9999, with natural-number fields -/
theorem gmtime_fields (t : Int) (h0 : 0 ≤ t) (h1 : t ≤ 253402300799) :
    ∃ y m d : Nat, validCivil y m d ∧ daysFromCivil y m d = (t / 86400 + 719162).toNat ∧
      1970 ≤ y ∧ y ≤ 9999 ∧ m ≤ 11 ∧ 1 ≤ d ∧ d ≤ 31 ∧
      gmtime t = { year := y, mon := m, mday := d,
                   hour := ((t % 86400).toNat / 3600 : Nat), min := ((t % 86400).toNat % 3600 / 60 : Nat),
                   sec := ((t % 86400).toNat % 60 : Nat), wday := (((t / 86400).toNat + 4) % 7 : Nat) } := by
  have hq : 0 ≤ (t / 86400 + 719162) / 146097 := by omega
  obtain ⟨q, hq'⟩ : ∃ q : Nat, (t / 86400 + 719162) / 146097 = q := ⟨((t / 86400 + 719162) / 146097).toNat, by omega⟩
  obtain ⟨r, hr'⟩ : ∃ r : Nat, (t / 86400 + 719162) % 146097 = r := ⟨((t / 86400 + 719162) % 146097).toNat, by omega⟩
  have hcs := civil_shift q r
  have hg : gmtime t = { year := 400 * (q : Int) + ((civilFromDays r).1 : Nat), mon := ((civilFromDays r).2.1 : Nat), mday := ((civilFromDays r).2.2 : Nat), hour := t % 86400 / 3600, min := t % 86400 % 3600 / 60, sec := t % 86400 % 60, wday := (t / 86400 + 719162 + 1) % 7 } := by
    simp only [gmtime, epochDay, cycleDays, hq', hr', Int.toNat_natCast]
  generalize (civilFromDays r).1 = y at *
  generalize (civilFromDays r).2.1 = m at *
  generalize (civilFromDays r).2.2 = d at *
  obtain ⟨hv, hz⟩ := hcs
  have hzz : 146097 * q + r = (t / 86400 + 719162).toNat := by omega
  rw [hzz] at hz
  have hyr := year_range hv hz (by omega) (by omega)
  have hml := monthLen_le (isLeap (400 * q + y)) m hv.2.1
  refine ⟨400 * q + y, m, d, hv, hz, hyr.1, hyr.2, hv.2.1, hv.2.2.1, Nat.le_trans hv.2.2.2 hml, ?_⟩
  rw [hg]
  congr 1 <;> omega

/-- `timegm ∘ gmtime = id` on all of `time_t` -/
theorem timegm_gmtime (t : Int) : timegm (gmtime t) = t := by
  obtain ⟨r, hr'⟩ : ∃ r : Nat, (t / 86400 + 719162) % 146097 = r := ⟨((t / 86400 + 719162) % 146097).toNat, by omega⟩
  obtain ⟨⟨hy, hm, hd1, hd2⟩, hz⟩ := civilFromDays_spec r
  have hg : gmtime t = { year := 400 * ((t / 86400 + 719162) / 146097) + ((civilFromDays r).1 : Nat), mon := ((civilFromDays r).2.1 : Nat), mday := ((civilFromDays r).2.2 : Nat), hour := t % 86400 / 3600, min := t % 86400 % 3600 / 60, sec := t % 86400 % 60, wday := (t / 86400 + 719162 + 1) % 7 } := by
    simp only [gmtime, epochDay, cycleDays, hr', Int.toNat_natCast]
  generalize (civilFromDays r).1 = y at *
  generalize (civilFromDays r).2.1 = m at *
  generalize (civilFromDays r).2.2 = d at *
  rw [hg]
  have e1 : ((m : Int) / 12) = 0 := by omega
  have e2 : ((m : Int) % 12).toNat = m := by omega
  unfold timegm
  simp only [e1, e2, epochDay]
  have e3 : 400 * ((t / 86400 + 719162) / 146097) + (y : Int) + 0 - 1 = 400 * ((t / 86400 + 719162) / 146097) + ((y - 1 : Nat) : Int) := by omega
  have e4 : 400 * ((t / 86400 + 719162) / 146097) + (y : Int) + 0 = 400 * ((t / 86400 + 719162) / 146097) + (y : Int) := by omega
  rw [e3, e4, daysInYearsI_shift, isLeapI_shift]
  unfold daysFromCivil at hz
  omega

end AwsVerif.Proofs.C19
