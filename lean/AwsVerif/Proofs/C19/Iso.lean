import AwsVerif.Proofs.C19.Gmtime
/-! Digit printing / reading lemmas and the ISO 8601 reader on formatter-shaped text. -/
namespace AwsVerif.Proofs.C19
open AwsVerif.DateTime

theorem isDigit_iff (c : Nat) : isDigit c = true ↔ 48 ≤ c ∧ c ≤ 57 := by simp [isDigit]

theorem isDigit_dig {n : Nat} (h : n < 10) : isDigit (dig n) = true := by
  rw [isDigit_iff]; unfold dig; omega

theorem readDigits2 (a b : Nat) (r : List Nat) (ha : isDigit a = true) (hb : isDigit b = true) :
    readDigits 2 (a :: b :: r) 0 = some ((a - 48) * 10 + (b - 48), r) := by
  simp [readDigits, ha, hb]

theorem readDigits_print2 (v : Nat) (r : List Nat) (h : v < 100) :
    readDigits 2 (dig (v / 10) :: dig (v % 10) :: r) 0 = some (v, r) := by
  rw [readDigits2 _ _ _ (isDigit_dig (by omega)) (isDigit_dig (by omega))]
  unfold dig; congr 2; omega

theorem readDigits_print4 (v : Nat) (r : List Nat) (h : v < 10000) :
    readDigits 4 (dig (v / 1000) :: dig (v / 100 % 10) :: dig (v / 10 % 10) :: dig (v % 10) :: r) 0 = some (v, r) := by
  have h1 : isDigit (dig (v / 1000)) = true := isDigit_dig (by omega)
  have h2 : isDigit (dig (v / 100 % 10)) = true := isDigit_dig (by omega)
  have h3 : isDigit (dig (v / 10 % 10)) = true := isDigit_dig (by omega)
  have h4 : isDigit (dig (v % 10)) = true := isDigit_dig (by omega)
  simp only [readDigits, h1, h2, h3, h4, if_true]
  unfold dig; congr 2; omega

theorem advanceIf_hit (c : Nat) (r : List Nat) : advanceIf c (c :: r) = (true, r) := by simp [advanceIf]
theorem advanceIf_miss (c x : Nat) (r : List Nat) (h : x ≠ c) : advanceIf c (x :: r) = (false, x :: r) := by
  simp [advanceIf, h]

theorem dig_ne_45 (n : Nat) : dig n ≠ 45 := by unfold dig; omega
theorem dig_ne_58 {n : Nat} (h : n < 10) : dig n ≠ 58 := by unfold dig; omega

/-- the clock part `hh:mm:ss` -/
theorem parseIsoClock_ext (h mi s : Nat) (r : List Nat) (hh : h < 100) (hmi : mi < 100) (hs : s < 100) :
    parseIsoClock (dig (h / 10) :: dig (h % 10) :: 58 :: dig (mi / 10) :: dig (mi % 10) :: 58 :: dig (s / 10) :: dig (s % 10) :: r)
      = some (h, mi, s, r) := by
  simp [parseIsoClock, readDigits_print2, hh, hmi, hs, advanceIf_hit]

/-- the clock part `hhmmss` -/
theorem parseIsoClock_basic (h mi s : Nat) (r : List Nat) (hh : h < 100) (hmi : mi < 100) (hs : s < 100) :
    parseIsoClock (dig (h / 10) :: dig (h % 10) :: dig (mi / 10) :: dig (mi % 10) :: dig (s / 10) :: dig (s % 10) :: r)
      = some (h, mi, s, r) := by
  have := dig_ne_58 (show mi / 10 < 10 by omega)
  simp [parseIsoClock, readDigits_print2, hh, hmi, hs, advanceIf_miss _ _ _ this]


/-! ### zone part -/

theorem dropDigits_append (ds : List Nat) (c : Nat) (r : List Nat) (hds : ∀ x ∈ ds, isDigit x = true)
    (hc : isDigit c = false) : dropDigits (ds ++ c :: r) = c :: r := by
  induction ds with
  | nil => simp [dropDigits, hc]
  | cons x xs ih =>
    have hx := hds x (by simp)
    simp only [List.cons_append, dropDigits, hx, if_true]
    exact ih (fun y hy => hds y (by simp [hy]))

/-- a fraction `.ddd` / `,ddd` in front of a zone designator is skipped -/
theorem parseIsoZone_frac (sep d0 : Nat) (ds : List Nat) (c : Nat) (r : List Nat)
    (hsep : sep = 46 ∨ sep = 44) (hd0 : isDigit d0 = true) (hds : ∀ x ∈ ds, isDigit x = true)
    (hc : isDigit c = false) (hc2 : c ≠ 46 ∧ c ≠ 44) :
    parseIsoZone (sep :: d0 :: (ds ++ c :: r)) = parseIsoZone (c :: r) := by
  have h1 : skipFraction (sep :: d0 :: (ds ++ c :: r)) = some (c :: r) := by
    have : ¬ (sep ≠ 46 ∧ sep ≠ 44) := by omega
    simp only [skipFraction, this, if_false, hd0, if_true, dropDigits_append ds c r hds hc]
  have h2 : skipFraction (c :: r) = some (c :: r) := by
    simp only [skipFraction, hc2, and_self, ne_eq, not_false_eq_true, if_true]
  unfold parseIsoZone
  rw [h1, h2]

theorem parseIsoZone_Z (c : Nat) (r : List Nat) (hc : c = 90 ∨ c = 122) : parseIsoZone (c :: r) = some 0 := by
  have h2 : skipFraction (c :: r) = some (c :: r) := by
    have : c ≠ 46 ∧ c ≠ 44 := by omega
    simp only [skipFraction, this, and_self, ne_eq, not_false_eq_true, if_true]
  have h3 : toLower c = 122 := by unfold toLower; split <;> omega
  unfold parseIsoZone
  rw [h2]; simp [h3]

/-- `±hh:mm` and `±hhmm` (anything may follow) -/
theorem parseIsoZone_offset (sg hh mm : Nat) (colon : Bool) (r : List Nat) (hsg : sg = 43 ∨ sg = 45)
    (hhh : hh < 100) (hmm : mm < 100) :
    parseIsoZone (sg :: dig (hh / 10) :: dig (hh % 10) ::
        ((if colon then [58] else []) ++ dig (mm / 10) :: dig (mm % 10) :: r)) =
      some (if sg = 45 then -((hh : Int) * 3600 + (mm : Int) * 60) else (hh : Int) * 3600 + (mm : Int) * 60) := by
  have h2 : ∀ r', skipFraction (sg :: r') = some (sg :: r') := by
    intro r'
    have : sg ≠ 46 ∧ sg ≠ 44 := by omega
    simp only [skipFraction, this, and_self, ne_eq, not_false_eq_true, if_true]
  have h3 : toLower sg ≠ 122 := by unfold toLower; split <;> omega
  have h4 : ¬ (sg ≠ 43 ∧ sg ≠ 45) := by omega
  have h5 := dig_ne_58 (show mm / 10 < 10 by omega)
  unfold parseIsoZone
  rw [h2]
  cases colon <;>
    simp [h3, h4, readDigits_print2, hhh, hmm, advanceIf_hit, advanceIf_miss _ _ _ h5]

/-! ### whole texts -/

/-- the ISO reader's `tm_year -= 1900` (generated constant) against libc's base -/
theorem iso_year (y : Nat) : (y : Int) - (Gen.Date.isoYearSub : Nat) + tmYearBase = y := by
  simp only [Gen.Date.isoYearSub, tmYearBase]; omega

theorem sep_ok {sep : Nat} (h : sep = 84 ∨ sep = 116 ∨ sep = 32) : ¬ (toLower sep ≠ 116 ∧ sep ≠ 32) := by
  unfold toLower; split <;> omega

/-- `YYYY-MM-DD` -/
theorem parseIso_ext_short (y mo d : Nat) (hy : y < 10000) (hmo : mo < 100) (hd : d < 100) :
    parseIso (dig (y / 1000) :: dig (y / 100 % 10) :: dig (y / 10 % 10) :: dig (y % 10) :: 45 ::
        dig (mo / 10) :: dig (mo % 10) :: 45 :: dig (d / 10) :: dig (d % 10) :: []) =
      some ({ year := y, mon := (mo : Int) - 1, mday := d }, 0) := by
  simp [parseIso, iso_year, readDigits_print4, readDigits_print2, hy, hmo, hd, advanceIf_hit]

/-- `YYYYMMDD` -/
theorem parseIso_basic_short (y mo d : Nat) (hy : y < 10000) (hmo : mo < 100) (hd : d < 100) :
    parseIso (dig (y / 1000) :: dig (y / 100 % 10) :: dig (y / 10 % 10) :: dig (y % 10) ::
        dig (mo / 10) :: dig (mo % 10) :: dig (d / 10) :: dig (d % 10) :: []) =
      some ({ year := y, mon := (mo : Int) - 1, mday := d }, 0) := by
  have h5 := dig_ne_45 (mo / 10)
  simp [parseIso, iso_year, readDigits_print4, readDigits_print2, hy, hmo, hd, advanceIf_miss _ _ _ h5]

/-- `YYYY-MM-DDThh:mm:ss` followed by a zone part -/
theorem parseIso_ext_full (y mo d h mi s sep : Nat) (z : List Nat) (hsep : sep = 84 ∨ sep = 116 ∨ sep = 32) (hy : y < 10000) (hmo : mo < 100) (hd : d < 100)
    (hh : h < 100) (hmi : mi < 100) (hs : s < 100) :
    parseIso (dig (y / 1000) :: dig (y / 100 % 10) :: dig (y / 10 % 10) :: dig (y % 10) :: 45 ::
        dig (mo / 10) :: dig (mo % 10) :: 45 :: dig (d / 10) :: dig (d % 10) :: sep ::
        dig (h / 10) :: dig (h % 10) :: 58 :: dig (mi / 10) :: dig (mi % 10) :: 58 :: dig (s / 10) :: dig (s % 10) :: z) =
      (parseIsoZone z).bind (fun off =>
        some ({ year := y, mon := (mo : Int) - 1, mday := d, hour := h, min := mi, sec := s }, off)) := by
  simp [parseIso, iso_year, readDigits_print4, readDigits_print2, hy, hmo, hd, advanceIf_hit, sep_ok hsep,
    parseIsoClock_ext, hh, hmi, hs]

/-- `YYYYMMDDThhmmss` followed by a zone part -/
theorem parseIso_basic_full (y mo d h mi s sep : Nat) (z : List Nat) (hsep : sep = 84 ∨ sep = 116 ∨ sep = 32) (hy : y < 10000) (hmo : mo < 100) (hd : d < 100)
    (hh : h < 100) (hmi : mi < 100) (hs : s < 100) :
    parseIso (dig (y / 1000) :: dig (y / 100 % 10) :: dig (y / 10 % 10) :: dig (y % 10) ::
        dig (mo / 10) :: dig (mo % 10) :: dig (d / 10) :: dig (d % 10) :: sep ::
        dig (h / 10) :: dig (h % 10) :: dig (mi / 10) :: dig (mi % 10) :: dig (s / 10) :: dig (s % 10) :: z) =
      (parseIsoZone z).bind (fun off =>
        some ({ year := y, mon := (mo : Int) - 1, mday := d, hour := h, min := mi, sec := s }, off)) := by
  have h5 := dig_ne_45 (mo / 10)
  simp [parseIso, iso_year, readDigits_print4, readDigits_print2, hy, hmo, hd, advanceIf_miss _ _ _ h5, sep_ok hsep,
    parseIsoClock_basic, hh, hmi, hs]

end AwsVerif.Proofs.C19
