import AwsVerif.Proofs.C19.Double
/-! Proofs of the C19 property theorems (statements repeated in `AwsVerif/Props/C19.lean`). -/
namespace AwsVerif.Proofs.C19.Main
open AwsVerif.DateTime AwsVerif.DateTime.Spec AwsVerif.Proofs.C19

/-- **Calendar.**  For *every* day number `z` (0 = 0001-01-01; 719162 = 1970-01-01, 3652058 = 9999-12-31):
the date found by search is a valid date of the independent recursive calendar, that calendar and the
closed form both count `z` days up to it, and conversely every valid date is found from its day number. -/
theorem c19_calendar :
    (∀ z : Nat,
      Spec.valid (civilFromDays z).1 (civilFromDays z).2.1 (civilFromDays z).2.2 ∧
      Spec.dayNumber (civilFromDays z).1 (civilFromDays z).2.1 (civilFromDays z).2.2 = z ∧
      daysFromCivil (civilFromDays z).1 (civilFromDays z).2.1 (civilFromDays z).2.2 = z) ∧
    (∀ y m d : Nat, Spec.valid y m d → civilFromDays (Spec.dayNumber y m d) = (y, m, d)) ∧
    civilFromDays 719162 = (1970, 0, 1) ∧ civilFromDays 3652058 = (9999, 11, 31) := by
  refine ⟨?_, ?_, ?_, ?_⟩
  · intro z
    obtain ⟨hv, hz⟩ := civilFromDays_spec z
    refine ⟨(spec_valid_iff _ _ _).2 hv, ?_, hz⟩
    rw [spec_dayNumber _ _ _ (by have := hv.2.1; omega), hz]
  · intro y m d hv
    have hv' := (spec_valid_iff _ _ _).1 hv
    rw [spec_dayNumber _ _ _ (by have := hv'.2.1; omega)]
    exact civilFromDays_unique hv'
  · have h : validCivil 1970 0 1 := by unfold validCivil monthLen; decide
    have e : daysFromCivil 1970 0 1 = 719162 := by decide
    rw [← e]; exact civilFromDays_unique h
  · have h : validCivil 9999 11 31 := by unfold validCivil monthLen; decide
    have e : daysFromCivil 9999 11 31 = 3652058 := by decide
    rw [← e]; exact civilFromDays_unique h

/-- the model of `timegm` inverts the model of `gmtime_r` on all of `time_t` -/
theorem c19_timegm_gmtime (t : Int) : timegm (gmtime t) = t := timegm_gmtime t

/-- **Round trip.**  For every instant of 1970–9999, every format except the RFC 822 date-only one,
and every parse mode that reads that format: formatting succeeds and parsing the text gives the same
instant (full) or its midnight (date-only), assumed UTC, milliseconds 0. -/
theorem c19_roundtrip (t : Int) (h0 : 0 ≤ t) (h1 : t ≤ maxInstant) (f : Fmt) (short : Bool) (pf : Fmt)
    (hf : f ≠ .autoDetect) (hr : Reads pf f) (hne : ¬ (f = .rfc822 ∧ short = true)) :
    ∃ text dt, formatUtc (initEpochSecs t 0) f short 100 = .ok text ∧ initFromStr text pf = .ok dt ∧
      dt.timestamp = (if short then t - t % 86400 else t) ∧ dt.millis = 0 ∧ dt.utcAssumed = true ∧
      dt.gmt = gmtime dt.timestamp := by
  unfold maxInstant at h1
  obtain ⟨l1, l2, l3, l4, l5, l6⟩ := text_lengths t h0 h1 84
  obtain ⟨hr1, hr2⟩ := hr
  cases f with
  | autoDetect => exact absurd rfl hf
  | iso8601 =>
    have hpf := hr2 (by simp)
    cases short with
    | false =>
      refine ⟨fmtIso (gmtime t), _, ?_, iso_ext_any t h0 h1 84 (Or.inl rfl) [90] 0 (parseIsoZone_Z 90 [] (Or.inl rfl)) (by simp) pf hpf, ?_⟩
      · simp [formatUtc, formatTextGen_eq, formatText, initEpochSecs, mkDateTime, fmtIso, fmtIsoBody, l1]
      · simp [mkDateTime]
    | true =>
      refine ⟨fmtIsoShort (gmtime t), _, ?_, iso_ext_short t h0 h1 pf hpf, ?_⟩
      · simp [formatUtc, formatTextGen_eq, formatText, initEpochSecs, mkDateTime, l3]
      · simp [mkDateTime]
  | iso8601Basic =>
    have hpf := hr2 (by simp)
    cases short with
    | false =>
      refine ⟨fmtBasic (gmtime t), _, ?_, iso_basic_any t h0 h1 84 (Or.inl rfl) [90] 0 (parseIsoZone_Z 90 [] (Or.inl rfl)) (by simp) pf hpf, ?_⟩
      · simp [formatUtc, formatTextGen_eq, formatText, initEpochSecs, mkDateTime, fmtBasic, fmtBasicBody, l2]
      · simp [mkDateTime]
    | true =>
      refine ⟨fmtBasicShort (gmtime t), _, ?_, iso_basic_short t h0 h1 pf hpf, ?_⟩
      · simp [formatUtc, formatTextGen_eq, formatText, initEpochSecs, mkDateTime, l4]
      · simp [mkDateTime]
  | rfc822 =>
    have hpf := hr1 rfl
    cases short with
    | true => exact absurd ⟨rfl, rfl⟩ hne
    | false =>
      have hz : ∀ x ∈ [71, 77, 84], zoneChar x := by unfold zoneChar; decide
      refine ⟨fmtRfc822 (gmtime t), _, ?_,
        rfc_any t h0 h1 [71, 77, 84] hz (by simp) (by simp) (by decide) pf hpf, ?_⟩
      · have e : fmtRfc822 (gmtime t) = fmtRfc822Body (gmtime t) ++ [71, 77, 84] := by
          simp [fmtRfc822, fmtRfc822Body]
        simp [formatUtc, formatTextGen_eq, formatText, initEpochSecs, mkDateTime, e, l5]
      · have : rfcOffset [71, 77, 84] = 0 := by decide
        simp [mkDateTime, this]

/-- **The RFC 822 date-only text is not parseable** (negation of the round trip for that combination,
for every instant, in every parse mode): `s_parse_rfc_822` succeeds only in state `ON_TZ`. -/
theorem c19_rfc822_short_unparseable (t : Int) (h0 : 0 ≤ t) (h1 : t ≤ maxInstant) (pf : Fmt) :
    ∃ text, formatUtc (initEpochSecs t 0) .rfc822 true 100 = .ok text ∧
      initFromStr text pf = .error .invalidDateStr := by
  unfold maxInstant at h1
  obtain ⟨l1, l2, l3, l4, l5, l6⟩ := text_lengths t h0 h1 84
  refine ⟨fmtRfc822Short (gmtime t), ?_, rfc_short_refused t h0 h1 pf⟩
  simp [formatUtc, formatTextGen_eq, formatText, initEpochSecs, mkDateTime, l6]

/-- concrete witness of the above: "Thu, 01 Jan 1970" -/
theorem c19_rfc822_short_witness :
    formatUtc (initEpochSecs 0 0) .rfc822 true 100 = .ok [84, 104, 117, 44, 32, 48, 49, 32, 74, 97, 110, 32, 49, 57, 55, 48] ∧
    initFromStr [84, 104, 117, 44, 32, 48, 49, 32, 74, 97, 110, 32, 49, 57, 55, 48] .rfc822 = .error .invalidDateStr := by
  decide

/-- **Accessors.**  For an instant of 1970–9999 (any milliseconds) the UTC accessors are the fields of
the unique valid date of the independent calendar whose day number is `t / 86400` days after
1970-01-01, the weekday is the recursive weekday, and hour/minute/second split `t mod 86400`. -/
theorem c19_accessors (t : Int) (h0 : 0 ≤ t) (h1 : t ≤ maxInstant) (ms : Nat) :
    ∃ y m d : Nat, Spec.valid y m d ∧ Spec.dayNumber y m d = (t / 86400).toNat + 719162 ∧
      1970 ≤ y ∧ y ≤ 9999 ∧
      accYear (initEpochSecs t ms) = y ∧ accMonth (initEpochSecs t ms) = m ∧ accMonthDay (initEpochSecs t ms) = d ∧
      accDayOfWeek (initEpochSecs t ms) = Spec.weekday (t / 86400).toNat ∧
      accHour (initEpochSecs t ms) = (t % 86400 / 3600).toNat ∧
      accMinute (initEpochSecs t ms) = (t % 3600 / 60).toNat ∧
      accSecond (initEpochSecs t ms) = (t % 60).toNat := by
  unfold maxInstant at h1
  obtain ⟨y, m, d, hv, hz, hy1, hy2, hm, hd1, hd2, hg⟩ := gmtime_fields t h0 h1
  refine ⟨y, m, d, (spec_valid_iff _ _ _).2 hv, ?_, hy1, hy2, ?_⟩
  · rw [spec_dayNumber _ _ _ (by omega), hz]; omega
  · simp only [accYear, accMonth, accMonthDay, accDayOfWeek, accHour, accMinute, accSecond, initEpochSecs, mkDateTime, hg,
      spec_weekday]
    refine ⟨?_, ?_, ?_, ?_, ?_, ?_, ?_⟩ <;> first | omega | trivial

/-- every successfully parsed date carries the broken-down time of its own timestamp (so
`c19_accessors` applies to parse results), and milliseconds 0 -/
theorem c19_parsed_fields (s : List Nat) (f : Fmt) (dt : DateTime) (h : initFromStr s f = .ok dt) :
    dt.gmt = gmtime dt.timestamp ∧ dt.millis = 0 := by
  unfold initFromStr at h
  split at h
  · cases h
  · simp only at h
    split at h
    · cases h
    · injection h with h; subst h; simp [mkDateTime]

/-- **Offsets, ISO 8601.**  Extended or basic text of an instant (date/time separator `T`, `t` or
blank), an optional fraction, then `Z`/`z` gives the instant; then `±hh:mm` or `±hhmm` gives the
instant minus the offset (east positive) — i.e. `parse (s ++ offset) = parse (s ++ "Z") ∓ (3600·hh + 60·mm)`. -/
theorem c19_offsets_iso (t : Int) (h0 : 0 ≤ t) (h1 : t ≤ maxInstant) (basic : Bool) (sep : Nat) (hsep : Spec.isDateTimeSep sep)
    (frac : List Nat) (hfr : Spec.isFraction frac) (hfl : frac.length ≤ 70) (pf : Fmt) (hpf : pf ≠ .rfc822) :
    let body := (if basic then fmtBasicBodySep sep (gmtime t) else fmtIsoBodySep sep (gmtime t))
    (∀ zc, zc = 90 ∨ zc = 122 → initFromStr (body ++ (frac ++ [zc])) pf = .ok (mkDateTime t 0 true [])) ∧
    (∀ (neg : Bool) (hh mm : Nat) (colon : Bool), hh < 100 → mm < 100 →
      initFromStr (body ++ (frac ++ Spec.offsetText neg hh mm colon)) pf =
        .ok (mkDateTime (t - Spec.offsetSecs neg hh mm) 0 true [])) := by
  unfold maxInstant at h1
  intro body
  constructor
  · intro zc hzc
    have hz := iso_Z_ok frac hfr zc hzc
    have hl : (frac ++ [zc]).length ≤ 81 := by simp; omega
    cases basic
    · have := iso_ext_any t h0 h1 sep hsep _ 0 hz hl pf hpf
      simpa [body] using this
    · have := iso_basic_any t h0 h1 sep hsep _ 0 hz hl pf hpf
      simpa [body] using this
  · intro neg hh mm colon hhh hmm
    have hz := iso_offset_ok frac hfr neg hh mm colon hhh hmm
    have hl : (frac ++ Spec.offsetText neg hh mm colon).length ≤ 81 := by
      cases colon <;> simp [Spec.offsetText, print2] <;> omega
    cases basic
    · exact iso_ext_any t h0 h1 sep hsep _ _ hz hl pf hpf
    · exact iso_basic_any t h0 h1 sep hsep _ _ hz hl pf hpf

/-- **Offsets, RFC 822.**  The text of an instant up to the zone, followed by `Z`, `UT`, `UTC` or `GMT`
in any mixture of cases, gives the instant; followed by `±hhmm` it gives the instant minus the offset. -/
theorem c19_offsets_rfc822 (t : Int) (h0 : 0 ≤ t) (h1 : t ≤ maxInstant) (pf : Fmt) (hpf : pf = .rfc822 ∨ pf = .autoDetect) :
    (∀ z, Spec.isUtcDesignator z → initFromStr (fmtRfc822Body (gmtime t) ++ z) pf = .ok (mkDateTime t 0 true z)) ∧
    (∀ (neg : Bool) (hh mm : Nat), hh < 100 → mm < 100 →
      initFromStr (fmtRfc822Body (gmtime t) ++ Spec.offsetText neg hh mm false) pf =
        .ok (mkDateTime (t - Spec.offsetSecs neg hh mm) 0 true (Spec.offsetText neg hh mm false))) := by
  unfold maxInstant at h1
  constructor
  · intro z hz
    obtain ⟨a, b, c, d, e⟩ := designator_ok z hz
    have := rfc_any t h0 h1 z a b c d pf hpf
    rw [e] at this; simpa using this
  · intro neg hh mm hhh hmm
    obtain ⟨a, b, c, d, e⟩ := rfc_offset_ok neg hh mm hhh hmm
    have := rfc_any t h0 h1 _ a b c d pf hpf
    rw [e] at this; exact this

/-- **Epoch views.** -/
theorem c19_epoch_views :
    (∀ dt : DateTime, 0 ≤ dt.timestamp → dt.timestamp.toNat < u64 → dt.millis < 65536 →
      (1000 * dt.timestamp.toNat + dt.millis < u64 → asMillis dt = 1000 * dt.timestamp.toNat + dt.millis) ∧
      asNanos dt = min (1000000000 * dt.timestamp.toNat + 1000000 * dt.millis) (u64 - 1) ∧
      (1000000000 * dt.timestamp.toNat + 1000000 * dt.millis < u64 → asNanos dt = 1000000 * asMillis dt)) ∧
    (∀ m : Nat, m < u64 →
      (initEpochMillis m).timestamp = (m / 1000 : Nat) ∧ (initEpochMillis m).millis = m % 1000 ∧
      asMillis (initEpochMillis m) = m) := by
  have hu : u64 = 18446744073709551616 := rfl
  have key : ∀ dt : DateTime, 0 ≤ dt.timestamp → dt.millis < 65536 →
      1000 * dt.timestamp.toNat + dt.millis < u64 → asMillis dt = 1000 * dt.timestamp.toNat + dt.millis := by
    intro dt h0 _ hfit
    unfold asMillis
    rw [toU64_nonneg _ h0 (by omega), show Gen.Date.asMillisSecs = (1, 1000, false) from rfl, conv_up _ _ (by omega) (by omega)]
    exact Nat.mod_eq_of_lt hfit
  have nanos : ∀ dt : DateTime, 0 ≤ dt.timestamp → dt.timestamp.toNat < u64 → dt.millis < 65536 →
      asNanos dt = min (1000000000 * dt.timestamp.toNat + 1000000 * dt.millis) (u64 - 1) := by
    intro dt h0 hlt hms
    unfold asNanos
    simp only [show Gen.Date.asNanosSaturatingAdd = true from rfl, if_true]
    rw [toU64_nonneg _ h0 (by omega), show Gen.Date.asNanosSecs = (1, 1000000000, false) from rfl,
      show Gen.Date.asNanosMillis = (1000, 1000000000, false) from rfl, conv_up_sat _ _ (by omega), conv_ms_ns _ hms, gadd_sat]
    show min (min (1000000000 * dt.timestamp.toNat) 18446744073709551615 + 1000000 * dt.millis) 18446744073709551615 = _
    omega
  refine ⟨fun dt h0 hlt hms => ⟨key dt h0 hms, nanos dt h0 hlt hms, ?_⟩, ?_⟩
  · intro hfit
    rw [key dt h0 hms (by omega), nanos dt h0 hlt hms]
    omega
  · intro m hm
    have e : initEpochMillis m = mkDateTime ((m / 1000 : Nat) : Int) (m % 1000 % 65536) false [] := by
      simp [initEpochMillis, show Gen.Date.initMillis = (1000, 1, true) from rfl, conv_down m hm]
    have e2 : m % 1000 % 65536 = m % 1000 := by omega
    rw [e, e2]
    refine ⟨rfl, rfl, ?_⟩
    rw [key _ (by simp only [mkDateTime]; omega) (by simp only [mkDateTime]; omega) (by simp only [mkDateTime]; omega)]
    simp only [mkDateTime]; omega

/-- the defect as found: with the plain `+` the sum of the two saturated terms wraps -/
theorem c19_nanos_plain_add_wraps :
    asNanosPlainAdd { timestamp := 20000000000, millis := 1 } = 999999 ∧
    asMillis { timestamp := 20000000000, millis := 1 } = 20000000000001 ∧
    asNanos { timestamp := 20000000000, millis := 1 } = 18446744073709551615 := by
  decide

theorem c19_gen_formatters (tm : Tm) (f : Fmt) (short : Bool) : formatTextGen tm f short = formatText tm f short :=
  formatTextGen_eq tm f short

theorem c19_gen_local_formatters (z : Zone) (dt : DateTime) (f : Fmt) (short : Bool) :
    formatLocalText z dt f short =
      match f, short with
      | .rfc822, false => some (fmtRfc822Body (localtime z dt.timestamp) ++ z.name)
      | f, short => formatText (localtime z dt.timestamp) f short :=
  formatLocalText_eq z dt f short

theorem c19_gen_time_glue :
    Gen.Date.gmtimeCallee = "gmtime_r" ∧ Gen.Date.localtimeCallee = "localtime_r" ∧ Gen.Date.timegmCallee = "timegm" := by
  decide

theorem c19_gen_month_table : ∀ m : Fin 12, monthNumber (monthName (m.val : Int) ++ [32]) = some m.val := monthTable_ok

theorem c19_gen_constants :
    Gen.Date.tzMaxChars + 1 ≤ Gen.Date.tzBufSize ∧ Gen.Date.offsetZoneLen ≤ Gen.Date.tzMaxChars ∧
    Gen.Date.rfcYear4Digits = 4 ∧ Gen.Date.rfcYear4Sub = 1900 ∧
    Gen.Date.rfcYear2Digits = 2 ∧ Gen.Date.rfcYear2Add - Gen.Date.rfcYear2Sub + 1900 = 2000 ∧
    Gen.Date.isoYearSub = 1900 ∧ 29 ≤ Gen.Date.AWS_DATE_TIME_STR_MAX_LEN ∧
    Gen.Date.asMillisSecs = (1, 1000, false) ∧ Gen.Date.asNanosSecs = (1, 1000000000, false) ∧
    Gen.Date.asNanosMillis = (1000, 1000000000, false) ∧ Gen.Date.initMillis = (1000, 1, true) := by
  decide

/-! ### init_epoch_secs on a double -/

theorem c19_init_epoch_secs_double (bits : Nat) (dt : DateTime) (h : initEpochSecsDouble bits = some dt) :
    0 ≤ dt.timestamp ∧ dt.millis ≤ 1000 ∧ dt.gmt = gmtime dt.timestamp ∧
    (1000 * dt.timestamp.toNat + dt.millis < u64 → asMillis dt = 1000 * dt.timestamp.toNat + dt.millis) ∧
    asNanos dt = min (1000000000 * dt.timestamp.toNat + 1000000 * dt.millis) (u64 - 1) := by
  unfold initEpochSecsDouble at h
  cases hs : splitDouble bits with
  | none => rw [hs] at h; cases h
  | some p =>
    obtain ⟨s, ms⟩ := p
    rw [hs] at h
    injection h with h
    subst h
    obtain ⟨hms, hs63⟩ := splitDouble_bounds bits s ms hs
    have hu : u64 = 18446744073709551616 := rfl
    have h0 : (0 : Int) ≤ (mkDateTime (s : Int) ms false []).timestamp := by simp [mkDateTime]
    have hlt : (mkDateTime (s : Int) ms false []).timestamp.toNat < u64 := by simp [mkDateTime]; omega
    have hm : (mkDateTime (s : Int) ms false []).millis < 65536 := by simp [mkDateTime]; omega
    obtain ⟨v1, v2, _⟩ := c19_epoch_views.1 _ h0 hlt hm
    exact ⟨h0, by simp [mkDateTime]; exact hms, by simp [mkDateTime], v1, v2⟩

/-- 1033545909.9996 is stored as 1033545909 s + 1000 ms; 1033545909.9994 as … + 999 ms -/
theorem c19_init_epoch_secs_carry_witness :
    splitDouble 0x41cecd545afff2e5 = some (1033545909, 1000) ∧ splitDouble 0x41cecd545affec57 = some (1033545909, 999) ∧
    asMillis { timestamp := 1033545909, millis := 1000 } = 1033545910000 ∧
    asNanos { timestamp := 1033545909, millis := 1000 } = 1033545910000000000 := by
  decide

/-! ### the formatters append -/

theorem formatInto_cases (dt : DateTime) (f : Fmt) (short : Bool) (b : Buf) :
    (∃ t, formatTextGen dt.gmt f short = some t ∧ ¬ (t.length + 1 > b.cap - b.data.length ∨ t.length = 0) ∧
      formatInto dt f short b = .ok { data := b.data ++ t, cap := b.cap } ∧
      formatUtc dt f short (b.cap - b.data.length) = .ok t) ∨
    (∃ e, formatInto dt f short b = .error e ∧ formatUtc dt f short (b.cap - b.data.length) = .error e) := by
  unfold formatInto formatUtc
  cases h : formatTextGen dt.gmt f short with
  | none => exact Or.inr ⟨.invalidArgument, rfl, rfl⟩
  | some t =>
    by_cases c : t.length + 1 > b.cap - b.data.length ∨ t.length = 0
    · exact Or.inr ⟨.shortBuffer, by simp only [c, if_true], by simp only [c, if_true]⟩
    · exact Or.inl ⟨t, rfl, c, by simp only [c, if_false], by simp only [c, if_false]⟩

theorem c19_format_appends (dt : DateTime) (f : Fmt) (short : Bool) (b : Buf) :
    formatInto dt f short b =
      match formatUtc dt f short (b.cap - b.data.length) with
      | .ok t => .ok { data := b.data ++ t, cap := b.cap }
      | .error e => .error e := by
  rcases formatInto_cases dt f short b with ⟨t, _, _, h1, h2⟩ | ⟨e, h1, h2⟩ <;> rw [h1, h2]

theorem c19_format_capacity (t : Int) (h0 : 0 ≤ t) (h1 : t ≤ maxInstant) (f : Fmt) (short : Bool) (hf : f ≠ .autoDetect) (b : Buf) :
    ∃ text, formatUtc (initEpochSecs t 0) f short 100 = .ok text ∧
      (text.length + 1 ≤ b.cap - b.data.length →
        formatInto (initEpochSecs t 0) f short b = .ok { data := b.data ++ text, cap := b.cap }) ∧
      (b.cap - b.data.length < text.length + 1 → formatInto (initEpochSecs t 0) f short b = .error .shortBuffer) := by
  unfold maxInstant at h1
  obtain ⟨l1, l2, l3, l4, l5, l6⟩ := text_lengths t h0 h1 84
  have key : ∀ txt : List Nat, formatText (gmtime t) f short = some txt → txt.length + 1 ≤ 100 → txt.length ≠ 0 →
      formatUtc (initEpochSecs t 0) f short 100 = .ok txt ∧
      (txt.length + 1 ≤ b.cap - b.data.length →
        formatInto (initEpochSecs t 0) f short b = .ok { data := b.data ++ txt, cap := b.cap }) ∧
      (b.cap - b.data.length < txt.length + 1 → formatInto (initEpochSecs t 0) f short b = .error .shortBuffer) := by
    intro txt htxt hl hne
    have hg : formatTextGen (initEpochSecs t 0).gmt f short = some txt := by
      rw [formatTextGen_eq]; simpa [initEpochSecs, mkDateTime] using htxt
    refine ⟨?_, ?_, ?_⟩
    · have c : ¬ (txt.length + 1 > 100 ∨ txt.length = 0) := by omega
      simp only [formatUtc, hg, c, if_false]
    · intro hfit
      have c : ¬ (txt.length + 1 > b.cap - b.data.length ∨ txt.length = 0) := by omega
      simp only [formatInto, hg, c, if_false]
    · intro hshort
      have c : (txt.length + 1 > b.cap - b.data.length ∨ txt.length = 0) := by omega
      simp only [formatInto, hg, c, if_true]
  cases f with
  | autoDetect => exact absurd rfl hf
  | rfc822 =>
    cases short with
    | false =>
      have e : (fmtRfc822 (gmtime t)).length = 29 := by
        have : fmtRfc822 (gmtime t) = fmtRfc822Body (gmtime t) ++ [71, 77, 84] := by simp [fmtRfc822, fmtRfc822Body]
        rw [this]; simp [l5]
      exact ⟨_, key _ rfl (by omega) (by omega)⟩
    | true => exact ⟨_, key (fmtRfc822Short (gmtime t)) rfl (by omega) (by omega)⟩
  | iso8601 =>
    cases short with
    | false =>
      have e : (fmtIso (gmtime t)).length = 20 := by simp [fmtIso, fmtIsoBody, l1]
      exact ⟨_, key _ rfl (by omega) (by omega)⟩
    | true => exact ⟨_, key (fmtIsoShort (gmtime t)) rfl (by omega) (by omega)⟩
  | iso8601Basic =>
    cases short with
    | false =>
      have e : (fmtBasic (gmtime t)).length = 16 := by simp [fmtBasic, fmtBasicBody, l2]
      exact ⟨_, key _ rfl (by omega) (by omega)⟩
    | true => exact ⟨_, key (fmtBasicShort (gmtime t)) rfl (by omega) (by omega)⟩

end AwsVerif.Proofs.C19.Main
