import AwsVerif.Proofs.C19.Rfc
/-! Composition: formatter output of an instant of 1970–9999, read back by `initFromStr`. -/
namespace AwsVerif.Proofs.C19
open AwsVerif.DateTime

/-! ### `initFromStr` given the outcome of the two readers -/

theorem initFromStr_iso (s : List Nat) (pf : Fmt) (tm : Tm) (off : Int) (hl : s.length ≤ 100) (hpf : pf ≠ .rfc822)
    (hp : parseIso s = some (tm, off)) :
    initFromStr s pf = .ok (mkDateTime (timegm tm - off) 0 true []) := by
  have hl' : ¬ s.length > maxStrLen := by unfold maxStrLen Gen.Date.AWS_DATE_TIME_STR_MAX_LEN; omega
  cases pf <;> simp [initFromStr, hl', hp] at hpf ⊢

theorem initFromStr_rfc (s : List Nat) (pf : Fmt) (tm : Tm) (tz : List Nat) (utc : Bool) (hl : s.length ≤ 100)
    (hpf : pf = .rfc822 ∨ pf = .autoDetect) (hiso : parseIso s = none) (hr : parseRfc822 s = some (tm, tz, utc)) :
    initFromStr s pf = .ok (mkDateTime (timegm tm - (if utc then rfcOffset tz else 0)) 0 utc tz) := by
  have hl' : ¬ s.length > maxStrLen := by unfold maxStrLen Gen.Date.AWS_DATE_TIME_STR_MAX_LEN; omega
  rcases hpf with h | h <;> subst h <;> simp [initFromStr, hl', hiso, hr]

theorem initFromStr_fail (s : List Nat) (pf : Fmt) (hl : s.length ≤ 100)
    (hiso : parseIso s = none) (hr : parseRfc822 s = none) :
    initFromStr s pf = .error .invalidDateStr := by
  have hl' : ¬ s.length > maxStrLen := by unfold maxStrLen Gen.Date.AWS_DATE_TIME_STR_MAX_LEN; omega
  cases pf <;> simp [initFromStr, hl', hiso, hr]

theorem parseIso_nondigit (c : Nat) (r : List Nat) (h : isDigit c = false) : parseIso (c :: r) = none := by
  simp [parseIso, readDigits, h]

/-! ### printing of in-range fields -/

theorem printYear_nat (y : Nat) (h1 : 1000 ≤ y) (h2 : y ≤ 9999) : printYear (y : Int) = print4 y := by
  have : (1000 ≤ (y : Int) ∧ (y : Int) ≤ 9999) := by omega
  simp [printYear, this]

theorem printPad2_nat (v : Nat) (h : v ≤ 99) : printPad2 (v : Int) = print2 v := by
  have : (0 ≤ (v : Int) ∧ (v : Int) ≤ 99) := by omega
  simp [printPad2, this]

theorem printPad2_succ (v : Nat) (h : v ≤ 98) : printPad2 ((v : Int) + 1) = print2 (v + 1) := by
  have e : (v : Int) + 1 = ((v + 1 : Nat) : Int) := by omega
  rw [e, printPad2_nat _ (by omega)]

/-! ### the fields of an instant -/

theorem instant_fields (t : Int) (h0 : 0 ≤ t) (h1 : t ≤ 253402300799) :
    ∃ y m d h mi s w : Nat,
      gmtime t = { year := y, mon := m, mday := d, hour := h, min := mi, sec := s, wday := w } ∧
      1970 ≤ y ∧ y ≤ 9999 ∧ m ≤ 11 ∧ 1 ≤ d ∧ d ≤ 31 ∧ h ≤ 23 ∧ mi ≤ 59 ∧ s ≤ 59 ∧ w ≤ 6 ∧
      (∀ H MI S W : Int, timegm { year := y, mon := m, mday := d, hour := H, min := MI, sec := S, wday := W } =
          t / 86400 * 86400 + H * 3600 + MI * 60 + S) ∧
      ((h : Int) * 3600 + (mi : Int) * 60 + (s : Int) = t % 86400) := by
  obtain ⟨y, m, d, hv, hz, hy1, hy2, hm, hd1, hd2, hg⟩ := gmtime_fields t h0 h1
  refine ⟨y, m, d, _, _, _, _, hg, hy1, hy2, hm, hd1, hd2, by omega, by omega, by omega, by omega, ?_, by omega⟩
  intro H MI S W
  rw [timegm_civil y m d (by omega) hm, hz]
  have : ¬ d = 0 := by omega
  simp only [this, if_false]
  omega

/-! ### names -/

theorem monthName_ok (m : Nat) (hm : m ≤ 11) :
    ∃ a b c, monthName (m : Int) = [a, b, c] ∧ isAlpha a = true ∧ isAlpha b = true ∧ isAlpha c = true ∧
      monthNumber [a, b, c, 32] = some m := by
  have : m = 0 ∨ m = 1 ∨ m = 2 ∨ m = 3 ∨ m = 4 ∨ m = 5 ∨ m = 6 ∨ m = 7 ∨ m = 8 ∨ m = 9 ∨ m = 10 ∨ m = 11 := by omega
  rcases this with h | h | h | h | h | h | h | h | h | h | h | h <;> subst h <;>
    exact ⟨_, _, _, rfl, by decide, by decide, by decide, by decide⟩

theorem dayName_ok (w : Nat) (hw : w ≤ 6) :
    ∃ a b c, dayName (w : Int) = [a, b, c] ∧ isAlpha a = true ∧ isAlpha b = true ∧ isAlpha c = true := by
  have : w = 0 ∨ w = 1 ∨ w = 2 ∨ w = 3 ∨ w = 4 ∨ w = 5 ∨ w = 6 := by omega
  rcases this with h | h | h | h | h | h | h <;> subst h <;> exact ⟨_, _, _, rfl, by decide, by decide, by decide⟩


/-! ### ISO 8601 texts -/

theorem parseIsoZone_fraction (f : List Nat) (c : Nat) (r : List Nat) (hf : Spec.isFraction f)
    (hc : isDigit c = false) (hc2 : c ≠ 46 ∧ c ≠ 44) : parseIsoZone (f ++ c :: r) = parseIsoZone (c :: r) := by
  rcases hf with h | ⟨sep, d0, ds, h, hsep, hd0, hds⟩
  · subst h; rfl
  · subst h; exact parseIsoZone_frac sep d0 ds c r hsep hd0 hds hc hc2

/-- extended text of an instant with any zone part `z` whose reading gives `off` -/
theorem iso_ext_any (t : Int) (h0 : 0 ≤ t) (h1 : t ≤ 253402300799) (sep : Nat) (hsep : Spec.isDateTimeSep sep)
    (z : List Nat) (off : Int) (hz : parseIsoZone z = some off) (hl : z.length ≤ 81) (pf : Fmt) (hpf : pf ≠ .rfc822) :
    initFromStr (fmtIsoBodySep sep (gmtime t) ++ z) pf = .ok (mkDateTime (t - off) 0 true []) := by
  obtain ⟨y, m, d, h, mi, s, w, hg, hy1, hy2, hm, hd1, hd2, hh, hmi, hs, hw, htg, hsod⟩ := instant_fields t h0 h1
  rw [hg]
  have hp := parseIso_ext_full y (m + 1) d h mi s sep z hsep (by omega) (by omega) (by omega) (by omega) (by omega) (by omega)
  rw [hz] at hp
  have e : ((m + 1 : Nat) : Int) - 1 = (m : Int) := by omega
  simp only [Option.bind_some, e] at hp
  have htxt : fmtIsoBodySep sep { year := y, mon := m, mday := d, hour := h, min := mi, sec := s, wday := w } ++ z =
      dig (y / 1000) :: dig (y / 100 % 10) :: dig (y / 10 % 10) :: dig (y % 10) :: 45 ::
        dig ((m + 1) / 10) :: dig ((m + 1) % 10) :: 45 :: dig (d / 10) :: dig (d % 10) :: sep ::
        dig (h / 10) :: dig (h % 10) :: 58 :: dig (mi / 10) :: dig (mi % 10) :: 58 :: dig (s / 10) :: dig (s % 10) :: z := by
    simp [fmtIsoBodySep, fmtIsoShort, printYear_nat y (by omega) hy2, printPad2_nat, printPad2_succ m (by omega),
      print4, print2, show d ≤ 99 by omega, show h ≤ 99 by omega, show mi ≤ 99 by omega, show s ≤ 99 by omega]
  rw [htxt, initFromStr_iso _ pf _ off (by simp; omega) hpf hp, htg]
  congr 2; omega

/-- basic text of an instant with any zone part -/
theorem iso_basic_any (t : Int) (h0 : 0 ≤ t) (h1 : t ≤ 253402300799) (sep : Nat) (hsep : Spec.isDateTimeSep sep)
    (z : List Nat) (off : Int) (hz : parseIsoZone z = some off) (hl : z.length ≤ 81) (pf : Fmt) (hpf : pf ≠ .rfc822) :
    initFromStr (fmtBasicBodySep sep (gmtime t) ++ z) pf = .ok (mkDateTime (t - off) 0 true []) := by
  obtain ⟨y, m, d, h, mi, s, w, hg, hy1, hy2, hm, hd1, hd2, hh, hmi, hs, hw, htg, hsod⟩ := instant_fields t h0 h1
  rw [hg]
  have hp := parseIso_basic_full y (m + 1) d h mi s sep z hsep (by omega) (by omega) (by omega) (by omega) (by omega) (by omega)
  rw [hz] at hp
  have e : ((m + 1 : Nat) : Int) - 1 = (m : Int) := by omega
  simp only [Option.bind_some, e] at hp
  have htxt : fmtBasicBodySep sep { year := y, mon := m, mday := d, hour := h, min := mi, sec := s, wday := w } ++ z =
      dig (y / 1000) :: dig (y / 100 % 10) :: dig (y / 10 % 10) :: dig (y % 10) ::
        dig ((m + 1) / 10) :: dig ((m + 1) % 10) :: dig (d / 10) :: dig (d % 10) :: sep ::
        dig (h / 10) :: dig (h % 10) :: dig (mi / 10) :: dig (mi % 10) :: dig (s / 10) :: dig (s % 10) :: z := by
    simp [fmtBasicBodySep, fmtBasicShort, printYear_nat y (by omega) hy2, printPad2_nat, printPad2_succ m (by omega),
      print4, print2, show d ≤ 99 by omega, show h ≤ 99 by omega, show mi ≤ 99 by omega, show s ≤ 99 by omega]
  rw [htxt, initFromStr_iso _ pf _ off (by simp; omega) hpf hp, htg]
  congr 2; omega

/-- date-only extended text -/
theorem iso_ext_short (t : Int) (h0 : 0 ≤ t) (h1 : t ≤ 253402300799) (pf : Fmt) (hpf : pf ≠ .rfc822) :
    initFromStr (fmtIsoShort (gmtime t)) pf = .ok (mkDateTime (t - t % 86400) 0 true []) := by
  obtain ⟨y, m, d, h, mi, s, w, hg, hy1, hy2, hm, hd1, hd2, hh, hmi, hs, hw, htg, hsod⟩ := instant_fields t h0 h1
  rw [hg]
  have hp := parseIso_ext_short y (m + 1) d (by omega) (by omega) (by omega)
  have e : ((m + 1 : Nat) : Int) - 1 = (m : Int) := by omega
  simp only [e] at hp
  have htxt : fmtIsoShort { year := y, mon := m, mday := d, hour := h, min := mi, sec := s, wday := w } =
      dig (y / 1000) :: dig (y / 100 % 10) :: dig (y / 10 % 10) :: dig (y % 10) :: 45 ::
        dig ((m + 1) / 10) :: dig ((m + 1) % 10) :: 45 :: dig (d / 10) :: dig (d % 10) :: [] := by
    simp [fmtIsoShort, printYear_nat y (by omega) hy2, printPad2_nat, printPad2_succ m (by omega),
      print4, print2, show d ≤ 99 by omega]
  rw [htxt, initFromStr_iso _ pf _ 0 (by simp) hpf hp, htg]
  congr 2; omega

/-- date-only basic text -/
theorem iso_basic_short (t : Int) (h0 : 0 ≤ t) (h1 : t ≤ 253402300799) (pf : Fmt) (hpf : pf ≠ .rfc822) :
    initFromStr (fmtBasicShort (gmtime t)) pf = .ok (mkDateTime (t - t % 86400) 0 true []) := by
  obtain ⟨y, m, d, h, mi, s, w, hg, hy1, hy2, hm, hd1, hd2, hh, hmi, hs, hw, htg, hsod⟩ := instant_fields t h0 h1
  rw [hg]
  have hp := parseIso_basic_short y (m + 1) d (by omega) (by omega) (by omega)
  have e : ((m + 1 : Nat) : Int) - 1 = (m : Int) := by omega
  simp only [e] at hp
  have htxt : fmtBasicShort { year := y, mon := m, mday := d, hour := h, min := mi, sec := s, wday := w } =
      dig (y / 1000) :: dig (y / 100 % 10) :: dig (y / 10 % 10) :: dig (y % 10) ::
        dig ((m + 1) / 10) :: dig ((m + 1) % 10) :: dig (d / 10) :: dig (d % 10) :: [] := by
    simp [fmtBasicShort, printYear_nat y (by omega) hy2, printPad2_nat, printPad2_succ m (by omega),
      print4, print2, show d ≤ 99 by omega]
  rw [htxt, initFromStr_iso _ pf _ 0 (by simp) hpf hp, htg]
  congr 2; omega


/-! ### RFC 822 texts -/

theorem wrap_step (a : Int) (n : Nat) (h1 : 0 ≤ a) (h2 : a < 100000) (hn : n < 10) :
    wrap32 (a * 10 + dval (dig n)) = a * 10 + (n : Int) := by
  unfold wrap32 dval dig; omega

theorem val2 (a : Int) (v : Nat) (ha : a = 0) (h : v < 100) :
    wrap32 (wrap32 (a * 10 + dval (dig (v / 10))) * 10 + dval (dig (v % 10))) = v := by
  subst ha
  rw [wrap_step 0 (v / 10) (by omega) (by omega) (by omega),
    wrap_step (0 * 10 + ((v / 10 : Nat) : Int)) (v % 10) (by omega) (by omega) (by omega)]
  omega

theorem val4 (a : Int) (v : Nat) (ha : a = 0) (h : v < 10000) :
    wrap32 (wrap32 (wrap32 (wrap32 (a * 10 + dval (dig (v / 1000))) * 10 + dval (dig (v / 100 % 10))) * 10 +
      dval (dig (v / 10 % 10))) * 10 + dval (dig (v % 10))) = v := by
  subst ha
  rw [wrap_step 0 (v / 1000) (by omega) (by omega) (by omega),
    wrap_step (0 * 10 + ((v / 1000 : Nat) : Int)) (v / 100 % 10) (by omega) (by omega) (by omega),
    wrap_step ((0 * 10 + ((v / 1000 : Nat) : Int)) * 10 + ((v / 100 % 10 : Nat) : Int)) (v / 10 % 10) (by omega) (by omega) (by omega),
    wrap_step (((0 * 10 + ((v / 1000 : Nat) : Int)) * 10 + ((v / 100 % 10 : Nat) : Int)) * 10 + ((v / 10 % 10 : Nat) : Int)) (v % 10)
      (by omega) (by omega) (by omega)]
  omega

theorem isSpace_32 : isSpace 32 = true := by decide

/-- the machine on the RFC 822 text of an instant followed by a zone of at most five zone characters -/
theorem rfc_run (t : Int) (h0 : 0 ≤ t) (h1 : t ≤ 253402300799) (z : List Nat) (hz : ∀ x ∈ z, zoneChar x) (hl : z.length ≤ 5) :
    ∃ y m d h mi s w : Nat,
      gmtime t = { year := y, mon := m, mday := d, hour := h, min := mi, sec := s, wday := w } ∧
      rrun {} (fmtRfc822Body (gmtime t) ++ z) =
        ⟨.onTz, z, false, { year := y, mon := m, mday := d, hour := h, min := mi, sec := s, wday := 0 }, z⟩ ∧
      (fmtRfc822Body (gmtime t)).length = 26 ∧
      (∃ c r, fmtRfc822Body (gmtime t) = c :: r ∧ isDigit c = false) ∧
      timegm { year := y, mon := m, mday := d, hour := h, min := mi, sec := s, wday := 0 } = t := by
  obtain ⟨y, m, d, h, mi, s, w, hg, hy1, hy2, hm, hd1, hd2, hh, hmi, hs, hw, htg, hsod⟩ := instant_fields t h0 h1
  refine ⟨y, m, d, h, mi, s, w, hg, ?_⟩
  rw [hg]
  obtain ⟨a, b, c, hdn, ha, hb, hc⟩ := dayName_ok w hw
  obtain ⟨m0, m1, m2, hmn, hm0, hm1, hm2, hmk⟩ := monthName_ok m hm
  have htxt : fmtRfc822Body { year := y, mon := m, mday := d, hour := h, min := mi, sec := s, wday := w } =
      a :: b :: c :: 44 :: 32 :: dig (d / 10) :: dig (d % 10) :: 32 :: m0 :: m1 :: m2 :: 32 ::
        dig (y / 1000) :: dig (y / 100 % 10) :: dig (y / 10 % 10) :: dig (y % 10) :: 32 ::
        dig (h / 10) :: dig (h % 10) :: 58 :: dig (mi / 10) :: dig (mi % 10) :: 58 :: dig (s / 10) :: dig (s % 10) :: 32 :: [] := by
    simp [fmtRfc822Body, fmtRfc822Short, fmtClock, hdn, hmn, printYear_nat y (by omega) hy2, printPad2_nat,
      print4, print2, show d ≤ 99 by omega, show h ≤ 99 by omega, show mi ≤ 99 by omega, show s ≤ 99 by omega]
  rw [htxt]
  refine ⟨?_, by simp, ⟨a, _, rfl, alpha_not_digit ha⟩, by rw [htg]; omega⟩
  have hwd : ∀ x ∈ [a, b, c], isAlpha x = true := by
    intro x hx; simp at hx; rcases hx with h | h | h <;> subst h <;> assumption
  have e0 : (a :: b :: c :: 44 :: 32 :: dig (d / 10) :: dig (d % 10) :: 32 :: m0 :: m1 :: m2 :: 32 ::
        dig (y / 1000) :: dig (y / 100 % 10) :: dig (y / 10 % 10) :: dig (y % 10) :: 32 ::
        dig (h / 10) :: dig (h % 10) :: 58 :: dig (mi / 10) :: dig (mi % 10) :: 58 :: dig (s / 10) :: dig (s % 10) :: 32 :: []) ++ z =
      [a, b, c] ++ 44 :: (32 :: dig (d / 10) :: dig (d % 10) :: 32 :: (m0 :: m1 :: m2 :: 32 ::
        (dig (y / 1000) :: dig (y / 100 % 10) :: dig (y / 10 % 10) :: dig (y % 10) :: 32 ::
        (dig (h / 10) :: dig (h % 10) :: 58 :: dig (mi / 10) :: dig (mi % 10) :: 58 :: dig (s / 10) :: dig (s % 10) :: 32 :: z)))) := by
    simp
  rw [e0]
  show rrun ⟨.onWeekday, [], false, {}, []⟩ _ = _
  rw [rrun_weekday [a, b, c] _ hwd,
    rrun_mday 32 _ _ 32 _ _ _ isSpace_32 (isDigit_dig (by omega)) (isDigit_dig (by omega)) isSpace_32,
    rrun_month m0 m1 m2 32 m _ _ _ hm0 hm1 hm2 isSpace_32 hmk,
    rrun_year4 _ _ _ _ 32 _ _ _ (isDigit_dig (by omega)) (isDigit_dig (by omega)) (isDigit_dig (by omega)) (isDigit_dig (by omega)) isSpace_32,
    rrun_clock _ _ _ _ _ _ 32 _ _ _ (isDigit_dig (by omega)) (isDigit_dig (by omega)) (isDigit_dig (by omega))
      (isDigit_dig (by omega)) (isDigit_dig (by omega)) (isDigit_dig (by omega)) isSpace_32,
    rrun_tz z hz _ _ _ (by simp [Gen.Date.tzMaxChars]; omega)]
  simp only [List.nil_append]
  congr 1
  have v1 := val2 ({} : Tm).mday d rfl (by omega)
  have v2 := val4 ({} : Tm).year y rfl (by omega)
  have v2' : ((y : Int) - (Gen.Date.rfcYear4Sub : Nat) + tmYearBase) = y := by
    simp only [Gen.Date.rfcYear4Sub, tmYearBase]; omega
  have v3 := val2 ({} : Tm).hour h rfl (by omega)
  have v4 := val2 ({} : Tm).min mi rfl (by omega)
  have v5 := val2 ({} : Tm).sec s rfl (by omega)
  simp only [v1, v2, v2', v3, v4, v5]


/-- RFC 822 text of an instant followed by a zone the reader takes for UTC -/
theorem rfc_any (t : Int) (h0 : 0 ≤ t) (h1 : t ≤ 253402300799) (z : List Nat) (hz : ∀ x ∈ z, zoneChar x)
    (hl : z.length ≤ 5) (hne : z ≠ []) (hutc : isUtcTimeZone z = true) (pf : Fmt) (hpf : pf = .rfc822 ∨ pf = .autoDetect) :
    initFromStr (fmtRfc822Body (gmtime t) ++ z) pf = .ok (mkDateTime (t - rfcOffset z) 0 true z) := by
  obtain ⟨y, m, d, h, mi, s, w, hg, hrun, hlen, ⟨c, r, hcr, hc⟩, htg⟩ := rfc_run t h0 h1 z hz hl
  have hp : parseRfc822 (fmtRfc822Body (gmtime t) ++ z) =
      some ({ year := y, mon := m, mday := d, hour := h, min := mi, sec := s, wday := 0 }, z, true) := by
    unfold parseRfc822; rw [hrun]; simp [hne, hutc]
  have hiso : parseIso (fmtRfc822Body (gmtime t) ++ z) = none := by
    rw [hcr]; exact parseIso_nondigit c _ hc
  rw [initFromStr_rfc _ pf _ z true (by rw [List.length_append, hlen]; omega) hpf hiso hp, htg]
  simp

theorem rrun_year4_end (y1 y2 y3 y4 : Nat) (tm : Tm) (tz : List Nat)
    (h1 : isDigit y1 = true) (h2 : isDigit y2 = true) (h3 : isDigit y3 = true) (h4 : isDigit y4 = true) :
    (rrun ⟨.onYear, [], false, tm, tz⟩ [y1, y2, y3, y4]).st = .onYear := by
  have a1 := digit_not_space h1
  have a2 := digit_not_space h2
  have a3 := digit_not_space h3
  have a4 := digit_not_space h4
  simp [rrun, rstep, h1, h2, h3, h4, a1, a2, a3, a4]

/-- the date-only RFC 822 text is refused: the machine stops in `ON_YEAR`, not `ON_TZ` -/
theorem rfc_short_refused (t : Int) (h0 : 0 ≤ t) (h1 : t ≤ 253402300799) (pf : Fmt) :
    initFromStr (fmtRfc822Short (gmtime t)) pf = .error .invalidDateStr := by
  obtain ⟨y, m, d, h, mi, s, w, hg, hy1, hy2, hm, hd1, hd2, hh, hmi, hs, hw, htg, hsod⟩ := instant_fields t h0 h1
  rw [hg]
  obtain ⟨a, b, c, hdn, ha, hb, hc⟩ := dayName_ok w hw
  obtain ⟨m0, m1, m2, hmn, hm0, hm1, hm2, hmk⟩ := monthName_ok m hm
  have htxt : fmtRfc822Short { year := y, mon := m, mday := d, hour := h, min := mi, sec := s, wday := w } =
      [a, b, c] ++ 44 :: (32 :: dig (d / 10) :: dig (d % 10) :: 32 :: (m0 :: m1 :: m2 :: 32 ::
        [dig (y / 1000), dig (y / 100 % 10), dig (y / 10 % 10), dig (y % 10)])) := by
    simp [fmtRfc822Short, hdn, hmn, printYear_nat y (by omega) hy2, printPad2_nat, print4, print2, show d ≤ 99 by omega]
  rw [htxt]
  have hwd : ∀ x ∈ [a, b, c], isAlpha x = true := by
    intro x hx; simp at hx; rcases hx with h | h | h <;> subst h <;> assumption
  have hst : (rrun {} ([a, b, c] ++ 44 :: (32 :: dig (d / 10) :: dig (d % 10) :: 32 :: (m0 :: m1 :: m2 :: 32 ::
        [dig (y / 1000), dig (y / 100 % 10), dig (y / 10 % 10), dig (y % 10)])))).st = .onYear := by
    show (rrun ⟨.onWeekday, [], false, {}, []⟩ _).st = _
    rw [rrun_weekday [a, b, c] _ hwd,
      rrun_mday 32 _ _ 32 _ _ _ isSpace_32 (isDigit_dig (by omega)) (isDigit_dig (by omega)) isSpace_32,
      rrun_month m0 m1 m2 32 m _ _ _ hm0 hm1 hm2 isSpace_32 hmk]
    exact rrun_year4_end _ _ _ _ _ _ (isDigit_dig (by omega)) (isDigit_dig (by omega)) (isDigit_dig (by omega)) (isDigit_dig (by omega))
  have hiso : parseIso ([a, b, c] ++ 44 :: (32 :: dig (d / 10) :: dig (d % 10) :: 32 :: (m0 :: m1 :: m2 :: 32 ::
        [dig (y / 1000), dig (y / 100 % 10), dig (y / 10 % 10), dig (y % 10)]))) = none :=
    parseIso_nondigit a _ (alpha_not_digit ha)
  have hlen : ([a, b, c] ++ 44 :: (32 :: dig (d / 10) :: dig (d % 10) :: 32 :: (m0 :: m1 :: m2 :: 32 ::
        [dig (y / 1000), dig (y / 100 % 10), dig (y / 10 % 10), dig (y % 10)]))).length ≤ 100 := by simp
  generalize ([a, b, c] ++ 44 :: (32 :: dig (d / 10) :: dig (d % 10) :: 32 :: (m0 :: m1 :: m2 :: 32 ::
        [dig (y / 1000), dig (y / 100 % 10), dig (y / 10 % 10), dig (y % 10)]))) = txt at hst hiso hlen ⊢
  have hp : parseRfc822 txt = none := by
    unfold parseRfc822; simp [hst]
  exact initFromStr_fail _ pf hlen hiso hp

end AwsVerif.Proofs.C19
