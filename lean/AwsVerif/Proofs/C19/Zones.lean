import AwsVerif.Proofs.C19.Roundtrip
/-! Zone texts (numeric offsets, UTC designators in any case), text lengths, epoch views. -/
deriving instance DecidableEq for Except

namespace AwsVerif.Proofs.C19
open AwsVerif.DateTime

theorem toLower_cases {a k : Nat} (h : toLower a = k) (_hk : 97 ≤ k ∧ k ≤ 122) : a = k ∨ a + 32 = k := by
  unfold toLower at h; split at h <;> omega

theorem zoneChar_of_lower {a k : Nat} (h : toLower a = k) (hk : 97 ≤ k ∧ k ≤ 122) : zoneChar a := by
  have := toLower_cases h hk
  have ha : isAlpha a = true := by rw [isAlpha_iff]; omega
  simp [zoneChar, isAlnum, ha]

theorem toLower_ne_of_lower {a k : Nat} (h : toLower a = k) (hk : 97 ≤ k ∧ k ≤ 122) : a ≠ 43 ∧ a ≠ 45 := by
  have := toLower_cases h hk; omega

/-- `Z`, `UT`, `UTC`, `GMT` in any case: accepted as UTC by the RFC 822 reader, no offset -/
theorem designator_ok (z : List Nat) (h : Spec.isUtcDesignator z) :
    (∀ x ∈ z, zoneChar x) ∧ z.length ≤ 5 ∧ z ≠ [] ∧ isUtcTimeZone z = true ∧ rfcOffset z = 0 := by
  rcases h with h | h | h | h
  · rcases z with _ | ⟨a, _ | ⟨b, r⟩⟩ <;> simp at h
    have hz := zoneChar_of_lower h (by omega)
    refine ⟨by intro x hx; simp at hx; subst hx; exact hz, by simp, by simp, by simp [isUtcTimeZone, h, Gen.Date.utcSingle], by simp [rfcOffset]⟩
  · rcases z with _ | ⟨a, _ | ⟨b, _ | ⟨c, r⟩⟩⟩ <;> simp at h
    have hza := zoneChar_of_lower h.1 (by omega)
    have hzb := zoneChar_of_lower h.2 (by omega)
    refine ⟨by intro x hx; simp at hx; rcases hx with e | e <;> subst e <;> assumption, by simp, by simp,
      by simp [isUtcTimeZone, h.1, h.2, Gen.Date.utcSingle, Gen.Date.offsetZoneLen, Gen.Date.utcPair], by simp [rfcOffset]⟩
  · rcases z with _ | ⟨a, _ | ⟨b, _ | ⟨c, _ | ⟨d, r⟩⟩⟩⟩ <;> simp at h
    have hza := zoneChar_of_lower h.1 (by omega)
    have hzb := zoneChar_of_lower h.2.1 (by omega)
    have hzc := zoneChar_of_lower h.2.2 (by omega)
    refine ⟨by intro x hx; simp at hx; rcases hx with e | e | e <;> subst e <;> assumption, by simp, by simp,
      by simp only [isUtcTimeZone, tripletMatches, triplet, Gen.Date.utcTriplets, List.any, h.1, h.2.1, h.2.2]; simp [toLower, Gen.Date.utcSingle, Gen.Date.offsetZoneLen], by simp [rfcOffset]⟩
  · rcases z with _ | ⟨a, _ | ⟨b, _ | ⟨c, _ | ⟨d, r⟩⟩⟩⟩ <;> simp at h
    have hza := zoneChar_of_lower h.1 (by omega)
    have hzb := zoneChar_of_lower h.2.1 (by omega)
    have hzc := zoneChar_of_lower h.2.2 (by omega)
    refine ⟨by intro x hx; simp at hx; rcases hx with e | e | e <;> subst e <;> assumption, by simp, by simp,
      by simp only [isUtcTimeZone, tripletMatches, triplet, Gen.Date.utcTriplets, List.any, h.1, h.2.1, h.2.2]; simp [toLower, Gen.Date.utcSingle, Gen.Date.offsetZoneLen], by simp [rfcOffset]⟩

theorem zoneChar_dig {n : Nat} (h : n < 10) : zoneChar (dig n) := by
  have := isDigit_dig h
  simp [zoneChar, isAlnum, this]

theorem strtol2_dig (a b : Nat) (ha : a < 10) (hb : b < 10) : strtol2 (dig a) (dig b) = (a : Int) * 10 + (b : Int) := by
  have h1 : dig a ≠ 43 := by unfold dig; omega
  have h2 : dig a ≠ 45 := by unfold dig; omega
  simp only [strtol2, h1, h2, if_false, isDigit_dig ha, isDigit_dig hb, if_true]
  unfold dval dig; omega

/-- `±hhmm` as an RFC 822 zone -/
theorem rfc_offset_ok (neg : Bool) (hh mm : Nat) (hhh : hh < 100) (hmm : mm < 100) :
    (∀ x ∈ Spec.offsetText neg hh mm false, zoneChar x) ∧ (Spec.offsetText neg hh mm false).length ≤ 5 ∧
    Spec.offsetText neg hh mm false ≠ [] ∧ isUtcTimeZone (Spec.offsetText neg hh mm false) = true ∧
    rfcOffset (Spec.offsetText neg hh mm false) = Spec.offsetSecs neg hh mm := by
  have d1 := zoneChar_dig (show hh / 10 < 10 by omega)
  have d2 := zoneChar_dig (show hh % 10 < 10 by omega)
  have d3 := zoneChar_dig (show mm / 10 < 10 by omega)
  have d4 := zoneChar_dig (show mm % 10 < 10 by omega)
  have s1 := strtol2_dig (hh / 10) (hh % 10) (by omega) (by omega)
  have s2 := strtol2_dig (mm / 10) (mm % 10) (by omega) (by omega)
  have e : Spec.offsetText neg hh mm false =
      [if neg then 45 else 43, dig (hh / 10), dig (hh % 10), dig (mm / 10), dig (mm % 10)] := by
    simp [Spec.offsetText, print2]
  rw [e]
  cases neg
  · refine ⟨?_, by simp, by simp, by simp [isUtcTimeZone, toLower, Gen.Date.utcSingle, Gen.Date.offsetZoneLen, Gen.Date.offsetSigns], ?_⟩
    · intro x hx; simp at hx; rcases hx with h | h | h | h | h <;> subst h <;> first | assumption | simp [zoneChar]
    · simp only [rfcOffset, Spec.offsetSecs, s1, s2]; simp; omega
  · refine ⟨?_, by simp, by simp, by simp [isUtcTimeZone, toLower, Gen.Date.utcSingle, Gen.Date.offsetZoneLen, Gen.Date.offsetSigns], ?_⟩
    · intro x hx; simp at hx; rcases hx with h | h | h | h | h <;> subst h <;> first | assumption | simp [zoneChar]
    · simp only [rfcOffset, Spec.offsetSecs, s1, s2]; simp; omega

/-- `±hh:mm` / `±hhmm` after an optional fraction, read by the ISO zone reader -/
theorem iso_offset_ok (f : List Nat) (hf : Spec.isFraction f) (neg : Bool) (hh mm : Nat) (colon : Bool)
    (hhh : hh < 100) (hmm : mm < 100) :
    parseIsoZone (f ++ Spec.offsetText neg hh mm colon) = some (Spec.offsetSecs neg hh mm) := by
  have e : Spec.offsetText neg hh mm colon =
      (if neg then 45 else 43) :: dig (hh / 10) :: dig (hh % 10) ::
        ((if colon then [58] else []) ++ dig (mm / 10) :: dig (mm % 10) :: []) := by
    simp [Spec.offsetText, print2]
  rw [e]
  have hsg : (if neg then 45 else 43) = 43 ∨ (if neg then 45 else 43) = 45 := by cases neg <;> simp
  have hnd : isDigit (if neg then 45 else 43) = false := by cases neg <;> decide
  rw [parseIsoZone_fraction f _ _ hf hnd (by cases neg <;> simp), parseIsoZone_offset _ hh mm colon [] hsg hhh hmm]
  cases neg <;> simp [Spec.offsetSecs]

theorem iso_Z_ok (f : List Nat) (hf : Spec.isFraction f) (zc : Nat) (hz : zc = 90 ∨ zc = 122) :
    parseIsoZone (f ++ [zc]) = some 0 := by
  have hnd : isDigit zc = false := by rcases hz with h | h <;> subst h <;> decide
  rw [parseIsoZone_fraction f zc [] hf hnd (by omega), parseIsoZone_Z zc [] hz]

theorem fraction_length (f : List Nat) (n : Nat) (h : f.length ≤ n) (z : List Nat) : (f ++ z).length ≤ n + z.length := by
  simp; omega

/-! ### lengths of the formatter's texts -/

theorem text_lengths (t : Int) (h0 : 0 ≤ t) (h1 : t ≤ 253402300799) (sep : Nat) :
    (fmtIsoBodySep sep (gmtime t)).length = 19 ∧ (fmtBasicBodySep sep (gmtime t)).length = 15 ∧
    (fmtIsoShort (gmtime t)).length = 10 ∧ (fmtBasicShort (gmtime t)).length = 8 ∧
    (fmtRfc822Body (gmtime t)).length = 26 ∧ (fmtRfc822Short (gmtime t)).length = 16 := by
  obtain ⟨y, m, d, h, mi, s, w, hg, hy1, hy2, hm, hd1, hd2, hh, hmi, hs, hw, htg, hsod⟩ := instant_fields t h0 h1
  rw [hg]
  obtain ⟨a, b, c, hdn, ha, hb, hc⟩ := dayName_ok w hw
  obtain ⟨m0, m1, m2, hmn, hm0, hm1, hm2, hmk⟩ := monthName_ok m hm
  simp [fmtIsoBodySep, fmtBasicBodySep, fmtIsoShort, fmtBasicShort, fmtRfc822Body, fmtRfc822Short, fmtClock, hdn, hmn,
    printYear_nat y (by omega) hy2, printPad2_nat, printPad2_succ m (by omega),
    print4, print2, show d ≤ 99 by omega, show h ≤ 99 by omega, show mi ≤ 99 by omega, show s ≤ 99 by omega]

/-! ### epoch views -/

open AwsVerif.Gen.Math in
theorem gmul (a b : Nat) (h : a * b < 18446744073709551616) : Overflow.aws_mul_u64_saturating a b = a * b := by
  have h' : ¬ (a * b ≥ 18446744073709551616) := by omega
  simp only [Overflow.aws_mul_u64_saturating, h', if_false]
  exact Nat.mod_eq_of_lt h

open AwsVerif.Gen.Math in
theorem gadd (a b : Nat) (h : a + b < 18446744073709551616) : Overflow.aws_add_u64_saturating a b = a + b := by
  have h' : ¬ (a + b ≥ 18446744073709551616) := by omega
  simp only [Overflow.aws_add_u64_saturating, h', if_false]
  exact Nat.mod_eq_of_lt h

/-! the generated `aws_timestamp_convert` (clock.inl through gen/math_gen.py) on the three call shapes of date_time.c -/

open AwsVerif.Gen.Math in
theorem conv_up (x k : Nat) (hk : 0 < k) (h : k * x < u64) : convert x (1, k, false) = (k * x, 0) := by
  have e1 : x / 1 = x := by omega
  have e2 : (x + 18446744073709551616 - x * 1 % 18446744073709551616) % 18446744073709551616 = 0 := by omega
  have c : ¬ ¬ (1 > 0 ∧ k > 0) := by omega
  simp only [convert, Clock.aws_timestamp_convert, Clock.aws_timestamp_convert_u64, c, if_false, Bool.false_eq_true, e1, e2]
  rw [gmul x k (by rw [Nat.mul_comm]; exact h), gmul 0 k (by simp), gadd _ _ (by simp; rw [Nat.mul_comm]; exact h)]
  simp [Nat.mul_comm]

open AwsVerif.Gen.Math in
theorem conv_ms_ns (ms : Nat) (h : ms < 65536) : convert ms (1000, 1000000000, false) = (1000000 * ms, 0) := by
  have e2 : (ms + 18446744073709551616 - ms / 1000 * 1000 % 18446744073709551616) % 18446744073709551616 = ms % 1000 := by omega
  simp only [convert, Clock.aws_timestamp_convert, Clock.aws_timestamp_convert_u64, Bool.false_eq_true, if_false, e2]
  simp only [show ¬ ¬ ((1000:Nat) > 0 ∧ (1000000000:Nat) > 0) by omega, if_false]
  rw [gmul _ _ (by omega), gmul _ _ (by omega), gadd _ _ (by omega)]
  simp; omega

open AwsVerif.Gen.Math in
theorem conv_down (ms : Nat) (h : ms < u64) : convert ms (1000, 1, true) = (ms / 1000, ms % 1000) := by
  have hu : u64 = 18446744073709551616 := rfl
  have e2 : (ms + 18446744073709551616 - ms / 1000 * 1000 % 18446744073709551616) % 18446744073709551616 = ms % 1000 := by omega
  simp only [convert, Clock.aws_timestamp_convert, Clock.aws_timestamp_convert_u64, e2]
  simp only [show ¬ ¬ ((1000:Nat) > 0 ∧ (1:Nat) > 0) by omega, if_false, if_true, show (1:Nat) < 1000 by omega]
  rw [gmul _ _ (by omega), gmul _ _ (by omega), gadd _ _ (by omega)]
  simp

open AwsVerif.Gen.Math in
theorem gmul_sat (a b : Nat) : Overflow.aws_mul_u64_saturating a b = min (a * b) 18446744073709551615 := by
  by_cases h : a * b ≥ 18446744073709551616
  · simp only [Overflow.aws_mul_u64_saturating, h, if_true]; omega
  · simp only [Overflow.aws_mul_u64_saturating, h, if_false]
    rw [Nat.mod_eq_of_lt (by omega)]; omega

open AwsVerif.Gen.Math in
theorem gadd_sat (a b : Nat) : Overflow.aws_add_u64_saturating a b = min (a + b) 18446744073709551615 := by
  by_cases h : a + b ≥ 18446744073709551616
  · simp only [Overflow.aws_add_u64_saturating, h, if_true]; omega
  · simp only [Overflow.aws_add_u64_saturating, h, if_false]
    rw [Nat.mod_eq_of_lt (by omega)]; omega

/-- seconds to a finer unit, exact or saturated -/
theorem conv_up_sat (x k : Nat) (hk : 0 < k) : convert x (1, k, false) = (min (k * x) 18446744073709551615, 0) := by
  have e1 : x / 1 = x := by omega
  have e2 : (x + 18446744073709551616 - x * 1 % 18446744073709551616) % 18446744073709551616 = 0 := by omega
  have c : ¬ ¬ (1 > 0 ∧ k > 0) := by omega
  simp only [convert, AwsVerif.Gen.Math.Clock.aws_timestamp_convert, AwsVerif.Gen.Math.Clock.aws_timestamp_convert_u64, c, if_false,
    Bool.false_eq_true, e1, e2]
  rw [gmul_sat x k, gmul_sat 0 k, gadd_sat]
  simp [Nat.mul_comm]

/-! ### generated formatter dispatch and format strings against the closed forms -/

/-- the six UTC formatter cases read `gmt_time` with "%a, %d %b %Y %H:%M:%S GMT", "%Y-%m-%dT%H:%M:%SZ",
"%Y%m%dT%H%M%SZ" and their date-only forms; AUTO_DETECT has no case -/
theorem formatTextGen_eq (tm : Tm) (f : Fmt) (short : Bool) : formatTextGen tm f short = formatText tm f short := by
  cases f <;> cases short <;>
    simp [formatTextGen, formatText, fmtIndex, strftime, strftimeConv, Gen.Date.utcStr, Gen.Date.utcShortStr,
      Gen.Date.AWS_DATE_FORMAT_RFC822, Gen.Date.AWS_DATE_FORMAT_ISO_8601, Gen.Date.AWS_DATE_FORMAT_ISO_8601_BASIC,
      Gen.Date.AWS_DATE_FORMAT_AUTO_DETECT, Gen.Date.rfc822MinusZ, Gen.Date.rfc822Short, Gen.Date.isoLong, Gen.Date.isoShort,
      Gen.Date.isoBasicLong, Gen.Date.isoBasicShort, List.find?, fmtRfc822, fmtRfc822Short, fmtClock, fmtIso, fmtIsoBody,
      fmtIsoBodySep, fmtIsoShort, fmtBasic, fmtBasicBody, fmtBasicBodySep, fmtBasicShort]

/-- the six local-time formatter cases read `local_time` with "%a, %d %b %Y %H:%M:%S %Z" (zone name last),
"%Y-%m-%dT%H:%M:%SZ", "%Y%m%dT%H%M%SZ" and the date-only forms -/
theorem formatLocalText_eq (z : Zone) (dt : DateTime) (f : Fmt) (short : Bool) :
    formatLocalText z dt f short =
      match f, short with
      | .rfc822, false => some (fmtRfc822Body (localtime z dt.timestamp) ++ z.name)
      | f, short => formatText (localtime z dt.timestamp) f short := by
  cases f <;> cases short <;>
    simp [formatLocalText, formatText, fmtIndex, strftimeLocal, strftimeConv, Gen.Date.localStr, Gen.Date.localShortStr,
      Gen.Date.AWS_DATE_FORMAT_RFC822, Gen.Date.AWS_DATE_FORMAT_ISO_8601, Gen.Date.AWS_DATE_FORMAT_ISO_8601_BASIC,
      Gen.Date.AWS_DATE_FORMAT_AUTO_DETECT, Gen.Date.rfc822WithZ, Gen.Date.rfc822Short, Gen.Date.isoLong, Gen.Date.isoShort,
      Gen.Date.isoBasicLong, Gen.Date.isoBasicShort, List.find?, fmtRfc822Body, fmtRfc822Short, fmtClock, fmtIso, fmtIsoBody,
      fmtIsoBodySep, fmtIsoShort, fmtBasic, fmtBasicBody, fmtBasicBodySep, fmtBasicShort]

/-- every month name the formatter emits is found by the (generated) compare chain with its own number -/
theorem monthTable_ok : ∀ m : Fin 12, monthNumber (monthName (m.val : Int) ++ [32]) = some m.val := by decide

theorem toU64_nonneg (x : Int) (h0 : 0 ≤ x) (h1 : x < 18446744073709551616) : toU64 x = x.toNat := by
  unfold toU64 u64; omega

end AwsVerif.Proofs.C19
