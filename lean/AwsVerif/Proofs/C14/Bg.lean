import AwsVerif.Model.Log
/-! Inductive invariants of the background-channel transition system `Log.Bg` (C14).

Four groups, each preserved by every step of every thread:
A  FIFO bookkeeping (`written ++ batch ++ pending = pushed`, destroyed lines), the consumer's local list is empty outside a batch
B  the mutex field agrees with the program counters (mutual exclusion)
C  per-sender sequence numbers: pushed lines of one sender are in increasing order, in-flight lines are fresh
D  finished flag vs clean-up progress, what the consumer knows when it exits (flush), clean-up returns only after the
   consumer is done, and no wake-up is lost -/
namespace AwsVerif.Proofs.C14
open AwsVerif.Log.Bg

def cBatchEmpty : CPc → Bool
  | .lock | .pred | .waiting | .woken | .read | .unlockEmpty _ | .exiting | .done => true
  | _ => false

def destroying : CPc → List Line
  | .destroy l => [l]
  | _ => []

structure InvA (s : Sys) : Prop where
  fifo : s.written ++ s.batch ++ s.pending = s.pushed
  dest : s.destroyed ++ destroying s.cons = s.written
  bEmpty : cBatchEmpty s.cons = true → s.batch = []

theorem invA_init : InvA Sys.init := ⟨rfl, rfl, fun _ => rfl⟩

theorem invA_step {s s' : Sys} {a : Act} (hi : InvA s) (h : step s a = some s') : InvA s' := by
  obtain ⟨fifo, dest, bEmpty⟩ := hi
  cases a with
  | startSend t =>
    simp only [step] at h
    split at h <;> simp only [Option.some.injEq, reduceCtorEq] at h
    subst h
    exact ⟨fifo, dest, bEmpty⟩
  | sender t =>
    simp only [step] at h
    split at h
    · simp at h
    · split at h <;> simp only [Option.some.injEq, reduceCtorEq] at h
      subst h; exact ⟨fifo, dest, bEmpty⟩
    · simp only [Option.some.injEq] at h; subst h
      exact ⟨by simp [setS, ← fifo], dest, bEmpty⟩
    · simp only [Option.some.injEq] at h; subst h
      refine ⟨fifo, ?_, ?_⟩
      · cases hc : s.cons <;> simp_all [setS, wake, destroying]
      · cases hc : s.cons <;> simp_all [setS, wake, cBatchEmpty]
    · simp only [Option.some.injEq] at h; subst h
      exact ⟨fifo, dest, bEmpty⟩
  | consumer =>
    simp only [step] at h
    split at h
    all_goals (try split at h)
    all_goals (try simp only [Option.some.injEq, reduceCtorEq] at h)
    all_goals (try subst h)
    all_goals (refine ⟨?_, ?_, ?_⟩ <;> simp_all [destroying, cBatchEmpty])
  | spurious =>
    simp only [step] at h
    split at h <;> simp only [Option.some.injEq, reduceCtorEq] at h
    subst h
    refine ⟨?_, ?_, ?_⟩ <;> simp_all [destroying, cBatchEmpty]
  | startClean =>
    simp only [step] at h
    split at h <;> simp only [Option.some.injEq, reduceCtorEq] at h
    subst h
    exact ⟨fifo, dest, bEmpty⟩
  | cleaner =>
    simp only [step] at h
    split at h
    all_goals (try split at h)
    all_goals (try simp only [Option.some.injEq, reduceCtorEq] at h)
    all_goals (try subst h)
    all_goals (first | exact ⟨fifo, dest, bEmpty⟩ | skip)
    · refine ⟨fifo, ?_, ?_⟩
      · cases hc : s.cons <;> simp_all [wake, destroying]
      · cases hc : s.cons <;> simp_all [wake, cBatchEmpty]

def sHolds : SPc → Bool | .push _ | .notify _ | .unlock _ => true | _ => false
def cHolds : CPc → Bool | .pred | .read | .unlockEmpty _ | .unlockBatch => true | _ => false
def kHolds : KPc → Bool | .setFin | .notify | .unlock => true | _ => false

structure InvB (s : Sys) : Prop where
  mS : ∀ t, sHolds (s.senders t) = true ↔ s.mutex = some (.sender t)
  mC : cHolds s.cons = true ↔ s.mutex = some .consumer
  mK : kHolds s.clean = true ↔ s.mutex = some .cleaner

theorem invB_init : InvB Sys.init := ⟨by simp [Sys.init, sHolds], by simp [Sys.init, cHolds], by simp [Sys.init, kHolds]⟩

theorem wake_holds (c : CPc) : cHolds (wake c) = cHolds c := by cases c <;> rfl

theorem invB_step {s s' : Sys} {a : Act} (hi : InvB s) (h : step s a = some s') : InvB s' := by
  obtain ⟨mS, mC, mK⟩ := hi
  cases a with
  | startSend t =>
    simp only [step] at h
    split at h <;> simp only [Option.some.injEq, reduceCtorEq] at h
    subst h
    refine ⟨?_, mC, mK⟩
    intro i; have hi := mS i
    by_cases hit : i = t <;> simp_all [sHolds, setS]
  | sender t =>
    have ht := mS t
    simp only [step] at h
    split at h
    all_goals (try split at h)
    all_goals (try simp only [Option.some.injEq, reduceCtorEq] at h)
    all_goals (try subst h)
    all_goals (refine ⟨?_, ?_, ?_⟩)
    all_goals (try (intro i; have hi := mS i; by_cases hit : i = t))
    all_goals simp_all [sHolds, setS, wake_holds]
    all_goals (exact fun h => hit h.symm)
  | consumer =>
    simp only [step] at h
    split at h
    all_goals (try split at h)
    all_goals (try simp only [Option.some.injEq, reduceCtorEq] at h)
    all_goals (try subst h)
    all_goals (refine ⟨?_, ?_, ?_⟩)
    all_goals simp_all [cHolds]
  | spurious =>
    simp only [step] at h
    split at h <;> simp only [Option.some.injEq, reduceCtorEq] at h
    subst h
    refine ⟨mS, ?_, mK⟩
    simp_all [cHolds]
  | startClean =>
    simp only [step] at h
    split at h <;> simp only [Option.some.injEq, reduceCtorEq] at h
    subst h
    refine ⟨mS, mC, ?_⟩
    simp_all [kHolds]
  | cleaner =>
    simp only [step] at h
    split at h
    all_goals (try split at h)
    all_goals (try simp only [Option.some.injEq, reduceCtorEq] at h)
    all_goals (try subst h)
    all_goals (refine ⟨?_, ?_, ?_⟩)
    all_goals simp_all [kHolds, wake_holds]

def np (s : Sys) (t : Nat) : Nat :=
  match s.senders t with
  | .lock _ => s.count t - 1
  | .push _ => s.count t - 1
  | _ => s.count t

def SameOrd (a b : Line) : Prop := a.1 = b.1 → a.2 < b.2

structure InvC (s : Sys) : Prop where
  ord : s.pushed.Pairwise SameOrd
  bound : ∀ l ∈ s.pushed, l.2 < np s l.1
  inflight : ∀ t l, (s.senders t = .lock l ∨ s.senders t = .push l) → l = (t, s.count t - 1) ∧ 0 < s.count t
  inPushed : ∀ t l, (s.senders t = .notify l ∨ s.senders t = .unlock l) → l ∈ s.pushed
  comp : ∀ l ∈ s.completed, l ∈ s.pushed
  cac : ∀ l ∈ s.completedAtClean, l ∈ s.pushed

theorem invC_init : InvC Sys.init := by
  refine ⟨?_, ?_, ?_, ?_, ?_, ?_⟩ <;> simp [Sys.init]

/-- steps that leave the senders' state, the counters and the ghost lists of InvC alone -/
theorem invC_frame {s s' : Sys} (hi : InvC s) (h1 : s'.senders = s.senders) (h2 : s'.count = s.count)
    (h3 : s'.pushed = s.pushed) (h4 : s'.completed = s.completed) (h5 : s'.completedAtClean = s.completedAtClean) : InvC s' := by
  obtain ⟨ord, bound, inflight, inPushed, comp, cac⟩ := hi
  refine ⟨by rw [h3]; exact ord, ?_, ?_, ?_, by rw [h3, h4]; exact comp, by rw [h3, h5]; exact cac⟩
  · intro l hl; rw [h3] at hl; have := bound l hl; simpa [np, h1, h2] using this
  · intro t l; rw [h1, h2]; exact inflight t l
  · intro t l; rw [h1, h3]; exact inPushed t l

theorem invC_step {s s' : Sys} {a : Act} (hi : InvC s) (h : step s a = some s') : InvC s' := by
  cases a with
  | startSend t =>
    obtain ⟨ord, bound, inflight, inPushed, comp, cac⟩ := hi
    simp only [step] at h
    split at h <;> simp only [Option.some.injEq, reduceCtorEq] at h
    next hidle =>
    subst h
    refine ⟨ord, ?_, ?_, ?_, comp, cac⟩
    · intro l hl
      have := bound l hl
      by_cases hlt : l.1 = t
      · simp only [np, setS, hlt, if_true] at this ⊢
        rw [hidle] at this
        simpa using this
      · simpa [np, setS, hlt] using this
    · intro i l hil
      by_cases hit : i = t
      · subst hit
        simp [setS] at hil ⊢
        exact hil.symm
      · simp only [setS, hit, if_false] at hil ⊢
        exact inflight i l hil
    · intro i l hil
      by_cases hit : i = t
      · subst hit; simp [setS] at hil
      · simp only [setS, hit, if_false] at hil ⊢
        exact inPushed i l hil
  | sender t =>
    obtain ⟨ord, bound, inflight, inPushed, comp, cac⟩ := hi
    simp only [step] at h
    split at h
    · simp at h
    · next l hpc =>
      split at h <;> simp only [Option.some.injEq, reduceCtorEq] at h
      subst h
      refine ⟨ord, ?_, ?_, ?_, comp, cac⟩
      · intro l' hl'
        have := bound l' hl'
        by_cases hlt : l'.1 = t
        · simp only [np, setS, hlt, if_true] at this ⊢
          rw [hpc] at this
          simpa using this
        · simpa [np, setS, hlt] using this
      · intro i l' hil
        by_cases hit : i = t
        · subst hit
          simp [setS] at hil ⊢
          subst hil
          exact inflight i l (Or.inl hpc)
        · simp only [setS, hit, if_false] at hil ⊢
          exact inflight i l' hil
      · intro i l' hil
        by_cases hit : i = t
        · subst hit; simp [setS] at hil
        · simp only [setS, hit, if_false] at hil ⊢
          exact inPushed i l' hil
    · next l hpc =>
      simp only [Option.some.injEq] at h
      subst h
      obtain ⟨hl, hcnt⟩ := inflight t l (Or.inr hpc)
      have hb : ∀ a ∈ s.pushed, a.1 = t → a.2 < s.count t - 1 := by
        intro a ha hat
        have := bound a ha
        simp only [np, hat] at this
        rw [hpc] at this
        simpa using this
      refine ⟨?_, ?_, ?_, ?_, ?_, ?_⟩
      · show (s.pushed ++ [l]).Pairwise SameOrd
        rw [List.pairwise_append]
        refine ⟨ord, by simp, ?_⟩
        intro a ha b hb'
        simp only [List.mem_singleton] at hb'
        subst hb'
        intro hab
        rw [hl] at hab ⊢
        exact hb a ha hab
      · intro l' hl'
        show l'.2 < np _ l'.1
        simp only [List.mem_append, List.mem_singleton] at hl'
        by_cases hlt : l'.1 = t
        · simp only [np, setS, hlt, if_true]
          rcases hl' with h | h
          · have := hb l' h hlt; omega
          · subst h; rw [hl]; simp; omega
        · rcases hl' with h | h
          · have := bound l' h
            simpa [np, setS, hlt] using this
          · subst h; rw [hl] at hlt; exact absurd rfl hlt
      · intro i l' hil
        by_cases hit : i = t
        · subst hit; simp [setS] at hil
        · simp only [setS, hit, if_false] at hil ⊢
          exact inflight i l' hil
      · intro i l' hil
        show l' ∈ s.pushed ++ [l]
        by_cases hit : i = t
        · subst hit
          simp [setS] at hil
          subst hil
          simp
        · simp only [setS, hit, if_false] at hil
          exact List.mem_append_left _ (inPushed i l' hil)
      · intro l' hl'; exact List.mem_append_left _ (comp l' hl')
      · intro l' hl'; exact List.mem_append_left _ (cac l' hl')
    · next l hpc =>
      simp only [Option.some.injEq] at h
      subst h
      refine ⟨ord, ?_, ?_, ?_, comp, cac⟩
      · intro l' hl'
        have := bound l' hl'
        by_cases hlt : l'.1 = t
        · simp only [np, setS, hlt, if_true] at this ⊢
          rw [hpc] at this
          simpa using this
        · simpa [np, setS, hlt] using this
      · intro i l' hil
        by_cases hit : i = t
        · subst hit; simp [setS] at hil
        · simp only [setS, hit, if_false] at hil ⊢
          exact inflight i l' hil
      · intro i l' hil
        by_cases hit : i = t
        · subst hit
          simp [setS] at hil
          subst hil
          exact inPushed i l (Or.inl hpc)
        · simp only [setS, hit, if_false] at hil ⊢
          exact inPushed i l' hil
    · next l hpc =>
      simp only [Option.some.injEq] at h
      subst h
      refine ⟨ord, ?_, ?_, ?_, ?_, cac⟩
      · intro l' hl'
        have := bound l' hl'
        by_cases hlt : l'.1 = t
        · simp only [np, setS, hlt, if_true] at this ⊢
          rw [hpc] at this
          simpa using this
        · simpa [np, setS, hlt] using this
      · intro i l' hil
        by_cases hit : i = t
        · subst hit; simp [setS] at hil
        · simp only [setS, hit, if_false] at hil ⊢
          exact inflight i l' hil
      · intro i l' hil
        by_cases hit : i = t
        · subst hit; simp [setS] at hil
        · simp only [setS, hit, if_false] at hil ⊢
          exact inPushed i l' hil
      · intro l' hl'
        simp only [List.mem_append, List.mem_singleton] at hl'
        rcases hl' with h | h
        · exact comp l' h
        · subst h; exact inPushed t l' (Or.inr hpc)
  | consumer =>
    simp only [step] at h
    split at h
    all_goals (try split at h)
    all_goals (try simp only [Option.some.injEq, reduceCtorEq] at h)
    all_goals (try subst h)
    all_goals (exact invC_frame hi rfl rfl rfl rfl rfl)
  | spurious =>
    simp only [step] at h
    split at h <;> simp only [Option.some.injEq, reduceCtorEq] at h
    subst h
    exact invC_frame hi rfl rfl rfl rfl rfl
  | startClean =>
    simp only [step] at h
    split at h <;> simp only [Option.some.injEq, reduceCtorEq] at h
    subst h
    obtain ⟨ord, bound, inflight, inPushed, comp, cac⟩ := hi
    exact ⟨ord, bound, inflight, inPushed, comp, comp⟩
  | cleaner =>
    simp only [step] at h
    split at h
    all_goals (try split at h)
    all_goals (try simp only [Option.some.injEq, reduceCtorEq] at h)
    all_goals (try subst h)
    all_goals (exact invC_frame hi rfl rfl rfl rfl rfl)

def kPastFin : KPc → Bool | .notify | .unlock | .join | .returned => true | _ => false
def cExited : CPc → Bool
  | .unlockEmpty b => b
  | .exiting => true
  | .done => true
  | .lock => false
  | .pred => false
  | .waiting => false
  | .woken => false
  | .read => false
  | .unlockBatch => false
  | .write => false
  | .destroy _ => false

structure InvD (s : Sys) : Prop where
  fin : s.finished = kPastFin s.clean
  exited : cExited s.cons = true → s.finished = true ∧ ∀ l ∈ s.completedAtClean, l ∈ s.written
  ret : s.clean = .returned → s.cons = .done
  nlw : s.cons = .waiting → (s.finished = false ∧ s.pending = []) ∨ (∃ t l, s.senders t = .notify l) ∨ s.clean = .notify

theorem invD_init : InvD Sys.init := by
  refine ⟨?_, ?_, ?_, ?_⟩ <;> simp [Sys.init, kPastFin, cExited]

theorem wake_exited (c : CPc) : cExited (wake c) = cExited c := by cases c <;> rfl
theorem wake_ne_waiting (c : CPc) : wake c ≠ .waiting := by cases c <;> simp [wake]
theorem wake_done (c : CPc) : wake c = .done ↔ c = .done := by cases c <;> simp [wake]

theorem invD_step {s s' : Sys} {a : Act} (hi : InvD s) (hA : InvA s) (hcac : ∀ l ∈ s.completedAtClean, l ∈ s.pushed)
    (h : step s a = some s') : InvD s' := by
  obtain ⟨fin, exited, ret, nlw⟩ := hi
  cases a with
  | startSend t =>
    simp only [step] at h
    split at h <;> simp only [Option.some.injEq, reduceCtorEq] at h
    next hidle =>
    subst h
    refine ⟨fin, exited, ret, ?_⟩
    intro hw
    rcases nlw hw with h | ⟨t', l, h⟩ | h
    · exact Or.inl h
    · refine Or.inr (Or.inl ⟨t', l, ?_⟩)
      have : t' ≠ t := by intro e; subst e; rw [hidle] at h; cases h
      simp [setS, this, h]
    · exact Or.inr (Or.inr h)
  | sender t =>
    simp only [step] at h
    split at h
    · simp at h
    · next l hpc =>
      split at h <;> simp only [Option.some.injEq, reduceCtorEq] at h
      subst h
      refine ⟨fin, exited, ret, ?_⟩
      intro hw
      rcases nlw hw with h | ⟨t', l', h⟩ | h
      · exact Or.inl h
      · refine Or.inr (Or.inl ⟨t', l', ?_⟩)
        have : t' ≠ t := by intro e; subst e; rw [hpc] at h; cases h
        simp [setS, this, h]
      · exact Or.inr (Or.inr h)
    · next l hpc =>
      simp only [Option.some.injEq] at h
      subst h
      refine ⟨fin, exited, ret, ?_⟩
      intro _
      exact Or.inr (Or.inl ⟨t, l, by simp [setS]⟩)
    · next l hpc =>
      simp only [Option.some.injEq] at h
      subst h
      refine ⟨fin, ?_, ?_, ?_⟩
      · simpa [wake_exited, setS] using exited
      · intro hr; simpa [wake_done] using ret hr
      · intro hw; exact absurd hw (wake_ne_waiting _)
    · next l hpc =>
      simp only [Option.some.injEq] at h
      subst h
      refine ⟨fin, exited, ret, ?_⟩
      intro hw
      rcases nlw hw with h | ⟨t', l', h⟩ | h
      · exact Or.inl h
      · refine Or.inr (Or.inl ⟨t', l', ?_⟩)
        have : t' ≠ t := by intro e; subst e; rw [hpc] at h; cases h
        simp [setS, this, h]
      · exact Or.inr (Or.inr h)
  | consumer =>
    obtain ⟨fifo, _, bEmpty⟩ := hA
    simp only [step] at h
    split at h
    all_goals (try split at h)
    all_goals (try simp only [Option.some.injEq, reduceCtorEq] at h)
    all_goals (try subst h)
    all_goals (refine ⟨?_, ?_, ?_, ?_⟩)
    all_goals simp_all [cExited, cBatchEmpty]
  | spurious =>
    simp only [step] at h
    split at h <;> simp only [Option.some.injEq, reduceCtorEq] at h
    subst h
    refine ⟨?_, ?_, ?_, ?_⟩ <;> simp_all [cExited]
  | startClean =>
    simp only [step] at h
    split at h <;> simp only [Option.some.injEq, reduceCtorEq] at h
    subst h
    refine ⟨?_, ?_, ?_, ?_⟩ <;> simp_all [cExited, kPastFin]
  | cleaner =>
    simp only [step] at h
    split at h
    all_goals (try split at h)
    all_goals (try simp only [Option.some.injEq, reduceCtorEq] at h)
    all_goals (try subst h)
    all_goals (refine ⟨?_, ?_, ?_, ?_⟩)
    all_goals (first
      | (simp_all [cExited, kPastFin, wake_ne_waiting, wake_done]; done)
      | (cases hc : s.cons <;> simp_all [wake, cExited, kPastFin]))

/-! ### all invariants together, on every reachable state -/

structure Inv (s : Sys) : Prop where
  a : InvA s
  b : InvB s
  c : InvC s
  d : InvD s

theorem inv_reachable {s : Sys} (hr : Reachable s) : Inv s := by
  induction hr with
  | init => exact ⟨invA_init, invB_init, invC_init, invD_init⟩
  | step _ h ih =>
    exact ⟨invA_step ih.a h, invB_step ih.b h, invC_step ih.c h, invD_step ih.d ih.a ih.c.cac h⟩

theorem reachable_runActs {s s' : Sys} (hr : Reachable s) (as : List Act) (h : runActs s as = some s') : Reachable s' := by
  induction as generalizing s with
  | nil => simp [runActs] at h; subst h; exact hr
  | cons a as ih =>
    simp only [runActs] at h
    cases hs : step s a with
    | none => simp [hs] at h
    | some s1 =>
      rw [hs] at h
      exact ih (Reachable.step hr hs) h

theorem sameOrd_nodup {l : List Line} (h : l.Pairwise SameOrd) : l.Nodup := by
  refine List.Pairwise.imp ?_ h
  intro a b hab e
  subst e
  exact Nat.lt_irrefl _ (hab rfl)

/-- steps that do not belong to the consumer leave the writer's and the destructor's logs alone -/
theorem step_logs_of_consumer_done {s s' : Sys} {a : Act} (hd : s.cons = .done) (h : step s a = some s') :
    s'.written = s.written ∧ s'.destroyed = s.destroyed := by
  cases a with
  | startSend t =>
    simp only [step] at h
    split at h <;> simp only [Option.some.injEq, reduceCtorEq] at h
    subst h; exact ⟨rfl, rfl⟩
  | sender t =>
    simp only [step] at h
    split at h
    all_goals (try split at h)
    all_goals (try simp only [Option.some.injEq, reduceCtorEq] at h)
    all_goals (try subst h)
    all_goals (first | exact ⟨rfl, rfl⟩ | skip)
  | consumer =>
    simp only [step, hd] at h
    cases h
  | spurious =>
    simp only [step, hd] at h
    cases h
  | startClean =>
    simp only [step] at h
    split at h <;> simp only [Option.some.injEq, reduceCtorEq] at h
    subst h; exact ⟨rfl, rfl⟩
  | cleaner =>
    simp only [step] at h
    split at h
    all_goals (try split at h)
    all_goals (try simp only [Option.some.injEq, reduceCtorEq] at h)
    all_goals (try subst h)
    all_goals (first | exact ⟨rfl, rfl⟩ | skip)

/-- some thread can take a step whenever a send or the clean-up is in progress -/
theorem progress {s : Sys} (hi : Inv s)
    (hm : (∃ t, s.senders t ≠ .idle) ∨ (s.clean ≠ .idle ∧ s.clean ≠ .returned)) :
    ∃ a, a.isThreadStep = true ∧ (step s a).isSome = true := by
  obtain ⟨_, ⟨mS, mC, mK⟩, _, ⟨fin, _, _, nlw⟩⟩ := hi
  -- the owner of the mutex can always continue
  cases hmx : s.mutex with
  | some o =>
    cases o with
    | sender t =>
      have := (mS t).mpr hmx
      cases hpc : s.senders t <;> simp [hpc, sHolds] at this
      · exact ⟨.sender t, rfl, by simp [step, hpc]⟩
      · exact ⟨.sender t, rfl, by simp [step, hpc]⟩
      · exact ⟨.sender t, rfl, by simp [step, hpc]⟩
    | consumer =>
      have := mC.mpr hmx
      cases hpc : s.cons <;> simp [hpc, cHolds] at this
      · by_cases hp : s.finished = true ∨ s.pending ≠ []
        · exact ⟨.consumer, rfl, by simp only [step, hpc, if_pos hp, Option.isSome]⟩
        · exact ⟨.consumer, rfl, by simp only [step, hpc, if_neg hp, Option.isSome]⟩
      · cases hpend : s.pending with
        | nil => exact ⟨.consumer, rfl, by simp [step, hpc, hpend]⟩
        | cons l ls => exact ⟨.consumer, rfl, by simp [step, hpc, hpend]⟩
      · exact ⟨.consumer, rfl, by simp [step, hpc]⟩
      · exact ⟨.consumer, rfl, by simp [step, hpc]⟩
    | cleaner =>
      have := mK.mpr hmx
      cases hpc : s.clean <;> simp [hpc, kHolds] at this
      · exact ⟨.cleaner, rfl, by simp [step, hpc]⟩
      · exact ⟨.cleaner, rfl, by simp [step, hpc]⟩
      · exact ⟨.cleaner, rfl, by simp [step, hpc]⟩
  | none =>
    have noS : ∀ t, sHolds (s.senders t) = false := by
      intro t
      cases hh : sHolds (s.senders t) with
      | false => rfl
      | true => have := (mS t).mp hh; rw [hmx] at this; cases this
    have noK : kHolds s.clean = false := by
      cases hh : kHolds s.clean with
      | false => rfl
      | true => have := mK.mp hh; rw [hmx] at this; cases this
    have noC : cHolds s.cons = false := by
      cases hh : cHolds s.cons with
      | false => rfl
      | true => have := mC.mp hh; rw [hmx] at this; cases this
    rcases hm with ⟨t, ht⟩ | ⟨hk1, hk2⟩
    · have := noS t
      cases hpc : s.senders t <;> simp [hpc, sHolds] at this ht
      exact ⟨.sender t, rfl, by simp [step, hpc, hmx]⟩
    · cases hk : s.clean <;> simp [hk, kHolds] at noK hk1 hk2
      · exact ⟨.cleaner, rfl, by simp [step, hk, hmx]⟩
      · -- clean-up is joining: the consumer has something to do, or has exited
        have hfin : s.finished = true := by rw [fin, hk]; rfl
        cases hc : s.cons <;> simp [hc, cHolds] at noC
        · exact ⟨.consumer, rfl, by simp [step, hc, hmx]⟩
        · rcases nlw hc with ⟨h, _⟩ | ⟨t, l, h⟩ | h
          · rw [hfin] at h; cases h
          · have := noS t; simp [h, sHolds] at this
          · rw [hk] at h; cases h
        · exact ⟨.consumer, rfl, by simp [step, hc, hmx]⟩
        · cases hb : s.batch with
          | nil => exact ⟨.consumer, rfl, by simp [step, hc, hb]⟩
          | cons l ls => exact ⟨.consumer, rfl, by simp [step, hc, hb]⟩
        · exact ⟨.consumer, rfl, by simp [step, hc]⟩
        · exact ⟨.consumer, rfl, by simp [step, hc]⟩
        · exact ⟨.cleaner, rfl, by simp [step, hk, hc]⟩

end AwsVerif.Proofs.C14
