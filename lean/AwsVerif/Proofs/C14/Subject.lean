import AwsVerif.Model.Log
/-! The generated integer skeleton of `s_get_log_subject_info_by_id` in closed form (C14). -/
namespace AwsVerif.Proofs.C14
open AwsVerif.Log AwsVerif.Gen.Log

theorem subject_slot_eq (s : Nat) : s_subject_slot s = s / 2 ^ AWS_LOG_SUBJECT_STRIDE_BITS := by
  simp [s_subject_slot, AWS_LOG_SUBJECT_STRIDE_BITS, Nat.shiftRight_eq_div_pow]
theorem subject_index_eq (s : Nat) : s_subject_index s = s % 2 ^ AWS_LOG_SUBJECT_STRIDE_BITS := by
  have : (1023 : Nat) = 2 ^ 10 - 1 := by decide
  simp only [s_subject_index, AWS_LOG_SUBJECT_STRIDE_BITS]
  rw [this, Nat.and_two_pow_sub_one_eq_mod]
theorem subject_too_big_iff (s : Nat) :
    s_subject_too_big s = true ↔ ¬ s < 2 ^ AWS_LOG_SUBJECT_STRIDE_BITS * AWS_PACKAGE_SLOTS := by
  simp [s_subject_too_big, AWS_LOG_SUBJECT_STRIDE_BITS, AWS_PACKAGE_SLOTS]; omega
theorem subject_rejected_iff (i c : Nat) : s_subject_index_rejected i c = true ↔ ¬ i < c := by
  simp [s_subject_index_rejected]

/-- what the lookup returns, for every slot table and every id -/
theorem subjectLookup_spec (slots : Slots) (subject : Nat) :
    (∀ i c, subjectLookup slots subject ≠ .oob i c) ∧
    (∀ n, subjectLookup slots subject = .entry n ↔
      subject < 2 ^ AWS_LOG_SUBJECT_STRIDE_BITS * AWS_PACKAGE_SLOTS ∧
      ∃ names, slots (subject / 2 ^ AWS_LOG_SUBJECT_STRIDE_BITS) = some names ∧
        subject % 2 ^ AWS_LOG_SUBJECT_STRIDE_BITS < names.length ∧
        names[subject % 2 ^ AWS_LOG_SUBJECT_STRIDE_BITS]? = some n) := by
  unfold subjectLookup
  by_cases hb : s_subject_too_big subject = true
  · have := (subject_too_big_iff subject).mp hb
    simp [hb]; intro n h; exact absurd h this
  · have hlt : subject < 2 ^ AWS_LOG_SUBJECT_STRIDE_BITS * AWS_PACKAGE_SLOTS := by
      by_cases h : subject < 2 ^ AWS_LOG_SUBJECT_STRIDE_BITS * AWS_PACKAGE_SLOTS
      · exact h
      · exact absurd ((subject_too_big_iff subject).mpr h) hb
    simp only [hb, Bool.false_eq_true, if_false]
    rw [subject_slot_eq, subject_index_eq]
    cases hs : slots (subject / 2 ^ AWS_LOG_SUBJECT_STRIDE_BITS) with
    | none => simp
    | some names =>
      by_cases hr : s_subject_index_rejected (subject % 2 ^ AWS_LOG_SUBJECT_STRIDE_BITS) names.length = true
      · have := (subject_rejected_iff _ _).mp hr
        simp only [hr, if_true]
        refine ⟨(by intro i c h; cases h), ?_⟩
        intro n; constructor
        · intro h; cases h
        · rintro ⟨_, nm, h1, h2, _⟩; cases h1; exact absurd h2 this
      · have hin : subject % 2 ^ AWS_LOG_SUBJECT_STRIDE_BITS < names.length := by
          by_cases h : subject % 2 ^ AWS_LOG_SUBJECT_STRIDE_BITS < names.length
          · exact h
          · exact absurd ((subject_rejected_iff _ _).mpr h) hr
        simp only [hr, Bool.false_eq_true, if_false]
        rw [List.getElem?_eq_getElem hin]
        refine ⟨(by intro i c h; cases h), ?_⟩
        intro n; constructor
        · intro h; cases h; exact ⟨hlt, names, rfl, hin, List.getElem?_eq_getElem hin⟩
        · rintro ⟨_, nm, h1, _, h3⟩
          cases h1
          rw [List.getElem?_eq_getElem hin] at h3
          cases h3; rfl

end AwsVerif.Proofs.C14
