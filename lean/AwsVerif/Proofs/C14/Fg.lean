import AwsVerif.Model.Log
import AwsVerif.Proofs.C14.Bg
/-! Inductive invariant of the foreground-channel transition system `Log.Fg` (C14). -/
namespace AwsVerif.Proofs.C14
open AwsVerif.Log

def fHolds : Fg.Pc → Bool
  | .writeBegin _ => true
  | .writeEnd _ => true
  | .unlock _ => true
  | .idle => false
  | .lock _ => false
  | .destroy _ => false

def fInW : Fg.Pc → List Fg.Line
  | .writeEnd l => [l]
  | _ => []

/-- the line a thread is carrying through `send` -/
def fLine : Fg.Pc → Option Fg.Line
  | .idle => none
  | .lock l => some l
  | .writeBegin l => some l
  | .writeEnd l => some l
  | .unlock l => some l
  | .destroy l => some l

/-- has the carried line been written already -/
def fWritten : Fg.Pc → Bool
  | .unlock _ => true
  | .destroy _ => true
  | _ => false

/-- the carried line has not been handed to the writer yet -/
def fPre : Fg.Pc → Bool
  | .lock _ => true
  | .writeBegin _ => true
  | .writeEnd _ => true
  | _ => false

structure FInv (s : Fg.Sys) : Prop where
  mx : ∀ t, fHolds (s.pcs t) = true ↔ s.mutex = some t
  iw : s.inWriter = [] ∨ ∃ t l, s.mutex = some t ∧ s.pcs t = .writeEnd l ∧ s.inWriter = [l]
  carried : ∀ t l, fLine (s.pcs t) = some l → l = (t, s.count t - 1) ∧ 0 < s.count t
  wOrd : s.written.Pairwise SameOrd
  wBound : ∀ l ∈ s.written, l.2 < s.count l.1 ∧ (l.2 = s.count l.1 - 1 → fPre (s.pcs l.1) = false)
  wCarried : ∀ t l, fLine (s.pcs t) = some l → fWritten (s.pcs t) = true → l ∈ s.written
  dOrd : s.destroyed.Pairwise SameOrd
  dBound : ∀ l ∈ s.destroyed, l ∈ s.written ∧ (l.2 = s.count l.1 - 1 → s.pcs l.1 = .idle)
  wDone : ∀ l ∈ s.written, l ∈ s.destroyed ∨ (fLine (s.pcs l.1) = some l)

theorem finv_init : FInv Fg.Sys.init := by
  refine ⟨?_, ?_, ?_, ?_, ?_, ?_, ?_, ?_, ?_⟩ <;> simp [Fg.Sys.init, fHolds, fLine]


/-- a step of thread `t` that keeps the line it carries and whether that line is written, and touches neither
the logs nor the counters: everything but the mutex / in-writer bookkeeping carries over -/
theorem finv_pc_frame {s : Fg.Sys} (hi : FInv s) (t : Nat) (pc' : Fg.Pc) (m : Option Nat) (w : List Fg.Line)
    (hline : fLine pc' = fLine (s.pcs t)) (hwr : fWritten pc' = fWritten (s.pcs t))
    (hpre : fPre pc' = fPre (s.pcs t)) (hact : s.pcs t ≠ .idle)
    (hmx : ∀ i, fHolds (if i = t then pc' else s.pcs i) = true ↔ m = some i)
    (hiw : w = [] ∨ ∃ u l, m = some u ∧ (if u = t then pc' else s.pcs u) = .writeEnd l ∧ w = [l]) :
    FInv { (Fg.setPc s t pc') with mutex := m, inWriter := w } := by
  obtain ⟨mx, iw, carried, wOrd, wBound, wCarried, dOrd, dBound, wDone⟩ := hi
  refine ⟨hmx, hiw, ?_, wOrd, ?_, ?_, dOrd, ?_, ?_⟩
  · intro i l hil
    by_cases hit : i = t
    · subst hit; simp only [Fg.setPc, if_true] at hil ⊢; rw [hline] at hil; exact carried i l hil
    · simp only [Fg.setPc, hit, if_false] at hil ⊢; exact carried i l hil
  · intro l hl
    obtain ⟨h1, h2⟩ := wBound l hl
    refine ⟨h1, ?_⟩
    by_cases hlt : l.1 = t
    · simp only [Fg.setPc, hlt, if_true]; rw [hpre, ← hlt]; exact h2
    · simpa [Fg.setPc, hlt] using h2
  · intro i l hil hw
    by_cases hit : i = t
    · subst hit; simp only [Fg.setPc, if_true] at hil hw; rw [hline] at hil; rw [hwr] at hw; exact wCarried i l hil hw
    · simp only [Fg.setPc, hit, if_false] at hil hw; exact wCarried i l hil hw
  · intro l hl
    obtain ⟨h1, h2⟩ := dBound l hl
    refine ⟨h1, ?_⟩
    by_cases hlt : l.1 = t
    · intro e; have := h2 e; rw [hlt] at this; exact absurd this hact
    · simpa [Fg.setPc, hlt] using h2
  · intro l hl
    rcases wDone l hl with h | h
    · exact Or.inl h
    · right
      by_cases hlt : l.1 = t
      · simp only [Fg.setPc, hlt, if_true]; rw [hline, ← hlt]; exact h
      · simpa [Fg.setPc, hlt] using h

theorem finv_step {s s' : Fg.Sys} {a : Fg.Act} (hi : FInv s) (h : Fg.step s a = some s') : FInv s' := by
  obtain ⟨mx, iw, carried, wOrd, wBound, wCarried, dOrd, dBound, wDone⟩ := hi
  cases a with
  | startSend t =>
    simp only [Fg.step] at h
    split at h <;> simp only [Option.some.injEq, reduceCtorEq] at h
    next hidle =>
    subst h
    have hmt : s.mutex ≠ some t := by
      intro hm; have := (mx t).mpr hm; rw [hidle] at this; cases this
    refine ⟨?_, ?_, ?_, wOrd, ?_, ?_, dOrd, ?_, ?_⟩
    · intro i; have := mx i
      by_cases hit : i = t
      · subst hit; simp [Fg.setPc, fHolds]; exact hmt
      · simpa [Fg.setPc, hit] using this
    · rcases iw with h | ⟨u, l, h1, h2, h3⟩
      · exact Or.inl h
      · have : u ≠ t := by intro e; subst e; exact hmt h1
        exact Or.inr ⟨u, l, h1, by simp [Fg.setPc, this, h2], h3⟩
    · intro i l hil
      by_cases hit : i = t
      · subst hit; simp [Fg.setPc, fLine] at hil ⊢; exact hil.symm
      · simp only [Fg.setPc, hit, if_false] at hil ⊢; exact carried i l hil
    · intro l hl
      obtain ⟨h1, h2⟩ := wBound l hl
      by_cases hlt : l.1 = t
      · simp only [Fg.setPc, hlt, if_true]
        rw [hlt] at h1
        exact ⟨by omega, by intro e; omega⟩
      · simpa [Fg.setPc, hlt] using And.intro h1 h2
    · intro i l hil hw
      by_cases hit : i = t
      · subst hit; simp [Fg.setPc, fWritten] at hw
      · simp only [Fg.setPc, hit, if_false] at hil hw; exact wCarried i l hil hw
    · intro l hl
      obtain ⟨h1, h2⟩ := dBound l hl
      refine ⟨h1, ?_⟩
      by_cases hlt : l.1 = t
      · have := (wBound l h1).1
        rw [hlt] at this
        simp only [Fg.setPc, hlt, if_true]
        intro e; omega
      · simpa [Fg.setPc, hlt] using h2
    · intro l hl
      rcases wDone l hl with h | h
      · exact Or.inl h
      · by_cases hlt : l.1 = t
        · rw [hlt, hidle] at h; cases h
        · right; simpa [Fg.setPc, hlt] using h
  | thread t =>
    have hmt := mx t
    simp only [Fg.step] at h
    split at h
    · simp at h
    · next l hpc =>
      split at h <;> simp only [Option.some.injEq, reduceCtorEq] at h
      next hfree =>
      subst h
      refine finv_pc_frame ⟨mx, iw, carried, wOrd, wBound, wCarried, dOrd, dBound, wDone⟩ t _ _ _
        (by rw [hpc]; rfl) (by rw [hpc]; rfl) (by rw [hpc]; rfl) (by rw [hpc]; simp) ?_ ?_
      · intro i; have := mx i
        by_cases hit : i = t
        · subst hit; simp [fHolds]
        · rw [hfree] at this; simp only [hit, if_false]; rw [this]; simp; exact fun e => hit e.symm
      · left
        rcases iw with h | ⟨u, l', h1, _, _⟩
        · exact h
        · rw [hfree] at h1; cases h1
    · next l hpc =>
      simp only [Option.some.injEq] at h
      subst h
      have hown : s.mutex = some t := hmt.mp (by rw [hpc]; rfl)
      have hempty : s.inWriter = [] := by
        rcases iw with h | ⟨u, l', h1, h2, _⟩
        · exact h
        · rw [hown] at h1; cases h1; rw [hpc] at h2; cases h2
      refine finv_pc_frame ⟨mx, iw, carried, wOrd, wBound, wCarried, dOrd, dBound, wDone⟩ t _ _ _
        (by rw [hpc]; rfl) (by rw [hpc]; rfl) (by rw [hpc]; rfl) (by rw [hpc]; simp) ?_ ?_
      · intro i; have := mx i
        by_cases hit : i = t
        · subst hit; simp [fHolds, Fg.setPc, hown]
        · simpa [hit, Fg.setPc] using this
      · right; exact ⟨t, l, by simp [Fg.setPc, hown], by simp, by rw [hempty]⟩
    · next l hpc =>
      simp only [Option.some.injEq] at h
      subst h
      have hown : s.mutex = some t := hmt.mp (by rw [hpc]; rfl)
      obtain ⟨hl, hcnt⟩ := carried t l (by rw [hpc]; rfl)
      have hlt1 : l.1 = t := by rw [hl]
      have hbelow : ∀ a ∈ s.written, a.1 = t → a.2 < s.count t - 1 := by
        intro a ha hat
        obtain ⟨h1, h2⟩ := wBound a ha
        rw [hat] at h1 h2
        have : a.2 ≠ s.count t - 1 := by
          intro e; have := h2 e; rw [hpc] at this; cases this
        omega
      refine ⟨?_, ?_, ?_, ?_, ?_, ?_, dOrd, ?_, ?_⟩
      · intro i; have := mx i
        by_cases hit : i = t
        · subst hit; simp [fHolds, Fg.setPc, hown]
        · simpa [hit, Fg.setPc] using this
      · left
        show s.inWriter.erase l = []
        rcases iw with h | ⟨u, l', h1, h2, h3⟩
        · rw [h]; rfl
        · rw [hown] at h1; cases h1; rw [hpc] at h2; cases h2; rw [h3]; simp
      · intro i l' hil
        by_cases hit : i = t
        · subst hit; simp only [Fg.setPc, if_true, fLine] at hil ⊢; cases hil; exact ⟨hl, hcnt⟩
        · simp only [Fg.setPc, hit, if_false] at hil ⊢; exact carried i l' hil
      · show (s.written ++ [l]).Pairwise SameOrd
        rw [List.pairwise_append]
        refine ⟨wOrd, by simp, ?_⟩
        intro a ha b hb
        simp only [List.mem_singleton] at hb
        subst hb
        intro hab
        rw [hlt1] at hab
        have := hbelow a ha hab
        rw [hl]; exact this
      · intro a ha
        show a.2 < s.count a.1 ∧ (a.2 = s.count a.1 - 1 → fPre ((Fg.setPc s t (.unlock l)).pcs a.1) = false)
        simp only [List.mem_append, List.mem_singleton] at ha
        by_cases hat : a.1 = t
        · simp only [Fg.setPc, hat, if_true, fPre]
          refine ⟨?_, fun _ => trivial⟩
          rcases ha with h | h
          · have := hbelow a h hat; omega
          · subst h; rw [hl]; simp; omega
        · rcases ha with h | h
          · simpa [Fg.setPc, hat] using wBound a h
          · subst h; exact absurd hlt1 hat
      · intro i l' hil hw
        show l' ∈ s.written ++ [l]
        by_cases hit : i = t
        · subst hit; simp only [Fg.setPc, if_true, fLine] at hil; cases hil; simp
        · simp only [Fg.setPc, hit, if_false] at hil hw; exact List.mem_append_left _ (wCarried i l' hil hw)
      · intro a ha
        obtain ⟨h1, h2⟩ := dBound a ha
        refine ⟨List.mem_append_left _ h1, ?_⟩
        by_cases hat : a.1 = t
        · intro e; have := h2 e; rw [hat, hpc] at this; cases this
        · simpa [Fg.setPc, hat] using h2
      · intro a ha
        show a ∈ s.destroyed ∨ fLine ((Fg.setPc s t (.unlock l)).pcs a.1) = some a
        simp only [List.mem_append, List.mem_singleton] at ha
        rcases ha with h | h
        · rcases wDone a h with h' | h'
          · exact Or.inl h'
          · right
            by_cases hat : a.1 = t
            · rw [hat, hpc] at h'; simp only [fLine] at h'; cases h'
              simp [Fg.setPc, hat, fLine]
            · simpa [Fg.setPc, hat] using h'
        · subst h; right; simp [Fg.setPc, hlt1, fLine]
    · next l hpc =>
      simp only [Option.some.injEq] at h
      subst h
      have hown : s.mutex = some t := hmt.mp (by rw [hpc]; rfl)
      refine finv_pc_frame ⟨mx, iw, carried, wOrd, wBound, wCarried, dOrd, dBound, wDone⟩ t _ _ _
        (by rw [hpc]; rfl) (by rw [hpc]; rfl) (by rw [hpc]; rfl) (by rw [hpc]; simp) ?_ ?_
      · intro i; have := mx i
        by_cases hit : i = t
        · subst hit; simp [fHolds]
        · rw [hown] at this; simp only [hit, if_false]; rw [this]; simp; exact fun e => hit e.symm
      · left
        rcases iw with h | ⟨u, l', h1, h2, _⟩
        · exact h
        · rw [hown] at h1; cases h1; rw [hpc] at h2; cases h2
    · next l hpc =>
      simp only [Option.some.injEq] at h
      subst h
      have hnown : s.mutex ≠ some t := by
        intro e; have := hmt.mpr e; rw [hpc] at this; cases this
      obtain ⟨hl, hcnt⟩ := carried t l (by rw [hpc]; rfl)
      have hlt1 : l.1 = t := by rw [hl]
      have hlw : l ∈ s.written := wCarried t l (by rw [hpc]; rfl) (by rw [hpc]; rfl)
      refine ⟨?_, ?_, ?_, wOrd, ?_, ?_, ?_, ?_, ?_⟩
      · intro i; have := mx i
        by_cases hit : i = t
        · subst hit; simp [fHolds, Fg.setPc]; exact hnown
        · simpa [hit, Fg.setPc] using this
      · rcases iw with h | ⟨u, l', h1, h2, h3⟩
        · exact Or.inl h
        · have : u ≠ t := by intro e; subst e; exact hnown h1
          exact Or.inr ⟨u, l', h1, by simp [Fg.setPc, this, h2], h3⟩
      · intro i l' hil
        by_cases hit : i = t
        · subst hit; simp [Fg.setPc, fLine] at hil
        · simp only [Fg.setPc, hit, if_false] at hil ⊢; exact carried i l' hil
      · intro a ha
        obtain ⟨h1, h2⟩ := wBound a ha
        refine ⟨h1, ?_⟩
        by_cases hat : a.1 = t
        · simp [Fg.setPc, hat, fPre]
        · simpa [Fg.setPc, hat] using h2
      · intro i l' hil hw
        by_cases hit : i = t
        · subst hit; simp [Fg.setPc, fLine] at hil
        · simp only [Fg.setPc, hit, if_false] at hil hw; exact wCarried i l' hil hw
      · show (s.destroyed ++ [l]).Pairwise SameOrd
        rw [List.pairwise_append]
        refine ⟨dOrd, by simp, ?_⟩
        intro a ha b hb
        simp only [List.mem_singleton] at hb
        subst hb
        intro hab
        rw [hlt1] at hab
        obtain ⟨h1, h2⟩ := dBound a ha
        have h3 := (wBound a h1).1
        rw [hab] at h2 h3
        have : a.2 ≠ s.count t - 1 := by
          intro e; have := h2 e; rw [hpc] at this; cases this
        rw [hl]; show a.2 < s.count t - 1; omega
      · intro a ha
        show a ∈ s.written ∧ (a.2 = s.count a.1 - 1 → (Fg.setPc s t .idle).pcs a.1 = .idle)
        simp only [List.mem_append, List.mem_singleton] at ha
        by_cases hat : a.1 = t
        · refine ⟨?_, by simp [Fg.setPc, hat]⟩
          rcases ha with h | h
          · exact (dBound a h).1
          · subst h; exact hlw
        · rcases ha with h | h
          · simpa [Fg.setPc, hat] using dBound a h
          · subst h; exact absurd hlt1 hat
      · intro a ha
        show a ∈ s.destroyed ++ [l] ∨ fLine ((Fg.setPc s t .idle).pcs a.1) = some a
        rcases wDone a ha with h' | h'
        · exact Or.inl (List.mem_append_left _ h')
        · by_cases hat : a.1 = t
          · rw [hat, hpc] at h'; simp only [fLine] at h'; cases h'
            left; simp
          · right; simpa [Fg.setPc, hat] using h'

theorem finv_reachable {s : Fg.Sys} (hr : Fg.Reachable s) : FInv s := by
  induction hr with
  | init => exact finv_init
  | step _ h ih => exact finv_step ih h

end AwsVerif.Proofs.C14
