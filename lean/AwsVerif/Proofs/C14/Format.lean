import AwsVerif.Model.Log
/-! Lemmas for C14 (formatter): the generated clamp in closed form, the `%s` expansions of the generated
format literals, and the buffer invariant carried through `aws_format_standard_log_line`. -/
namespace AwsVerif.Proofs.C14
open AwsVerif.Log AwsVerif.Gen.Log

/-- the generated `s_advance_and_clamp_index` on arguments in the C ranges -/
theorem clamp_eq (cur amt mx : Nat) (h1 : amt < 2147483648) (h2 : cur + amt < 18446744073709551616)
    (h3 : mx < 18446744073709551616) :
    s_advance_and_clamp_index cur amt mx = if cur + amt ≥ mx then (if mx > 0 then mx - 1 else 0) else cur + amt := by
  unfold s_advance_and_clamp_index
  simp only [h1, if_true]
  rw [Nat.mod_eq_of_lt h2]
  split
  · split
    · rw [show mx + 18446744073709551616 - 1 = (mx - 1) + 18446744073709551616 by omega]
      rw [Nat.add_mod_right, Nat.mod_eq_of_lt (by omega)]
    · rfl
  · rfl

/-- with a non-empty range the clamp is a minimum -/
theorem clamp_min (cur amt mx : Nat) (h1 : amt < 2147483648) (h2 : cur + amt < 18446744073709551616)
    (h3 : mx < 18446744073709551616) (h4 : 0 < mx) :
    s_advance_and_clamp_index cur amt mx = min (cur + amt) (mx - 1) := by
  rw [clamp_eq cur amt mx h1 h2 h3]
  by_cases h : cur + amt ≥ mx
  · rw [if_pos h, if_pos h4]; omega
  · rw [if_neg h]; omega

theorem subst_level (a : Bytes) : subst fmtLevel a = [91] ++ a ++ [93, 32, 91] := by
  simp [fmtLevel, subst]
theorem subst_thread (a : Bytes) : subst fmtThread a = [93, 32, 91] ++ a ++ [93, 32] := by
  simp [fmtThread, subst]
theorem subst_subject (a : Bytes) : subst fmtSubject a = [91] ++ a ++ [93] := by
  simp [fmtSubject, subst]
theorem newline_eq : fmtNewline = [10] := rfl
theorem separator_eq : fmtSeparator = [32, 45, 32] := rfl

/-- `wr` at the end of a known prefix -/
theorem wr_at_prefix (p tail s : Bytes) (h : s.length ≤ tail.length) :
    wr (p ++ tail) p.length s = .ok (p ++ s ++ tail.drop s.length) := by
  unfold wr
  have : p.length + s.length ≤ (p ++ tail).length := by simp; omega
  rw [if_pos this]
  simp [List.drop_append]

/-- Buffer invariant between two segments: the buffer (of `total` bytes) starts with the first
`total - 2` bytes of everything formatted so far, and `idx` is where that ends. -/
def BufInv (total : Nat) (buf : Bytes) (idx : Nat) (acc : Bytes) : Prop :=
  buf.length = total ∧ idx = (acc.take (total - 2)).length ∧ ∃ tail, buf = acc.take (total - 2) ++ tail

theorem segment_spec {total : Nat} {buf : Bytes} {idx : Nat} {acc : Bytes} (s : Bytes) (e : Err)
    (hT2 : 2 ≤ total) (hT : total < 9223372036854775808) (hs : s.length < 2147483648)
    (h : BufInv total buf idx acc) :
    ∃ buf' idx', segment buf idx (total - 1) s e = .ok (buf', idx') ∧ BufInv total buf' idx' (acc ++ s) := by
  obtain ⟨hlen, hidx, tail, hbuf⟩ := h
  have hidxle : idx ≤ total - 2 := by rw [hidx, List.length_take]; omega
  have hlt : idx < total - 1 := by omega
  have htail : tail.length = total - idx := by
    have := congrArg List.length hbuf
    simp [List.length_append] at this
    rw [List.length_take] at hidx
    omega
  -- the bytes snprintf stores
  have hn : total - 1 - idx ≠ 0 := by omega
  have hn1 : total - 1 - idx - 1 = total - 2 - idx := by omega
  let s' : Bytes := s.take (total - 2 - idx) ++ [0]
  have hs'len : s'.length ≤ tail.length := by
    simp only [s', List.length_append, List.length_take, List.length_singleton]; omega
  have hw := wr_at_prefix (acc.take (total - 2)) tail s' hs'len
  rw [← hidx, ← hbuf] at hw
  have hclamp := clamp_min idx s.length (total - 1) hs (by omega) (by omega) (by omega)
  refine ⟨acc.take (total - 2) ++ s' ++ tail.drop s'.length, s_advance_and_clamp_index idx s.length (total - 1), ?_, ?_⟩
  · unfold segment
    rw [if_pos hlt]
    unfold snprintf cint
    rw [if_neg hn, hn1, hw, if_pos hs]
    rfl
  · refine ⟨?_, ?_, ?_⟩
    · simp only [List.length_append, List.length_drop]
      rw [← hidx]; omega
    · rw [hclamp, List.length_take, List.length_append]
      rw [List.length_take] at hidx
      omega
    · refine ⟨0 :: tail.drop s'.length, ?_⟩
      rw [List.take_append]
      have : total - 2 - acc.length = total - 2 - idx := by
        rw [hidx, List.length_take]; omega
      rw [this]
      simp [s', List.append_assoc]

/-- the timestamp block either rejects (it does not fit behind what is there) or appends all of it -/
theorem timestamp_spec {total : Nat} {buf : Bytes} {idx : Nat} {acc : Bytes} (ts : Bytes)
    (hT2 : 2 ≤ total) (hT : total < 9223372036854775808) (hs : ts.length < 2147483648)
    (h : BufInv total buf idx acc) :
    if ts = [] ∨ total - 2 < acc.length + ts.length then
      timestamp buf idx (total - 1) ts = .error .invalidArgument
    else ∃ buf' idx', timestamp buf idx (total - 1) ts = .ok (buf', idx') ∧ BufInv total buf' idx' (acc ++ ts) := by
  obtain ⟨hlen, hidx, tail, hbuf⟩ := h
  have hidx' := hidx
  rw [List.length_take] at hidx'
  have hlt : idx < total - 1 := by omega
  have htail : tail.length = total - idx := by
    have := congrArg List.length hbuf
    simp [List.length_append] at this
    omega
  unfold timestamp
  rw [if_pos hlt]
  split
  · next hc =>
    have : ts.length = 0 ∨ total - 1 - idx < ts.length + 1 := by
      rcases hc with h | h
      · left; simp [h]
      · by_cases h0 : ts.length = 0
        · left; exact h0
        · right; omega
    rw [if_pos this]
  · next hc =>
    have hne : ts ≠ [] := fun h => hc (Or.inl h)
    have hpos : 0 < ts.length := List.length_pos_iff.mpr hne
    have hfit : acc.length + ts.length ≤ total - 2 := by
      have := fun h => hc (Or.inr h); omega
    have hacc : acc.take (total - 2) = acc := List.take_of_length_le (by omega)
    have hidxa : idx = acc.length := by omega
    have : ¬ (ts.length = 0 ∨ total - 1 - idx < ts.length + 1) := by omega
    rw [if_neg this]
    have hs'len : (ts ++ [0]).length ≤ tail.length := by simp; omega
    have hw := wr_at_prefix (acc.take (total - 2)) tail (ts ++ [0]) hs'len
    rw [← hidx, ← hbuf] at hw
    have hmod : ts.length % 4294967296 = ts.length := Nat.mod_eq_of_lt (by omega)
    have hclamp := clamp_min idx ts.length (total - 1) hs (by omega) (by omega) (by omega)
    refine ⟨acc.take (total - 2) ++ (ts ++ [0]) ++ tail.drop (ts ++ [0]).length, s_advance_and_clamp_index idx ts.length (total - 1), ?_, ?_⟩
    · rw [hw, hmod]; rfl
    · refine ⟨?_, ?_, ?_⟩
      · simp only [List.length_append, List.length_drop, List.length_singleton]
        rw [← hidx]; omega
      · rw [hclamp, List.length_take, List.length_append]
        omega
      · refine ⟨0 :: tail.drop (ts ++ [0]).length, ?_⟩
        have hat : (acc ++ ts).take (total - 2) = acc ++ ts :=
          List.take_of_length_le (by rw [List.length_append]; omega)
        rw [hat, hacc]
        simp [List.append_assoc]

theorem levelSegment_eq (buf : Bytes) (fake : Nat) (s1 : Bytes) (h : 0 < fake) :
    levelSegment buf fake s1 = segment buf 0 fake s1 .opErr := by
  unfold levelSegment segment
  rw [if_pos h]
  rfl

theorem inv_init (buf : Bytes) : BufInv buf.length buf 0 [] := ⟨rfl, by simp, buf, by simp⟩

/-- the final `snprintf(buf + idx, total - idx, "\n")` -/
theorem newline_spec {total : Nat} {buf : Bytes} {idx : Nat} {acc : Bytes} (hT2 : 2 ≤ total) (h : BufInv total buf idx acc) :
    ∃ tail, snprintf buf idx (total - idx) fmtNewline = .ok (acc.take (total - 2) ++ 10 :: 0 :: tail) ∧
      (acc.take (total - 2) ++ 10 :: 0 :: tail).length = total := by
  obtain ⟨hlen, hidx, tail, hbuf⟩ := h
  have hidx' := hidx
  rw [List.length_take] at hidx'
  have htail : tail.length = total - idx := by
    have := congrArg List.length hbuf
    simp [List.length_append] at this
    omega
  have hn : total - idx ≠ 0 := by omega
  have htk : fmtNewline.take (total - idx - 1) = [10] := by
    rw [newline_eq]
    exact List.take_of_length_le (by simp; omega)
  have hw := wr_at_prefix (acc.take (total - 2)) tail ([10] ++ [0]) (by simp; omega)
  rw [← hidx, ← hbuf] at hw
  refine ⟨tail.drop 2, ?_, ?_⟩
  · unfold snprintf
    rw [if_neg hn, htk, hw]
    simp
  · simp only [List.length_append, List.length_cons, List.length_drop]
    rw [← hidx]; omega

/-- What `aws_format_standard_log_line` does, for every buffer size ≥ 2 and every content:
it rejects exactly when the timestamp does not fit behind the level tag; otherwise the buffer
starts with the first `total - 2` bytes of the untruncated line body, a newline and a NUL. -/
theorem formatLine_spec (buf : Bytes) (d : FmtData) (lvl : Bytes)
    (hl : levelStrings[d.level]? = some lvl) (hlen : buf.length = d.total) (h2 : 2 ≤ d.total)
    (hT : d.total < 9223372036854775808) (hsz : (body d).length < 2147483648) :
    if d.ts = [] ∨ d.total - 2 < (subst fmtLevel lvl).length + d.ts.length then
      formatLine buf d = .error .invalidArgument
    else ∃ tail, formatLine buf d =
        .ok ((body d).take (d.total - 2) ++ 10 :: 0 :: tail, ((body d).take (d.total - 2)).length + 1) ∧
        ((body d).take (d.total - 2) ++ 10 :: 0 :: tail).length = d.total := by
  have hlvlseg : levelSeg d.level = subst fmtLevel lvl := by simp [levelSeg, hl]
  have hbody : body d = subst fmtLevel lvl ++ d.ts ++ subst fmtThread d.tid ++ subjectSeg d.subject ++ fmtSeparator ++ d.msg := by
    simp [body, hlvlseg]
  have hsz' := hsz
  rw [hbody] at hsz'
  simp only [List.length_append] at hsz'
  have hi0 : BufInv d.total buf 0 [] := by rw [← hlen]; exact inv_init buf
  -- level tag
  obtain ⟨b1, i1, e1, hi1⟩ := segment_spec (subst fmtLevel lvl) .opErr h2 hT (by omega) hi0
  rw [← levelSegment_eq _ _ _ (by omega)] at e1
  rw [List.nil_append] at hi1
  have hts := timestamp_spec d.ts h2 hT (by omega) hi1
  have h2' : ¬ d.total < 2 := by omega
  by_cases hc : d.ts = [] ∨ d.total - 2 < (subst fmtLevel lvl).length + d.ts.length
  · rw [if_pos hc] at hts ⊢
    unfold formatLine
    rw [hl]
    simp only []
    rw [if_neg h2']
    simp only [e1, hts, bind, Except.bind]
  · rw [if_neg hc] at hts ⊢
    unfold formatLine
    rw [hl]
    simp only []
    rw [if_neg h2']
    obtain ⟨b2, i2, e2, hi2⟩ := hts
    obtain ⟨b3, i3, e3, hi3⟩ := segment_spec (subst fmtThread d.tid) .invalidArgument h2 hT (by omega) hi2
    have hsub : ∃ b4 i4, subjectSegment b3 i3 (d.total - 1) d.subject = Except.ok (b4, i4) ∧
        BufInv d.total b4 i4 (subst fmtLevel lvl ++ d.ts ++ subst fmtThread d.tid ++ subjectSeg d.subject) := by
      cases hsj : d.subject with
      | none => exact ⟨b3, i3, rfl, by simpa [subjectSeg] using hi3⟩
      | some sj =>
        rw [hsj] at hsz'
        simp only [subjectSeg] at hsz'
        exact segment_spec (subst fmtSubject sj) .invalidArgument h2 hT (by omega) hi3
    obtain ⟨b4, i4, e4, hi4⟩ := hsub
    obtain ⟨b5, i5, e5, hi5⟩ := segment_spec fmtSeparator .invalidArgument h2 hT (by omega) hi4
    obtain ⟨b6, i6, e6, hi6⟩ := segment_spec d.msg .invalidArgument h2 hT (by omega) hi5
    rw [← hbody] at hi6
    obtain ⟨tail, e7, hlen7⟩ := newline_spec h2 hi6
    refine ⟨tail, ?_, hlen7⟩
    have hcint : cint fmtNewline.length Err.unknown = .ok 1 := by simp [cint, newline_eq]
    have hi6idx : i6 = ((body d).take (d.total - 2)).length := hi6.2.1
    subst hi6idx
    simp only [e1, e2, e3, e4, e5, e6, e7, hcint, bind, Except.bind, pure, Except.pure]

/-- the generated level names: printable (no NUL, no newline) and within the size the prefix computation reserves -/
theorem levels_clean : ∀ lvl ∈ levelStrings,
    (0:UInt8) ∉ lvl ∧ (10:UInt8) ∉ lvl ∧ lvl.length + 2 ≤ LOG_LEVEL_PREFIX_PADDING := by decide

theorem level_lookup {level : Nat} (h : level < AWS_LL_COUNT) : ∃ lvl, levelStrings[level]? = some lvl ∧ lvl ∈ levelStrings := by
  have : level < levelStrings.length := by simpa [levelStrings, AWS_LL_COUNT] using h
  exact ⟨levelStrings[level], List.getElem?_eq_getElem this, List.getElem_mem this⟩

theorem level_invalid {level : Nat} (h : ¬ level < AWS_LL_COUNT) : levelStrings[level]? = none := by
  apply List.getElem?_eq_none
  simp only [levelStrings, AWS_LL_COUNT, List.length_cons, List.length_nil] at h ⊢
  omega

/-- a byte that is none of the generated literal bytes and occurs in no input does not occur in the line body -/
theorem body_avoids (d : FmtData) (lvl : Bytes) (hl : levelStrings[d.level]? = some lvl) (x : UInt8)
    (h91 : x ≠ 91) (h93 : x ≠ 93) (h32 : x ≠ 32) (h45 : x ≠ 45)
    (hlvl : x ∉ lvl) (hts : x ∉ d.ts) (htid : x ∉ d.tid) (hmsg : x ∉ d.msg)
    (hsj : ∀ sj, d.subject = some sj → x ∉ sj) : x ∉ body d := by
  have hlvlseg : levelSeg d.level = subst fmtLevel lvl := by simp [levelSeg, hl]
  cases hs : d.subject with
  | none =>
    simp [body, hlvlseg, subst_level, subst_thread, separator_eq, subjectSeg, hs, h91, h93, h32, h45, hlvl, hts, htid, hmsg]
  | some sj =>
    have := hsj sj hs
    simp [body, hlvlseg, subst_level, subst_thread, subst_subject, separator_eq, subjectSeg, hs, h91, h93, h32, h45, hlvl, hts,
      htid, hmsg, this]

/-- length of the line body in terms of the generated literals -/
theorem body_length (d : FmtData) (lvl : Bytes) (hl : levelStrings[d.level]? = some lvl) :
    (body d).length = lvl.length + d.ts.length + d.tid.length + d.msg.length + 12 +
      (match d.subject with | some sj => sj.length + 2 | none => 0) := by
  have hlvlseg : levelSeg d.level = subst fmtLevel lvl := by simp [levelSeg, hl]
  cases hsj : d.subject <;>
    simp [body, hlvlseg, subst_level, subst_thread, subst_subject, separator_eq, subjectSeg, hsj] <;> omega

theorem take_line (b tail : Bytes) : (b ++ 10 :: 0 :: tail).take (b.length + 1) = b ++ [10] := by
  rw [List.take_append, List.take_of_length_le (by omega)]
  simp
theorem nul_after_line (b tail : Bytes) : (b ++ 10 :: 0 :: tail)[b.length + 1]? = some 0 := by
  rw [List.getElem?_append_right (by omega)]
  simp

end AwsVerif.Proofs.C14
