import AwsVerif.Model.Log
import AwsVerif.Proofs.C14.Bg
/-! Inductive invariant of the no-alloc logger used by several threads (`Log.Na`, C14). -/
namespace AwsVerif.Proofs.C14
open AwsVerif.Log

def nHolds : Na.Pc → Bool
  | .write _ => true
  | .unlock _ => true
  | .idle => false
  | .lock _ => false

def nLine : Na.Pc → Option Na.Line
  | .idle => none
  | .lock l => some l
  | .write l => some l
  | .unlock l => some l

/-- the call's line has not been handed to fwrite yet -/
def nPre : Na.Pc → Bool
  | .lock _ => true
  | .write _ => true
  | .idle => false
  | .unlock _ => false

structure NInv (s : Na.Sys) : Prop where
  mx : ∀ t, nHolds (s.pcs t) = true ↔ s.mutex = some t
  carried : ∀ t l, nLine (s.pcs t) = some l → l = (t, s.count t - 1) ∧ 0 < s.count t
  buf : ∀ t l, nLine (s.pcs t) = some l → nPre (s.pcs t) = true → s.bufs t = some l
  file : s.file = s.logged.map some
  lOrd : s.logged.Pairwise SameOrd
  lBound : ∀ l ∈ s.logged, l.2 < s.count l.1 ∧ (l.2 = s.count l.1 - 1 → nPre (s.pcs l.1) = false)
  lCarried : ∀ t l, s.pcs t = .unlock l → l ∈ s.logged ∨ l ∈ s.failed
  ret : ∀ l ∈ s.returned, l ∈ s.logged ∨ l ∈ s.failed
  who : s.logged.map (·.1) = s.writers

theorem ninv_init : NInv Na.Sys.init := by
  refine ⟨?_, ?_, ?_, ?_, ?_, ?_, ?_, ?_, ?_⟩ <;> simp [Na.Sys.init, nHolds, nLine]

theorem ninv_step {s s' : Na.Sys} {a : Na.Act} (hi : NInv s) (h : Na.step s a = some s') : NInv s' := by
  obtain ⟨mx, carried, buf, file, lOrd, lBound, lCarried, ret, who⟩ := hi
  cases a with
  | startLog t =>
    simp only [Na.step] at h
    split at h <;> simp only [Option.some.injEq, reduceCtorEq] at h
    next hidle =>
    subst h
    have hmt : s.mutex ≠ some t := by
      intro hm; have := (mx t).mpr hm; rw [hidle] at this; cases this
    refine ⟨?_, ?_, ?_, file, lOrd, ?_, ?_, ret, who⟩
    · intro i; have := mx i
      by_cases hit : i = t
      · subst hit; simp [Na.setPc, nHolds]; exact hmt
      · simpa [Na.setPc, hit] using this
    · intro i l hil
      by_cases hit : i = t
      · subst hit; simp [Na.setPc, nLine] at hil ⊢; exact hil.symm
      · simp only [Na.setPc, hit, if_false] at hil ⊢; exact carried i l hil
    · intro i l hil hp
      by_cases hit : i = t
      · subst hit; simp [Na.setPc, nLine] at hil ⊢; exact hil
      · simp only [Na.setPc, hit, if_false] at hil hp ⊢; exact buf i l hil hp
    · intro l hl
      obtain ⟨h1, h2⟩ := lBound l hl
      by_cases hlt : l.1 = t
      · simp only [Na.setPc, hlt, if_true]
        rw [hlt] at h1
        exact ⟨by omega, by intro e; omega⟩
      · simpa [Na.setPc, hlt] using And.intro h1 h2
    · intro i l hil
      by_cases hit : i = t
      · subst hit; simp [Na.setPc] at hil
      · simp only [Na.setPc, hit, if_false] at hil; exact lCarried i l hil
  | thread t =>
    have hmt := mx t
    simp only [Na.step] at h
    split at h
    · simp at h
    · next l hpc =>
      split at h <;> simp only [Option.some.injEq, reduceCtorEq] at h
      next hfree =>
      subst h
      refine ⟨?_, ?_, ?_, file, lOrd, ?_, ?_, ret, who⟩
      · intro i; have := mx i
        by_cases hit : i = t
        · subst hit; simp [Na.setPc, nHolds]
        · rw [hfree] at this; simp only [Na.setPc, hit, if_false]; rw [this]; simp; exact fun e => hit e.symm
      · intro i l' hil
        by_cases hit : i = t
        · subst hit; simp only [Na.setPc, if_true, nLine] at hil ⊢; cases hil; exact carried i l (by rw [hpc]; rfl)
        · simp only [Na.setPc, hit, if_false] at hil ⊢; exact carried i l' hil
      · intro i l' hil hp
        by_cases hit : i = t
        · subst hit; simp only [Na.setPc, if_true, nLine] at hil ⊢; cases hil
          exact buf i l (by rw [hpc]; rfl) (by rw [hpc]; rfl)
        · simp only [Na.setPc, hit, if_false] at hil hp ⊢; exact buf i l' hil hp
      · intro a ha
        obtain ⟨h1, h2⟩ := lBound a ha
        refine ⟨h1, ?_⟩
        by_cases hat : a.1 = t
        · simp only [Na.setPc, hat, if_true]; intro e; rw [hat] at h2; have := h2 e; rw [hpc] at this; cases this
        · simpa [Na.setPc, hat] using h2
      · intro i l' hil
        by_cases hit : i = t
        · subst hit; simp [Na.setPc] at hil
        · simp only [Na.setPc, hit, if_false] at hil; exact lCarried i l' hil
    · next l hpc =>
      simp only [Option.some.injEq] at h
      subst h
      have hown : s.mutex = some t := hmt.mp (by rw [hpc]; rfl)
      obtain ⟨hl, hcnt⟩ := carried t l (by rw [hpc]; rfl)
      have hlt1 : l.1 = t := by rw [hl]
      have hbuf : s.bufs t = some l := buf t l (by rw [hpc]; rfl) (by rw [hpc]; rfl)
      have hbelow : ∀ a ∈ s.logged, a.1 = t → a.2 < s.count t - 1 := by
        intro a ha hat
        obtain ⟨h1, h2⟩ := lBound a ha
        rw [hat] at h1 h2
        have : a.2 ≠ s.count t - 1 := by
          intro e; have := h2 e; rw [hpc] at this; cases this
        omega
      refine ⟨?_, ?_, ?_, ?_, ?_, ?_, ?_, ?_, ?_⟩
      · intro i; have := mx i
        by_cases hit : i = t
        · subst hit; simp [nHolds, Na.setPc, hown]
        · simpa [hit, Na.setPc] using this
      · intro i l' hil
        by_cases hit : i = t
        · subst hit; simp only [Na.setPc, if_true, nLine] at hil ⊢; cases hil; exact ⟨hl, hcnt⟩
        · simp only [Na.setPc, hit, if_false] at hil ⊢; exact carried i l' hil
      · intro i l' hil hp
        by_cases hit : i = t
        · subst hit; simp [Na.setPc, nPre] at hp
        · simp only [Na.setPc, hit, if_false] at hil hp ⊢; exact buf i l' hil hp
      · show s.file ++ [s.bufs t] = (s.logged ++ [l]).map some
        rw [file, hbuf]; simp
      · show (s.logged ++ [l]).Pairwise SameOrd
        rw [List.pairwise_append]
        refine ⟨lOrd, by simp, ?_⟩
        intro a ha b hb
        simp only [List.mem_singleton] at hb
        subst hb
        intro hab
        rw [hlt1] at hab
        have := hbelow a ha hab
        rw [hl]; exact this
      · intro a ha
        show a.2 < s.count a.1 ∧ (a.2 = s.count a.1 - 1 → nPre ((Na.setPc s t (.unlock l)).pcs a.1) = false)
        simp only [List.mem_append, List.mem_singleton] at ha
        by_cases hat : a.1 = t
        · simp only [Na.setPc, hat, if_true, nPre]
          refine ⟨?_, fun _ => trivial⟩
          rcases ha with h | h
          · have := hbelow a h hat; omega
          · subst h; rw [hl]; simp; omega
        · rcases ha with h | h
          · simpa [Na.setPc, hat] using lBound a h
          · subst h; exact absurd hlt1 hat
      · intro i l' hil
        show l' ∈ s.logged ++ [l] ∨ l' ∈ s.failed
        by_cases hit : i = t
        · subst hit; simp only [Na.setPc, if_true] at hil; cases hil; left; simp
        · simp only [Na.setPc, hit, if_false] at hil
          rcases lCarried i l' hil with h | h
          · exact Or.inl (List.mem_append_left _ h)
          · exact Or.inr h
      · intro a ha
        rcases ret a ha with h | h
        · exact Or.inl (List.mem_append_left _ h)
        · exact Or.inr h
      · show (s.logged ++ [l]).map (·.1) = s.writers ++ [t]
        rw [List.map_append, who]; simp [hlt1]
    · next l hpc =>
      simp only [Option.some.injEq] at h
      subst h
      have hown : s.mutex = some t := hmt.mp (by rw [hpc]; rfl)
      refine ⟨?_, ?_, ?_, file, lOrd, ?_, ?_, ?_, who⟩
      · intro i; have := mx i
        by_cases hit : i = t
        · subst hit; simp [Na.setPc, nHolds]
        · rw [hown] at this; simp only [Na.setPc, hit, if_false]; rw [this]; simp; exact fun e => hit e.symm
      · intro i l' hil
        by_cases hit : i = t
        · subst hit; simp [Na.setPc, nLine] at hil
        · simp only [Na.setPc, hit, if_false] at hil ⊢; exact carried i l' hil
      · intro i l' hil hp
        by_cases hit : i = t
        · subst hit; simp [Na.setPc, nLine] at hil
        · simp only [Na.setPc, hit, if_false] at hil hp ⊢; exact buf i l' hil hp
      · intro a ha
        obtain ⟨h1, h2⟩ := lBound a ha
        refine ⟨h1, ?_⟩
        by_cases hat : a.1 = t
        · simp [Na.setPc, hat, nPre]
        · simpa [Na.setPc, hat] using h2
      · intro i l' hil
        by_cases hit : i = t
        · subst hit; simp [Na.setPc] at hil
        · simp only [Na.setPc, hit, if_false] at hil; exact lCarried i l' hil
      · intro a ha
        simp only [List.mem_append, List.mem_singleton] at ha
        rcases ha with h | h
        · exact ret a h
        · subst h; exact lCarried t a hpc

  | writeFails t =>
    have hmt := mx t
    simp only [Na.step] at h
    split at h <;> simp only [Option.some.injEq, reduceCtorEq] at h
    next l hpc =>
    subst h
    have hown : s.mutex = some t := hmt.mp (by rw [hpc]; rfl)
    obtain ⟨hl, hcnt⟩ := carried t l (by rw [hpc]; rfl)
    refine ⟨?_, ?_, ?_, file, lOrd, ?_, ?_, ?_, who⟩
    · intro i; have := mx i
      by_cases hit : i = t
      · subst hit; simp [nHolds, Na.setPc, hown]
      · simpa [hit, Na.setPc] using this
    · intro i l' hil
      by_cases hit : i = t
      · subst hit; simp only [Na.setPc, if_true, nLine] at hil ⊢; cases hil; exact ⟨hl, hcnt⟩
      · simp only [Na.setPc, hit, if_false] at hil ⊢; exact carried i l' hil
    · intro i l' hil hp
      by_cases hit : i = t
      · subst hit; simp [Na.setPc, nPre] at hp
      · simp only [Na.setPc, hit, if_false] at hil hp ⊢; exact buf i l' hil hp
    · intro a ha
      obtain ⟨h1, h2⟩ := lBound a ha
      refine ⟨h1, ?_⟩
      by_cases hat : a.1 = t
      · simp [Na.setPc, hat, nPre]
      · simpa [Na.setPc, hat] using h2
    · intro i l' hil
      show l' ∈ s.logged ∨ l' ∈ s.failed ++ [l]
      by_cases hit : i = t
      · subst hit; simp only [Na.setPc, if_true] at hil; cases hil; right; simp
      · simp only [Na.setPc, hit, if_false] at hil
        rcases lCarried i l' hil with h | h
        · exact Or.inl h
        · exact Or.inr (List.mem_append_left _ h)
    · intro a ha
      rcases ret a ha with h | h
      · exact Or.inl h
      · exact Or.inr (List.mem_append_left _ h)

/-- some thread can take a step whenever a call is in progress: nothing (in particular not a failed write) leaves
the mutex locked with nobody to unlock it -/
theorem na_progress {s : Na.Sys} (hi : NInv s) (hm : ∃ t, s.pcs t ≠ .idle) :
    ∃ t, (Na.step s (.thread t)).isSome = true := by
  cases hmx : s.mutex with
  | some u =>
    have := (hi.mx u).mpr hmx
    cases hpc : s.pcs u <;> simp [hpc, nHolds] at this
    · exact ⟨u, by simp [Na.step, hpc]⟩
    · exact ⟨u, by simp [Na.step, hpc]⟩
  | none =>
    obtain ⟨t, ht⟩ := hm
    have hno : nHolds (s.pcs t) = false := by
      cases hh : nHolds (s.pcs t) with
      | false => rfl
      | true => have := (hi.mx t).mp hh; rw [hmx] at this; cases this
    cases hpc : s.pcs t <;> simp [hpc, nHolds] at hno ht
    exact ⟨t, by simp [Na.step, hpc, hmx]⟩

theorem ninv_reachable {s : Na.Sys} (hr : Na.Reachable s) : NInv s := by
  induction hr with
  | init => exact ninv_init
  | step _ h ih => exact ninv_step ih h

end AwsVerif.Proofs.C14
