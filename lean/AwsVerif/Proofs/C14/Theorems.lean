import AwsVerif.Model.LogSpec
import AwsVerif.Proofs.C14.Format
import AwsVerif.Proofs.C14.Bg
import AwsVerif.Proofs.C14.Fg
import AwsVerif.Proofs.C14.Na
import AwsVerif.Proofs.C14.Subject
/-! Proofs of the C14 property theorems (statements repeated in `AwsVerif/Props/C14.lean`). -/
namespace AwsVerif.Proofs.C14.Thm
open AwsVerif.Log AwsVerif.Gen.Log AwsVerif.Proofs.C14







theorem body_clean (d : FmtData) (hl : d.level < AWS_LL_COUNT) (hc : CleanData d) :
    (0:UInt8) ∉ body d ∧ (10:UInt8) ∉ body d := by
  obtain ⟨lvl, hlk, hmem⟩ := level_lookup hl
  obtain ⟨l0, l10, _⟩ := levels_clean lvl hmem
  obtain ⟨⟨t0, t10⟩, ⟨i0, i10⟩, ⟨m0, m10⟩, hs⟩ := hc
  exact ⟨body_avoids d lvl hlk 0 (by decide) (by decide) (by decide) (by decide) l0 t0 i0 m0 (fun sj h => (hs sj h).1),
         body_avoids d lvl hlk 10 (by decide) (by decide) (by decide) (by decide) l10 t10 i10 m10 (fun sj h => (hs sj h).2)⟩

/-- **Line shape.**  When the buffer can hold the whole line and its terminator, the formatter
succeeds, `amount_written` is the length of `prefix ++ message ++ "\n"`, those bytes are exactly that
line (whatever the buffer held before), a NUL follows it inside the buffer, and with NUL-free inputs
the line contains no NUL and its only newline is the last byte. -/
theorem c14_line_shape (buf : Bytes) (d : FmtData) (hbuf : buf.length = d.total) (hr : InRange d)
    (hts : d.ts ≠ []) (hfit : (fullLine d).length + 1 ≤ d.total) :
    ∃ buf', formatLine buf d = .ok (buf', (fullLine d).length) ∧
      lineOf (buf', (fullLine d).length) = linePrefix d ++ d.msg ++ [10] ∧
      buf'.length = d.total ∧ buf'[(fullLine d).length]? = some 0 ∧
      (CleanData d → (0:UInt8) ∉ lineOf (buf', (fullLine d).length) ∧ (10:UInt8) ∉ linePrefix d ++ d.msg) := by
  obtain ⟨hlv, hT, hsz⟩ := hr
  obtain ⟨lvl, hlk, hmem⟩ := level_lookup hlv
  have hfl : (fullLine d).length = (body d).length + 1 := by simp [fullLine, newline_eq]
  have h2 : 2 ≤ d.total := by omega
  have hbody : body d = linePrefix d ++ d.msg := by simp [body, linePrefix]
  have hseg : (subst fmtLevel lvl).length + d.ts.length ≤ (body d).length := by
    have : levelSeg d.level = subst fmtLevel lvl := by simp [levelSeg, hlk]
    simp only [body, this, List.length_append]; omega
  have spec := formatLine_spec buf d lvl hlk hbuf h2 hT hsz
  have hno : ¬ (d.ts = [] ∨ d.total - 2 < (subst fmtLevel lvl).length + d.ts.length) := by
    intro h; rcases h with h | h
    · exact hts h
    · omega
  rw [if_neg hno] at spec
  obtain ⟨tail, he, hlen⟩ := spec
  have htake : (body d).take (d.total - 2) = body d := List.take_of_length_le (by omega)
  rw [htake] at he hlen
  refine ⟨body d ++ 10 :: 0 :: tail, ?_, ?_, hlen, ?_, ?_⟩
  · rw [he, hfl]
  · rw [← hbody]; simp only [lineOf, hfl]; exact take_line _ _
  · rw [hfl]; exact nul_after_line _ _
  · intro hc
    obtain ⟨b0, b10⟩ := body_clean d hlv hc
    refine ⟨?_, by rw [← hbody]; exact b10⟩
    have : lineOf (body d ++ 10 :: 0 :: tail, (fullLine d).length) = body d ++ [10] := by
      simp only [lineOf, hfl]; exact take_line _ _
    rw [this]
    simp [b0]

/-- the default formatter's allocation (`required + MAX_LOG_LINE_PREFIX_SIZE + subject length`) always
holds the whole line and its terminator, given the documented bounds on the libc / pthreads text -/
theorem c14_default_alloc_enough (level : Nat) (subject msg ts tid : Bytes) (hl : level < AWS_LL_COUNT)
    (hts : ts.length ≤ AWS_DATE_TIME_STR_MAX_LEN) (htid : tid.length < AWS_THREAD_ID_T_REPR_BUFSZ) :
    (fullLine { total := defaultTotal msg subject, level := level, subject := some subject, msg := msg, ts := ts, tid := tid }).length + 1
      ≤ defaultTotal msg subject := by
  obtain ⟨lvl, hlk, hmem⟩ := level_lookup hl
  obtain ⟨_, _, hlen⟩ := levels_clean lvl hmem
  have hb := body_length { total := defaultTotal msg subject, level := level, subject := some subject, msg := msg, ts := ts, tid := tid } lvl hlk
  simp only [fullLine, List.length_append, newline_eq, List.length_singleton]
  rw [hb]
  simp only [defaultTotal, AWS_DATE_TIME_STR_MAX_LEN, AWS_THREAD_ID_T_REPR_BUFSZ, LOG_LEVEL_PREFIX_PADDING, MAX_LOG_LINE_PREFIX_SIZE] at *
  omega

/-- hence the line the default formatter hands to the channel is always the complete line -/
theorem c14_default_line (level : Nat) (subject msg ts tid : Bytes) (hl : level < AWS_LL_COUNT)
    (hts0 : ts ≠ []) (hts : ts.length ≤ AWS_DATE_TIME_STR_MAX_LEN) (htid : tid.length < AWS_THREAD_ID_T_REPR_BUFSZ)
    (hsz : msg.length + subject.length < 2147483000) :
    defaultFormat level subject msg ts tid =
      .ok (fullLine { total := defaultTotal msg subject, level := level, subject := some subject, msg := msg, ts := ts, tid := tid }) := by
  let d : FmtData := { total := defaultTotal msg subject, level := level, subject := some subject, msg := msg, ts := ts, tid := tid }
  have hfit := c14_default_alloc_enough level subject msg ts tid hl hts htid
  obtain ⟨lvl, hlk, hmem⟩ := level_lookup hl
  obtain ⟨_, _, hlen⟩ := levels_clean lvl hmem
  have hb := body_length d lvl hlk
  have hr : InRange d := by
    refine ⟨hl, ?_, ?_⟩
    · show defaultTotal msg subject < _
      simp only [defaultTotal, MAX_LOG_LINE_PREFIX_SIZE]; omega
    · rw [hb]
      simp only [AWS_DATE_TIME_STR_MAX_LEN, AWS_THREAD_ID_T_REPR_BUFSZ, LOG_LEVEL_PREFIX_PADDING] at *
      show lvl.length + ts.length + tid.length + msg.length + 12 + (subject.length + 2) < _
      omega
  obtain ⟨buf', he, hline, _⟩ := c14_line_shape (List.replicate (defaultTotal msg subject) 0) d (by simp [d]) hr hts0 hfit
  unfold defaultFormat
  simp only [d] at he hline
  simp only [he, bind, Except.bind, pure, Except.pure, hline]
  simp [fullLine, body, linePrefix, newline_eq]

/-- **Truncated shape.**  For EVERY `total_length ≥ 2` and all segment contents the formatter either
reports the documented error — exactly when the timestamp does not fit behind the level tag — or
succeeds with: the output inside the buffer (`amount_written` bytes and the terminator after them),
the line = a cut of the untruncated line body followed by one newline (the cut is the first
`total_length - 2` bytes, i.e. everything when it fits), and with NUL-free, newline-free inputs no
NUL in the line and no newline before its last byte.  No write ever leaves the buffer. -/
theorem c14_truncated_shape (buf : Bytes) (d : FmtData) (hbuf : buf.length = d.total) (h2 : 2 ≤ d.total)
    (hr : InRange d) :
    (formatLine buf d = .error .invalidArgument ∧
        (d.ts = [] ∨ d.total - 2 < (levelSeg d.level).length + d.ts.length)) ∨
    (∃ buf' aw cut, formatLine buf d = .ok (buf', aw) ∧
        buf'.length = d.total ∧ aw + 1 ≤ d.total ∧ buf'[aw]? = some 0 ∧
        lineOf (buf', aw) = cut ++ [10] ∧ cut = (body d).take (d.total - 2) ∧ cut <+: body d ∧
        (CleanData d → (0:UInt8) ∉ lineOf (buf', aw) ∧ (10:UInt8) ∉ cut)) := by
  obtain ⟨hlv, hT, hsz⟩ := hr
  obtain ⟨lvl, hlk, hmem⟩ := level_lookup hlv
  have hls : levelSeg d.level = subst fmtLevel lvl := by simp [levelSeg, hlk]
  have spec := formatLine_spec buf d lvl hlk hbuf h2 hT hsz
  rw [hls]
  by_cases hc : d.ts = [] ∨ d.total - 2 < (subst fmtLevel lvl).length + d.ts.length
  · rw [if_pos hc] at spec
    exact Or.inl ⟨spec, hc⟩
  · rw [if_neg hc] at spec
    obtain ⟨tail, he, hlen⟩ := spec
    right
    have hcl : ((body d).take (d.total - 2)).length ≤ d.total - 2 := by rw [List.length_take]; omega
    refine ⟨_, _, (body d).take (d.total - 2), he, hlen, by omega, ?_, ?_, rfl, List.take_prefix _ _, ?_⟩
    · exact nul_after_line _ _
    · simp only [lineOf]; exact take_line _ _
    · intro hcd
      obtain ⟨b0, b10⟩ := body_clean d hlv hcd
      have hsub : ∀ x, x ∈ (body d).take (d.total - 2) → x ∈ body d := fun x hx => List.mem_of_mem_take hx
      refine ⟨?_, fun h => b10 (hsub _ h)⟩
      have : lineOf ((body d).take (d.total - 2) ++ 10 :: 0 :: tail, ((body d).take (d.total - 2)).length + 1)
          = (body d).take (d.total - 2) ++ [10] := by simp only [lineOf]; exact take_line _ _
      rw [this]
      intro h
      rcases List.mem_append.mp h with h | h
      · exact b0 (hsub _ h)
      · simp at h

/-- the other rejections: an out-of-range level, and a buffer without room for newline and terminator -/
theorem c14_rejects (buf : Bytes) (d : FmtData) (h : ¬ d.level < AWS_LL_COUNT ∨ d.total < 2) :
    formatLine buf d = .error .invalidArgument := by
  unfold formatLine
  by_cases hl : d.level < AWS_LL_COUNT
  · obtain ⟨lvl, hlk, _⟩ := level_lookup hl
    rw [hlk]
    have : d.total < 2 := by rcases h with h | h; exact absurd hl h; exact h
    simp [this]
  · rw [level_invalid hl]

/-- the no-alloc logger's fixed buffer: the line is the first `MAXIMUM_NO_ALLOC_LOG_LINE_SIZE - 2` bytes
of the body and a newline, whatever the stack buffer contained -/
theorem c14_noalloc_line (stack : Bytes) (level : Nat) (subject msg ts tid : Bytes)
    (hstack : stack.length = MAXIMUM_NO_ALLOC_LOG_LINE_SIZE) (hl : level < AWS_LL_COUNT) (hts0 : ts ≠ [])
    (hts : ts.length ≤ AWS_DATE_TIME_STR_MAX_LEN) (hsz : msg.length + subject.length + tid.length < 2147483000) :
    noallocFormat stack level subject msg ts tid =
      .ok ((body { total := MAXIMUM_NO_ALLOC_LOG_LINE_SIZE, level := level, subject := some subject, msg := msg, ts := ts, tid := tid }).take
            (MAXIMUM_NO_ALLOC_LOG_LINE_SIZE - 2) ++ [10]) := by
  let d : FmtData := { total := MAXIMUM_NO_ALLOC_LOG_LINE_SIZE, level := level, subject := some subject, msg := msg, ts := ts, tid := tid }
  obtain ⟨lvl, hlk, hmem⟩ := level_lookup hl
  obtain ⟨_, _, hlen⟩ := levels_clean lvl hmem
  have hb := body_length d lvl hlk
  have hr : InRange d := by
    refine ⟨hl, by show MAXIMUM_NO_ALLOC_LOG_LINE_SIZE < _; decide, ?_⟩
    rw [hb]
    simp only [AWS_DATE_TIME_STR_MAX_LEN, LOG_LEVEL_PREFIX_PADDING] at *
    show lvl.length + ts.length + tid.length + msg.length + 12 + (subject.length + 2) < _
    omega
  have h := c14_truncated_shape stack d hstack (by show 2 ≤ MAXIMUM_NO_ALLOC_LOG_LINE_SIZE; decide) hr
  have hls : levelSeg d.level = subst fmtLevel lvl := by simp [levelSeg, hlk, d]
  rcases h with ⟨_, hbad⟩ | ⟨buf', aw, cut, he, _, _, _, hline, hcut, _⟩
  · exfalso
    rcases hbad with h | h
    · exact hts0 h
    · rw [hls, subst_level] at h
      simp only [AWS_DATE_TIME_STR_MAX_LEN, LOG_LEVEL_PREFIX_PADDING, MAXIMUM_NO_ALLOC_LOG_LINE_SIZE, d, List.length_append,
        List.length_cons, List.length_nil] at *
      omega
  · unfold noallocFormat
    simp only [d] at he
    simp only [he, bind, Except.bind, pure, Except.pure, hline, hcut]
    rfl

/-- **A registered subject whose name is NULL**: the default formatter sizes the line without a subject length (its
`strlen` is guarded) and the line is complete and simply has no `[subject]` field — prefix `[LEVEL] [time] [tid] ` then
` - ` and the message. -/
theorem c14_default_line_null_subject (level : Nat) (msg ts tid : Bytes) (hl : level < AWS_LL_COUNT)
    (hts0 : ts ≠ []) (hts : ts.length ≤ AWS_DATE_TIME_STR_MAX_LEN) (htid : tid.length < AWS_THREAD_ID_T_REPR_BUFSZ)
    (hsz : msg.length < 2147483000) :
    defaultFormatNull level msg ts tid =
      .ok (fullLine { total := defaultTotal msg [], level := level, subject := none, msg := msg, ts := ts, tid := tid }) := by
  let d : FmtData := { total := defaultTotal msg [], level := level, subject := none, msg := msg, ts := ts, tid := tid }
  obtain ⟨lvl, hlk, hmem⟩ := level_lookup hl
  obtain ⟨_, _, hlen⟩ := levels_clean lvl hmem
  have hb := body_length d lvl hlk
  have hfit : (fullLine d).length + 1 ≤ d.total := by
    simp only [fullLine, List.length_append, newline_eq, List.length_singleton]
    rw [hb]
    simp only [d, defaultTotal, AWS_DATE_TIME_STR_MAX_LEN, AWS_THREAD_ID_T_REPR_BUFSZ, LOG_LEVEL_PREFIX_PADDING,
      MAX_LOG_LINE_PREFIX_SIZE, List.length_nil] at *
    omega
  have hr : InRange d := by
    refine ⟨hl, ?_, ?_⟩
    · show defaultTotal msg [] < _
      simp only [defaultTotal, MAX_LOG_LINE_PREFIX_SIZE, List.length_nil]; omega
    · rw [hb]
      simp only [d, AWS_DATE_TIME_STR_MAX_LEN, AWS_THREAD_ID_T_REPR_BUFSZ, LOG_LEVEL_PREFIX_PADDING] at *
      omega
  obtain ⟨buf', he, hline, _⟩ := c14_line_shape (List.replicate (defaultTotal msg []) 0) d (by simp [d]) hr hts0 hfit
  unfold defaultFormatNull
  simp only [d] at he hline
  simp only [he, bind, Except.bind, pure, Except.pure, hline]
  simp [fullLine, body, linePrefix, newline_eq]

/-! ## Level gate -/

/-- **Gate.**  A call produces a line iff its level is ≤ the logger's current level (given a valid level
and a channel that accepts). -/
theorem c14_gate (p : Pipe) (c : Call) (hch : p.chan = .foreground) (hl : c.level < AWS_LL_COUNT) (hts0 : c.ts ≠ [])
    (hts : c.ts.length ≤ AWS_DATE_TIME_STR_MAX_LEN) (htid : c.tid.length < AWS_THREAD_ID_T_REPR_BUFSZ)
    (hsz : c.msg.length + c.subject.length < 2147483000) (hnn : c.subjectNull = false) :
    (c.level ≤ p.level →
        (logf p c).written = p.written ++
          [fullLine { total := defaultTotal c.msg c.subject, level := c.level, subject := some c.subject, msg := c.msg, ts := c.ts, tid := c.tid }]) ∧
    (¬ c.level ≤ p.level → logf p c = p) := by
  have hfmt := c14_default_line c.level c.subject c.msg c.ts c.tid hl hts0 hts htid hsz
  constructor
  · intro h
    simp [logf, gate, h, pipelineLog, callFormat, hnn, hfmt, hch]
  · intro h
    simp [logf, gate, h]

/-- every line handed to a channel is destroyed exactly once by the time the call returns, also when the
send fails (and then nothing reaches the writer) -/
theorem c14_pipeline_ownership (p : Pipe) (c : Call) :
    (∃ line, (pipelineLog p c).1.destroyed = p.destroyed ++ [line] ∧
        ((pipelineLog p c).1.written = p.written ++ [line] ∧ p.chan = .foreground ∨
         (pipelineLog p c).1.written = p.written ∧ p.chan = .failing ∧ (pipelineLog p c).2 = false)) ∨
    ((pipelineLog p c).1 = p ∧ (pipelineLog p c).2 = false) := by
  unfold pipelineLog
  cases hf : callFormat c with
  | error e => right; simp
  | ok line =>
    left
    refine ⟨line, ?_⟩
    cases hc : p.chan <;> simp











/-- **A level store affects all later calls**: after `set_log_level l`, and until the next store, exactly
the calls with level ≤ `l` produce a line, each its complete line, in call order. -/
theorem c14_gate_after_store (p : Pipe) (l : Nat) (h : List Op) (hch : p.chan = .foreground) (hns : noStores h)
    (hwf : allWellFormed h) :
    (run (setLevel p l) h).written = p.written ++ passing l h ∧ (run (setLevel p l) h).level = l := by
  suffices ∀ (q : Pipe), q.chan = .foreground → q.level = l → (run q h).written = q.written ++ passing l h ∧ (run q h).level = l by
    simpa [setLevel] using this (setLevel p l) (by simpa [setLevel] using hch) rfl
  induction h with
  | nil => intro q _ hq; simp [run, passing, hq]
  | cons op r ih =>
    intro q hqc hql
    cases op with
    | set _ => exact absurd hns (by simp [noStores])
    | log c =>
      obtain ⟨hw, hr⟩ := hwf
      obtain ⟨h1, h2, h3, h4, h5, h6⟩ := hw
      have g := c14_gate q c hqc h1 h2 h3 h4 h5 h6
      have hrun : run q (.log c :: r) = run (logf q c) r := by simp [run, apply]
      rw [hrun]
      by_cases hle : c.level ≤ l
      · have hw' := g.1 (by omega)
        have hch' : (logf q c).chan = .foreground := by simp [logf, gate, hql, hle, pipelineLog]; split <;> simp [hqc]
        have hlv' : (logf q c).level = l := by simp [logf, gate, hql, hle, pipelineLog]; split <;> simp [hqc, hql]
        obtain ⟨i1, i2⟩ := ih hns hr (logf q c) hch' hlv'
        refine ⟨?_, i2⟩
        rw [i1, hw']
        simp [passing, hle, lineOfCall]
      · have hsame := g.2 (by omega)
        rw [hsame]
        obtain ⟨i1, i2⟩ := ih hns hr q hqc hql
        refine ⟨?_, i2⟩
        rw [i1]
        simp [passing, hle]

/-- **A failing writer changes nothing about ownership.**  With the foreground channel, whether the writer's
`write` succeeds or fails for this line, the call reports success, the line counts as handed to the writer, and it
is destroyed exactly once (by the channel — the pipeline must not, and does not, destroy it again). -/
theorem c14_writer_failure (p : Pipe) (c : Call) (line : Bytes) (hch : p.chan = .foreground)
    (hf : callFormat c = .ok line) :
    (pipelineLog p c).2 = true ∧
    (pipelineLog p c).1.written = p.written ++ [line] ∧
    (pipelineLog p c).1.destroyed = p.destroyed ++ [line] ∧
    (pipelineLog p c).1.writeErrors = p.writeErrors + (if c.writeOk then 0 else 1) := by
  simp [pipelineLog, hf, hch]

/-- **Level names round-trip**: every level has a name, `aws_string_to_log_level` maps that name — in the table's
spelling, in lower case, in any ASCII case mix — back to exactly that level (so the seven names are pairwise distinct
ignoring case), and whatever it accepts is a level below AWS_LL_COUNT whose name equals the text ignoring case. -/
theorem c14_level_names :
    (∀ l, l < AWS_LL_COUNT → ∃ name, levelToString l = some name ∧ stringToLevel name = some l ∧
        stringToLevel (name.map asciiLower) = some l) ∧
    (∀ s a, a.map asciiLower = s.map asciiLower → stringToLevel a = stringToLevel s) ∧
    (∀ s l, stringToLevel s = some l → l < AWS_LL_COUNT ∧ ∃ name, levelToString l = some name ∧ eqIgnoreCase s name = true) ∧
    (∀ l, ¬ l < AWS_LL_COUNT → levelToString l = none) := by
  refine ⟨by decide, ?_, ?_, ?_⟩
  · intro s a h
    have : eqIgnoreCase a = eqIgnoreCase s := by funext b; simp only [eqIgnoreCase, h]
    simp only [stringToLevel, this]
  · intro s l h
    simp only [stringToLevel] at h
    split at h
    · next hlt =>
      cases h
      have hlen : levelStrings.length = AWS_LL_COUNT := by decide
      refine ⟨by rw [← hlen]; exact hlt, levelStrings[List.findIdx (eqIgnoreCase s) levelStrings], ?_, ?_⟩
      · simp [levelToString, List.getElem?_eq_getElem hlt]
      · exact List.findIdx_getElem (w := hlt)
    · cases h
  · intro l hl
    simp only [levelToString]
    apply List.getElem?_eq_none
    have hlen : levelStrings.length = AWS_LL_COUNT := by decide
    omega

/-- **Subject lookup** (`s_get_log_subject_info_by_id`, its integer skeleton regenerated from logging.c): for every
slot table and every subject id the lookup never reads at or behind the end of a registered list, and it returns an
entry exactly when the id lies below the subject space, its slot is registered and its index in the slot is below that
list's count — then the entry at that index; in every other case the name is "Unknown". -/
theorem c14_subject_lookup (slots : Slots) (subject : Nat) :
    (∀ i c, subjectLookup slots subject ≠ .oob i c) ∧
    (∀ n, subjectLookup slots subject = .entry n ↔
      subject < 2 ^ AWS_LOG_SUBJECT_STRIDE_BITS * AWS_PACKAGE_SLOTS ∧
      ∃ names, slots (subject / 2 ^ AWS_LOG_SUBJECT_STRIDE_BITS) = some names ∧
        subject % 2 ^ AWS_LOG_SUBJECT_STRIDE_BITS < names.length ∧
        names[subject % 2 ^ AWS_LOG_SUBJECT_STRIDE_BITS]? = some n) ∧
    (subjectName slots subject).isSome = true := by
  have h := subjectLookup_spec slots subject
  refine ⟨h.1, h.2, ?_⟩
  unfold subjectName
  cases hl : subjectLookup slots subject with
  | entry n => rfl
  | unknown => rfl
  | oob i c => exact absurd hl (h.1 i c)

/-! ## Background channel: every interleaving of senders, background thread, clean-up and spurious wake-ups

`Bg.Reachable s`: `s` is reached from the initial state by any sequence of `Bg.Act`s — new sends by any
thread at any time (also concurrently with or after clean-up), steps of any thread in any order,
spurious wake-ups.  A line is `(sender, k)`: the k-th line that sender handed to `send` (numbers are
assigned in call order by `startSend`). `pushed` = lines that entered the channel, in that order. -/
open AwsVerif.Log.Bg in
/-- **Safety**, in every reachable state:
1. every line that entered the channel is in exactly one of written / the batch being written / pending,
   exactly once (`written ++ batch ++ pending` *is* the entry order, and it has no duplicates);
2. two written lines of the same sender appear in that sender's send order;
3. once clean-up has returned, no step of any thread writes or destroys anything;
4. destroyed lines are written lines, each destroyed at most once, in write order, the line just written
   being the only written line not yet destroyed; when the background thread has exited all are destroyed. -/
theorem c14_bg_safety (s : Sys) (hr : Reachable s) :
    (s.written ++ s.batch ++ s.pending = s.pushed ∧ s.pushed.Nodup) ∧
    s.written.Pairwise (fun a b => a.1 = b.1 → a.2 < b.2) ∧
    (s.clean = .returned → ∀ a s', step s a = some s' → s'.written = s.written ∧ s'.destroyed = s.destroyed) ∧
    (s.destroyed.Nodup ∧ s.destroyed <+: s.written ∧
      ((∀ l, s.cons ≠ .destroy l) → s.destroyed = s.written) ∧ (∀ l, s.cons = .destroy l → s.destroyed ++ [l] = s.written)) := by
  have hi := inv_reachable hr
  have hnd : s.pushed.Nodup := sameOrd_nodup hi.c.ord
  have hsub : s.written.Sublist s.pushed := by
    rw [← hi.a.fifo, List.append_assoc]; exact List.sublist_append_left _ _
  have hwnd : s.written.Nodup := hnd.sublist hsub
  refine ⟨⟨hi.a.fifo, hnd⟩, hi.c.ord.sublist hsub, ?_, ?_, ?_, ?_, ?_⟩
  · intro hret a s' h
    exact step_logs_of_consumer_done (hi.d.ret hret) h
  · have : s.destroyed.Sublist s.written := by rw [← hi.a.dest]; exact List.sublist_append_left _ _
    exact hwnd.sublist this
  · exact ⟨_, hi.a.dest⟩
  · intro hne
    have := hi.a.dest
    cases hc : s.cons <;> simp_all [destroying]
  · intro l hc
    have := hi.a.dest
    simpa [hc, destroying] using this

open AwsVerif.Log.Bg in
/-- **Flush.**  When clean-up has returned, every line whose send had returned before clean-up was
called has been written (and destroyed). -/
theorem c14_bg_flush (s : Sys) (hr : Reachable s) (hret : s.clean = .returned) :
    ∀ l ∈ s.completedAtClean, l ∈ s.written ∧ l ∈ s.destroyed := by
  have hi := inv_reachable hr
  have hdone := hi.d.ret hret
  have hex := hi.d.exited (by rw [hdone]; rfl)
  have hd : s.destroyed = s.written := by
    have := hi.a.dest
    simpa [hdone, destroying] using this
  intro l hl
  exact ⟨hex.2 l hl, by rw [hd]; exact hex.2 l hl⟩

open AwsVerif.Log.Bg in
/-- **No deadlock.**  Whenever a send or the clean-up is in progress, some thread has an enabled step
(a real step of a thread: not a new call, not a spurious wake-up) — in particular clean-up's join is never
stuck behind a background thread that sleeps on the condition variable.  And no wake-up is lost: a
background thread asleep while nobody holds the mutex has nothing pending and has not been told to finish. -/
theorem c14_bg_no_deadlock (s : Sys) (hr : Reachable s) :
    (((∃ t, s.senders t ≠ .idle) ∨ (s.clean ≠ .idle ∧ s.clean ≠ .returned)) →
        ∃ a s', a.isThreadStep = true ∧ step s a = some s') ∧
    (s.cons = .waiting → s.mutex = none → s.pending = [] ∧ s.finished = false) := by
  have hi := inv_reachable hr
  constructor
  · intro hm
    obtain ⟨a, ha, hs⟩ := progress hi hm
    cases h : step s a with
    | none => rw [h] at hs; cases hs
    | some s' => exact ⟨a, s', ha, h⟩
  · intro hw hmx
    rcases hi.d.nlw hw with ⟨h1, h2⟩ | ⟨t, l, h⟩ | h
    · exact ⟨h2, h1⟩
    · have := (hi.b.mS t).mp (by rw [h]; rfl)
      rw [hmx] at this; cases this
    · have := hi.b.mK.mp (by rw [h]; rfl)
      rw [hmx] at this; cases this

open AwsVerif.Log.Bg in
/-- mutual exclusion: the mutex field names the one thread that is between its lock and its unlock -/
theorem c14_bg_mutex (s : Sys) (hr : Reachable s) :
    (∀ t, sHolds (s.senders t) = true ↔ s.mutex = some (.sender t)) ∧
    (cHolds s.cons = true ↔ s.mutex = some .consumer) ∧ (kHolds s.clean = true ↔ s.mutex = some .cleaner) := by
  have hi := inv_reachable hr
  exact ⟨hi.b.mS, hi.b.mC, hi.b.mK⟩

/-! the hypotheses are satisfiable: a run with two senders, clean-up called while one line is still pending,
ends with clean-up returned and both lines written in entry order -/
open AwsVerif.Log.Bg in
def demoRun : List Act :=
  [.startSend 0, .consumer, .consumer, .sender 0, .sender 0, .startSend 1, .sender 0, .sender 0,
   .consumer, .consumer, .consumer, .consumer,            -- wake, pred, read (swap), unlock
   .sender 1, .sender 1, .sender 1, .sender 1,            -- second line pushed while the first is being written
   .startClean, .consumer, .cleaner, .cleaner, .consumer, .cleaner, .cleaner,
   .consumer, .consumer, .consumer, .consumer, .consumer, .consumer, .consumer, .consumer, .consumer, .consumer, .consumer,
   .cleaner]

/-- **Foreground channel**, every interleaving of any number of sending threads: writer calls never
overlap (the mutex), each thread's lines reach the writer in its send order and no line twice, a line is
destroyed at most once and only after it was written, and when every send has returned every written line
has been destroyed. -/
theorem c14_fg_safety (s : Fg.Sys) (hr : Fg.Reachable s) :
    s.inWriter.length ≤ 1 ∧
    s.written.Pairwise (fun a b => a.1 = b.1 → a.2 < b.2) ∧ s.written.Nodup ∧
    s.destroyed.Nodup ∧ (∀ l ∈ s.destroyed, l ∈ s.written) ∧
    ((∀ t, s.pcs t = .idle) → ∀ l ∈ s.written, l ∈ s.destroyed) := by
  have hi := finv_reachable hr
  refine ⟨?_, hi.wOrd, sameOrd_nodup hi.wOrd, sameOrd_nodup hi.dOrd, fun l hl => (hi.dBound l hl).1, ?_⟩
  · rcases hi.iw with h | ⟨_, _, _, _, h⟩ <;> simp [h]
  · intro hidle l hl
    rcases hi.wDone l hl with h | h
    · exact h
    · rw [hidle] at h; cases h

/-- **No-alloc logger used by any number of threads**, every interleaving, any fwrite allowed to fail: the file holds
exactly the lines the calls formatted whose fwrite succeeded, in the order of their `fwrite`s — none torn, replaced or
duplicated (`file = logged.map some`, which rests on each call formatting into its own buffer); a thread's lines
appear in its call order and no line twice; every call that has returned has its line in the file or had its write
fail; at most one thread is between lock and unlock; every line in the file carries the id of the thread whose call
wrote it (the thread-id cache of the formatter is thread-local); and whenever a call is in progress some thread can
take a step — a failed write does not leave the logger's mutex locked, later calls go through. -/
theorem c14_noalloc_threads (s : Na.Sys) (hr : Na.Reachable s) :
    s.file = s.logged.map some ∧
    s.logged.Pairwise (fun a b => a.1 = b.1 → a.2 < b.2) ∧ s.logged.Nodup ∧
    (∀ l ∈ s.returned, l ∈ s.logged ∨ l ∈ s.failed) ∧
    (∀ t, nHolds (s.pcs t) = true ↔ s.mutex = some t) ∧
    s.logged.map (·.1) = s.writers ∧
    ((∃ t, s.pcs t ≠ .idle) → ∃ t s', Na.step s (.thread t) = some s') := by
  have hi := ninv_reachable hr
  refine ⟨hi.file, hi.lOrd, sameOrd_nodup hi.lOrd, hi.ret, hi.mx, hi.who, ?_⟩
  intro hm
  obtain ⟨t, ht⟩ := na_progress hi hm
  cases h : Na.step s (.thread t) with
  | none => rw [h] at ht; cases ht
  | some s' => exact ⟨t, s', h⟩

end AwsVerif.Proofs.C14.Thm
