import AwsVerif.Proofs.C17.Basic
/-! Sequential histories: the tracer's table mirrors the wrapped allocator's live blocks. -/
namespace AwsVerif.Proofs.C17
open AwsVerif.MemTrace

/-- (address, recorded size) of the tracer's table -/
def ks (t : Table) : List (Addr × Nat) := t.map (fun e => (e.1, e.2.size))
/-- (address, requested size) of the wrapped allocator's live blocks: the reference live set -/
def pks (p : Parent) : List (Addr × Nat) := p.blocks.map (fun e => (e.1, e.2.size))
def sumSnd (l : List (Addr × Nat)) : Nat := (l.map (·.2)).sum

theorem bytes_eq_sumSnd (t : Table) : t.bytes = sumSnd (ks t) := by
  simp [Table.bytes, sumSnd, ks, List.map_map, Function.comp_def]

theorem keys_eq_ks (t : Table) : keys t = (ks t).map (·.1) := by
  simp [keys, ks, List.map_map, Function.comp_def]

theorem ks_erase (t : Table) (a : Addr) : ks (t.erase a) = (ks t).filter (fun e => e.1 != a) := by
  simp [ks, Table.erase, List.filter_map, Function.comp_def]

theorem pks_release (p : Parent) (a : Addr) : pks (p.release a) = (pks p).filter (fun e => e.1 != a) := by
  simp [pks, Parent.release, List.filter_map, Function.comp_def]

theorem not_live_iff (p : Parent) (a : Addr) : p.live a = false ↔ a ∉ (pks p).map (·.1) := by
  simp only [Parent.live, pks, List.map_map, List.mem_map, Function.comp_def, not_exists, not_and]
  rw [Bool.eq_false_iff]
  simp only [ne_eq, List.any_eq_true, beq_iff_eq, not_exists, not_and]

theorem live_get (p : Parent) (a : Addr) (h : p.live a = true) : ∃ b, p.get a = some b := by
  cases hg : p.get a with
  | some b => exact ⟨b, rfl⟩
  | none =>
    simp only [Parent.get, List.lookup_eq_none_iff, bne_iff_ne, ne_eq] at hg
    simp only [Parent.live, List.any_eq_true, beq_iff_eq] at h
    obtain ⟨e, he, h'⟩ := h
    exact absurd h'.symm (hg e he)

theorem map_filter_fst {l : List (Addr × Nat)} {a : Addr} :
    (l.filter (fun e => e.1 != a)).map (·.1) = (l.map (·.1)).filter (· != a) := by
  simp [List.filter_map, Function.comp_def]

structure SeqInv (s : Seq) : Prop where
  same : ks s.tr.allocs = pks s.par
  nodup : ((pks s.par).map (·.1)).Nodup
  acct : s.tr.allocated = sumSnd (pks s.par) % W
  nonzero : 0 ∉ (pks s.par).map (·.1)

theorem level_track (t : Tracer) (a sz sid : Nat) : (track t a sz sid).level = t.level := by
  unfold track
  split
  · rfl
  · simp only [putAlloc, tick, fetchAdd]
    by_cases hst : t.level = .stacks <;> simp [hst, addStack]

theorem level_untrack (t : Tracer) (a : Addr) : (untrack t a).level = t.level := by
  unfold untrack
  split
  · rfl
  · split <;> simp [removeAlloc, fetchSub]

/-- `track` of a fresh address mirrors a new block of the same size in front of the parent's list -/
theorem track_inv {tr : Tracer} {par par' : Parent} {a sz sid : Nat} (hl : tr.level ≠ .none)
    (h : SeqInv ⟨tr, par⟩) (hf : a ∉ (pks par).map (·.1)) (h0 : a ≠ 0) (hp : pks par' = (a, sz) :: pks par) :
    SeqInv ⟨track tr a sz sid, par'⟩ := by
  obtain ⟨hs, hn, ha, hz⟩ := h
  simp only at hs hn ha hz
  have hk : a ∉ keys tr.allocs := by rw [keys_eq_ks, hs]; exact hf
  have hallocs : (∃ i : Info, i.size = sz ∧ (track tr a sz sid).allocs = tr.allocs.put a i) ∧
      (track tr a sz sid).allocated = (tr.allocated + sz) % W := by
    unfold track
    rw [if_neg hl]
    simp only [putAlloc, tick, fetchAdd]
    by_cases hst : tr.level = .stacks
    · exact ⟨⟨{ size := sz, time := tr.clock, stack := sid }, rfl, by simp [hst, addStack, mkInfo]⟩, by simp [hst, addStack]⟩
    · exact ⟨⟨{ size := sz, time := tr.clock, stack := 0 }, rfl, by simp [hst, mkInfo]⟩, by simp [hst]⟩
  obtain ⟨⟨i, hi, hput⟩, hacc⟩ := hallocs
  refine ⟨?_, ?_, ?_, by simp only; rw [hp]; simp only [List.map_cons, List.mem_cons, not_or]; exact ⟨fun h => h0 h.symm, hz⟩⟩
  · simp only
    rw [hput, hp]
    simp [ks, Table.put, erase_of_not_mem hk, hi] at hs ⊢
    exact hs
  · simp only
    rw [hp]
    simp only [List.map_cons, List.nodup_cons]
    exact ⟨hf, hn⟩
  · simp only
    rw [hacc, hp, ha]
    simp only [sumSnd, List.map_cons, List.sum_cons, W]
    omega

theorem untrack_inv {tr : Tracer} {par : Parent} (p : Addr) (hl : tr.level ≠ .none) (h : SeqInv ⟨tr, par⟩) :
    SeqInv ⟨untrack tr p, par.release p⟩ := by
  obtain ⟨hs, hn, ha, hz⟩ := h
  simp only at hs hn ha hz
  unfold untrack
  rw [if_neg hl]
  cases hf : tr.allocs.find p with
  | none =>
    have hk : p ∉ keys tr.allocs := by
      intro hm
      simp only [Table.find, List.lookup_eq_none_iff, bne_iff_ne, ne_eq] at hf
      simp only [keys, List.mem_map] at hm
      obtain ⟨e, he, h'⟩ := hm
      exact hf e he h'.symm
    have hrel : pks (par.release p) = pks par := by
      rw [pks_release, ← hs, ← ks_erase, erase_of_not_mem hk]
    exact ⟨by simp only; rw [hrel]; exact hs, by simp only; rw [hrel]; exact hn, by simp only; rw [hrel]; exact ha,
           by simp only; rw [hrel]; exact hz⟩
  | some i =>
    have hnk : (keys tr.allocs).Nodup := by rw [keys_eq_ks, hs]; exact hn
    have ⟨hb, _⟩ := bytes_length_erase hnk hf
    have hrel : ks (tr.allocs.erase p) = pks (par.release p) := by rw [ks_erase, pks_release, hs]
    refine ⟨?_, ?_, ?_, ?_⟩
    · simpa [removeAlloc, fetchSub] using hrel
    · simp only
      rw [pks_release, map_filter_fst]
      exact List.Nodup.sublist List.filter_sublist hn
    · simp only [removeAlloc, fetchSub]
      rw [← hrel, ← bytes_eq_sumSnd, ha, ← hs, ← bytes_eq_sumSnd, hb]
      simp only [W]
      omega
    · simp only
      rw [pks_release, map_filter_fst]
      intro hm
      exact hz (List.mem_filter.1 hm).1

end AwsVerif.Proofs.C17

namespace AwsVerif.Proofs.C17
open AwsVerif.MemTrace

theorem fresh_size (sz : Nat) (pre : List UInt8) (b : UInt8) : (Parent.fresh sz pre b).size = sz := by
  unfold Parent.fresh; split <;> rfl

theorem pks_acquire (p : Parent) (a sz : Nat) : pks (p.acquire a sz) = (a, sz) :: pks p := by
  simp [pks, Parent.acquire, fresh_size]

theorem pks_calloc (p : Parent) (a n s : Nat) : pks (p.calloc a n s) = (a, n * s) :: pks p := by
  simp [pks, Parent.calloc, fresh_size]

theorem pks_fill (p : Parent) (a seed : Nat) : pks (p.fill a seed) = pks p := by
  simp only [pks, Parent.fill, List.map_map]
  apply List.map_congr_left
  intro e _
  simp only [Function.comp_def]
  split <;> rfl

theorem pks_reallocNull (p : Parent) (a new : Nat) : pks (p.reallocNull a new) = (a, new) :: pks p := by
  simp [pks, Parent.reallocNull, fresh_size]

theorem pks_realloc_move (p : Parent) {a dest : Addr} (old new : Nat) (h : dest ≠ a) :
    pks (p.realloc a old new dest) = (dest, new) :: pks (p.release a) := by
  simp only [Parent.realloc, h, if_false]
  split <;> simp [pks, fresh_size, Parent.release]

theorem pks_realloc_keep (p : Parent) {a : Addr} (old new : Nat) (h : p.live a = true) :
    pks (p.realloc a old new a) = (a, new) :: pks (p.release a) := by
  obtain ⟨b, hb⟩ := live_get p a h
  simp [Parent.realloc, hb, pks, Parent.release]

theorem not_mem_release (p : Parent) (a : Addr) : a ∉ (pks (p.release a)).map (·.1) := by
  rw [pks_release, map_filter_fst]; simp

theorem fresh_not_mem {p : Parent} {a : Addr} (h : freshAddr p a = true) : a ∉ (pks p).map (·.1) := by
  simp only [freshAddr, Bool.and_eq_true, Bool.not_eq_true'] at h
  exact (not_live_iff p a).1 h.2

theorem fresh_not_mem_release {p : Parent} {a b : Addr} (h : freshAddr p a = true) : a ∉ (pks (p.release b)).map (·.1) := by
  have := fresh_not_mem h
  rw [pks_release, map_filter_fst]
  intro hm
  exact this (List.mem_filter.1 hm).1

theorem release_inv {s : Seq} (p : Addr) (hl : s.tr.level ≠ .none) (h : SeqInv s) :
    SeqInv (s.release p).1 ∧ (s.release p).1.tr.level = s.tr.level := by
  unfold Seq.release
  split
  · exact ⟨h, rfl⟩
  · split
    · exact ⟨h, rfl⟩
    · exact ⟨untrack_inv p hl h, level_untrack _ _⟩

theorem fresh_ne_zero {p : Parent} {a : Addr} (h : freshAddr p a = true) : a ≠ 0 := by
  simp only [freshAddr, Bool.and_eq_true, bne_iff_ne, ne_eq] at h
  exact h.1

theorem release_eq_self {p : Parent} {a : Addr} (h : a ∉ (pks p).map (·.1)) : p.release a = p := by
  cases p with
  | mk bl hr hc =>
    simp only [Parent.release, Parent.mk.injEq, List.filter_eq_self, bne_iff_ne, ne_eq, and_true]
    intro e he h'
    exact h (by simp only [pks, List.map_map, List.mem_map, Function.comp_def]; exact ⟨e, he, h'⟩)

/-- one client call preserves the mirror invariant (tracing levels) -/
theorem step_inv {s : Seq} (op : Op) (hl : s.tr.level ≠ .none) (h : SeqInv s) :
    SeqInv (s.step op).1 ∧ (s.step op).1.tr.level = s.tr.level := by
  cases op with
  | acquire dest sz sid =>
    simp only [Seq.step]
    split
    · exact ⟨h, rfl⟩
    · rename_i hc
      simp only [not_or, Bool.not_eq_true, Bool.not_eq_false'] at hc
      exact ⟨track_inv hl h (fresh_not_mem hc.2) (fresh_ne_zero hc.2) (pks_acquire _ _ _), level_track _ _ _ _⟩
  | calloc dest n sz sid =>
    simp only [Seq.step]
    split
    · exact ⟨h, rfl⟩
    · rename_i hc
      simp only [not_or, Bool.not_eq_true, Bool.not_eq_false', Nat.not_le] at hc
      refine ⟨track_inv hl h (fresh_not_mem hc.2.2.2) (fresh_ne_zero hc.2.2.2) ?_, level_track _ _ _ _⟩
      rw [pks_calloc, Nat.mod_eq_of_lt hc.2.2.1]
  | release p => exact release_inv p hl h
  | dump => exact ⟨h, rfl⟩
  | fill p seed =>
    refine ⟨?_, rfl⟩
    obtain ⟨hs, hn, ha, hz⟩ := h
    exact ⟨by simp only [Seq.step, pks_fill]; exact hs, by simp only [Seq.step, pks_fill]; exact hn,
           by simp only [Seq.step, pks_fill]; exact ha, by simp only [Seq.step, pks_fill]; exact hz⟩
  | realloc p old new dest sid =>
    simp only [Seq.step]
    split
    · -- new = 0: a release
      have := release_inv p hl h
      revert this
      cases hr : s.release p with
      | mk s' r =>
        intro this
        cases r <;> exact this
    · split
      · -- p = NULL: untrack(NULL) finds nothing; the parent acquires
        split
        · exact ⟨h, rfl⟩
        · rename_i hc
          simp only [Bool.not_eq_true, Bool.not_eq_false'] at hc
          have hu := untrack_inv (par := s.par) 0 hl h
          rw [release_eq_self h.nonzero] at hu
          have hl' : (untrack s.tr 0).level ≠ .none := by rw [level_untrack]; exact hl
          exact ⟨track_inv hl' hu (fresh_not_mem hc) (fresh_ne_zero hc) (pks_reallocNull _ _ _),
                 by simp only [level_track, level_untrack]⟩
      · rename_i hp0
        split
        · exact ⟨h, rfl⟩
        · rename_i hlive
          simp only [Bool.not_eq_true, Bool.not_eq_false'] at hlive
          split
          · exact ⟨h, rfl⟩
          · rename_i hd
            have hu := untrack_inv (par := s.par) p hl h
            have hl' : (untrack s.tr p).level ≠ .none := by rw [level_untrack]; exact hl
            refine ⟨?_, by simp only [level_track, level_untrack]⟩
            by_cases hk : dest = p
            · subst hk
              exact track_inv hl' hu (not_mem_release _ _) hp0 (pks_realloc_keep _ _ _ hlive)
            · have hfr : freshAddr s.par dest = true := by
                simp only [not_or, not_and, Bool.not_eq_true, Bool.not_eq_false'] at hd
                simpa using hd.1 hk
              exact track_inv hl' hu (fresh_not_mem_release hfr) (fresh_ne_zero hfr) (pks_realloc_move _ _ _ hk)

end AwsVerif.Proofs.C17

namespace AwsVerif.Proofs.C17
open AwsVerif.MemTrace

theorem release_level (s : Seq) (p : Addr) : (s.release p).1.tr.level = s.tr.level := by
  unfold Seq.release
  split
  · rfl
  · split
    · rfl
    · exact level_untrack _ _

theorem step_level (s : Seq) (op : Op) : (s.step op).1.tr.level = s.tr.level := by
  cases op with
  | acquire dest sz sid => simp only [Seq.step]; split <;> simp [level_track]
  | calloc dest n sz sid => simp only [Seq.step]; split <;> simp [level_track]
  | release p => exact release_level s p
  | dump => rfl
  | fill p seed => rfl
  | realloc p old new dest sid =>
    simp only [Seq.step]
    split
    · have := release_level s p
      revert this
      cases hr : s.release p with
      | mk s' r => intro this; cases r <;> exact this
    · split
      · split <;> simp [level_track, level_untrack]
      · split
        · rfl
        · split <;> simp [level_track, level_untrack]

theorem run_level (s : Seq) (ops : List Op) : (s.run ops).tr.level = s.tr.level := by
  induction ops generalizing s with
  | nil => rfl
  | cons o r ih => simp only [Seq.run, List.foldl_cons] at ih ⊢; rw [ih, step_level]

theorem run_inv (s : Seq) (ops : List Op) (hl : s.tr.level ≠ .none) (h : SeqInv s) : SeqInv (s.run ops) := by
  induction ops generalizing s with
  | nil => exact h
  | cons o r ih =>
    simp only [Seq.run, List.foldl_cons] at ih ⊢
    have := step_inv o hl h
    exact ih _ (by rw [this.2]; exact hl) this.1

theorem new_level (lvl : Level) (frames : Nat) (par0 : Parent) (bt : Bool) :
    (Seq.new lvl frames par0 bt).tr.level = effLevel lvl bt := by
  simp [Seq.new, Tracer.new]

theorem new_inv (lvl : Level) (frames : Nat) (par0 : Parent) (bt : Bool) (h0 : par0.blocks = []) :
    SeqInv (Seq.new lvl frames par0 bt) :=
  ⟨by simp [Seq.new, Tracer.new, ks, pks, h0], by simp [Seq.new, pks, h0], by simp [Seq.new, Tracer.new, pks, sumSnd, h0],
   by simp [Seq.new, pks, h0]⟩

/-- Σ requested sizes of the live blocks -/
def liveBytes (p : Parent) : Nat := (p.blocks.map (·.2.size)).sum

theorem liveBytes_eq (p : Parent) : liveBytes p = sumSnd (pks p) := by
  simp [liveBytes, sumSnd, pks, List.map_map, Function.comp_def]

theorem seq_main (lvl : Level) (frames : Nat) (par0 : Parent) (bt : Bool) (h0 : par0.blocks = []) (ops : List Op) :
    ((Seq.new lvl frames par0 bt).run ops).tr.bytes =
        (if effLevel lvl bt = .none then 0 else liveBytes ((Seq.new lvl frames par0 bt).run ops).par % W) ∧
    ((Seq.new lvl frames par0 bt).run ops).tr.count =
        (if effLevel lvl bt = .none then 0 else ((Seq.new lvl frames par0 bt).run ops).par.blocks.length) := by
  have hlev := run_level (Seq.new lvl frames par0 bt) ops
  rw [new_level] at hlev
  by_cases hn : effLevel lvl bt = .none
  · simp [Tracer.bytes, Tracer.count, hlev, hn]
  · have hi := run_inv (Seq.new lvl frames par0 bt) ops (by rw [new_level]; exact hn) (new_inv lvl frames par0 bt h0)
    simp only [Tracer.bytes, Tracer.count, hlev, hn, if_false]
    refine ⟨by rw [liveBytes_eq]; exact hi.acct, ?_⟩
    have := congrArg List.length hi.same
    simpa [ks, pks] using this

end AwsVerif.Proofs.C17
