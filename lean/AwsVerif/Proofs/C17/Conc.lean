import AwsVerif.Proofs.C17.Basic
/-! Interleavings: the accounting invariant of the tracer under every schedule. -/
namespace AwsVerif.Proofs.C17
open AwsVerif.MemTrace

/-- what the invariant needs to know about an operation in flight -/
structure Attr where
  /-- bytes it has added to `allocated` for a block not yet in the table -/
  added : Nat := 0
  /-- bytes it has subtracted for an entry still in the table -/
  subbed : Nat := 0
  /-- the block (address) this operation owns: nobody else may name it -/
  held : Option Addr := none
  /-- the table entry (address, size) this operation accounts for -/
  tbl : Option (Addr × Nat) := none
deriving DecidableEq

def Attr.zero : Attr := ⟨0, 0, none, none⟩

def hold (a : Addr) : Option Addr := if a = 0 then none else some a

def attr : PC → Attr
  | .done => .zero
  | .parAcq _ _ => .zero
  | .trk .add a _ _ _ => ⟨0, 0, some a, none⟩
  | .trk .stkLock a sz _ _ | .trk .stkCreate a sz _ _ | .trk .stkUnlock a sz _ _
  | .trk .putLock a sz _ _ | .trk .put a sz _ _ => ⟨sz, 0, some a, none⟩
  | .trk .putUnlock a sz _ _ => ⟨0, 0, some a, some (a, sz)⟩
  | .unt .lock a g _ | .unt .find a g _ => ⟨0, 0, hold a, g.map (fun s => (a, s))⟩
  | .unt (.sub sz) a _ _ => ⟨0, 0, hold a, some (a, sz)⟩
  | .unt (.remove sz) a _ _ => ⟨0, sz, hold a, some (a, sz)⟩
  | .unt .unlock a _ _ => ⟨0, 0, hold a, none⟩
  | .parFree a => ⟨0, 0, hold a, none⟩
  | .parRealloc a _ _ _ => ⟨0, 0, hold a, none⟩
  | .ro _ _ => .zero

def tblSz (x : Attr) : Nat := match x.tbl with | some (_, s) => s | none => 0
def tblCnt (x : Attr) : Nat := match x.tbl with | some _ => 1 | none => 0

def sumBy (f : Attr → Nat) (as : List Attr) : Nat := (as.map f).sum
def heldL (as : List Attr) : List Addr := as.filterMap (·.held)
def tblL (as : List Attr) : List (Addr × Nat) := as.filterMap (·.tbl)
def ownedBytes (ow : List (Addr × Nat)) : Nat := (ow.map (·.2)).sum

/-- the invariant, over: the atomic counter, the table, the wrapped allocator's liveness predicate,
the client's blocks, and the attributes of the operations in flight -/
structure Inv (al : Nat) (t : Table) (live : Addr → Bool) (ow : List (Addr × Nat)) (as : List Attr) : Prop where
  acct : (al + sumBy (·.subbed) as) % W = (t.bytes + sumBy (·.added) as) % W
  lt : al < W
  tblBytes : t.bytes = ownedBytes ow + sumBy tblSz as
  tblCount : t.length = ow.length + sumBy tblCnt as
  nodup : (ow.map (·.1) ++ heldL as).Nodup
  liveOK : ∀ a ∈ ow.map (·.1) ++ heldL as, live a = true ∧ a ≠ 0
  keysOK : ∀ a ∈ keys t, a ∈ ow.map (·.1) ∨ a ∈ (tblL as).map (·.1)
  tblHeld : ∀ x ∈ as, ∀ a g, x.tbl = some (a, g) → x.held = some a
  tblFound : ∀ e ∈ tblL as, ∃ i, t.lookup e.1 = some i ∧ i.size = e.2
  ownedFound : ∀ e ∈ ow, ∃ i, t.lookup e.1 = some i ∧ i.size = e.2
  keysNodup : (keys t).Nodup

section simpset
variable (l1 l2 : List Attr) (x : Attr)
@[simp] theorem sumBy_mid (f : Attr → Nat) : sumBy f (l1 ++ x :: l2) = sumBy f l1 + f x + sumBy f l2 := by
  simp [sumBy, Nat.add_assoc]
@[simp] theorem sumBy_nil (f : Attr → Nat) : sumBy f [] = 0 := rfl
theorem heldL_mid : heldL (l1 ++ x :: l2) = heldL l1 ++ (x.held.toList ++ heldL l2) := by
  cases h : x.held <;> simp [heldL, List.filterMap_append, h]
theorem tblL_mid : tblL (l1 ++ x :: l2) = tblL l1 ++ (x.tbl.toList ++ tblL l2) := by
  cases h : x.tbl <;> simp [tblL, List.filterMap_append, h]
end simpset

/-- L1: an operation with no attributes joins the pool -/
theorem inv_append_zero {al t live ow as} (h : Inv al t live ow as) : Inv al t live ow (as ++ [Attr.zero]) := by
  obtain ⟨h1, h2, h3, h4, h5, h6, h7, h8, h9, h10, h11⟩ := h
  have e1 : heldL (as ++ [Attr.zero]) = heldL as := by simp [heldL, Attr.zero]
  have e2 : tblL (as ++ [Attr.zero]) = tblL as := by simp [tblL, Attr.zero]
  refine ⟨?_, h2, ?_, ?_, by rw [e1]; exact h5, by rw [e1]; exact h6, by rw [e2]; exact h7, ?_, by rw [e2]; exact h9, h10, h11⟩
  · simpa [Attr.zero] using h1
  · simpa [tblSz, Attr.zero] using h3
  · simpa [tblCnt, Attr.zero] using h4
  · intro x hx a g hg
    rcases List.mem_append.1 hx with hx | hx
    · exact h8 x hx a g hg
    · simp only [List.mem_singleton] at hx; subst hx; cases hg

/-- L4: `fetch_add` -/
theorem inv_fetch_add {al t live ow l1 l2 a sz}
    (h : Inv al t live ow (l1 ++ ⟨0, 0, some a, none⟩ :: l2)) :
    Inv ((al + sz) % W) t live ow (l1 ++ ⟨sz, 0, some a, none⟩ :: l2) := by
  obtain ⟨h1, h2, h3, h4, h5, h6, h7, h8, h9, h10, h11⟩ := h
  refine ⟨?_, Nat.mod_lt _ (by simp [W]), ?_, ?_, ?_, ?_, ?_, ?_, ?_, h10, h11⟩
  · simp only [sumBy_mid, W] at h1 ⊢; omega
  · simpa [tblSz] using h3
  · simpa [tblCnt] using h4
  · simpa [heldL_mid] using h5
  · simpa [heldL_mid] using h6
  · simpa [tblL_mid] using h7
  · intro x hx a' g hg
    simp only [List.mem_append, List.mem_cons] at hx
    rcases hx with hx | rfl | hx
    · exact h8 x (by simp [hx]) a' g hg
    · cases hg
    · exact h8 x (by simp [hx]) a' g hg
  · simpa [tblL_mid] using h9

/-! helpers -/

theorem forall_mem_replace {P : Attr → Prop} {l1 l2 : List Attr} {x x' : Attr}
    (h : ∀ y ∈ l1 ++ x :: l2, P y) (hx : P x') : ∀ y ∈ l1 ++ x' :: l2, P y := by
  intro y hy
  simp only [List.mem_append, List.mem_cons] at hy
  rcases hy with hy | rfl | hy
  · exact h y (by simp [hy])
  · exact hx
  · exact h y (by simp [hy])

theorem mem_heldL_of_tbl {l : List Attr} (hh : ∀ x ∈ l, ∀ a g, x.tbl = some (a, g) → x.held = some a)
    {e : Addr × Nat} (he : e ∈ tblL l) : e.1 ∈ heldL l := by
  simp only [tblL, List.mem_filterMap] at he
  obtain ⟨y, hy, hyt⟩ := he
  simp only [heldL, List.mem_filterMap]
  exact ⟨y, hy, hh y hy e.1 e.2 hyt⟩

/-- the block an operation holds is named by nobody else -/
theorem held_unique {ow : List (Addr × Nat)} {l1 l2 : List Attr} {x : Attr} {a : Addr}
    (hn : (ow.map (·.1) ++ heldL (l1 ++ x :: l2)).Nodup) (hx : x.held = some a) :
    a ∉ ow.map (·.1) ∧ a ∉ heldL l1 ∧ a ∉ heldL l2 := by
  rw [heldL_mid, hx] at hn
  simp only [Option.toList_some, List.nodup_append, List.nodup_cons, List.mem_append, List.mem_cons,
    List.singleton_append, ne_eq] at hn
  obtain ⟨_, ⟨_, ⟨hna, _⟩, h3⟩, h4⟩ := hn
  refine ⟨fun hm => ?_, fun hm => ?_, hna⟩
  · exact h4 a hm a (Or.inr (Or.inl rfl)) rfl
  · exact h3 a hm a (Or.inl rfl) rfl

section
variable {al : Nat} {t : Table} {live : Addr → Bool} {ow : List (Addr × Nat)} {l1 l2 : List Attr} {x : Attr}

theorem tblHeld_parts (h : Inv al t live ow (l1 ++ x :: l2)) :
    (∀ y ∈ l1, ∀ a g, y.tbl = some (a, g) → y.held = some a) ∧
    (∀ y ∈ l2, ∀ a g, y.tbl = some (a, g) → y.held = some a) :=
  ⟨fun y hy => h.tblHeld y (by simp [hy]), fun y hy => h.tblHeld y (by simp [hy])⟩

/-- an address held by an operation that accounts for no table entry is not in the table -/
theorem not_mem_keys_of_held (h : Inv al t live ow (l1 ++ x :: l2)) {a : Addr}
    (hx : x.held = some a) (ht : x.tbl = none) : a ∉ keys t := by
  intro hm
  obtain ⟨u1, u2, u3⟩ := held_unique h.nodup hx
  obtain ⟨p1, p2⟩ := tblHeld_parts h
  rcases h.keysOK a hm with h' | h'
  · exact u1 h'
  · rw [tblL_mid, ht] at h'
    simp only [Option.toList_none, List.nil_append, List.map_append, List.mem_append, List.mem_map] at h'
    rcases h' with ⟨e, he, rfl⟩ | ⟨e, he, rfl⟩
    · exact u2 (mem_heldL_of_tbl p1 he)
    · exact u3 (mem_heldL_of_tbl p2 he)

/-- address 0 is never in the table -/
theorem zero_not_mem_keys {as : List Attr} (h : Inv al t live ow as) : 0 ∉ keys t := by
  intro hm
  rcases h.keysOK 0 hm with h' | h'
  · exact (h.liveOK 0 (by simp [h'])).2 rfl
  · simp only [List.mem_map] at h'
    obtain ⟨e, he, h0⟩ := h'
    have := mem_heldL_of_tbl h.tblHeld he
    rw [h0] at this
    exact (h.liveOK 0 (by simp [this])).2 rfl
end

section steps
variable {al : Nat} {t : Table} {live : Addr → Bool} {ow : List (Addr × Nat)} {l1 l2 : List Attr}

/-- L5: `hash_table_put` of a block whose bytes were already added -/
theorem inv_put {a sz : Nat} {i : Info} (hi : i.size = sz)
    (h : Inv al t live ow (l1 ++ ⟨sz, 0, some a, none⟩ :: l2)) :
    Inv al (t.put a i) live ow (l1 ++ ⟨0, 0, some a, some (a, sz)⟩ :: l2) := by
  have hk : a ∉ keys t := not_mem_keys_of_held h rfl rfl
  obtain ⟨u1, u2, u3⟩ := held_unique h.nodup (x := ⟨sz, 0, some a, none⟩) rfl
  obtain ⟨p1, p2⟩ := tblHeld_parts h
  obtain ⟨h1, h2, h3, h4, h5, h6, h7, h8, h9, h10, h11⟩ := h
  refine ⟨?_, h2, ?_, ?_, ?_, ?_, ?_, ?_, ?_, ?_, ?_⟩
  · rw [bytes_put_fresh i hk, hi]; simp only [sumBy_mid, W] at h1 ⊢; omega
  · rw [bytes_put_fresh i hk, hi]; simp only [sumBy_mid, tblSz] at h3 ⊢; omega
  · rw [length_put_fresh i hk]; simp only [sumBy_mid, tblCnt] at h4 ⊢; omega
  · simpa [heldL_mid] using h5
  · simpa [heldL_mid] using h6
  · intro b hb
    rw [keys_put_fresh i hk] at hb
    rw [tblL_mid]
    rcases List.mem_cons.1 hb with rfl | hb
    · right; simp
    · rcases h7 b hb with h' | h'
      · exact Or.inl h'
      · right
        rw [tblL_mid] at h'
        simp only [Option.toList_none, List.nil_append, List.map_append, List.mem_append] at h'
        simp only [Option.toList_some, List.singleton_append, List.map_append, List.map_cons, List.mem_append, List.mem_cons]
        rcases h' with h' | h'
        · exact Or.inl h'
        · exact Or.inr (Or.inr h')
  · exact forall_mem_replace h8 (by intro a' g hg; simp only [Option.some.injEq, Prod.mk.injEq] at hg; simp [hg.1])
  · intro e he
    rw [tblL_mid] at he
    simp only [Option.toList_some, List.singleton_append, List.mem_append, List.mem_cons] at he
    have old : e ∈ tblL l1 ∨ e ∈ tblL l2 → ∃ i', List.lookup e.1 (t.put a i) = some i' ∧ i'.size = e.2 := by
      intro hm
      have hne : e.1 ≠ a := by
        rcases hm with hm | hm
        · exact fun hh => u2 (hh ▸ mem_heldL_of_tbl p1 hm)
        · exact fun hh => u3 (hh ▸ mem_heldL_of_tbl p2 hm)
      rw [lookup_put_ne i hne]
      apply h9
      rw [tblL_mid]
      simp only [Option.toList_none, List.nil_append, List.mem_append]
      exact hm
    rcases he with he | rfl | he
    · exact old (Or.inl he)
    · exact ⟨i, lookup_put_self t a i, hi⟩
    · exact old (Or.inr he)
  · intro e he
    have hne : e.1 ≠ a := fun hh => u1 (hh ▸ List.mem_map_of_mem (f := (·.1)) he)
    rw [lookup_put_ne i hne]
    exact h10 e he
  · rw [keys_put_fresh i hk]
    exact List.nodup_cons.2 ⟨hk, h11⟩

/-- L6: the block is handed to the client -/
theorem inv_return {a sz : Nat}
    (h : Inv al t live ow (l1 ++ ⟨0, 0, some a, some (a, sz)⟩ :: l2)) :
    Inv al t live ((a, sz) :: ow) (l1 ++ Attr.zero :: l2) := by
  obtain ⟨u1, u2, u3⟩ := held_unique h.nodup (x := ⟨0, 0, some a, some (a, sz)⟩) rfl
  obtain ⟨h1, h2, h3, h4, h5, h6, h7, h8, h9, h10, h11⟩ := h
  refine ⟨?_, h2, ?_, ?_, ?_, ?_, ?_, ?_, ?_, ?_, h11⟩
  · simpa [Attr.zero] using h1
  · simp only [sumBy_mid, tblSz, ownedBytes, Attr.zero, List.map_cons, List.sum_cons] at h3 ⊢; omega
  · simp only [sumBy_mid, tblCnt, Attr.zero, List.length_cons] at h4 ⊢; omega
  · rw [heldL_mid] at h5 ⊢
    simp only [Option.toList_some, List.singleton_append, List.nodup_append, List.nodup_cons, List.mem_append,
      List.mem_cons, ne_eq, Attr.zero, Option.toList_none, List.nil_append, List.map_cons, List.mem_map] at h5 ⊢
    obtain ⟨n1, ⟨n2, ⟨_, n3⟩, n4⟩, n5⟩ := h5
    refine ⟨⟨?_, n1⟩, ⟨n2, n3, fun x hx y hy => n4 x hx y (Or.inr hy)⟩, ?_⟩
    · rintro ⟨e, he, rfl⟩; exact u1 (List.mem_map_of_mem (f := (·.1)) he)
    · intro x hx y hy
      rcases hx with rfl | hx
      · rcases hy with hy | hy
        · exact fun hh => u2 (hh ▸ hy)
        · exact fun hh => u3 (hh ▸ hy)
      · exact n5 x hx y (by rcases hy with hy | hy; exact Or.inl hy; exact Or.inr (Or.inr hy))
  · intro b hb
    apply h6
    rw [heldL_mid] at hb ⊢
    simp only [Attr.zero, Option.toList_none, List.nil_append, List.map_cons, List.mem_append, List.mem_cons,
      Option.toList_some, List.singleton_append] at hb ⊢
    rcases hb with (rfl | hb) | hb | hb
    · exact Or.inr (Or.inr (Or.inl rfl))
    · exact Or.inl hb
    · exact Or.inr (Or.inl hb)
    · exact Or.inr (Or.inr (Or.inr hb))
  · intro b hb
    rcases h7 b hb with h' | h'
    · left; simp only [List.map_cons, List.mem_cons]; exact Or.inr h'
    · rw [tblL_mid] at h' ⊢
      simp only [Option.toList_some, List.singleton_append, List.map_append, List.map_cons, List.mem_append,
        List.mem_cons, Attr.zero, Option.toList_none, List.nil_append] at h' ⊢
      rcases h' with h' | rfl | h'
      · exact Or.inr (Or.inl h')
      · exact Or.inl (Or.inl rfl)
      · exact Or.inr (Or.inr h')
  · exact forall_mem_replace h8 (by intro a' g hg; cases hg)
  · intro e he
    apply h9
    rw [tblL_mid] at he ⊢
    simp only [Attr.zero, Option.toList_none, List.nil_append, List.mem_append, Option.toList_some,
      List.singleton_append, List.mem_cons] at he ⊢
    rcases he with he | he
    · exact Or.inl he
    · exact Or.inr (Or.inr he)
  · intro e he
    rcases List.mem_cons.1 he with rfl | he
    · apply h9
      rw [tblL_mid]; simp
    · exact h10 e he

/-- L7: `fetch_sub` of the size found in the table -/
theorem inv_fetch_sub {a sz : Nat} {hd : Option Addr}
    (h : Inv al t live ow (l1 ++ ⟨0, 0, hd, some (a, sz)⟩ :: l2)) :
    Inv ((al + (W - sz % W)) % W) t live ow (l1 ++ ⟨0, sz, hd, some (a, sz)⟩ :: l2) := by
  obtain ⟨h1, h2, h3, h4, h5, h6, h7, h8, h9, h10, h11⟩ := h
  refine ⟨?_, Nat.mod_lt _ (by simp [W]), ?_, ?_, ?_, ?_, ?_, ?_, ?_, h10, h11⟩
  · simp only [sumBy_mid, W] at h1 ⊢; omega
  · simpa [tblSz] using h3
  · simpa [tblCnt] using h4
  · simpa [heldL_mid] using h5
  · simpa [heldL_mid] using h6
  · simpa [tblL_mid] using h7
  · exact forall_mem_replace h8 (by intro a' g hg; exact h8 ⟨0, 0, hd, some (a, sz)⟩ (by simp) a' g hg)
  · simpa [tblL_mid] using h9

/-- L8: `remove_element` of the entry whose size was subtracted -/
theorem inv_remove {a sz : Nat}
    (h : Inv al t live ow (l1 ++ ⟨0, sz, some a, some (a, sz)⟩ :: l2)) :
    Inv al (t.erase a) live ow (l1 ++ ⟨0, 0, some a, none⟩ :: l2) := by
  obtain ⟨u1, u2, u3⟩ := held_unique h.nodup (x := ⟨0, sz, some a, some (a, sz)⟩) rfl
  obtain ⟨p1, p2⟩ := tblHeld_parts h
  obtain ⟨i, hlk, hsz⟩ := h.tblFound (a, sz) (by rw [tblL_mid]; simp)
  have hlk' : t.lookup a = some i := hlk
  have hsz' : i.size = sz := hsz
  obtain ⟨hb, hlen⟩ := bytes_length_erase h.keysNodup hlk'
  rw [hsz'] at hb
  obtain ⟨h1, h2, h3, h4, h5, h6, h7, h8, h9, h10, h11⟩ := h
  refine ⟨?_, h2, ?_, ?_, ?_, ?_, ?_, ?_, ?_, ?_, nodup_keys_erase a h11⟩
  · simp only [sumBy_mid, W] at h1 ⊢; omega
  · simp only [sumBy_mid, tblSz] at h3 ⊢; omega
  · simp only [sumBy_mid, tblCnt] at h4 ⊢; omega
  · simpa [heldL_mid] using h5
  · simpa [heldL_mid] using h6
  · intro b hb'
    obtain ⟨hbk, hne⟩ := mem_keys_erase.1 hb'
    have := h7 b hbk
    rw [tblL_mid] at this ⊢
    simp only [Option.toList_some, List.singleton_append, List.map_append, List.map_cons, List.mem_append,
      List.mem_cons, Option.toList_none, List.nil_append] at this ⊢
    grind
  · exact forall_mem_replace h8 (by intro a' g hg; cases hg)
  · intro e he
    rw [tblL_mid] at he
    simp only [Option.toList_none, List.nil_append, List.mem_append] at he
    have hne : e.1 ≠ a := by
      rcases he with he | he
      · exact fun hh => u2 (hh ▸ mem_heldL_of_tbl p1 he)
      · exact fun hh => u3 (hh ▸ mem_heldL_of_tbl p2 he)
    rw [lookup_erase_ne hne]
    apply h9
    rw [tblL_mid]
    simp only [Option.toList_some, List.singleton_append, List.mem_append, List.mem_cons]
    rcases he with he | he
    · exact Or.inl he
    · exact Or.inr (Or.inr he)
  · intro e he
    have hne : e.1 ≠ a := fun hh => u1 (hh ▸ List.mem_map_of_mem (f := (·.1)) he)
    rw [lookup_erase_ne hne]
    exact h10 e he

theorem owned_erase {ow : List (Addr × Nat)} {a g : Nat} (hn : (ow.map (·.1)).Nodup) (hl : ow.lookup a = some g) :
    ownedBytes ow = g + ownedBytes (eraseOwned ow a) ∧ ow.length = (eraseOwned ow a).length + 1 ∧ (a, g) ∈ ow := by
  induction ow with
  | nil => cases hl
  | cons e r ih =>
    obtain ⟨k, v⟩ := e
    simp only [List.map_cons, List.nodup_cons] at hn
    by_cases hk : a = k
    · subst hk
      have hv : v = g := by simpa [List.lookup_cons] using hl
      subst hv
      have : eraseOwned ((a, v) :: r) a = r := by
        simp only [eraseOwned, List.filter_cons, bne_self_eq_false, Bool.false_eq_true, ↓reduceIte, List.filter_eq_self,
          bne_iff_ne, ne_eq]
        intro e he h'
        exact hn.1 (h' ▸ List.mem_map_of_mem (f := (·.1)) he)
      rw [this]
      simp [ownedBytes]
    · have hb : (a == k) = false := by simp [hk]
      have h' : List.lookup a r = some g := by simpa [List.lookup_cons, hb] using hl
      obtain ⟨i1, i2, i3⟩ := ih hn.2 h'
      have hk' : ¬ k = a := fun h => hk h.symm
      have he : eraseOwned ((k, v) :: r) a = (k, v) :: eraseOwned r a := by
        simp [eraseOwned, hk']
      rw [he]
      simp only [ownedBytes, List.map_cons, List.sum_cons, List.length_cons, List.mem_cons] at i1 ⊢
      exact ⟨by omega, by omega, Or.inr i3⟩

theorem mem_eraseOwned {ow : List (Addr × Nat)} {a : Addr} {e : Addr × Nat} :
    e ∈ eraseOwned ow a ↔ e ∈ ow ∧ e.1 ≠ a := by
  simp [eraseOwned]

/-- L2: the client hands a block back (it leaves `owned`, the operation now accounts for its entry) -/
theorem inv_start_release {a g : Nat} (hl : ow.lookup a = some g)
    (h : Inv al t live ow (l1 ++ Attr.zero :: l2)) :
    Inv al t live (eraseOwned ow a) (l1 ++ ⟨0, 0, some a, some (a, g)⟩ :: l2) := by
  have hno : (ow.map (·.1)).Nodup := (List.nodup_append.1 h.nodup).1
  obtain ⟨e1, e2, e3⟩ := owned_erase hno hl
  have hmem : ∀ b, b ∈ (eraseOwned ow a).map (·.1) ↔ b ∈ ow.map (·.1) ∧ b ≠ a := by
    intro b
    simp only [List.mem_map, mem_eraseOwned]
    constructor
    · rintro ⟨e, ⟨he, hne⟩, rfl⟩; exact ⟨⟨e, he, rfl⟩, hne⟩
    · rintro ⟨⟨e, he, rfl⟩, hne⟩; exact ⟨e, ⟨he, hne⟩, rfl⟩
  have hno' : ((eraseOwned ow a).map (·.1)).Nodup := by
    have : (eraseOwned ow a).map (·.1) = (ow.map (·.1)).filter (· != a) := by
      simp [eraseOwned, List.filter_map, Function.comp_def]
    rw [this]; exact List.Nodup.sublist List.filter_sublist hno
  have ha : a ∈ ow.map (·.1) := List.mem_map_of_mem (f := (·.1)) e3
  obtain ⟨h1, h2, h3, h4, h5, h6, h7, h8, h9, h10, h11⟩ := h
  refine ⟨?_, h2, ?_, ?_, ?_, ?_, ?_, ?_, ?_, ?_, h11⟩
  · simpa [Attr.zero] using h1
  · simp only [sumBy_mid, tblSz, Attr.zero] at h3 ⊢; omega
  · simp only [sumBy_mid, tblCnt, Attr.zero] at h4 ⊢; omega
  · rw [heldL_mid] at h5 ⊢
    simp only [Attr.zero, Option.toList_none, List.nil_append, Option.toList_some, List.singleton_append,
      List.nodup_append, List.nodup_cons, List.mem_append, List.mem_cons] at h5 ⊢
    grind
  · intro b hb
    apply h6
    rw [heldL_mid] at hb ⊢
    simp only [Attr.zero, Option.toList_none, List.nil_append, Option.toList_some, List.singleton_append,
      List.mem_append, List.mem_cons] at hb ⊢
    grind
  · intro b hb
    have := h7 b hb
    rw [tblL_mid] at this ⊢
    simp only [Attr.zero, Option.toList_none, List.nil_append, Option.toList_some, List.singleton_append,
      List.map_append, List.map_cons, List.mem_append, List.mem_cons] at this ⊢
    grind
  · exact forall_mem_replace h8 (by intro a' g' hg; simp only [Option.some.injEq, Prod.mk.injEq] at hg; simp [hg.1])
  · intro e he
    rw [tblL_mid] at he
    simp only [Option.toList_some, List.singleton_append, List.mem_append, List.mem_cons] at he
    rcases he with he | rfl | he
    · exact h9 e (by rw [tblL_mid]; simp [he])
    · exact h10 _ e3
    · exact h9 e (by rw [tblL_mid]; simp [he])
  · intro e he
    exact h10 e (mem_eraseOwned.1 he).1

/-- the invariant sees the wrapped allocator only through its liveness predicate on held blocks -/
theorem inv_live_congr {live' : Addr → Bool} {as : List Attr}
    (hc : ∀ a, a ∈ ow.map (·.1) ++ heldL as → live a = true → live' a = true)
    (h : Inv al t live ow as) : Inv al t live' ow as := by
  obtain ⟨h1, h2, h3, h4, h5, h6, h7, h8, h9, h10, h11⟩ := h
  exact ⟨h1, h2, h3, h4, h5, fun a ha => ⟨hc a ha (h6 a ha).1, (h6 a ha).2⟩, h7, h8, h9, h10, h11⟩

/-- L3/L10: the wrapped allocator answers with a fresh address `o`, which replaces whatever the
operation held before (`hd`: nothing for acquire, the old block for a moving realloc) -/
theorem inv_parent_new {o : Addr} {hd : Option Addr} {live' : Addr → Bool}
    (ho : o ≠ 0) (hf : live o = false) (hl' : live' o = true)
    (hmono : ∀ a, a ∈ ow.map (·.1) ++ heldL (l1 ++ ⟨0, 0, hd, none⟩ :: l2) → hd ≠ some a → live a = true → live' a = true)
    (h : Inv al t live ow (l1 ++ ⟨0, 0, hd, none⟩ :: l2)) :
    Inv al t live' ow (l1 ++ ⟨0, 0, some o, none⟩ :: l2) := by
  have hfresh : o ∉ ow.map (·.1) ++ heldL (l1 ++ ⟨0, 0, hd, none⟩ :: l2) := by
    intro hm
    have := (h.liveOK o hm).1
    rw [hf] at this; cases this
  obtain ⟨h1, h2, h3, h4, h5, h6, h7, h8, h9, h10, h11⟩ := h
  refine ⟨?_, h2, ?_, ?_, ?_, ?_, ?_, ?_, ?_, h10, h11⟩
  · simpa using h1
  · simpa [tblSz] using h3
  · simpa [tblCnt] using h4
  · rw [heldL_mid] at h5 hfresh ⊢
    cases hd <;>
    · simp only [Option.toList_none, List.nil_append, Option.toList_some, List.singleton_append,
        List.nodup_append, List.nodup_cons, List.mem_append, List.mem_cons] at h5 hfresh ⊢
      grind
  · intro b hb
    rw [heldL_mid] at hb hmono hfresh h6 h5
    cases hd <;>
    · simp only [Option.toList_none, List.nil_append, Option.toList_some, List.singleton_append,
        List.mem_append, List.mem_cons, List.nodup_append, List.nodup_cons] at hb hmono hfresh h6 h5
      grind
  · simpa [tblL_mid] using h7
  · exact forall_mem_replace h8 (by intro a' g hg; cases hg)
  · simpa [tblL_mid] using h9

/-- L9: the block goes back to the wrapped allocator -/
theorem inv_parent_free {a : Addr} {live' : Addr → Bool}
    (hmono : ∀ b, b ≠ a → live b = true → live' b = true)
    (h : Inv al t live ow (l1 ++ ⟨0, 0, some a, none⟩ :: l2)) :
    Inv al t live' ow (l1 ++ Attr.zero :: l2) := by
  obtain ⟨u1, u2, u3⟩ := held_unique h.nodup (x := ⟨0, 0, some a, none⟩) rfl
  obtain ⟨h1, h2, h3, h4, h5, h6, h7, h8, h9, h10, h11⟩ := h
  refine ⟨?_, h2, ?_, ?_, ?_, ?_, ?_, ?_, ?_, h10, h11⟩
  · simpa [Attr.zero] using h1
  · simpa [tblSz, Attr.zero] using h3
  · simpa [tblCnt, Attr.zero] using h4
  · rw [heldL_mid] at h5 ⊢
    simp only [Attr.zero, Option.toList_none, List.nil_append, Option.toList_some, List.singleton_append,
      List.nodup_append, List.nodup_cons, List.mem_append, List.mem_cons] at h5 ⊢
    grind
  · intro b hb
    rw [heldL_mid] at hb h6
    simp only [Attr.zero, Option.toList_none, List.nil_append, Option.toList_some, List.singleton_append,
      List.mem_append, List.mem_cons] at hb h6
    have hne : b ≠ a := by grind
    have := h6 b (by grind)
    exact ⟨hmono b hne this.1, this.2⟩
  · simpa [tblL_mid, Attr.zero] using h7
  · exact forall_mem_replace h8 (by intro a' g hg; cases hg)
  · simpa [tblL_mid, Attr.zero] using h9

end steps

/-! ### the wrapped allocator's liveness under its operations -/

theorem live_acquire (p : Parent) (o sz : Nat) (b : Addr) : (p.acquire o sz).live b = (o == b || p.live b) := by
  simp [Parent.live, Parent.acquire, List.any_cons]

theorem live_calloc (p : Parent) (o n s : Nat) (b : Addr) : (p.calloc o n s).live b = (o == b || p.live b) := by
  simp [Parent.live, Parent.calloc, List.any_cons]

theorem live_release (p : Parent) (a b : Addr) : (p.release a).live b = (b != a && p.live b) := by
  simp only [Parent.live, Parent.release, List.any_filter]
  induction p.blocks with
  | nil => simp
  | cons e r ih =>
    simp only [List.any_cons, ih]
    by_cases h1 : e.1 = b
    · subst h1; cases h2 : (e.1 != a) <;> simp
    · have : (e.1 == b) = false := by simp [h1]
      simp [this]

theorem live_reallocNull (p : Parent) (o new : Nat) (b : Addr) : (p.reallocNull o new).live b = (o == b || p.live b) := by
  simp [Parent.live, Parent.reallocNull, List.any_cons]

theorem live_realloc_move (p : Parent) {a o : Addr} (old new : Nat) (h : o ≠ a) (b : Addr) :
    (p.realloc a old new o).live b = (o == b || (b != a && p.live b)) := by
  simp only [Parent.realloc, h, if_false]
  have := live_release p a b
  simp only [Parent.live] at this ⊢
  split <;> simp [List.any_cons, this]

theorem live_realloc_keep (p : Parent) {a : Addr} (old new : Nat) (h : p.live a = true) (b : Addr) :
    (p.realloc a old new a).live b = p.live b := by
  simp only [Parent.realloc, if_true]
  cases hg : p.get a with
  | none => rfl
  | some blk =>
    have := live_release p a b
    simp only [Parent.live] at this h ⊢
    simp only [List.any_cons, this]
    by_cases hb : b = a
    · subst hb; simp [h]
    · have : (a == b) = false := by simp [Ne.symm hb]
      simp [this, hb]

/-! ### one action of one operation -/

theorem hold_ne {a : Addr} (h : a ≠ 0) : hold a = some a := by simp [hold, h]

theorem level_fetchAdd (t : Tracer) (n : Nat) : (fetchAdd t n).level = t.level := rfl

section advance
variable {lvl : Level} {sh sh' : Sh} {o : Addr} {pc pc' : PC} {l1 l2 : List Attr}

abbrev ShInv (sh : Sh) (as : List Attr) : Prop :=
  Inv sh.tr.allocated sh.tr.allocs sh.par.live sh.owned as

theorem takeLock_eq {q : PC} (h : takeLock sh q = some (sh', pc')) :
    sh'.tr = sh.tr ∧ sh'.par = sh.par ∧ sh'.owned = sh.owned ∧ pc' = q := by
  unfold takeLock at h
  split at h
  · cases h
  · simp only [Option.some.injEq, Prod.mk.injEq] at h
    obtain ⟨rfl, rfl⟩ := h
    exact ⟨rfl, rfl, rfl, rfl⟩

/-- every enabled action preserves the invariant (tracing levels) -/
theorem advance_inv (hl : lvl ≠ .none) (hlev : sh.tr.level = lvl)
    (h : ShInv sh (l1 ++ attr pc :: l2)) (ha : advance sh o pc = some (sh', pc')) :
    sh'.tr.level = lvl ∧ ShInv sh' (l1 ++ attr pc' :: l2) := by
  have hne : sh.tr.level ≠ .none := hlev ▸ hl
  cases pc with
  | done => simp [advance] at ha
  | parAcq r sid =>
    simp only [advance] at ha
    split at ha
    · cases ha
    · rename_i hf
      simp only [Bool.not_eq_true, Bool.not_eq_false'] at hf
      simp only [Option.some.injEq, Prod.mk.injEq] at ha
      obtain ⟨rfl, rfl⟩ := ha
      simp only [freshAddr, Bool.and_eq_true, bne_iff_ne, ne_eq, Bool.not_eq_true'] at hf
      refine ⟨hlev, ?_⟩
      simp only [attr, Attr.zero] at h ⊢
      refine inv_parent_new hf.1 hf.2 ?_ ?_ h
      · cases r <;> simp [live_acquire, live_calloc]
      · intro a _ _ hla
        cases r <;> simp [live_acquire, live_calloc, hla]
  | trk st a sz sid tm =>
    cases st with
    | add =>
      simp only [advance, if_neg hne, Option.some.injEq, Prod.mk.injEq] at ha
      obtain ⟨rfl, rfl⟩ := ha
      refine ⟨hlev, ?_⟩
      have : attr (if sh.tr.level = Level.stacks then PC.trk TSt.stkLock a sz sid sh.tr.clock
          else PC.trk TSt.putLock a sz sid sh.tr.clock) = ⟨sz, 0, some a, none⟩ := by
        split <;> rfl
      rw [this]
      exact inv_fetch_add h
    | stkLock =>
      obtain ⟨e1, e2, e3, rfl⟩ := takeLock_eq ha
      exact ⟨e1 ▸ hlev, by simp only [ShInv, e1, e2, e3]; exact h⟩
    | stkCreate =>
      simp only [advance, Option.some.injEq, Prod.mk.injEq] at ha
      obtain ⟨rfl, rfl⟩ := ha
      exact ⟨hlev, h⟩
    | stkUnlock =>
      simp only [advance, Option.some.injEq, Prod.mk.injEq] at ha
      obtain ⟨rfl, rfl⟩ := ha
      exact ⟨hlev, h⟩
    | putLock =>
      obtain ⟨e1, e2, e3, rfl⟩ := takeLock_eq ha
      exact ⟨e1 ▸ hlev, by simp only [ShInv, e1, e2, e3]; exact h⟩
    | put =>
      simp only [advance, Option.some.injEq, Prod.mk.injEq] at ha
      obtain ⟨rfl, rfl⟩ := ha
      exact ⟨hlev, inv_put (i := mkInfo sh.tr sz sid tm) rfl h⟩
    | putUnlock =>
      simp only [advance, Option.some.injEq, Prod.mk.injEq] at ha
      obtain ⟨rfl, rfl⟩ := ha
      exact ⟨hlev, inv_return h⟩
  | unt st a g k =>
    cases st with
    | lock =>
      simp only [advance, if_neg hne] at ha
      obtain ⟨e1, e2, e3, rfl⟩ := takeLock_eq ha
      exact ⟨e1 ▸ hlev, by simp only [ShInv, e1, e2, e3]; exact h⟩
    | find =>
      simp only [advance] at ha
      cases hf : sh.tr.allocs.find a with
      | none =>
        rw [hf] at ha
        simp only [Option.some.injEq, Prod.mk.injEq] at ha
        obtain ⟨rfl, rfl⟩ := ha
        refine ⟨hlev, ?_⟩
        cases g with
        | none => exact h
        | some gs =>
          exfalso
          obtain ⟨i, hi, _⟩ := h.tblFound (a, gs) (by rw [tblL_mid]; simp [attr])
          simp only [Table.find] at hf
          rw [hf] at hi; cases hi
      | some i =>
        rw [hf] at ha
        simp only [Option.some.injEq, Prod.mk.injEq] at ha
        obtain ⟨rfl, rfl⟩ := ha
        refine ⟨hlev, ?_⟩
        have hk : a ∈ keys sh.tr.allocs := mem_keys_of_lookup hf
        have ha0 : a ≠ 0 := fun h0 => zero_not_mem_keys h (h0 ▸ hk)
        cases g with
        | none =>
          exfalso
          exact not_mem_keys_of_held h (x := attr (.unt .find a none k)) (by simp [attr, hold_ne ha0]) rfl hk
        | some gs =>
          obtain ⟨i', hi', hs'⟩ := h.tblFound (a, gs) (by rw [tblL_mid]; simp [attr])
          simp only [Table.find] at hf
          have : i' = i := by simpa [hf] using hi'.symm
          subst this
          simp only at hs'
          simpa only [attr, Option.map_some, hs'] using h
    | sub sz =>
      simp only [advance, Option.some.injEq, Prod.mk.injEq] at ha
      obtain ⟨rfl, rfl⟩ := ha
      exact ⟨hlev, inv_fetch_sub h⟩
    | remove sz =>
      simp only [advance, Option.some.injEq, Prod.mk.injEq] at ha
      obtain ⟨rfl, rfl⟩ := ha
      refine ⟨hlev, ?_⟩
      have hh : hold a = some a := h.tblHeld (attr (.unt (.remove sz) a g k)) (by simp) a sz rfl
      simp only [attr, hh] at h ⊢
      exact inv_remove h
    | unlock =>
      simp only [advance, Option.some.injEq, Prod.mk.injEq] at ha
      obtain ⟨rfl, rfl⟩ := ha
      refine ⟨hlev, ?_⟩
      cases k <;> exact h
  | parFree a =>
    simp only [advance, Option.some.injEq, Prod.mk.injEq] at ha
    obtain ⟨rfl, rfl⟩ := ha
    refine ⟨hlev, ?_⟩
    by_cases ha0 : a = 0
    · subst ha0
      refine inv_live_congr ?_ h
      intro b hb hlb
      have := (h.liveOK b hb).2
      simp [live_release, this, hlb]
    · simp only [attr, hold_ne ha0] at h ⊢
      refine inv_parent_free ?_ h
      intro b hb hlb
      simp [live_release, hb, hlb]
  | parRealloc a old new sid =>
    simp only [advance] at ha
    split at ha
    · rename_i ha0
      subst ha0
      split at ha
      · cases ha
      · rename_i hf
        simp only [Bool.not_eq_true, Bool.not_eq_false'] at hf
        simp only [Option.some.injEq, Prod.mk.injEq] at ha
        obtain ⟨rfl, rfl⟩ := ha
        simp only [freshAddr, Bool.and_eq_true, bne_iff_ne, ne_eq, Bool.not_eq_true'] at hf
        refine ⟨hlev, ?_⟩
        simp only [attr, hold] at h ⊢
        refine inv_parent_new hf.1 hf.2 (by simp [live_reallocNull]) ?_ h
        intro b _ _ hlb
        simp [live_reallocNull, hlb]
    · rename_i ha0
      split at ha
      · cases ha
      split at ha
      · rename_i hoa
        subst hoa
        simp only [Option.some.injEq, Prod.mk.injEq] at ha
        obtain ⟨rfl, rfl⟩ := ha
        refine ⟨hlev, ?_⟩
        simp only [attr, hold_ne ha0] at h ⊢
        have hla : sh.par.live o = true := (h.liveOK o (by rw [heldL_mid]; simp)).1
        exact inv_live_congr (fun b _ hlb => by rw [live_realloc_keep _ _ _ hla]; exact hlb) h
      · rename_i hoa
        split at ha
        · cases ha
        · rename_i hf
          simp only [Bool.not_eq_true, Bool.not_eq_false'] at hf
          simp only [Option.some.injEq, Prod.mk.injEq] at ha
          obtain ⟨rfl, rfl⟩ := ha
          simp only [freshAddr, Bool.and_eq_true, bne_iff_ne, ne_eq, Bool.not_eq_true'] at hf
          refine ⟨hlev, ?_⟩
          simp only [attr, hold_ne ha0] at h ⊢
          refine inv_parent_new hf.1 hf.2 (by simp [live_realloc_move _ _ _ hoa]) ?_ h
          intro b _ hb hlb
          have : b ≠ a := fun hh => hb (by rw [hh])
          simp [live_realloc_move _ _ _ hoa, this, hlb]
  | ro st k =>
    cases st with
    | load =>
      simp only [advance] at ha
      split at ha <;>
      · simp only [Option.some.injEq, Prod.mk.injEq] at ha
        obtain ⟨rfl, rfl⟩ := ha
        exact ⟨hlev, h⟩
    | lock =>
      obtain ⟨e1, e2, e3, rfl⟩ := takeLock_eq ha
      exact ⟨e1 ▸ hlev, by simp only [ShInv, e1, e2, e3]; exact h⟩
    | read =>
      simp only [advance, Option.some.injEq, Prod.mk.injEq] at ha
      obtain ⟨rfl, rfl⟩ := ha
      exact ⟨hlev, h⟩
    | unlock =>
      simp only [advance, Option.some.injEq, Prod.mk.injEq] at ha
      obtain ⟨rfl, rfl⟩ := ha
      exact ⟨hlev, h⟩

end advance


/-! ### the whole system -/

structure SysInv (lvl : Level) (s : Sys) : Prop where
  level : s.sh.tr.level = lvl
  inv : ShInv s.sh (s.pool.map attr)

theorem startRelease_inv {lvl : Level} {sh sh' : Sh} {pool : List PC} {pc : PC} {a : Addr} {k : After} (ha0 : a ≠ 0)
    (h : SysInv lvl ⟨sh, pool⟩) (hs : startRelease sh a k = some (sh', pc)) : SysInv lvl ⟨sh', pool ++ [pc]⟩ := by
  unfold startRelease at hs
  cases hl : sh.owned.lookup a with
  | none => rw [hl] at hs; cases hs
  | some g =>
    rw [hl] at hs
    simp only [Option.some.injEq, Prod.mk.injEq] at hs
    obtain ⟨rfl, rfl⟩ := hs
    refine ⟨h.level, ?_⟩
    have h0 := inv_append_zero h.inv
    have := inv_start_release (l2 := []) hl h0
    simpa [ShInv, attr, hold_ne ha0] using this

theorem start_inv {lvl : Level} {sh sh' : Sh} {pool : List PC} {pc : PC} {op : ClientOp}
    (h : SysInv lvl ⟨sh, pool⟩) (hs : start sh op = some (sh', pc)) : SysInv lvl ⟨sh', pool ++ [pc]⟩ := by
  have zero : ∀ q : PC, attr q = Attr.zero → SysInv lvl ⟨sh, pool ++ [q]⟩ := by
    intro q hq
    refine ⟨h.level, ?_⟩
    have := inv_append_zero h.inv
    simpa [ShInv, hq] using this
  cases op with
  | acquire sz sid =>
    simp only [start] at hs
    split at hs
    · cases hs
    · simp only [Option.some.injEq, Prod.mk.injEq] at hs; obtain ⟨rfl, rfl⟩ := hs; exact zero _ rfl
  | calloc n sz sid =>
    simp only [start] at hs
    split at hs
    · cases hs
    · simp only [Option.some.injEq, Prod.mk.injEq] at hs; obtain ⟨rfl, rfl⟩ := hs; exact zero _ rfl
  | release a =>
    simp only [start] at hs
    split at hs
    · simp only [Option.some.injEq, Prod.mk.injEq] at hs; obtain ⟨rfl, rfl⟩ := hs; exact zero _ rfl
    · rename_i ha0; exact startRelease_inv ha0 h hs
  | realloc a old new sid =>
    simp only [start] at hs
    split at hs
    · split at hs
      · simp only [Option.some.injEq, Prod.mk.injEq] at hs; obtain ⟨rfl, rfl⟩ := hs; exact zero _ rfl
      · rename_i ha0; exact startRelease_inv ha0 h hs
    · split at hs
      · simp only [Option.some.injEq, Prod.mk.injEq] at hs; obtain ⟨rfl, rfl⟩ := hs
        exact zero _ (by simp [attr, hold, Attr.zero])
      · rename_i ha0; exact startRelease_inv ha0 h hs
  | bytes =>
    simp only [start] at hs
    split at hs <;>
    · simp only [Option.some.injEq, Prod.mk.injEq] at hs; obtain ⟨rfl, rfl⟩ := hs; exact zero _ rfl
  | count =>
    simp only [start] at hs
    split at hs <;>
    · simp only [Option.some.injEq, Prod.mk.injEq] at hs; obtain ⟨rfl, rfl⟩ := hs; exact zero _ rfl
  | dump =>
    simp only [start, Option.some.injEq, Prod.mk.injEq] at hs; obtain ⟨rfl, rfl⟩ := hs; exact zero _ rfl

theorem pool_split {pool : List PC} {i : Nat} {pc : PC} (h : pool[i]? = some pc) (pc' : PC) :
    pool = pool.take i ++ pc :: pool.drop (i + 1) ∧ pool.set i pc' = pool.take i ++ pc' :: pool.drop (i + 1) := by
  obtain ⟨hi, rfl⟩ := List.getElem?_eq_some_iff.1 h
  refine ⟨?_, ?_⟩
  · rw [List.getElem_cons_drop hi, List.take_append_drop]
  · rw [List.set_eq_take_append_cons_drop, if_pos hi]

theorem step_inv_sys {lvl : Level} (hl : lvl ≠ .none) {s : Sys} (h : SysInv lvl s) (a : Act) : SysInv lvl (step s a) := by
  cases a with
  | start op =>
    simp only [step]
    cases hs : start s.sh op with
    | none => exact h
    | some r => obtain ⟨sh', pc⟩ := r; exact start_inv (sh := s.sh) (pool := s.pool) h hs
  | step i o =>
    simp only [step]
    cases hp : s.pool[i]? with
    | none => exact h
    | some pc =>
      simp only
      cases ha : advance s.sh o pc with
      | none => exact h
      | some r =>
        obtain ⟨sh', pc'⟩ := r
        simp only
        obtain ⟨e1, e2⟩ := pool_split hp pc'
        have hinv := h.inv
        rw [e1] at hinv
        simp only [List.map_append, List.map_cons] at hinv
        obtain ⟨q1, q2⟩ := advance_inv hl h.level hinv ha
        refine ⟨q1, ?_⟩
        simp only [e2, List.map_append, List.map_cons]
        exact q2

theorem run_inv_sys {lvl : Level} (hl : lvl ≠ .none) {s : Sys} (h : SysInv lvl s) (as : List Act) : SysInv lvl (run s as) := by
  induction as generalizing s with
  | nil => exact h
  | cons a r ih => simp only [run, List.foldl_cons] at ih ⊢; exact ih (step_inv_sys hl h a)

theorem init_inv (lvl : Level) (frames : Nat) (hr hc bt : Bool) :
    SysInv (effLevel lvl bt) (Sys.init lvl frames hr hc bt) := by
  refine ⟨by simp [Sys.init, Tracer.new], ?_⟩
  simp only [ShInv, Sys.init, Tracer.new, List.map_nil]
  exact ⟨by simp [Table.bytes], by simp [W], by simp [Table.bytes, ownedBytes], by simp, by simp [heldL],
         by simp [heldL], by simp [keys], by simp, by simp [tblL], by simp, by simp [keys]⟩

theorem attr_added (pc : PC) : (attr pc).added = addedOf pc := by
  cases pc with
  | trk st _ _ _ _ => cases st <;> rfl
  | unt st _ _ _ => cases st <;> rfl
  | _ => rfl

theorem attr_subbed (pc : PC) : (attr pc).subbed = subbedOf pc := by
  cases pc with
  | trk st _ _ _ _ => cases st <;> rfl
  | unt st _ _ _ => cases st <;> rfl
  | _ => rfl

theorem sumBy_attr_added (pool : List PC) : sumBy (·.added) (pool.map attr) = (pool.map addedOf).sum := by
  simp [sumBy, List.map_map, Function.comp_def, attr_added]

theorem sumBy_attr_subbed (pool : List PC) : sumBy (·.subbed) (pool.map attr) = (pool.map subbedOf).sum := by
  simp [sumBy, List.map_map, Function.comp_def, attr_subbed]

theorem sumBy_zero {f : Attr → Nat} {as : List Attr} (h : ∀ x ∈ as, f x = 0) : sumBy f as = 0 := by
  induction as with
  | nil => rfl
  | cons x r ih =>
    simp only [sumBy, List.map_cons, List.sum_cons] at ih ⊢
    rw [h x (by simp), ih (fun y hy => h y (by simp [hy]))]

/-- in a state without operations in flight the table is exactly the client's live set -/
theorem quiescent_exact {s : Sys} {lvl : Level} (h : SysInv lvl s) (hq : s.quiescent) :
    s.sh.tr.allocated = ownedBytes s.sh.owned % W ∧ s.sh.tr.allocs.length = s.sh.owned.length := by
  have hz : ∀ x ∈ s.pool.map attr, x = Attr.zero := by
    intro x hx
    obtain ⟨pc, hpc, rfl⟩ := List.mem_map.1 hx
    rw [hq pc hpc]; rfl
  have z1 : sumBy (·.subbed) (s.pool.map attr) = 0 := sumBy_zero (fun x hx => by rw [hz x hx]; rfl)
  have z2 : sumBy (·.added) (s.pool.map attr) = 0 := sumBy_zero (fun x hx => by rw [hz x hx]; rfl)
  have z3 : sumBy tblSz (s.pool.map attr) = 0 := sumBy_zero (fun x hx => by rw [hz x hx]; rfl)
  have z4 : sumBy tblCnt (s.pool.map attr) = 0 := sumBy_zero (fun x hx => by rw [hz x hx]; rfl)
  obtain ⟨h1, h2, h3, h4, _⟩ := h.inv
  rw [z1, z2] at h1
  rw [z3] at h3
  rw [z4] at h4
  refine ⟨?_, by omega⟩
  simp only [Nat.add_zero] at h1 h3
  rw [← h3, ← h1, Nat.mod_eq_of_lt h2]

end AwsVerif.Proofs.C17
