import AwsVerif.Proofs.C17.Misc
/-! The step sequences, run alone, compute the atomic sequential functions. -/
namespace AwsVerif.Proofs.C17
open AwsVerif.MemTrace

/-- outcome of an uninterrupted run: the call has returned, the mutex is free, and tracer and
wrapped allocator are in the given states -/
def Completes (r : Sys) (tr : Tracer) (par : Parent) : Prop :=
  r.pool = [.done] ∧ r.sh.lock = false ∧ r.sh.tr = tr ∧ r.sh.par = par

theorem acquire_refines (s : Seq) (owned : List (Addr × Nat)) (dest sz sid : Nat) (hsz : sz ≠ 0)
    (hf : freshAddr s.par dest = true) :
    Completes (runAlone s owned (.acquire sz sid) dest) (s.step (.acquire dest sz sid)).1.tr (s.step (.acquire dest sz sid)).1.par := by
  obtain ⟨tr, par⟩ := s
  cases hl : tr.level <;>
    simp [Completes, runAlone, Sys.ofSeq, alone, step, start, advance, takeLock, hsz, hf, hl, Seq.step, track, Req.tracked,
      putAlloc, mkInfo, tick, fetchAdd, addStack]

theorem calloc_refines (s : Seq) (owned : List (Addr × Nat)) (dest n sz sid : Nat) (hn : n ≠ 0) (hsz : sz ≠ 0)
    (hov : n * sz < W) (hf : freshAddr s.par dest = true) :
    Completes (runAlone s owned (.calloc n sz sid) dest) (s.step (.calloc dest n sz sid)).1.tr (s.step (.calloc dest n sz sid)).1.par := by
  obtain ⟨tr, par⟩ := s
  have hov' : ¬ W ≤ n * sz := Nat.not_le.2 hov
  cases hl : tr.level <;>
    simp [Completes, runAlone, Sys.ofSeq, alone, step, start, advance, takeLock, hn, hsz, hov', hf, hl, Seq.step, track, Req.tracked,
      putAlloc, mkInfo, tick, fetchAdd, addStack]

theorem release_refines (s : Seq) (owned : List (Addr × Nat)) (p g : Nat) (hp : p ≠ 0)
    (ho : owned.lookup p = some g) (hlive : s.par.live p = true) (o : Addr) :
    Completes (runAlone s owned (.release p) o) (s.step (.release p)).1.tr (s.step (.release p)).1.par := by
  obtain ⟨tr, par⟩ := s
  cases hf : tr.allocs.find p <;> cases hl : tr.level <;>
    simp [Completes, runAlone, Sys.ofSeq, alone, step, start, startRelease, advance, takeLock, afterUntrack, hp, ho, hlive, hl, hf,
      Seq.step, Seq.release, untrack, removeAlloc, fetchSub] at hlive ⊢

theorem realloc_zero_refines (s : Seq) (owned : List (Addr × Nat)) (p g old sid : Nat) (hp : p ≠ 0)
    (ho : owned.lookup p = some g) (hlive : s.par.live p = true) (o dest : Addr) :
    Completes (runAlone s owned (.realloc p old 0 sid) o)
      (s.step (.realloc p old 0 dest sid)).1.tr (s.step (.realloc p old 0 dest sid)).1.par := by
  obtain ⟨tr, par⟩ := s
  cases hf : tr.allocs.find p <;> cases hl : tr.level <;>
    simp [Completes, runAlone, Sys.ofSeq, alone, step, start, startRelease, advance, takeLock, afterUntrack, hp, ho, hlive, hl, hf,
      Seq.step, Seq.release, untrack, removeAlloc, fetchSub] at hlive ⊢

theorem realloc_null_refines (s : Seq) (owned : List (Addr × Nat)) (old new sid dest : Nat) (hn : new ≠ 0)
    (hf : freshAddr s.par dest = true) :
    Completes (runAlone s owned (.realloc 0 old new sid) dest)
      (s.step (.realloc 0 old new dest sid)).1.tr (s.step (.realloc 0 old new dest sid)).1.par := by
  obtain ⟨tr, par⟩ := s
  cases hfd : tr.allocs.find 0 <;> cases hl : tr.level <;>
    simp [Completes, runAlone, Sys.ofSeq, alone, step, start, advance, takeLock, afterUntrack, hn, hf, hl, hfd,
      Seq.step, untrack, removeAlloc, fetchSub, track, putAlloc, mkInfo, tick, fetchAdd, addStack]

theorem realloc_keep_refines (s : Seq) (owned : List (Addr × Nat)) (p g old new sid : Nat) (hp : p ≠ 0) (hn : new ≠ 0)
    (ho : owned.lookup p = some g) (hlive : s.par.live p = true) (hok : s.par.reallocOK p old new p = true) :
    Completes (runAlone s owned (.realloc p old new sid) p)
      (s.step (.realloc p old new p sid)).1.tr (s.step (.realloc p old new p sid)).1.par := by
  obtain ⟨tr, par⟩ := s
  cases hfd : tr.allocs.find p <;> cases hl : tr.level <;>
    simp [Completes, runAlone, Sys.ofSeq, alone, step, start, startRelease, advance, takeLock, afterUntrack, hp, hn, ho, hlive, hok, hl, hfd,
      Seq.step, untrack, removeAlloc, fetchSub, track, putAlloc, mkInfo, tick, fetchAdd, addStack] at hlive hok ⊢

theorem realloc_move_refines (s : Seq) (owned : List (Addr × Nat)) (p g old new sid dest : Nat) (hp : p ≠ 0) (hn : new ≠ 0)
    (ho : owned.lookup p = some g) (hlive : s.par.live p = true) (hd : dest ≠ p) (hf : freshAddr s.par dest = true)
    (hok : s.par.reallocOK p old new dest = true) :
    Completes (runAlone s owned (.realloc p old new sid) dest)
      (s.step (.realloc p old new dest sid)).1.tr (s.step (.realloc p old new dest sid)).1.par := by
  obtain ⟨tr, par⟩ := s
  cases hfd : tr.allocs.find p <;> cases hl : tr.level <;>
    simp [Completes, runAlone, Sys.ofSeq, alone, step, start, startRelease, advance, takeLock, afterUntrack, hp, hn, ho, hlive, hd, hf, hok, hl, hfd,
      Seq.step, untrack, removeAlloc, fetchSub, track, putAlloc, mkInfo, tick, fetchAdd, addStack] at hlive hok ⊢

end AwsVerif.Proofs.C17
