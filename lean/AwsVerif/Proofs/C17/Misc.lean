import AwsVerif.Proofs.C17.Seq
import AwsVerif.Proofs.C17.Conc
/-! Transparency, purity of dump, and level preservation in the interleaving model. -/
namespace AwsVerif.Proofs.C17
open AwsVerif.MemTrace

/-- client-visible result of a call: the pointer (a dump's log text is not a client value) -/
def Ret.client : Ret → Ret
  | .dumped _ => .unit
  | r => r

theorem release_transparent (s : Seq) (p : Addr) :
    (s.release p).1.par = (s.par.stepDirect (.release p)).1 ∧ (s.release p).2 = (s.par.stepDirect (.release p)).2 := by
  simp only [Seq.release, Parent.stepDirect]
  split
  · exact ⟨rfl, rfl⟩
  · split <;> exact ⟨rfl, rfl⟩

/-- one call through the tracer does to the wrapped allocator exactly what the same call made
directly would do, and hands the client the same pointer -/
theorem step_transparent (s : Seq) (op : Op) :
    (s.step op).1.par = (s.par.stepDirect op).1 ∧ Ret.client (s.step op).2 = (s.par.stepDirect op).2 := by
  cases op with
  | acquire dest sz sid => simp only [Seq.step, Parent.stepDirect]; split <;> exact ⟨rfl, rfl⟩
  | calloc dest n sz sid => simp only [Seq.step, Parent.stepDirect]; split <;> exact ⟨rfl, rfl⟩
  | release p =>
    have := release_transparent s p
    simp only [Seq.step]
    refine ⟨this.1, ?_⟩
    rw [← this.2]
    simp only [Seq.release]
    split
    · rfl
    · split <;> rfl
  | dump => exact ⟨rfl, rfl⟩
  | fill p seed => exact ⟨rfl, rfl⟩
  | realloc p old new dest sid =>
    by_cases hn : new = 0
    · subst hn
      by_cases hp : p = 0
      · subst hp; simp [Seq.step, Parent.stepDirect, Seq.release, Ret.client]
      · by_cases hlive : s.par.live p = true
        · simp [Seq.step, Parent.stepDirect, Seq.release, hp, hlive, Ret.client]
        · simp [Seq.step, Parent.stepDirect, Seq.release, hp, hlive, Ret.client]
    · simp only [Seq.step, Parent.stepDirect, hn, if_false]
      split
      · split <;> exact ⟨rfl, rfl⟩
      · split
        · exact ⟨rfl, rfl⟩
        · split <;> exact ⟨rfl, rfl⟩

def Parent.runDirect (p : Parent) (ops : List Op) : Parent := ops.foldl (fun p o => (p.stepDirect o).1) p

theorem run_transparent (s : Seq) (ops : List Op) : (s.run ops).par = Parent.runDirect s.par ops := by
  induction ops generalizing s with
  | nil => rfl
  | cons o r ih =>
    simp only [Seq.run, Parent.runDirect, List.foldl_cons] at ih ⊢
    rw [ih, (step_transparent s o).1]

/-- every action of a read-only call (`bytes`, `count`, `dump`) leaves counter, table, wrapped
allocator and the client's blocks untouched and stays inside that call -/
theorem ro_pure {sh sh' : Sh} {o : Addr} {st : RSt} {k : RKind} {pc' : PC}
    (h : advance sh o (.ro st k) = some (sh', pc')) :
    sh'.tr = sh.tr ∧ sh'.par = sh.par ∧ sh'.owned = sh.owned ∧ (pc' = .done ∨ ∃ st', pc' = .ro st' k) := by
  cases st with
  | load =>
    simp only [advance] at h
    split at h <;>
    · simp only [Option.some.injEq, Prod.mk.injEq] at h
      obtain ⟨rfl, rfl⟩ := h
      first
        | exact ⟨rfl, rfl, rfl, Or.inl rfl⟩
        | exact ⟨rfl, rfl, rfl, Or.inr ⟨_, rfl⟩⟩
  | lock =>
    obtain ⟨e1, e2, e3, rfl⟩ := takeLock_eq h
    exact ⟨e1, e2, e3, Or.inr ⟨_, rfl⟩⟩
  | read =>
    simp only [advance, Option.some.injEq, Prod.mk.injEq] at h
    obtain ⟨rfl, rfl⟩ := h
    exact ⟨rfl, rfl, rfl, Or.inr ⟨_, rfl⟩⟩
  | unlock =>
    simp only [advance, Option.some.injEq, Prod.mk.injEq] at h
    obtain ⟨rfl, rfl⟩ := h
    exact ⟨rfl, rfl, rfl, Or.inl rfl⟩

theorem takeLock_level {sh sh' : Sh} {q pc' : PC} (h : takeLock sh q = some (sh', pc')) : sh'.tr.level = sh.tr.level := by
  rw [(takeLock_eq h).1]

/-- no action changes the tracing level -/
theorem advance_level {sh sh' : Sh} {o : Addr} {pc pc' : PC} (h : advance sh o pc = some (sh', pc')) :
    sh'.tr.level = sh.tr.level := by
  cases pc with
  | done => simp [advance] at h
  | parAcq r sid =>
    simp only [advance] at h
    split at h
    · cases h
    · simp only [Option.some.injEq, Prod.mk.injEq] at h; obtain ⟨rfl, rfl⟩ := h; rfl
  | trk st a sz sid tm =>
    cases st with
    | add =>
      simp only [advance] at h
      split at h <;>
      · simp only [Option.some.injEq, Prod.mk.injEq] at h; obtain ⟨rfl, rfl⟩ := h; rfl
    | stkLock => exact takeLock_level h
    | putLock => exact takeLock_level h
    | stkCreate | stkUnlock | put | putUnlock =>
      simp only [advance, Option.some.injEq, Prod.mk.injEq] at h; obtain ⟨rfl, rfl⟩ := h; rfl
  | unt st a g k =>
    cases st with
    | lock =>
      simp only [advance] at h
      split at h
      · simp only [Option.some.injEq, Prod.mk.injEq] at h; obtain ⟨rfl, rfl⟩ := h; rfl
      · exact takeLock_level h
    | find =>
      simp only [advance] at h
      split at h <;>
      · simp only [Option.some.injEq, Prod.mk.injEq] at h; obtain ⟨rfl, rfl⟩ := h; rfl
    | sub sz | remove sz | unlock =>
      simp only [advance, Option.some.injEq, Prod.mk.injEq] at h; obtain ⟨rfl, rfl⟩ := h; rfl
  | parFree a => simp only [advance, Option.some.injEq, Prod.mk.injEq] at h; obtain ⟨rfl, rfl⟩ := h; rfl
  | parRealloc a old new sid =>
    simp only [advance] at h
    split at h
    · split at h
      · cases h
      · simp only [Option.some.injEq, Prod.mk.injEq] at h; obtain ⟨rfl, rfl⟩ := h; rfl
    · split at h
      · cases h
      split at h
      · simp only [Option.some.injEq, Prod.mk.injEq] at h; obtain ⟨rfl, rfl⟩ := h; rfl
      · split at h
        · cases h
        · simp only [Option.some.injEq, Prod.mk.injEq] at h; obtain ⟨rfl, rfl⟩ := h; rfl
  | ro st k => rw [(ro_pure h).1]

theorem startRelease_level {sh sh' : Sh} {a : Addr} {k : After} {pc : PC} (h : startRelease sh a k = some (sh', pc)) :
    sh'.tr.level = sh.tr.level := by
  unfold startRelease at h
  split at h
  · cases h
  · simp only [Option.some.injEq, Prod.mk.injEq] at h; obtain ⟨rfl, rfl⟩ := h; rfl

theorem start_level {sh sh' : Sh} {op : ClientOp} {pc : PC} (h : start sh op = some (sh', pc)) :
    sh'.tr.level = sh.tr.level := by
  cases op with
  | acquire sz sid | calloc n sz sid =>
    simp only [start] at h
    split at h
    · cases h
    · simp only [Option.some.injEq, Prod.mk.injEq] at h; obtain ⟨rfl, rfl⟩ := h; rfl
  | release a =>
    simp only [start] at h
    split at h
    · simp only [Option.some.injEq, Prod.mk.injEq] at h; obtain ⟨rfl, rfl⟩ := h; rfl
    · exact startRelease_level h
  | realloc a old new sid =>
    simp only [start] at h
    split at h
    · split at h
      · simp only [Option.some.injEq, Prod.mk.injEq] at h; obtain ⟨rfl, rfl⟩ := h; rfl
      · exact startRelease_level h
    · split at h
      · simp only [Option.some.injEq, Prod.mk.injEq] at h; obtain ⟨rfl, rfl⟩ := h; rfl
      · exact startRelease_level h
  | bytes | count =>
    simp only [start] at h
    split at h <;>
    · simp only [Option.some.injEq, Prod.mk.injEq] at h; obtain ⟨rfl, rfl⟩ := h; rfl
  | dump => simp only [start, Option.some.injEq, Prod.mk.injEq] at h; obtain ⟨rfl, rfl⟩ := h; rfl

theorem step_level_sys (s : Sys) (a : Act) : (step s a).sh.tr.level = s.sh.tr.level := by
  cases a with
  | start op =>
    simp only [step]
    cases hs : start s.sh op with
    | none => rfl
    | some r => exact start_level hs
  | step i o =>
    simp only [step]
    cases hp : s.pool[i]? with
    | none => rfl
    | some pc =>
      simp only
      cases ha : advance s.sh o pc with
      | none => rfl
      | some r => exact advance_level ha

theorem run_level_sys (s : Sys) (as : List Act) : (run s as).sh.tr.level = s.sh.tr.level := by
  induction as generalizing s with
  | nil => rfl
  | cons a r ih => simp only [run, List.foldl_cons] at ih ⊢; rw [ih, step_level_sys]

end AwsVerif.Proofs.C17
