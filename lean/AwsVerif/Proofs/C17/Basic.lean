import AwsVerif.Model.MemTrace
/-! Lemmas about the tracer's table (an association list keyed by address). -/
namespace AwsVerif.Proofs.C17
open AwsVerif.MemTrace

abbrev keys (t : Table) : List Addr := t.map (·.1)

theorem erase_of_not_mem {t : Table} {a : Addr} (h : a ∉ keys t) : t.erase a = t := by
  unfold Table.erase
  rw [List.filter_eq_self]
  intro e he
  simp only [bne_iff_ne, ne_eq]
  intro h'
  exact h (by simp only [keys, List.mem_map]; exact ⟨e, he, h'⟩)

theorem keys_erase (t : Table) (a : Addr) : keys (t.erase a) = (keys t).filter (· != a) := by
  induction t with
  | nil => rfl
  | cons e r ih =>
    simp only [Table.erase, keys, List.filter_cons] at ih ⊢
    by_cases h : e.1 = a <;> simp [h, ih]

theorem not_mem_keys_erase (t : Table) (a : Addr) : a ∉ keys (t.erase a) := by
  rw [keys_erase]; simp

theorem mem_keys_erase {t : Table} {a b : Addr} : b ∈ keys (t.erase a) ↔ b ∈ keys t ∧ b ≠ a := by
  rw [keys_erase]; simp

theorem nodup_keys_erase {t : Table} (a : Addr) (h : (keys t).Nodup) : (keys (t.erase a)).Nodup := by
  rw [keys_erase]; exact List.Nodup.sublist List.filter_sublist h

theorem lookup_erase_ne {t : Table} {a b : Addr} (h : b ≠ a) : (t.erase a).lookup b = t.lookup b := by
  induction t with
  | nil => rfl
  | cons e r ih =>
    obtain ⟨k, v⟩ := e
    simp only [Table.erase, List.filter_cons] at ih ⊢
    by_cases hk : k = a
    · subst hk
      have : (b == k) = false := by simp [h]
      simp [List.lookup_cons, this, ih]
    · simp only [bne_iff_ne, ne_eq, hk, not_false_eq_true, ↓reduceIte, List.lookup_cons]
      rw [ih]

theorem lookup_none_of_not_mem {t : Table} {a : Addr} (h : a ∉ keys t) : t.lookup a = none := by
  rw [List.lookup_eq_none_iff]
  intro p hp
  simp only [bne_iff_ne, ne_eq]
  intro h'
  exact h (by simp only [keys, List.mem_map]; exact ⟨p, hp, h'.symm⟩)

theorem mem_keys_of_lookup {t : Table} {a : Addr} {i : Info} (h : t.lookup a = some i) : a ∈ keys t := by
  by_cases hm : a ∈ keys t
  · exact hm
  · rw [lookup_none_of_not_mem hm] at h; cases h

theorem lookup_put_self (t : Table) (a : Addr) (i : Info) : (t.put a i).lookup a = some i := by
  simp [Table.put]

theorem lookup_put_ne {t : Table} {a b : Addr} (i : Info) (h : b ≠ a) : (t.put a i).lookup b = t.lookup b := by
  have : (b == a) = false := by simp [h]
  simp [Table.put, List.lookup_cons, this, lookup_erase_ne h]

theorem keys_put_fresh {t : Table} {a : Addr} (i : Info) (h : a ∉ keys t) : keys (t.put a i) = a :: keys t := by
  simp [Table.put, keys, erase_of_not_mem h]

theorem bytes_put_fresh {t : Table} {a : Addr} (i : Info) (h : a ∉ keys t) : (t.put a i).bytes = i.size + t.bytes := by
  simp [Table.put, Table.bytes, erase_of_not_mem h]

theorem length_put_fresh {t : Table} {a : Addr} (i : Info) (h : a ∉ keys t) : (t.put a i).length = t.length + 1 := by
  simp [Table.put, erase_of_not_mem h]

/-- removing the (unique) entry of `a` takes exactly its recorded size and one entry away -/
theorem bytes_length_erase {t : Table} {a : Addr} {i : Info} (hn : (keys t).Nodup) (h : t.lookup a = some i) :
    t.bytes = i.size + (t.erase a).bytes ∧ t.length = (t.erase a).length + 1 := by
  induction t with
  | nil => cases h
  | cons e r ih =>
    obtain ⟨k, v⟩ := e
    simp only [keys, List.map_cons, List.nodup_cons] at hn
    by_cases hk : a = k
    · subst hk
      have hv : v = i := by simpa [List.lookup_cons] using h
      subst hv
      have : Table.erase ((a, v) :: r) a = r := by
        have := erase_of_not_mem (t := r) (a := a) hn.1
        simpa [Table.erase] using this
      rw [this]
      simp [Table.bytes]
    · have hb : (a == k) = false := by simp [hk]
      have h' : List.lookup a r = some i := by simpa [List.lookup_cons, hb] using h
      have := ih hn.2 h'
      have hk' : ¬ k = a := fun h => hk h.symm
      have he : Table.erase ((k, v) :: r) a = (k, v) :: Table.erase r a := by
        simp [Table.erase, hk']
      rw [he]
      simp only [Table.bytes, List.map_cons, List.sum_cons, List.length_cons] at this ⊢
      omega

end AwsVerif.Proofs.C17
