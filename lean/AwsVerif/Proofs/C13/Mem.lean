import AwsVerif.Model.Uri
/-! `memchr` and list lemmas shared by the C13 proofs. -/
namespace AwsVerif.Uri
set_option linter.unusedSimpArgs false

theorem memchr_of_not_mem {c : UInt8} {l : Bytes} (h : c ∉ l) : memchr c l = none := by
  induction l with
  | nil => rfl
  | cons x xs ih =>
    simp only [List.mem_cons, not_or] at h
    have hx : ¬ x = c := fun e => h.1 e.symm
    simp [memchr, hx, ih h.2]

theorem memchr_append_cons {c : UInt8} (a b : Bytes) (h : c ∉ a) : memchr c (a ++ c :: b) = some a.length := by
  induction a with
  | nil => simp [memchr]
  | cons x xs ih =>
    simp only [List.mem_cons, not_or] at h
    have hx : ¬ x = c := fun e => h.1 e.symm
    simp [memchr, hx, ih h.2]

theorem memchr_append_of_not_mem {c : UInt8} (a b : Bytes) (h : c ∉ a) :
    memchr c (a ++ b) = (memchr c b).map (· + a.length) := by
  induction a with
  | nil => simp
  | cons x xs ih =>
    simp only [List.mem_cons, not_or] at h
    have hx : ¬ x = c := fun e => h.1 e.symm
    simp only [List.cons_append, memchr, hx, if_false, ih h.2, List.length_cons]
    cases memchr c b <;> simp; omega

theorem memchr_append_of_mem {c : UInt8} (a b : Bytes) (h : c ∈ a) : memchr c (a ++ b) = memchr c a := by
  induction a with
  | nil => simp at h
  | cons x xs ih =>
    by_cases hx : x = c
    · simp [memchr, hx]
    · have : c ∈ xs := by
        simp only [List.mem_cons] at h
        rcases h with h | h
        · exact absurd h.symm hx
        · exact h
      simp [memchr, hx, ih this]

/-- forward direction: what a hit / miss of `memchr` says about the list -/
theorem memchr_some {c : UInt8} {l : Bytes} {i : Nat} (h : memchr c l = some i) :
    i < l.length ∧ c ∉ l.take i ∧ l.drop i = c :: l.drop (i + 1) := by
  induction l generalizing i with
  | nil => simp [memchr] at h
  | cons x xs ih =>
    by_cases hx : x = c
    · simp [memchr, hx] at h
      subst h; simp [hx]
    · simp only [memchr, hx, if_false, Option.map_eq_some_iff] at h
      obtain ⟨j, hj, rfl⟩ := h
      have ⟨h1, h2, h3⟩ := ih hj
      refine ⟨by simp; omega, ?_, ?_⟩
      · simp only [List.take_succ_cons, List.mem_cons, not_or]
        exact ⟨fun e => hx e.symm, h2⟩
      · simpa using h3

theorem memchr_none {c : UInt8} {l : Bytes} (h : memchr c l = none) : c ∉ l := by
  induction l with
  | nil => simp
  | cons x xs ih =>
    by_cases hx : x = c
    · simp [memchr, hx] at h
    · simp only [memchr, hx, if_false, Option.map_eq_none_iff] at h
      simp only [List.mem_cons, not_or]
      exact ⟨fun e => hx e.symm, ih h⟩

/-- `memchr` result (or the length on a miss) is the length of the prefix before the first `c` -/
theorem memchr_takeWhile (c : UInt8) (l : Bytes) :
    (match memchr c l with | some i => i | none => l.length) = (l.takeWhile (· != c)).length := by
  induction l with
  | nil => rfl
  | cons x xs ih =>
    by_cases hx : x = c
    · simp [memchr, hx]
    · have : (x != c) = true := by simp [hx]
      simp only [memchr, hx, if_false, List.takeWhile_cons, this, if_true, List.length_cons]
      rw [← ih]
      cases memchr c xs <;> simp

theorem take_takeWhile_length (p : UInt8 → Bool) (l : Bytes) : l.take (l.takeWhile p).length = l.takeWhile p := by
  induction l with
  | nil => rfl
  | cons x xs ih =>
    by_cases hx : p x = true
    · simp [List.takeWhile_cons, hx, ih]
    · simp [List.takeWhile_cons, hx]

theorem drop_takeWhile_length (p : UInt8 → Bool) (l : Bytes) : l.drop (l.takeWhile p).length = l.dropWhile p := by
  induction l with
  | nil => rfl
  | cons x xs ih =>
    by_cases hx : p x = true
    · simp [List.takeWhile_cons, List.dropWhile_cons, hx, ih]
    · simp [List.takeWhile_cons, List.dropWhile_cons, hx]

theorem takeWhile_length_le (p : UInt8 → Bool) (l : Bytes) : (l.takeWhile p).length ≤ l.length := by
  induction l with
  | nil => simp
  | cons x xs ih =>
    by_cases hx : p x = true
    · simp [List.takeWhile_cons, hx]; omega
    · simp [List.takeWhile_cons, hx]

/-- the first `c` heads the `dropWhile` part -/
theorem dropWhile_of_mem {c : UInt8} {l : Bytes} (h : c ∈ l) :
    ∃ r, l.dropWhile (· != c) = c :: r ∧ l = l.takeWhile (· != c) ++ c :: r := by
  induction l with
  | nil => simp at h
  | cons x xs ih =>
    by_cases hx : x = c
    · subst hx
      exact ⟨xs, by simp [List.dropWhile_cons], by simp [List.takeWhile_cons]⟩
    · have hb : (x != c) = true := by simp [hx]
      have hm : c ∈ xs := by
        simp only [List.mem_cons] at h
        rcases h with h | h
        · exact absurd h.symm hx
        · exact h
      obtain ⟨r, h1, h2⟩ := ih hm
      refine ⟨r, by simp [List.dropWhile_cons, hb, h1], ?_⟩
      simp only [List.takeWhile_cons, hb, if_true, List.cons_append]
      rw [← h2]

theorem dropWhile_of_not_mem {c : UInt8} {l : Bytes} (h : c ∉ l) :
    l.dropWhile (· != c) = [] ∧ l.takeWhile (· != c) = l := by
  induction l with
  | nil => simp
  | cons x xs ih =>
    simp only [List.mem_cons, not_or] at h
    have hx : ¬ x = c := fun e => h.1 e.symm
    have hb : (x != c) = true := by simp [hx]
    have := ih h.2
    simp [List.dropWhile_cons, List.takeWhile_cons, hb, this]

theorem drop_take_drop (q : Bytes) (off len i : Nat) :
    ((q.drop off).take len).drop (i + 1) = (q.drop (off + i + 1)).take (len - i - 1) := by
  rw [List.drop_take, List.drop_drop]
  have : len - (i + 1) = len - i - 1 := by omega
  rw [this, Nat.add_assoc]

end AwsVerif.Uri
