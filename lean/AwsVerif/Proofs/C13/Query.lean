import AwsVerif.Proofs.C13.Spec
import AwsVerif.Proofs.C13.Mem
/-! Query-string iteration (C13): the iterator yields exactly `pairsSpec`. -/
namespace AwsVerif.Uri
set_option linter.unusedSimpArgs false

/-- non-empty pieces -/
def neSegs (l : Bytes) : List Bytes := (splitOn 38 l).filter (fun s => !s.isEmpty)

theorem splitOn_ne_nil (c : UInt8) (l : Bytes) : splitOn c l ≠ [] := by
  induction l with
  | nil => simp [splitOn]
  | cons x xs ih =>
    simp only [splitOn]
    split
    · simp
    · split <;> simp

theorem neSegs_nil : neSegs [] = [] := by simp [neSegs, splitOn]

theorem neSegs_amp (l : Bytes) : neSegs (38 :: l) = neSegs l := by simp [neSegs, splitOn]

/-- `splitOn` peels off the prefix before the first separator -/
theorem splitOn_eq (c : UInt8) (l : Bytes) :
    splitOn c l = l.takeWhile (· != c) ::
      (match l.dropWhile (· != c) with | [] => [] | _ :: r => splitOn c r) := by
  induction l with
  | nil => simp [splitOn]
  | cons x xs ih =>
    by_cases hx : x = c
    · simp [splitOn, hx]
    · have hb : (x != c) = true := by simp [hx]
      simp only [splitOn, hx, if_false, List.takeWhile_cons, hb, if_true, List.dropWhile_cons]
      rw [ih]

theorem neSegs_cons_ne (x : UInt8) (l : Bytes) (hx : x ≠ 38) :
    neSegs (x :: l) = (x :: l).takeWhile (· != 38) ::
      neSegs ((x :: l).drop (((x :: l).takeWhile (· != 38)).length + 1)) := by
  have hb : (x != 38) = true := by simp [hx]
  unfold neSegs
  rw [splitOn_eq]
  have hne : ((x :: l).takeWhile (· != 38)).isEmpty = false := by simp [List.takeWhile_cons, hb]
  simp only [List.filter_cons, hne, Bool.not_false, if_true]
  congr 1
  rw [← List.drop_drop, drop_takeWhile_length]
  cases hd : (x :: l).dropWhile (· != 38) with
  | nil => simp [splitOn]
  | cons y r => simp

/-! ### `nextSegment` -/

theorem segLen_eq (q : Bytes) (p : Nat) : segLen q p = ((q.drop p).takeWhile (· != 38)).length := by
  unfold segLen
  rw [← memchr_takeWhile]
  cases memchr 38 (q.drop p) <;> simp

/-- with enough fuel the skip loop finds the first non-empty piece at or after `p`, or reports the end -/
theorem nextSegment_spec (q : Bytes) : ∀ fuel p, q.length + 2 ≤ fuel + p →
    match nextSegment q fuel p with
    | none => neSegs (q.drop p) = []
    | some v => p ≤ v.off ∧ 0 < v.len ∧ v.off + v.len ≤ q.length ∧
        neSegs (q.drop p) = v.bytes q :: neSegs (q.drop (v.off + v.len + 1)) := by
  intro fuel
  induction fuel with
  | zero =>
    intro p h
    have : q.drop p = [] := List.drop_eq_nil_of_le (by omega)
    simp [nextSegment, this, neSegs_nil]
  | succ f ih =>
    intro p h
    unfold nextSegment
    by_cases hp : p > q.length
    · have : q.drop p = [] := List.drop_eq_nil_of_le (by omega)
      simp [hp, this, neSegs_nil]
    · simp only [hp, if_false]
      rw [segLen_eq]
      cases hl : q.drop p with
      | nil =>
        have := ih (p + 1) (by omega)
        have hd : q.drop (p + 1) = [] := by rw [← List.drop_drop, hl]; rfl
        simp only [List.takeWhile_nil, List.length_nil, if_true, Nat.add_zero]
        rw [hd] at this
        cases hn : nextSegment q f (p + 1) with
        | none => simp [neSegs_nil]
        | some v =>
          rw [hn] at this
          simp only at this
          simp [neSegs_nil] at this
      | cons x l =>
        have hd : q.drop (p + 1) = l := by rw [← List.drop_drop, hl]; rfl
        by_cases hx : x = 38
        · subst hx
          have := ih (p + 1) (by omega)
          rw [hd] at this
          simp only [List.takeWhile_cons, bne_self_eq_false, Bool.false_eq_true, if_false, List.length_nil,
            if_true, Nat.add_zero, neSegs_amp]
          cases hn : nextSegment q f (p + 1) with
          | none => rw [hn] at this; simpa using this
          | some v =>
            rw [hn] at this
            simp only at this ⊢
            exact ⟨by omega, this.2.1, this.2.2.1, this.2.2.2⟩
        · have hb : (x != 38) = true := by simp [hx]
          have hlen : ((x :: l).takeWhile (· != 38)).length ≠ 0 := by simp [List.takeWhile_cons, hb]
          simp only [hlen, if_false]
          have hle := takeWhile_length_le (· != 38) (x :: l)
          have hql : (x :: l).length = q.length - p := by rw [← hl]; simp
          refine ⟨Nat.le_refl _, Nat.pos_of_ne_zero hlen, by omega, ?_⟩
          rw [neSegs_cons_ne x l hx]
          congr 1
          · simp [View.bytes, hl, take_takeWhile_length]
          · rw [← hl, List.drop_drop]
            congr 2

/-! ### `splitParam` -/

theorem splitParam_bytes (q : Bytes) (v : View) :
    let pr := splitParam q v
    (pr.key.bytes q, pr.value.bytes q) = splitFirst 61 (v.bytes q) ∧
    pr.key.off = v.off ∧ pr.key.off + ((pr.value.off - pr.key.off) + pr.value.len) = v.off + v.len ∧
    pr.key.off + pr.key.len ≤ v.off + v.len ∧ pr.value.off + pr.value.len ≤ v.off + v.len := by
  simp only [splitParam, splitFirst, View.bytes]
  have htw := memchr_takeWhile 61 ((q.drop v.off).take v.len)
  cases hm : memchr 61 ((q.drop v.off).take v.len) with
  | some i =>
    rw [hm] at htw
    simp only at htw
    have ⟨hi, _, _⟩ := memchr_some hm
    have hiv : i < v.len := by
      have : ((q.drop v.off).take v.len).length ≤ v.len := by simp; omega
      omega
    simp only
    refine ⟨?_, by trivial, by omega, by omega, by omega⟩
    congr 1
    · rw [← take_takeWhile_length, ← htw, List.take_take, Nat.min_eq_left (by omega)]
    · rw [← drop_takeWhile_length, ← htw, List.drop_drop, Nat.add_comm i 1, ← drop_take_drop]
      simp [Nat.add_comm]
  | none =>
    rw [hm] at htw
    simp only at htw
    have hall : ((q.drop v.off).take v.len).takeWhile (· != 61) = (q.drop v.off).take v.len := by
      have := take_takeWhile_length (· != 61) ((q.drop v.off).take v.len)
      rw [← htw, List.take_length] at this
      exact this.symm
    simp only
    refine ⟨?_, by trivial, by omega, by omega, by omega⟩
    congr 1
    · exact hall.symm
    · rw [← drop_takeWhile_length, ← htw]
      simp

/-! ### the iteration -/

/-- all segments from offset `p` on, as the iterator visits them -/
def segsGo (q : Bytes) : Nat → Nat → List View
  | 0, _ => []
  | f + 1, p =>
    match nextSegment q (q.length + 2) p with
    | none => []
    | some v => v :: segsGo q f (v.off + v.len + 1)

/-- where the iterator resumes after `prev` -/
def resumeAt (prev : Option Param) : Nat :=
  match prev with
  | none => 0
  | some pr => pr.key.off + ((pr.value.off - pr.key.off) + pr.value.len) + 1

theorem nextParam_eq (q : Bytes) (prev : Option Param) :
    nextParam (some q) prev = (nextSegment q (q.length + 2) (resumeAt prev)).map (splitParam q) := by
  cases prev <;> simp [nextParam, resumeAt]

theorem resumeAt_splitParam (q : Bytes) (v : View) : resumeAt (some (splitParam q v)) = v.off + v.len + 1 := by
  have := (splitParam_bytes q v).2.2.1
  simp only [resumeAt]
  omega

theorem paramsGo_eq (q : Bytes) : ∀ fuel prev,
    paramsGo (some q) fuel prev = (segsGo q fuel (resumeAt prev)).map (splitParam q) := by
  intro fuel
  induction fuel with
  | zero => intro prev; simp [paramsGo, segsGo]
  | succ f ih =>
    intro prev
    simp only [paramsGo, segsGo, nextParam_eq]
    cases nextSegment q (q.length + 2) (resumeAt prev) with
    | none => simp
    | some v => simp [ih, resumeAt_splitParam]

theorem neSegs_length_le (l : Bytes) : ∀ n, l.length ≤ n → (neSegs l).length ≤ n := by
  intro n
  induction n generalizing l with
  | zero =>
    intro h
    have : l = [] := List.length_eq_zero_iff.mp (by omega)
    simp [this, neSegs_nil]
  | succ n ih =>
    intro h
    cases l with
    | nil => simp [neSegs_nil]
    | cons x l =>
      by_cases hx : x = 38
      · subst hx
        rw [neSegs_amp]
        have := ih l (by simpa using h)
        omega
      · rw [neSegs_cons_ne x l hx]
        simp only [List.length_cons]
        have := ih ((x :: l).drop (((x :: l).takeWhile (· != 38)).length + 1)) (by
          simp only [List.length_drop, List.length_cons] at h ⊢
          omega)
        omega

/-- with fuel for every remaining byte, `segsGo` lists exactly the non-empty pieces, in order,
inside the query string, and is not cut short by the fuel -/
theorem segsGo_spec (q : Bytes) : ∀ fuel p, (neSegs (q.drop p)).length < fuel →
    (segsGo q fuel p).map (·.bytes q) = neSegs (q.drop p) ∧
    (∀ v ∈ segsGo q fuel p, p ≤ v.off ∧ 0 < v.len ∧ v.off + v.len ≤ q.length) := by
  intro fuel
  induction fuel with
  | zero => intro p h; omega
  | succ f ih =>
    intro p h
    have hs := nextSegment_spec q (q.length + 2) p (by omega)
    simp only [segsGo]
    cases hn : nextSegment q (q.length + 2) p with
    | none =>
      rw [hn] at hs
      simp only at hs
      simp [hs]
    | some v =>
      rw [hn] at hs
      simp only at hs
      obtain ⟨h1, h2, h3, h4⟩ := hs
      rw [h4] at h
      simp only [List.length_cons] at h
      have ⟨ih1, ih2⟩ := ih (v.off + v.len + 1) (by omega)
      refine ⟨by simp [ih1, h4], ?_⟩
      intro w hw
      simp only [List.mem_cons] at hw
      rcases hw with rfl | hw
      · exact ⟨h1, h2, h3⟩
      · have := ih2 w hw
        exact ⟨by omega, this.2.1, this.2.2⟩

theorem segsGo_map_split (q : Bytes) (vs : List View) :
    (vs.map (splitParam q)).map (fun pr => (pr.key.bytes q, pr.value.bytes q)) =
    (vs.map (·.bytes q)).map (splitFirst 61) := by
  induction vs with
  | nil => rfl
  | cons v vs ih =>
    simp only [List.map_cons, ih]
    rw [(splitParam_bytes q v).1]

/-- fuel used by `queryParams` suffices -/
theorem queryParams_fuel (q : Bytes) : (neSegs (q.drop 0)).length < q.length + 1 := by
  have := neSegs_length_le q q.length (Nat.le_refl _)
  simp only [List.drop_zero]
  omega

theorem queryParams_eq (q : Bytes) : queryParams (some q) = (segsGo q (q.length + 1) 0).map (splitParam q) := by
  simp [queryParams, paramsGo_eq, resumeAt]

theorem queryParams_pairs (q : Bytes) :
    (queryParams (some q)).map (fun pr => (pr.key.bytes q, pr.value.bytes q)) = pairsSpec q := by
  rw [queryParams_eq, segsGo_map_split, (segsGo_spec q _ 0 (queryParams_fuel q)).1]
  simp [pairsSpec, neSegs]

theorem queryParams_inside (q : Bytes) : ∀ pr ∈ queryParams (some q),
    pr.key.off + pr.key.len ≤ q.length ∧ pr.value.off + pr.value.len ≤ q.length := by
  intro pr hpr
  rw [queryParams_eq] at hpr
  simp only [List.mem_map] at hpr
  obtain ⟨v, hv, rfl⟩ := hpr
  have := (segsGo_spec q _ 0 (queryParams_fuel q)).2 v hv
  have hb := splitParam_bytes q v
  simp only at hb
  omega

/-- `paramsGo` is by construction the repeated call of `nextParam`; this unfolds one element -/
theorem paramsGo_chain (q : Option Bytes) : ∀ fuel prev,
    paramsGo q (fuel + 1) prev = match nextParam q prev with
      | none => []
      | some pr => pr :: paramsGo q fuel (some pr) := by
  intro fuel prev; rfl

/-- the iterator protocol: starting from a zeroed `param`, the k-th call of `nextParam`
returns the k-th element of the list form, and `none` after the last -/
def iterate (q : Option Bytes) : Nat → Option Param → List Param
  | 0, _ => []
  | fuel + 1, prev =>
    match nextParam q prev with
    | none => []
    | some pr => pr :: iterate q fuel (some pr)

theorem iterate_eq_paramsGo (q : Option Bytes) (fuel : Nat) (prev : Option Param) :
    iterate q fuel prev = paramsGo q fuel prev := by
  induction fuel generalizing prev with
  | zero => rfl
  | succ f ih =>
    simp only [iterate, paramsGo]
    cases nextParam q prev <;> simp [ih]

/-- more fuel does not produce more parameters: after the last one `nextParam` reports the end -/
theorem segsGo_stable (q : Bytes) : ∀ fuel p, (neSegs (q.drop p)).length < fuel →
    ∀ extra, segsGo q (fuel + extra) p = segsGo q fuel p := by
  intro fuel
  induction fuel with
  | zero => intro p h; omega
  | succ f ih =>
    intro p h extra
    have hs := nextSegment_spec q (q.length + 2) p (by omega)
    have : f + 1 + extra = (f + extra) + 1 := by omega
    rw [this]
    simp only [segsGo]
    cases hn : nextSegment q (q.length + 2) p with
    | none => rfl
    | some v =>
      rw [hn] at hs
      simp only at hs
      obtain ⟨_, _, _, h4⟩ := hs
      rw [h4] at h
      simp only [List.length_cons] at h
      simp only
      rw [ih (v.off + v.len + 1) (by omega) extra]

theorem iterate_stable (q : Bytes) (extra : Nat) :
    iterate (some q) (q.length + 1 + extra) none = queryParams (some q) := by
  rw [iterate_eq_paramsGo, paramsGo_eq, queryParams_eq]
  show List.map (splitParam q) (segsGo q (q.length + 1 + extra) 0) = _
  rw [segsGo_stable q _ 0 (queryParams_fuel q) extra]

theorem nextParam_null (prev : Option Param) : nextParam none prev = none := rfl

end AwsVerif.Uri
