import AwsVerif.Proofs.C13.Spec
import AwsVerif.Proofs.C13.Mem
import AwsVerif.Proofs.C13.Digits
/-! `parse (assemble c) = ok (expected c)` for component tuples satisfying `Comp.ok` (C13). -/
namespace AwsVerif.Uri
set_option linter.unusedSimpArgs false
set_option linter.unnecessarySimpa false

theorem noneOf_not_mem {bad l : Bytes} (h : noneOf bad l = true) {x : UInt8} (hx : x ∈ bad) : x ∉ l := by
  intro hl
  simp only [noneOf, List.all_eq_true] at h
  have := h x hl
  simp [hx] at this

theorem drop_append_len (a b : Bytes) (k : Nat) : (a ++ b).drop (a.length + k) = b.drop k := by
  induction a with
  | nil => simp
  | cons x xs ih => simpa [Nat.add_right_comm] using ih

theorem drop_append_len0 (a b : Bytes) : (a ++ b).drop a.length = b := by
  simpa using drop_append_len a b 0

theorem take_append_len (a b : Bytes) : (a ++ b).take a.length = a := by
  induction a with
  | nil => simp
  | cons x xs ih => simpa using ih

/-! ### scheme -/

theorem parseScheme_some (s rest : Bytes) (h : (58 : UInt8) ∉ s) (hd : s.any isSchemeDelim = false) :
    parseScheme { rest := s ++ (58 :: 47 :: 47 :: rest) } =
      { uri := { scheme := some ⟨0, s.length⟩ }, state := .onAuthority, off := s.length + 3, rest := rest } := by
  have h1 : (s ++ (58 :: 47 :: 47 :: rest)).drop (s.length + 1) = 47 :: 47 :: rest := by
    rw [drop_append_len]; rfl
  have h2 : (s ++ (58 :: 47 :: 47 :: rest)).drop s.length = 58 :: 47 :: 47 :: rest := drop_append_len0 _ _
  have h3 : (s ++ (58 :: 47 :: 47 :: rest)).take s.length = s := take_append_len _ _
  simp [parseScheme, memchr_append_cons _ _ h, h1, h2, h3, hd, Parser.advance]

theorem parseScheme_none (rest : Bytes) (h : noSchemeLike rest = true) :
    parseScheme { rest := rest } = { state := .onAuthority, rest := rest } := by
  unfold noSchemeLike at h
  unfold parseScheme
  cases hm : memchr 58 rest with
  | none => rfl
  | some i =>
    rw [hm] at h
    simp only [Bool.or_eq_true, bne_iff_ne, ne_eq] at h
    simp only
    by_cases h47 : (rest.drop (i + 1)).head? = some 47
    · rw [if_pos h47]
      rcases h with h | h
      · exact absurd h47 h
      · rw [if_pos h]
    · rw [if_neg h47]

/-! ### a text assembled without scheme never looks as if it had one -/

theorem noSchemeLike_append_of_not_mem (a b : Bytes) (ha : (58 : UInt8) ∉ a) (hb : noSchemeLike b = true) :
    noSchemeLike (a ++ b) = true := by
  unfold noSchemeLike at hb ⊢
  rw [memchr_append_of_not_mem a b ha]
  cases hm : memchr 58 b with
  | none => rfl
  | some i =>
    rw [hm] at hb
    simp only [Option.map_some]
    have e1 : (a ++ b).drop (i + a.length + 1) = b.drop (i + 1) := by
      have : i + a.length + 1 = a.length + (i + 1) := by omega
      rw [this, drop_append_len]
    have e2 : (a ++ b).take (i + a.length) = a ++ b.take i := by
      rw [List.take_append]
      have : i + a.length - a.length = i := by omega
      rw [this, List.take_of_length_le (by omega)]
    rw [e1, e2, List.any_append]
    simp only [Bool.or_eq_true] at hb ⊢
    rcases hb with hb | hb
    · exact Or.inl hb
    · exact Or.inr (Or.inr hb)

theorem noSchemeLike_of_delim_prefix (a b : Bytes) (ha : (58 : UInt8) ∉ a) (hd : a.any isSchemeDelim = true) :
    noSchemeLike (a ++ b) = true := by
  unfold noSchemeLike
  rw [memchr_append_of_not_mem a b ha]
  cases hm : memchr 58 b with
  | none => rfl
  | some i =>
    simp only [Option.map_some]
    have e2 : (a ++ b).take (i + a.length) = a ++ b.take i := by
      rw [List.take_append]
      have : i + a.length - a.length = i := by omega
      rw [this, List.take_of_length_le (by omega)]
    rw [e2, List.any_append, hd]
    simp

theorem noSchemeLike_colon_first (x : UInt8) (l : Bytes) (hx : x ≠ 47) : noSchemeLike (58 :: x :: l) = true := by
  simp [noSchemeLike, memchr, hx]

/-- the first ':' lies in `u`, which has no '/', and `u` is followed by '@' -/
theorem noSchemeLike_userinfo (u t : Bytes) (hc : (58 : UInt8) ∈ u) (h47 : (47 : UInt8) ∉ u) :
    noSchemeLike (u ++ 64 :: t) = true := by
  unfold noSchemeLike
  rw [memchr_append_of_mem u _ hc]
  cases hm : memchr 58 u with
  | none => exact absurd hc (memchr_none hm)
  | some j =>
    have ⟨hj, _, _⟩ := memchr_some hm
    simp only [Bool.or_eq_true, bne_iff_ne, ne_eq]
    left
    rw [List.drop_append]
    cases hd : u.drop (j + 1) with
    | nil =>
      have : j + 1 - u.length = 0 := by omega
      simp [this]
    | cons y ys =>
      have hy : y ∈ u := List.mem_of_mem_drop (by rw [hd]; simp)
      have : y ≠ 47 := fun e => h47 (e ▸ hy)
      simp [this]

/-! ### authority: userinfo -/

theorem memchr_user (u : Bytes) :
    (match memchr 58 u with
     | some j => j = (u.takeWhile (· != 58)).length ∧ u.contains 58 = true
     | none => (u.takeWhile (· != 58)).length = u.length ∧ u.contains 58 = false) := by
  have htw := memchr_takeWhile 58 u
  cases hm : memchr 58 u with
  | some j =>
    rw [hm] at htw
    have ⟨_, _, h3⟩ := memchr_some hm
    refine ⟨htw, ?_⟩
    have : (58 : UInt8) ∈ u.drop j := by rw [h3]; simp
    simpa using List.mem_of_mem_drop this
  | none =>
    rw [hm] at htw
    refine ⟨htw.symm, ?_⟩
    simpa using memchr_none hm

theorem splitUserinfo_some (aoff : Nat) (u h : Bytes) (hu : (64 : UInt8) ∉ u) :
    splitUserinfo aoff (u ++ 64 :: h) =
      (some ⟨aoff, u.length⟩, some ⟨aoff, (u.takeWhile (· != 58)).length⟩,
       (if u.contains 58 then some ⟨aoff + (u.takeWhile (· != 58)).length + 1, u.length - (u.takeWhile (· != 58)).length - 1⟩
        else none),
       aoff + u.length + 1, h) := by
  have hd : (u ++ 64 :: h).drop (u.length + 1) = h := by rw [drop_append_len]; rfl
  have ht : (u ++ 64 :: h).take u.length = u := take_append_len _ _
  have hm := memchr_user u
  simp only [splitUserinfo, memchr_append_cons _ _ hu, hd, ht]
  cases hc : memchr 58 u with
  | some j =>
    rw [hc] at hm
    simp only at hm ⊢
    rw [hm.2, ← hm.1]
    simp
  | none =>
    rw [hc] at hm
    simp only at hm ⊢
    rw [hm.2, hm.1]
    simp

theorem splitUserinfo_none (aoff : Nat) (h : Bytes) (hh : (64 : UInt8) ∉ h) :
    splitUserinfo aoff h = (none, none, none, aoff, h) := by
  simp [splitUserinfo, memchr_of_not_mem hh]

/-! ### authority: host and port -/

theorem parseU64_port (p : Nat) (hp : p < 2 ^ 32) : parseU64 (decDigits p) = .ok p :=
  parseU64_decDigits p (by simp only [UINT64_MAX]; omega)

theorem parsePortAt_digits (ho : Nat) (h : Bytes) (ipv6 : Bool) (d p : Nat) (hp : p < 2 ^ 32)
    (hd : h.drop (d + 1) = decDigits p) (hl : h.length = d + 1 + (decDigits p).length)
    (hc : (if ipv6 then 2 else 0) ≤ d) :
    parsePortAt ho h ipv6 d = .ok (⟨ho, d - (if ipv6 then 2 else 0)⟩, p) := by
  have hne : 0 < (decDigits p).length := List.length_pos_iff.mpr (decDigits_ne_nil p)
  have hlen : h.length - (d - (if ipv6 then 2 else 0)) - 1 - (if ipv6 then 2 else 0) = (decDigits p).length := by
    omega
  have hmax : ¬ p > UINT32_MAX := by simp only [UINT32_MAX]; omega
  unfold parsePortAt
  simp only [hlen, hd, List.take_length, parseU64_port p hp, hne, if_true, hmax, if_false, gt_iff_lt]

theorem head_ne_of_not_mem {x : UInt8} (a b : Bytes) (ha : x ∉ a) (hb : b.head? ≠ some x) :
    (a ++ b).head? ≠ some x := by
  cases a with
  | nil => simpa using hb
  | cons y ys =>
    simp only [List.mem_cons, not_or] at ha
    have : ¬ y = x := fun e => ha.1 e.symm
    simp [this]

theorem parseHostPort_plain_noport (hoff : Nat) (host : Bytes)
    (h1 : (58 : UInt8) ∉ host) (h2 : (91 : UInt8) ∉ host) :
    parseHostPort hoff host = .ok (⟨hoff, host.length⟩, 0) := by
  have hh : host.head? ≠ some 91 := by simpa using head_ne_of_not_mem host [] h2 (by simp)
  simp [parseHostPort, hh, parseHostFrom, memchr_of_not_mem h1]

theorem parseHostPort_plain_port (hoff : Nat) (host : Bytes) (p : Nat) (hp : p < 2 ^ 32)
    (h1 : (58 : UInt8) ∉ host) (h2 : (91 : UInt8) ∉ host) :
    parseHostPort hoff (host ++ 58 :: decDigits p) = .ok (⟨hoff, host.length⟩, p) := by
  have hh : (host ++ 58 :: decDigits p).head? ≠ some 91 := head_ne_of_not_mem host _ h2 (by simp)
  have hd : (host ++ 58 :: decDigits p).drop (host.length + 1) = decDigits p := by
    rw [drop_append_len]; rfl
  have := parsePortAt_digits hoff (host ++ 58 :: decDigits p) false host.length p hp hd
    (by simp only [List.length_append, List.length_cons]; omega) (by simp)
  simp only [parseHostPort, hh, if_false, parseHostFrom, List.drop_zero, memchr_append_cons _ _ h1, Nat.add_zero]
  simpa using this

theorem parseHostPort_v6_noport (hoff : Nat) (host : Bytes) (h1 : (93 : UInt8) ∉ host) :
    parseHostPort hoff (91 :: (host ++ [93])) = .ok (⟨hoff + 1, host.length⟩, 0) := by
  have hm : memchr 93 (91 :: (host ++ [93])) = some (host.length + 1) := by
    simp [memchr, memchr_append_cons _ _ h1]
  have hd : (91 :: (host ++ [93])).drop (host.length + 1) = [93] := by
    simp only [List.drop_succ_cons]
    exact drop_append_len0 _ _
  simp only [parseHostPort, List.head?_cons, if_true, hm, parseHostFrom, hd]
  simp [memchr]

theorem parseHostPort_v6_port (hoff : Nat) (host : Bytes) (p : Nat) (hp : p < 2 ^ 32) (h1 : (93 : UInt8) ∉ host) :
    parseHostPort hoff (91 :: (host ++ [93]) ++ 58 :: decDigits p) = .ok (⟨hoff + 1, host.length⟩, p) := by
  have e : 91 :: (host ++ [93]) ++ 58 :: decDigits p = 91 :: (host ++ 93 :: 58 :: decDigits p) := by simp
  rw [e]
  have hm : memchr 93 (91 :: (host ++ 93 :: 58 :: decDigits p)) = some (host.length + 1) := by
    simp [memchr, memchr_append_cons _ _ h1]
  have hd : (91 :: (host ++ 93 :: 58 :: decDigits p)).drop (host.length + 1) = 93 :: 58 :: decDigits p := by
    simp only [List.drop_succ_cons]
    exact drop_append_len0 _ _
  have hd2 : (91 :: (host ++ 93 :: 58 :: decDigits p)).drop ((host.length + 2) + 1) = decDigits p := by
    rw [List.drop_succ_cons, drop_append_len]; rfl
  have hm2 : memchr 58 (93 :: 58 :: decDigits p) = some 1 := by simp [memchr]
  have := parsePortAt_digits (hoff + 1) (91 :: (host ++ 93 :: 58 :: decDigits p)) true (host.length + 2) p hp hd2
    (by simp only [List.length_append, List.length_cons]; omega) (by simp)
  simp only [parseHostPort, List.head?_cons, if_true, hm, parseHostFrom, hd, hm2]
  have e2 : 1 + (host.length + 1) = host.length + 2 := by omega
  rw [e2]
  simpa using this

/-! ### what `Comp.ok` says -/

theorem isSchemeDelim_mem {x : UInt8} (h : isSchemeDelim x = true) : x ∈ ([47, 63, 35, 64, 91, 93] : Bytes) := by
  simp only [isSchemeDelim, Bool.or_eq_true, beq_iff_eq] at h
  rcases h with ((((h | h) | h) | h) | h) | h <;> simp [h]

structure OkFacts (c : Comp) : Prop where
  scheme : ∀ s, c.scheme = some s → (58 : UInt8) ∉ s ∧ s.any isSchemeDelim = false
  ui : ∀ u, c.userinfo = some u → (64 : UInt8) ∉ u ∧ (47 : UInt8) ∉ u ∧ (63 : UInt8) ∉ u
  host6 : c.ipv6 = true → (93 : UInt8) ∉ c.host ∧ (47 : UInt8) ∉ c.host ∧ (63 : UInt8) ∉ c.host ∧ (64 : UInt8) ∉ c.host
  host4 : c.ipv6 = false → (47 : UInt8) ∉ c.host ∧ (63 : UInt8) ∉ c.host ∧ (58 : UInt8) ∉ c.host ∧
    (64 : UInt8) ∉ c.host ∧ (91 : UInt8) ∉ c.host
  port : ∀ p, c.port = some p → p < 2 ^ 32
  path : c.path = [] ∨ ((∃ t, c.path = 47 :: t) ∧ (63 : UInt8) ∉ c.path)
  nonempty : c.restText ≠ []

theorem okFacts {c : Comp} (h : c.ok = true) : OkFacts c := by
  simp only [Comp.ok, Bool.and_eq_true] at h
  obtain ⟨⟨⟨⟨⟨h1, h2⟩, h3⟩, h4⟩, h5⟩, h7⟩ := h
  refine ⟨?_, ?_, ?_, ?_, ?_, ?_, ?_⟩
  · intro s hs; rw [hs] at h1
    refine ⟨noneOf_not_mem h1 (by simp), ?_⟩
    rw [List.any_eq_false]
    intro x hx hd
    have hm := isSchemeDelim_mem hd
    exact noneOf_not_mem h1 (List.mem_cons_of_mem 58 hm) hx
  · intro u hu; rw [hu] at h2
    exact ⟨noneOf_not_mem h2 (by simp), noneOf_not_mem h2 (by simp), noneOf_not_mem h2 (by simp)⟩
  · intro hv; rw [hv] at h3; simp only [if_true] at h3
    exact ⟨noneOf_not_mem h3 (by simp), noneOf_not_mem h3 (by simp), noneOf_not_mem h3 (by simp),
      noneOf_not_mem h3 (by simp)⟩
  · intro hv; rw [hv] at h3; simp only [Bool.false_eq_true, if_false] at h3
    exact ⟨noneOf_not_mem h3 (by simp), noneOf_not_mem h3 (by simp), noneOf_not_mem h3 (by simp),
      noneOf_not_mem h3 (by simp), noneOf_not_mem h3 (by simp)⟩
  · intro p hp; rw [hp] at h4; simpa using h4
  · cases hpath : c.path with
    | nil => exact Or.inl rfl
    | cons x t =>
      rw [hpath] at h5
      simp only [List.isEmpty_cons, Bool.false_or, List.head?_cons, Bool.and_eq_true, beq_iff_eq,
        Option.some.injEq] at h5
      exact Or.inr ⟨⟨t, by rw [h5.1]⟩, noneOf_not_mem h5.2 (by simp)⟩
  · intro he; rw [he] at h7; simp at h7

/-- under `Comp.ok` the text after the scheme never looks as if it began with a scheme: no extra
condition is needed for tuples without scheme -/
theorem noSchemeLike_rest {c : Comp} (f : OkFacts c) : noSchemeLike c.restText = true := by
  unfold Comp.restText Comp.authText Comp.uiText
  cases hu : c.userinfo with
  | some u =>
    have ⟨_, h47, _⟩ := f.ui u hu
    by_cases hc : (58 : UInt8) ∈ u
    · have e : u ++ [64] ++ (c.hostText ++ c.portText) ++ (c.path ++ c.queryText) =
          u ++ 64 :: (c.hostText ++ c.portText ++ (c.path ++ c.queryText)) := by simp
      rw [e]
      exact noSchemeLike_userinfo u _ hc h47
    · have e : u ++ [64] ++ (c.hostText ++ c.portText) ++ (c.path ++ c.queryText) =
          (u ++ [64]) ++ (c.hostText ++ c.portText ++ (c.path ++ c.queryText)) := by simp
      rw [e]
      exact noSchemeLike_of_delim_prefix _ _ (by simp [hc]) (by simp [isSchemeDelim])
  | none =>
    simp only [List.nil_append]
    unfold Comp.hostText
    cases hv : c.ipv6 with
    | true =>
      simp only [if_true]
      exact noSchemeLike_of_delim_prefix [91] _ (by simp) (by simp [isSchemeDelim])
    | false =>
      have ⟨_, _, h58, _, _⟩ := f.host4 hv
      simp only [Bool.false_eq_true, if_false, List.append_assoc]
      apply noSchemeLike_append_of_not_mem _ _ h58
      unfold Comp.portText
      cases hp : c.port with
      | some p =>
        cases hd : decDigits p with
        | nil => exact absurd hd (decDigits_ne_nil p)
        | cons d ds =>
          have hdig := decDigits_digits p d (by rw [hd]; simp)
          have := (digit_ne_delim hdig).1
          simp only [List.cons_append, hd]
          exact noSchemeLike_colon_first d _ this
      | none =>
        simp only [List.nil_append]
        rcases f.path with hpath | ⟨⟨t, hpath⟩, _⟩
        · rw [hpath]
          simp only [List.nil_append]
          unfold Comp.queryText
          cases c.query with
          | none => rfl
          | some q => exact noSchemeLike_of_delim_prefix [63] q (by simp) (by simp [isSchemeDelim])
        · rw [hpath]
          exact noSchemeLike_of_delim_prefix [47] _ (by simp) (by simp [isSchemeDelim])

/-- `hostText ++ portText` contains none of '/', '?', '@' -/
theorem hostPort_no_delim {c : Comp} (f : OkFacts c) :
    (47 : UInt8) ∉ c.hostText ++ c.portText ∧ (63 : UInt8) ∉ c.hostText ++ c.portText ∧
    (64 : UInt8) ∉ c.hostText ++ c.portText := by
  have hport : (47 : UInt8) ∉ c.portText ∧ (63 : UInt8) ∉ c.portText ∧ (64 : UInt8) ∉ c.portText := by
    unfold Comp.portText
    cases c.port with
    | none => simp
    | some p =>
      have hd := decDigits_digits p
      refine ⟨?_, ?_, ?_⟩ <;>
      · intro hm
        simp only [List.mem_cons] at hm
        rcases hm with hm | hm
        · exact absurd hm (by decide)
        · have := digit_ne_delim (hd _ hm)
          simp at this
  have hhost : (47 : UInt8) ∉ c.hostText ∧ (63 : UInt8) ∉ c.hostText ∧ (64 : UInt8) ∉ c.hostText := by
    unfold Comp.hostText
    cases hv : c.ipv6 with
    | true =>
      have ⟨_, a, b, d⟩ := f.host6 hv
      simp [a, b, d]
    | false =>
      have ⟨a, b, _, d, _⟩ := f.host4 hv
      simp [a, b, d]
  simp only [List.mem_append, not_or]
  exact ⟨⟨hhost.1, hport.1⟩, ⟨hhost.2.1, hport.2.1⟩, ⟨hhost.2.2, hport.2.2⟩⟩

theorem auth_no_delim {c : Comp} (f : OkFacts c) : (47 : UInt8) ∉ c.authText ∧ (63 : UInt8) ∉ c.authText := by
  have ⟨a, b, _⟩ := hostPort_no_delim f
  unfold Comp.authText Comp.uiText
  cases hu : c.userinfo with
  | none => simp only [List.nil_append]; exact ⟨a, b⟩
  | some u =>
    have ⟨_, x, y⟩ := f.ui u hu
    have a' := a
    have b' := b
    simp only [List.mem_append, not_or] at a' b'
    simp [x, y, a'.1, a'.2, b'.1, b'.2]

theorem parseHostPort_spec {c : Comp} (f : OkFacts c) (hoff : Nat) :
    parseHostPort hoff (c.hostText ++ c.portText) =
      .ok (⟨if c.ipv6 then hoff + 1 else hoff, c.host.length⟩, c.port.getD 0) := by
  unfold Comp.hostText Comp.portText
  cases hv : c.ipv6 with
  | true =>
    have ⟨a, _, _, _⟩ := f.host6 hv
    cases hp : c.port with
    | none => simpa using parseHostPort_v6_noport hoff c.host a
    | some p => simpa using parseHostPort_v6_port hoff c.host p (f.port p hp) a
  | false =>
    have ⟨_, _, a, _, b⟩ := f.host4 hv
    cases hp : c.port with
    | none => simpa using parseHostPort_plain_noport hoff c.host a b
    | some p => simpa using parseHostPort_plain_port hoff c.host p (f.port p hp) a b

/-- the fields `s_parse_authority` fills in after `uri->authority` -/
def withAuth (c : Comp) (u : Uri) (aoff : Nat) : Uri :=
  if c.authText.isEmpty then u else
  { u with
    userinfo := c.userinfo.map (fun x => ⟨aoff, x.length⟩),
    user := c.userinfo.map (fun x => ⟨aoff, (x.takeWhile (· != 58)).length⟩),
    password := c.userinfo.bind (fun x =>
      if x.contains 58 then some ⟨aoff + (x.takeWhile (· != 58)).length + 1, x.length - (x.takeWhile (· != 58)).length - 1⟩
      else none),
    host := some ⟨if c.ipv6 then aoff + c.uiText.length + 1 else aoff + c.uiText.length, c.host.length⟩,
    port := c.port.getD 0 }

theorem parseAuthBody_spec {c : Comp} (f : OkFacts c) (p : Parser) (aoff : Nat) :
    parseAuthBody p aoff c.authText = { p with uri := withAuth c p.uri aoff } := by
  unfold parseAuthBody withAuth
  by_cases he : c.authText.isEmpty = true
  · simp [he]
  · simp only [he, Bool.false_eq_true, if_false]
    unfold Comp.authText Comp.uiText
    cases hu : c.userinfo with
    | none =>
      have ⟨_, _, h64⟩ := hostPort_no_delim f
      simp only [List.nil_append, splitUserinfo_none aoff _ h64, parseHostPort_spec f]
      simp
    | some u =>
      have ⟨x, _, _⟩ := f.ui u hu
      have e : u ++ [64] ++ (c.hostText ++ c.portText) = u ++ 64 :: (c.hostText ++ c.portText) := by simp
      simp only [e, splitUserinfo_some aoff u _ x, parseHostPort_spec f]
      simp [Nat.add_assoc]

/-! ### authority, path, query: the three shapes of the remaining text -/

/-- `expected` with the scheme view and the offset of the authority as parameters -/
def expectedAt (c : Comp) (sch : Option View) (o0 : Nat) : Uri :=
  let alen := c.authText.length
  { withAuth c { scheme := sch, authority := some ⟨o0, alen⟩ } o0 with
    path := if c.path.isEmpty then none else some ⟨o0 + alen, c.path.length⟩,
    query := c.query.map (fun q => ⟨o0 + alen + c.path.length + 1, q.length⟩),
    pathAndQuery := if c.path.isEmpty && c.query.isNone then none
                    else some ⟨o0 + alen, c.path.length + c.queryText.length⟩ }

theorem expected_eq (c : Comp) :
    expected c = expectedAt c (c.scheme.map (fun s => ⟨0, s.length⟩)) c.schemeText.length := by
  unfold expected expectedAt withAuth
  by_cases he : c.authText.isEmpty = true
  · have hu : c.userinfo = none := by
      cases hu : c.userinfo with
      | none => rfl
      | some u => simp [Comp.authText, Comp.uiText, hu] at he
    have hp : c.port = none := by
      cases hp : c.port with
      | none => rfl
      | some p => simp [Comp.authText, Comp.portText, hp] at he
    simp [he, hu, hp]
  · simp [he, Nat.add_assoc]

theorem withAuth_keep (c : Comp) (u : Uri) (a : Nat) :
    (withAuth c u a).scheme = u.scheme ∧ (withAuth c u a).authority = u.authority ∧
    (withAuth c u a).path = u.path ∧ (withAuth c u a).query = u.query ∧
    (withAuth c u a).pathAndQuery = u.pathAndQuery := by
  unfold withAuth; split <;> simp

theorem run_from_auth {c : Comp} (f : OkFacts c) (sch : Option View) (o0 : Nat) :
    let p3 := stepParser (stepParser (stepParser
      { uri := { scheme := sch }, state := .onAuthority, off := o0, rest := c.restText }))
    p3.state = .finished ∧ p3.uri = expectedAt c sch o0 := by
  have ⟨ha47, ha63⟩ := auth_no_delim f
  unfold expectedAt
  rcases f.path with hpath | ⟨⟨t, hpath⟩, hp63⟩
  · -- empty path
    cases hq : c.query with
    | none =>
      -- authority only
      have hrest : c.restText = c.authText := by simp [Comp.restText, hpath, Comp.queryText, hq]
      have hne : c.authText ≠ [] := by rw [← hrest]; exact f.nonempty
      have hne' : c.authText.isEmpty = false := by
        cases h : c.authText with
        | nil => exact absurd h hne
        | cons _ _ => rfl
      simp only [hrest, stepParser, parseAuthority, memchr_of_not_mem ha47, memchr_of_not_mem ha63, hne',
        Bool.false_eq_true, if_false, Parser.advance, parseAuthBody_spec f]
      have hk := withAuth_keep c { scheme := sch, authority := some ⟨o0, c.authText.length⟩ } o0
      generalize withAuth c { scheme := sch, authority := some ⟨o0, c.authText.length⟩ } o0 = U at hk ⊢
      obtain ⟨sc, au, ui, us, pw, ho, po, pa, qu, pq⟩ := U
      simp only at hk
      obtain ⟨rfl, rfl, rfl, rfl, rfl⟩ := hk
      simp [hpath, hq, Comp.queryText, Nat.add_assoc]
    | some q =>
      -- the query may contain '/': the '?' comes first
      have hrest : c.restText = c.authText ++ 63 :: q := by simp [Comp.restText, hpath, Comp.queryText, hq]
      have h47 : memchr 47 (c.authText ++ 63 :: q) = (memchr 47 q).map (· + (c.authText.length + 1)) := by
        rw [memchr_append_of_not_mem _ _ ha47]
        simp only [memchr, show ¬ ((63 : UInt8) = 47) by decide, if_false]
        cases memchr 47 q <;> simp; omega
      cases h47q : memchr 47 q with
      | none =>
        rw [h47q] at h47
        simp only [hrest, stepParser, parseAuthority, h47, Option.map_none, memchr_append_cons _ _ ha63,
          authorityUpTo, Parser.advance, take_append_len, drop_append_len0, parseAuthBody_spec f, parseQuery]
        have hk := withAuth_keep c { scheme := sch, authority := some ⟨o0, c.authText.length⟩ } o0
        generalize withAuth c { scheme := sch, authority := some ⟨o0, c.authText.length⟩ } o0 = U at hk ⊢
        obtain ⟨sc, au, ui, us, pw, ho, po, pa, qu, pq⟩ := U
        simp only at hk
        obtain ⟨rfl, rfl, rfl, rfl, rfl⟩ := hk
        simp [hpath, hq, Comp.queryText, Nat.add_assoc]
      | some k =>
        rw [h47q] at h47
        have hlt : ¬ k + (c.authText.length + 1) < c.authText.length := by omega
        simp only [hrest, stepParser, parseAuthority, h47, Option.map_some, memchr_append_cons _ _ ha63, hlt,
          if_false, authorityUpTo, Parser.advance, take_append_len, drop_append_len0, parseAuthBody_spec f, parseQuery]
        have hk := withAuth_keep c { scheme := sch, authority := some ⟨o0, c.authText.length⟩ } o0
        generalize withAuth c { scheme := sch, authority := some ⟨o0, c.authText.length⟩ } o0 = U at hk ⊢
        obtain ⟨sc, au, ui, us, pw, ho, po, pa, qu, pq⟩ := U
        simp only at hk
        obtain ⟨rfl, rfl, rfl, rfl, rfl⟩ := hk
        simp [hpath, hq, Comp.queryText, Nat.add_assoc]
  · -- path starting with '/'
    have hp63' : (63 : UInt8) ∉ 47 :: t := hpath ▸ hp63
    cases hq : c.query with
    | none =>
      have hrest : c.restText = c.authText ++ 47 :: t := by simp [Comp.restText, hpath, Comp.queryText, hq]
      have h63 : (63 : UInt8) ∉ c.authText ++ 47 :: t := by
        simp only [List.mem_append, not_or]; exact ⟨ha63, hp63'⟩
      simp only [hrest, stepParser, parseAuthority, memchr_append_cons _ _ ha47, memchr_of_not_mem h63,
        authorityUpTo, Parser.advance, take_append_len, drop_append_len0, parseAuthBody_spec f, parsePath,
        memchr_of_not_mem hp63']
      have hk := withAuth_keep c { scheme := sch, authority := some ⟨o0, c.authText.length⟩ } o0
      generalize withAuth c { scheme := sch, authority := some ⟨o0, c.authText.length⟩ } o0 = U at hk ⊢
      obtain ⟨sc, au, ui, us, pw, ho, po, pa, qu, pq⟩ := U
      simp only at hk
      obtain ⟨rfl, rfl, rfl, rfl, rfl⟩ := hk
      simp [hpath, hq, Comp.queryText, Nat.add_assoc]
    | some q =>
      have hrest : c.restText = c.authText ++ 47 :: (t ++ 63 :: q) := by
        simp [Comp.restText, hpath, Comp.queryText, hq]
      have hm : memchr 63 (47 :: (t ++ 63 :: q)) = some (t.length + 1) := by
        have := memchr_append_cons (47 :: t) q hp63'
        simpa using this
      have hm2 : memchr 63 (c.authText ++ 47 :: (t ++ 63 :: q)) = some (t.length + 1 + c.authText.length) := by
        rw [memchr_append_of_not_mem _ _ ha63, hm]; rfl
      have hlt : c.authText.length < t.length + 1 + c.authText.length := by omega
      have hdq : (47 :: (t ++ 63 :: q)).drop (t.length + 1) = 63 :: q := by
        have := drop_append_len0 (47 :: t) (63 :: q)
        simpa using this
      simp only [hrest, stepParser, parseAuthority, memchr_append_cons _ _ ha47, hm2, hlt, if_true,
        authorityUpTo, Parser.advance, take_append_len, drop_append_len0, parseAuthBody_spec f, parsePath, hm, hdq,
        parseQuery]
      have hk := withAuth_keep c { scheme := sch, authority := some ⟨o0, c.authText.length⟩ } o0
      generalize withAuth c { scheme := sch, authority := some ⟨o0, c.authText.length⟩ } o0 = U at hk ⊢
      obtain ⟨sc, au, ui, us, pw, ho, po, pa, qu, pq⟩ := U
      simp only at hk
      obtain ⟨rfl, rfl, rfl, rfl, rfl⟩ := hk
      simp [hpath, hq, Comp.queryText, Nat.add_assoc]
      omega

/-! ### the whole parser -/

theorem runParser_assemble {c : Comp} (h : c.ok = true) :
    (runParser (assemble c)).state = .finished ∧ (runParser (assemble c)).uri = expected c := by
  have f := okFacts h
  rw [expected_eq]
  unfold runParser assemble
  cases hs : c.scheme with
  | none =>
    have h0 : stepParser { rest := c.schemeText ++ c.restText } =
        { uri := { scheme := none }, state := .onAuthority, off := 0, rest := c.restText } := by
      simp only [Comp.schemeText, hs, List.nil_append]
      exact parseScheme_none _ (noSchemeLike_rest f)
    rw [h0]
    have := run_from_auth f none 0
    simpa [Comp.schemeText, hs] using this
  | some s =>
    have h0 : stepParser { rest := c.schemeText ++ c.restText } =
        { uri := { scheme := some ⟨0, s.length⟩ }, state := .onAuthority, off := s.length + 3, rest := c.restText } := by
      simp only [Comp.schemeText, hs]
      have := parseScheme_some s c.restText (f.scheme s hs).1 (f.scheme s hs).2
      simpa [stepParser] using this
    rw [h0]
    have := run_from_auth f (some ⟨0, s.length⟩) (s.length + 3)
    simpa [Comp.schemeText, hs] using this

theorem parse_assemble {c : Comp} (h : c.ok = true) : parse (assemble c) = .ok (expected c) := by
  have ⟨h1, h2⟩ := runParser_assemble h
  simp [parse, h1, h2]

end AwsVerif.Uri
