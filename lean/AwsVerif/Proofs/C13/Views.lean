import AwsVerif.Proofs.C13.Parse
/-! The views of `expected c` read back the components of `c` from `assemble c` (C13). -/
namespace AwsVerif.Uri
set_option linter.unusedSimpArgs false
set_option linter.unnecessarySimpa false

theorem bytes_at (s a m b : Bytes) (hs : s = a ++ (m ++ b)) (off len : Nat) (ho : off = a.length)
    (hl : len = m.length) : View.bytes ⟨off, len⟩ s = m := by
  subst hs ho hl
  simp [View.bytes, drop_append_len0, take_append_len]

/-- the fields a component tuple determines -/
structure ReadsBack (c : Comp) (u : Uri) (s : Bytes) : Prop where
  scheme : optBytes u.scheme s = c.scheme.getD [] ∧ u.scheme.isSome = c.scheme.isSome
  authority : optBytes u.authority s = c.authText
  userinfo : optBytes u.userinfo s = c.userinfo.getD [] ∧ u.userinfo.isSome = c.userinfo.isSome
  user : optBytes u.user s = (splitFirst 58 (c.userinfo.getD [])).1
  password : optBytes u.password s = (splitFirst 58 (c.userinfo.getD [])).2
  host : optBytes u.host s = c.host
  port : u.port = c.port.getD 0
  path : optBytes u.path s = c.path
  query : optBytes u.query s = c.query.getD [] ∧ u.query.isSome = c.query.isSome
  pathAndQuery : optBytes u.pathAndQuery s = c.path ++ c.queryText
  inside : u.inside s.length

theorem hostText_eq (c : Comp) : c.hostText = (if c.ipv6 then [91] else []) ++ (c.host ++ (if c.ipv6 then [93] else [])) := by
  unfold Comp.hostText; cases c.ipv6 <;> simp

theorem expected_readsBack (c : Comp) : ReadsBack c (expected c) (assemble c) := by
  have hs : assemble c = c.schemeText ++ (c.uiText ++ (c.hostText ++ c.portText) ++ (c.path ++ c.queryText)) := by
    simp [assemble, Comp.restText, Comp.authText]
  have hlen : (assemble c).length = c.schemeText.length + c.authText.length + c.path.length + c.queryText.length := by
    simp [assemble, Comp.restText]; omega
  refine ⟨?_, ?_, ?_, ?_, ?_, ?_, ?_, ?_, ?_, ?_, ?_⟩
  · -- scheme
    cases hsc : c.scheme with
    | none => simp [expected, hsc, optBytes]
    | some sc =>
      simp only [expected, hsc, Option.map_some, optBytes, Option.getD_some, Option.isSome_some, and_true]
      exact bytes_at _ [] sc ([58, 47, 47] ++ c.restText) (by simp [assemble, Comp.schemeText, hsc]) _ _ rfl rfl
  · -- authority
    simp only [expected, optBytes]
    exact bytes_at _ c.schemeText c.authText (c.path ++ c.queryText) (by simp [assemble, Comp.restText]) _ _ rfl rfl
  · -- userinfo
    cases hu : c.userinfo with
    | none => simp [expected, hu, optBytes]
    | some ui =>
      simp only [expected, hu, Option.map_some, optBytes, Option.getD_some, Option.isSome_some, and_true]
      exact bytes_at _ c.schemeText ui ([64] ++ (c.hostText ++ c.portText) ++ (c.path ++ c.queryText))
        (by simp [hs, Comp.uiText, hu]) _ _ rfl rfl
  · -- user
    cases hu : c.userinfo with
    | none => simp [expected, hu, optBytes, splitFirst]
    | some ui =>
      simp only [expected, hu, Option.map_some, optBytes, Option.getD_some, splitFirst]
      have e : ui = ui.takeWhile (· != 58) ++ ui.dropWhile (· != 58) := (List.takeWhile_append_dropWhile).symm
      exact bytes_at _ c.schemeText (ui.takeWhile (· != 58))
        (ui.dropWhile (· != 58) ++ [64] ++ (c.hostText ++ c.portText) ++ (c.path ++ c.queryText))
        (by
          rw [hs]; simp only [Comp.uiText, hu]
          conv => lhs; rw [e]
          simp only [List.append_assoc]) _ _ rfl rfl
  · -- password
    cases hu : c.userinfo with
    | none => simp [expected, hu, optBytes, splitFirst]
    | some ui =>
      simp only [expected, hu, Option.bind_some, Option.getD_some, splitFirst]
      by_cases hm : (58 : UInt8) ∈ ui
      · have hc : ui.contains 58 = true := by simpa using hm
        obtain ⟨r, hr, e⟩ := dropWhile_of_mem hm
        simp only [hc, if_true, optBytes]
        rw [hr, List.drop_one, List.tail_cons]
        have hlenu : ui.length = (ui.takeWhile (· != 58)).length + (r.length + 1) := by
          conv => lhs; rw [e]
          simp
        exact bytes_at _ (c.schemeText ++ ui.takeWhile (· != 58) ++ [58]) r
          ([64] ++ (c.hostText ++ c.portText) ++ (c.path ++ c.queryText))
          (by
            rw [hs]; simp only [Comp.uiText, hu]
            conv => lhs; rw [e]
            simp only [List.append_assoc, List.cons_append, List.nil_append]) _ _ (by simp; omega) (by omega)
      · have hc : ui.contains 58 = false := by simpa using hm
        simp [hc, hm, optBytes, (dropWhile_of_not_mem hm).1]
  · -- host
    simp only [expected]
    by_cases he : c.authText.isEmpty = true
    · have : c.host = [] := by
        have h0 : c.authText = [] := List.isEmpty_iff.mp he
        have h1 : c.hostText = [] := by
          simp only [Comp.authText, List.append_eq_nil_iff] at h0
          exact h0.2.1
        rw [hostText_eq] at h1
        simp only [List.append_eq_nil_iff] at h1
        exact h1.2.1
      simp [he, optBytes, this]
    · simp only [he, Bool.false_eq_true, if_false, optBytes]
      exact bytes_at _ (c.schemeText ++ c.uiText ++ (if c.ipv6 then [91] else [])) c.host
        ((if c.ipv6 then [93] else []) ++ c.portText ++ (c.path ++ c.queryText))
        (by rw [hs, hostText_eq]; simp) _ _ (by cases c.ipv6 <;> simp <;> omega) rfl
  · rfl
  · -- path
    simp only [expected]
    by_cases hp : c.path.isEmpty = true
    · simp [hp, optBytes, List.isEmpty_iff.mp hp]
    · simp only [hp, Bool.false_eq_true, if_false, optBytes]
      exact bytes_at _ (c.schemeText ++ c.authText) c.path c.queryText (by simp [assemble, Comp.restText]) _ _
        (by simp) rfl
  · -- query
    cases hq : c.query with
    | none => simp [expected, hq, optBytes]
    | some q =>
      simp only [expected, hq, Option.map_some, optBytes, Option.getD_some, Option.isSome_some, and_true]
      exact bytes_at _ (c.schemeText ++ c.authText ++ c.path ++ [63]) q []
        (by simp [assemble, Comp.restText, Comp.queryText, hq]) _ _ (by simp; omega) rfl
  · -- path and query
    simp only [expected]
    by_cases hpq : (c.path.isEmpty && c.query.isNone) = true
    · simp only [Bool.and_eq_true, Option.isNone_iff_eq_none] at hpq
      simp [hpq.1, hpq.2, optBytes, List.isEmpty_iff.mp hpq.1, Comp.queryText]
    · simp only [hpq, Bool.false_eq_true, if_false, optBytes]
      exact bytes_at _ (c.schemeText ++ c.authText) (c.path ++ c.queryText) []
        (by simp [assemble, Comp.restText]) _ _ (by simp) (by simp)
  · -- inside
    intro v hv
    have hauth : c.authText.length = c.uiText.length + c.hostText.length + c.portText.length := by
      simp [Comp.authText]; omega
    have hhost : c.hostText.length = c.host.length + (if c.ipv6 then 2 else 0) := by
      unfold Comp.hostText; cases c.ipv6 <;> simp
    simp only [Uri.views, expected, List.mem_cons, List.not_mem_nil, or_false] at hv
    rcases hv with rfl | rfl | rfl | rfl | rfl | rfl | rfl | rfl | rfl
    · cases hsc : c.scheme with
      | none => simp
      | some sc => simp [hlen, Comp.schemeText, hsc]; omega
    · simp only [hlen]; omega
    · cases hu : c.userinfo with
      | none => simp
      | some ui => simp [hlen, hauth, Comp.uiText, hu]; omega
    · cases hu : c.userinfo with
      | none => simp
      | some ui =>
        have := takeWhile_length_le (· != 58) ui
        simp [hlen, hauth, Comp.uiText, hu]; omega
    · cases hu : c.userinfo with
      | none => simp
      | some ui =>
        have := takeWhile_length_le (· != 58) ui
        by_cases hm : (58 : UInt8) ∈ ui
        · have hc : ui.contains 58 = true := by simpa using hm
          obtain ⟨r, _, e⟩ := dropWhile_of_mem hm
          have hlenu : ui.length = (ui.takeWhile (· != 58)).length + (r.length + 1) := by
            conv => lhs; rw [e]
            simp
          simp only [Option.bind_some, hc, if_true, hlen, hauth, Comp.uiText, hu, List.length_append,
            List.length_cons, List.length_nil]
          omega
        · have hc : ui.contains 58 = false := by simpa using hm
          simp [hc, hm]
    · by_cases he : c.authText.isEmpty = true
      · simp [he]
      · simp only [he, Bool.false_eq_true, if_false, hlen, hauth, hhost]
        cases c.ipv6 <;> simp <;> omega
    · by_cases hp : c.path.isEmpty = true
      · simp [hp]
      · simp only [hp, Bool.false_eq_true, if_false, hlen]; omega
    · cases hq : c.query with
      | none => simp
      | some q => simp [hlen, Comp.queryText, hq]; omega
    · by_cases hpq : (c.path.isEmpty && c.query.isNone) = true
      · simp [hpq]
      · simp only [hpq, Bool.false_eq_true, if_false, hlen]; omega

end AwsVerif.Uri
