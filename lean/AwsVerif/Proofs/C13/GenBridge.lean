import AwsVerif.Gen.UriFns
import AwsVerif.Gen.ByteBufTables
import AwsVerif.Proofs.C13.Coders
import AwsVerif.Proofs.C13.Builder
/-! Bridge between the hand-written model of uri.c and the layer generated from /repo's current source
(`AwsVerif/Gen/UriFns.lean`, rewritten on every check): `Model.f = Gen.f`. -/
namespace AwsVerif.Uri
open AwsVerif.Gen
set_option linter.unusedSimpArgs false
set_option maxRecDepth 100000

theorem gen_pathSafe_all : ∀ x : UInt8, (pathSafe x == UriFns.verif_uri_path_safe x.toNat) = true :=
  forall_u8 _ (by decide)

theorem gen_paramSafe_all : ∀ x : UInt8, (paramSafe x == UriFns.verif_uri_param_safe x.toNat) = true :=
  forall_u8 _ (by decide)

theorem gen_upHex_all : ∀ x : UInt8, ((upHex x).toNat == UriFns.s_to_uppercase_hex x.toNat) = true :=
  forall_u8 _ (by decide)

theorem gen_schemeDelim_all : ∀ x : UInt8, (isSchemeDelim x == UriFns.verif_uri_scheme_delim x.toNat) = true :=
  forall_u8 _ (by decide)

theorem gen_port_too_big (v : Nat) : UriFns.verif_uri_port_too_big v = decide (v > UINT32_MAX) := by
  unfold UriFns.verif_uri_port_too_big
  by_cases h : v > 4294967295 <;> simp [h, UINT32_MAX]

theorem gen_param_estimate (k v : Nat) (h : k + v + 2 < 2 ^ 64) : UriFns.verif_uri_param_estimate k v = k + v + 2 := by
  unfold UriFns.verif_uri_param_estimate
  omega

/-- the generated size estimate is the model's `builderSize` (as long as the sum does not wrap) -/
theorem gen_size_estimate (o : BuilderOptions) (h : builderSize o < 2 ^ 64) :
    UriFns.verif_uri_size_estimate o.scheme.length o.host.length o.port o.path.length
      (if o.params.isSome then 1 else 0) (o.params.getD []).length (paramsEstimate (o.params.getD [])) o.query.length
      = builderSize o := by
  unfold builderSize PORT_BUFFER_SIZE at h ⊢
  unfold UriFns.verif_uri_size_estimate paramsEstimate
  cases hp : o.params with
  | none =>
    simp only [hp] at h
    by_cases h1 : o.scheme.length ≠ 0 <;> by_cases h2 : o.port ≠ 0 <;> by_cases h3 : o.query.length ≠ 0 <;>
      simp only [h1, h2, h3, ne_eq, if_true, if_false, not_false_eq_true, not_true_eq_false, Option.isSome_none,
        Bool.false_eq_true, Option.getD_none, List.length_nil] at h ⊢ <;> omega
  | some ps =>
    simp only [hp] at h
    by_cases h1 : o.scheme.length ≠ 0 <;> by_cases h2 : o.port ≠ 0 <;> by_cases h3 : ps.length ≠ 0 <;>
      simp only [h1, h2, h3, ne_eq, if_true, if_false, not_false_eq_true, not_true_eq_false, Option.isSome_some,
        Option.getD_some, Nat.succ_ne_zero, Nat.one_ne_zero] at h ⊢ <;> omega

theorem plainText_length (o : BuilderOptions) :
    (plainText o).length = (if o.scheme.length ≠ 0 then o.scheme.length + 3 else 0) + o.host.length +
      (if o.port ≠ 0 then 1 + (decDigits o.port).length else 0) + o.path.length := by
  unfold plainText
  by_cases h1 : o.scheme.length ≠ 0 <;> by_cases h2 : o.port ≠ 0 <;>
    simp [h1, h2] <;> omega

/-- query-string form: the text the builder has to write fits the generated estimate -/
theorem gen_estimate_covers_query (o : BuilderOptions) (hpar : o.params = none) (hp : o.port < 2 ^ 32)
    (h : builderSize o < 2 ^ 64) :
    (plainText o ++ (if o.query.length ≠ 0 then 63 :: o.query else [])).length ≤
      UriFns.verif_uri_size_estimate o.scheme.length o.host.length o.port o.path.length
        0 0 0 o.query.length := by
  have hd := decDigits_length_le o.port hp
  have hb := gen_size_estimate o h
  simp only [hpar, Option.isSome_none, Bool.false_eq_true, if_false, Option.getD_none, List.length_nil] at hb
  have e : paramsEstimate [] = 0 := rfl
  rw [e] at hb
  rw [hb, List.length_append, plainText_length]
  unfold builderSize PORT_BUFFER_SIZE
  simp only [hpar]
  by_cases h1 : o.scheme.length ≠ 0 <;> by_cases h2 : o.port ≠ 0 <;> by_cases h3 : o.query.length ≠ 0 <;>
    simp [h1, h2, h3] <;> omega

/-! ### byte_buf.c helpers under the parser and the decoder -/

theorem gen_hexTable_all : ∀ x : UInt8, (hexToNum x == ByteBufTables.hexToNumTable.getD x.toNat 0) = true :=
  forall_u8 _ (by decide)

theorem gen_hex_enough (n : Nat) : UriFns.verif_bb_hex_enough n = decide (n ≥ 2) := by
  unfold UriFns.verif_bb_hex_enough
  by_cases h : n ≥ 2 <;> simp [h]

theorem gen_hex_valid (hi lo : Nat) : UriFns.verif_bb_hex_valid hi lo = decide (hi ≠ 255 ∧ lo ≠ 255) := by
  unfold UriFns.verif_bb_hex_valid
  by_cases h : hi ≠ 255 ∧ lo ≠ 255 <;> simp [h]

theorem gen_hex_value : ∀ hi lo : Fin 16,
    UriFns.verif_bb_hex_value hi.val lo.val = (((UInt8.ofNat hi.val) <<< 4) ||| (UInt8.ofNat lo.val)).toNat := by
  decide

theorem gen_not_digit : ∀ v : Fin 256, UriFns.verif_bb_not_digit v.val 10 = decide (v.val ≥ 10) := by decide

theorem gen_reserve_noop (r c : Nat) : UriFns.verif_bb_reserve_noop r c = decide (r ≤ c) := by
  unfold UriFns.verif_bb_reserve_noop
  by_cases h : r ≤ c <;> simp [h]

/-- the guard of `aws_byte_buf_append` (generated for C01) is the test `appendBounded` makes -/
theorem gen_append_guard (cap : Nat) (buf x : Bytes) (h1 : buf.length ≤ cap) (h2 : cap < 2 ^ 64) :
    appendBounded cap buf x = if ByteBufFns.verif_guard_buf_append cap buf.length x.length then buf else buf ++ x := by
  unfold appendBounded ByteBufFns.verif_guard_buf_append
  have e : (cap + 18446744073709551616 - buf.length) % 18446744073709551616 = cap - buf.length := by omega
  rw [e]
  by_cases h : cap - buf.length < x.length <;> simp [h]

/-- `aws_byte_cursor_advance` does not refuse an advance within the cursor (sizes up to SIZE_MAX/2): the
parser's `Parser.advance` is only used that way -/
theorem gen_advance_guard (len n : Nat) (h1 : n ≤ len) (h2 : len ≤ 9223372036854775807) :
    ByteBufFns.verif_guard_cursor_advance len n = false := by
  unfold ByteBufFns.verif_guard_cursor_advance
  have a : ¬ len > 9223372036854775807 := by omega
  have b : ¬ n > 9223372036854775807 := by omega
  have c : ¬ n > len := by omega
  simp [a, b, c]

end AwsVerif.Uri
