import AwsVerif.Proofs.C13.Spec
import AwsVerif.Proofs.C13.Mem
/-! For *every* input: the four-step run of the state machine ends in FINISHED or ERROR, and every
cursor of a successfully parsed URI lies inside the text (C13). -/
namespace AwsVerif.Uri
set_option linter.unusedSimpArgs false
set_option linter.unnecessarySimpa false

/-- an optional cursor lies inside a text of `n` bytes -/
def vin (n : Nat) (v : Option View) : Prop :=
  match v with
  | some v => v.off + v.len ≤ n
  | none => True

@[simp] theorem vin_none (n : Nat) : vin n none := trivial
@[simp] theorem vin_some (n : Nat) (v : View) : vin n (some v) ↔ v.off + v.len ≤ n := Iff.rfl

structure Inside (u : Uri) (n : Nat) : Prop where
  scheme : vin n u.scheme
  authority : vin n u.authority
  userinfo : vin n u.userinfo
  user : vin n u.user
  password : vin n u.password
  host : vin n u.host
  path : vin n u.path
  query : vin n u.query
  pathAndQuery : vin n u.pathAndQuery

theorem Inside.toUri {u : Uri} {n : Nat} (h : Inside u n) : u.inside n := by
  intro v hv
  simp only [Uri.views, List.mem_cons, List.not_mem_nil, or_false] at hv
  rcases hv with rfl | rfl | rfl | rfl | rfl | rfl | rfl | rfl | rfl
  · exact h.scheme
  · exact h.authority
  · exact h.userinfo
  · exact h.user
  · exact h.password
  · exact h.host
  · exact h.path
  · exact h.query
  · exact h.pathAndQuery

def active (s : PState) : Prop := s = .onScheme ∨ s = .onAuthority ∨ s = .onPath ∨ s = .onQuery

/-- parser invariant for a text of `n` bytes -/
structure PInv (n : Nat) (p : Parser) : Prop where
  uri : Inside p.uri n
  cur : active p.state → p.off + p.rest.length = n

/-! ### scheme -/

theorem parseScheme_inv {n : Nat} {p : Parser} (h : PInv n p) (hs : p.state = .onScheme) :
    PInv n (parseScheme p) ∧ ((parseScheme p).state = .onAuthority ∨ (parseScheme p).state = .error) := by
  have hc := h.cur (Or.inl hs)
  unfold parseScheme
  cases hm : memchr 58 p.rest with
  | none => exact ⟨⟨h.uri, fun _ => hc⟩, Or.inl rfl⟩
  | some i =>
    have ⟨hi, _, _⟩ := memchr_some hm
    show PInv n (if _ then _ else _) ∧ _
    by_cases h1 : (p.rest.drop (i + 1)).head? = some 47
    · simp only [h1, if_true]
      by_cases hdl : (p.rest.take i).any isSchemeDelim = true
      · simp only [hdl, if_true]
        exact ⟨⟨h.uri, fun _ => hc⟩, by simp⟩
      simp only [hdl, Bool.false_eq_true, if_false]
      have hu : Inside { p.uri with scheme := some ⟨p.off, i⟩ } n :=
        { h.uri with scheme := by simp only [vin_some]; omega }
      by_cases h2 : (List.take 3 ({ p with uri := { p.uri with scheme := some ⟨p.off, i⟩ } }.advance i).rest) = ([58, 47, 47] : Bytes)
      · simp only [h2, if_true]
        have hlen : 3 ≤ (p.rest.drop i).length := by
          have : (List.take 3 (p.rest.drop i)).length = 3 := by
            simp only [Parser.advance] at h2; rw [h2]; rfl
          simp only [List.length_take] at this
          omega
        refine ⟨⟨by simpa [Parser.advance] using hu, fun _ => ?_⟩, by simp⟩
        simp only [Parser.advance, List.length_drop] at hlen ⊢
        omega
      · simp only [h2, if_false]
        exact ⟨⟨by simpa [Parser.advance] using hu, fun ha => by simp [active] at ha⟩, by simp⟩
    · simp only [h1, if_false]
      exact ⟨⟨h.uri, fun _ => hc⟩, by simp⟩

/-! ### authority -/

theorem splitUserinfo_inv (aoff : Nat) (a : Bytes) :
    let r := splitUserinfo aoff a
    vin (aoff + a.length) r.1 ∧ vin (aoff + a.length) r.2.1 ∧ vin (aoff + a.length) r.2.2.1 ∧
    r.2.2.2.1 + r.2.2.2.2.length = aoff + a.length := by
  unfold splitUserinfo
  cases hm : memchr 64 a with
  | none => simp
  | some i =>
    have ⟨hi, _, _⟩ := memchr_some hm
    simp only
    cases hc : memchr 58 (a.take i) with
    | none => simp; omega
    | some j =>
      have ⟨hj, _, _⟩ := memchr_some hc
      simp only [List.length_take] at hj
      simp; omega

theorem parsePortAt_inv (ho : Nat) (h : Bytes) (ipv6 : Bool) (d : Nat) (n : Nat)
    (hb : ho + (d - (if ipv6 then 2 else 0)) ≤ n) :
    match parsePortAt ho h ipv6 d with
    | .ok (v, _) => v.off + v.len ≤ n
    | .error _ => True := by
  unfold parsePortAt
  simp only
  by_cases hpl : h.length - (d - (if ipv6 then 2 else 0)) - 1 - (if ipv6 then 2 else 0) > 0
  · simp only [hpl, if_true]
    generalize parseU64 _ = r
    cases r with
    | error e => trivial
    | ok v => by_cases hv : v > UINT32_MAX <;> simp [hv] <;> omega
  · simp only [hpl, if_false]; omega

theorem parseHostPort_inv (hoff : Nat) (h : Bytes) :
    match parseHostPort hoff h with
    | .ok (v, _) => v.off + v.len ≤ hoff + h.length
    | .error _ => True := by
  unfold parseHostPort
  by_cases h6 : h.head? = some 91
  · simp only [h6, if_true]
    cases hm : memchr 93 h with
    | none => trivial
    | some start =>
      have ⟨hs, hnot, hd⟩ := memchr_some hm
      -- the ']' is not at index 0 (that is the '[')
      have hs1 : 1 ≤ start := by
        cases h with
        | nil => simp at h6
        | cons x xs =>
          simp only [List.head?_cons, Option.some.injEq] at h6
          subst h6
          cases start with
          | zero => simp at hd
          | succ k => omega
      simp only [parseHostFrom]
      cases hc : memchr 58 (h.drop start) with
      | none => simp; omega
      | some k =>
        have ⟨hk, _, hdk⟩ := memchr_some hc
        simp only [List.length_drop] at hk
        have hk1 : 1 ≤ k := by
          cases k with
          | zero => rw [hd] at hdk; simp at hdk
          | succ _ => omega
        simp only
        exact parsePortAt_inv (hoff + 1) h true (k + start) (hoff + h.length) (by simp; omega)
  · simp only [h6, if_false, parseHostFrom, List.drop_zero]
    cases hc : memchr 58 h with
    | none => simp
    | some k =>
      have ⟨hk, _, _⟩ := memchr_some hc
      simp only
      exact parsePortAt_inv hoff h false (k + 0) (hoff + h.length) (by simp; omega)

theorem vin_mono {n m : Nat} (h : n ≤ m) {v : Option View} (hv : vin n v) : vin m v := by
  cases v with
  | none => trivial
  | some v => simp only [vin_some] at hv ⊢; omega

theorem parseAuthBody_inv {n : Nat} (p : Parser) (aoff : Nat) (a : Bytes) (hu : Inside p.uri n)
    (ha : aoff + a.length ≤ n) :
    Inside (parseAuthBody p aoff a).uri n ∧
    ((parseAuthBody p aoff a).state = p.state ∨ (parseAuthBody p aoff a).state = .error) ∧
    (parseAuthBody p aoff a).off = p.off ∧ (parseAuthBody p aoff a).rest = p.rest := by
  unfold parseAuthBody
  by_cases he : a.isEmpty = true
  · simp [he, hu]
  · simp only [he, Bool.false_eq_true, if_false]
    have hs := splitUserinfo_inv aoff a
    generalize splitUserinfo aoff a = r at hs
    obtain ⟨ui, user, pw, hoff, h⟩ := r
    simp only at hs
    obtain ⟨h1, h2, h3, h4⟩ := hs
    have hu' : Inside { p.uri with userinfo := ui, user := user, password := pw } n :=
      { hu with userinfo := vin_mono ha h1, user := vin_mono ha h2, password := vin_mono ha h3 }
    have hp := parseHostPort_inv hoff h
    simp only
    cases hr : parseHostPort hoff h with
    | error e => exact ⟨hu', Or.inr rfl, rfl, rfl⟩
    | ok r =>
      obtain ⟨host, port⟩ := r
      rw [hr] at hp
      simp only at hp
      exact ⟨{ hu' with host := by simp only [vin_some]; omega }, Or.inl rfl, rfl, rfl⟩

theorem authorityUpTo_inv {n : Nat} {p : Parser} (h : PInv n p) (hc : p.off + p.rest.length = n) (i : Nat)
    (hi : i < p.rest.length) (next : PState) :
    PInv n (authorityUpTo p i next) ∧
    ((authorityUpTo p i next).state = next ∨ (authorityUpTo p i next).state = .error) := by
  unfold authorityUpTo
  have hu : Inside { p.uri with authority := some ⟨p.off, i⟩ } n :=
    { h.uri with authority := by simp only [vin_some]; omega }
  have := parseAuthBody_inv
    ({ p with uri := { p.uri with authority := some ⟨p.off, i⟩ }, state := next }.advance i) p.off (p.rest.take i)
    (by simpa [Parser.advance] using hu) (by simp only [List.length_take]; omega)
  obtain ⟨a, b, c, d⟩ := this
  refine ⟨⟨a, fun _ => ?_⟩, ?_⟩
  · rw [c, d]; simp only [Parser.advance, List.length_drop]; omega
  · rcases b with b | b
    · exact Or.inl (by rw [b]; rfl)
    · exact Or.inr b

theorem parseAuthority_inv {n : Nat} {p : Parser} (h : PInv n p) (hs : p.state = .onAuthority) :
    PInv n (parseAuthority p) ∧
    ((parseAuthority p).state = .finished ∨ (parseAuthority p).state = .onPath ∨
     (parseAuthority p).state = .onQuery ∨ (parseAuthority p).state = .error) := by
  have hc := h.cur (Or.inr (Or.inl hs))
  unfold parseAuthority
  cases h47 : memchr 47 p.rest with
  | none =>
    cases h63 : memchr 63 p.rest with
    | none =>
      simp only
      by_cases he : p.rest.isEmpty = true
      · simp only [he, if_true]
        exact ⟨⟨h.uri, fun ha => by simp [active] at ha⟩, by simp⟩
      · simp only [he, Bool.false_eq_true, if_false]
        have hu : Inside { p.uri with authority := some ⟨p.off, p.rest.length⟩, path := none, pathAndQuery := none } n :=
          { h.uri with authority := by simp only [vin_some]; omega, path := trivial, pathAndQuery := trivial }
        have := parseAuthBody_inv
          ({ p with uri := { p.uri with authority := some ⟨p.off, p.rest.length⟩, path := none, pathAndQuery := none },
                    state := .finished }.advance p.rest.length) p.off p.rest
          (by simpa [Parser.advance] using hu) (by omega)
        obtain ⟨a, b, _, _⟩ := this
        refine ⟨⟨a, fun hact => ?_⟩, ?_⟩
        · rcases b with b | b <;> (rw [b] at hact; simp [active, Parser.advance] at hact)
        · rcases b with b | b
          · exact Or.inl (by rw [b]; rfl)
          · exact Or.inr (Or.inr (Or.inr b))
    | some j =>
      have ⟨hj, _, _⟩ := memchr_some h63
      simp only
      have ⟨a, b⟩ := authorityUpTo_inv h hc j hj .onQuery
      exact ⟨a, by rcases b with b | b; exact Or.inr (Or.inr (Or.inl b)); exact Or.inr (Or.inr (Or.inr b))⟩
  | some i =>
    have ⟨hi, _, _⟩ := memchr_some h47
    cases h63 : memchr 63 p.rest with
    | none =>
      simp only
      have ⟨a, b⟩ := authorityUpTo_inv h hc i hi .onPath
      exact ⟨a, by rcases b with b | b; exact Or.inr (Or.inl b); exact Or.inr (Or.inr (Or.inr b))⟩
    | some j =>
      have ⟨hj, _, _⟩ := memchr_some h63
      simp only
      by_cases hij : i < j
      · simp only [hij, if_true]
        have ⟨a, b⟩ := authorityUpTo_inv h hc i hi .onPath
        exact ⟨a, by rcases b with b | b; exact Or.inr (Or.inl b); exact Or.inr (Or.inr (Or.inr b))⟩
      · simp only [hij, if_false]
        have ⟨a, b⟩ := authorityUpTo_inv h hc j hj .onQuery
        exact ⟨a, by rcases b with b | b; exact Or.inr (Or.inr (Or.inl b)); exact Or.inr (Or.inr (Or.inr b))⟩

/-! ### path, query -/

theorem parsePath_inv {n : Nat} {p : Parser} (h : PInv n p) (hs : p.state = .onPath) :
    PInv n (parsePath p) ∧ ((parsePath p).state = .finished ∨ (parsePath p).state = .onQuery) := by
  have hc := h.cur (Or.inr (Or.inr (Or.inl hs)))
  unfold parsePath
  cases hm : memchr 63 p.rest with
  | none =>
    simp only
    refine ⟨⟨?_, fun ha => by simp [active, Parser.advance] at ha⟩, Or.inl rfl⟩
    simp only [Parser.advance]
    exact { h.uri with path := by simp only [vin_some]; omega, pathAndQuery := by simp only [vin_some]; omega }
  | some k =>
    have ⟨hk, _, _⟩ := memchr_some hm
    simp only
    refine ⟨⟨?_, fun _ => ?_⟩, Or.inr rfl⟩
    · simp only [Parser.advance]
      exact { h.uri with path := by simp only [vin_some]; omega, pathAndQuery := by simp only [vin_some]; omega }
    · simp only [Parser.advance, List.length_drop]; omega

theorem parseQuery_inv {n : Nat} {p : Parser} (h : PInv n p) (hs : p.state = .onQuery) :
    PInv n (parseQuery p) ∧ (parseQuery p).state = .finished := by
  have hc := h.cur (Or.inr (Or.inr (Or.inr hs)))
  unfold parseQuery
  refine ⟨⟨?_, fun ha => by simp [active, Parser.advance] at ha⟩, rfl⟩
  simp only [Parser.advance]
  have hpq : vin n (match p.uri.pathAndQuery with | none => some ⟨p.off, p.rest.length⟩ | some v => some v) := by
    cases hq : p.uri.pathAndQuery with
    | none => simp only [vin_some]; omega
    | some v => have := h.uri.pathAndQuery; rw [hq] at this; exact this
  have hq : vin n (if p.rest.isEmpty then p.uri.query else some ⟨p.off + 1, p.rest.length - 1⟩) := by
    by_cases he : p.rest.isEmpty = true
    · simp only [he, if_true]; exact h.uri.query
    · simp only [he, Bool.false_eq_true, if_false, vin_some]
      have : p.rest.length ≠ 0 := by
        intro e; exact he (by simp [List.length_eq_zero_iff.mp e])
      omega
  exact { h.uri with pathAndQuery := hpq, query := hq }

/-! ### the run -/

theorem stepParser_fixed {p : Parser} (h : p.state = .finished ∨ p.state = .error) : stepParser p = p := by
  unfold stepParser
  rcases h with h | h <;> rw [h]

theorem runParser_inv (s : Bytes) :
    ((runParser s).state = .finished ∨ (runParser s).state = .error) ∧ Inside (runParser s).uri s.length := by
  have h0 : PInv s.length { rest := s } :=
    ⟨⟨trivial, trivial, trivial, trivial, trivial, trivial, trivial, trivial, trivial⟩, fun _ => by simp⟩
  unfold runParser
  -- step 1: scheme
  have e1 : stepParser { rest := s } = parseScheme { rest := s } := rfl
  obtain ⟨i1, s1⟩ := parseScheme_inv h0 rfl
  rw [e1]
  generalize parseScheme { rest := s } = p1 at i1 s1
  by_cases hs1 : p1.state = .error
  · rw [stepParser_fixed (Or.inr hs1), stepParser_fixed (Or.inr hs1), stepParser_fixed (Or.inr hs1)]
    exact ⟨Or.inr hs1, i1.uri⟩
  have s1 : p1.state = .onAuthority := by
    rcases s1 with h | h
    · exact h
    · exact absurd h hs1
  -- step 2: authority
  have e2 : stepParser p1 = parseAuthority p1 := by unfold stepParser; rw [s1]
  obtain ⟨i2, s2⟩ := parseAuthority_inv i1 s1
  rw [e2]
  generalize parseAuthority p1 = p2 at i2 s2
  rcases s2 with s2 | s2 | s2 | s2
  · rw [stepParser_fixed (Or.inl s2), stepParser_fixed (Or.inl s2)]
    exact ⟨Or.inl s2, i2.uri⟩
  · -- step 3: path
    have e3 : stepParser p2 = parsePath p2 := by unfold stepParser; rw [s2]
    obtain ⟨i3, s3⟩ := parsePath_inv i2 s2
    rw [e3]
    generalize parsePath p2 = p3 at i3 s3
    rcases s3 with s3 | s3
    · rw [stepParser_fixed (Or.inl s3)]
      exact ⟨Or.inl s3, i3.uri⟩
    · have e4 : stepParser p3 = parseQuery p3 := by unfold stepParser; rw [s3]
      obtain ⟨i4, s4⟩ := parseQuery_inv i3 s3
      rw [e4]
      exact ⟨Or.inl s4, i4.uri⟩
  · -- step 3: query directly
    have e3 : stepParser p2 = parseQuery p2 := by unfold stepParser; rw [s2]
    obtain ⟨i3, s3⟩ := parseQuery_inv i2 s2
    rw [e3]
    generalize parseQuery p2 = p3 at i3 s3
    rw [stepParser_fixed (Or.inl s3)]
    exact ⟨Or.inl s3, i3.uri⟩
  · rw [stepParser_fixed (Or.inr s2), stepParser_fixed (Or.inr s2)]
    exact ⟨Or.inr s2, i2.uri⟩

/-- every cursor of every successfully parsed URI lies inside the text -/
theorem parse_inside (s : Bytes) (u : Uri) (h : parse s = .ok u) : u.inside s.length := by
  unfold parse at h
  simp only at h
  split at h
  · injection h with h
    rw [← h]
    exact (runParser_inv s).2.toUri
  · cases h

/-- the four iterations of `runParser` are enough: the state machine has stopped -/
theorem parse_terminates (s : Bytes) : (runParser s).state = .finished ∨ (runParser s).state = .error :=
  (runParser_inv s).1

end AwsVerif.Uri
