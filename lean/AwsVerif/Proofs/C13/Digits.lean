import AwsVerif.Model.Uri
/-! `snprintf("%u")` followed by `aws_byte_cursor_utf8_parse_u64` is the identity (C13). -/
namespace AwsVerif.Uri
set_option linter.unusedSimpArgs false

def isDigit (b : UInt8) : Bool := 48 ≤ b && b ≤ 57

theorem digit_val : ∀ d : Fin 10, (hexToNum (UInt8.ofNat (48 + d.val))).toNat = d.val ∧
    isDigit (UInt8.ofNat (48 + d.val)) = true := by decide

theorem digit_val' (n : Nat) : (hexToNum (UInt8.ofNat (48 + n % 10))).toNat = n % 10 ∧
    isDigit (UInt8.ofNat (48 + n % 10)) = true :=
  digit_val ⟨n % 10, Nat.mod_lt _ (by decide)⟩

/-- reading the digits of `n` (most significant first) in front of `acc`, starting from 0, is
reading `acc` starting from `n`: no overflow check fires while the value stays ≤ UINT64_MAX -/
theorem readUnsignedGo_decDigitsGo : ∀ fuel n acc, n < fuel → n ≤ UINT64_MAX →
    readUnsignedGo (decDigitsGo fuel n acc) 0 = readUnsignedGo acc n := by
  intro fuel
  induction fuel with
  | zero => intro n acc h; omega
  | succ f ih =>
    intro n acc h hmax
    have hd := (digit_val' n).1
    simp only [decDigitsGo]
    by_cases h10 : n / 10 = 0
    · have hn : n % 10 = n := Nat.mod_eq_of_lt (by omega)
      have hlt : ¬ n % 10 ≥ 10 := by omega
      have h1 : ¬ 0 * 10 > UINT64_MAX := by simp [UINT64_MAX]
      have h2 : ¬ 0 * 10 + n % 10 > UINT64_MAX := by omega
      simp only [h10, if_true, readUnsignedGo, hd, hlt, if_false, h1, h2]
      rw [Nat.zero_mul, Nat.zero_add, hn]
    · simp only [h10, if_false]
      rw [ih (n / 10) _ (by omega) (by omega)]
      have hlt : ¬ n % 10 ≥ 10 := by omega
      have e : n / 10 * 10 + n % 10 = n := by omega
      have h1 : ¬ n / 10 * 10 > UINT64_MAX := by omega
      have h2 : ¬ n / 10 * 10 + n % 10 > UINT64_MAX := by omega
      have h3 : ¬ n > UINT64_MAX := by omega
      simp only [readUnsignedGo, hd, hlt, if_false, h1, h2, e, h3]

theorem decDigitsGo_ne_nil : ∀ fuel n acc, 0 < fuel → decDigitsGo fuel n acc ≠ [] := by
  intro fuel
  induction fuel with
  | zero => intro n acc h; omega
  | succ f ih =>
    intro n acc _
    simp only [decDigitsGo]
    by_cases h10 : n / 10 = 0
    · simp [h10]
    · simp only [h10, if_false]
      cases f with
      | zero => simp [decDigitsGo]
      | succ f => exact ih _ _ (by omega)

theorem decDigitsGo_digits : ∀ fuel n acc, (∀ b ∈ acc, isDigit b = true) →
    ∀ b ∈ decDigitsGo fuel n acc, isDigit b = true := by
  intro fuel
  induction fuel with
  | zero => intro n acc h; simpa [decDigitsGo] using h
  | succ f ih =>
    intro n acc hacc
    have hd := (digit_val' n).2
    have hacc' : ∀ b ∈ UInt8.ofNat (48 + n % 10) :: acc, isDigit b = true := by
      intro b hb
      simp only [List.mem_cons] at hb
      rcases hb with rfl | hb
      · exact hd
      · exact hacc b hb
    simp only [decDigitsGo]
    by_cases h10 : n / 10 = 0
    · simpa [h10] using hacc'
    · simp only [h10, if_false]
      exact ih _ _ hacc'

theorem parseU64_decDigits (n : Nat) (h : n ≤ UINT64_MAX) : parseU64 (decDigits n) = .ok n := by
  have hne := decDigitsGo_ne_nil (n + 1) n [] (by omega)
  unfold parseU64 decDigits
  have : (decDigitsGo (n + 1) n []).isEmpty = false := by
    cases hl : decDigitsGo (n + 1) n [] with
    | nil => exact absurd hl hne
    | cons _ _ => rfl
  rw [this]
  simp only [Bool.false_eq_true, if_false]
  rw [readUnsignedGo_decDigitsGo _ _ _ (by omega) h]
  rfl

theorem decDigits_ne_nil (n : Nat) : decDigits n ≠ [] := decDigitsGo_ne_nil _ _ _ (by omega)

theorem decDigits_digits (n : Nat) : ∀ b ∈ decDigits n, isDigit b = true :=
  decDigitsGo_digits _ _ _ (by simp)

set_option maxRecDepth 100000 in
/-- a digit is none of the delimiter bytes -/
theorem isDigit_not_delim : ∀ b : Fin 256, (!(isDigit (UInt8.ofNat b.val)) ||
    !([47, 63, 58, 64, 91, 93] : Bytes).contains (UInt8.ofNat b.val)) = true := by decide

theorem digit_ne_delim {b : UInt8} (h : isDigit b = true) :
    b ≠ 47 ∧ b ≠ 63 ∧ b ≠ 58 ∧ b ≠ 64 ∧ b ≠ 91 ∧ b ≠ 93 := by
  have := isDigit_not_delim ⟨b.toNat, b.toNat_lt⟩
  simp [h] at this
  simpa [and_assoc] using this

end AwsVerif.Uri
