import AwsVerif.Model.Uri
/-!
# C13 — specification-side definitions (independent of the parser/coder transcriptions)

`Canon`: the grammar of canonical percent-encoded text.  `pairsSpec`: the non-empty
'&'-separated pairs of a query string split at the first '='.  `Comp` / `assemble` /
`Comp.ok` / `expected`: component tuples, the text assembled from them, the explicit
decidable side condition, and the views the parser must return.
-/
namespace AwsVerif.Uri

/-! ## canonical percent-encoded text -/

/-- RFC 3986 unreserved characters -/
def unreservedText : String := "ABCDEFGHIJKLMNOPQRSTUVWXYZabcdefghijklmnopqrstuvwxyz0123456789-_.~"

/-- the bytes of `unreservedText` (checked below) -/
def unreservedChars : Bytes :=
  [65, 66, 67, 68, 69, 70, 71, 72, 73, 74, 75, 76, 77, 78, 79, 80, 81, 82, 83, 84, 85, 86, 87, 88, 89, 90, 97, 98, 99, 100, 101, 102, 103, 104, 105, 106, 107, 108, 109, 110, 111, 112, 113, 114, 115, 116, 117, 118, 119, 120, 121, 122, 48, 49, 50, 51, 52, 53, 54, 55, 56, 57, 45, 95, 46, 126]

example : unreservedText.toList.map (fun c => UInt8.ofNat c.toNat) = unreservedChars := by decide

def isUnreserved (b : UInt8) : Bool := unreservedChars.contains b

/-- '0'-'9' or 'A'-'F' -/
def isUpperHexDigit (b : UInt8) : Bool := [48, 49, 50, 51, 52, 53, 54, 55, 56, 57, 65, 66, 67, 68, 69, 70].contains b

/-- a byte string made only of literal bytes satisfying `lit` and of `%` HEX HEX (upper case) -/
inductive Canon (lit : UInt8 → Bool) : Bytes → Prop
  | nil : Canon lit []
  | lit (b : UInt8) (r : Bytes) : lit b = true → Canon lit r → Canon lit (b :: r)
  | esc (h l : UInt8) (r : Bytes) : isUpperHexDigit h = true → isUpperHexDigit l = true → Canon lit r →
      Canon lit (37 :: h :: l :: r)

/-! ## query pairs -/

/-- the pieces of `l` between occurrences of `c` (always at least one piece) -/
def splitOn (c : UInt8) : Bytes → List Bytes
  | [] => [[]]
  | x :: xs =>
    if x = c then [] :: splitOn c xs
    else match splitOn c xs with
      | s :: ss => (x :: s) :: ss
      | [] => [[x]]

/-- split at the first `c`: (before, after); no `c`: (everything, empty) -/
def splitFirst (c : UInt8) (seg : Bytes) : Bytes × Bytes :=
  (seg.takeWhile (· != c), (seg.dropWhile (· != c)).drop 1)

/-- the non-empty '&'-separated pieces, in order, each split at its first '=' -/
def pairsSpec (q : Bytes) : List (Bytes × Bytes) :=
  ((splitOn 38 q).filter (fun s => !s.isEmpty)).map (splitFirst 61)

/-! ## component tuples -/

/-- the components a URI text is assembled from (`none` = component absent).  `host` is the text
between the brackets when `ipv6` is set. -/
structure Comp where
  scheme : Option Bytes := none
  userinfo : Option Bytes := none
  host : Bytes := []
  ipv6 : Bool := false
  port : Option Nat := none
  path : Bytes := []
  query : Option Bytes := none

def Comp.schemeText (c : Comp) : Bytes :=
  match c.scheme with | some s => s ++ [58, 47, 47] | none => []

def Comp.uiText (c : Comp) : Bytes :=
  match c.userinfo with | some u => u ++ [64] | none => []

def Comp.hostText (c : Comp) : Bytes :=
  if c.ipv6 then 91 :: (c.host ++ [93]) else c.host

def Comp.portText (c : Comp) : Bytes :=
  match c.port with | some p => 58 :: decDigits p | none => []

/-- `[ userinfo "@" ] host [ ":" port ]` -/
def Comp.authText (c : Comp) : Bytes := c.uiText ++ (c.hostText ++ c.portText)

def Comp.queryText (c : Comp) : Bytes :=
  match c.query with | some q => 63 :: q | none => []

/-- everything after the scheme -/
def Comp.restText (c : Comp) : Bytes := c.authText ++ (c.path ++ c.queryText)

/-- `[ scheme "://" ] authority path [ "?" query ]` -/
def assemble (c : Comp) : Bytes := c.schemeText ++ c.restText

/-- no byte of `l` is in `bad` -/
def noneOf (bad : Bytes) (l : Bytes) : Bool := l.all (fun b => !bad.contains b)

/-- `s_parse_scheme` takes no prefix of `l` for a scheme: `l` has no ':', or its first ':' is not
followed by '/', or one of the delimiters '/', '?', '#', '@', '[', ']' stands before that ':'
(this is exactly when uri.c goes on to the authority without consuming anything) -/
def noSchemeLike (l : Bytes) : Bool :=
  match memchr 58 l with
  | none => true
  | some i => (l.drop (i + 1)).head? != some 47 || (l.take i).any isSchemeDelim

/-- the explicit side condition of `c13_parse_assemble` -/
def Comp.ok (c : Comp) : Bool :=
  -- scheme without ":/?#@[]".  Nothing extra is asked of a tuple without scheme: under the other
  -- conditions its text never looks as if it had one (theorem `noSchemeLike_of_ok`: the first ':' is
  -- followed by a userinfo byte, '@' or a port digit, or stands behind '@', '[', '/' or '?')
  (match c.scheme with | some s => noneOf [58, 47, 63, 35, 64, 91, 93] s | none => true) &&
  -- userinfo without "@/?"
  (match c.userinfo with | some u => noneOf [64, 47, 63] u | none => true) &&
  -- host without "/?:@[]", or bracketed text without "]/?@"
  (if c.ipv6 then noneOf [93, 47, 63, 64] c.host else noneOf [47, 63, 58, 64, 91, 93] c.host) &&
  (match c.port with | some p => decide (p < 2 ^ 32) | none => true) &&
  -- path empty or starting with '/', without '?'; the query is arbitrary
  (c.path.isEmpty || (c.path.head? == some 47 && noneOf [63] c.path)) &&
  -- the empty text is not a URI
  !c.restText.isEmpty

/-- the cursors `aws_uri_init_parse` must produce for `assemble c` -/
def expected (c : Comp) : Uri :=
  let o0 := c.schemeText.length
  let alen := c.authText.length
  let hoff := o0 + c.uiText.length
  { scheme := c.scheme.map (fun s => ⟨0, s.length⟩),
    authority := some ⟨o0, alen⟩,
    userinfo := c.userinfo.map (fun u => ⟨o0, u.length⟩),
    user := c.userinfo.map (fun u => ⟨o0, (u.takeWhile (· != 58)).length⟩),
    password := c.userinfo.bind (fun u =>
      if u.contains 58 then some ⟨o0 + (u.takeWhile (· != 58)).length + 1, u.length - (u.takeWhile (· != 58)).length - 1⟩
      else none),
    host := if c.authText.isEmpty then none else some ⟨if c.ipv6 then hoff + 1 else hoff, c.host.length⟩,
    port := c.port.getD 0,
    path := if c.path.isEmpty then none else some ⟨o0 + alen, c.path.length⟩,
    query := c.query.map (fun q => ⟨o0 + alen + c.path.length + 1, q.length⟩),
    pathAndQuery := if c.path.isEmpty && c.query.isNone then none
                    else some ⟨o0 + alen, c.path.length + c.queryText.length⟩ }

/-- all cursors of a parsed URI -/
def Uri.views (u : Uri) : List (Option View) :=
  [u.scheme, u.authority, u.userinfo, u.user, u.password, u.host, u.path, u.query, u.pathAndQuery]

/-- every cursor lies inside a text of `n` bytes -/
def Uri.inside (u : Uri) (n : Nat) : Prop :=
  ∀ v ∈ u.views, match v with | some v => v.off + v.len ≤ n | none => True

end AwsVerif.Uri
