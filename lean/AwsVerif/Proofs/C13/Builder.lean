import AwsVerif.Proofs.C13.Views
/-! `aws_uri_init_from_builder_options`: the text written is `assemble c`, so the re-parse returns
the components the options were made from (C13). -/
namespace AwsVerif.Uri
set_option linter.unusedSimpArgs false
set_option linter.unnecessarySimpa false

/-! ### decimal text of a 32-bit port has at most 10 digits -/

theorem decDigitsGo_length_le : ∀ fuel n k acc, n < 10 ^ k → 1 ≤ k →
    (decDigitsGo fuel n acc).length ≤ acc.length + k := by
  intro fuel
  induction fuel with
  | zero => intro n k acc _ _; simp [decDigitsGo]
  | succ f ih =>
    intro n k acc hn hk
    simp only [decDigitsGo]
    by_cases h10 : n / 10 = 0
    · simp [h10]; omega
    · simp only [h10, if_false]
      have hge : 10 ≤ n := by omega
      have hk2 : 2 ≤ k := by
        rcases Nat.lt_or_ge k 2 with h | h
        · have : k = 1 := by omega
          subst this
          simp at hn
          omega
        · exact h
      have hdiv : n / 10 < 10 ^ (k - 1) := by
        have e : 10 ^ k = 10 * 10 ^ (k - 1) := by
          have : k = (k - 1) + 1 := by omega
          conv => lhs; rw [this, Nat.pow_succ, Nat.mul_comm]
        rw [e] at hn
        exact Nat.div_lt_of_lt_mul hn
      have := ih (n / 10) (k - 1) (UInt8.ofNat (48 + n % 10) :: acc) hdiv (by omega)
      simp only [List.length_cons] at this
      omega

theorem decDigits_length_le (p : Nat) (hp : p < 2 ^ 32) : (decDigits p).length ≤ 10 := by
  have := decDigitsGo_length_le (p + 1) p 10 [] (by omega) (by omega)
  simpa [decDigits] using this

/-! ### bounded appends that fit -/

theorem appendBounded_fit {cap : Nat} {buf x : Bytes} (h : buf.length + x.length ≤ cap) :
    appendBounded cap buf x = buf ++ x := by
  unfold appendBounded
  have : ¬ cap - buf.length < x.length := by omega
  simp [this]

/-- rewrite every bounded append whose argument fits (innermost first) -/
macro "fit_appends" : tactic =>
  `(tactic| simp (disch := first | omega | (simp only [List.length_append, List.length_cons, List.length_nil]; omega))
      only [appendBounded_fit])

/-- "k=v&k=v…" -/
def joinParams : List (Bytes × Bytes) → Bytes
  | [] => []
  | (k, v) :: rest => k ++ 61 :: v ++ (if rest.isEmpty then [] else 38 :: joinParams rest)

def paramsEstimate (ps : List (Bytes × Bytes)) : Nat := (ps.map (fun kv => kv.1.length + kv.2.length + 2)).sum

theorem joinParams_length (ps : List (Bytes × Bytes)) (h : ps ≠ []) :
    (joinParams ps).length + 1 = paramsEstimate ps := by
  induction ps with
  | nil => exact absurd rfl h
  | cons kv rest ih =>
    obtain ⟨k, v⟩ := kv
    cases rest with
    | nil => simp [joinParams, paramsEstimate]; omega
    | cons kv2 rest2 =>
      have := ih (by simp)
      simp only [paramsEstimate, List.map_cons, List.sum_cons] at this ⊢
      rw [joinParams]
      simp only [List.isEmpty_cons, Bool.false_eq_true, if_false, List.length_append, List.length_cons]
      omega

theorem appendParams_fit (cap : Nat) : ∀ (ps : List (Bytes × Bytes)) (buf : Bytes),
    buf.length + (joinParams ps).length ≤ cap → appendParams cap buf ps = buf ++ joinParams ps := by
  intro ps
  induction ps with
  | nil => intro buf _; simp [appendParams, joinParams]
  | cons kv rest ih =>
    intro buf h
    obtain ⟨k, v⟩ := kv
    cases hr : rest with
    | nil =>
      subst hr
      simp only [joinParams, List.isEmpty_nil, if_true, List.append_nil, List.length_append, List.length_cons] at h
      simp only [appendParams, List.isEmpty_nil, if_true]
      fit_appends
      simp [joinParams]
    | cons kv2 rest2 =>
      rw [← hr]
      have hne : rest.isEmpty = false := by rw [hr]; rfl
      rw [joinParams] at h
      simp only [hne, Bool.false_eq_true, if_false, List.length_append, List.length_cons] at h
      simp only [appendParams, hne, Bool.false_eq_true, if_false]
      fit_appends
      rw [ih _ (by simp only [List.length_append, List.length_cons, List.length_nil]; omega)]
      rw [joinParams]
      simp [hne]

/-! ### options made from a component tuple -/

/-- what a caller passes for the components `c` (no userinfo; the host including its brackets;
port 0 and empty scheme / query string mean "absent") -/
def optionsOf (c : Comp) : BuilderOptions :=
  { scheme := c.scheme.getD [], host := c.hostText, port := c.port.getD 0, path := c.path,
    query := c.query.getD [], params := none }

def optionsOfParams (c : Comp) (ps : List (Bytes × Bytes)) : BuilderOptions :=
  { scheme := c.scheme.getD [], host := c.hostText, port := c.port.getD 0, path := c.path,
    query := [], params := some ps }

/-- what the builder can express: no userinfo, and the "absent" encodings are not used for present components -/
def Comp.buildable (c : Comp) : Bool :=
  c.userinfo.isNone && (match c.scheme with | some s => !s.isEmpty | none => true) &&
  (match c.port with | some p => p != 0 | none => true)

/-- the text the builder writes when every append fits: query-string form -/
def plainText (o : BuilderOptions) : Bytes :=
  (if o.scheme.length ≠ 0 then o.scheme ++ [58, 47, 47] else []) ++ o.host ++
  (if o.port ≠ 0 then 58 :: decDigits o.port else []) ++ o.path

theorem builderText_query (o : BuilderOptions) (hpar : o.params = none)
    (hport : (decDigits o.port).length ≤ 10) :
    builderText o = plainText o ++ (if o.query.length ≠ 0 then 63 :: o.query else []) := by
  unfold builderText builderSize plainText PORT_BUFFER_SIZE
  simp only [hpar]
  by_cases h1 : o.scheme.length ≠ 0 <;> by_cases h2 : o.port ≠ 0 <;> by_cases h3 : o.query.length ≠ 0 <;>
    simp only [h1, h2, h3, ne_eq, if_true, if_false, not_false_eq_true, not_true_eq_false, Nat.add_zero, Nat.zero_add]
  all_goals fit_appends
  all_goals simp

theorem builderText_params (o : BuilderOptions) (ps : List (Bytes × Bytes)) (hpar : o.params = some ps)
    (hne : ps ≠ []) (hport : (decDigits o.port).length ≤ 10) :
    builderText o = plainText o ++ 63 :: joinParams ps := by
  have hlen := joinParams_length ps hne
  have hl0 : ps.length ≠ 0 := by
    cases ps with
    | nil => exact absurd rfl hne
    | cons _ _ => simp
  unfold paramsEstimate at hlen
  unfold builderText builderSize plainText PORT_BUFFER_SIZE
  simp only [hpar, hl0, ne_eq, not_false_eq_true, if_true]
  by_cases h1 : o.scheme.length ≠ 0 <;> by_cases h2 : o.port ≠ 0 <;>
    simp only [h1, h2, ne_eq, if_true, if_false, not_false_eq_true, not_true_eq_false, Nat.add_zero, Nat.zero_add] <;>
    fit_appends <;>
    (rw [appendParams_fit _ _ _ (by simp only [List.length_append, List.length_cons, List.length_nil]; omega)]) <;>
    simp

theorem plainText_optionsOf (c : Comp) (hb : c.buildable = true) (o : BuilderOptions)
    (h1 : o.scheme = c.scheme.getD []) (h2 : o.host = c.hostText) (h3 : o.port = c.port.getD 0)
    (h4 : o.path = c.path) :
    plainText o = c.schemeText ++ c.authText ++ c.path := by
  simp only [Comp.buildable, Bool.and_eq_true, Option.isNone_iff_eq_none] at hb
  obtain ⟨⟨hu, hsc⟩, hpo⟩ := hb
  unfold plainText Comp.authText Comp.uiText Comp.schemeText Comp.portText
  rw [h1, h2, h3, h4, hu]
  cases hs : c.scheme with
  | none =>
    cases hpt : c.port with
    | none => simp
    | some p =>
      rw [hpt] at hpo
      have hp0 : p ≠ 0 := by simpa using hpo
      simp [hp0]
  | some s =>
    rw [hs] at hsc
    have hne : s.length ≠ 0 := by
      cases s with
      | nil => simp at hsc
      | cons _ _ => simp
    have hne' : s ≠ [] := fun e => hne (by simp [e])
    cases hpt : c.port with
    | none => simp [hne']
    | some p =>
      rw [hpt] at hpo
      have hp0 : p ≠ 0 := by simpa using hpo
      simp [hne', hp0]

theorem port_digits_le (c : Comp) (h : c.ok = true) : (decDigits (c.port.getD 0)).length ≤ 10 := by
  cases hp : c.port with
  | none => decide
  | some p => exact decDigits_length_le p ((okFacts h).port p hp)

/-- query-string form: the builder writes exactly `assemble c` and the re-parse returns `expected c` -/
theorem build_optionsOf (c : Comp) (h : c.ok = true) (hb : c.buildable = true)
    (hq : ∀ q, c.query = some q → q ≠ []) :
    build (optionsOf c) = .ok (assemble c, expected c) := by
  have ht : builderText (optionsOf c) = assemble c := by
    rw [builderText_query _ rfl (port_digits_le c h),
      plainText_optionsOf c hb (optionsOf c) rfl rfl rfl rfl]
    simp only [optionsOf, assemble, Comp.restText, Comp.queryText]
    rcases Option.eq_none_or_eq_some c.query with hqq | ⟨q, hqq⟩
    · simp [hqq]
    · have : q ≠ [] := hq q hqq
      simp [hqq, this]
  unfold build
  rw [ht]
  simp only [parse_assemble h]
  simp [optionsOf]

/-- parameter-list form (non-empty list): the query string is "k=v&k=v…" -/
theorem build_optionsOfParams (c : Comp) (ps : List (Bytes × Bytes)) (h : c.ok = true) (hb : c.buildable = true)
    (hne : ps ≠ []) (hq : c.query = some (joinParams ps)) :
    build (optionsOfParams c ps) = .ok (assemble c, expected c) := by
  have ht : builderText (optionsOfParams c ps) = assemble c := by
    rw [builderText_params _ ps rfl hne (port_digits_le c h),
      plainText_optionsOf c hb (optionsOfParams c ps) rfl rfl rfl rfl]
    simp [assemble, Comp.restText, Comp.queryText, hq]
  unfold build
  rw [ht]
  simp only [parse_assemble h]
  simp [optionsOfParams]

end AwsVerif.Uri
