import AwsVerif.Proofs.C13.Spec
/-! Lemmas for the percent coders (C13): round trip, character set, capacity. -/
namespace AwsVerif.Uri

set_option maxRecDepth 100000

theorem forall_u8 (p : UInt8 → Bool) (h : ∀ n : Fin 256, p (UInt8.ofNat n.val) = true) : ∀ b, p b = true := by
  intro b
  have := h ⟨b.toNat, b.toNat_lt⟩
  simpa using this

/-- both nibbles of every byte survive `s_to_uppercase_hex` followed by the hex table, and recombine -/
theorem hex_roundtrip_all : ∀ b : UInt8,
    (hexToNum (upHex (b >>> 4)) != 255 && hexToNum (upHex (b &&& 0x0F)) != 255 &&
     ((hexToNum (upHex (b >>> 4)) <<< 4) ||| hexToNum (upHex (b &&& 0x0F))) == b) = true :=
  forall_u8 _ (by decide)

theorem hex_roundtrip (b : UInt8) :
    hexToNum (upHex (b >>> 4)) ≠ 255 ∧ hexToNum (upHex (b &&& 0x0F)) ≠ 255 ∧
    ((hexToNum (upHex (b >>> 4)) <<< 4) ||| hexToNum (upHex (b &&& 0x0F))) = b := by
  have := hex_roundtrip_all b
  simpa [and_assoc] using this

/-- '%' is copied by neither encoder -/
theorem pathSafe_ne_percent_all : ∀ b : UInt8, (!(pathSafe b) || b != 37) = true := forall_u8 _ (by decide)
theorem paramSafe_imp_pathSafe_all : ∀ b : UInt8, (!(paramSafe b) || pathSafe b) = true := forall_u8 _ (by decide)

theorem pathSafe_ne_percent {b : UInt8} (h : pathSafe b = true) : b ≠ 37 := by
  have := pathSafe_ne_percent_all b
  simp [h] at this
  exact this

theorem paramSafe_ne_percent {b : UInt8} (h : paramSafe b = true) : b ≠ 37 := by
  have := paramSafe_imp_pathSafe_all b
  simp [h] at this
  exact pathSafe_ne_percent this

/-- decoding a non-'%' byte followed by anything -/
theorem decodeGo_cons_lit (c : UInt8) (r : Bytes) (h : c ≠ 37) :
    decodeGo (c :: r) = (c :: (decodeGo r).1, (decodeGo r).2) := by
  match r with
  | [] => simp [decodeGo, h]
  | [d] => simp [decodeGo, h]
  | d :: e :: r' => simp [decodeGo, h]

theorem decodeGo_cons_esc (h l : UInt8) (r : Bytes) (hh : hexToNum h ≠ 255) (hl : hexToNum l ≠ 255) :
    decodeGo (37 :: h :: l :: r) = (((hexToNum h <<< 4) ||| hexToNum l) :: (decodeGo r).1, (decodeGo r).2) := by
  simp [decodeGo, hh, hl]

/-- round trip for any encoder whose literal set does not contain '%' -/
theorem decodeGo_encode (safe : UInt8 → Bool) (hs : ∀ b, safe b = true → b ≠ 37) (bs : Bytes) :
    decodeGo (encode safe bs) = (bs, true) := by
  induction bs with
  | nil => simp [encode, decodeGo]
  | cons b r ih =>
    simp only [encode, encChar]
    by_cases hb : safe b = true
    · simp only [hb, if_true, List.singleton_append]
      rw [decodeGo_cons_lit _ _ (hs b hb), ih]
    · have ⟨h1, h2, h3⟩ := hex_roundtrip b
      rw [if_neg hb]
      show decodeGo (37 :: upHex (b >>> 4) :: upHex (b &&& 0x0F) :: encode safe r) = _
      rw [decodeGo_cons_esc _ _ _ h1 h2, ih, h3]

theorem decode_encode (safe : UInt8 → Bool) (hs : ∀ b, safe b = true → b ≠ 37) (bs : Bytes) :
    decode (encode safe bs) = .ok bs := by
  simp [decode, decodeGo_encode safe hs bs]

/-! ### character set -/

theorem upHex_hi_all : ∀ b : UInt8, isUpperHexDigit (upHex (b >>> 4)) = true := forall_u8 _ (by decide)
theorem upHex_lo_all : ∀ b : UInt8, isUpperHexDigit (upHex (b &&& 0x0F)) = true := forall_u8 _ (by decide)

/-- the literal sets of the two encoders, stated against the RFC 3986 unreserved set -/
theorem paramSafe_eq_unreserved_all : ∀ b : UInt8, (paramSafe b == isUnreserved b) = true := forall_u8 _ (by decide)
theorem pathSafe_eq_unreserved_or_slash_all : ∀ b : UInt8, (pathSafe b == (isUnreserved b || b == 47)) = true :=
  forall_u8 _ (by decide)

theorem paramSafe_eq_unreserved : paramSafe = isUnreserved := by
  funext b; simpa using paramSafe_eq_unreserved_all b

theorem pathSafe_eq_unreserved_or_slash : pathSafe = fun b => isUnreserved b || b == 47 := by
  funext b; simpa using pathSafe_eq_unreserved_or_slash_all b

theorem canon_encode (safe : UInt8 → Bool) (bs : Bytes) : Canon safe (encode safe bs) := by
  induction bs with
  | nil => exact .nil
  | cons b r ih =>
    simp only [encode, encChar]
    by_cases hb : safe b = true
    · simp only [hb, if_true, List.singleton_append]
      exact .lit b _ hb ih
    · rw [if_neg hb]
      exact .esc _ _ _ (upHex_hi_all b) (upHex_lo_all b) ih

/-! ### capacity -/

theorem encChar_length_le (safe : UInt8 → Bool) (b : UInt8) : (encChar safe b).length ≤ 3 := by
  unfold encChar; split <;> simp

theorem encode_length_le (safe : UInt8 → Bool) (bs : Bytes) : (encode safe bs).length ≤ 3 * bs.length := by
  induction bs with
  | nil => simp [encode]
  | cons b r ih =>
    have := encChar_length_le safe b
    simp only [encode, List.length_append, List.length_cons]
    omega

theorem encode_length_ge (safe : UInt8 → Bool) (bs : Bytes) : bs.length ≤ (encode safe bs).length := by
  induction bs with
  | nil => simp [encode]
  | cons b r ih =>
    have : 1 ≤ (encChar safe b).length := by unfold encChar; split <;> simp
    simp only [encode, List.length_append, List.length_cons]
    omega

/-- the write loop never leaves the reservation: with `len + 3·n ≤ cap` the per-character
assertion `len + 3 ≤ cap` holds before every write, the result is the old content followed by the
pure encoding, and the capacity is untouched -/
theorem encodeLoop_ok (safe : UInt8 → Bool) (b : Buf) (bs : Bytes) (h : b.data.length + 3 * bs.length ≤ b.cap) :
    encodeLoop safe b bs = some { data := b.data ++ encode safe bs, cap := b.cap } := by
  induction bs generalizing b with
  | nil => simp [encodeLoop, encode]
  | cons c r ih =>
    have hc := encChar_length_le safe c
    simp only [List.length_cons] at h
    have h3 : b.data.length + 3 ≤ b.cap := by omega
    simp only [encodeLoop, h3, if_true]
    rw [ih]
    · simp [encode, List.append_assoc]
    · simp only [List.length_append]; omega

theorem appendEncoding_ok (safe : UInt8 → Bool) (b : Buf) (bs : Bytes)
    (hfit : b.data.length + 3 * bs.length ≤ SIZE_MAX) :
    appendEncoding safe b bs =
      .ok { data := b.data ++ encode safe bs, cap := max b.cap (b.data.length + 3 * bs.length) } := by
  have h1 : ¬ 3 * bs.length > SIZE_MAX := by omega
  have h2 : ¬ b.data.length + 3 * bs.length > SIZE_MAX := by omega
  simp only [appendEncoding, h1, if_false, reserveRelative, h2]
  rw [encodeLoop_ok]
  simp only
  omega

end AwsVerif.Uri
