import AwsVerif.Proofs.C18.Cache
/-! Every API call preserves the configuration and the state invariant. -/
namespace AwsVerif.Lht

/-- configuration (policy, capacity, which destructors exist) -/
def SameCfg (c c' : Cache) : Prop :=
  c'.policy = c.policy ∧ c'.max = c.max ∧ c'.table.keyDtor = c.table.keyDtor ∧ c'.table.valDtor = c.table.valDtor

theorem SameCfg.rfl' (c : Cache) : SameCfg c c := ⟨rfl, rfl, rfl, rfl⟩

theorem SameCfg.trans {a b c : Cache} (h1 : SameCfg a b) (h2 : SameCfg b c) : SameCfg a c :=
  ⟨h2.1.trans h1.1, h2.2.1.trans h1.2.1, h2.2.2.1.trans h1.2.2.1, h2.2.2.2.trans h1.2.2.2⟩

theorem Cache.put_cfg (c : Cache) (k : Key) (v : Nat) : SameCfg c (c.put k v).1 := by
  simp only [Cache.put]
  have h1 := Table.put_keyDtor c.table k v
  have h2 := Table.put_valDtor c.table k v
  split
  · split
    · rename_i kv _
      have := Table.remove_flags (c.table.put k v).1 kv.ident
      exact ⟨rfl, rfl, this.1.trans h1, this.2.trans h2⟩
    · exact ⟨rfl, rfl, h1, h2⟩
  · exact ⟨rfl, rfl, h1, h2⟩

theorem Cache.step_find_lru {c : Cache} (h : c.policy = .lru) (i : Nat) :
    c.step (.find i) = ({ c with table := (c.table.findMove i).1 }, (c.table.findMove i).2, []) := by
  simp only [Cache.step, h, if_true]

theorem Cache.step_find_other {c : Cache} (h : c.policy ≠ .lru) (i : Nat) :
    c.step (.find i) = (c, c.table.find i, []) := by
  simp only [Cache.step, h, if_false]

theorem Cache.step_useLru_nil {c : Cache} (h : c.table.entries = []) : c.step .useLru = (c, none, []) := by
  simp only [Cache.step]; rw [h]

theorem Cache.step_useLru_cons {c : Cache} {e : Entry} {rest : List Entry} (h : c.table.entries = e :: rest) :
    c.step .useLru = ({ c with table := { c.table with entries := rest ++ [e] } }, some e.2, []) := by
  simp only [Cache.step]; rw [h]

theorem Cache.step_cfg (c : Cache) (op : Op) : SameCfg c (c.step op).1 := by
  cases op with
  | put k v => exact Cache.put_cfg c k v
  | find i =>
    by_cases hp : c.policy = .lru
    · rw [Cache.step_find_lru hp]
      have := Table.findMove_flags c.table i; exact ⟨rfl, rfl, this.1, this.2⟩
    · rw [Cache.step_find_other hp]; exact SameCfg.rfl' c
  | findMove i => have := Table.findMove_flags c.table i; exact ⟨rfl, rfl, this.1, this.2⟩
  | remove i => have := Table.remove_flags c.table i; exact ⟨rfl, rfl, this.1, this.2⟩
  | clear => exact ⟨rfl, rfl, rfl, rfl⟩
  | moveToEnd i => have := Table.findMove_flags c.table i; exact ⟨rfl, rfl, this.1, this.2⟩
  | useLru =>
    cases hes : c.table.entries with
    | nil => rw [Cache.step_useLru_nil hes]; exact SameCfg.rfl' c
    | cons e rest => rw [Cache.step_useLru_cons hes]; exact ⟨rfl, rfl, rfl, rfl⟩
  | getMru => exact SameCfg.rfl' c

/-- the three ways a cache `put` can go -/
inductive PutCase (c : Cache) (k : Key) (v : Nat) : Prop
  | plain (h : c.policy = .none ∨ (lookup c.table.entries k.ident).isSome ∨ c.table.entries.length < c.max)
      (he : (c.put k v).1.table.entries = refPut c.table.entries k v)
      (hev : (c.put k v).2 = (c.table.put k v).2)
  | front (hp : c.policy = .fifo ∨ c.policy = .lru) (hn : lookup c.table.entries k.ident = none)
      (hfull : c.table.entries.length = c.max) (e : Entry) (rest : List Entry)
      (hes : c.table.entries = e :: rest)
      (he : (c.put k v).1.table.entries = rest ++ [(k, v)])
      (hev : (c.put k v).2 = c.table.kev e.1 ++ c.table.vev e.2)
  | back (hp : c.policy = .lifo) (hn : lookup c.table.entries k.ident = none)
      (hfull : c.table.entries.length = c.max) (e : Entry) (init : List Entry)
      (hes : c.table.entries = init ++ [e])
      (he : (c.put k v).1.table.entries = init ++ [(k, v)])
      (hev : (c.put k v).2 = c.table.kev e.1 ++ c.table.vev e.2)

theorem Cache.put_case {c : Cache} (hi : CInv c) (k : Key) (v : Nat) : PutCase c k v := by
  by_cases h : c.policy = .none ∨ (lookup c.table.entries k.ident).isSome ∨ c.table.entries.length < c.max
  · have := Cache.put_no_evict hi k v h
    exact .plain h (by rw [this.1, Table.put_entries hi.uniq]) this.2
  · have hp : c.policy ≠ .none := fun hp => h (Or.inl hp)
    have hn : lookup c.table.entries k.ident = none := by
      cases hl : lookup c.table.entries k.ident with
      | none => rfl
      | some e => exact absurd (Or.inr (Or.inl (by simp [hl]))) h
    have hfull : c.table.entries.length = c.max := by
      have := hi.bound hp
      have : ¬ c.table.entries.length < c.max := fun hlt => h (Or.inr (Or.inr hlt))
      omega
    cases hpol : c.policy with
    | none => exact absurd hpol hp
    | fifo =>
      obtain ⟨e, rest, h1, h2, h3⟩ := Cache.put_evict_front hi k v (Or.inl hpol) hn hfull
      exact .front (Or.inl hpol) hn hfull e rest h1 h2 h3
    | lru =>
      obtain ⟨e, rest, h1, h2, h3⟩ := Cache.put_evict_front hi k v (Or.inr hpol) hn hfull
      exact .front (Or.inr hpol) hn hfull e rest h1 h2 h3
    | lifo =>
      obtain ⟨e, init, h1, h2, h3⟩ := Cache.put_evict_back hi k v hpol hn hfull
      exact .back hpol hn hfull e init h1 h2 h3

theorem Cache.put_inv {c : Cache} (hi : CInv c) (k : Key) (v : Nat) : CInv (c.put k v).1 := by
  have hcfg := Cache.put_cfg c k v
  have hnew := lookup_none (es := c.table.entries) (i := k.ident)
  refine ⟨?_, ?_, by rw [hcfg.2.1]; exact hi.maxPos⟩
  · cases Cache.put_case hi k v with
    | plain _ he _ => rw [he]; exact hi.uniq.refPut k v
    | front _ hn _ e rest hes he _ =>
      rw [he]
      have := hi.uniq.snoc (x := (k, v)) (lookup_none.mp hn)
      rw [hes] at this
      exact this.tail
    | back _ hn _ e init hes he _ =>
      rw [he]
      have hu := hi.uniq
      rw [hes] at hu
      apply Uniq.snoc (es := init) (List.pairwise_append.mp hu).1
      intro x hx
      exact lookup_none.mp hn x (by rw [hes]; simp [hx])
  · intro hp
    rw [hcfg.1] at hp
    rw [hcfg.2.1]
    cases Cache.put_case hi k v with
    | plain h he _ =>
      rw [he]
      have hb := hi.bound hp
      have hlen := put_table_length hi k v
      rw [Table.put_entries hi.uniq] at hlen
      rw [hlen]
      rcases h with h | h | h
      · exact absurd h hp
      · rw [if_pos h]; exact hb
      · split <;> omega
    | front _ _ hfull e rest hes he _ => rw [he]; rw [hes] at hfull; simp at hfull ⊢; omega
    | back _ _ hfull e init hes he _ => rw [he]; rw [hes] at hfull; simp at hfull ⊢; omega

theorem Uniq.rotate {e : Entry} {rest : List Entry} (h : Uniq (e :: rest)) : Uniq (rest ++ [e]) :=
  h.tail.snoc h.head_ne

theorem Cache.step_inv {c : Cache} (hi : CInv c) (op : Op) : CInv (c.step op).1 := by
  have hcfg := Cache.step_cfg c op
  have hmv : ∀ i, Uniq (c.table.findMove i).1.entries ∧ (c.table.findMove i).1.entries.length = c.table.entries.length := by
    intro i
    cases hl : lookup c.table.entries i with
    | none => rw [Table.findMove_none hl]; exact ⟨hi.uniq, rfl⟩
    | some e =>
      rw [Table.findMove_some hl]
      simp only [erase_eq_refDel hi.uniq]
      refine ⟨(hi.uniq.refDel i).snoc ?_, ?_⟩
      · intro x hx; rw [(lookup_some hl).2]; exact (mem_refDel.mp hx).2
      · rw [length_refDel hi.uniq hl]; simp
  cases op with
  | put k v => exact Cache.put_inv hi k v
  | find i =>
    by_cases hp : c.policy = .lru
    · rw [Cache.step_find_lru hp]
      exact ⟨(hmv i).1, fun hp => by
        show (c.table.findMove i).1.entries.length ≤ c.max
        rw [(hmv i).2]; exact hi.bound hp, hi.maxPos⟩
    · rw [Cache.step_find_other hp]; exact hi
  | findMove i =>
    exact ⟨(hmv i).1, fun hp => by
      show (c.table.findMove i).1.entries.length ≤ c.max
      rw [(hmv i).2]; exact hi.bound hp, hi.maxPos⟩
  | moveToEnd i =>
    exact ⟨(hmv i).1, fun hp => by
      show (c.table.findMove i).1.entries.length ≤ c.max
      rw [(hmv i).2]; exact hi.bound hp, hi.maxPos⟩
  | remove i =>
    refine ⟨?_, fun hp => ?_, hi.maxPos⟩
    · show Uniq (c.table.remove i).1.entries
      rw [Table.remove_entries hi.uniq]; exact hi.uniq.refDel i
    · show (c.table.remove i).1.entries.length ≤ c.max
      rw [Table.remove_entries hi.uniq]
      exact Nat.le_trans (List.length_filter_le _ _) (hi.bound hp)
  | clear => exact ⟨List.Pairwise.nil, fun _ => Nat.zero_le _, hi.maxPos⟩
  | useLru =>
    have hu := hi.uniq
    have hb := hi.bound
    cases hes : c.table.entries with
    | nil => rw [Cache.step_useLru_nil hes]; exact hi
    | cons e rest =>
      rw [Cache.step_useLru_cons hes]
      rw [hes] at hu hb
      exact ⟨hu.rotate, fun hp => by have := hb hp; simp at this ⊢; omega, hi.maxPos⟩
  | getMru => exact hi

theorem run_inv : ∀ (ops : List Op) {c : Cache}, CInv c → CInv (run c ops)
  | [], _, h => h
  | op :: ops, _, h => run_inv ops (Cache.step_inv h op)

theorem run_cfg : ∀ (ops : List Op) (c : Cache), SameCfg c (run c ops)
  | [], c => SameCfg.rfl' c
  | op :: ops, c => (Cache.step_cfg c op).trans (run_cfg ops _)

theorem reach_inv (p : Policy) {max : Nat} (h : 1 ≤ max) (kd vd : Bool) (ops : List Op) :
    CInv (run (Cache.init p max kd vd) ops) := run_inv ops (cinv_init p h kd vd)

end AwsVerif.Lht
