import AwsVerif.Proofs.C18.Step
/-! Ghost time stamps: the list order is the order of last insertion (FIFO/LIFO caches driven through
the cache API) resp. of last use (LRU, any call). -/
namespace AwsVerif.Lht

/-- entries ordered by strictly increasing stamp, all stamps in the past -/
structure Stamped (f : Nat → Nat) (T : Nat) (es : List Entry) : Prop where
  sorted : es.Pairwise (fun a b => f a.1.ident < f b.1.ident)
  below : ∀ e ∈ es, f e.1.ident < T

theorem Stamped.nil (f : Nat → Nat) (T : Nat) : Stamped f T [] :=
  ⟨List.Pairwise.nil, fun _ h => by simp at h⟩

theorem Stamped.sublist {f : Nat → Nat} {T : Nat} {es es' : List Entry} (h : Stamped f T es)
    (hs : es'.Sublist es) : Stamped f T es' :=
  ⟨h.sorted.sublist hs, fun e he => h.below e (hs.subset he)⟩

theorem Stamped.mono {f : Nat → Nat} {T T' : Nat} {es : List Entry} (h : Stamped f T es) (hT : T ≤ T') :
    Stamped f T' es :=
  ⟨h.sorted, fun e he => Nat.lt_of_lt_of_le (h.below e he) hT⟩

theorem refDel_sublist (es : List Entry) (i : Nat) : (refDel es i).Sublist es := List.filter_sublist

/-- stamping identity `i` with the current time and moving its entry to the back -/
theorem Stamped.move {f : Nat → Nat} {T : Nat} {es : List Entry} (h : Stamped f T es) {x : Entry} {i : Nat}
    (hx : x.1.ident = i) : Stamped (setAt f i T) (T + 1) (refDel es i ++ [x]) := by
  have hne : ∀ e ∈ refDel es i, setAt f i T e.1.ident = f e.1.ident := by
    intro e he
    have := (mem_refDel.mp he).2
    simp [setAt, this]
  have hd := h.sublist (refDel_sublist es i)
  have hxs : setAt f i T x.1.ident = T := by simp [setAt, hx]
  constructor
  · rw [List.pairwise_append]
    refine ⟨?_, List.pairwise_singleton _ _, ?_⟩
    · refine List.Pairwise.imp_of_mem ?_ hd.sorted
      intro a b ha hb hab
      rw [hne a ha, hne b hb]; exact hab
    · intro a ha b hb
      rw [List.mem_singleton] at hb
      subst hb
      rw [hne a ha, hxs]
      exact hd.below a ha
  · intro e he
    rcases List.mem_append.mp he with he | he
    · rw [hne e he]; exact Nat.lt_succ_of_lt (hd.below e he)
    · rw [List.mem_singleton] at he
      subst he
      rw [hxs]; exact Nat.lt_succ_self T

/-- whatever the policy, what a cache `put` leaves is a sub-list of the reference `put` -/
theorem Cache.put_sublist {c : Cache} (hi : CInv c) (k : Key) (v : Nat) :
    ((c.put k v).1.table.entries).Sublist (refPut c.table.entries k v) := by
  cases Cache.put_case hi k v with
  | plain _ he _ => rw [he]; exact List.Sublist.refl _
  | front _ hn _ e rest hes he _ =>
    rw [he]; unfold refPut
    rw [refDel_of_absent (lookup_none.mp hn), hes]
    exact (List.sublist_cons_self e rest).append_right _
  | back _ hn _ e init hes he _ =>
    rw [he]; unfold refPut
    rw [refDel_of_absent (lookup_none.mp hn), hes]
    exact (List.sublist_append_left init [e]).append_right _

theorem findMove_stamped {f : Nat → Nat} {T : Nat} {t : Table} (hu : Uniq t.entries) (h : Stamped f T t.entries)
    {i : Nat} {e : Entry} (hl : lookup t.entries i = some e) :
    Stamped (setAt f i T) (T + 1) (t.findMove i).1.entries := by
  rw [Table.findMove_some hl]
  simp only [erase_eq_refDel hu]
  exact h.move (lookup_some hl).2

/-- LRU cache, any call: the list is ordered by time of last use -/
theorem lru_step {c : Cache} {g : Ghost} (hi : CInv c) (hp : c.policy = .lru)
    (h : Stamped g.usedAt g.clock c.table.entries) (op : Op) :
    Stamped (g.step c op).usedAt (g.step c op).clock (c.step op).1.table.entries := by
  cases op with
  | put k v => exact (h.move (x := (k, v)) rfl).sublist (Cache.put_sublist hi k v)
  | find i =>
    rw [Cache.step_find_lru hp]
    cases hl : lookup c.table.entries i with
    | none => simp only [Ghost.step, hl, Table.findMove_none hl]; exact h
    | some e => simp only [Ghost.step, hl]; exact findMove_stamped hi.uniq h hl
  | findMove i =>
    cases hl : lookup c.table.entries i with
    | none => simp only [Cache.step, Ghost.step, hl, Table.findMove_none hl]; exact h
    | some e => simp only [Cache.step, Ghost.step, hl]; exact findMove_stamped hi.uniq h hl
  | moveToEnd i =>
    cases hl : lookup c.table.entries i with
    | none => simp only [Cache.step, Ghost.step, hl, Table.moveToEnd, Table.findMove_none hl]; exact h
    | some e => simp only [Cache.step, Ghost.step, hl, Table.moveToEnd]; exact findMove_stamped hi.uniq h hl
  | remove i =>
    show Stamped g.usedAt g.clock (c.table.remove i).1.entries
    rw [Table.remove_entries hi.uniq]; exact h.sublist (refDel_sublist _ _)
  | clear => exact Stamped.nil _ _
  | useLru =>
    cases hes : c.table.entries with
    | nil => rw [Cache.step_useLru_nil hes]; simp only [Ghost.step, hes]; rw [← hes]; exact h
    | cons e rest =>
      rw [Cache.step_useLru_cons hes]
      simp only [Ghost.step, hes]
      have hu := hi.uniq
      rw [hes] at hu h
      have := h.move (x := e) (i := e.1.ident) rfl
      rw [refDel_head hu] at this
      exact this
  | getMru => exact h

/-- FIFO / LIFO cache (or bare table) driven through the cache API: ordered by time of last insertion -/
theorem put_order_step {c : Cache} {g : Ghost} (hi : CInv c) (hp : c.policy ≠ .lru)
    (h : Stamped g.putAt g.clock c.table.entries) {op : Op} (hop : ApiOp op) :
    Stamped (g.step c op).putAt (g.step c op).clock (c.step op).1.table.entries := by
  cases op with
  | put k v => exact (h.move (x := (k, v)) rfl).sublist (Cache.put_sublist hi k v)
  | find i =>
    rw [Cache.step_find_other hp]
    cases hl : lookup c.table.entries i with
    | none => simp only [Ghost.step, hl]; exact h
    | some e => simp only [Ghost.step, hl]; exact h.mono (Nat.le_succ _)
  | remove i =>
    show Stamped g.putAt g.clock (c.table.remove i).1.entries
    rw [Table.remove_entries hi.uniq]; exact h.sublist (refDel_sublist _ _)
  | clear => exact Stamped.nil _ _
  | getMru => exact h
  | findMove i => exact absurd hop (by simp [ApiOp])
  | moveToEnd i => exact absurd hop (by simp [ApiOp])
  | useLru => exact absurd hop (by simp [ApiOp])

theorem grun_fst : ∀ (ops : List Op) (c : Cache) (g : Ghost), (grun c g ops).1 = run c ops
  | [], _, _ => rfl
  | _ :: ops, _, _ => grun_fst ops _ _

theorem lru_run : ∀ (ops : List Op) {c : Cache} {g : Ghost}, CInv c → c.policy = .lru →
    Stamped g.usedAt g.clock c.table.entries →
    Stamped (grun c g ops).2.usedAt (grun c g ops).2.clock (grun c g ops).1.table.entries
  | [], _, _, _, _, h => h
  | op :: ops, c, _, hi, hp, h =>
    lru_run ops (Cache.step_inv hi op) ((Cache.step_cfg c op).1.trans hp) (lru_step hi hp h op)

theorem put_order_run : ∀ (ops : List Op) {c : Cache} {g : Ghost}, CInv c → c.policy ≠ .lru →
    (∀ op ∈ ops, ApiOp op) → Stamped g.putAt g.clock c.table.entries →
    Stamped (grun c g ops).2.putAt (grun c g ops).2.clock (grun c g ops).1.table.entries
  | [], _, _, _, _, _, h => h
  | op :: ops, c, g, hi, hp, hapi, h =>
    put_order_run ops (Cache.step_inv hi op) (by rw [(Cache.step_cfg c op).1]; exact hp)
      (fun o ho => hapi o (List.mem_cons_of_mem _ ho))
      (put_order_step hi hp h (hapi op List.mem_cons_self))

end AwsVerif.Lht
