import AwsVerif.Proofs.C18.Step
/-! Ownership accounting: what a history hands to the table is, at every moment, exactly what the
table still holds plus what the destructors have received. -/
namespace AwsVerif.Lht

theorem dVals_append (a b : List Ev) : dVals (a ++ b) = dVals a ++ dVals b := List.filterMap_append
theorem dKeys_append (a b : List Ev) : dKeys (a ++ b) = dKeys a ++ dKeys b := List.filterMap_append

theorem dVals_vev (t : Table) (v : Nat) : dVals (t.vev v) = if t.valDtor then [v] else [] := by
  unfold Table.vev; split <;> rfl
theorem dVals_kev (t : Table) (k : Key) : dVals (t.kev k) = [] := by
  unfold Table.kev; split <;> rfl
theorem dKeys_kev (t : Table) (k : Key) : dKeys (t.kev k) = if t.keyDtor then [k] else [] := by
  unfold Table.kev; split <;> rfl
theorem dKeys_vev (t : Table) (v : Nat) : dKeys (t.vev v) = [] := by
  unfold Table.vev; split <;> rfl

theorem dVals_clear (t : Table) (es : List Entry) :
    dVals (es.flatMap (fun e => t.kev e.1 ++ t.vev e.2)) = if t.valDtor then es.map (·.2) else [] := by
  induction es with
  | nil => simp [dVals]
  | cons e r ih =>
    rw [List.flatMap_cons, dVals_append, dVals_append, ih, dVals_kev, dVals_vev]
    split <;> simp

theorem dKeys_clear (t : Table) (es : List Entry) :
    dKeys (es.flatMap (fun e => t.kev e.1 ++ t.vev e.2)) = if t.keyDtor then es.map (·.1) else [] := by
  induction es with
  | nil => simp [dKeys]
  | cons e r ih =>
    rw [List.flatMap_cons, dKeys_append, dKeys_append, ih, dKeys_kev, dKeys_vev]
    split <;> simp

theorem count_split {α : Type} [DecidableEq α] (f : Entry → α) {es : List Entry} (hu : Uniq es) {i : Nat} {e : Entry}
    (hl : lookup es i = some e) (x : α) :
    List.count x (es.map f) = List.count x ((refDel es i).map f) + (if f e = x then 1 else 0) := by
  have := ((perm_refDel hu hl).map f).count_eq x
  rw [this, List.map_cons, List.count_cons]
  simp

/-- bookkeeping of one call for a projection `f` of the entries (`f` = value or key pointer):
`given` is what the call hands over, `gone` what the destructors of that kind receive -/
structure Conserves {α : Type} [DecidableEq α] (f : Entry → α) (es es' : List Entry) (given gone : List α) : Prop where
  eq : ∀ x, List.count x (es.map f) + List.count x given = List.count x (es'.map f) + List.count x gone

theorem Conserves.same {α : Type} [DecidableEq α] (f : Entry → α) (es : List Entry) : Conserves f es es [] [] :=
  ⟨fun _ => rfl⟩

theorem conserves_move {α : Type} [DecidableEq α] (f : Entry → α) {es : List Entry} (hu : Uniq es) {i : Nat} {e : Entry}
    (hl : lookup es i = some e) : Conserves f es (refDel es i ++ [e]) [] [] := by
  constructor
  intro x
  rw [count_split f hu hl x]
  simp [List.count_append, List.count_singleton]

theorem conserves_findMove {α : Type} [DecidableEq α] (f : Entry → α) {t : Table} (hu : Uniq t.entries) (i : Nat) :
    Conserves f t.entries (t.findMove i).1.entries [] [] := by
  cases hl : lookup t.entries i with
  | none => rw [Table.findMove_none hl]; exact Conserves.same f _
  | some e =>
    rw [Table.findMove_some hl]
    simp only [erase_eq_refDel hu]
    exact conserves_move f hu hl

/-! ### values -/

theorem put_vals {c : Cache} (hi : CInv c) (hd : c.table.valDtor = true) (k : Key) (v : Nat) :
    Conserves (·.2) c.table.entries (c.put k v).1.table.entries [v] (dVals (c.put k v).2) := by
  constructor
  intro x
  cases Cache.put_case hi k v with
  | plain _ he hev =>
    rw [he, hev]
    cases hl : lookup c.table.entries k.ident with
    | none =>
      rw [Table.put_none v hl]
      simp [refPut, refDel_of_absent (lookup_none.mp hl), List.count_append, dVals]
    | some e =>
      obtain ⟨k0, v0⟩ := e
      rw [Table.put_some v hl, count_split (·.2) hi.uniq hl x]
      have hk : dVals (if k0 = k then [] else c.table.kev k0) = [] := by
        split
        · rfl
        · exact dVals_kev _ _
      simp only [dVals_append, dVals_vev, hd, if_true, hk, refPut, List.map_append, List.count_append,
        List.map_cons, List.map_nil, List.append_nil, List.count_singleton]
      simp only [beq_iff_eq]
      omega
  | front _ _ _ e rest hes he hev =>
    rw [he, hev, hes]
    simp only [dVals_append, dVals_kev, dVals_vev, hd, if_true, List.map_append, List.count_append,
      List.map_cons, List.map_nil, List.count_cons, List.nil_append, List.count_nil]
    omega
  | back _ _ _ e init hes he hev =>
    rw [he, hev, hes]
    simp only [dVals_append, dVals_kev, dVals_vev, hd, if_true, List.map_append, List.count_append,
      List.map_cons, List.map_nil, List.count_cons, List.nil_append, List.count_nil]
    omega

theorem step_vals {c : Cache} (hi : CInv c) (hd : c.table.valDtor = true) (op : Op) :
    Conserves (·.2) c.table.entries (c.step op).1.table.entries (givenVal op) (dVals (c.step op).2.2) := by
  cases op with
  | put k v => exact put_vals hi hd k v
  | find i =>
    by_cases hp : c.policy = .lru
    · rw [Cache.step_find_lru hp]; exact conserves_findMove _ hi.uniq i
    · rw [Cache.step_find_other hp]; exact Conserves.same _ _
  | findMove i => exact conserves_findMove _ hi.uniq i
  | moveToEnd i => exact conserves_findMove _ hi.uniq i
  | remove i =>
    constructor
    intro x
    show _ = List.count x ((c.table.remove i).1.entries.map _) + List.count x (dVals (c.table.remove i).2)
    cases hl : lookup c.table.entries i with
    | none => rw [Table.remove_none hl]; rfl
    | some e =>
      obtain ⟨k0, v0⟩ := e
      rw [Table.remove_some hl, count_split (·.2) hi.uniq hl x]
      simp only [erase_eq_refDel hi.uniq, dVals_append, dVals_kev, dVals_vev, hd, if_true, givenVal,
        List.nil_append, List.count_singleton, List.count_nil, beq_iff_eq]
      omega
  | clear =>
    constructor
    intro x
    show _ = List.count x ((c.table.clear).1.entries.map _) + List.count x (dVals (c.table.clear).2)
    simp only [Table.clear, dVals_clear, hd, if_true, givenVal, List.map_nil, List.count_nil]
    omega
  | useLru =>
    cases hes : c.table.entries with
    | nil => rw [Cache.step_useLru_nil hes, hes]; exact Conserves.same _ _
    | cons e rest =>
      rw [Cache.step_useLru_cons hes]
      constructor
      intro x
      simp only [givenVal, dVals, List.map_append, List.count_append, List.map_cons, List.map_nil, List.count_cons,
        List.count_nil, List.filterMap_nil]
      omega
  | getMru => exact Conserves.same _ _

/-! ### key pointers -/

theorem put_keys {c : Cache} (hi : CInv c) (hd : c.table.keyDtor = true) (k : Key) (v : Nat) :
    Conserves (·.1) c.table.entries (c.put k v).1.table.entries (givenKey c (.put k v)) (dKeys (c.put k v).2) := by
  constructor
  intro x
  cases Cache.put_case hi k v with
  | plain _ he hev =>
    rw [he, hev]
    cases hl : lookup c.table.entries k.ident with
    | none =>
      rw [Table.put_none v hl]
      simp [givenKey, hl, refPut, refDel_of_absent (lookup_none.mp hl), List.count_append, dKeys]
    | some e =>
      obtain ⟨k0, v0⟩ := e
      rw [Table.put_some v hl, count_split (·.1) hi.uniq hl x]
      simp only [givenKey, hl]
      by_cases hk : k0 = k
      · subst hk
        simp only [if_true, dKeys_vev, refPut, List.map_append, List.count_append,
          List.map_cons, List.map_nil, List.append_nil, List.count_singleton, List.count_nil, beq_iff_eq]
      · simp only [hk, if_false, dKeys_append, dKeys_vev, dKeys_kev, hd, if_true, refPut, List.map_append,
          List.count_append, List.map_cons, List.map_nil, List.nil_append, List.count_singleton, beq_iff_eq]
        omega
  | front _ hn _ e rest hes he hev =>
    rw [he, hev]
    simp only [givenKey, hn]
    rw [hes]
    simp only [dKeys_append, dKeys_kev, dKeys_vev, hd, if_true, List.map_append, List.count_append,
      List.map_cons, List.map_nil, List.count_cons, List.append_nil, List.count_nil]
    omega
  | back _ hn _ e init hes he hev =>
    rw [he, hev]
    simp only [givenKey, hn]
    rw [hes]
    simp only [dKeys_append, dKeys_kev, dKeys_vev, hd, if_true, List.map_append, List.count_append,
      List.map_cons, List.map_nil, List.count_cons, List.append_nil, List.count_nil]
    omega

theorem step_keys {c : Cache} (hi : CInv c) (hd : c.table.keyDtor = true) (op : Op) :
    Conserves (·.1) c.table.entries (c.step op).1.table.entries (givenKey c op) (dKeys (c.step op).2.2) := by
  cases op with
  | put k v => exact put_keys hi hd k v
  | find i =>
    by_cases hp : c.policy = .lru
    · rw [Cache.step_find_lru hp]; exact conserves_findMove _ hi.uniq i
    · rw [Cache.step_find_other hp]; exact Conserves.same _ _
  | findMove i => exact conserves_findMove _ hi.uniq i
  | moveToEnd i => exact conserves_findMove _ hi.uniq i
  | remove i =>
    constructor
    intro x
    show _ = List.count x ((c.table.remove i).1.entries.map _) + List.count x (dKeys (c.table.remove i).2)
    cases hl : lookup c.table.entries i with
    | none => rw [Table.remove_none hl]; rfl
    | some e =>
      obtain ⟨k0, v0⟩ := e
      rw [Table.remove_some hl, count_split (·.1) hi.uniq hl x]
      simp only [erase_eq_refDel hi.uniq, dKeys_append, dKeys_kev, dKeys_vev, hd, if_true, givenKey,
        List.append_nil, List.count_singleton, List.count_nil, beq_iff_eq]
      omega
  | clear =>
    constructor
    intro x
    show _ = List.count x ((c.table.clear).1.entries.map _) + List.count x (dKeys (c.table.clear).2)
    simp only [Table.clear, dKeys_clear, hd, if_true, givenKey, List.map_nil, List.count_nil]
    omega
  | useLru =>
    cases hes : c.table.entries with
    | nil => rw [Cache.step_useLru_nil hes, hes]; exact Conserves.same _ _
    | cons e rest =>
      rw [Cache.step_useLru_cons hes]
      constructor
      intro x
      simp only [givenKey, dKeys, List.map_append, List.count_append, List.map_cons, List.map_nil, List.count_cons,
        List.count_nil, List.filterMap_nil]
      omega
  | getMru => exact Conserves.same _ _

/-! ### whole histories -/

theorem run_vals : ∀ (ops : List Op) {c : Cache}, CInv c → c.table.valDtor = true → ∀ x,
    List.count x (heldVals c) + List.count x (givenVals ops) =
      List.count x (heldVals (runLog c ops).1) + List.count x (dVals (runLog c ops).2)
  | [], _, _, _, _ => by simp [runLog, givenVals, dVals]
  | op :: ops, c, hi, hd, x => by
    have ih := run_vals ops (Cache.step_inv hi op) ((Cache.step_cfg c op).2.2.2.trans hd) x
    have hs := (step_vals hi hd op).eq x
    simp only [runLog, givenVals, heldVals, List.flatMap_cons, List.count_append, dVals_append] at ih hs ⊢
    omega

theorem run_keys : ∀ (ops : List Op) {c : Cache}, CInv c → c.table.keyDtor = true → ∀ x,
    List.count x (heldKeys c) + List.count x (givenKeys c ops) =
      List.count x (heldKeys (runLog c ops).1) + List.count x (dKeys (runLog c ops).2)
  | [], _, _, _, _ => by simp [runLog, givenKeys, dKeys]
  | op :: ops, c, hi, hd, x => by
    have ih := run_keys ops (Cache.step_inv hi op) ((Cache.step_cfg c op).2.2.1.trans hd) x
    have hs := (step_keys hi hd op).eq x
    simp only [runLog, givenKeys, heldKeys, List.count_append, dKeys_append] at ih hs ⊢
    omega

/-! ### a table created without a destructor never calls one -/

theorem step_no_valDtor {c : Cache} (hd : c.table.valDtor = false) (op : Op) : dVals (c.step op).2.2 = [] := by
  have hv : ∀ (t : Table) v, t.valDtor = false → dVals (t.vev v) = [] := by
    intro t v h; rw [dVals_vev, h]; rfl
  have hrm : ∀ (t : Table) i, t.valDtor = false → dVals (t.remove i).2 = [] := by
    intro t i h
    unfold Table.remove
    split
    · rfl
    · simp only [dVals_append, dVals_kev, hv t _ h, List.append_nil]
  have hput : ∀ (t : Table) k v, t.valDtor = false → dVals (t.put k v).2 = [] := by
    intro t k v h
    unfold Table.put
    split
    · rfl
    · simp only [dVals_append, hv t _ h, List.nil_append]
      split
      · rfl
      · exact dVals_kev _ _
  cases op with
  | put k v =>
    show dVals (c.put k v).2 = []
    simp only [Cache.put]
    split
    · split
      · simp only [dVals_append, hput c.table k v hd, hrm _ _ ((Table.put_valDtor c.table k v).trans hd), List.append_nil]
      · exact hput c.table k v hd
    · exact hput c.table k v hd
  | find i =>
    by_cases hp : c.policy = .lru
    · rw [Cache.step_find_lru hp]; rfl
    · rw [Cache.step_find_other hp]; rfl
  | findMove i => rfl
  | moveToEnd i => rfl
  | remove i => exact hrm c.table i hd
  | clear =>
    show dVals c.table.clear.2 = []
    simp only [Table.clear, dVals_clear, hd]; rfl
  | useLru =>
    cases hes : c.table.entries with
    | nil => rw [Cache.step_useLru_nil hes]; rfl
    | cons e rest => rw [Cache.step_useLru_cons hes]; rfl
  | getMru => rfl

theorem step_no_keyDtor {c : Cache} (hd : c.table.keyDtor = false) (op : Op) : dKeys (c.step op).2.2 = [] := by
  have hv : ∀ (t : Table) k, t.keyDtor = false → dKeys (t.kev k) = [] := by
    intro t v h; rw [dKeys_kev, h]; rfl
  have hrm : ∀ (t : Table) i, t.keyDtor = false → dKeys (t.remove i).2 = [] := by
    intro t i h
    unfold Table.remove
    split
    · rfl
    · simp only [dKeys_append, dKeys_vev, hv t _ h, List.append_nil]
  have hput : ∀ (t : Table) k v, t.keyDtor = false → dKeys (t.put k v).2 = [] := by
    intro t k v h
    unfold Table.put
    split
    · rfl
    · simp only [dKeys_append, dKeys_vev, List.nil_append]
      split
      · rfl
      · exact hv t _ h
  cases op with
  | put k v =>
    show dKeys (c.put k v).2 = []
    simp only [Cache.put]
    split
    · split
      · simp only [dKeys_append, hput c.table k v hd, hrm _ _ ((Table.put_keyDtor c.table k v).trans hd), List.append_nil]
      · exact hput c.table k v hd
    · exact hput c.table k v hd
  | find i =>
    by_cases hp : c.policy = .lru
    · rw [Cache.step_find_lru hp]; rfl
    · rw [Cache.step_find_other hp]; rfl
  | findMove i => rfl
  | moveToEnd i => rfl
  | remove i => exact hrm c.table i hd
  | clear =>
    show dKeys c.table.clear.2 = []
    simp only [Table.clear, dKeys_clear, hd]; rfl
  | useLru =>
    cases hes : c.table.entries with
    | nil => rw [Cache.step_useLru_nil hes]; rfl
    | cons e rest => rw [Cache.step_useLru_cons hes]; rfl
  | getMru => rfl

theorem run_no_valDtor : ∀ (ops : List Op) {c : Cache}, c.table.valDtor = false → dVals (runLog c ops).2 = []
  | [], _, _ => rfl
  | op :: ops, c, hd => by
    simp only [runLog, dVals_append, step_no_valDtor hd op,
      run_no_valDtor ops ((Cache.step_cfg c op).2.2.2.trans hd), List.append_nil]

theorem run_no_keyDtor : ∀ (ops : List Op) {c : Cache}, c.table.keyDtor = false → dKeys (runLog c ops).2 = []
  | [], _, _ => rfl
  | op :: ops, c, hd => by
    simp only [runLog, dKeys_append, step_no_keyDtor hd op,
      run_no_keyDtor ops ((Cache.step_cfg c op).2.2.1.trans hd), List.append_nil]

theorem runLog_fst : ∀ (ops : List Op) (c : Cache), (runLog c ops).1 = run c ops
  | [], _ => rfl
  | op :: ops, c => by simp only [runLog, run]; exact runLog_fst ops _

end AwsVerif.Lht
