import AwsVerif.Model.Lht
/-!
Specification vocabulary for C18: the reference ordered map, the history-level description of
the iteration order, ghost time stamps for the eviction policies, and the bookkeeping of what a
history hands to the table and what the destructors receive.
Nothing here is executed by the driver; the theorems of `Props/C18.lean` are stated with it.
-/
namespace AwsVerif.Lht

/-- unique key identities -/
def Uniq (es : List Entry) : Prop := es.Pairwise (fun a b => a.1.ident ≠ b.1.ident)

/-! ### reference ordered map (insertion-ordered dictionary; re-insertion moves to the back) -/

def refDel (es : List Entry) (i : Nat) : List Entry := es.filter (fun e => e.1.ident != i)
def refPut (es : List Entry) (k : Key) (v : Nat) : List Entry := refDel es k.ident ++ [(k, v)]

/-- reference semantics of one call on a bare linked hash table (no eviction) -/
def refStep (es : List Entry) : Op → List Entry
  | .put k v => refPut es k v
  | .find _ => es
  | .findMove i | .moveToEnd i =>
    match es.find? (fun e => e.1.ident == i) with
    | none => es
    | some e => refDel es i ++ [e]
  | .remove i => refDel es i
  | .clear => []
  | .useLru =>
    match es with
    | [] => []
    | e :: rest => rest ++ [e]
  | .getMru => es

/-! ### iteration order read off the history -/

/-- the cache API proper: calls that reorder only by (re-)insertion -/
def ApiOp : Op → Prop
  | .put _ _ | .find _ | .remove _ | .clear | .getMru => True
  | _ => False

/-- does a later part of the history displace identity `i`? -/
def displaces (i : Nat) : Op → Bool
  | .put k _ => k.ident == i
  | .remove j => j == i
  | .clear => true
  | _ => false

/-- the insertions of a history that are not followed by a re-insertion, removal or clear of
the same identity, in history order -/
def survivors : List Op → List Entry
  | [] => []
  | .put k v :: rest =>
    if rest.any (displaces k.ident) then survivors rest else (k, v) :: survivors rest
  | _ :: rest => survivors rest

/-! ### ghost time stamps -/

structure Ghost where
  clock  : Nat
  /-- time of the last insertion of an identity -/
  putAt  : Nat → Nat
  /-- time of the last use of an identity: insertion, successful lookup, explicit move -/
  usedAt : Nat → Nat

def Ghost.init : Ghost := { clock := 1, putAt := fun _ => 0, usedAt := fun _ => 0 }

def setAt (f : Nat → Nat) (i t : Nat) : Nat → Nat := fun j => if j = i then t else f j

/-- the ghost record of one call made in state `c` -/
def Ghost.step (g : Ghost) (c : Cache) : Op → Ghost
  | .put k _ =>
    { clock := g.clock + 1, putAt := setAt g.putAt k.ident g.clock, usedAt := setAt g.usedAt k.ident g.clock }
  | .find i | .findMove i | .moveToEnd i =>
    if (lookup c.table.entries i).isSome then
      { g with clock := g.clock + 1, usedAt := setAt g.usedAt i g.clock }
    else g
  | .useLru =>
    match c.table.entries with
    | [] => g
    | e :: _ => { g with clock := g.clock + 1, usedAt := setAt g.usedAt e.1.ident g.clock }
  | .remove _ | .clear | .getMru => g

/-- a history run with its ghost record -/
def grun (c : Cache) (g : Ghost) : List Op → Cache × Ghost
  | [] => (c, g)
  | op :: ops => grun (c.step op).1 (g.step c op) ops

/-! ### ownership bookkeeping -/

def heldVals (c : Cache) : List Nat := c.table.entries.map (·.2)
def heldKeys (c : Cache) : List Key := c.table.entries.map (·.1)

def dVals (evs : List Ev) : List Nat := evs.filterMap (fun | .val v => some v | _ => none)
def dKeys (evs : List Ev) : List Key := evs.filterMap (fun | .key k => some k | _ => none)

/-- the key pointer a call hands over to the table: the key of a `put`, unless the table already
holds that very pointer -/
def givenKey (c : Cache) : Op → List Key
  | .put k _ =>
    match lookup c.table.entries k.ident with
    | some (k0, _) => if k0 = k then [] else [k]
    | none => [k]
  | _ => []

def givenVal : Op → List Nat
  | .put _ v => [v]
  | _ => []

/-- all values / key pointers handed over along a history -/
def givenVals (ops : List Op) : List Nat := ops.flatMap givenVal

def givenKeys (c : Cache) : List Op → List Key
  | [] => []
  | op :: ops => givenKey c op ++ givenKeys (c.step op).1 ops

/-- state, the list of returned values and the destructor log of a history -/
def runAll (c : Cache) : List Op → Cache × List (Option Nat) × List Ev
  | [] => (c, [], [])
  | op :: ops =>
    let r := c.step op
    let r' := runAll r.1 ops
    (r'.1, r.2.1 :: r'.2.1, r.2.2 ++ r'.2.2)

end AwsVerif.Lht
