import AwsVerif.Proofs.C18.ImplOps
/-!
`aws_linked_hash_table_put` and `aws_linked_hash_table_clear` of the implemented table refine the
abstract calls.  Hash-table facts from C02 (`create_spec`, `replace_inv`, `clear_spec`,
`clearLog_eq`), pointer surgery from C09 (`ll_remove`, `ll_pushBack`).
-/
namespace AwsVerif.LhtImpl
open AwsVerif AwsVerif.Lht AwsVerif.Proofs.C09

theorem mem_chain_snoc {l : LinkedList.LL} {xs : List NodeId} {n m : NodeId} (hm : m ∈ chainOf l (xs ++ [n])) :
    m ∈ chainOf l xs ∨ m = n := by
  have p : (chainOf l (xs ++ [n])).Perm (n :: chainOf l xs) := by
    simp only [chainOf, List.cons_append, List.append_assoc]
    exact (List.Perm.cons _ List.perm_middle).trans (List.Perm.swap _ _ _)
  rcases List.mem_cons.1 (p.mem_iff.1 hm) with h | h
  · exact Or.inr h
  · exact Or.inl h

/-- the state after linking the fresh node `s.next` for `(key, value)` behind the nodes `ys` -/
theorem coupled_after_put {h : Nat → Nat} {s : State} {ys : List NodeId} {key : Lht.Key} {value : Nat}
    {ht' : HashTable.Table} {heap' : LinkedList.Heap}
    (hinv : Proofs.C02.Inv h ht') (hdv : ht'.dv = true) (hdk : ht'.dk = s.keyDtor)
    (w : WellLinked heap' s.list (ys ++ [s.next]))
    (hfresh : ∀ m ∈ chainOf s.list ys, m < s.next)
    (htab : (HashTable.contents ht').Perm ((hk key, some s.next) :: tableOf s ys)) :
    let s' : State :=
      { s with
        ht := ht',
        heap := heap',
        nodeKey := fun m => if m = s.next then key else s.nodeKey m,
        nodeVal := fun m => if m = s.next then value else s.nodeVal m,
        next := s.next + 1 }
    Coupled h s' (ys ++ [s.next]) ∧ abs s' (ys ++ [s.next]) = abs s ys ++ [(key, value)] := by
  intro s'
  have hn : s.next ∉ ys := by
    intro hm
    exact Nat.lt_irrefl _ (hfresh _ (by simp [chainOf, hm]))
  obtain ⟨fa, ft⟩ := abs_frame (s := s) (s' := s') (ys := ys) (n := s.next) hn
    (fun m hm => by simp [s', hm]) (fun m hm => by simp [s', hm])
  have habs : abs s' (ys ++ [s.next]) = abs s ys ++ [(key, value)] := by
    rw [abs_append, fa]; simp [abs, s']
  refine ⟨⟨hinv, w, hdv, hdk, ?_, ?_⟩, habs⟩
  · show (HashTable.contents ht').Perm (tableOf s' (ys ++ [s.next]))
    rw [tableOf_append, ft]
    have : tableOf s' [s.next] = [(hk key, some s.next)] := by simp [tableOf, s']
    rw [this]
    exact htab.trans (List.perm_append_singleton _ _).symm
  · intro m hm
    show m < s.next + 1
    rcases mem_chain_snoc hm with h1 | h1
    · exact Nat.lt_succ_of_lt (hfresh m h1)
    · rw [h1]; exact Nat.lt_succ_self _

theorem put_refines {h : Nat → Nat} {s : State} {xs : List NodeId} (hc : Coupled h s xs) (key : Lht.Key) (value : Nat) :
    (∃ s', put h s key value = .err s' ∧ Coupled h s' xs ∧ absTable s' xs = absTable s xs) ∨
    (∃ s' xs', put h s key value = .ok s' () ((absTable s xs).put key value).2 ∧ Coupled h s' xs' ∧
      absTable s' xs' = ((absTable s xs).put key value).1) := by
  unfold put
  rcases Proofs.C02.create_spec hc.inv (hk key) with ⟨e, he, _, _⟩ | ⟨r, hr, hinv', _, hdk, hdv, hcase⟩
  · left
    rw [he]
    exact ⟨_, rfl, ⟨hc.inv, hc.wl, hc.dv, hc.dk, hc.tab, fun m hm => Nat.lt_succ_of_lt (hc.fresh m hm)⟩, rfl⟩
  · right
    rw [hr]
    rcases hcase with ⟨_, hmiss, hrd, hperm⟩ | ⟨_, htab, e0, hrd, hid⟩
    · -- a new identity
      have hl := hc.lookup_none_of hmiss
      have hput : (absTable s xs).put key value = _ := Table.put_none value hl
      obtain ⟨heap2, hp, w2, _⟩ := ll_pushBack hc.wl (fresh_notin hc.fresh)
      obtain ⟨i1, i2, i3⟩ := Proofs.C02.replace_inv hinv' hrd (key := hk key) rfl (some s.next)
      obtain ⟨c1, c2⟩ := coupled_after_put (s := s) (ys := xs) (key := key) (value := value) i1
        (by simp only; rw [hdv]; exact hc.dv) (by simp only; rw [hdk]; exact hc.dk) w2 hc.fresh (by
          have q1 : (HashTable.entries (HashTable.wr r.table.slots r.idx none)).Perm (HashTable.entries s.ht.slots) :=
            List.Perm.cons_inv (i3.symm.trans hperm)
          rw [Proofs.C02.contents_eq]
          refine ((i2.trans (List.Perm.cons _ q1)).map Proofs.C02.kvOf).trans ?_
          rw [List.map_cons]
          exact List.Perm.cons _ (by rw [← Proofs.C02.contents_eq]; exact hc.tab))
      simp only [hrd, hp]
      refine ⟨_, xs ++ [s.next], by rw [hput], c1, ?_⟩
      rw [hput]
      simp only [absTable, c2]
    · -- an identity already stored: its node is destroyed, a fresh one linked at the back
      have he0 : e0 ∈ HashTable.entries s.ht.slots :=
        Proofs.C02.mem_entries.2 ⟨r.idx, Proofs.C02.rd_lt_size hrd, hrd⟩
      obtain ⟨old, hold, h1, h2, hi, hl⟩ := hc.lookup_some_of he0 hid
      obtain ⟨ys, zs, rfl⟩ := List.append_of_mem hold
      have hput : (absTable s (ys ++ old :: zs)).put key value = _ := Table.put_some value hl
      obtain ⟨heap1, hrem, w1, _, _⟩ := ll_remove hc.wl
      have hfresh' : ∀ m ∈ chainOf s.list (ys ++ zs), m < s.next := fun m hm => hc.fresh m (chain_sub_mid hm)
      obtain ⟨heap2, hp, w2, _⟩ := ll_pushBack w1 (fresh_notin hfresh')
      obtain ⟨i1, i2, i3⟩ := Proofs.C02.replace_inv hc.inv hrd hid (some s.next)
      obtain ⟨c1, c2⟩ := coupled_after_put (s := s) (ys := ys ++ zs) (key := key) (value := value) i1
        hc.dv hc.dk w2 hfresh' (by
          have q0 : (HashTable.contents s.ht).Perm
              ((e0.key, e0.val) :: (HashTable.entries (HashTable.wr s.ht.slots r.idx none)).map Proofs.C02.kvOf) := by
            rw [Proofs.C02.contents_eq]; exact i3.map Proofs.C02.kvOf
          have q1 := (perm_mid_tableOf s ys zs old).symm.trans (hc.tab.symm.trans q0)
          rw [h1, h2] at q1
          have q2 := (List.Perm.cons_inv q1).symm
          rw [Proofs.C02.contents_eq]
          exact (i2.map Proofs.C02.kvOf).trans (List.Perm.cons _ q2))
      simp only [htab, hrd, h2, elementDestroy, hrem, hp]
      refine ⟨_, ys ++ zs ++ [s.next], ?_, c1, ?_⟩
      · rw [hput]
        congr 1
        simp only [Table.vev, Table.kev, absTable, h1, unHk_hk]
        congr 1
        by_cases hk0 : s.nodeKey old = key
        · simp [hk0]
        · have : hk (s.nodeKey old) ≠ hk key := fun hh => hk0 (hk_inj hh)
          simp [hk0, this] <;> rfl
      · rw [hput]
        simp only [absTable, c2, erase_eq_refDel hc.uniq]
        have hu := hc.uniq
        rw [abs_append s ys (old :: zs)] at hu ⊢
        have : abs s (old :: zs) = (s.nodeKey old, s.nodeVal old) :: abs s zs := rfl
        rw [this] at hu ⊢
        rw [← hi, refDel_mid (e := (s.nodeKey old, s.nodeVal old)) hu, abs_append]

/-! ### clear -/

/-- the destructor calls of one stored pair -/
def evOf (s : State) (kv : HashTable.Key × HashTable.Val) : List Lht.Ev :=
  (if s.keyDtor then [Lht.Ev.key (unHk kv.1)] else []) ++
  (match kv.2 with
   | some n => if s.valDtor then [Lht.Ev.val (s.nodeVal n)] else []
   | none => [])

/-- destroying, in any order, every pair of a map that holds exactly the list's nodes empties the list -/
theorem callbacks_all (s : State) (l : LinkedList.LL) : ∀ (m : HashTable.Spec) (xs : List NodeId) (heap : LinkedList.Heap),
    m.Perm (tableOf s xs) → WellLinked heap l xs →
    ∃ heap', callbacks s heap (m.flatMap (HashTable.specDestroy s.keyDtor true)) = some (heap', m.flatMap (evOf s)) ∧
      WellLinked heap' l []
  | [], xs, heap, hp, w => by
    have : xs = [] := by
      have := hp.length_eq
      simp [tableOf] at this
      exact List.eq_nil_of_length_eq_zero this.symm
    subst this
    exact ⟨heap, rfl, w⟩
  | (k, v) :: m, xs, heap, hp, w => by
    have hm : (k, v) ∈ tableOf s xs := hp.mem_iff.1 List.mem_cons_self
    obtain ⟨n, hn, heq⟩ := List.mem_map.1 hm
    simp only [Prod.mk.injEq] at heq
    obtain ⟨rfl, rfl⟩ := heq
    obtain ⟨ys, zs, rfl⟩ := List.append_of_mem hn
    obtain ⟨heap1, hrem, w1, _, _⟩ := ll_remove w
    have hp' : m.Perm (tableOf s (ys ++ zs)) :=
      List.Perm.cons_inv (hp.trans (perm_mid_tableOf s ys zs n))
    obtain ⟨heap', hcb, w'⟩ := callbacks_all s l m (ys ++ zs) heap1 hp' w1
    refine ⟨heap', ?_, w'⟩
    rw [List.flatMap_cons, List.flatMap_cons]
    have hhd : HashTable.specDestroy s.keyDtor true (hk (s.nodeKey n), some n) =
        (if s.keyDtor = true then [HashTable.Ev.k (hk (s.nodeKey n))] else []) ++ [HashTable.Ev.v (some n)] := by
      simp [HashTable.specDestroy]
    have hev : evOf s (hk (s.nodeKey n), some n) =
        (if s.keyDtor = true then [Lht.Ev.key (s.nodeKey n)] else []) ++
        (if s.valDtor = true then [Lht.Ev.val (s.nodeVal n)] else []) := rfl
    rw [hhd, hev]
    by_cases hkd : s.keyDtor = true
    · rw [hkd] at hcb
      simp only [hkd, if_true, List.cons_append, List.nil_append, callbacks, elementDestroy,
        hrem, hcb, unHk_hk]
    · have hf : s.keyDtor = false := by simpa using hkd
      rw [hf] at hcb
      simp only [hf, Bool.false_eq_true, if_false, List.nil_append, List.cons_append, callbacks, elementDestroy, hrem, hcb]

theorem clear_refines {h : Nat → Nat} {s : State} {xs : List NodeId} (hc : Coupled h s xs) :
    ∃ s' evs, clear s = .ok s' () evs ∧ evs.Perm ((absTable s xs).clear).2 ∧ Coupled h s' [] ∧
      absTable s' [] = ((absTable s xs).clear).1 := by
  unfold clear
  obtain ⟨i1, i2, i3, i4, i5⟩ := Proofs.C02.clear_spec hc.inv
  have hlog : (HashTable.clear s.ht).2 = (HashTable.contents s.ht).flatMap (HashTable.specDestroy s.keyDtor true) := by
    rw [i5, Proofs.C02.clearLog_eq, hc.dk, hc.dv]
  obtain ⟨heap', hcb, w'⟩ := callbacks_all s s.list (HashTable.contents s.ht) xs s.heap hc.tab hc.wl
  rw [hlog, hcb]
  refine ⟨_, _, rfl, ?_, ?_, rfl⟩
  · refine (List.Perm.flatMap_right (evOf s) hc.tab).trans ?_
    have h1 : ((absTable s xs).clear).2 =
        xs.flatMap (fun n => (absTable s xs).kev (s.nodeKey n) ++ (absTable s xs).vev (s.nodeVal n)) := by
      simp only [Table.clear, absTable, abs, List.flatMap_map]
    have h2 : (tableOf s xs).flatMap (evOf s) =
        xs.flatMap (fun n => (absTable s xs).kev (s.nodeKey n) ++ (absTable s xs).vev (s.nodeVal n)) := by
      unfold tableOf
      rw [List.flatMap_map]
      rfl
    rw [h1, h2]
  · refine ⟨i1, w', by simp only; rw [i4]; exact hc.dv, by simp only; rw [i3]; exact hc.dk, ?_, ?_⟩
    · show (HashTable.contents (HashTable.clear s.ht).1).Perm (tableOf _ [])
      rw [Proofs.C02.contents_eq, i2]; exact List.Perm.refl _
    · intro m hm
      apply hc.fresh m
      simp only [chainOf, List.nil_append, List.cons_append, List.mem_cons, List.mem_append,
        List.not_mem_nil, or_false] at hm ⊢
      rcases hm with h1 | h1
      · exact Or.inl h1
      · exact Or.inr (Or.inr h1)

end AwsVerif.LhtImpl
