import AwsVerif.Proofs.C18.Table
/-! The caches' `put`: when it evicts, whom, and what is left; the state invariant. -/
namespace AwsVerif.Lht

/-- invariant of every reachable cache / table state -/
structure CInv (c : Cache) : Prop where
  uniq : Uniq c.table.entries
  bound : c.policy ≠ .none → c.table.entries.length ≤ c.max
  maxPos : 1 ≤ c.max

theorem cinv_init (p : Policy) {max : Nat} (h : 1 ≤ max) (kd vd : Bool) : CInv (Cache.init p max kd vd) :=
  ⟨List.Pairwise.nil, fun _ => Nat.zero_le _, h⟩

/-- the entry (if any) a `put` of `k` overwrites -/
theorem put_table_length {c : Cache} (hi : CInv c) (k : Key) (v : Nat) :
    (c.table.put k v).1.entries.length =
      if (lookup c.table.entries k.ident).isSome then c.table.entries.length else c.table.entries.length + 1 := by
  rw [Table.put_entries hi.uniq]
  unfold refPut
  cases h : lookup c.table.entries k.ident with
  | none => simp [refDel_of_absent (lookup_none.mp h)]
  | some e => simp [length_refDel hi.uniq h]

/-- no overflow: the cache's `put` is the table's `put` -/
theorem Cache.put_no_evict {c : Cache} (hi : CInv c) (k : Key) (v : Nat)
    (h : c.policy = .none ∨ (lookup c.table.entries k.ident).isSome ∨ c.table.entries.length < c.max) :
    (c.put k v).1.table = (c.table.put k v).1 ∧ (c.put k v).2 = (c.table.put k v).2 := by
  unfold Cache.put
  have hlen := put_table_length hi k v
  have hcond : ¬ (c.policy ≠ .none ∧ (c.table.put k v).1.count > c.max) := by
    intro ⟨hp, hgt⟩
    have hb := hi.bound hp
    unfold Table.count at hgt
    rcases h with h | h | h
    · exact hp h
    · rw [hlen, if_pos h] at hgt; omega
    · rw [hlen] at hgt; split at hgt <;> omega
  simp only [hcond, if_false, and_self]

/-- shape of an evicting `put`: the table `put` of a new identity, then `remove` of the policy's key -/
theorem Cache.put_evict {c : Cache} (hi : CInv c) (k : Key) (v : Nat) (hp : c.policy ≠ .none)
    (hn : lookup c.table.entries k.ident = none) (hfull : c.table.entries.length = c.max)
    {ke : Key} {ve : Nat} (hev : evictKey c.policy (c.table.entries ++ [(k, v)]) = some ke)
    (hlk : lookup (c.table.entries ++ [(k, v)]) ke.ident = some (ke, ve)) :
    (c.put k v).1.table.entries = refDel (c.table.entries ++ [(k, v)]) ke.ident ∧
    (c.put k v).2 = c.table.kev ke ++ c.table.vev ve := by
  have hu1 : Uniq (c.table.entries ++ [(k, v)]) := hi.uniq.snoc (x := (k, v)) (lookup_none.mp hn)
  unfold Cache.put
  simp only [Table.put_none v hn]
  split
  · split
    · rename_i kv heq
      rw [hev] at heq
      cases heq
      rw [Table.remove_some (k0 := ke) (v0 := ve) hlk]
      exact ⟨erase_eq_refDel hu1 _, by simp [Table.kev, Table.vev]⟩
    · rename_i heq
      rw [hev] at heq; cases heq
  · rename_i hc
    exfalso
    apply hc
    exact ⟨hp, by simp [Table.count, hfull]⟩

/-- overflow with FIFO / LRU: the front goes -/
theorem Cache.put_evict_front {c : Cache} (hi : CInv c) (k : Key) (v : Nat)
    (hp : c.policy = .fifo ∨ c.policy = .lru)
    (hn : lookup c.table.entries k.ident = none) (hfull : c.table.entries.length = c.max) :
    ∃ e rest, c.table.entries = e :: rest ∧
      (c.put k v).1.table.entries = rest ++ [(k, v)] ∧ (c.put k v).2 = c.table.kev e.1 ++ c.table.vev e.2 := by
  have hpos := hi.maxPos
  cases hes : c.table.entries with
  | nil => rw [hes] at hfull; simp at hfull; omega
  | cons e rest =>
    refine ⟨e, rest, rfl, ?_⟩
    obtain ⟨ke, ve⟩ := e
    have hu1 : Uniq ((ke, ve) :: (rest ++ [(k, v)])) := by
      have := hi.uniq.snoc (x := (k, v)) (lookup_none.mp hn)
      rw [hes] at this; exact this
    have hlk : lookup (c.table.entries ++ [(k, v)]) ke.ident = some (ke, ve) := by
      rw [hes]; unfold lookup; simp
    have hev : evictKey c.policy (c.table.entries ++ [(k, v)]) = some ke := by
      rw [hes]
      rcases hp with h | h <;> simp [evictKey, h]
    have := Cache.put_evict hi k v (by rcases hp with h | h <;> simp [h]) hn hfull hev hlk
    rw [hes] at this
    rw [this.1, this.2]
    exact ⟨refDel_head hu1, rfl⟩

/-- overflow with LIFO: the entry at the back before the insertion goes -/
theorem Cache.put_evict_back {c : Cache} (hi : CInv c) (k : Key) (v : Nat)
    (hp : c.policy = .lifo)
    (hn : lookup c.table.entries k.ident = none) (hfull : c.table.entries.length = c.max) :
    ∃ e init, c.table.entries = init ++ [e] ∧
      (c.put k v).1.table.entries = init ++ [(k, v)] ∧ (c.put k v).2 = c.table.kev e.1 ++ c.table.vev e.2 := by
  have hpos := hi.maxPos
  rcases List.eq_nil_or_concat c.table.entries with hes | ⟨init, e, hes⟩
  · rw [hes] at hfull; simp at hfull; omega
  · rw [List.concat_eq_append] at hes
    refine ⟨e, init, hes, ?_⟩
    obtain ⟨ke, ve⟩ := e
    have hu1 : Uniq (init ++ [(ke, ve)] ++ [(k, v)]) := by
      have := hi.uniq.snoc (x := (k, v)) (lookup_none.mp hn)
      rw [hes] at this; exact this
    have hlk : lookup (c.table.entries ++ [(k, v)]) ke.ident = some (ke, ve) := by
      rw [hes]; exact lookup_of_mem hu1 (e := (ke, ve)) (by simp)
    have hev : evictKey c.policy (c.table.entries ++ [(k, v)]) = some ke := by
      rw [hes, hp]
      simp [evictKey]
    have := Cache.put_evict hi k v (by simp [hp]) hn hfull hev hlk
    rw [this.1, this.2]
    refine ⟨?_, rfl⟩
    rw [hes, refDel_append, refDel_append]
    have hu0 : Uniq (init ++ [(ke, ve)]) := by rw [← hes]; exact hi.uniq
    have h1 : refDel init ke.ident = init := by
      apply refDel_of_absent
      intro x hx
      exact (List.pairwise_append.mp hu0).2.2 x hx (ke, ve) (by simp)
    have h2 : refDel [(ke, ve)] ke.ident = [] := by simp [refDel]
    have hkne : k.ident ≠ ke.ident := by
      have := lookup_none.mp hn (ke, ve) (by rw [hes]; simp)
      exact fun h => this h.symm
    have h3 : refDel [(k, v)] ke.ident = [(k, v)] := by simp [refDel, hkne]
    rw [h1, h2, h3, List.append_nil]

end AwsVerif.Lht
