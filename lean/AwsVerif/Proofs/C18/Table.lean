import AwsVerif.Proofs.C18.Basic
/-! What each linked-hash-table call does to the entry list, under unique identities. -/
namespace AwsVerif.Lht
namespace Table

theorem put_none {t : Table} {k : Key} (v : Nat) (h : lookup t.entries k.ident = none) :
    t.put k v = ({ t with entries := t.entries ++ [(k, v)] }, []) := by
  unfold put; rw [h]

theorem put_some {t : Table} {k k0 : Key} {v0 : Nat} (v : Nat) (h : lookup t.entries k.ident = some (k0, v0)) :
    t.put k v = ({ t with entries := erase t.entries k.ident ++ [(k, v)] },
                 t.vev v0 ++ (if k0 = k then [] else t.kev k0)) := by
  unfold put; rw [h]

theorem put_entries {t : Table} (hu : Uniq t.entries) (k : Key) (v : Nat) :
    (t.put k v).1.entries = refPut t.entries k v := by
  cases h : lookup t.entries k.ident with
  | none => rw [put_none v h]; simp only [refPut]; rw [refDel_of_absent (lookup_none.mp h)]
  | some e => obtain ⟨k0, v0⟩ := e; rw [put_some v h]; simp only [refPut]; rw [erase_eq_refDel hu]

theorem put_keyDtor (t : Table) (k : Key) (v : Nat) : (t.put k v).1.keyDtor = t.keyDtor := by
  unfold put; split <;> rfl

theorem put_valDtor (t : Table) (k : Key) (v : Nat) : (t.put k v).1.valDtor = t.valDtor := by
  unfold put; split <;> rfl

theorem findMove_none {t : Table} {i : Nat} (h : lookup t.entries i = none) : t.findMove i = (t, none) := by
  unfold findMove; rw [h]

theorem findMove_some {t : Table} {i : Nat} {e : Entry} (h : lookup t.entries i = some e) :
    t.findMove i = ({ t with entries := erase t.entries i ++ [e] }, some e.2) := by
  unfold findMove; rw [h]

theorem findMove_entries {t : Table} (hu : Uniq t.entries) (i : Nat) :
    (t.findMove i).1.entries = refStep t.entries (.findMove i) := by
  have hl : t.entries.find? (fun e => e.1.ident == i) = lookup t.entries i := rfl
  cases h : lookup t.entries i with
  | none => rw [findMove_none h]; simp only [refStep, hl, h]
  | some e => rw [findMove_some h]; simp only [refStep, hl, h]; rw [erase_eq_refDel hu]

theorem findMove_flags (t : Table) (i : Nat) :
    (t.findMove i).1.keyDtor = t.keyDtor ∧ (t.findMove i).1.valDtor = t.valDtor := by
  unfold findMove; split <;> exact ⟨rfl, rfl⟩

theorem remove_none {t : Table} {i : Nat} (h : lookup t.entries i = none) : t.remove i = (t, []) := by
  unfold remove; rw [h]

theorem remove_some {t : Table} {i : Nat} {k0 : Key} {v0 : Nat} (h : lookup t.entries i = some (k0, v0)) :
    t.remove i = ({ t with entries := erase t.entries i }, t.kev k0 ++ t.vev v0) := by
  unfold remove; rw [h]

theorem remove_entries {t : Table} (hu : Uniq t.entries) (i : Nat) :
    (t.remove i).1.entries = refDel t.entries i := by
  cases h : lookup t.entries i with
  | none => rw [remove_none h, refDel_of_absent (lookup_none.mp h)]
  | some e => obtain ⟨k0, v0⟩ := e; rw [remove_some h]; exact erase_eq_refDel hu i

theorem remove_flags (t : Table) (i : Nat) :
    (t.remove i).1.keyDtor = t.keyDtor ∧ (t.remove i).1.valDtor = t.valDtor := by
  unfold remove; split <;> exact ⟨rfl, rfl⟩

/-- `find` returns exactly the value stored under an equal key -/
theorem find_eq_some {t : Table} (hu : Uniq t.entries) {i v : Nat} :
    t.find i = some v ↔ ∃ k, (k, v) ∈ t.entries ∧ k.ident = i := by
  unfold find
  constructor
  · intro h
    cases hl : lookup t.entries i with
    | none => rw [hl] at h; cases h
    | some e =>
      rw [hl] at h
      simp only [Option.map_some, Option.some.injEq] at h
      obtain ⟨hm, hi⟩ := lookup_some hl
      exact ⟨e.1, by rw [← h]; exact hm, hi⟩
  · intro ⟨k, hm, hi⟩
    have := lookup_of_mem hu hm
    simp only at this
    rw [hi] at this
    rw [this]; rfl

theorem find_eq_none {t : Table} {i : Nat} : t.find i = none ↔ ∀ e ∈ t.entries, e.1.ident ≠ i := by
  unfold find
  rw [Option.map_eq_none_iff, lookup_none]

end Table
end AwsVerif.Lht
