import AwsVerif.Model.LhtImpl
import AwsVerif.Proofs.C02.Refine
import AwsVerif.Proofs.C09.LLList
import AwsVerif.Proofs.C18.Step
/-!
Coupling invariant between the implemented linked hash table (`Model/LhtImpl.lean`: C02 hash table
+ C09 linked list + node store) and the abstract ordered association list (`Model/Lht.lean`),
and the list / permutation facts the refinement proofs need.
-/
namespace AwsVerif.LhtImpl
open AwsVerif AwsVerif.Lht AwsVerif.Proofs.C09

/-- what the hash table must hold for the node sequence `xs`: each node's key pointer ↦ the node -/
def tableOf (s : State) (xs : List NodeId) : HashTable.Spec := xs.map fun n => (hk (s.nodeKey n), some n)

/-- abstraction: look up each node's key and value, in list order -/
def abs (s : State) (xs : List NodeId) : List Lht.Entry := xs.map fun n => (s.nodeKey n, s.nodeVal n)

def absTable (s : State) (xs : List NodeId) : Lht.Table :=
  { entries := abs s xs, keyDtor := s.keyDtor, valDtor := s.valDtor }

/-- the coupling invariant: C02's table invariant, C09's well-linkedness for the node sequence `xs`,
the table's values are exactly the list's nodes (each under its node's key pointer), the table was
created with the user's key destructor and `s_element_destroy`, and unallocated ids are fresh -/
structure Coupled (h : Nat → Nat) (s : State) (xs : List NodeId) : Prop where
  inv : Proofs.C02.Inv h s.ht
  wl : WellLinked s.heap s.list xs
  dv : s.ht.dv = true
  dk : s.ht.dk = s.keyDtor
  tab : (HashTable.contents s.ht).Perm (tableOf s xs)
  fresh : ∀ m ∈ chainOf s.list xs, m < s.next

theorem hk_id (k : Lht.Key) : (hk k).id = some k.ident := rfl
theorem unHk_hk (k : Lht.Key) : unHk (hk k) = k := rfl
theorem hk_inj {a b : Lht.Key} (h : hk a = hk b) : a = b := by
  have := congrArg unHk h; simpa [unHk_hk] using this

theorem abs_append (s : State) (a b : List NodeId) : abs s (a ++ b) = abs s a ++ abs s b := List.map_append
theorem tableOf_append (s : State) (a b : List NodeId) : tableOf s (a ++ b) = tableOf s a ++ tableOf s b := List.map_append

theorem mem_abs {s : State} {xs : List NodeId} {e : Lht.Entry} :
    e ∈ abs s xs ↔ ∃ n ∈ xs, e = (s.nodeKey n, s.nodeVal n) := by
  unfold abs; rw [List.mem_map]
  constructor
  · rintro ⟨n, hn, rfl⟩; exact ⟨n, hn, rfl⟩
  · rintro ⟨n, hn, rfl⟩; exact ⟨n, hn, rfl⟩

namespace Coupled
variable {h : Nat → Nat} {s : State} {xs : List NodeId}

theorem nodup (hc : Coupled h s xs) : xs.Nodup := by
  have := hc.wl.nodup
  simp only [List.cons_append, List.nodup_cons, List.nodup_append] at this
  exact this.2.1

/-- every pair stored in the hash table belongs to a node of the list -/
theorem node_of_entry (hc : Coupled h s xs) {e : HashTable.Entry} (he : e ∈ HashTable.entries s.ht.slots) :
    ∃ n ∈ xs, e.key = hk (s.nodeKey n) ∧ e.val = some n := by
  have hm : (e.key, e.val) ∈ HashTable.contents s.ht := Proofs.C02.mem_contents.2 ⟨e, he, rfl⟩
  have := (hc.tab.mem_iff).1 hm
  unfold tableOf at this
  rw [List.mem_map] at this
  obtain ⟨n, hn, heq⟩ := this
  simp only [Prod.mk.injEq] at heq
  exact ⟨n, hn, heq.1.symm, heq.2.symm⟩

/-- every node of the list is stored in the hash table under its key pointer -/
theorem entry_of_node (hc : Coupled h s xs) {n : NodeId} (hn : n ∈ xs) :
    ∃ e ∈ HashTable.entries s.ht.slots, e.key = hk (s.nodeKey n) ∧ e.val = some n := by
  have hm : (hk (s.nodeKey n), some n) ∈ tableOf s xs := List.mem_map.2 ⟨n, hn, rfl⟩
  obtain ⟨e, he, heq⟩ := Proofs.C02.mem_contents.1 ((hc.tab.mem_iff).2 hm)
  simp only [Prod.mk.injEq] at heq
  exact ⟨e, he, heq.1.symm, heq.2.symm⟩

theorem uniq (hc : Coupled h s xs) : Uniq (abs s xs) := by
  have := Proofs.C02.specOk_of_abs hc.inv.1 hc.tab
  unfold Proofs.C02.SpecOk tableOf at this
  rw [List.pairwise_map] at this
  unfold Uniq abs
  rw [List.pairwise_map]
  refine this.imp ?_
  intro a b hab heq
  apply hab
  simp only [hk_id]
  simp only at heq
  rw [heq]

/-- no stored key equal to `key` ⇒ the abstract lookup misses -/
theorem lookup_none_of (hc : Coupled h s xs) {key : Lht.Key}
    (hm : ∀ e ∈ HashTable.entries s.ht.slots, e.key.id ≠ (hk key).id) :
    lookup (abs s xs) key.ident = none := by
  rw [lookup_none]
  intro e he
  obtain ⟨n, hn, rfl⟩ := mem_abs.1 he
  obtain ⟨e', he', hk', _⟩ := hc.entry_of_node hn
  have := hm e' he'
  rw [hk', hk_id, hk_id] at this
  exact fun heq => this (by simp only at heq; rw [heq])

/-- a stored entry equal to `key` ⇒ its node, and the abstract lookup finds that node's pair -/
theorem lookup_some_of (hc : Coupled h s xs) {key : Lht.Key} {e : HashTable.Entry}
    (he : e ∈ HashTable.entries s.ht.slots) (hid : e.key.id = (hk key).id) :
    ∃ n ∈ xs, e.key = hk (s.nodeKey n) ∧ e.val = some n ∧ (s.nodeKey n).ident = key.ident ∧
      lookup (abs s xs) key.ident = some (s.nodeKey n, s.nodeVal n) := by
  obtain ⟨n, hn, h1, h2⟩ := hc.node_of_entry he
  have hi : (s.nodeKey n).ident = key.ident := by
    rw [h1, hk_id, hk_id] at hid; exact Option.some.inj hid
  refine ⟨n, hn, h1, h2, hi, ?_⟩
  have := lookup_of_mem hc.uniq (e := (s.nodeKey n, s.nodeVal n)) (mem_abs.2 ⟨n, hn, rfl⟩)
  simp only at this
  rw [← hi]; exact this

end Coupled

/-- deleting the identity of a member leaves the rest, in order -/
theorem refDel_mid {a b : List Lht.Entry} {e : Lht.Entry} (hu : Uniq (a ++ e :: b)) :
    refDel (a ++ e :: b) e.1.ident = a ++ b := by
  unfold Uniq at hu
  rw [List.pairwise_append] at hu
  obtain ⟨_, h2, h3⟩ := hu
  rw [refDel_append, refDel_head h2]
  rw [refDel_of_absent]
  intro x hx
  exact h3 x hx e (by simp)

theorem perm_mid_tableOf (s : State) (ys zs : List NodeId) (n : NodeId) :
    (tableOf s (ys ++ n :: zs)).Perm ((hk (s.nodeKey n), some n) :: tableOf s (ys ++ zs)) := by
  unfold tableOf
  rw [List.map_append, List.map_cons, List.map_append]
  exact List.perm_middle

/-- the key / value store changed only at `n`, which is not among `ys` -/
theorem abs_frame {s s' : State} {ys : List NodeId} {n : NodeId} (hn : n ∉ ys)
    (hk' : ∀ m, m ≠ n → s'.nodeKey m = s.nodeKey m) (hv' : ∀ m, m ≠ n → s'.nodeVal m = s.nodeVal m) :
    abs s' ys = abs s ys ∧ tableOf s' ys = tableOf s ys := by
  constructor
  · unfold abs
    apply List.map_congr_left
    intro m hm
    have : m ≠ n := fun h => hn (h ▸ hm)
    rw [hk' m this, hv' m this]
  · unfold tableOf
    apply List.map_congr_left
    intro m hm
    have : m ≠ n := fun h => hn (h ▸ hm)
    rw [hk' m this]

/-- a fresh id is outside the chain -/
theorem fresh_notin {s : State} {xs : List NodeId} (hf : ∀ m ∈ chainOf s.list xs, m < s.next) :
    s.next ∉ chainOf s.list xs := fun hm => Nat.lt_irrefl _ (hf _ hm)

theorem chain_sub_mid {l : LinkedList.LL} {ys zs : List NodeId} {x m : NodeId} (hm : m ∈ chainOf l (ys ++ zs)) :
    m ∈ chainOf l (ys ++ x :: zs) := by
  simp only [chainOf, List.cons_append, List.mem_cons, List.mem_append] at hm ⊢
  rcases hm with h | (h | h) | h
  · exact Or.inl h
  · exact Or.inr (Or.inl (Or.inl h))
  · exact Or.inr (Or.inl (Or.inr (Or.inr h)))
  · exact Or.inr (Or.inr h)

end AwsVerif.LhtImpl
