import AwsVerif.Proofs.C18.Step
/-! The bare table follows the reference ordered map step by step, and its iteration order is the
order of the surviving insertions of the history. -/
namespace AwsVerif.Lht

/-- one call on a bare linked hash table = one step of the reference ordered map -/
theorem step_ref {c : Cache} (hi : CInv c) (hp : c.policy = .none) (op : Op) :
    (c.step op).1.table.entries = refStep c.table.entries op := by
  cases op with
  | put k v =>
    have := Cache.put_no_evict hi k v (Or.inl hp)
    show (c.put k v).1.table.entries = _
    rw [this.1, Table.put_entries hi.uniq]; rfl
  | find i => rw [Cache.step_find_other (by simp [hp])]; rfl
  | findMove i => exact Table.findMove_entries hi.uniq i
  | moveToEnd i => exact Table.findMove_entries hi.uniq i
  | remove i => exact Table.remove_entries hi.uniq i
  | clear => rfl
  | useLru =>
    cases hes : c.table.entries with
    | nil => rw [Cache.step_useLru_nil hes, hes]; rfl
    | cons e rest => rw [Cache.step_useLru_cons hes]; rfl
  | getMru => rfl

theorem run_ref : ∀ (ops : List Op) {c : Cache}, CInv c → c.policy = .none →
    (run c ops).table.entries = ops.foldl refStep c.table.entries
  | [], _, _, _ => rfl
  | op :: ops, c, hi, hp => by
    show (run (c.step op).1 ops).table.entries = ops.foldl refStep (refStep c.table.entries op)
    rw [run_ref ops (Cache.step_inv hi op) ((Cache.step_cfg c op).1.trans hp), step_ref hi hp]

/-- entries of `es` not displaced by the history `ops` -/
def kept (ops : List Op) (es : List Entry) : List Entry :=
  es.filter (fun e => !(ops.any (displaces e.1.ident)))

theorem kept_nil_ops (es : List Entry) : kept [] es = es := by
  simp [kept]

theorem kept_append (ops : List Op) (a b : List Entry) : kept ops (a ++ b) = kept ops a ++ kept ops b := by
  unfold kept; exact List.filter_append _ _

theorem kept_cons_refDel (op : Op) (ops : List Op) (es : List Entry) (j : Nat)
    (h : ∀ i, displaces i op = (j == i)) : kept (op :: ops) es = kept ops (refDel es j) := by
  unfold kept refDel
  rw [List.filter_filter]
  congr 1
  funext e
  simp only [List.any_cons, h]
  by_cases hj : j = e.1.ident
  · subst hj; simp
  · have h1 : (j == e.1.ident) = false := by simpa using hj
    have h2 : (e.1.ident != j) = true := by simpa using fun h => hj h.symm
    simp [h1, h2]

theorem kept_cons_skip (op : Op) (ops : List Op) (es : List Entry)
    (h : ∀ i, displaces i op = false) : kept (op :: ops) es = kept ops es := by
  unfold kept
  congr 1
  funext e
  simp [List.any_cons, h]

theorem ref_history : ∀ (ops : List Op), (∀ op ∈ ops, ApiOp op) → ∀ (es : List Entry),
    ops.foldl refStep es = kept ops es ++ survivors ops
  | [], _, es => by simp [kept_nil_ops, survivors]
  | op :: ops, hapi, es => by
    have ih := ref_history ops (fun o ho => hapi o (List.mem_cons_of_mem _ ho))
    have hop := hapi op (List.mem_cons_self)
    show ops.foldl refStep (refStep es op) = _
    rw [ih]
    cases op with
    | put k v =>
      show kept ops (refDel es k.ident ++ [(k, v)]) ++ survivors ops = _
      rw [kept_append, kept_cons_refDel (.put k v) ops es k.ident (fun i => rfl)]
      by_cases hd : ops.any (displaces k.ident) = true
      · simp [survivors, hd, kept]
      · simp [survivors, hd, kept]
    | find i => rw [kept_cons_skip _ _ _ (fun _ => rfl)]; rfl
    | remove j =>
      show kept ops (refDel es j) ++ survivors ops = _
      rw [kept_cons_refDel (.remove j) ops es j (fun i => rfl)]; rfl
    | clear =>
      show kept ops [] ++ survivors ops = _
      have : kept (Op.clear :: ops) es = [] := by simp [kept, displaces]
      rw [this]; rfl
    | getMru => rw [kept_cons_skip _ _ _ (fun _ => rfl)]; rfl
    | findMove i => exact absurd hop (by simp [ApiOp])
    | moveToEnd i => exact absurd hop (by simp [ApiOp])
    | useLru => exact absurd hop (by simp [ApiOp])

end AwsVerif.Lht
