import AwsVerif.Proofs.C18.ImplInv
import AwsVerif.Proofs.C02.Ops
/-!
Each call of the implemented linked hash table, started in a coupled state, is the abstract call:
find, find-and-move-to-back, move-node-to-end, remove.  The hash-table facts come from C02
(`find_spec`, `find_none`, `remove_spec`), the pointer surgery from C09 (`ll_remove`, `ll_pushBack`).
-/
namespace AwsVerif.LhtImpl
open AwsVerif AwsVerif.Lht AwsVerif.Proofs.C09

/-- a member of a well-linked list is not in the chain of the others -/
theorem notin_chain_rest {heap : LinkedList.Heap} {l : LinkedList.LL} {ys zs : List NodeId} {n : NodeId}
    (w : WellLinked heap l (ys ++ n :: zs)) : n ∉ chainOf l (ys ++ zs) := by
  have hnd := w.nodup
  have e : l.head :: (ys ++ n :: zs) ++ [l.tail] = (l.head :: ys) ++ n :: (zs ++ [l.tail]) := by simp
  rw [e, (List.perm_middle).nodup_iff, List.nodup_cons] at hnd
  have e' : chainOf l (ys ++ zs) = (l.head :: ys) ++ (zs ++ [l.tail]) := by simp [chainOf]
  rw [e']; exact hnd.1

/-- `move_node_to_end_of_list` on a member: unlink, relink at the back -/
theorem moveNodeToEnd_spec {heap : LinkedList.Heap} {l : LinkedList.LL} {ys zs : List NodeId} {n : NodeId}
    (w : WellLinked heap l (ys ++ n :: zs)) :
    ∃ heap', moveNodeToEnd heap l n = some heap' ∧ WellLinked heap' l (ys ++ zs ++ [n]) := by
  obtain ⟨h1, hr, w1, _, _⟩ := ll_remove w
  obtain ⟨h2, hp, w2, _⟩ := ll_pushBack w1 (notin_chain_rest w)
  exact ⟨h2, by unfold moveNodeToEnd; rw [hr]; exact hp, w2⟩

theorem mem_chain_move {l : LinkedList.LL} {ys zs : List NodeId} {n m : NodeId} :
    m ∈ chainOf l (ys ++ zs ++ [n]) ↔ m ∈ chainOf l (ys ++ n :: zs) := by
  have p : (ys ++ zs ++ [n]).Perm (ys ++ n :: zs) :=
    (List.perm_append_singleton n (ys ++ zs)).trans List.perm_middle.symm
  have : (chainOf l (ys ++ zs ++ [n])).Perm (chainOf l (ys ++ n :: zs)) := by
    simp only [chainOf, List.cons_append]
    exact List.Perm.cons _ (p.append_right _)
  exact this.mem_iff

/-- moving a member to the back keeps the coupling (only the list heap changes) -/
theorem Coupled.move {h : Nat → Nat} {s : State} {ys zs : List NodeId} {n : NodeId}
    (hc : Coupled h s (ys ++ n :: zs)) {heap' : LinkedList.Heap} (w' : WellLinked heap' s.list (ys ++ zs ++ [n])) :
    Coupled h { s with heap := heap' } (ys ++ zs ++ [n]) ∧
    abs { s with heap := heap' } (ys ++ zs ++ [n]) =
      refDel (abs s (ys ++ n :: zs)) (s.nodeKey n).ident ++ [(s.nodeKey n, s.nodeVal n)] := by
  refine ⟨⟨hc.inv, w', hc.dv, hc.dk, ?_, ?_⟩, ?_⟩
  · refine hc.tab.trans ?_
    show (tableOf s (ys ++ n :: zs)).Perm (tableOf s (ys ++ zs ++ [n]))
    refine (perm_mid_tableOf s ys zs n).trans ?_
    rw [tableOf_append s (ys ++ zs) [n]]
    exact (List.perm_append_singleton _ _).symm
  · intro m hm
    exact hc.fresh m (mem_chain_move.1 hm)
  · show abs s (ys ++ zs ++ [n]) = _
    have hu := hc.uniq
    rw [abs_append s ys (n :: zs)] at hu ⊢
    have : abs s (n :: zs) = (s.nodeKey n, s.nodeVal n) :: abs s zs := rfl
    rw [this] at hu ⊢
    rw [refDel_mid (e := (s.nodeKey n, s.nodeVal n)) hu, abs_append, abs_append]
    rfl

/-! ### find -/

theorem find_refines {h : Nat → Nat} {s : State} {xs : List NodeId} (hc : Coupled h s xs) (p : Lht.Key) :
    find h s p = .ok s ((absTable s xs).find p.ident) [] := by
  unfold find Table.find
  cases hf : HashTable.find h s.ht (hk p) with
  | none =>
    have := hc.lookup_none_of ((Proofs.C02.find_none hc.inv (hk p)).1 hf)
    simp only [absTable, this, Option.map_none]
  | some kv =>
    obtain ⟨e, he, hid, rfl⟩ := (Proofs.C02.find_spec hc.inv (hk p) kv).1 hf
    obtain ⟨n, _, _, h2, _, hl⟩ := hc.lookup_some_of he hid
    simp only [h2, absTable, hl, Option.map_some]

/-! ### find_and_move_to_back -/

theorem findMove_refines {h : Nat → Nat} {s : State} {xs : List NodeId} (hc : Coupled h s xs) (p : Lht.Key) :
    ∃ s' xs', findMove h s p = .ok s' ((absTable s xs).findMove p.ident).2 [] ∧ Coupled h s' xs' ∧
      absTable s' xs' = ((absTable s xs).findMove p.ident).1 := by
  unfold findMove
  cases hf : HashTable.find h s.ht (hk p) with
  | none =>
    have hl := hc.lookup_none_of ((Proofs.C02.find_none hc.inv (hk p)).1 hf)
    have : (absTable s xs).findMove p.ident = (absTable s xs, none) := Table.findMove_none hl
    exact ⟨s, xs, by rw [this], hc, by rw [this]⟩
  | some kv =>
    obtain ⟨e, he, hid, rfl⟩ := (Proofs.C02.find_spec hc.inv (hk p) kv).1 hf
    obtain ⟨n, hn, _, h2, hi, hl⟩ := hc.lookup_some_of he hid
    obtain ⟨ys, zs, rfl⟩ := List.append_of_mem hn
    obtain ⟨heap', hm, w'⟩ := moveNodeToEnd_spec hc.wl
    have hfm : (absTable s (ys ++ n :: zs)).findMove p.ident = _ := Table.findMove_some hl
    obtain ⟨c1, c2⟩ := hc.move w'
    refine ⟨{ s with heap := heap' }, ys ++ zs ++ [n], ?_, c1, ?_⟩
    · simp only [h2, hm, hfm]
    · rw [hfm]
      simp only [absTable, c2, erase_eq_refDel hc.uniq, hi]

/-! ### move_node_to_end_of_list (on a node of the list) -/

theorem moveToEnd_refines {h : Nat → Nat} {s : State} {xs : List NodeId} (hc : Coupled h s xs) {n : NodeId}
    (hn : n ∈ xs) :
    ∃ s' xs', moveToEnd s n = .ok s' () [] ∧ Coupled h s' xs' ∧
      absTable s' xs' = (absTable s xs).moveToEnd (s.nodeKey n).ident := by
  obtain ⟨ys, zs, rfl⟩ := List.append_of_mem hn
  obtain ⟨heap', hm, w'⟩ := moveNodeToEnd_spec hc.wl
  obtain ⟨c1, c2⟩ := hc.move w'
  have hl : lookup (abs s (ys ++ n :: zs)) (s.nodeKey n).ident = some (s.nodeKey n, s.nodeVal n) :=
    lookup_of_mem hc.uniq (e := (s.nodeKey n, s.nodeVal n)) (mem_abs.2 ⟨n, hn, rfl⟩)
  refine ⟨{ s with heap := heap' }, ys ++ zs ++ [n], by unfold moveToEnd; rw [hm], c1, ?_⟩
  unfold Table.moveToEnd
  rw [Table.findMove_some (t := absTable s (ys ++ n :: zs)) hl]
  simp only [absTable, c2, erase_eq_refDel hc.uniq]

/-! ### remove -/

theorem remove_refines {h : Nat → Nat} {s : State} {xs : List NodeId} (hc : Coupled h s xs) (p : Lht.Key) :
    ∃ s' xs', remove h s p = .ok s' () ((absTable s xs).remove p.ident).2 ∧ Coupled h s' xs' ∧
      absTable s' xs' = ((absTable s xs).remove p.ident).1 := by
  unfold remove
  obtain ⟨r, hr, hinv', hdk, hdv, hcase⟩ := Proofs.C02.remove_spec hc.inv (hk p) false
  rw [hr]
  rcases hcase with ⟨_, htab, _, hlog, hmiss⟩ | ⟨_, e, hid, hperm, _, hlog⟩
  · have hl := hc.lookup_none_of hmiss
    have hrm : (absTable s xs).remove p.ident = (absTable s xs, []) := Table.remove_none hl
    simp only [hlog, callbacks]
    refine ⟨{ s with ht := r.table, heap := s.heap }, xs, by rw [hrm], ?_, by rw [hrm]; rfl⟩
    exact ⟨by simp only [htab]; exact hc.inv, hc.wl, by simp only [htab]; exact hc.dv,
      by simp only [htab]; exact hc.dk, by simp only [htab]; exact hc.tab, hc.fresh⟩
  · have he : e ∈ HashTable.entries s.ht.slots := hperm.mem_iff.2 (List.mem_cons_self)
    obtain ⟨n, hn, h1, h2, hi, hl⟩ := hc.lookup_some_of he hid
    obtain ⟨ys, zs, rfl⟩ := List.append_of_mem hn
    obtain ⟨heap1, hrem, w1, _, _⟩ := ll_remove hc.wl
    have hrm : (absTable s (ys ++ n :: zs)).remove p.ident = _ := Table.remove_some hl
    have hcb : callbacks s s.heap r.log =
        some (heap1, (absTable s (ys ++ n :: zs)).kev (s.nodeKey n) ++ (absTable s (ys ++ n :: zs)).vev (s.nodeVal n)) := by
      rw [hlog]
      unfold HashTable.destroyLog
      rw [hc.dv, hc.dk, h1, h2]
      cases hkd : s.keyDtor <;>
        simp [callbacks, elementDestroy, hrem, Table.kev, Table.vev, absTable, hkd, unHk_hk]
    simp only [hcb]
    refine ⟨{ s with ht := r.table, heap := heap1 }, ys ++ zs, by rw [hrm], ?_, ?_⟩
    · refine ⟨hinv', w1, by simp only; rw [hdv]; exact hc.dv, by simp only; rw [hdk]; exact hc.dk, ?_, ?_⟩
      · show (HashTable.contents r.table).Perm (tableOf s (ys ++ zs))
        have p1 : (HashTable.contents s.ht).Perm ((e.key, e.val) :: HashTable.contents r.table) := by
          rw [Proofs.C02.contents_eq, Proofs.C02.contents_eq]
          exact hperm.map Proofs.C02.kvOf
        have p2 := hc.tab.symm.trans p1
        have p3 := (perm_mid_tableOf s ys zs n).symm.trans p2
        rw [h1, h2] at p3
        exact (List.Perm.cons_inv p3).symm
      · intro m hm
        exact hc.fresh m (chain_sub_mid hm)
    · rw [hrm]
      simp only [absTable, erase_eq_refDel hc.uniq]
      have hu := hc.uniq
      rw [abs_append s ys (n :: zs)] at hu ⊢
      have : abs s (n :: zs) = (s.nodeKey n, s.nodeVal n) :: abs s zs := rfl
      rw [this] at hu ⊢
      rw [← hi, refDel_mid (e := (s.nodeKey n, s.nodeVal n)) hu, abs_append]
      rfl

end AwsVerif.LhtImpl
