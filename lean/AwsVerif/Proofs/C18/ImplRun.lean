import AwsVerif.Proofs.C18.ImplPut
import AwsVerif.Proofs.C02.Init
import AwsVerif.Proofs.C09.LLObs
/-!
The implemented linked hash table refines the abstract one: initialisation, one call, whole
histories; and the real iteration (walking `table->list`) yields the abstract entry list.
-/
namespace AwsVerif.LhtImpl
open AwsVerif AwsVerif.Lht AwsVerif.Proofs.C09

/-- the abstract table wrapped as a cache that never evicts (a bare linked hash table) -/
def bare (max : Nat) (t : Lht.Table) : Cache := { policy := .none, max := max, table := t }

theorem bare_step_put (max : Nat) (t : Lht.Table) (k : Lht.Key) (v : Nat) :
    (bare max t).step (.put k v) = (bare max (t.put k v).1, none, (t.put k v).2) := by
  simp [Cache.step, Cache.put, bare]

theorem bare_step_find (max : Nat) (t : Lht.Table) (i : Nat) :
    (bare max t).step (.find i) = (bare max t, t.find i, []) :=
  Cache.step_find_other (c := bare max t) (by simp [bare]) i

/-- `aws_linked_hash_table_init` establishes the coupling with the empty abstract table -/
theorem init_coupled (h : Nat → Nat) {size : Nat} {kd vd : Bool} {s : State} (hi : init size kd vd = .ok s) :
    Coupled h s [] ∧ absTable s [] = { entries := [], keyDtor := kd, valDtor := vd } := by
  unfold init at hi
  cases ht : HashTable.init size kd true with
  | error e => rw [ht] at hi; cases hi
  | ok t =>
    rw [ht] at hi
    cases hi
    obtain ⟨hinv, hnil⟩ := Proofs.C02.init_inv h ht
    have hd : t.dk = kd ∧ t.dv = true := by
      unfold HashTable.init at ht
      split at ht
      · cases ht
      · obtain ⟨_, _, _, _, _, a6, a7⟩ := Proofs.C02.allocState_spec ht
        exact ⟨a6, a7⟩
    have hw := (ll_init (h := LinkedList.emptyHeap) (l := (⟨0, 1⟩ : LinkedList.LL)) (by decide)).1
    refine ⟨⟨hinv, hw, hd.2, hd.1, ?_, ?_⟩, rfl⟩
    · rw [Proofs.C02.contents_eq, hnil]; exact List.Perm.refl _
    · intro m hm
      simp only [chainOf, List.nil_append, List.cons_append, List.mem_cons, List.not_mem_nil, or_false] at hm
      show m < 2
      rcases hm with h1 | h1 <;> (rw [h1]; decide)

/-- outcome of an implemented call refines the outcome `a` of the abstract call -/
def Refines (h : Nat → Nat) (xs : List NodeId) (s : State) (isPut isClear : Bool) (o : Out (Option Nat))
    (a : Cache × Option Nat × List Lht.Ev) : Prop :=
  match o with
  | .crash => False
  | .err s' => isPut = true ∧ Coupled h s' xs ∧ absTable s' xs = absTable s xs
  | .ok s' r evs =>
    ∃ xs', Coupled h s' xs' ∧ absTable s' xs' = a.1.table ∧ r = a.2.1 ∧ evs.Perm a.2.2 ∧ (isClear = false → evs = a.2.2)

def IOp.isPut : IOp → Bool
  | .put _ _ => true
  | _ => false

def IOp.isClear : IOp → Bool
  | .clear => true
  | _ => false

/-- every implemented call, from a coupled state, is the abstract call (or `put` reports the
hash table's size overflow and nothing changed); it never dereferences NULL -/
theorem step_refines {h : Nat → Nat} {s : State} {xs : List NodeId} (hc : Coupled h s xs) (max : Nat) (op : IOp) :
    Refines h xs s op.isPut op.isClear (step h s op) ((bare max (absTable s xs)).step op.abs) := by
  cases op with
  | put k v =>
    simp only [step, IOp.abs, bare_step_put]
    rcases put_refines hc k v with ⟨s', h1, h2, h3⟩ | ⟨s', xs', h1, h2, h3⟩
    · rw [h1]; exact ⟨rfl, h2, h3⟩
    · rw [h1]; exact ⟨xs', h2, h3, rfl, List.Perm.refl _, fun _ => rfl⟩
  | find p =>
    simp only [step, IOp.abs, bare_step_find, find_refines hc p]
    exact ⟨xs, hc, rfl, rfl, List.Perm.refl _, fun _ => rfl⟩
  | findMove p =>
    obtain ⟨s', xs', h1, h2, h3⟩ := findMove_refines hc p
    simp only [step, IOp.abs, h1]
    exact ⟨xs', h2, h3, rfl, List.Perm.refl _, fun _ => rfl⟩
  | remove p =>
    obtain ⟨s', xs', h1, h2, h3⟩ := remove_refines hc p
    simp only [step, IOp.abs, h1]
    exact ⟨xs', h2, h3, rfl, List.Perm.refl _, fun _ => rfl⟩
  | clear =>
    obtain ⟨s', evs, h1, h2, h3, h4⟩ := clear_refines hc
    simp only [step, IOp.abs, h1]
    exact ⟨[], h3, h4, rfl, h2, fun hh => by cases hh⟩

/-! ### whole histories -/

/-- run a history; stops at the first error -/
def runImpl (h : Nat → Nat) : State → List IOp → Out (List (Option Nat))
  | s, [] => .ok s [] []
  | s, op :: ops =>
    match step h s op with
    | .crash => .crash
    | .err s' => .err s'
    | .ok s1 r e1 =>
      match runImpl h s1 ops with
      | .crash => .crash
      | .err s' => .err s'
      | .ok s2 rs e2 => .ok s2 (r :: rs) (e1 ++ e2)

theorem run_refines {h : Nat → Nat} (max : Nat) : ∀ (ops : List IOp) {s : State} {xs : List NodeId}, Coupled h s xs →
    match runImpl h s ops with
    | .crash => False
    | .err _ => True
    | .ok s' rs evs =>
      ∃ xs', Coupled h s' xs' ∧
        absTable s' xs' = (runAll (bare max (absTable s xs)) (ops.map IOp.abs)).1.table ∧
        rs = (runAll (bare max (absTable s xs)) (ops.map IOp.abs)).2.1 ∧
        evs.Perm (runAll (bare max (absTable s xs)) (ops.map IOp.abs)).2.2
  | [], s, xs, hc => ⟨xs, hc, rfl, rfl, List.Perm.refl _⟩
  | op :: ops, s, xs, hc => by
    have h1 := step_refines hc max op
    cases hs : step h s op with
    | crash => rw [hs] at h1; exact absurd h1 (by simp [Refines])
    | err s' => simp only [runImpl, hs]
    | ok s1 r e1 =>
      rw [hs] at h1
      obtain ⟨xs1, c1, a1, r1, p1, _⟩ := h1
      have ih := run_refines max ops c1
      have hcfg := Cache.step_cfg (bare max (absTable s xs)) op.abs
      have hb : ((bare max (absTable s xs)).step op.abs).1 = bare max (absTable s1 xs1) := by
        cases hx : ((bare max (absTable s xs)).step op.abs).1 with
        | mk pol mx tb =>
          rw [hx] at hcfg a1
          obtain ⟨g1, g2, _, _⟩ := hcfg
          simp only [bare] at g1 g2 a1 ⊢
          subst g1 g2
          rw [a1]
      cases hr : runImpl h s1 ops with
      | crash => rw [hr] at ih; exact absurd ih (by simp)
      | err s' => simp only [runImpl, hs, hr]
      | ok s2 rs e2 =>
        rw [hr] at ih
        obtain ⟨xs2, c2, a2, r2, p2⟩ := ih
        simp only [runImpl, hs, hr, List.map_cons, runAll, hb]
        exact ⟨xs2, c2, a2, by rw [r1, r2], p1.append p2⟩

/-- iterating the real list of a coupled state reads off the abstract entry list -/
theorem iterate_coupled {h : Nat → Nat} {s : State} {xs : List NodeId} (hc : Coupled h s xs) {fuel : Nat}
    (hf : xs.length + 1 ≤ fuel) : iterate s fuel = some (abs s xs) := by
  unfold iterate
  rw [toList_wl hc.wl hf]
  rfl

/-- `aws_linked_hash_table_get_element_count` is the abstract count -/
theorem count_coupled {h : Nat → Nat} {s : State} {xs : List NodeId} (hc : Coupled h s xs) :
    count s = (absTable s xs).count := by
  unfold count Table.count
  rw [hc.inv.1.count, ← List.length_map (f := Proofs.C02.kvOf), ← Proofs.C02.contents_eq, hc.tab.length_eq]
  simp [tableOf, absTable, abs]

end AwsVerif.LhtImpl
