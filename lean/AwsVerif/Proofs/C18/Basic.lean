import AwsVerif.Proofs.C18.Spec
/-! List facts about `lookup`, `erase`, `refDel` under unique identities. -/
namespace AwsVerif.Lht

theorem lookup_some {es : List Entry} {i : Nat} {e : Entry} (h : lookup es i = some e) :
    e ∈ es ∧ e.1.ident = i := by
  refine ⟨List.mem_of_find?_eq_some h, ?_⟩
  have := List.find?_some h
  simpa using this

theorem lookup_none {es : List Entry} {i : Nat} : lookup es i = none ↔ ∀ e ∈ es, e.1.ident ≠ i := by
  unfold lookup
  rw [List.find?_eq_none]
  simp

theorem mem_refDel {es : List Entry} {i : Nat} {e : Entry} : e ∈ refDel es i ↔ e ∈ es ∧ e.1.ident ≠ i := by
  simp [refDel]

theorem refDel_of_absent {es : List Entry} {i : Nat} (h : ∀ e ∈ es, e.1.ident ≠ i) : refDel es i = es := by
  unfold refDel
  rw [List.filter_eq_self]
  intro a ha
  simpa using h a ha

theorem Uniq.refDel {es : List Entry} (h : Uniq es) (i : Nat) : Uniq (refDel es i) :=
  List.Pairwise.filter _ h

theorem Uniq.snoc {es : List Entry} (h : Uniq es) {x : Entry} (hx : ∀ e ∈ es, e.1.ident ≠ x.1.ident) :
    Uniq (es ++ [x]) := by
  unfold Uniq
  rw [List.pairwise_append]
  refine ⟨h, List.pairwise_singleton _ _, ?_⟩
  intro a ha b hb
  rw [List.mem_singleton] at hb
  subst hb
  exact hx a ha

theorem Uniq.refPut {es : List Entry} (h : Uniq es) (k : Key) (v : Nat) : Uniq (refPut es k v) := by
  apply (h.refDel k.ident).snoc
  intro e he
  exact (mem_refDel.mp he).2

theorem Uniq.tail {e : Entry} {es : List Entry} (h : Uniq (e :: es)) : Uniq es := (List.pairwise_cons.mp h).2

theorem Uniq.head_ne {e : Entry} {es : List Entry} (h : Uniq (e :: es)) : ∀ x ∈ es, x.1.ident ≠ e.1.ident := by
  intro x hx
  exact fun heq => (List.pairwise_cons.mp h).1 x hx heq.symm

theorem refDel_head {e : Entry} {es : List Entry} (h : Uniq (e :: es)) : refDel (e :: es) e.1.ident = es := by
  unfold AwsVerif.Lht.refDel
  rw [List.filter_cons]
  simp only [bne_self_eq_false, Bool.false_eq_true, if_false]
  exact refDel_of_absent h.head_ne

/-- under unique identities unlinking the one node found is deleting the identity -/
theorem erase_eq_refDel : ∀ {es : List Entry}, Uniq es → ∀ i, erase es i = refDel es i
  | [], _, _ => rfl
  | a :: r, h, i => by
    unfold erase
    rw [List.eraseP_cons]
    by_cases hp : a.1.ident = i
    · subst hp
      simp only [beq_self_eq_true, cond_true]
      exact (refDel_head h).symm
    · have hb : (a.1.ident == i) = false := by simpa using hp
      simp only [hb, cond_false]
      have ih := erase_eq_refDel h.tail i
      unfold erase at ih
      rw [ih]
      unfold refDel
      rw [List.filter_cons]
      simp [hp]

theorem perm_refDel : ∀ {es : List Entry}, Uniq es → ∀ {i : Nat} {e : Entry}, lookup es i = some e →
    es.Perm (e :: refDel es i)
  | [], _, _, _, h => by simp [lookup] at h
  | a :: r, hu, i, e, h => by
    unfold lookup at h
    rw [List.find?_cons] at h
    by_cases hp : a.1.ident = i
    · subst hp
      simp only [beq_self_eq_true] at h
      cases h
      rw [refDel_head hu]
    · have hb : (a.1.ident == i) = false := by simpa using hp
      simp only [hb] at h
      have ih := perm_refDel hu.tail (i := i) (e := e) h
      have : refDel (a :: r) i = a :: refDel r i := by
        unfold refDel; rw [List.filter_cons]; simp [hp]
      rw [this]
      exact (List.Perm.cons a ih).trans (List.Perm.swap e a _)

theorem length_refDel {es : List Entry} (hu : Uniq es) {i : Nat} {e : Entry} (h : lookup es i = some e) :
    es.length = (refDel es i).length + 1 := by
  have := (perm_refDel hu h).length_eq
  simpa using this

theorem lookup_refDel_self (es : List Entry) (i : Nat) : lookup (refDel es i) i = none := by
  rw [lookup_none]
  intro e he
  exact (mem_refDel.mp he).2

theorem lookup_append (a b : List Entry) (i : Nat) : lookup (a ++ b) i = (lookup a i).or (lookup b i) := by
  unfold lookup; exact List.find?_append

theorem lookup_refPut (es : List Entry) (k : Key) (v : Nat) : lookup (refPut es k v) k.ident = some (k, v) := by
  unfold refPut
  rw [lookup_append, lookup_refDel_self]
  simp [lookup]

/-- a member of a list with unique identities is what `lookup` finds -/
theorem lookup_of_mem : ∀ {es : List Entry}, Uniq es → ∀ {e : Entry}, e ∈ es → lookup es e.1.ident = some e
  | [], _, _, h => by simp at h
  | a :: r, hu, e, h => by
    unfold lookup
    rw [List.find?_cons]
    rcases List.mem_cons.mp h with rfl | h'
    · simp
    · have hne : a.1.ident ≠ e.1.ident := fun heq => hu.head_ne e h' heq.symm
      have hb : (a.1.ident == e.1.ident) = false := by simpa using hne
      simp only [hb]
      exact lookup_of_mem hu.tail h'

theorem refDel_append (a b : List Entry) (i : Nat) : refDel (a ++ b) i = refDel a i ++ refDel b i := by
  unfold refDel; exact List.filter_append _ _

theorem refDel_comm (es : List Entry) (i j : Nat) : refDel (refDel es i) j = refDel (refDel es j) i := by
  unfold refDel
  rw [List.filter_filter, List.filter_filter]
  congr 1
  funext a
  exact Bool.and_comm _ _

end AwsVerif.Lht
