import AwsVerif.Model.Ring
/-! Frame condition of the two acquire forms: a refused request changes neither the ring nor `*dest`. -/
namespace AwsVerif.Proofs.C15
open AwsVerif.Ring

theorem vend_ok (r : Ring) (off len : Nat) (rt : Bool) : (vend r off len rt).2 = .ok off len := rfl

/-- a refusing `aws_ring_buffer_acquire` leaves the ring as it was (any state, any stale tail) -/
theorem acquireWith_refused (r : Ring) (t req : Nat) (h : ∀ o l, (acquireWith r t req).2 ≠ .ok o l) :
    (acquireWith r t req).1 = r := by
  revert h
  simp only [acquireWith]
  repeat' split
  all_goals first
    | (intro _; rfl)
    | (intro h; exact absurd (vend_ok _ _ _ _) (h _ _))

/-- a refusing `aws_ring_buffer_acquire_up_to` leaves the ring as it was -/
theorem acquireUpToWith_refused (r : Ring) (t m req : Nat) (h : ∀ o l, (acquireUpToWith r t m req).2 ≠ .ok o l) :
    (acquireUpToWith r t m req).1 = r := by
  revert h
  simp only [acquireUpToWith]
  repeat' split
  all_goals first
    | (intro _; rfl)
    | (intro h; exact absurd (vend_ok _ _ _ _) (h _ _))

theorem writeDest_refused (d : Dest) (res : Res) (h : ∀ o l, res ≠ .ok o l) : writeDest d res = d := by
  cases res with
  | ok o l => exact absurd rfl (h o l)
  | oom => rfl
  | invalid => rfl

end AwsVerif.Proofs.C15
