import AwsVerif.Proofs.C15.Reach
import AwsVerif.Gen.RingValid
/-! The library's own validity predicate (`aws_ring_buffer_is_valid`, generated from
`ring_buffer.inl`) holds in every state satisfying the shape invariant. -/
namespace AwsVerif.Proofs.C15
open AwsVerif.Ring

/-- the model ring placed at address `base` (`self` = address of the struct, `alloc` = its allocator) -/
def rbOf (r : Ring) (self base alloc : Nat) : AwsVerif.Gen.Ring.RB :=
  { self := self, allocation := base, allocationEnd := base + r.N, allocator := alloc,
    head := base + r.head, tail := base + r.tail }

theorem chain_lt : ∀ {l : List (Nat × Nat)} {s e : Nat}, Chain s l e → l ≠ [] → s < e
  | [], _, _, _, h => absurd rfl h
  | b :: r, s, e, h, _ => by
    obtain ⟨_, h2, h3⟩ := h
    have := chain_le h3
    omega

/-- positions stay inside `[0, N]`, and `head` at the start of the storage forces `tail` there too -/
theorem Shape.positions {r : Ring} (h : Shape r) : r.head ≤ r.N ∧ r.tail ≤ r.N ∧ (r.head = 0 → r.tail = 0) := by
  rcases h with hf | hw
  · have := hf.tail_le_head
    have := hf.2
    exact ⟨by omega, by omega, by omega⟩
  · have ht := hw.tail_le
    obtain ⟨hi, lo, e, _, _, _, hne, hlo, hlt⟩ := hw
    have := chain_lt hlo hne
    exact ⟨by omega, ht, by omega⟩

theorem isValid_of_shape {r : Ring} (h : Shape r) {self base alloc : Nat} (h1 : self ≠ 0) (h2 : base ≠ 0) (h3 : alloc ≠ 0) :
    AwsVerif.Gen.Ring.isValid (rbOf r self base alloc) = true := by
  obtain ⟨p1, p2, p3⟩ := h.positions
  have a1 : base + r.head ≠ 0 := by omega
  have a2 : base + r.tail ≠ 0 := by omega
  have a3 : base ≤ base + r.head := by omega
  have a4 : base ≤ base + r.tail := by omega
  have a5 : base + r.head ≤ base + r.N := by omega
  have a6 : base + r.tail ≤ base + r.N := by omega
  have a7 : base + r.head ≠ base ∨ base + r.tail = base := by
    by_cases hh : r.head = 0
    · right; rw [p3 hh]; rfl
    · left; omega
  simp only [AwsVerif.Gen.Ring.isValid, AwsVerif.Gen.Ring.checkAtomicPtr, rbOf]
  simp only [Bool.and_eq_true, Bool.or_eq_true, bne_iff_ne, beq_iff_eq, decide_eq_true_eq, ne_eq, ge_iff_le]
  exact ⟨⟨⟨⟨⟨h1, h2⟩, a1, a3, decide_eq_true a5⟩, a2, a4, decide_eq_true a6⟩, a7⟩, h3⟩

/-- `head = tail` exactly when nothing is outstanding -/
theorem Shape.head_eq_tail_iff {r : Ring} (h : Shape r) : r.head = r.tail ↔ r.out = [] := by
  rcases h with hf | hw
  · constructor
    · intro he
      have hc := hf.1
      rw [he] at hc
      exact chain_eq_nil hc
    · intro hn
      have hc := hf.1
      rw [hn] at hc
      exact hc.symm
  · obtain ⟨hi, lo, e, ho, _, _, hne, _, hlt⟩ := hw
    constructor
    · intro he; omega
    · intro hn
      rw [hn] at ho
      exact absurd (List.append_eq_nil_iff.mp ho.symm).2 hne

theorem isEmpty_iff_of_shape {r : Ring} (h : Shape r) (self base alloc : Nat) :
    AwsVerif.Gen.Ring.isEmpty (rbOf r self base alloc) = true ↔ r.out = [] := by
  rw [← h.head_eq_tail_iff]
  simp only [AwsVerif.Gen.Ring.isEmpty, rbOf, beq_iff_eq]
  omega

/-- the `aws_byte_buf` handle of the buffer `(off, len)` of a ring whose storage starts at `base` -/
def bufOf (base : Nat) (b : Nat × Nat) : AwsVerif.Gen.Ring.Buf := { buffer := base + b.1, capacity := b.2 }

/-- the generated `s_buf_belongs_to_pool`, for any handle whatsoever: non-NULL and inside `[allocation, allocation_end]` -/
theorem belongs_iff (r : Ring) (self base alloc : Nat) (x : AwsVerif.Gen.Ring.Buf) :
    AwsVerif.Gen.Ring.bufBelongsToPool (rbOf r self base alloc) x = true ↔
      x.buffer ≠ 0 ∧ base ≠ 0 ∧ base + r.N ≠ 0 ∧ base ≤ x.buffer ∧ x.buffer + x.capacity ≤ base + r.N := by
  simp only [AwsVerif.Gen.Ring.bufBelongsToPool, rbOf, Bool.and_eq_true, bne_iff_ne, decide_eq_true_eq, ne_eq, ge_iff_le]
  constructor
  · rintro ⟨⟨⟨⟨a, b⟩, c⟩, d⟩, e⟩; exact ⟨a, b, c, d, of_decide_eq_true e⟩
  · rintro ⟨a, b, c, d, e⟩; exact ⟨⟨⟨⟨a, b⟩, c⟩, d⟩, decide_eq_true e⟩

/-- for handles of the ring's own storage: belongs ⇔ the buffer ends inside the ring -/
theorem belongs_bufOf_iff (r : Ring) (self base alloc : Nat) (hb : base ≠ 0) (b : Nat × Nat) :
    AwsVerif.Gen.Ring.bufBelongsToPool (rbOf r self base alloc) (bufOf base b) = true ↔ b.1 + b.2 ≤ r.N := by
  rw [belongs_iff]
  simp only [bufOf]
  omega

/-- the model's `release` publishes exactly the address the C stores: `buf->buffer + buf->capacity` -/
theorem release_tail_eq (r : Ring) (base : Nat) (b : Nat × Nat) (rest : List (Nat × Nat)) (h : r.out = b :: rest) :
    base + (release r).tail = AwsVerif.Gen.Ring.releaseTail (bufOf base b) ∧ (release r).out = rest ∧
      (release r).head = r.head ∧ (release r).N = r.N := by
  obtain ⟨off, len⟩ := b
  have e : release r = { r with tail := off + len, out := rest } := by
    simp only [release, h]
  rw [e]
  refine ⟨?_, rfl, rfl, rfl⟩
  simp only [AwsVerif.Gen.Ring.releaseTail, bufOf]
  omega

end AwsVerif.Proofs.C15
