import AwsVerif.Proofs.C15.Complete
/-! The invariant holds in every state reachable by any interleaving. -/
namespace AwsVerif.Proofs.C15
open AwsVerif.Ring

theorem complete_outcome {r : Ring} {t : Nat} (hp : PInv r t) (q : Req) :
    Outcome r (match q with | .exact k => k | .upTo m k => min m k) (match q with | .exact k => k | .upTo _ k => k)
      (complete r t q) := by
  cases q with
  | exact k => exact acquireWith_outcome hp k
  | upTo m k => exact acquireUpToWith_outcome hp m k

theorem Outcome.shape {r : Ring} {lo hi : Nat} {x : Ring × Res} (h : Outcome r lo hi x) (hs : Shape r) : Shape x.1 := by
  cases h with
  | refused => exact hs
  | vended _ _ _ hs' => exact hs'

theorem Outcome.N {r : Ring} {lo hi : Nat} {x : Ring × Res} (h : Outcome r lo hi x) : x.1.N = r.N := by
  cases h <;> rfl

/-- a successful result names exactly the buffer appended to `out` -/
theorem Outcome.ok {r : Ring} {lo hi : Nat} {x : Ring × Res} (h : Outcome r lo hi x) {off len : Nat}
    (hx : x.2 = .ok off len) : x.1.out = r.out ++ [(off, len)] ∧ lo ≤ len ∧ len ≤ hi := by
  cases h with
  | refused res hne => exact absurd hx (hne off len)
  | vended o l rt _ h1 h2 =>
    simp only [vend, Res.ok.injEq] at hx
    obtain ⟨rfl, rfl⟩ := hx
    exact ⟨rfl, h1, h2⟩

theorem inv_init (n : Nat) : Inv (Sys.init n) := ⟨shape_init n, by intro t q h; cases h⟩

theorem inv_step {s : Sys} (h : Inv s) (a : Act) : Inv (step s a) := by
  obtain ⟨hs, hp⟩ := h
  cases a with
  | loadTail q =>
    unfold step
    cases hpen : s.pending with
    | none =>
      refine ⟨hs, ?_⟩
      intro t q' heq
      simp only [Option.some.injEq, Prod.mk.injEq] at heq
      rw [← heq.1]
      exact hs.loadTail
    | some p => exact ⟨hs, hp⟩
  | complete =>
    unfold step
    cases hpen : s.pending with
    | none => exact ⟨hs, hp⟩
    | some p =>
      obtain ⟨t, q⟩ := p
      have := (complete_outcome (hp t q hpen) q).shape hs
      exact ⟨this, by intro t q h; cases h⟩
  | release =>
    refine ⟨hs.release, ?_⟩
    intro t q heq
    exact (hp t q heq).release

theorem inv_run : ∀ (as : List Act) {s : Sys}, Inv s → Inv (run s as)
  | [], _, h => h
  | a :: as, _, h => inv_run as (inv_step h a)

theorem vend_N (r : Ring) (off len : Nat) (rt : Bool) : (vend r off len rt).1.N = r.N := rfl

theorem acquireWith_N (r : Ring) (t req : Nat) : (acquireWith r t req).1.N = r.N := by
  simp only [acquireWith]
  repeat' split
  all_goals rfl

theorem acquireUpToWith_N (r : Ring) (t m req : Nat) : (acquireUpToWith r t m req).1.N = r.N := by
  simp only [acquireUpToWith]
  repeat' split
  all_goals rfl

theorem complete_N (r : Ring) (t : Nat) (q : Req) : (complete r t q).1.N = r.N := by
  cases q with
  | exact k => exact acquireWith_N r t k
  | upTo m k => exact acquireUpToWith_N r t m k

theorem step_N (s : Sys) (a : Act) : (step s a).ring.N = s.ring.N := by
  cases a with
  | loadTail q => show (match s.pending with | none => _ | some _ => s).ring.N = _; split <;> rfl
  | complete =>
    show (match s.pending with | none => s | some (t, q) => _).ring.N = _
    split
    · rfl
    · exact complete_N _ _ _
  | release => exact release_N _

theorem run_N : ∀ (as : List Act) (s : Sys), (run s as).ring.N = s.ring.N
  | [], _ => rfl
  | a :: as, s => by
    show (run (step s a) as).ring.N = s.ring.N
    rw [run_N as, step_N]

theorem reach_inv (N : Nat) (as : List Act) : Inv (run (Sys.init N) as) := inv_run as (inv_init N)

theorem reach_N (N : Nat) (as : List Act) : (run (Sys.init N) as).ring.N = N := run_N as _

/-- `k` releases drop the `k` oldest buffers -/
theorem run_releases (k : Nat) : ∀ (s : Sys), (run s (List.replicate k Act.release)).ring.out = s.ring.out.drop k ∧
    (run s (List.replicate k Act.release)).pending = s.pending := by
  induction k with
  | zero => intro s; exact ⟨rfl, rfl⟩
  | succ k ih =>
    intro s
    obtain ⟨h1, h2⟩ := ih (step s .release)
    refine ⟨?_, h2⟩
    show (run (step s .release) (List.replicate k Act.release)).ring.out = _
    rw [h1]
    show (release s.ring).out.drop k = _
    rw [release_out, List.drop_drop, Nat.add_comm]

end AwsVerif.Proofs.C15
