import AwsVerif.Model.Ring
/-! Consecutive chains of buffers: the building block of the ring invariant. -/
namespace AwsVerif.Proofs.C15
open AwsVerif.Ring

/-- two buffers `(off,len)` do not share a byte -/
abbrev Disj (a b : Nat × Nat) : Prop := a.1 + a.2 ≤ b.1 ∨ b.1 + b.2 ≤ a.1

/-- `Chain s l e`: the buffers of `l` are non-empty and laid out back to back from `s` to `e`. -/
def Chain : Nat → List (Nat × Nat) → Nat → Prop
  | s, [], e => s = e
  | s, b :: r, e => b.1 = s ∧ 0 < b.2 ∧ Chain (s + b.2) r e

theorem chain_le : ∀ {l : List (Nat × Nat)} {s e : Nat}, Chain s l e → s ≤ e
  | [], s, e, h => by simp [Chain] at h; omega
  | b :: r, s, e, h => by
    obtain ⟨_, h2, h3⟩ := h
    have := chain_le h3
    omega

theorem chain_eq_nil : ∀ {l : List (Nat × Nat)} {s : Nat}, Chain s l s → l = []
  | [], _, _ => rfl
  | b :: r, s, h => by
    obtain ⟨_, h2, h3⟩ := h
    have := chain_le h3
    omega

theorem chain_snoc : ∀ {l : List (Nat × Nat)} {s e : Nat} (len : Nat), Chain s l e → 0 < len →
    Chain s (l ++ [(e, len)]) (e + len)
  | [], s, e, len, h, hl => by
    simp [Chain] at h
    subst h
    exact ⟨rfl, hl, rfl⟩
  | b :: r, s, e, len, h, hl => by
    obtain ⟨h1, h2, h3⟩ := h
    exact ⟨h1, h2, chain_snoc len h3 hl⟩

theorem chain_mem : ∀ {l : List (Nat × Nat)} {s e : Nat}, Chain s l e →
    ∀ b ∈ l, s ≤ b.1 ∧ 0 < b.2 ∧ b.1 + b.2 ≤ e
  | [], _, _, _, b, hb => by simp at hb
  | c :: r, s, e, h, b, hb => by
    obtain ⟨h1, h2, h3⟩ := h
    have hle := chain_le h3
    rcases List.mem_cons.mp hb with rfl | hb
    · omega
    · have := chain_mem h3 b hb
      omega

theorem chain_pairwise : ∀ {l : List (Nat × Nat)} {s e : Nat}, Chain s l e →
    l.Pairwise (fun a b => a.1 + a.2 ≤ b.1)
  | [], _, _, _ => List.Pairwise.nil
  | c :: r, s, e, h => by
    obtain ⟨h1, h2, h3⟩ := h
    refine List.Pairwise.cons ?_ (chain_pairwise h3)
    intro b hb
    have := chain_mem h3 b hb
    omega

theorem chain_pairwise_disj {l : List (Nat × Nat)} {s e : Nat} (h : Chain s l e) : l.Pairwise Disj :=
  (chain_pairwise h).imp (fun h => Or.inl h)

end AwsVerif.Proofs.C15
