import AwsVerif.Proofs.C15.Chain
/-! The inductive invariant of the two-thread ring system and its preservation. -/
namespace AwsVerif.Proofs.C15
open AwsVerif.Ring

/-- not wrapped: `out` is one chain from `tail` to `head` -/
def Flat (r : Ring) : Prop := Chain r.tail r.out r.head ∧ r.head ≤ r.N

/-- wrapped: `out = hi ++ lo`, `hi` a chain from `tail` staying inside the ring, `lo ≠ []` a chain
from 0 to `head`, and `head < tail` -/
def Wrapped (r : Ring) : Prop :=
  ∃ hi lo e, r.out = hi ++ lo ∧ Chain r.tail hi e ∧ e ≤ r.N ∧ lo ≠ [] ∧ Chain 0 lo r.head ∧ r.head < r.tail

def Shape (r : Ring) : Prop := Flat r ∨ Wrapped r

/-- what the acquirer may rely on between its tail load (value `t`) and its head load -/
def PInv (r : Ring) (t : Nat) : Prop :=
  t ≤ r.N ∧ (t = r.head → Flat r ∧ r.out = []) ∧
  (r.head < t → (Wrapped r ∧ t ≤ r.tail) ∨ Flat r) ∧
  (t < r.head → Flat r ∧ t ≤ r.tail)

def Inv (s : Sys) : Prop :=
  Shape s.ring ∧ ∀ t q, s.pending = some (t, q) → PInv s.ring t

/-- the safety predicate of the property -/
def Safe (r : Ring) : Prop :=
  r.out.Pairwise Disj ∧ ∀ b ∈ r.out, 0 < b.2 ∧ b.1 + b.2 ≤ r.N

theorem Flat.tail_le_head {r : Ring} (h : Flat r) : r.tail ≤ r.head := chain_le h.1

theorem Wrapped.tail_le {r : Ring} (h : Wrapped r) : r.tail ≤ r.N := by
  obtain ⟨hi, lo, e, _, h2, h3, _⟩ := h
  have := chain_le h2
  omega

theorem Shape.tail_le {r : Ring} (h : Shape r) : r.tail ≤ r.N := by
  rcases h with h | h
  · have := h.tail_le_head; have := h.2; omega
  · exact h.tail_le

theorem Flat.not_wrapped {r : Ring} (h : Flat r) : ¬ Wrapped r := by
  intro ⟨_, _, _, _, _, _, _, _, hw⟩
  have := h.tail_le_head
  omega

theorem Flat.safe {r : Ring} (h : Flat r) : Safe r := by
  refine ⟨chain_pairwise_disj h.1, ?_⟩
  intro b hb
  have := chain_mem h.1 b hb
  have := h.2
  omega

theorem Wrapped.safe {r : Ring} (h : Wrapped r) : Safe r := by
  obtain ⟨hi, lo, e, ho, hhi, he, _, hlo, hlt⟩ := h
  unfold Safe
  rw [ho]
  refine ⟨?_, ?_⟩
  · rw [List.pairwise_append]
    refine ⟨chain_pairwise_disj hhi, chain_pairwise_disj hlo, ?_⟩
    intro a ha b hb
    have := chain_mem hhi a ha
    have := chain_mem hlo b hb
    right; omega
  · intro b hb
    rcases List.mem_append.mp hb with hb | hb
    · have := chain_mem hhi b hb; omega
    · have := chain_mem hlo b hb
      have := chain_le hhi
      omega

theorem Shape.safe {r : Ring} (h : Shape r) : Safe r := h.elim Flat.safe Wrapped.safe

theorem shape_init (n : Nat) : Shape (init n) := Or.inl ⟨rfl, Nat.zero_le _⟩

/-! ### release -/

theorem release_head (r : Ring) : (release r).head = r.head := by
  unfold release; split <;> rfl

theorem release_N (r : Ring) : (release r).N = r.N := by
  unfold release; split <;> rfl

theorem release_nil {r : Ring} (h : r.out = []) : release r = r := by
  unfold release; rw [h]

theorem release_out (r : Ring) : (release r).out = r.out.drop 1 := by
  unfold release; split <;> simp_all

theorem Flat.release {r : Ring} (h : Flat r) : Flat (release r) ∧ r.tail ≤ (release r).tail := by
  obtain ⟨hc, hn⟩ := h
  unfold AwsVerif.Ring.release
  split
  · exact ⟨⟨hc, hn⟩, Nat.le_refl _⟩
  · rename_i off len rest heq
    rw [heq] at hc
    obtain ⟨h1, h2, h3⟩ := hc
    simp only at h1 h2 h3
    subst h1
    exact ⟨⟨h3, hn⟩, by simp⟩

theorem Wrapped.release {r : Ring} (h : Wrapped r) :
    (Wrapped (release r) ∧ r.tail ≤ (release r).tail) ∨ Flat (release r) := by
  obtain ⟨hi, lo, e, ho, hhi, he, hne, hlo, hlt⟩ := h
  cases hi with
  | nil =>
    right
    cases lo with
    | nil => exact absurd rfl hne
    | cons b lo' =>
      obtain ⟨h1, h2, h3⟩ := hlo
      have hle := chain_le h3
      have := chain_le hhi
      unfold AwsVerif.Ring.release
      simp only [List.nil_append] at ho
      rw [ho]
      refine ⟨?_, ?_⟩
      · simp only; rw [h1]; exact h3
      · simp only; omega
  | cons b hi' =>
    left
    obtain ⟨h1, h2, h3⟩ := hhi
    unfold AwsVerif.Ring.release
    simp only [List.cons_append] at ho
    rw [ho]
    refine ⟨⟨hi', lo, e, rfl, ?_, he, hne, hlo, ?_⟩, ?_⟩
    · simp only; rw [h1]; exact h3
    · simp only; omega
    · simp only; omega

theorem Shape.release {r : Ring} (h : Shape r) : Shape (release r) := by
  rcases h with h | h
  · exact Or.inl h.release.1
  · rcases h.release with h | h
    · exact Or.inr h.1
    · exact Or.inl h

theorem PInv.release {r : Ring} {t : Nat} (h : PInv r t) : PInv (release r) t := by
  obtain ⟨h0, h1, h2, h3⟩ := h
  refine ⟨by rw [release_N]; exact h0, ?_, ?_, ?_⟩
  · rw [release_head]; intro ht
    obtain ⟨hf, hn⟩ := h1 ht
    rw [release_nil hn]; exact ⟨hf, hn⟩
  · rw [release_head]; intro ht
    rcases h2 ht with ⟨hw, hle⟩ | hf
    · rcases hw.release with ⟨hw', hle'⟩ | hf'
      · exact Or.inl ⟨hw', Nat.le_trans hle hle'⟩
      · exact Or.inr hf'
    · exact Or.inr hf.release.1
  · rw [release_head]; intro ht
    obtain ⟨hf, hle⟩ := h3 ht
    exact ⟨hf.release.1, Nat.le_trans hle hf.release.2⟩

/-! ### the tail load -/

theorem Shape.loadTail {r : Ring} (h : Shape r) : PInv r r.tail := by
  refine ⟨h.tail_le, ?_, ?_, ?_⟩
  · intro ht
    rcases h with h | h
    · refine ⟨h, ?_⟩
      have hc := h.1
      rw [← ht] at hc
      exact chain_eq_nil hc
    · obtain ⟨_, _, _, _, _, _, _, _, hw⟩ := h
      omega
  · intro ht
    rcases h with h | h
    · have := h.tail_le_head; omega
    · exact Or.inl ⟨h, Nat.le_refl _⟩
  · intro ht
    rcases h with h | h
    · exact ⟨h, Nat.le_refl _⟩
    · obtain ⟨_, _, _, _, _, _, _, _, hw⟩ := h
      omega

/-! ### vending -/

theorem vend_head_flat {r : Ring} {len : Nat} (h : Flat r) (hl : 0 < len) (hb : r.head + len ≤ r.N) :
    Flat (vend r r.head len).1 :=
  ⟨chain_snoc len h.1 hl, hb⟩

theorem vend_head_wrapped {r : Ring} {len : Nat} (h : Wrapped r) (hl : 0 < len) (hb : r.head + len < r.tail) :
    Wrapped (vend r r.head len).1 := by
  obtain ⟨hi, lo, e, ho, hhi, he, hne, hlo, hlt⟩ := h
  refine ⟨hi, lo ++ [(r.head, len)], e, ?_, hhi, he, by simp, chain_snoc len hlo hl, hb⟩
  simp [vend, ho]

theorem vend_zero_flat {r : Ring} {len : Nat} (h : Flat r) (hl : 0 < len) (hb : len < r.tail) :
    Wrapped (vend r 0 len).1 :=
  ⟨r.out, [(0, len)], r.head, rfl, h.1, h.2, by simp, ⟨rfl, hl, rfl⟩, by simpa [vend] using hb⟩

theorem vend_reset {r : Ring} {len : Nat} (hn : r.out = []) (hl : 0 < len) (hb : len ≤ r.N) :
    Flat (vend r 0 len true).1 := by
  refine ⟨?_, by simpa [vend] using hb⟩
  simp only [vend, hn, List.nil_append]
  exact ⟨rfl, hl, rfl⟩

end AwsVerif.Proofs.C15
