import AwsVerif.Proofs.C15.Reach
/-! Size rule for completed acquires, and liveness on an empty ring. -/
namespace AwsVerif.Proofs.C15
open AwsVerif.Ring

/-- the size clause of the property for a request `q` answered with `len` bytes -/
def SizeRule : Req → Nat → Prop
  | .exact k, len => len = k
  | .upTo m k, len => len ≤ k ∧ (m ≤ k → m ≤ len)

theorem run_append (s : Sys) (as bs : List Act) : run s (as ++ bs) = run (run s as) bs := by
  simp [run, List.foldl_append]

theorem run_single (s : Sys) (a : Act) : run s [a] = step s a := rfl

theorem step_complete_some {s : Sys} {t : Nat} {q : Req} (h : s.pending = some (t, q)) :
    step s .complete = { ring := (complete s.ring t q).1, pending := none, last := some (q, (complete s.ring t q).2) } := by
  show (match s.pending with | none => s | some (t, q) => _) = _
  rw [h]

theorem step_complete_none {s : Sys} (h : s.pending = none) : step s .complete = s := by
  show (match s.pending with | none => s | some (t, q) => _) = _
  rw [h]

theorem step_loadTail_none {s : Sys} (q : Req) (h : s.pending = none) :
    step s (.loadTail q) = { s with pending := some (s.ring.tail, q) } := by
  show (match s.pending with | none => _ | some _ => s) = _
  rw [h]

theorem step_loadTail_some {s : Sys} (q : Req) {p : Nat × Req} (h : s.pending = some p) :
    step s (.loadTail q) = s := by
  show (match s.pending with | none => _ | some _ => s) = _
  rw [h]

/-- what one completed acquire guarantees -/
theorem complete_step_spec {s : Sys} (hi : Inv s) {t : Nat} {q : Req} (hp : s.pending = some (t, q))
    {q' : Req} {off len : Nat} (hl : (step s .complete).last = some (q', .ok off len)) :
    q' = q ∧ (step s .complete).ring.out = s.ring.out ++ [(off, len)] ∧ SizeRule q len ∧
      0 < len ∧ off + len ≤ s.ring.N ∧ ∀ b ∈ s.ring.out, Disj b (off, len) := by
  have ho := complete_outcome (hi.2 t q hp) q
  have hsh := ho.shape hi.1
  rw [step_complete_some hp] at hl ⊢
  simp only [Option.some.injEq, Prod.mk.injEq] at hl
  obtain ⟨rfl, hres⟩ := hl
  obtain ⟨hout, hlo, hhi⟩ := ho.ok hres
  have hsafe := hsh.safe
  unfold Safe at hsafe
  rw [hout, ho.N] at hsafe
  obtain ⟨hpw, hb⟩ := hsafe
  have hb' := hb (off, len) (by simp)
  rw [List.pairwise_append] at hpw
  refine ⟨rfl, hout, ?_, hb'.1, hb'.2, fun b hb => hpw.2.2 b hb (off, len) (by simp)⟩
  cases q with
  | exact k => exact Nat.le_antisymm hhi hlo
  | upTo m k => exact ⟨hhi, fun hmk => by simp only at hlo; omega⟩

/-- invariant on the observable `last`: a reported success obeys the size rule and lies in the ring -/
def LastOK (s : Sys) : Prop :=
  ∀ q off len, s.last = some (q, .ok off len) → SizeRule q len ∧ 0 < len ∧ off + len ≤ s.ring.N

theorem lastOK_step {s : Sys} (hi : Inv s) (hl : LastOK s) (a : Act) : LastOK (step s a) := by
  cases a with
  | loadTail q =>
    cases hp : s.pending with
    | none => rw [step_loadTail_none q hp]; exact hl
    | some p => rw [step_loadTail_some q hp]; exact hl
  | complete =>
    cases hp : s.pending with
    | none => rw [step_complete_none hp]; exact hl
    | some p =>
      obtain ⟨t, q⟩ := p
      intro q' off len h
      obtain ⟨_, _, h3, h4, h5, _⟩ := complete_step_spec hi hp h
      subst_vars
      rw [step_N]
      exact ⟨h3, h4, h5⟩
  | release =>
    intro q off len h
    have := hl q off len h
    show _ ∧ _ ∧ _ ≤ (release s.ring).N
    rw [release_N]; exact this

theorem lastOK_run : ∀ (as : List Act) {s : Sys}, Inv s → LastOK s → LastOK (run s as)
  | [], _, _, h => h
  | a :: as, _, hi, h => lastOK_run as (inv_step hi a) (lastOK_step hi h a)

theorem reach_lastOK (N : Nat) (as : List Act) : LastOK (run (Sys.init N) as) :=
  lastOK_run as (inv_init N) (by intro q off len h; cases h)

/-! ### nothing outstanding ⇒ every request that fits succeeds -/

theorem empty_head_eq_tail {r : Ring} (hs : Shape r) (hn : r.out = []) : r.head = r.tail := by
  rcases hs with hf | hw
  · have := hf.1; rw [hn] at this; exact this.symm
  · obtain ⟨hi, lo, _, ho, _, _, hne, _⟩ := hw
    rw [hn] at ho
    have : lo = [] := (List.append_eq_nil_iff.mp ho.symm).2
    exact absurd this hne

theorem run_releases_nil (k : Nat) {s : Sys} (hn : s.ring.out = []) : run s (List.replicate k Act.release) = s := by
  induction k with
  | zero => rfl
  | succ k ih =>
    show run (step s .release) (List.replicate k Act.release) = s
    have : step s .release = s := by
      show { s with ring := release s.ring } = s
      rw [release_nil hn]
    rw [this, ih]

theorem empty_exact {s : Sys} (hi : Inv s) (hn : s.ring.out = []) (hp : s.pending = none) (k : Nat) {q : Nat}
    (h1 : 1 ≤ q) (h2 : q ≤ s.ring.N) :
    (run s (Act.loadTail (.exact q) :: (List.replicate k Act.release ++ [Act.complete]))).last =
      some (.exact q, .ok 0 q) := by
  have hht := empty_head_eq_tail hi.1 hn
  show (run (step s (.loadTail (.exact q))) (List.replicate k Act.release ++ [Act.complete])).last = _
  rw [run_append, step_loadTail_none _ hp, run_releases_nil k (by exact hn)]
  rw [run_single, step_complete_some rfl]
  have hq : q ≠ 0 := by omega
  have hN : ¬ q > s.ring.N := by omega
  simp [complete, acquireWith, hq, hht, hN, vend]

theorem empty_upTo {s : Sys} (hi : Inv s) (hn : s.ring.out = []) (hp : s.pending = none) (k : Nat) {m q : Nat}
    (h1 : 1 ≤ m) (h2 : m ≤ q) (h3 : m ≤ s.ring.N) :
    (run s (Act.loadTail (.upTo m q) :: (List.replicate k Act.release ++ [Act.complete]))).last =
      some (.upTo m q, .ok 0 (min q s.ring.N)) := by
  have hht := empty_head_eq_tail hi.1 hn
  show (run (step s (.loadTail (.upTo m q))) (List.replicate k Act.release ++ [Act.complete])).last = _
  rw [run_append, step_loadTail_none _ hp, run_releases_nil k (by exact hn)]
  rw [run_single, step_complete_some rfl]
  have hq : ¬ (q = 0 ∨ m = 0) := by omega
  by_cases hN : s.ring.N > q
  · have hm : ¬ q < m := by omega
    have : min q s.ring.N = q := by omega
    simp [complete, acquireUpToWith, hq, hht, hN, hm, vend, this]
  · have hm : ¬ s.ring.N < m := by omega
    have : min q s.ring.N = s.ring.N := by omega
    simp [complete, acquireUpToWith, hq, hht, hN, hm, vend, this]

end AwsVerif.Proofs.C15
