import AwsVerif.Proofs.C15.Inv
/-! The acquirer's second step (head load, decision, stores) re-establishes the shape invariant. -/
namespace AwsVerif.Proofs.C15
open AwsVerif.Ring

/-- outcome of an acquire step: either refused with the ring untouched, or one buffer vended -/
inductive Outcome (r : Ring) (lo hi : Nat) : Ring × Res → Prop
  | refused (res : Res) (h : ∀ o l, res ≠ .ok o l) : Outcome r lo hi (r, res)
  | vended (off len : Nat) (rt : Bool) (hs : Shape (vend r off len rt).1) (h1 : lo ≤ len) (h2 : len ≤ hi) :
      Outcome r lo hi (vend r off len rt)

theorem acquireWith_outcome {r : Ring} {t : Nat} (hp : PInv r t) (req : Nat) :
    Outcome r req req (acquireWith r t req) := by
  obtain ⟨h0, h1, h2, h3⟩ := hp
  unfold acquireWith
  by_cases hq : req = 0
  · simp only [hq, if_true]; exact .refused _ (by intros; simp)
  simp only [hq, if_false]
  have hpos : 0 < req := Nat.pos_of_ne_zero hq
  by_cases he : r.head = t
  · simp only [he, if_true]
    obtain ⟨hf, hn⟩ := h1 he.symm
    by_cases hbig : req > r.N
    · simp only [hbig, if_true]; exact .refused _ (by intros; simp)
    · simp only [hbig, if_false]
      exact .vended _ _ _ (Or.inl (vend_reset hn hpos (by omega))) (Nat.le_refl _) (Nat.le_refl _)
  simp only [he, if_false]
  by_cases hgt : t > r.head
  · simp only [hgt, if_true]
    by_cases hsp : t - r.head - 1 ≥ req
    · simp only [hsp, if_true]
      refine .vended _ _ _ ?_ (Nat.le_refl _) (Nat.le_refl _)
      rcases h2 hgt with ⟨hw, hle⟩ | hf
      · exact Or.inr (vend_head_wrapped hw hpos (by omega))
      · exact Or.inl (vend_head_flat hf hpos (by omega))
    · simp only [hsp, if_false]; exact .refused _ (by intros; simp)
  simp only [hgt, if_false]
  have hlt : t < r.head := by omega
  obtain ⟨hf, hle⟩ := h3 hlt
  by_cases hh : r.N - r.head ≥ req
  · simp only [hh, if_true]
    have := hf.2
    exact .vended _ _ _ (Or.inl (vend_head_flat hf hpos (by omega))) (Nat.le_refl _) (Nat.le_refl _)
  simp only [hh, if_false]
  by_cases ht : t > req
  · simp only [ht, if_true]
    exact .vended _ _ _ (Or.inr (vend_zero_flat hf hpos (by omega))) (Nat.le_refl _) (Nat.le_refl _)
  · simp only [ht, if_false]; exact .refused _ (by intros; simp)

theorem acquireUpToWith_outcome {r : Ring} {t : Nat} (hp : PInv r t) (m req : Nat) :
    Outcome r (min m req) req (acquireUpToWith r t m req) := by
  obtain ⟨h0, h1, h2, h3⟩ := hp
  unfold acquireUpToWith
  by_cases hq : req = 0 ∨ m = 0
  · simp only [hq, if_true]; exact .refused _ (by intros; simp)
  simp only [hq, if_false]
  have hpos : 0 < req := by omega
  have hmpos : 0 < m := by omega
  by_cases he : r.head = t
  · simp only [he, if_true]
    obtain ⟨hf, hn⟩ := h1 he.symm
    by_cases hbig : r.N > req
    · simp only [hbig, if_true]
      by_cases hm : req < m
      · simp only [hm, if_true]; exact .refused _ (by intros; simp)
      · simp only [hm, if_false]
        exact .vended _ _ _ (Or.inl (vend_reset hn hpos (by omega))) (by omega) (Nat.le_refl _)
    · simp only [hbig, if_false]
      by_cases hm : r.N < m
      · simp only [hm, if_true]; exact .refused _ (by intros; simp)
      · simp only [hm, if_false]
        exact .vended _ _ _ (Or.inl (vend_reset hn (by omega) (Nat.le_refl _))) (by omega) (by omega)
  simp only [he, if_false]
  by_cases hgt : t > r.head
  · simp only [hgt, if_true]
    by_cases hsp : t - r.head - 1 > req
    · simp only [hsp, if_true]
      by_cases hm : req ≥ m
      · simp only [hm, if_true]
        refine .vended _ _ _ ?_ (by omega) (Nat.le_refl _)
        rcases h2 hgt with ⟨hw, hle⟩ | hf
        · exact Or.inr (vend_head_wrapped hw hpos (by omega))
        · exact Or.inl (vend_head_flat hf hpos (by omega))
      · simp only [hm, if_false]; exact .refused _ (by intros; simp)
    · simp only [hsp, if_false]
      by_cases hm : t - r.head - 1 ≥ m
      · simp only [hm, if_true]
        refine .vended _ _ _ ?_ (by omega) (by omega)
        rcases h2 hgt with ⟨hw, hle⟩ | hf
        · exact Or.inr (vend_head_wrapped hw (by omega) (by omega))
        · exact Or.inl (vend_head_flat hf (by omega) (by omega))
      · simp only [hm, if_false]; exact .refused _ (by intros; simp)
  simp only [hgt, if_false]
  have hlt : t < r.head := by omega
  obtain ⟨hf, hle⟩ := h3 hlt
  have hN := hf.2
  by_cases hh : r.N - r.head ≥ req
  · simp only [hh, if_true]
    exact .vended _ _ _ (Or.inl (vend_head_flat hf hpos (by omega))) (Nat.min_le_right _ _) (Nat.le_refl _)
  simp only [hh, if_false]
  by_cases ht : t > req
  · simp only [ht, if_true]
    exact .vended _ _ _ (Or.inr (vend_zero_flat hf hpos (by omega))) (Nat.min_le_right _ _) (Nat.le_refl _)
  simp only [ht, if_false]
  by_cases h3 : r.N - r.head ≥ m ∧ r.N - r.head ≥ t
  · simp only [h3, and_self, if_true]
    exact .vended _ _ _ (Or.inl (vend_head_flat hf (by omega) (by omega))) (by omega) (by omega)
  simp only [h3, if_false]
  by_cases h4 : t > m
  · simp only [h4, if_true]
    exact .vended _ _ _ (Or.inr (vend_zero_flat hf (by omega) (by omega))) (by omega) (by omega)
  · simp only [h4, if_false]; exact .refused _ (by intros; simp)

end AwsVerif.Proofs.C15
