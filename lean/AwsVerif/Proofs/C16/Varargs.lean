import AwsVerif.Gen.Math
/-!
# Helper lemma for `aws_add_size_checked_varargs` (source/math.c): the accumulate loop

`hadd` is the specification of the checked two-operand add the loop calls (theorem `add_size_checked` of
`Props/C16.lean`, passed in to avoid a circular import).
-/
namespace AwsVerif.Proofs.C16.Varargs
open AwsVerif AwsVerif.Gen.Math AwsVerif.CSem

theorem loop_spec (num junk : Nat) (hnum : num < 2^64)
    (hadd : ∀ a b, MathInl.aws_add_size_checked a b = if a + b < 2^64 then Res.ok (a + b) else Res.err 5) :
    ∀ (fuel i accum : Nat) (argp : List Nat), num - i < fuel → i ≤ num → accum < 2^64 → num - i ≤ argp.length →
      MathC.aws_add_size_checked_varargs_loop1 fuel num junk i accum argp =
        if accum + (argp.take (num - i)).sum < 2^64 then Res.ok (accum + (argp.take (num - i)).sum) else Res.err 5
  | 0, i, accum, argp, hf, _, _, _ => by omega
  | fuel+1, i, accum, argp, hf, hi, hacc, hlen => by
    simp only [MathC.aws_add_size_checked_varargs_loop1]
    by_cases hlt : i < num
    · rw [if_pos hlt]
      cases argp with
      | nil => simp at hlen; omega
      | cons a rest =>
        have hk : num - i = (num - (i + 1)) + 1 := by omega
        simp only [List.headD_cons, List.tail_cons, hadd]
        rw [hk, List.take_succ_cons, List.sum_cons]
        by_cases hfit : accum + a < 2^64
        · rw [if_pos hfit]
          simp only []
          rw [Nat.mod_eq_of_lt (by omega : i + 1 < 18446744073709551616)]
          rw [loop_spec num junk hnum hadd fuel (i+1) (accum + a) rest (by omega) (by omega) hfit
            (by simp at hlen; omega)]
          simp only [Nat.add_assoc]
        · rw [if_neg hfit]
          simp only []
          rw [if_neg (by omega)]
    · rw [if_neg hlt]
      have : num - i = 0 := by omega
      rw [this]; simp [hacc]

end AwsVerif.Proofs.C16.Varargs
