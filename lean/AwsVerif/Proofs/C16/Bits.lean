import AwsVerif.Gen.Math
/-!
# Helper lemmas for the bit-twiddling theorems of C16 (power of two, round-up, clz/ctz)

Core Lean only.  Nothing here mentions a *generated* definition except the fuel-bounded loop functions
`Fallback.aws_c[lt]z_i{32,64}_loop1` (their one-step unfolding is all that is used).
-/
namespace AwsVerif.Proofs.C16.Bits
open AwsVerif AwsVerif.Gen.Math AwsVerif.CSem

/-! ## generalities on `testBit`, `log2` -/

theorem testBit_of_bounds {n k : Nat} (h1 : 2^k ≤ n) (h2 : n < 2^(k+1)) : n.testBit k = true :=
  Nat.testBit_of_two_pow_le_and_two_pow_add_one_gt h1 h2

theorem log2_of_bounds {n k : Nat} (h1 : 2^k ≤ n) (h2 : n < 2^(k+1)) : n.log2 = k := by
  have hn : n ≠ 0 := by have := Nat.two_pow_pos k; omega
  exact (Nat.log2_eq_iff hn).2 ⟨h1, h2⟩

/-- bits above `log2 n` are clear -/
theorem testBit_above_log2 {n j : Nat} (h : n.log2 < j) : n.testBit j = false := by
  apply Nat.testBit_lt_two_pow
  have h1 : n < 2^(n.log2 + 1) := Nat.lt_log2_self
  have h2 : 2^(n.log2 + 1) ≤ 2^j := Nat.pow_le_pow_right (by decide) h
  omega

/-- a set bit is at or below `log2 n` -/
theorem le_log2_of_testBit {n j : Nat} (h : n.testBit j = true) : j ≤ n.log2 := by
  apply Decidable.by_contra; intro hc
  have := testBit_above_log2 (n := n) (j := j) (by omega)
  simp [h] at this

theorem log2_lt_of_lt {n w : Nat} (hn : n ≠ 0) (h : n < 2^w) : n.log2 < w := (Nat.log2_lt hn).2 h

theorem and_two_pow_ne_zero_iff (n i : Nat) : (n &&& 2^i ≠ 0) ↔ n.testBit i = true := by
  constructor
  · intro h
    apply Decidable.by_contra; intro hc
    apply h
    apply Nat.eq_of_testBit_eq; intro j
    simp only [Nat.testBit_and, Nat.testBit_two_pow, Nat.zero_testBit]
    by_cases hij : i = j
    · subst hij; simp at hc; simp [hc]
    · simp [hij]
  · intro h h0
    have : (n &&& 2^i).testBit i = true := by
      simp [Nat.testBit_and, h]
    rw [h0] at this; simp at this

/-! ## power of two -/

theorem and_pred_eq_zero_iff {x : Nat} (hx : x ≠ 0) : (x &&& (x - 1) = 0) ↔ ∃ k, x = 2^k := by
  constructor
  · intro h
    refine ⟨x.log2, ?_⟩
    have h1 : 2^x.log2 ≤ x := Nat.log2_self_le hx
    have h2 : x < 2^(x.log2 + 1) := Nat.lt_log2_self
    apply Decidable.by_contra; intro hne
    have hb1 : x.testBit x.log2 = true := Nat.testBit_log2 hx
    have hb2 : (x - 1).testBit x.log2 = true := testBit_of_bounds (by omega) (by omega)
    have : (x &&& (x - 1)).testBit x.log2 = true := by simp [Nat.testBit_and, hb1, hb2]
    rw [h] at this; simp at this
  · rintro ⟨k, rfl⟩
    rw [Nat.and_two_pow_sub_one_eq_mod]; exact Nat.mod_self _

/-! ## the shift-or "smear" of round-up-to-power-of-two -/

/-- window invariant: bit `i` of `s` is set iff `m` has a set bit in `[i, i+d)` -/
def Window (m s d : Nat) : Prop :=
  ∀ i, s.testBit i = true ↔ ∃ j, i ≤ j ∧ j < i + d ∧ m.testBit j = true

theorem window_init (m : Nat) : Window m m 1 := by
  intro i
  constructor
  · intro h; exact ⟨i, Nat.le_refl _, by omega, h⟩
  · rintro ⟨j, h1, h2, h3⟩
    have : j = i := by omega
    subst this; exact h3

theorem window_step {m s d : Nat} (h : Window m s d) : Window m (s ||| (s >>> d)) (d + d) := by
  intro i
  rw [Nat.testBit_or, Nat.testBit_shiftRight, Bool.or_eq_true, h i, h (d + i)]
  constructor
  · rintro (⟨j, h1, h2, h3⟩ | ⟨j, h1, h2, h3⟩)
    · exact ⟨j, h1, by omega, h3⟩
    · exact ⟨j, by omega, by omega, h3⟩
  · rintro ⟨j, h1, h2, h3⟩
    by_cases hj : j < i + d
    · exact Or.inl ⟨j, h1, hj, h3⟩
    · exact Or.inr ⟨j, by omega, by omega, h3⟩

/-- the six shift-or steps, as written in `aws_round_up_to_power_of_two` -/
def smear64 (m : Nat) : Nat :=
  let a := m ||| (m >>> 1)
  let b := a ||| (a >>> 2)
  let c := b ||| (b >>> 4)
  let d := c ||| (c >>> 8)
  let e := d ||| (d >>> 16)
  e ||| (e >>> 32)

theorem smear64_window (m : Nat) : Window m (smear64 m) 64 :=
  window_step (window_step (window_step (window_step (window_step (window_step (window_init m))))))

/-- a full-width window is "all bits up to the highest set bit" -/
theorem window_full {m s w : Nat} (hm0 : m ≠ 0) (hm : m < 2^w) (h : Window m s w) :
    s = 2^(m.log2 + 1) - 1 := by
  apply Nat.eq_of_testBit_eq; intro i
  rw [Nat.testBit_two_pow_sub_one]
  have hl : m.log2 < w := log2_lt_of_lt hm0 hm
  by_cases hi : i < m.log2 + 1
  · have : s.testBit i = true := (h i).2 ⟨m.log2, by omega, by omega, Nat.testBit_log2 hm0⟩
    simp [this, hi]
  · have : ¬ (s.testBit i = true) := by
      intro hs
      obtain ⟨j, h1, _, h3⟩ := (h i).1 hs
      have := le_log2_of_testBit h3
      omega
    simp [hi, this]

theorem smear64_eq {m : Nat} (hm0 : m ≠ 0) (hm : m < 2^64) : smear64 m = 2^(m.log2 + 1) - 1 :=
  window_full hm0 hm (smear64_window m)

theorem smear64_zero : smear64 0 = 0 := by decide

/-- specification-level summary of the round-up computation on `n - 1` -/
theorem roundup_core {n : Nat} (hn0 : n ≠ 0) (hn : n ≤ 2^63) :
    ∃ e, (smear64 (n - 1) + 1) % 2^64 = 2^e ∧ n ≤ 2^e ∧ ∀ k, n ≤ 2^k → 2^e ≤ 2^k := by
  by_cases h1 : n = 1
  · subst h1
    refine ⟨0, by decide, by decide, ?_⟩
    intro k _; exact Nat.one_le_two_pow
  · have hm0 : n - 1 ≠ 0 := by omega
    have hm : n - 1 < 2^63 := by omega
    have hl : (n - 1).log2 < 63 := log2_lt_of_lt hm0 hm
    have hlt : n - 1 < 2^((n - 1).log2 + 1) := Nat.lt_log2_self
    have hp : 2^((n - 1).log2 + 1) ≤ 2^63 := Nat.pow_le_pow_right (by decide) (by omega)
    have hpos := Nat.two_pow_pos ((n - 1).log2 + 1)
    refine ⟨(n - 1).log2 + 1, ?_, by omega, ?_⟩
    · rw [smear64_eq hm0 (by omega)]
      have : 2^((n - 1).log2 + 1) - 1 + 1 = 2^((n - 1).log2 + 1) := by omega
      rw [this]; exact Nat.mod_eq_of_lt (by omega)
    · intro k hk
      have : (n - 1).log2 < k := (Nat.log2_lt hm0).2 (by omega)
      exact Nat.pow_le_pow_right (by decide) (by omega)

/-! ## count leading / trailing zeros: the builtins' meaning (`CSem.clz`, `CSem.ctz`) -/

theorem lt_two_pow_of_not_testBit {x k : Nat} (h : x < 2^(k+1)) (hb : ¬ x.testBit k = true) : x < 2^k := by
  apply Nat.lt_pow_two_of_testBit; intro i hi
  by_cases hik : i = k
  · subst hik; simpa using hb
  · apply Nat.testBit_lt_two_pow
    have : 2^(k+1) ≤ 2^i := Nat.pow_le_pow_right (by decide) (by omega)
    omega

theorem clzAux_eq {w x : Nat} (hx : x ≠ 0) : ∀ k, x < 2^k → clzAux w x k = w - 1 - x.log2
  | 0, h => by simp at h; omega
  | k+1, h => by
    simp only [clzAux]
    by_cases hb : x.testBit k = true
    · have : x.log2 = k := log2_of_bounds (Nat.ge_two_pow_of_testBit hb) h
      simp [hb, this]
    · have hlt : x < 2^k := lt_two_pow_of_not_testBit h hb
      simp [hb, clzAux_eq hx k hlt]

theorem clz_eq {w x : Nat} (hx : x ≠ 0) (h : x < 2^w) : clz w x = w - 1 - x.log2 := clzAux_eq hx w h

theorem ctzAux_spec {w x : Nat} : ∀ fuel i, (∀ j, j < i → x.testBit j = false) →
    (∃ j, i ≤ j ∧ j < i + fuel ∧ x.testBit j = true) →
    x.testBit (ctzAux w x fuel i) = true ∧ ∀ j, j < ctzAux w x fuel i → x.testBit j = false
  | 0, i, _, he => by obtain ⟨j, h1, h2, _⟩ := he; omega
  | fuel+1, i, hlow, he => by
    simp only [ctzAux]
    by_cases hb : x.testBit i = true
    · rw [if_pos hb]; exact ⟨hb, hlow⟩
    · rw [if_neg hb]
      apply ctzAux_spec fuel (i+1)
      · intro j hj
        by_cases hji : j = i
        · subst hji; simpa using hb
        · exact hlow j (by omega)
      · obtain ⟨j, h1, h2, h3⟩ := he
        have : j ≠ i := by rintro rfl; exact hb h3
        exact ⟨j, by omega, by omega, h3⟩

theorem ctz_spec {w x : Nat} (hx : x ≠ 0) (h : x < 2^w) :
    x.testBit (ctz w x) = true ∧ ∀ j, j < ctz w x → x.testBit j = false := by
  apply ctzAux_spec w 0 (by intro j hj; omega)
  exact ⟨x.log2, Nat.zero_le _, by have := log2_lt_of_lt hx h; omega, Nat.testBit_log2 hx⟩

/-- the lowest set bit is unique -/
theorem lowest_unique {x r s : Nat}
    (hr : x.testBit r = true ∧ ∀ j, j < r → x.testBit j = false)
    (hs : x.testBit s = true ∧ ∀ j, j < s → x.testBit j = false) : r = s := by
  apply Decidable.by_contra; intro hne
  rcases Nat.lt_or_gt_of_ne hne with h | h
  · have := hs.2 r h; simp [hr.1] at this
  · have := hr.2 s h; simp [hs.1] at this

/-- the lowest set bit of a nonzero `x < 2^w` is below `w` -/
theorem lowest_lt {x r w : Nat} (h : x < 2^w) (hr : x.testBit r = true) : r < w := by
  have hx : x ≠ 0 := by rintro rfl; simp at hr
  have := le_log2_of_testBit hr
  have := log2_lt_of_lt hx h
  omega

/-- the `int`→`size_t` conversion of a builtin's small result is the identity -/
theorem int_to_size {c : Nat} (h : c ≤ 64) :
    (if c < 2147483648 then c else c + 18446744069414584320) = c := by
  rw [if_pos (by omega)]

theorem builtin_clz_core {w n : Nat} (hw : w ≤ 64) (hn : n < 2^w) (h0 : n ≠ 0) :
    (if CSem.clz w n < 2147483648 then CSem.clz w n else CSem.clz w n + 18446744069414584320) = w - 1 - Nat.log2 n := by
  rw [clz_eq h0 hn]; exact int_to_size (by omega)

theorem builtin_ctz_core {w n : Nat} (hw : w ≤ 64) (hn : n < 2^w) (h0 : n ≠ 0) :
    n.testBit (if CSem.ctz w n < 2147483648 then CSem.ctz w n else CSem.ctz w n + 18446744069414584320) = true ∧
    ∀ j, j < (if CSem.ctz w n < 2147483648 then CSem.ctz w n else CSem.ctz w n + 18446744069414584320) →
      n.testBit j = false := by
  have hs := ctz_spec h0 hn
  have hlt : CSem.ctz w n < w := lowest_lt hn hs.1
  rw [int_to_size (by omega)]; exact hs

/-! ## count leading zeros: the fallback loops (shift left until the sign bit is set) -/

theorem clz_i32_loop : ∀ (fuel k n idx : Nat), 2^k ≤ n → n < 2^(k+1) → k ≤ 31 → 31 - k < fuel →
    idx + (31 - k) < 2^64 → (Fallback.aws_clz_i32_loop1 fuel n idx).2 = idx + (31 - k)
  | 0, k, n, idx, _, _, _, hf, _ => by omega
  | fuel+1, k, n, idx, h1, h2, hk, hf, hidx => by
    simp only [Fallback.aws_clz_i32_loop1]
    have hs : 2^(k+1) = 2 * 2^k := Nat.pow_succ'
    by_cases hk31 : k = 31
    · subst hk31
      split
      · exfalso; omega
      · simp
    · have hp : 2^(k+1) ≤ 2^31 := Nat.pow_le_pow_right (by decide) (by omega)
      have hs2 : 2^(k+1+1) = 2 * 2^(k+1) := Nat.pow_succ'
      have hsh : n <<< 1 = 2 * n := by rw [Nat.shiftLeft_eq]; omega
      split
      · rw [hsh, Nat.mod_eq_of_lt (by omega : 2 * n < 4294967296),
          Nat.mod_eq_of_lt (by omega : idx + 1 < 18446744073709551616)]
        rw [clz_i32_loop fuel (k+1) (2*n) (idx+1) (by omega) (by omega) (by omega) (by omega) (by omega)]
        omega
      · exfalso; omega

theorem clz_i64_loop : ∀ (fuel k n idx : Nat), 2^k ≤ n → n < 2^(k+1) → k ≤ 63 → 63 - k < fuel →
    idx + (63 - k) < 2^64 → (Fallback.aws_clz_i64_loop1 fuel n idx).2 = idx + (63 - k)
  | 0, k, n, idx, _, _, _, hf, _ => by omega
  | fuel+1, k, n, idx, h1, h2, hk, hf, hidx => by
    simp only [Fallback.aws_clz_i64_loop1]
    have hs : 2^(k+1) = 2 * 2^k := Nat.pow_succ'
    by_cases hk63 : k = 63
    · subst hk63
      split
      · exfalso; omega
      · simp
    · have hp : 2^(k+1) ≤ 2^63 := Nat.pow_le_pow_right (by decide) (by omega)
      have hs2 : 2^(k+1+1) = 2 * 2^(k+1) := Nat.pow_succ'
      have hsh : n <<< 1 = 2 * n := by rw [Nat.shiftLeft_eq]; omega
      split
      · rw [hsh, Nat.mod_eq_of_lt (by omega : 2 * n < 18446744073709551616),
          Nat.mod_eq_of_lt (by omega : idx + 1 < 18446744073709551616)]
        rw [clz_i64_loop fuel (k+1) (2*n) (idx+1) (by omega) (by omega) (by omega) (by omega) (by omega)]
        omega
      · exfalso; omega

/-! ## count trailing zeros: the fallback loops (probe bit `idx` upwards) -/

theorem ctz_i32_loop {n : Nat} (hn : n < 2^32) : ∀ (fuel idx : Nat), (∀ j, j < idx → n.testBit j = false) →
    (∃ j, idx ≤ j ∧ j < idx + fuel ∧ n.testBit j = true) →
    n.testBit (Fallback.aws_ctz_i32_loop1 fuel n idx 64).2.1 = true ∧
      ∀ j, j < (Fallback.aws_ctz_i32_loop1 fuel n idx 64).2.1 → n.testBit j = false
  | 0, idx, _, he => by obtain ⟨j, h1, h2, _⟩ := he; omega
  | fuel+1, idx, hlow, he => by
    obtain ⟨j, h1, h2, h3⟩ := he
    have hj : j < 32 := lowest_lt hn h3
    have hpow : (1 <<< idx) % 4294967296 = 2^idx := by
      rw [Nat.one_shiftLeft]
      have : 2^idx < 2^32 := Nat.pow_lt_pow_right (by decide) (by omega)
      exact Nat.mod_eq_of_lt (by omega)
    simp only [Fallback.aws_ctz_i32_loop1, hpow]
    split
    · split
      · rename_i hb
        rw [and_two_pow_ne_zero_iff] at hb
        exact ⟨hb, hlow⟩
      · rename_i hb
        rw [and_two_pow_ne_zero_iff] at hb
        rw [Nat.mod_eq_of_lt (by omega : idx + 1 < 4294967296)]
        apply ctz_i32_loop hn fuel (idx+1)
        · intro i hi
          by_cases hii : i = idx
          · subst hii; simpa using hb
          · exact hlow i (by omega)
        · have : j ≠ idx := by rintro rfl; exact hb h3
          exact ⟨j, by omega, by omega, h3⟩
    · exfalso; omega

theorem ctz_i64_loop {n : Nat} (hn : n < 2^64) : ∀ (fuel idx : Nat), (∀ j, j < idx → n.testBit j = false) →
    (∃ j, idx ≤ j ∧ j < idx + fuel ∧ n.testBit j = true) →
    n.testBit (Fallback.aws_ctz_i64_loop1 fuel n idx 64).2.1 = true ∧
      ∀ j, j < (Fallback.aws_ctz_i64_loop1 fuel n idx 64).2.1 → n.testBit j = false
  | 0, idx, _, he => by obtain ⟨j, h1, h2, _⟩ := he; omega
  | fuel+1, idx, hlow, he => by
    obtain ⟨j, h1, h2, h3⟩ := he
    have hj : j < 64 := lowest_lt hn h3
    have hpow : (1 <<< idx) % 18446744073709551616 = 2^idx := by
      rw [Nat.one_shiftLeft]
      have : 2^idx < 2^64 := Nat.pow_lt_pow_right (by decide) (by omega)
      exact Nat.mod_eq_of_lt (by omega)
    simp only [Fallback.aws_ctz_i64_loop1, hpow]
    split
    · split
      · rename_i hb
        rw [and_two_pow_ne_zero_iff] at hb
        exact ⟨hb, hlow⟩
      · rename_i hb
        rw [and_two_pow_ne_zero_iff] at hb
        rw [Nat.mod_eq_of_lt (by omega : idx + 1 < 18446744073709551616)]
        apply ctz_i64_loop hn fuel (idx+1)
        · intro i hi
          by_cases hii : i = idx
          · subst hii; simpa using hb
          · exact hlow i (by omega)
        · have : j ≠ idx := by rintro rfl; exact hb h3
          exact ⟨j, by omega, by omega, h3⟩
    · exfalso; omega

end AwsVerif.Proofs.C16.Bits
