import AwsVerif.Gen.C04Consts
import AwsVerif.Gen.UriFns
import AwsVerif.Model.PercentDecode
import AwsVerif.Model.Uuid
import AwsVerif.Model.HostUtils
/-! Bridge between the hand-written C04 models and the constants cut out of the current source on every run
(gen/c04_gen.py → Gen/C04Consts.lean): every literal of the models that decides which input bytes are touched is equal
to what the source says now, and the source's own numbers are mutually consistent (the reads lie below the guarded
length, the local copies keep their terminating NUL, `snprintf`'s 37 bytes fit the room asked for). -/
namespace AwsVerif.Proofs.C04.Bridge
open AwsVerif.Gen.C04

/-- `aws_byte_cursor_read_hex_u8`: the model's guard is the source's; every index read lies below the guarded length; the
cursor is advanced by no more than that length -/
theorem gen_read_hex :
    AwsVerif.PercentDecode.hexMinLen = readHexMinLen ∧
    readHexIndices = [0, 1] ∧ readHexIndices.all (· < readHexMinLen) = true ∧
    readHexAdvancePtr = 2 ∧ readHexAdvanceLen = 2 ∧ readHexAdvanceLen ≤ readHexMinLen := by decide

/-- `aws_byte_buf_append_decoding_uri` reserves `cursor->len` bytes through `aws_byte_buf_reserve_relative` -/
theorem gen_decode_reserve :
    AwsVerif.Gen.UriFns.decodeReserveCallee = "aws_byte_buf_reserve_relative" ∧
    AwsVerif.Gen.UriFns.decodeReserveArg = "cursor->len" := by decide

/-- source/uuid.c -/
theorem gen_uuid :
    AwsVerif.Uuid.STR_LEN = uuidStrLen ∧
    uuidFromMinLen = AwsVerif.Uuid.STR_LEN - 1 ∧ uuidFromCopyLen = AwsVerif.Uuid.STR_LEN - 1 ∧
    uuidFromCopyLen ≤ uuidFromMinLen ∧            -- the memcpy never exceeds the checked length
    uuidFromCopyLen < uuidFromCopySize ∧          -- the local copy keeps its terminating NUL
    uuidGroups = AwsVerif.Uuid.groups ∧ uuidConversions = AwsVerif.Uuid.groups.sum ∧ uuidHexWidth = 2 ∧
    uuidToNeed = AwsVerif.Uuid.STR_LEN ∧ uuidToAdvance = AwsVerif.Uuid.STR_LEN - 1 ∧
    uuidToAdvance + 1 ≤ uuidToNeed := by decide   -- 36 characters + NUL fit the room asked for

/-- source/host_utils.c -/
theorem gen_host_utils :
    ipv4MaxLen = AwsVerif.HostUtils.IPV4_STR_LEN - 1 ∧ ipv4MaxLen < ipv4CopySize ∧ ipv4FieldWidth = 3 ∧
    ipv4OctetMax = 255 ∧ ipv4Conversions = 4 ∧
    ipv6MinLen = 2 ∧ ipv6MaxLen = 39 ∧ ipv6DigitMax = 4 ∧ ipv6GroupMax = 8 ∧
    ipv6Indices = ["0", "1", "i", "i-1", "substr.len-1", "substr.len-2"] := by decide

/-- source/date_time.c, RFC 822 reader: the indices written into `dt->tz` (a C string later handed to `strlen`) stay below
its last byte, so the terminating NUL survives; `get_month_number_from_str` reads its three-character triplet only when at
least that many characters lie between `start_index` and `stop_index` (all of them inside the text, because the caller
passes `stop_index = index + 1` with `index < len`) -/
theorem gen_date :
    dateTzIndexEnd < dateTzSize ∧ dateTripletReads ≤ dateMonthMinLen ∧ dateTzSize = 6 ∧ dateStrMaxLen = 100 := by decide

end AwsVerif.Proofs.C04.Bridge
