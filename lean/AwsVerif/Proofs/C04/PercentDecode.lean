import AwsVerif.Model.PercentDecode
/-! C04 / percent-decoding: the checked-memory loop, run on a cursor that lies inside the input block with the
capacity `reserve_relative` guarantees, never faults and computes C13's pure `Uri.decodeGo`. -/
namespace AwsVerif.Proofs.C04.PD
open AwsVerif.PercentDecode
open AwsVerif.Uri (decodeGo hexToNum)

theorem bind_ok {α β : Type} (a : α) (f : α → M β) : ((Except.ok a : M α) >>= f) = f a := rfl

theorem rd_at (pre bs : List UInt8) (k : Nat) (v : UInt8) (h : bs[k]? = some v) :
    rd (pre ++ bs) (pre.length + k) = .ok v := by
  simp [rd, List.getElem?_append_right, h]

theorem rd_at0 (pre : List UInt8) (c : UInt8) (t : List UInt8) : rd (pre ++ c :: t) pre.length = .ok c := by
  have := rd_at pre (c :: t) 0 c rfl
  simpa using this

theorem push_ok (out : List UInt8) (cap : Nat) (c : UInt8) (h : out.length < cap) : push out cap c = .ok (out ++ [c]) := by
  simp [push, h]

/-- `decodeGo` never produces more bytes than it was given -/
theorem decodeGo_length : ∀ bs : List UInt8, (decodeGo bs).1.length ≤ bs.length
  | [] => by simp [decodeGo]
  | [c] => by
    by_cases h : c = 37 <;> simp [decodeGo, h]
  | [c, d] => by
    by_cases h : c = 37
    · simp [decodeGo, h]
    · by_cases h2 : d = 37 <;> simp [decodeGo, h, h2]
  | c :: h :: l :: r' => by
    have ih1 := decodeGo_length r'
    have ih2 := decodeGo_length (h :: l :: r')
    by_cases hc : c = 37
    · by_cases hx : hexToNum h ≠ 255 ∧ hexToNum l ≠ 255
      · simp only [decodeGo, hc, if_true, hx, and_self, List.length_cons, ne_eq, not_false_eq_true]
        omega
      · simp [decodeGo, hc, hx]
    · simp only [decodeGo, hc, if_false, List.length_cons]
      simp only [List.length_cons] at ih2
      omega

theorem loop_ok (cap : Nat) : ∀ (bs pre out : List UInt8) (fuel : Nat), bs.length ≤ fuel → out.length + bs.length ≤ cap →
    loop (pre ++ bs) cap fuel pre.length bs.length out = .ok ⟨(decodeGo bs).2, out ++ (decodeGo bs).1⟩
  | [], pre, out, fuel, _, _ => by
    cases fuel <;> simp [loop, decodeGo]
  | [c], pre, out, 0, hf, _ => by simp at hf
  | [c], pre, out, fuel + 1, hf, hc => by
    simp only [List.length_cons, List.length_nil, Nat.zero_add] at hc ⊢
    rw [loop, rd_at0, bind_ok]
    by_cases h : c = 37
    · have hp : c = percent := h
      simp [hp, readHexU8, hexMinLen, bind_ok, decodeGo, percent]
    · have hp : ¬ c = percent := h
      rw [if_neg hp, push_ok out cap c (by omega), bind_ok]
      cases fuel <;> simp [loop, decodeGo, h]
  | [c, d], pre, out, 0, hf, _ => by simp at hf
  | [c, d], pre, out, fuel + 1, hf, hc => by
    simp only [List.length_cons, List.length_nil, Nat.zero_add] at hc hf ⊢
    rw [loop, rd_at0, bind_ok]
    by_cases h : c = 37
    · have hp : c = percent := h
      simp [hp, readHexU8, hexMinLen, bind_ok, decodeGo, percent]
    · have hp : ¬ c = percent := h
      rw [if_neg hp, push_ok out cap c (by omega), bind_ok]
      have ih := loop_ok cap [d] (pre ++ [c]) (out ++ [c]) fuel (by simp; omega) (by simp; omega)
      simpa [decodeGo, h, Nat.add_assoc] using ih
  | c :: h :: l :: r', pre, out, 0, hf, _ => by simp at hf
  | c :: h :: l :: r', pre, out, fuel + 1, hf, hc => by
    simp only [List.length_cons] at hc hf ⊢
    rw [loop, rd_at0, bind_ok]
    by_cases hcp : c = 37
    · have hp : c = percent := hcp
      rw [if_pos hp]
      have r1 : rd (pre ++ c :: h :: l :: r') (pre.length + 1) = .ok h := rd_at pre _ 1 h rfl
      have r2 : rd (pre ++ c :: h :: l :: r') (pre.length + 1 + 1) = .ok l := rd_at pre _ 2 l rfl
      have hm : hexMinLen ≤ r'.length + 1 + 1 := by simp [hexMinLen]
      simp only [readHexU8, if_pos hm, r1, r2, bind_ok]
      by_cases hx : hexToNum h ≠ 255 ∧ hexToNum l ≠ 255
      · rw [if_pos hx, bind_ok]
        simp only []
        rw [push_ok out cap _ (by omega), bind_ok]
        have ih := loop_ok cap r' (pre ++ [c, h, l]) (out ++ [(hexToNum h <<< 4) ||| hexToNum l]) fuel (by omega)
          (by simp; omega)
        simpa [decodeGo, hcp, hx, Nat.add_assoc] using ih
      · rw [if_neg hx, bind_ok]
        simp [decodeGo, hcp, hx]
    · have hp : ¬ c = percent := hcp
      rw [if_neg hp, push_ok out cap c (by omega), bind_ok]
      have ih := loop_ok cap (h :: l :: r') (pre ++ [c]) (out ++ [c]) fuel (by simp; omega) (by simp; omega)
      simpa [decodeGo, hcp, Nat.add_assoc] using ih

/-- the whole function: no fault, and the outcome in terms of `decodeGo` -/
theorem appendDecodingUri_eq (pre : List UInt8) (cap : Nat) (inp : List UInt8) :
    appendDecodingUri pre cap inp =
      .ok (if pre.length + inp.length > SIZE_MAX then .overflow
           else
             let cap' := if cap < pre.length + inp.length then pre.length + inp.length else cap
             if (decodeGo inp).2 then .ok (pre ++ (decodeGo inp).1) cap' else .malformed (pre ++ (decodeGo inp).1) cap') := by
  unfold appendDecodingUri
  by_cases ho : pre.length + inp.length > SIZE_MAX
  · simp [ho]
  · rw [if_neg ho, if_neg ho]
    have hcap : pre.length + inp.length ≤ (if cap < pre.length + inp.length then pre.length + inp.length else cap) := by
      split <;> omega
    have h := loop_ok (if cap < pre.length + inp.length then pre.length + inp.length else cap) inp [] pre inp.length
      (Nat.le_refl _) hcap
    simp only [List.nil_append, List.length_nil] at h
    simp only [h, bind_ok]

end AwsVerif.Proofs.C04.PD
