import AwsVerif.Model.HostUtils
/-! The group-counting loop of `aws_host_utils_is_ipv6` in closed form: it succeeds exactly when every run of
non-colon characters has at most 4 characters, there is at most one place where a colon follows a colon, and the
number of groups (colons + 1 − double colons) stays ≤ 8; the early exits inside the loop never reject more than the
final count would, because the running group count is monotone. -/
namespace AwsVerif.Proofs.C04
open AwsVerif.HostUtils

/-- number of `:` -/
def colons : List UInt8 → Nat
  | [] => 0
  | c :: t => (if c = colon then 1 else 0) + colons t

/-- number of positions where a colon directly follows a colon (`pc`: the character before the text was a colon) -/
def pairsFrom : Bool → List UInt8 → Nat
  | _, [] => 0
  | pc, c :: t => (if c = colon ∧ pc = true then 1 else 0) + pairsFrom (c == colon) t

/-- every run of non-colon characters (the first one continuing a run of `cur`) has at most 4 characters -/
def runsOk : Nat → List UInt8 → Bool
  | _, [] => true
  | cur, c :: t => if c = colon then runsOk 0 t else decide (cur + 1 ≤ 4) && runsOk (cur + 1) t

/-- length of the run of non-colon characters at the end -/
def trailing : Nat → List UInt8 → Nat
  | cur, [] => cur
  | cur, c :: t => if c = colon then trailing 0 t else trailing (cur + 1) t

theorem beq_colon_self : (colon == colon) = true := by decide

theorem pairsFrom_colon_true (t : List UInt8) : pairsFrom true (colon :: t) = 1 + pairsFrom true t := by
  simp [pairsFrom]
theorem pairsFrom_colon_false (t : List UInt8) : pairsFrom false (colon :: t) = pairsFrom true t := by
  simp [pairsFrom]
theorem pairsFrom_other (c : UInt8) (hc : c ≠ colon) (pc : Bool) (t : List UInt8) :
    pairsFrom pc (c :: t) = pairsFrom false t := by
  have : (c == colon) = false := by simpa using hc
  simp [pairsFrom, hc, this]
theorem colons_colon (t : List UInt8) : colons (colon :: t) = 1 + colons t := by simp [colons]
theorem colons_other (c : UInt8) (hc : c ≠ colon) (t : List UInt8) : colons (c :: t) = colons t := by simp [colons, hc]
theorem runsOk_colon (cur : Nat) (t : List UInt8) : runsOk cur (colon :: t) = runsOk 0 t := by simp [runsOk]
theorem runsOk_other (c : UInt8) (hc : c ≠ colon) (cur : Nat) (t : List UInt8) :
    runsOk cur (c :: t) = (decide (cur + 1 ≤ 4) && runsOk (cur + 1) t) := by simp [runsOk, hc]
theorem trailing_colon (cur : Nat) (t : List UInt8) : trailing cur (colon :: t) = trailing 0 t := by simp [trailing]
theorem trailing_other (c : UInt8) (hc : c ≠ colon) (cur : Nat) (t : List UInt8) :
    trailing cur (c :: t) = trailing (cur + 1) t := by simp [trailing, hc]

theorem pairsFrom_le_colons : ∀ (a : List UInt8) (pc : Bool), pairsFrom pc a ≤ colons a
  | [], _ => Nat.le_refl _
  | c :: t, pc => by
    by_cases hc : c = colon
    · subst hc
      have ih := pairsFrom_le_colons t true
      cases pc
      · rw [pairsFrom_colon_false, colons_colon]; omega
      · rw [pairsFrom_colon_true, colons_colon]; omega
    · have ih := pairsFrom_le_colons t false
      rw [pairsFrom_other c hc, colons_other c hc]; exact ih

def b2n (b : Bool) : Nat := if b then 1 else 0

/-- closed form of the loop -/
def scanSpec (pc : Bool) (a : List UInt8) (s : Scan) : Option Scan :=
  if runsOk s.digits a = true ∧ pairsFrom pc a + b2n s.dbl ≤ 1 ∧ s.groups + colons a ≤ 8 + pairsFrom pc a then
    some { groups := s.groups + colons a - pairsFrom pc a,
           digits := trailing s.digits a,
           dbl := s.dbl || decide (0 < pairsFrom pc a) }
  else none

theorem ite_some_congr {α : Type} {P Q : Prop} [Decidable P] [Decidable Q] {x y : α}
    (h : P ↔ Q) (hxy : P → x = y) : (if P then some x else none) = (if Q then some y else none) := by
  by_cases hp : P
  · rw [if_pos hp, if_pos (h.mp hp), hxy hp]
  · rw [if_neg hp, if_neg (fun hq => hp (h.mpr hq))]

theorem ite_none {α : Type} {Q : Prop} [Decidable Q] {y : α} (h : ¬ Q) : (none : Option α) = (if Q then some y else none) := by
  rw [if_neg h]

theorem scanList_eq_scanSpec : ∀ (a : List UInt8) (pc : Bool) (g d : Nat) (b : Bool), d ≤ 4 → g ≤ 8 →
    scanList pc a { groups := g, digits := d, dbl := b } = scanSpec pc a { groups := g, digits := d, dbl := b }
  | [], pc, g, d, b, hd, hg => by
    cases b <;> simp [scanList, scanSpec, runsOk, pairsFrom, colons, trailing, b2n, hg]
  | c :: t, pc, g, d, b, hd, hg => by
    by_cases hc : c = colon
    · subst hc
      have hle := pairsFrom_le_colons t true
      cases pc with
      | true =>
        cases b with
        | true =>
          -- a second double colon: the loop returns false; the closed form fails on `pairs + dbl ≤ 1`
          simp only [scanList, scanChar, beq_colon_self, Bool.and_self, if_true]
          unfold scanSpec
          apply ite_none
          simp only [pairsFrom_colon_true, b2n, if_true]
          rintro ⟨_, h2, _⟩
          omega
        | false =>
          have ih := scanList_eq_scanSpec t true g 0 true (by omega) hg
          have hck : ¬ (4 < 0 ∨ 8 < g) := by omega
          simp only [scanList, scanChar, beq_colon_self, Bool.and_self, if_true, Bool.false_eq_true, if_false, Scan.check,
            hck, ih]
          unfold scanSpec
          simp only [pairsFrom_colon_true, colons_colon, runsOk_colon, trailing_colon, b2n, if_true, Bool.false_eq_true,
            if_false]
          apply ite_some_congr
          · constructor
            · rintro ⟨h1, h2, h3⟩; exact ⟨h1, by omega, by omega⟩
            · rintro ⟨h1, h2, h3⟩; exact ⟨h1, by omega, by omega⟩
          · rintro ⟨_, h2, h3⟩
            have e : g + (1 + colons t) - (1 + pairsFrom true t) = g + colons t - pairsFrom true t := by omega
            have e4 : decide (0 < 1 + pairsFrom true t) = true := decide_eq_true (by omega)
            simp [e, e4]
      | false =>
        simp only [scanList, scanChar, beq_colon_self, Bool.and_false, Bool.false_eq_true, if_true, if_false, Scan.check]
        by_cases hk : 8 < g + 1
        · -- a ninth group: the loop returns false here; the closed form fails on the final count
          have hck : (4 < 0 ∨ 8 < g + 1) := Or.inr hk
          simp only [hck, if_true]
          unfold scanSpec
          apply ite_none
          simp only [pairsFrom_colon_false, colons_colon]
          rintro ⟨_, _, h3⟩
          omega
        · have hck : ¬ (4 < 0 ∨ 8 < g + 1) := by omega
          have ih := scanList_eq_scanSpec t true (g + 1) 0 b (by omega) (by omega)
          simp only [hck, if_false, ih]
          unfold scanSpec
          simp only [pairsFrom_colon_false, colons_colon, runsOk_colon, trailing_colon]
          apply ite_some_congr
          · constructor
            · rintro ⟨h1, h2, h3⟩; exact ⟨h1, by omega, by omega⟩
            · rintro ⟨h1, h2, h3⟩; exact ⟨h1, by omega, by omega⟩
          · rintro ⟨_, h2, h3⟩
            have e : g + (1 + colons t) - pairsFrom true t = g + 1 + colons t - pairsFrom true t := by omega
            simp [e]
    · have hbeq : (c == colon) = false := by simpa using hc
      simp only [scanList, scanChar, hc, if_false, Scan.check, hbeq, Bool.false_and]
      by_cases hk : 4 < d + 1
      · have hck : (4 < d + 1 ∨ 8 < g) := Or.inl hk
        simp only [hck, if_true]
        unfold scanSpec
        apply ite_none
        rw [runsOk_other c hc]
        have : ¬ (d + 1 ≤ 4) := by omega
        simp [this]
      · have hck : ¬ (4 < d + 1 ∨ 8 < g) := by omega
        have ih := scanList_eq_scanSpec t false g (d + 1) b (by omega) hg
        have hd1 : d + 1 ≤ 4 := by omega
        simp only [hck, if_false, ih]
        unfold scanSpec
        simp only [pairsFrom_other c hc, colons_other c hc, runsOk_other c hc, trailing_other c hc, hd1, decide_true,
          Bool.true_and]

/-- the loop as run by `addrScan` (from the initial locals, no previous character) -/
theorem scanList_init (a : List UInt8) :
    scanList false a {} =
      if runsOk 0 a = true ∧ pairsFrom false a ≤ 1 ∧ 1 + colons a ≤ 8 + pairsFrom false a then
        some { groups := 1 + colons a - pairsFrom false a, digits := trailing 0 a, dbl := decide (0 < pairsFrom false a) }
      else none := by
  have h := scanList_eq_scanSpec a false 1 0 false (by omega) (by omega)
  have e : ({} : Scan) = { groups := 1, digits := 0, dbl := false } := rfl
  rw [e, h]
  simp [scanSpec, b2n]

end AwsVerif.Proofs.C04
