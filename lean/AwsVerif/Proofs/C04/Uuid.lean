import AwsVerif.Model.Uuid
import AwsVerif.Model.HostUtils
/-! C04 / source/uuid.c and aws_host_utils_is_ipv4: the guarded memcpy never leaves the input, the output writes of
`aws_uuid_to_str` stay inside the capacity, and `from_str (to_str u) = u`. -/
namespace AwsVerif.Proofs.C04.UuidP
open AwsVerif.Uuid AwsVerif.Scanf

theorem bind_ok {α β : Type} (a : α) (f : α → M β) : ((Except.ok a : M α) >>= f) = f a := rfl

theorem rd_lt (inp : List UInt8) (i : Nat) (h : i < inp.length) : rd inp i = .ok inp[i] := by
  simp [rd, h]

/-- a guarded `memcpy` from inside the block reads exactly the requested bytes -/
theorem rdN_ok (inp : List UInt8) : ∀ (n off : Nat), off + n ≤ inp.length →
    rdN inp off n = .ok ((inp.drop off).take n)
  | 0, off, _ => by simp [rdN]
  | n + 1, off, h => by
    have ih := rdN_ok inp n (off + 1) (by omega)
    have hlt : off < inp.length := by omega
    rw [rdN, rd_lt inp off hlt, bind_ok, ih, bind_ok]
    have : List.drop off inp = inp[off] :: List.drop (off + 1) inp := (List.drop_eq_getElem_cons hlt)
    rw [this, List.take_succ_cons]

/-- verdict of the scan on a 36-byte text -/
def parse36 (t : List UInt8) : Except Err (List UInt8) :=
  match scanGroups groups (cstr t) with
  | some bytes => .ok bytes
  | none => .error .malformed

theorem fromStr_short (inp : List UInt8) (h : inp.length < 36) :
    fromStr inp = .ok ⟨.error .invalidBufferSize, []⟩ := by
  have : inp.length < STR_LEN - 1 := h
  simp [fromStr, this]

theorem fromStr_long (inp : List UInt8) (h : 36 ≤ inp.length) :
    fromStr inp = .ok ⟨parse36 (inp.take 36), List.range' 0 36⟩ := by
  have hn : ¬ inp.length < STR_LEN - 1 := by simp [STR_LEN]; omega
  have hr := rdN_ok inp 36 0 (by omega)
  simp only [List.drop_zero] at hr
  unfold fromStr
  rw [if_neg hn]
  show (rdN inp 0 36 >>= _) = _
  rw [hr, bind_ok]
  rfl

/-! ### to_str -/

theorem wr_ok (cells : List UInt8) (i : Nat) (v : UInt8) (h : i < cells.length) : wr cells i v = .ok (cells.set i v) := by
  simp [wr, h]

theorem wrAll_ok : ∀ (vs cells : List UInt8) (i : Nat), i + vs.length ≤ cells.length →
    wrAll cells i vs = .ok (cells.take i ++ vs ++ cells.drop (i + vs.length))
  | [], cells, i, _ => by simp [wrAll]
  | v :: vs, cells, i, h => by
    simp only [List.length_cons] at h
    have hi : i < cells.length := by omega
    have ih := wrAll_ok vs (cells.set i v) (i + 1) (by simp; omega)
    rw [wrAll, wr_ok cells i v hi, bind_ok, ih]
    congr 1
    simp only [List.length_cons]
    have h1 : List.take (i + 1) (cells.set i v) = List.take i cells ++ [v] := by
      rw [List.take_add_one]
      simp [hi, List.take_set_of_le]
    have h2 : List.drop (i + 1 + vs.length) (cells.set i v) = List.drop (i + (vs.length + 1)) cells := by
      rw [List.drop_set_of_lt (by omega)]
      congr 1; omega
    rw [h1, h2]
    simp

theorem fmtBytes_length (bs : List UInt8) : (fmtBytes bs).length = 2 * bs.length := by
  induction bs with
  | nil => rfl
  | cons b t ih => simp [fmtBytes, List.flatMap_cons, fmtByte] at ih ⊢; omega

theorem text_length (u : List UInt8) (hu : u.length = 16) : (text u).length = 36 := by
  simp [text, fmtBytes_length, hu]

/-- `aws_uuid_to_str` with enough room: 36 characters and a NUL land in `[len, len+37)`, nothing else changes -/
theorem toStr_ok (u cells : List UInt8) (len : Nat) (hu : u.length = 16) (h : len + 37 ≤ cells.length) :
    toStr u cells len = .ok (.ok (cells.take len ++ (text u ++ [0]) ++ cells.drop (len + 37), len + 36)) := by
  have hn : ¬ cells.length - len < STR_LEN := by simp [STR_LEN]; omega
  have hl : (text u ++ [0]).length = 37 := by simp [text_length u hu]
  have hw := wrAll_ok (text u ++ [0]) cells len (by rw [hl]; exact h)
  rw [hl] at hw
  unfold toStr
  rw [if_neg hn, hw, bind_ok]
  rfl

theorem toStr_short (u cells : List UInt8) (len : Nat) (h : cells.length - len < 37) :
    toStr u cells len = .ok (.error .shortBuffer) := by
  have : cells.length - len < STR_LEN := h
  simp [toStr, this]

/-! ### round trip -/

theorem hexDigit_facts : ∀ n, n < 16 →
    hexVal (hexDigit n) = some n ∧ isSpace (hexDigit n) = false ∧ hexDigit n ≠ plus ∧ hexDigit n ≠ minus ∧
    hexDigit n ≠ 120 ∧ hexDigit n ≠ 88 ∧ hexDigit n ≠ 0 := by decide

theorem byte_split (b : UInt8) : UInt8.ofNat (b.toNat / 16 * 16 + b.toNat % 16) = b := by
  rw [Nat.div_add_mod']
  exact UInt8.ofNat_toNat

theorem scanHex2_fmt (b : UInt8) (rest : List UInt8) : scanHex2 (fmtByte b ++ rest) = some (b, rest) := by
  have hb := UInt8.toNat_lt b
  obtain ⟨v1, s1, p1, m1, _, _, _⟩ := hexDigit_facts (b.toNat / 16) (by omega)
  obtain ⟨v2, _, _, _, x2, X2, _⟩ := hexDigit_facts (b.toNat % 16) (by omega)
  simp only [fmtByte, List.cons_append, List.nil_append, scanHex2, skipWs, s1, Bool.false_eq_true, if_false]
  have hs : ¬ (hexDigit (b.toNat / 16) = plus ∨ hexDigit (b.toNat / 16) = minus) := by
    rintro (h | h)
    · exact p1 h
    · exact m1 h
  rw [if_neg hs]
  simp only [v1, v2]
  have hx : ¬ (b.toNat / 16 = 0 ∧ (hexDigit (b.toNat % 16) = 120 ∨ hexDigit (b.toNat % 16) = 88)) := by
    rintro ⟨_, h | h⟩
    · exact x2 h
    · exact X2 h
  rw [if_neg hx, byte_split]

theorem scanN_fmt : ∀ (bs rest : List UInt8), scanN bs.length (fmtBytes bs ++ rest) = some (bs, rest)
  | [], rest => by simp [scanN, fmtBytes]
  | b :: t, rest => by
    have ih := scanN_fmt t rest
    have : fmtBytes (b :: t) ++ rest = fmtByte b ++ (fmtBytes t ++ rest) := by
      simp [fmtBytes, List.flatMap_cons]
    rw [this, List.length_cons, scanN, scanHex2_fmt]
    simp only [ih]

theorem scanGroups_last (x : List UInt8) (g : Nat) (hx : x.length = g) : scanGroups [g] (fmtBytes x) = some x := by
  subst hx
  have := scanN_fmt x []
  simp only [List.append_nil] at this
  simp [scanGroups, this]

theorem scanGroups_step (x rest : List UInt8) (g g' : Nat) (gs : List Nat) (hx : x.length = g) :
    scanGroups (g :: g' :: gs) (fmtBytes x ++ minus :: rest) = (scanGroups (g' :: gs) rest).map (x ++ ·) := by
  subst hx
  simp [scanGroups, scanN_fmt x (minus :: rest)]

theorem fmtBytes_no_nul (bs : List UInt8) : ∀ c ∈ fmtBytes bs, c ≠ 0 := by
  intro c hc
  simp only [fmtBytes, List.mem_flatMap, fmtByte] at hc
  obtain ⟨b, _, hcb⟩ := hc
  have hb := UInt8.toNat_lt b
  simp only [List.mem_cons, List.not_mem_nil, or_false] at hcb
  rcases hcb with rfl | rfl
  · exact (hexDigit_facts (b.toNat / 16) (by omega)).2.2.2.2.2.2
  · exact (hexDigit_facts (b.toNat % 16) (by omega)).2.2.2.2.2.2

theorem cstr_of_no_nul : ∀ (s : List UInt8), (∀ c ∈ s, c ≠ 0) → cstr s = s
  | [], _ => rfl
  | c :: t, h => by
    have hc : c ≠ 0 := h c List.mem_cons_self
    have ih := cstr_of_no_nul t (fun d hd => h d (List.mem_cons_of_mem _ hd))
    simp only [cstr, ne_eq, decide_not] at ih ⊢
    simp [List.takeWhile, hc, ih]

theorem text_no_nul (u : List UInt8) : ∀ c ∈ text u, c ≠ 0 := by
  intro c hc
  simp only [text, List.mem_append, List.mem_singleton] at hc
  have hm : minus ≠ 0 := by decide
  rcases hc with (((((((h | h) | h) | h) | h) | h) | h) | h) | h
  all_goals first | exact fmtBytes_no_nul _ c h | (rw [h]; exact hm)

/-- parsing the text `aws_uuid_to_str` prints gives back the 16 bytes -/
theorem parse_text (u : List UInt8) (hu : u.length = 16) : parse36 (text u) = .ok u := by
  unfold parse36
  rw [cstr_of_no_nul _ (text_no_nul u)]
  have e1 : (u.take 4).length = 4 := by simp [hu]
  have e2 : ((u.drop 4).take 2).length = 2 := by simp [hu]
  have e3 : ((u.drop 6).take 2).length = 2 := by simp [hu]
  have e4 : ((u.drop 8).take 2).length = 2 := by simp [hu]
  have e5 : ((u.drop 10).take 6).length = 6 := by simp [hu]
  have hjoin : u.take 4 ++ ((u.drop 4).take 2 ++ ((u.drop 6).take 2 ++ ((u.drop 8).take 2 ++ (u.drop 10).take 6))) = u := by
    have h10 : (u.drop 10).take 6 = u.drop 10 := List.take_of_length_le (by simp [hu])
    rw [h10]
    have a : (u.drop 8).take 2 ++ u.drop 10 = u.drop 8 := by
      have := List.take_append_drop 2 (u.drop 8); rwa [List.drop_drop] at this
    have b : (u.drop 6).take 2 ++ u.drop 8 = u.drop 6 := by
      have := List.take_append_drop 2 (u.drop 6); rwa [List.drop_drop] at this
    have c : (u.drop 4).take 2 ++ u.drop 6 = u.drop 4 := by
      have := List.take_append_drop 2 (u.drop 4); rwa [List.drop_drop] at this
    rw [a, b, c, List.take_append_drop]
  have hs : scanGroups groups (text u) = some u := by
    unfold groups text
    simp only [List.append_assoc, List.cons_append, List.nil_append]
    rw [scanGroups_step _ _ _ _ _ e1, scanGroups_step _ _ _ _ _ e2, scanGroups_step _ _ _ _ _ e3,
      scanGroups_step _ _ _ _ _ e4, scanGroups_last _ _ e5]
    simp only [Option.map_some]
    rw [hjoin]
  rw [hs]

end AwsVerif.Proofs.C04.UuidP
