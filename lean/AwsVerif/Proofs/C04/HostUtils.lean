import AwsVerif.Model.HostUtils
/-! Lemmas for C04 / `aws_host_utils_is_ipv6`: every loop of the checked-cursor model, run on a cursor that
lies inside the input, returns (no fault) the value of the corresponding plain list function. -/
namespace AwsVerif.Proofs.C04
open AwsVerif.HostUtils

theorem bind_ok {α β : Type} (a : α) (f : α → M β) : ((Except.ok a : M α) >>= f) = f a := rfl

theorem rd_mid (pre : List UInt8) (b : UInt8) (t : List UInt8) : rd (pre ++ b :: t) pre.length = .ok b := by
  simp [rd]

theorem rd_lt (inp : List UInt8) (i : Nat) (h : i < inp.length) : rd inp i = .ok inp[i] := by
  simp [rd, h]

theorem rd_some (inp : List UInt8) (i : Nat) (b : UInt8) (h : inp[i]? = some b) : rd inp i = .ok b := by
  simp [rd, h]

theorem memchr_ok (c : UInt8) : ∀ (n : Nat) (pre suf : List UInt8), n ≤ suf.length →
    memchr (pre ++ suf) c pre.length n = .ok (idxOf? c (suf.take n))
  | 0, pre, suf, _ => by simp [memchr, idxOf?]
  | n + 1, pre, [], h => by simp at h
  | n + 1, pre, b :: t, h => by
    have ih := memchr_ok c n (pre ++ [b]) t (by simpa using h)
    simp only [List.append_assoc, List.singleton_append, List.length_append, List.length_singleton] at ih
    simp only [memchr, rd_mid, bind_ok, List.take_succ_cons, idxOf?]
    by_cases hb : b = c
    · simp [hb]
    · simp [hb, ih, bind_ok]

theorem trimLeft_ok (pred : UInt8 → Bool) : ∀ (n : Nat) (pre suf : List UInt8), n ≤ suf.length →
    ∃ r, trimLeft (pre ++ suf) pred pre.length n = .ok r ∧ ((r == 0) = (suf.take n).all pred)
  | 0, pre, suf, _ => ⟨0, by simp [trimLeft], by simp⟩
  | n + 1, pre, [], h => by simp at h
  | n + 1, pre, b :: t, h => by
    obtain ⟨r, hr, hall⟩ := trimLeft_ok pred n (pre ++ [b]) t (by simpa using h)
    simp only [List.append_assoc, List.singleton_append, List.length_append, List.length_singleton] at hr
    by_cases hb : pred b = true
    · refine ⟨r, ?_, ?_⟩
      · simp only [trimLeft, rd_mid, bind_ok, hb, if_true, hr]
      · simp [List.take_succ_cons, hb, hall]
    · refine ⟨n + 1, ?_, ?_⟩
      · simp only [trimLeft, rd_mid, bind_ok, hb]
        simp
      · simp [List.take_succ_cons, hb]

theorem satisfiesPred_ok (pred : UInt8 → Bool) (n : Nat) (pre suf : List UInt8) (h : n ≤ suf.length) :
    satisfiesPred (pre ++ suf) pred pre.length n = .ok ((suf.take n).all pred) := by
  obtain ⟨r, hr, hall⟩ := trimLeft_ok pred n pre suf h
  simp only [satisfiesPred, hr, bind_ok, hall]

theorem getLast?_snoc_beq (pre : List UInt8) (c : UInt8) :
    ((pre ++ [c]).getLast? == some colon) = (c == colon) := by
  simp

theorem scanFrom_ok : ∀ (k : Nat) (pre suf : List UInt8) (s : Scan), k ≤ suf.length →
    scanFrom (pre ++ suf) pre.length k s = .ok (scanList (pre.getLast? == some colon) (suf.take k) s)
  | 0, pre, suf, s, _ => by simp [scanFrom, scanList]
  | k + 1, pre, [], s, h => by simp at h
  | k + 1, pre, c :: t, s, h => by
    have hprev : (if c = colon ∧ 0 < pre.length then
                    rd (pre ++ c :: t) (pre.length - 1) >>= fun p => (Except.ok (p == colon) : M Bool)
                  else .ok false) = .ok (c == colon && (pre.getLast? == some colon)) := by
      by_cases hc : c = colon
      · subst hc
        rcases List.eq_nil_or_concat pre with rfl | ⟨l, a, rfl⟩
        · simp
        · have := rd_mid l a (colon :: t)
          simp [this, bind_ok]
      · simp [hc]
    simp only [scanFrom, rd_mid, bind_ok, hprev, List.take_succ_cons, scanList]
    cases hsc : scanChar c (c == colon && (pre.getLast? == some colon)) s with
    | none => rfl
    | some s' =>
      have ih := scanFrom_ok k (pre ++ [c]) t s' (by simpa using h)
      simp only [List.append_assoc, List.singleton_append, List.length_append, List.length_singleton] at ih
      simp only [ih, getLast?_snoc_beq]

theorem rd_left (a rest : List UInt8) (i : Nat) (h : i < a.length) : rd (a ++ rest) i = .ok a[i] := by
  apply rd_some
  rw [List.getElem?_append_left h]
  exact List.getElem?_eq_getElem h

/-- `x == ':' && ptr[j] != ':'` with the C short-circuit: `ptr[j]` is read only when `x` is a colon -/
theorem ite_rd_ne (a rest : List UInt8) (v : UInt8) (j : Nat) (hj : j < a.length) :
    (if v = colon then rd (a ++ rest) j >>= fun c => (Except.ok (c != colon) : M Bool) else .ok false)
      = .ok (some v == some colon && a[j]? != some colon) := by
  rw [rd_left a rest j hj, bind_ok, List.getElem?_eq_getElem hj]
  by_cases hv : v = colon <;> simp [hv, bne]

/-- the address phase on the cursor `(0, a.length)` of the block `a ++ rest` -/
theorem addrCheck_ok (a rest : List UInt8) : addrCheck (a ++ rest) a.length = .ok (addrScan a) := by
  unfold addrCheck addrScan
  by_cases hlen : a.length < 2 ∨ 39 < a.length
  · rw [if_pos hlen, if_pos hlen]
  · rw [if_neg hlen, if_neg hlen]
    have h0 : 0 < a.length := by omega
    have h1 : 1 < a.length := by omega
    have hl1 : a.length - 1 < a.length := by omega
    have hl2 : a.length - 2 < a.length := by omega
    have hsat := satisfiesPred_ok isIpv6Char a.length [] (a ++ rest) (by simp)
    simp only [List.nil_append, List.length_nil, List.take_left'] at hsat
    rw [hsat, bind_ok]
    by_cases hall : a.all isIpv6Char = true
    · rw [hall]
      simp only [Bool.not_true, Bool.false_eq_true, if_false]
      rw [rd_left a rest 0 h0, bind_ok, ite_rd_ne a rest a[0] 1 h1, bind_ok, List.getElem?_eq_getElem h0]
      cases hbs : (some a[0] == some colon && a[1]? != some colon) with
      | true => simp only [if_true]
      | false =>
        simp only [Bool.false_eq_true, if_false]
        rw [rd_left a rest (a.length - 1) hl1, bind_ok, ite_rd_ne a rest a[a.length - 1] (a.length - 2) hl2, bind_ok,
          List.getElem?_eq_getElem hl1]
        cases hbe : (some a[a.length - 1] == some colon && a[a.length - 2]? != some colon) with
        | true => simp only [if_true]
        | false =>
          simp only [Bool.false_eq_true, if_false]
          have hs := scanFrom_ok a.length [] (a ++ rest) {} (by simp)
          simp only [List.nil_append, List.length_nil, List.take_left', List.getLast?_nil] at hs
          rw [hs]
          rfl
    · have : a.all isIpv6Char = false := by simpa using hall
      rw [this]
      simp only [Bool.not_false, if_true]

theorem idxOf?_lt (c : UInt8) : ∀ (l : List UInt8) (i : Nat), idxOf? c l = some i → i < l.length
  | [], i, h => by simp [idxOf?] at h
  | b :: t, i, h => by
    by_cases hb : b = c
    · simp [idxOf?, hb] at h; subst h; simp
    · simp only [idxOf?, hb, if_false, Option.map_eq_some_iff] at h
      obtain ⟨j, hj, rfl⟩ := h
      have := idxOf?_lt c t j hj
      simp; omega

/-- decomposition at the first occurrence -/
theorem idxOf?_split (c : UInt8) : ∀ (l : List UInt8) (i : Nat), idxOf? c l = some i →
    l = l.take i ++ c :: l.drop (i + 1) ∧ idxOf? c (l.take i) = none
  | [], i, h => by simp [idxOf?] at h
  | b :: t, i, h => by
    by_cases hb : b = c
    · simp [idxOf?, hb] at h; subst h; simp [hb, idxOf?]
    · simp only [idxOf?, hb, if_false, Option.map_eq_some_iff] at h
      obtain ⟨j, hj, rfl⟩ := h
      obtain ⟨h1, h2⟩ := idxOf?_split c t j hj
      refine ⟨?_, ?_⟩
      · simp only [List.take_succ_cons, List.drop_succ_cons, List.cons_append]
        rw [← h1]
      · simp [List.take_succ_cons, idxOf?, hb, h2]

theorem idxOf?_append_none (c : UInt8) : ∀ (a rest : List UInt8), idxOf? c a = none →
    idxOf? c (a ++ rest) = (idxOf? c rest).map (· + a.length)
  | [], rest, _ => by simp
  | b :: t, rest, h => by
    by_cases hb : b = c
    · simp [idxOf?, hb] at h
    · simp only [idxOf?, hb, if_false, Option.map_eq_none_iff] at h
      have ih := idxOf?_append_none c t rest h
      simp only [List.cons_append, idxOf?, hb, if_false, ih, Option.map_map, List.length_cons]
      congr 1

theorem zoneCheck_ok (enc : Bool) (pre z rest : List UInt8) :
    zoneCheck (pre ++ (z ++ rest)) enc pre.length z.length = .ok (zoneOk enc z) := by
  have hsat := satisfiesPred_ok isAlnum z.length pre (z ++ rest) (by simp)
  have htake : List.take z.length (z ++ rest) = z := by simp
  rw [htake] at hsat
  unfold zoneCheck zoneOk
  cases enc with
  | false =>
    simp only [Bool.false_eq_true, if_false, bind_ok]
    by_cases hz : z.length = 0
    · have : z = [] := List.length_eq_zero_iff.mp hz
      subst this
      simp
    · have h1 : 1 ≤ z.length := by omega
      simp [hz, h1, hsat]
  | true =>
    match z, hsat with
    | [], _ => simp [bind_ok]
    | [_], _ => simp [bind_ok]
    | [_, _], _ => simp [bind_ok]
    | x :: y :: w :: tl, hsat =>
      have h3 : ¬ ((x :: y :: w :: tl).length < 3) := by simp
      have r0 : rd (pre ++ (x :: y :: w :: tl ++ rest)) pre.length = .ok x := by
        simpa using rd_mid pre x (y :: w :: tl ++ rest)
      have r1 : rd (pre ++ (x :: y :: w :: tl ++ rest)) (pre.length + 1) = .ok y := by
        have := rd_mid (pre ++ [x]) y (w :: tl ++ rest)
        simpa [List.append_assoc] using this
      simp only [if_true, if_neg h3, r0, r1, bind_ok]
      by_cases hxy : (x == ch2 && y == ch5) = true
      · rw [hxy]
        simp only [Bool.not_true, Bool.false_eq_true, if_false]
        rw [hsat]
        simp at hxy
        simp [hxy.1, hxy.2]
      · have hxy' : (x == ch2 && y == ch5) = false := by simpa using hxy
        rw [hxy']
        simp only [Bool.not_false, if_true]
        have : ((x :: y :: w :: tl)[0]? == some ch2 && (x :: y :: w :: tl)[1]? == some ch5) = false := by
          simpa using hxy'
        rw [this]
        simp

/-- the zone text of the remainder `r` after the first `%` -/
def zoneOf (r : List UInt8) : List UInt8 :=
  match idxOf? pct r with
  | some j => r.take j
  | none => r

theorem idxOf?_self_append (a r : List UInt8) (h : idxOf? pct a = none) : idxOf? pct (a ++ pct :: r) = some a.length := by
  rw [idxOf?_append_none pct a (pct :: r) h]
  simp [idxOf?]

/-- no `%` in a non-empty input: the whole input is the address -/
theorem isIpv6_no_pct (a : List UInt8) (enc : Bool) (h : idxOf? pct a = none) (hne : a ≠ []) :
    isIpv6 a enc = .ok (addrOk a) := by
  have hlen : a.length ≠ 0 := by
    intro h0; exact hne (List.length_eq_zero_iff.mp h0)
  have hm := memchr_ok pct a.length [] a (Nat.le_refl _)
  simp only [List.nil_append, List.length_nil, List.take_length] at hm
  have hac := addrCheck_ok a []
  simp only [List.append_nil] at hac
  unfold isIpv6
  simp only [hlen, if_false, hm, h, bind_ok, Option.getD_none, hac]
  unfold addrOk
  cases addrScan a with
  | none => rfl
  | some s =>
    have : ¬ (a.length + 1 ≤ a.length) := by omega
    simp only [this, if_false]

/-- a first `%` after the address text `a`: the zone text is checked too -/
theorem isIpv6_pct (a r : List UInt8) (enc : Bool) (h : idxOf? pct a = none) :
    isIpv6 (a ++ pct :: r) enc = .ok (addrOk a && zoneOk enc (zoneOf r)) := by
  have hlen : (a ++ pct :: r).length ≠ 0 := by simp
  have hm := memchr_ok pct (a ++ pct :: r).length [] (a ++ pct :: r) (Nat.le_refl _)
  simp only [List.nil_append, List.length_nil, List.take_length] at hm
  have hac := addrCheck_ok a (pct :: r)
  unfold isIpv6
  simp only [hlen, if_false, hm, idxOf?_self_append a r h, bind_ok, Option.getD_some, hac]
  unfold addrOk
  cases addrScan a with
  | none => rfl
  | some s =>
    have hle : a.length + 1 ≤ (a ++ pct :: r).length := by simp
    have hsub : (a ++ pct :: r).length - (a.length + 1) = r.length := by simp; omega
    simp only [hle, if_true, hsub]
    -- the block seen from the second split: (a ++ [pct]) ++ r
    have hblk : a ++ pct :: r = (a ++ [pct]) ++ r := by simp
    have hoff : a.length + 1 = (a ++ [pct]).length := by simp
    have hm2 := memchr_ok pct r.length (a ++ [pct]) r (Nat.le_refl _)
    simp only [List.take_length] at hm2
    rw [hblk, hoff, hm2, bind_ok]
    unfold zoneOf
    cases hg : idxOf? pct r with
    | none =>
      have hz := zoneCheck_ok enc (a ++ [pct]) r []
      simp only [List.append_nil] at hz
      simp only [Option.getD_none, hz, bind_ok]
      cases zoneOk enc r <;> simp
    | some j =>
      obtain ⟨hr, _⟩ := idxOf?_split pct r j hg
      have hj : j < r.length := idxOf?_lt pct r j hg
      have hz := zoneCheck_ok enc (a ++ [pct]) (r.take j) (pct :: r.drop (j + 1))
      rw [← hr] at hz
      have htl : (r.take j).length = j := by simp; omega
      rw [htl] at hz
      simp only [Option.getD_some, hz, bind_ok]
      cases zoneOk enc (List.take j r) <;> simp

theorem spec_no_pct (a : List UInt8) (enc : Bool) (h : idxOf? pct a = none) (hne : a ≠ []) :
    spec a enc = addrOk a := by
  have : a.isEmpty = false := by
    cases a with
    | nil => exact absurd rfl hne
    | cons _ _ => rfl
  simp [spec, addrPart, zonePart, h, this]

theorem spec_pct (a r : List UInt8) (enc : Bool) (h : idxOf? pct a = none) :
    spec (a ++ pct :: r) enc = (addrOk a && zoneOk enc (zoneOf r)) := by
  have he : (a ++ pct :: r).isEmpty = false := by cases a <;> rfl
  have hd : List.drop (a.length + 1) (a ++ pct :: r) = r := by
    have : a ++ pct :: r = (a ++ [pct]) ++ r := by simp
    rw [this]
    have hl : a.length + 1 = (a ++ [pct]).length := by simp
    rw [hl, List.drop_left' rfl]
  simp only [spec, addrPart, zonePart, idxOf?_self_append a r h, he, Bool.not_false, Bool.true_and, List.take_left', hd]
  rfl

/-- the checked-cursor run never faults and returns exactly the cursor-free specification -/
theorem isIpv6_eq_spec (inp : List UInt8) (enc : Bool) : isIpv6 inp enc = .ok (spec inp enc) := by
  cases hf : idxOf? pct inp with
  | none =>
    by_cases hne : inp = []
    · subst hne; rfl
    · rw [isIpv6_no_pct inp enc hf hne, spec_no_pct inp enc hf hne]
  | some i =>
    obtain ⟨h1, h2⟩ := idxOf?_split pct inp i hf
    generalize inp.take i = a at h1 h2
    generalize inp.drop (i + 1) = r at h1
    subst h1
    rw [isIpv6_pct a r enc h2, spec_pct a r enc h2]

/-! ### aws_host_utils_is_ipv4 -/

theorem rdN_ok (inp : List UInt8) : ∀ (n off : Nat), off + n ≤ inp.length →
    rdN inp off n = .ok ((inp.drop off).take n)
  | 0, off, _ => by simp [rdN]
  | n + 1, off, h => by
    have ih := rdN_ok inp n (off + 1) (by omega)
    have hlt : off < inp.length := by omega
    rw [rdN, rd_lt inp off hlt, bind_ok, ih, bind_ok]
    have : List.drop off inp = inp[off] :: List.drop (off + 1) inp := (List.drop_eq_getElem_cons hlt)
    rw [this, List.take_succ_cons]

/-- longer than 15 bytes: refused without touching the input; otherwise exactly the `len` bytes are copied and the
verdict is the scan of the local copy -/
theorem isIpv4_eq (inp : List UInt8) :
    isIpv4 inp = .ok (if 15 < inp.length then ⟨false, []⟩
                      else ⟨ipv4Text (AwsVerif.Scanf.cstr inp), List.range' 0 inp.length⟩) := by
  unfold isIpv4
  by_cases h : 15 < inp.length
  · have : IPV4_STR_LEN - 1 < inp.length := h
    rw [if_pos this, if_pos h]
  · have : ¬ IPV4_STR_LEN - 1 < inp.length := h
    rw [if_neg this, if_neg h]
    have hr := rdN_ok inp inp.length 0 (by omega)
    simp only [List.drop_zero, List.take_length] at hr
    rw [hr, bind_ok]

end AwsVerif.Proofs.C04
