import AwsVerif.Gen.CborConsts
import AwsVerif.Proofs.C10.GenBridge
/-!
C04 / CBOR: `cbor_stream_decode` (libcbor streaming.c) claims exactly the bytes it reads and never reads beyond
`source_size`, for ALL 256 initial bytes.

The switch of `cbor_stream_decode` is not transcribed by hand here: `AwsVerif.Gen.Cbor.decodeTable` (one row per
initial byte: literal length claimed, loader and the bytes it reads, string payload, data offset) and
`AwsVerif.Gen.Cbor.claimBytes` (the test of `claim_bytes`) are regenerated from /repo's streaming.c / loaders.c on every
run (gen/cbor_gen.py).  `streamDecode` below *interprets* a row over a checked memory: the source is one object
`src : List UInt8` (`source_size = src.length`), every byte the decoder dereferences — the initial byte `*source`
and the bytes the loader reads at `source + loadOff … + loadWidth` — goes through `rd`, which faults outside
`src`.  String payloads are not dereferenced by the decoder; they are handed to the callback as the view
`(dataOff, length)`.

An edit of a claim in streaming.c (e.g. `claim_bytes(1, …)` in front of `_cbor_load_half`, which reads 2 bytes) changes
the generated row, `table_rows_safe` (a `decide` over the whole table) stops holding, and the theorems of
Props/C04.lean that quote it no longer compile.
-/
namespace AwsVerif.Proofs.C04.CborHeads
open AwsVerif.Gen.Cbor

inductive Fault where
  | oob (off : Nat)
deriving Repr, DecidableEq

abbrev M := Except Fault

def rd (src : List UInt8) (i : Nat) : M UInt8 :=
  match src[i]? with
  | some b => .ok b
  | none => .error (.oob i)

/-- the loader's reads `*(source + off) … *(source + off + w - 1)` -/
def rdAll (src : List UInt8) : (off w : Nat) → M (List UInt8)
  | _, 0 => .ok []
  | off, w + 1 => rd src off >>= fun b => rdAll src (off + 1) w >>= fun t => .ok (b :: t)

def loadBE (bs : List UInt8) : Nat := bs.foldl (fun acc b => acc * 256 + b.toNat) 0

inductive Status where
  | finished | nedata | error
deriving Repr, DecidableEq

/-- `struct cbor_decoder_result` plus ghost data: the offsets dereferenced and the string view handed to the callback -/
structure Out where
  status : Status
  read : Nat
  reads : List Nat
  view : Option (Nat × Nat)
deriving Repr, DecidableEq

/-- one case of the switch, as described by its generated row; `b0 = *source` -/
def interpRow (r : Row) (b0 : UInt8) (src : List UInt8) : M Out :=
  if r.error then .ok ⟨.error, 0, [0], none⟩ else
  if 0 < r.claim ∧ claimBytes r.claim src.length 1 = false then .ok ⟨.nedata, 0, [0], none⟩ else
  let read1 := 1 + r.claim
  rdAll src r.loadOff r.loadWidth >>= fun bytes =>
  let reads := 0 :: List.range' r.loadOff r.loadWidth
  if r.payload then
    let length := if r.loadOff = 0 then b0.toNat - r.sub else loadBE bytes
    if claimBytes length src.length read1 = false then .ok ⟨.nedata, 0, reads, none⟩
    else .ok ⟨.finished, read1 + length, reads, some (r.dataOff, length)⟩
  else .ok ⟨.finished, read1, reads, none⟩

def errorRow : Row := ⟨true, 0, false, "", 0, 0, 0, "", 0, 0⟩

/-- `cbor_stream_decode(source, source_size, …)` up to the callback -/
def streamDecode (src : List UInt8) : M Out :=
  if claimBytes 1 src.length 0 = false then .ok ⟨.nedata, 0, [], none⟩ else
  rd src 0 >>= fun b0 => interpRow (decodeTable.getD b0.toNat errorRow) b0 src

/-- what a row must satisfy for its case to be memory-safe: the loader reads nothing, or the initial byte, or exactly
the claimed bytes behind it; string data starts right behind the claimed length bytes -/
def rowSafe (r : Row) : Bool :=
  r.error ||
  (((r.loadWidth == 0 && r.claim == 0 && r.loadOff == 0) ||
    (r.loadOff == 0 && r.loadWidth == 1 && r.claim == 0) ||
    (r.loadOff == 1 && r.loadWidth == r.claim)) &&
   (!r.payload || r.dataOff == 1 + r.claim))

set_option maxRecDepth 8000 in
/-- every row of the table regenerated from the current streaming.c is safe -/
theorem table_rows_safe : decodeTable.all rowSafe = true := by decide

theorem errorRow_safe : rowSafe errorRow = true := by decide

theorem row_of_byte_safe (b0 : UInt8) : rowSafe (decodeTable.getD b0.toNat errorRow) = true := by
  rw [List.getD_eq_getElem?_getD]
  cases h : decodeTable[b0.toNat]? with
  | none => exact errorRow_safe
  | some r =>
    have hm : r ∈ decodeTable := List.mem_of_getElem? h
    exact (List.all_eq_true.mp table_rows_safe) r hm

theorem bind_ok {α β : Type} (a : α) (f : α → M β) : ((Except.ok a : M α) >>= f) = f a := rfl

theorem rd_lt (src : List UInt8) (i : Nat) (h : i < src.length) : rd src i = .ok src[i] := by
  simp [rd, h]

theorem rdAll_ok (src : List UInt8) : ∀ (w off : Nat), off + w ≤ src.length → ∃ bs, rdAll src off w = .ok bs
  | 0, _, _ => ⟨[], rfl⟩
  | w + 1, off, h => by
    obtain ⟨t, ht⟩ := rdAll_ok src w (off + 1) (by omega)
    exact ⟨src[off]'(by omega) :: t, by rw [rdAll, rd_lt src off (by omega), bind_ok, ht, bind_ok]⟩

/-- the claims of one run: what a finished / unfinished result guarantees -/
structure Good (src : List UInt8) (o : Out) : Prop where
  read_le : o.read ≤ src.length
  reads_in : ∀ i ∈ o.reads, i < src.length
  unfinished : o.status ≠ .finished → o.read = 0 ∧ o.view = none
  reads_claimed : o.status = .finished → ∀ i ∈ o.reads, i < o.read
  claimed_used : o.status = .finished → ∀ i, i < o.read →
    i ∈ o.reads ∨ ∃ off len, o.view = some (off, len) ∧ off ≤ i ∧ i < off + len
  view_in : ∀ off len, o.view = some (off, len) → o.status = .finished ∧ off + len = o.read

theorem mem_range' {i off w : Nat} : i ∈ List.range' off w ↔ off ≤ i ∧ i < off + w := by
  simp [List.mem_range']
  constructor
  · rintro ⟨k, hk, rfl⟩; omega
  · rintro ⟨h1, h2⟩; exact ⟨i - off, by omega, by omega⟩

theorem good_unfinished (src : List UInt8) (st : Status) (reads : List Nat) (hst : st ≠ .finished)
    (hr : ∀ i ∈ reads, i < src.length) : Good src ⟨st, 0, reads, none⟩ :=
  { read_le := Nat.zero_le _
    reads_in := hr
    unfinished := fun _ => ⟨rfl, rfl⟩
    reads_claimed := fun h => absurd h hst
    claimed_used := fun h => absurd h hst
    view_in := fun _ _ h => by cases h }

theorem interpRow_good (r : Row) (hs : rowSafe r = true) (b0 : UInt8) (src : List UInt8)
    (h1 : 1 ≤ src.length) (hl : src.length < 2 ^ 64) :
    ∃ o, interpRow r b0 src = .ok o ∧ Good src o := by
  unfold interpRow
  by_cases he : r.error = true
  · refine ⟨_, by rw [if_pos he], ?_⟩
    exact good_unfinished src .error [0] (by decide) (by intro i hi; simp at hi; omega)
  · rw [if_neg he]
    have he' : r.error = false := by simpa using he
    simp only [rowSafe, he', Bool.false_or, Bool.and_eq_true, Bool.or_eq_true, beq_iff_eq, Bool.not_eq_eq_eq_not,
      Bool.not_true] at hs
    obtain ⟨hshape, hdata⟩ := hs
    by_cases hc : 0 < r.claim ∧ claimBytes r.claim src.length 1 = false
    · refine ⟨_, by rw [if_pos hc], ?_⟩
      exact good_unfinished src .nedata [0] (by decide) (by intro i hi; simp at hi; omega)
    · rw [if_neg hc]
      -- the literal claim succeeded: 1 + claim ≤ source_size
      have hclaim : 1 + r.claim ≤ src.length := by
        by_cases h0 : r.claim = 0
        · omega
        · have : claimBytes r.claim src.length 1 = true := by
            cases hcb : claimBytes r.claim src.length 1 with
            | true => rfl
            | false => exact absurd ⟨by omega, hcb⟩ hc
          rw [AwsVerif.Proofs.C10.gen_claim_bytes _ _ _ h1 hl] at this
          have := of_decide_eq_true this
          omega
      -- the loader's reads stay inside the claimed bytes
      have hload : r.loadOff + r.loadWidth ≤ 1 + r.claim := by
        rcases hshape with (⟨⟨hw, hcl⟩, ho⟩ | ⟨⟨ho, hw⟩, hcl⟩) | ⟨ho, hw⟩ <;> omega
      obtain ⟨bytes, hb⟩ := rdAll_ok src r.loadWidth r.loadOff (by omega)
      rw [hb, bind_ok]
      have hreads_in : ∀ i ∈ (0 :: List.range' r.loadOff r.loadWidth), i < 1 + r.claim := by
        intro i hi
        rcases List.mem_cons.mp hi with rfl | hi
        · omega
        · have := mem_range'.mp hi; omega
      -- every claimed header byte is dereferenced
      have hcover : ∀ i, i < 1 + r.claim → i ∈ (0 :: List.range' r.loadOff r.loadWidth) := by
        intro i hi
        by_cases hi0 : i = 0
        · subst hi0; exact List.mem_cons_self
        · apply List.mem_cons_of_mem
          apply mem_range'.mpr
          rcases hshape with (⟨⟨hw, hcl⟩, ho⟩ | ⟨⟨ho, hw⟩, hcl⟩) | ⟨ho, hw⟩ <;> omega
      by_cases hp : r.payload = true
      · simp only [hp, if_true]
        have hdo : r.dataOff = 1 + r.claim := by
          rcases hdata with h | h
          · rw [hp] at h; cases h
          · exact h
        generalize hlen : (if r.loadOff = 0 then b0.toNat - r.sub else loadBE bytes) = length
        cases hcb : claimBytes length src.length (1 + r.claim) with
        | false =>
          refine ⟨_, (by rw [if_pos rfl]), ?_⟩
          exact good_unfinished src .nedata _ (by decide) (by intro i hi; have := hreads_in i hi; omega)
        | true =>
          rw [AwsVerif.Proofs.C10.gen_claim_bytes _ _ _ hclaim hl] at hcb
          have hfit := of_decide_eq_true hcb
          refine ⟨_, (by rw [if_neg (by decide)]), ?_⟩
          refine ⟨(by simp; omega), (by intro i hi; have := hreads_in i hi; omega), (by intro h; exact absurd rfl h),
            (by intro _ i hi; have := hreads_in i hi; simp; omega), ?_, ?_⟩
          · intro _ i hi
            by_cases hh : i < 1 + r.claim
            · exact Or.inl (hcover i hh)
            · refine Or.inr ⟨r.dataOff, length, rfl, by omega, by simp at hi; omega⟩
          · intro off len h
            simp only [Option.some.injEq, Prod.mk.injEq] at h
            obtain ⟨rfl, rfl⟩ := h
            exact ⟨rfl, by rw [hdo]⟩
      · have hp' : r.payload = false := by simpa using hp
        simp only [hp', Bool.false_eq_true, if_false]
        refine ⟨_, rfl, ?_⟩
        exact ⟨hclaim, (by intro i hi; have := hreads_in i hi; omega), (by intro h; exact absurd rfl h),
          (by intro _ i hi; exact hreads_in i hi), (by intro _ i hi; exact Or.inl (hcover i hi)),
          (by intro _ _ h; cases h)⟩

/-- `cbor_stream_decode` on any source (every initial byte, every truncation) -/
theorem streamDecode_good (src : List UInt8) (hl : src.length < 2 ^ 64) :
    ∃ o, streamDecode src = .ok o ∧ Good src o := by
  unfold streamDecode
  rw [AwsVerif.Proofs.C10.gen_claim_bytes 1 src.length 0 (Nat.zero_le _) hl]
  by_cases h1 : 1 ≤ src.length
  · have : decide (1 ≤ src.length - 0) = true := by simp only [Nat.sub_zero, decide_eq_true_eq]; exact h1
    rw [this]
    simp only [Bool.true_eq_false, if_false]
    rw [rd_lt src 0 (by omega), bind_ok]
    exact interpRow_good _ (row_of_byte_safe _) _ src h1 hl
  · have : decide (1 ≤ src.length - 0) = false := by simp only [Nat.sub_zero, decide_eq_false_iff_not]; exact h1
    rw [this]
    refine ⟨_, (by rw [if_pos rfl]), ?_⟩
    exact good_unfinished src .nedata [] (by decide) (by intro i hi; cases hi)

end AwsVerif.Proofs.C04.CborHeads
