import AwsVerif.Proofs.C20.Frame
/-! Every thread referenced by the lazy-join machinery (pending list, join lists, pending `pthread_join`s) has
started, and a started thread has written its own id into its wrapper's thread copy (c20_join_target). -/
namespace AwsVerif.Threads

/-- `Q` holds of every slot referenced from the pending list or from some thread's join code -/
structure Refs (Q : Nat → Prop) (s : State) : Prop where
  mj : ∀ t k, Instr.joinM k ∈ (s.th t).code → Q k
  mf : ∀ t l, Instr.joinAndFree l ∈ (s.th t).code → ∀ k, k ∈ l → Q k
  mp : ∀ k, k ∈ s.pending → Q k

theorem otherRel_code' {s : State} {k : Nat} {a b : Th} (h : OtherRel s k a b) : b.code = a.code ∨ b.code = [] := by
  rcases h with rfl | rfl | ⟨_, _, _, rfl⟩ | ⟨_, rfl⟩ <;> simp

theorem exec_refs (Q : Nat → Prop) (P : Prog) (s s' : State) (t : Nat) (i : Instr) (rest : List Instr)
    (hc : (s.th t).code = i :: rest) (h : exec P s t i rest = some s') (hQt : Q t) (hi : Refs Q s) : Refs Q s' := by
  have oth := exec_other P s s' t i rest h
  obtain ⟨mj, mf, mp⟩ := hi
  have mjt := mj t; have mft := mf t
  rw [hc] at mjt mft
  have hcode : ∀ j, j ≠ t → ∀ x, x ∈ (s'.th j).code → x ∈ (s.th j).code := by
    intro j hj x hx
    rcases otherRel_code' (oth j hj) with h1 | h1 <;> rw [h1] at hx
    · exact hx
    · cases hx
  suffices hown : (∀ k, Instr.joinM k ∈ (s'.th t).code → Q k) ∧
      (∀ l, Instr.joinAndFree l ∈ (s'.th t).code → ∀ k, k ∈ l → Q k) ∧ (∀ k, k ∈ s'.pending → Q k) by
    obtain ⟨h1, h2, h3⟩ := hown
    refine ⟨fun j k hm => ?_, fun j l hm => ?_, h3⟩
    · by_cases hj : j = t
      · subst hj; exact h1 k hm
      · exact mj j k (hcode j hj _ hm)
    · by_cases hj : j = t
      · subst hj; exact h2 l hm
      · exact mf j l (hcode j hj _ hm)
  clear hcode oth
  cases i
  case' act a => cases a
  case' joinAndFree l => cases l
  all_goals exec_split h
  all_goals (
    simp only [cont_th, pushW_th, pushLog_th, freeWrapper_th, upd_same, expand, cont_pending, pushW_pending,
      pushLog_pending, freeWrapper_pending]
    simp_all [List.mem_cons, List.mem_append, upd_apply])
  all_goals (first
    | assumption
    | exact mft.2
    | (split <;> simp_all <;> assumption))

theorem exec_copyId (P : Prog) (s s' : State) (t : Nat) (i : Instr) (rest : List Instr)
    (h : exec P s t i rest = some s') :
    (s'.th t).copyId = (s.th t).copyId ∧
    (s'.misuse = s.misuse ∨ ∃ k, i = .joinM k ∧ (s.th k).copyId ≠ some k) := by
  cases i
  case' act a => cases a
  case' joinAndFree l => cases l
  all_goals exec_split h
  all_goals (
    simp only [cont_th, pushW_th, pushLog_th, freeWrapper_th, upd_same]
    first
    | (simp; done)
    | (simp [upd_apply]; first | assumption | (split <;> simp_all) | (intro hh; simp_all)))

theorem started_stable (P : Prog) (s s' : State) (t k : Nat) (h : step P s t = some s')
    (hk : 2 ≤ (s.th k).status.rank) : 2 ≤ (s'.th k).status.rank := by
  by_cases hkt : k = t
  · subst hkt
    cases step_own P s s' k h with
    | start _ h1 => rw [h1]; simp [Status.rank]
    | exec hs ho =>
      rcases ho.1 with h1 | ⟨_, h1⟩
      · rw [h1]; exact hk
      · rw [h1]; simp [Status.rank]
    | funcEnd _ _ h1 => rw [h1]; simp [Status.rank]
    | exit _ h1 => rw [h1]; simp [Status.rank]
    | cb c _ _ h1 => rw [h1]; simp [Status.rank]
    | atexitDone _ _ _ h1 => rw [h1]; simp [Status.rank]
  · rcases step_other P s s' t h k hkt with h1 | h1 | ⟨h0, _, _, h1⟩ | ⟨_, h1⟩
    · rw [h1]; exact hk
    · rw [h1]; exact hk
    · rw [h0] at hk; simp [Status.rank] at hk
    · rw [h1]; simp [Status.rank]

structure RefInv (s : State) : Prop where
  refs : Refs (fun k => 2 ≤ (s.th k).status.rank) s
  copy : ∀ k, 2 ≤ (s.th k).status.rank → (s.th k).copyId = some k
  nomis : s.misuse = 0

theorem refInv_thr (P : Prog) (s s' : State) (t : Nat) (h : step P s t = some s') (hi : RefInv s) : RefInv s' := by
  have stab := fun k => started_stable P s s' t k h
  have oth := step_other P s s' t h
  -- a step that only rewrites t's own record with code free of references, pending untouched
  have quiet : ∀ x : Th, s'.th = upd s.th t x → s'.pending = s.pending → s'.misuse = s.misuse →
      (∀ k, Instr.joinM k ∈ x.code → Instr.joinM k ∈ (s.th t).code) →
      (∀ l, Instr.joinAndFree l ∈ x.code → Instr.joinAndFree l ∈ (s.th t).code) →
      (2 ≤ x.status.rank → x.copyId = some t) → RefInv s' := by
    intro x hth hp hmis h1 h2 h3
    refine ⟨⟨fun j k hm => ?_, fun j l hm k hk => ?_, fun k hk => ?_⟩, fun k hk => ?_, by rw [hmis]; exact hi.nomis⟩
    · by_cases hj : j = t
      · subst hj; rw [hth] at hm; simp at hm; exact stab k (hi.refs.mj j k (h1 k hm))
      · rw [hth] at hm; simp [upd_apply, hj] at hm; exact stab k (hi.refs.mj j k hm)
    · by_cases hj : j = t
      · subst hj; rw [hth] at hm; simp at hm; exact stab k (hi.refs.mf j l (h2 l hm) k hk)
      · rw [hth] at hm; simp [upd_apply, hj] at hm; exact stab k (hi.refs.mf j l hm k hk)
    · rw [hp] at hk; exact stab k (hi.refs.mp k hk)
    · by_cases hkt : k = t
      · subst hkt; rw [hth] at hk ⊢; simp at hk ⊢; exact h3 hk
      · rw [hth] at hk ⊢; simp [upd_apply, hkt] at hk ⊢; exact hi.copy k hk
  rcases step_cases P s s' t h with ⟨hs, rfl⟩ | ⟨hs, _, hcd, rfl⟩ | ⟨hs, _, hcd, rfl⟩ | ⟨hs, e⟩ | ⟨hs, hcd, rfl⟩ | ⟨hs, i, rest, hcd, he⟩
  · exact quiet _ (startStep_th P s t) rfl rfl (by simp) (by simp) (by simp)
  · exact quiet _ (exitStep_th s t) rfl rfl (by simp) (by simp)
      (fun _ => by simpa using hi.copy t (by simp [hs, Status.rank]))
  · refine quiet _ (funcEndStep_th P s t) ?_ ?_ (by simp) (by simp)
      (fun _ => by simpa using hi.copy t (by simp [hs, Status.rank]))
    · unfold funcEndStep; split <;> rfl
    · unfold funcEndStep; split <;> rfl
  · have hcopy := hi.copy t (by simp [hs, Status.rank])
    cases hch : (s.th t).chain with
    | nil =>
      rw [atexitStep_nil P s t hch] at e
      refine quiet _ (by rw [e]) (by rw [e]) (by rw [e]) (fun k hm => ?_) (fun l hm => ?_) (fun _ => by simpa using hcopy)
      · simp only at hm; split at hm <;> simp [handOverCode] at hm
      · simp only at hm; split at hm <;> simp [handOverCode] at hm
    | cons c cs =>
      rw [atexitStep_cons P s t c cs hch] at e
      exact quiet _ (by rw [e]; rfl) (by rw [e]; rfl) (by rw [e]; rfl) (fun k hm => by simpa using hm)
        (fun l hm => by simpa using hm) (fun _ => by simpa using hcopy)
  · exact quiet _ (exitStep_th s t) rfl rfl (by simp) (by simp)
      (fun _ => by simpa using hi.copy t (by rcases hs with hs | hs <;> simp [hs, Status.rank]))
  · have hst : 2 ≤ (s.th t).status.rank := by rcases hs with hs | hs | hs <;> simp [hs, Status.rank]
    have r1 := exec_refs (fun k => 2 ≤ (s.th k).status.rank) P s s' t i rest hcd he hst hi.refs
    obtain ⟨c1, c2⟩ := exec_copyId P s s' t i rest he
    refine ⟨⟨fun j k hm => stab k (r1.mj j k hm), fun j l hm k hk => stab k (r1.mf j l hm k hk),
      fun k hk => stab k (r1.mp k hk)⟩, fun k hk => ?_, ?_⟩
    · by_cases hkt : k = t
      · subst hkt; rw [c1]; exact hi.copy k hst
      · rcases exec_other P s s' t i rest he k hkt with h1 | h1 | ⟨_, _, _, h1⟩ | ⟨h0, h1⟩
        · rw [h1] at hk ⊢; exact hi.copy k hk
        · rw [h1] at hk ⊢; exact hi.copy k hk
        · rw [h1] at hk; simp [Status.rank] at hk
        · rw [h1]; exact hi.copy k (by simp [h0, Status.rank])
    · rcases c2 with c2 | ⟨k, hik, hne⟩
      · rw [c2]; exact hi.nomis
      · exfalso
        have := hi.refs.mj t k (by rw [hcd, hik]; simp)
        exact hne (hi.copy k this)

theorem refInv_reachable (P : Prog) (s : State) (h : Reachable P s) : RefInv s := by
  induction h with
  | init =>
    refine ⟨⟨fun t k hm => ?_, fun t l hm => ?_, fun k hm => ?_⟩, fun k hk => ?_, rfl⟩
    · simp only [init] at hm; split at hm <;> cases hm
    · simp only [init] at hm; split at hm <;> cases hm
    · simp [init] at hm
    · simp only [init] at hk; split at hk <;> simp [Status.rank] at hk
  | @step s s' l _ hs ih =>
    cases l with
    | thr t => exact refInv_thr P s s' t hs ih
    | tick d =>
      simp only [stepL, Option.some.injEq] at hs; subst hs
      exact ⟨⟨ih.refs.mj, ih.refs.mf, ih.refs.mp⟩, ih.copy, ih.nomis⟩
    | spur t =>
      simp only [stepL] at hs
      split at hs
      · simp only [Option.some.injEq] at hs; subst hs
        have e : ∀ k, ((upd s.th t { s.th t with woken := true }) k).code = (s.th k).code ∧
            ((upd s.th t { s.th t with woken := true }) k).status = (s.th k).status ∧
            ((upd s.th t { s.th t with woken := true }) k).copyId = (s.th k).copyId := by
          intro k; by_cases hk : k = t
          · subst hk; simp
          · simp [upd_apply, hk]
        refine ⟨⟨fun j k hm => ?_, fun j l hm k hk => ?_, fun k hk => ?_⟩, fun k hk => ?_, ih.nomis⟩
        · simp only [(e j).1] at hm; simp only [(e k).2.1]; exact ih.refs.mj j k hm
        · simp only [(e j).1] at hm; simp only [(e k).2.1]; exact ih.refs.mf j l hm k hk
        · simp only [(e k).2.1]; exact ih.refs.mp k hk
        · simp only [(e k).2.1] at hk; simp only [(e k).2.2]; exact ih.copy k hk
      · simp at hs

end AwsVerif.Threads
