import AwsVerif.Proofs.C20.Pja
/-! Ownership of finished managed threads: a managed thread that has enqueued itself and is not yet joined
is referenced exactly once — in the pending list or in exactly one thread's join list. -/
namespace AwsVerif.Threads

def occI (k : Nat) : Instr → Nat
  | .joinM j => if j = k then 1 else 0
  | .joinAndFree l => l.count k
  | _ => 0

def occ (k : Nat) : List Instr → Nat
  | [] => 0
  | i :: r => occI k i + occ k r

@[simp] theorem occ_append (k : Nat) (a b : List Instr) : occ k (a ++ b) = occ k a + occ k b := by
  induction a with
  | nil => simp [occ]
  | cons i r ih => simp [occ, ih]; omega

theorem occ_map_act (k : Nat) (l : List Action) : occ k (l.map Instr.act) = 0 := by
  induction l with
  | nil => rfl
  | cons a r ih => simp [occ, occI, ih]

def hoe (st : Status) : Bool := decide (st = .handedOver ∨ st = .exited)

def oPlus (P : Prog) (k j : Nat) (th : Th) : Nat := if j = k ∧ P.managed j = true ∧ hoe th.status = true then 1 else 0

def OwnEq (P : Prog) (k : Nat) (s : State) : Prop :=
  s.pending.count k + sumTo P.n (fun j => occ k (s.th j).code) = sumTo P.n (fun j => oPlus P k j (s.th j))

theorem ownEq_upd1 (P : Prog) (k : Nat) (s s' : State) (t : Nat) (x : Th) (hE : OwnEq P k s) (ht : t < P.n)
    (hth : s'.th = upd s.th t x)
    (hloc : s'.pending.count k + occ k x.code + oPlus P k t (s.th t) =
            s.pending.count k + occ k (s.th t).code + oPlus P k t x) : OwnEq P k s' := by
  unfold OwnEq at *
  have h1 := sumTo_upd1 P.n t (fun j => occ k (s.th j).code) (fun j => occ k (s'.th j).code) ht
    (fun j _ hj => by simp [hth, hj])
  have h2 := sumTo_upd1 P.n t (fun j => oPlus P k j (s.th j)) (fun j => oPlus P k j (s'.th j)) ht
    (fun j _ hj => by simp [hth, hj])
  simp only [hth, upd_same] at h1 h2 ⊢
  omega

theorem ownEq_upd2 (P : Prog) (k : Nat) (s s' : State) (t u : Nat) (x y : Th) (hE : OwnEq P k s) (ht : t < P.n)
    (hu : u < P.n) (hne : u ≠ t) (hth : s'.th = upd (upd s.th u y) t x)
    (hloc : s'.pending.count k + occ k x.code + occ k y.code + oPlus P k t (s.th t) + oPlus P k u (s.th u) =
            s.pending.count k + occ k (s.th t).code + occ k (s.th u).code + oPlus P k t x + oPlus P k u y) :
    OwnEq P k s' := by
  unfold OwnEq at *
  have h1 := sumTo_upd2 P.n t u (fun j => occ k (s.th j).code) (fun j => occ k (s'.th j).code) ht hu hne
    (fun j _ hj hju => by simp [hth, hj, hju])
  have h2 := sumTo_upd2 P.n t u (fun j => oPlus P k j (s.th j)) (fun j => oPlus P k j (s'.th j)) ht hu hne
    (fun j _ hj hju => by simp [hth, hj, hju])
  simp only [hth, upd_same, upd_other _ _ _ _ hne] at h1 h2 ⊢
  omega

theorem hoe_iff (st : Status) : hoe st = true ↔ (st = .handedOver ∨ st = .exited) := by
  simp [hoe]

@[simp] theorem hoe_exited : hoe .exited = true := rfl
@[simp] theorem hoe_joined : hoe .joined = false := rfl
@[simp] theorem hoe_notCreated : hoe .notCreated = false := rfl
@[simp] theorem hoe_created : hoe .created = false := rfl
@[simp] theorem hoe_running : hoe .running = false := rfl
@[simp] theorem hoe_funcDone : hoe .funcDone = false := rfl
@[simp] theorem hoe_atexitDone : hoe .atexitDone = false := rfl
@[simp] theorem hoe_handedOver : hoe .handedOver = true := rfl

theorem exec_ownEq (P : Prog) (k : Nat) (s s' : State) (t : Nat) (i : Instr) (rest : List Instr)
    (hc : (s.th t).code = i :: rest) (ht : t < P.n)
    (hbig : ∀ j, P.n ≤ j → (s.th j).status = .notCreated)
    (hnc : ∀ j, (s.th j).status = .notCreated → (s.th j).code = [])
    (hm : Memb P s) (hp : PjaInv P s)
    (hcopy : ∀ k, Instr.joinM k ∈ (s.th t).code → (s.th k).copyId = some k)
    (h : exec P s t i rest = some s') (hE : OwnEq P k s) : OwnEq P k s' := by
  have mjt := hm.mj t; have hut := hm.hu t
  rw [hc] at mjt hut
  have hpt := hp t
  rw [hc] at hpt
  have hlt : ∀ j, (s.th j).status ≠ .notCreated → j < P.n := by
    intro j hj
    by_cases hjn : j < P.n
    · exact hjn
    · exact absurd (hbig j (by omega)) hj
  cases i
  case' act a => cases a
  case' joinAndFree l => cases l
  case signal =>
    exec_split h
    · rename_i j hj
      have hjn := pickWaiter_lt s P.n j hj
      by_cases hjt : j = t
      · subst hjt
        refine ownEq_upd1 P k s _ j { s.th j with woken := true, code := rest } hE ht (by simp [upd_idem]) ?_
        simp [hc, occ, occI, oPlus]
      · refine ownEq_upd2 P k s _ t j _ _ hE ht hjn hjt rfl ?_
        simp [hc, occ, occI, oPlus, Ne.symm hjt]
    · refine ownEq_upd1 P k s _ t _ hE ht rfl ?_
      simp [hc, occ, occI, oPlus]
  case create k' pin nf nm =>
    simp only [exec] at h
    split at h
    · simp only [Option.some.injEq] at h; subst h
      refine ownEq_upd1 P k s _ t _ hE ht rfl ?_
      simp only [hc, occ, occI, oPlus, occ_append, cont_pending, pushW_pending]
      by_cases hmk : P.managed k' = true <;> by_cases hp : pin = true <;> simp [hmk, hp, occ, occI]
    · split at h
      · simp only [Option.some.injEq] at h; subst h
        refine ownEq_upd1 P k s _ t _ hE ht rfl ?_
        simp only [hc, occ, occI, oPlus, occ_append, cont_pending]
        by_cases hmk : P.managed k' = true <;> by_cases hp : pin = true <;> simp [hmk, hp, occ, occI]
      · rename_i hg
        simp only [not_or, Decidable.not_not, Nat.not_le] at hg
        obtain ⟨hs0, _, hkn, htk⟩ := hg
        simp only [Option.some.injEq] at h; subst h
        refine ownEq_upd2 P k s _ t k' _ _ hE ht hkn (Ne.symm htk) rfl ?_
        have hk0 := hnc k' hs0
        simp [hc, hk0, hs0, occ, occI, oPlus]
  case joinM k' =>
    simp only [exec, hcopy k' (by rw [hc]; simp), if_true] at h
    split at h
    · rename_i hg
      obtain ⟨hs0, htk⟩ := hg
      have hkn := hlt k' (by rw [hs0]; simp)
      have hmk := mjt k' (by simp)
      simp only [Option.some.injEq] at h; subst h
      refine ownEq_upd2 P k s _ t k' _ _ hE ht hkn (Ne.symm htk) rfl ?_
      simp only [hc, occ, occI, oPlus, hs0, cont_pending, pushW_pending, upd_apply, Ne.symm htk, htk, if_false,
        hoe_exited, hoe_joined, hmk]
      by_cases hkk : k' = k
      · subst hkk; simp [htk]; omega
      · simp [hkk]
    · simp at h
  case joinU k' =>
    simp only [exec] at h
    split at h
    · simp only [Option.some.injEq] at h; subst h
      refine ownEq_upd1 P k s _ t _ hE ht rfl ?_
      simp [hc, occ, occI, oPlus]
    · split at h
      · simp only [Option.some.injEq] at h; subst h
        refine ownEq_upd1 P k s _ t _ hE ht rfl ?_
        simp [hc, occ, occI, oPlus]
      · split at h
        · rename_i htk _ hs0
          have hkn := hlt k' (by rw [hs0]; simp)
          have hmk := hut k' (by simp)
          simp only [Option.some.injEq] at h; subst h
          refine ownEq_upd2 P k s _ t k' _ _ hE ht hkn (Ne.symm htk) rfl ?_
          simp [hc, occ, occI, oPlus, hs0, hmk, htk]
        · simp at h
  case pjaSwapPush =>
    simp only [nPja, pjaWant] at hpt
    have hst : P.managed t = true ∧ (s.th t).status = .atexitDone := by
      by_cases hh : P.managed t = true ∧ (s.th t).status = .atexitDone
      · exact hh
      · simp [hh] at hpt
    exec_split h
    · refine ownEq_upd1 P k s _ t _ hE ht rfl ?_
      simp only [hc, occ, occI, oPlus, occ_append, cont_pending, hst.2, hst.1, if_true, hoe_handedOver, hoe_atexitDone,
        List.count_cons, List.count_nil]
      by_cases htk : t = k
      · subst htk; simp; try omega
      · simp [htk]; try omega
    · rename_i hh; exact absurd hst.2 hh
  all_goals exec_split h
  all_goals (first
    | (refine ownEq_upd1 P k s _ t _ hE ht rfl ?_
       simp only [hc, occ, occI, oPlus, expand, occ_append, cont_pending, pushW_pending, pushLog_pending, freeWrapper_pending,
         List.count_cons, List.count_nil]
       all_goals ((repeat' split) <;> (try simp_all [occ, occI]) <;> omega))
    | skip)

theorem ownEq_congr (P : Prog) (k : Nat) (s s' : State) (hE : OwnEq P k s)
    (hth : ∀ j, (s'.th j).code = (s.th j).code ∧ (s'.th j).status = (s.th j).status)
    (hpend : s'.pending = s.pending) : OwnEq P k s' := by
  unfold OwnEq at *
  rw [hpend, sumTo_congr P.n _ (fun j => occ k (s.th j).code) (fun j _ => by simp [(hth j).1]),
    sumTo_congr P.n (fun j => oPlus P k j (s'.th j)) (fun j => oPlus P k j (s.th j))
      (fun j _ => by simp [oPlus, (hth j).2])]
  exact hE

theorem ownEq_thr (P : Prog) (hm0 : P.managed 0 = false) (k : Nat) (s s' : State) (t : Nat) (h : step P s t = some s')
    (hc : CountInv P s) (hp : PjaInv P s) (hr : RefInv s) (hE : OwnEq P k s) : OwnEq P k s' := by
  have hlt : ∀ j, (s.th j).status ≠ .notCreated → j < P.n := by
    intro j hj
    by_cases hjn : j < P.n
    · exact hjn
    · exact absurd (hc.big j (by omega)) hj
  rcases step_cases P s s' t h with ⟨hs, rfl⟩ | ⟨hs, ht0, hcd, rfl⟩ | ⟨hs, _, hcd, rfl⟩ | ⟨hs, rfl⟩ | ⟨hs, hcd, rfl⟩ | ⟨hs, i, rest, hcd, he⟩
  · have ht := hlt t (by rw [hs]; simp)
    have hc0 := hc.nocode t (Or.inr (Or.inl hs))
    refine ownEq_upd1 P k s _ t _ hE ht (startStep_th P s t) ?_
    simp [startStep, hc0, hs, occ, occ_map_act, oPlus, pushW, pushLog]
  · have ht := hlt t (by rw [hs]; simp)
    refine ownEq_upd1 P k s _ t _ hE ht (exitStep_th s t) ?_
    subst ht0
    simp [hs, oPlus, hm0]
  · have ht := hlt t (by rw [hs]; simp)
    refine ownEq_upd1 P k s _ t _ hE ht (funcEndStep_th P s t) ?_
    simp [funcEndStep_pending, hs, oPlus]
  · have ht := hlt t (by rw [hs]; simp)
    have hc0 := hc.nocode t (Or.inr (Or.inr hs))
    cases hch : (s.th t).chain with
    | nil =>
      rw [atexitStep_nil P s t hch]
      refine ownEq_upd1 P k s _ t _ hE ht rfl ?_
      simp only [hc0, hs, oPlus, occ, hoe_funcDone, hoe_atexitDone]
      split <;> simp [handOverCode, occ, occI]
    | cons c cs =>
      rw [atexitStep_cons P s t c cs hch]
      refine ownEq_upd1 P k s _ t _ hE ht rfl ?_
      simp [oPlus]
  · have ht := hlt t (by rcases hs with hs | hs <;> rw [hs] <;> simp)
    refine ownEq_upd1 P k s _ t _ hE ht (exitStep_th s t) ?_
    rcases hs with hs | hs
    · have := hp t
      rw [hcd, hs] at this
      simp [nPja, pjaWant] at this
      simp [hs, oPlus, this]
    · simp [hs, oPlus]
  · have hne : (s.th t).status ≠ .notCreated := by rcases hs with hs | hs | hs <;> rw [hs] <;> simp
    exact exec_ownEq P k s s' t i rest hcd (hlt t hne) hc.big (fun j hj => hc.nocode j (Or.inl hj)) hc.memb hp
      (fun k hm => hr.copy k (hr.refs.mj t k hm)) he hE

theorem ownEq_init (P : Prog) (k : Nat) : OwnEq P k (init P) := by
  unfold OwnEq
  have h1 : sumTo P.n (fun j => occ k ((init P).th j).code) = 0 := by
    rw [← sumTo_zero P.n]; apply sumTo_congr; intro j _; simp only [init]; split <;> rfl
  have h2 : sumTo P.n (fun j => oPlus P k j ((init P).th j)) = 0 := by
    rw [← sumTo_zero P.n]; apply sumTo_congr; intro j _; simp only [init, oPlus]; split <;> simp
  rw [h1, h2]; simp [init]

theorem own_reachable (P : Prog) (hn : 0 < P.n) (hm0 : P.managed 0 = false) (s : State) (h : Reachable P s) :
    ∀ k, OwnEq P k s := by
  induction h with
  | init => exact ownEq_init P
  | @step s s' l hr hs ih =>
    have hc := countInv_reachable P hn hm0 s hr
    have hp := pjaInv_reachable P s hr
    intro k
    cases l with
    | thr t => exact ownEq_thr P hm0 k s s' t hs hc hp (refInv_reachable P s hr) (ih k)
    | tick d => simp only [stepL, Option.some.injEq] at hs; subst hs; exact ownEq_congr P k s _ (ih k) (fun j => ⟨rfl, rfl⟩) rfl
    | spur t =>
      simp only [stepL] at hs
      split at hs
      · simp only [Option.some.injEq] at hs; subst hs
        refine ownEq_congr P k s _ (ih k) (fun j => ?_) rfl
        by_cases hj : j = t
        · subst hj; simp
        · simp [upd_apply, hj]
      · simp at hs

/-- the right-hand side of `OwnEq` is an indicator -/
theorem oPlus_sum (P : Prog) (k : Nat) (s : State) (hk : k < P.n) :
    sumTo P.n (fun j => oPlus P k j (s.th j)) = if P.managed k = true ∧ hoe (s.th k).status = true then 1 else 0 := by
  have := sumTo_upd1 P.n k (fun _ => 0) (fun j => oPlus P k j (s.th j)) hk (fun j _ hj => by simp [oPlus, hj])
  rw [sumTo_zero] at this
  simp only [oPlus, true_and] at this ⊢
  omega

end AwsVerif.Threads
