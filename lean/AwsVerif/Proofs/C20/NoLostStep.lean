import AwsVerif.Proofs.C20.NoLost
namespace AwsVerif.Threads

theorem owner_of_cs {s : State} (hm : MutexInv s) {t : Nat} {i : Instr} {r : List Instr}
    (hcode : (s.th t).code = i :: r) (hcs : i.inCS = true) : s.lockOwner = some t := by
  have hw := hm.wbAll t
  rw [hcode] at hw
  have hmode := wb_head_cs hw hcs
  unfold modeOf at hmode
  by_cases h1 : (s.th t).waiting = true
  · simp [h1] at hmode
  · by_cases h2 : s.lockOwner = some t
    · exact h2
    · simp [h1, h2] at hmode

/-- a step that changes neither count nor lock, touches only thread `t` (whose code was empty) and leaves its
wait flags alone -/
theorem lw_quiet (s s' : State) (t : Nat) (hcount : s'.count = s.count) (hlock : s'.lockOwner = s.lockOwner)
    (hoth : ∀ k, k ≠ t → s'.th k = s.th k)
    (hw : (s'.th t).waiting = (s.th t).waiting ∧ (s'.th t).woken = (s.th t).woken ∧ (s'.th t).deadline = (s.th t).deadline)
    (hc0 : (s.th t).code = []) (hnc : ∀ b, Instr.cwait b ∉ (s'.th t).code) (hi : LWInv s) : LWInv s' := by
  refine ⟨fun b => ?_, fun b r hcd => ?_, fun h1 h2 h3 => ?_⟩
  · by_cases ht : t = 0
    · subst ht; exact fun hh => hnc b (List.mem_of_mem_tail hh)
    · rw [hoth 0 (Ne.symm ht)]; exact hi.tailOk b
  · by_cases ht : t = 0
    · subst ht; exact absurd (by rw [hcd]; simp) (hnc b)
    · rw [hoth 0 (Ne.symm ht)] at hcd; rw [hcount]; exact hi.head b r hcd
  · have e : (s'.th 0).waiting = (s.th 0).waiting ∧ (s'.th 0).woken = (s.th 0).woken ∧
        (s'.th 0).deadline = (s.th 0).deadline := by
      by_cases ht : t = 0
      · subst ht; exact hw
      · rw [hoth 0 (Ne.symm ht)]; exact ⟨rfl, rfl, rfl⟩
    rw [e.1] at h1; rw [e.2.1] at h2; rw [e.2.2] at h3
    rcases hi.lw h1 h2 h3 with hA | ⟨o, r, ho, hcode⟩
    · exact Or.inl (by rw [hcount]; exact hA)
    · refine Or.inr ⟨o, r, by rw [hlock]; exact ho, ?_⟩
      by_cases hot : o = t
      · subst hot; rw [hc0] at hcode; cases hcode
      · rw [hoth o hot]; exact hcode

theorem not_cwait_map_act (l : List Action) (b : Bool) : Instr.cwait b ∉ l.map Instr.act := by
  simp

/-- main's own micro-instruction -/
theorem lw_exec_self (P : Prog) (s s' : State) (i : Instr) (rest : List Instr)
    (hcd : (s.th 0).code = i :: rest) (he : exec P s 0 i rest = some s') (hm : MutexInv s) (hi : LWInv s) :
    LWInv s' := by
  have htail : ∀ b, Instr.cwait b ∉ rest := by
    intro b; have := hi.tailOk b; rw [hcd] at this; simpa using this
  refine ⟨fun b => exec_cwait_tail P s s' 0 i rest he b (htail b), fun b r hc' => ?_, fun h1 h2 h3 => ?_⟩
  · rcases exec_cwait_head P s s' 0 i rest he b r hc' with ⟨h2, h3⟩ | ⟨r', hr⟩
    · omega
    · exact absurd (by rw [hr]; simp) (htail b)
  · -- main waits in s': it has just executed a cwait
    by_cases hw : (s.th 0).waiting = true
    · -- was already waiting: the head is cwake, which clears the flag
      exfalso
      have hwb := hm.wbAll 0
      have hmode : modeOf s 0 = .wait := by unfold modeOf; simp [hw]
      rw [hmode, hcd] at hwb
      have hi' : i = .cwake := by cases i <;> simp [wb] at hwb ⊢
      subst hi'
      exec_split he
      all_goals (simp at h1)
    · have hw' : (s.th 0).waiting = false := by simpa using hw
      obtain ⟨⟨b, hb⟩, hcnt⟩ := exec_waiting_cwait P s s' 0 i rest he hw' h1
      subst hb
      exact Or.inl (by rw [hcnt]; exact hi.head b rest hcd)

/-- another thread's micro-instruction -/
theorem lw_exec_other (P : Prog) (hn : 0 < P.n) (s s' : State) (t : Nat) (ht : t ≠ 0) (i : Instr) (rest : List Instr)
    (hcd : (s.th t).code = i :: rest) (he : exec P s t i rest = some s') (hc : CountInv P s) (hm : MutexInv s)
    (hnw : NoWait s) (hd : decSig (s.th t).code) (hi : LWInv s) : LWInv s' := by
  have o0 := exec_other P s s' t i rest he 0 (Ne.symm ht)
  have hnotJA : i.isJA = false := by
    have := (hnw t ht).1
    rw [hcd] at this
    simp only [anyJA, List.any_cons, Bool.or_eq_false_iff] at this
    exact this.1
  have hcount := exec_count_frame P s s' t i rest he
  have hlock := exec_lock_frame P s s' t i rest he
  -- main's record: code / waiting / deadline unchanged, woken can only be set
  have hmain : (s'.th 0).code = (s.th 0).code ∧ (s'.th 0).waiting = (s.th 0).waiting ∧
      (s'.th 0).deadline = (s.th 0).deadline ∧ ((s'.th 0).woken = false → (s.th 0).woken = false) ∨
      ((s'.th 0).code = [] ∧ (s'.th 0).waiting = false) := by
    rcases o0 with h1 | h1 | ⟨_, _, _, h1⟩ | ⟨_, h1⟩
    · rw [h1]; exact Or.inl ⟨rfl, rfl, rfl, id⟩
    · rw [h1]; exact Or.inl ⟨rfl, rfl, rfl, by simp⟩
    · rw [h1]; exact Or.inr ⟨rfl, rfl⟩
    · rw [h1]; exact Or.inl ⟨rfl, rfl, rfl, id⟩
  rcases hmain with ⟨mc, mw, mdl, mwk⟩ | ⟨mc, mw⟩
  rotate_left
  · refine ⟨fun b => ?_, fun b r h => ?_, fun h1 _ _ => ?_⟩
    · rw [mc]; simp
    · rw [mc] at h; cases h
    · rw [mw] at h1; cases h1
  -- count can only go down by a decCount of t, which then owns the lock
  have hdec : i = .decCount → s.lockOwner = some t := fun e => owner_of_cs hm hcd (by rw [e]; rfl)
  refine ⟨fun b => by rw [mc]; exact hi.tailOk b, fun b r h => ?_, fun h1 h2 h3 => ?_⟩
  · rw [mc] at h
    have h2 := hi.head b r h
    rcases hcount with e | ⟨_, e⟩ | ⟨ei, _⟩
    · omega
    · omega
    · exfalso
      have := owner_of_cs hm h (by rfl)
      rw [hdec ei] at this
      exact ht (by simpa using this)
  · rw [mw] at h1; rw [mdl] at h3
    have h2' := mwk h2
    have hel0 : eligible s 0 = true := by simp [eligible, h1, h2', h3]
    have heln : ∀ j, j ≠ 0 → eligible s j = false := by
      intro j hj; simp [eligible, (hnw j hj).2]
    -- a signal would have woken main
    have hnsig : i ≠ .signal := by
      intro e; subst e
      have hp : pickWaiter s P.n = some 0 := by
        obtain ⟨m, hm'⟩ : ∃ m, P.n = m + 1 := ⟨P.n - 1, by omega⟩
        rw [hm']; exact pickWaiter_main s m hel0 heln
      have := exec_signal_wakes P s s' t rest 0 (Ne.symm ht) hp he
      rw [this] at h2; cases h2
    -- code of every other thread that had code is unchanged
    have hcode_o : ∀ o r, o ≠ t → (s.th o).code = .signal :: r → (s'.th o).code = .signal :: r := by
      intro o r hot hco
      rcases exec_other P s s' t i rest he o hot with h4 | h4 | ⟨h5, _⟩ | ⟨_, h4⟩
      · rw [h4]; exact hco
      · rw [h4]; exact hco
      · have := hc.nocode o (Or.inl h5); rw [hco] at this; cases this
      · rw [h4]; exact hco
    rcases hi.lw h1 h2' h3 with hA | ⟨o, r, ho, hco⟩
    · -- count ≥ 2 before
      rcases hcount with e | ⟨_, e⟩ | ⟨ei, e⟩
      · exact Or.inl (by omega)
      · exact Or.inl (by omega)
      · -- t decremented: the notify is next and t still owns the lock
        subst ei
        have hsig := hd
        rw [hcd] at hsig
        obtain ⟨⟨r', hr'⟩, _⟩ := hsig
        obtain ⟨hc1, hl1⟩ := exec_decCount P s s' t rest he
        exact Or.inr ⟨t, r', by rw [hl1]; exact hdec rfl, by rw [hc1, hr']⟩
    · -- a notify is pending in the lock holder o
      have hot : o ≠ t := by
        intro e; subst e; rw [hcd] at hco; cases hco; exact hnsig rfl
      have hlk : s'.lockOwner = s.lockOwner := by
        rcases hlock with e | ⟨_, e⟩ | ⟨_, e⟩ | ⟨b, e⟩ | e
        · exact e
        · rw [ho] at e; cases e
        · rw [ho] at e; exact absurd (by simpa using e) hot
        · subst e; simp [Instr.isJA] at hnotJA
        · subst e; simp [Instr.isJA] at hnotJA
      exact Or.inr ⟨o, r, by rw [hlk]; exact ho, hcode_o o r hot hco⟩

theorem ownStep_status' (P : Prog) (s s' : State) (t : Nat) (h : step P s t = some s') :
    (s.th t).status ≠ .notCreated := by
  unfold step at h
  intro e
  simp [e] at h

/-- bundle: everything the lost-wake-up argument needs -/
structure WakeInv (P : Prog) (s : State) : Prop where
  wfunc : ∀ k, (s.th k).status ≠ .notCreated → (s.th k).wFunc = k
  nowait : NoWait s
  decsig : ∀ k, decSig (s.th k).code
  lw : LWInv s

theorem wakeInv_thr (P : Prog) (hn : 0 < P.n) (hja : ∀ k, k ≠ 0 → Action.joinAll ∉ P.body k) (s s' : State) (t : Nat)
    (h : step P s t = some s') (hc : CountInv P s) (hm : MutexInv s) (hi : WakeInv P s) : WakeInv P s' := by
  have oth := step_other P s s' t h
  refine ⟨fun k hk => ?_, noWait_thr P hja s s' t h hi.nowait (fun k hs => hi.wfunc k (by rw [hs]; simp)), fun k => ?_, ?_⟩
  · -- wFunc
    by_cases hkt : k = t
    · subst hkt
      have hst : (s.th k).status ≠ .notCreated := by
        have := ownStep_status' P s s' k h; exact this
      have e : (s'.th k).wFunc = (s.th k).wFunc := by
        rcases step_cases P s s' k h with ⟨_, rfl⟩ | ⟨_, _, _, rfl⟩ | ⟨_, _, _, rfl⟩ | ⟨_, rfl⟩ | ⟨_, _, _, rfl⟩ | ⟨_, i, rest, _, he⟩
        · simp
        · simp
        · simp
        · cases hch : (s.th k).chain with
          | nil => rw [atexitStep_nil P s k hch]; simp
          | cons c cs => rw [atexitStep_cons P s k c cs hch]; simp
        · simp
        · exact (exec_own P s s' k i rest he).2.2.1
      rw [e]; exact hi.wfunc k hst
    · rcases oth k hkt with h1 | h1 | ⟨_, _, _, h1⟩ | ⟨h0, h1⟩
      · rw [h1] at hk ⊢; exact hi.wfunc k hk
      · rw [h1] at hk ⊢; exact hi.wfunc k hk
      · rw [h1]
      · rw [h1]; exact hi.wfunc k (by rw [h0]; simp)
  · -- decSig
    by_cases hkt : k = t
    · subst hkt
      rcases step_cases P s s' k h with ⟨_, rfl⟩ | ⟨_, _, _, rfl⟩ | ⟨_, _, _, rfl⟩ | ⟨_, rfl⟩ | ⟨_, _, _, rfl⟩ | ⟨_, i, rest, hcd, he⟩
      · simpa using decSig_map_act _
      · simpa using hi.decsig k
      · simpa using hi.decsig k
      · cases hch : (s.th k).chain with
        | nil => rw [atexitStep_nil P s k hch]; simp only [upd_same]; split <;> simp [handOverCode, decSig]
        | cons c cs => rw [atexitStep_cons P s k c cs hch]; simpa using hi.decsig k
      · simpa using hi.decsig k
      · have := hi.decsig k; rw [hcd] at this; exact exec_decSig P s s' k i rest this he
    · rcases otherRel_code (oth k hkt) with h1 | h1 <;> rw [h1]
      · exact hi.decsig k
      · trivial
  · -- the wake-up invariant
    rcases step_cases P s s' t h with ⟨hs, rfl⟩ | ⟨hs, _, hcd, rfl⟩ | ⟨hs, _, hcd, rfl⟩ | ⟨hs, rfl⟩ | ⟨hs, hcd, rfl⟩ | ⟨hs, i, rest, hcd, he⟩
    · refine lw_quiet s _ t rfl rfl (fun k hk => by simp [upd_apply, hk]) (by simp) (hc.nocode t (Or.inr (Or.inl hs)))
        (fun b => by simp) hi.lw
    · refine lw_quiet s _ t rfl rfl (fun k hk => by simp [upd_apply, hk]) (by simp) hcd
        (fun b => by simp [hcd]) hi.lw
    · refine lw_quiet s _ t (funcEndStep_count P s t) ?_ (fun k hk => by simp [upd_apply, hk]) (by simp) hcd
        (fun b => by simp [hcd]) hi.lw
      unfold funcEndStep; split <;> rfl
    · have hc0 := hc.nocode t (Or.inr (Or.inr hs))
      cases hch : (s.th t).chain with
      | nil =>
        rw [atexitStep_nil P s t hch]
        refine lw_quiet s _ t rfl rfl (fun k hk => by simp [upd_apply, hk]) (by simp) hc0 (fun b => ?_) hi.lw
        simp only [upd_same]; split <;> simp [handOverCode]
      | cons c cs =>
        rw [atexitStep_cons P s t c cs hch]
        exact lw_quiet s _ t rfl rfl (fun k hk => by simp [upd_apply, hk]) (by simp) hc0 (fun b => by simp [hc0]) hi.lw
    · refine lw_quiet s _ t rfl rfl (fun k hk => by simp [upd_apply, hk]) (by simp) hcd
        (fun b => by simp [hcd]) hi.lw
    · by_cases ht : t = 0
      · subst ht; exact lw_exec_self P s s' i rest hcd he hm hi.lw
      · exact lw_exec_other P hn s s' t ht i rest hcd he hc hm hi.nowait (hi.decsig t) hi.lw

theorem wakeInv_init (P : Prog) : WakeInv P (init P) := by
  have hcode : ∀ k, ((init P).th k).code = [] := by intro k; simp only [init]; split <;> rfl
  have hwt : ∀ k, ((init P).th k).waiting = false := by intro k; simp only [init]; split <;> rfl
  refine ⟨fun k hk => ?_, fun t _ => ⟨by rw [hcode]; rfl, hwt t⟩, fun k => by rw [hcode]; trivial, ⟨fun b => ?_, fun b r h => ?_, fun h1 _ _ => ?_⟩⟩
  · by_cases h0 : k = 0
    · subst h0; simp [init]
    · simp [init, h0] at hk
  · rw [hcode]; simp
  · rw [hcode] at h; cases h
  · rw [hwt] at h1; cases h1

theorem wakeInv_reachable (P : Prog) (hn : 0 < P.n) (hm0 : P.managed 0 = false)
    (hja : ∀ k, k ≠ 0 → Action.joinAll ∉ P.body k) (s : State) (h : Reachable P s) : WakeInv P s := by
  induction h with
  | init => exact wakeInv_init P
  | @step s s' l hr hs ih =>
    have hc := countInv_reachable P hn hm0 s hr
    have hm := mutexInv_reachable P hn hm0 s hr
    cases l with
    | thr t => exact wakeInv_thr P hn hja s s' t hs hc hm ih
    | tick d =>
      simp only [stepL, Option.some.injEq] at hs; subst hs
      exact ⟨ih.wfunc, ih.nowait, ih.decsig, ⟨ih.lw.tailOk, ih.lw.head, ih.lw.lw⟩⟩
    | spur t =>
      simp only [stepL] at hs
      split at hs
      · simp only [Option.some.injEq] at hs; subst hs
        have e : ∀ k, ((upd s.th t { s.th t with woken := true }) k).code = (s.th k).code ∧
            ((upd s.th t { s.th t with woken := true }) k).waiting = (s.th k).waiting ∧
            ((upd s.th t { s.th t with woken := true }) k).status = (s.th k).status ∧
            ((upd s.th t { s.th t with woken := true }) k).wFunc = (s.th k).wFunc ∧
            ((upd s.th t { s.th t with woken := true }) k).deadline = (s.th k).deadline := by
          intro k; by_cases hk : k = t
          · subst hk; simp
          · simp [upd_apply, hk]
        refine ⟨fun k hk => ?_, fun k hk => ?_, fun k => ?_, ⟨fun b => ?_, fun b r hcd => ?_, fun h1 h2 h3 => ?_⟩⟩
        · simp only [(e k).2.2.1] at hk; simp only [(e k).2.2.2.1]; exact ih.wfunc k hk
        · simp only [(e k).1, (e k).2.1]; exact ih.nowait k hk
        · simp only [(e k).1]; exact ih.decsig k
        · simp only [(e 0).1]; exact ih.lw.tailOk b
        · simp only [(e 0).1] at hcd; exact ih.lw.head b r hcd
        · simp only [(e 0).2.1] at h1; simp only [(e 0).2.2.2.2] at h3
          have h2' : (s.th 0).woken = false := by
            by_cases h0 : (0 : Nat) = t
            · subst h0; simp at h2
            · simpa [upd_apply, h0] using h2
          rcases ih.lw.lw h1 h2' h3 with hA | ⟨o, r, ho, hco⟩
          · exact Or.inl hA
          · exact Or.inr ⟨o, r, ho, by simp only [(e o).1]; exact hco⟩
      · simp at hs

end AwsVerif.Threads
