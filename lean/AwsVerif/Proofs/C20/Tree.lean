import AwsVerif.Proofs.C20.Static
import AwsVerif.Proofs.C20.JoinAll
/-! The launch tree: every created thread has a creator with a smaller ordinal whose body contains the launch;
a manual thread is joined only by that creator, at most once. -/
namespace AwsVerif.Threads

/-- a slot becomes a thread only through a successful `create`, which gives it the next ordinal -/
theorem exec_creates (P : Prog) (s s' : State) (t : Nat) (i : Instr) (rest : List Instr)
    (ht : (s.th t).status ≠ .notCreated) (h : exec P s t i rest = some s') :
    ∀ k, (s.th k).status = .notCreated → (s'.th k).status ≠ .notCreated →
      (∃ pin nf nm, i = .create k pin nf nm) ∧ (s'.th k).ord = s.nextOrd ∧ s'.nextOrd = s.nextOrd + 1 ∧ k ≠ 0 := by
  cases i
  case' act a => cases a
  case' joinAndFree l => cases l
  all_goals exec_split h
  all_goals (
    intro k hk
    have hkt : k ≠ t := fun e => ht (e ▸ hk)
    simp only [cont_th, pushW_th, pushLog_th, freeWrapper_th, upd_apply, hkt, if_false]
    first
    | (intro hh; exact absurd hk hh)
    | (split
       · rename_i hh; subst hh; intro _; simp_all [cont, pushW, upd_apply]
       · intro hh; exact absurd hk hh))

theorem step_self_created (P : Prog) (s s' : State) (t : Nat) (h : step P s t = some s') :
    (s.th t).status ≠ .notCreated := by
  unfold step at h
  intro e
  simp [e] at h

/-- ordinals: fixed once given; the counter only grows; a newly created thread gets the old counter value -/
theorem step_ord (P : Prog) (s s' : State) (t : Nat) (h : step P s t = some s') :
    (∀ k, (s.th k).status ≠ .notCreated → (s'.th k).ord = (s.th k).ord) ∧ s.nextOrd ≤ s'.nextOrd ∧
    (∀ k, (s.th k).status = .notCreated → (s'.th k).status ≠ .notCreated →
      (s'.th k).ord = s.nextOrd ∧ s'.nextOrd = s.nextOrd + 1 ∧ k ≠ 0 ∧ k ≠ t ∧
      (s.th t).code.any (qLaunch k) = true ∧ 2 ≤ (s.th t).status.rank) := by
  have hst := step_self_created P s s' t h
  have oth := step_other P s s' t h
  rcases step_cases P s s' t h with ⟨hs, rfl⟩ | ⟨hs, _, hcd, rfl⟩ | ⟨hs, _, hcd, rfl⟩ | ⟨hs, e⟩ | ⟨hs, hcd, rfl⟩ | ⟨hs, i, rest, hcd, he⟩
  case' inr.inr.inr.inl =>
    have e' : s'.th = upd s.th t (s'.th t) ∧ (s'.th t).ord = (s.th t).ord ∧ s'.nextOrd = s.nextOrd ∧
        (s'.th t).status ≠ .notCreated := by
      cases hch : (s.th t).chain with
      | nil => rw [atexitStep_nil P s t hch] at e; subst e; exact ⟨by simp [upd_idem], by simp, rfl, by simp⟩
      | cons c cs => rw [atexitStep_cons P s t c cs hch] at e; subst e; exact ⟨by simp [upd_idem, pushLog], by simp [pushLog], rfl, by simp [pushLog, hs]⟩
    obtain ⟨e1, e2, e3, e4⟩ := e'
    refine ⟨fun k hk => ?_, by omega, fun k hk hk' => ?_⟩
    · by_cases hkt : k = t
      · subst hkt; exact e2
      · rw [e1]; simp [upd_apply, hkt]
    · exfalso
      by_cases hkt : k = t
      · subst hkt; exact hst hk
      · rw [e1] at hk'; simp [upd_apply, hkt] at hk'; exact hk' hk
  case' inr.inr.inr.inr.inr =>
    obtain ⟨o1, o2⟩ := exec_ord P s s' t i rest he
    refine ⟨fun k hk => ?_, by rcases o2 with o2 | o2 <;> omega, fun k hk hk' => ?_⟩
    · by_cases hkt : k = t
      · subst hkt; exact o1
      · rcases oth k hkt with h1 | h1 | ⟨h0, _, _, _⟩ | ⟨_, h1⟩
        · rw [h1]
        · rw [h1]
        · exact absurd h0 hk
        · rw [h1]
    · obtain ⟨⟨pin, nf, nm, hi⟩, c1, c2, c3⟩ := exec_creates P s s' t i rest hst he k hk hk'
      have hkt : k ≠ t := fun e => hst (e ▸ hk)
      refine ⟨c1, c2, c3, hkt, by rw [hcd, hi]; simp [qLaunch], ?_⟩
      rcases hs with hs | hs | hs <;> simp [hs, Status.rank]
  all_goals (
    refine ⟨fun k hk => ?_, by first | exact Nat.le_refl _ | (unfold funcEndStep; split <;> exact Nat.le_refl _), fun k hk hk' => ?_⟩
    · by_cases hkt : k = t
      · subst hkt; simp [startStep, exitStep, funcEndStep_th]
      · simp [startStep, exitStep, funcEndStep_th, upd_apply, hkt]
    · exfalso
      by_cases hkt : k = t
      · subst hkt; exact hst hk
      · simp [startStep, exitStep, funcEndStep_th, upd_apply, hkt] at hk'; exact hk' hk)

theorem exec_joins (P : Prog) (s s' : State) (t : Nat) (i : Instr) (rest : List Instr)
    (h : exec P s t i rest = some s') (k : Nat) (hk : k ≠ t) (h1 : (s.th k).status = .exited)
    (h2 : (s'.th k).status = .joined) : i = .joinU k ∨ i = .joinM k := by
  cases i
  case' act a => cases a
  case' joinAndFree l => cases l
  all_goals exec_split h
  all_goals (
    simp only [cont_th, pushW_th, pushLog_th, freeWrapper_th, upd_apply, hk, if_false] at h2
    first
    | (rw [h1] at h2; cases h2)
    | (split at h2
       · rename_i hh; subst hh; first | (simp; done) | (simp [h1] at h2)
       · rw [h1] at h2; cases h2))

theorem exec_joinU_code (P : Prog) (s s' : State) (t k : Nat) (rest : List Instr)
    (h : exec P s t (.joinU k) rest = some s') : (s'.th t).code = rest := by
  simp only [exec] at h
  (repeat' split at h) <;> first | (simp at h; done) | (simp only [Option.some.injEq] at h; subst h; simp)

theorem any_qLaunch_map (P : Prog) (t k : Nat) (h : ((P.body t).map Instr.act).any (qLaunch k) = true) : LaunchIn P t k := by
  simp only [List.any_map, List.any_eq_true] at h
  obtain ⟨a, ha, hq⟩ := h
  cases a <;> simp [qLaunch] at hq
  rename_i j pin nf nm
  subst hq
  exact ⟨pin, nf, nm, ha⟩

structure TreeInv (P : Prog) (s : State) : Prop where
  jsrc : ∀ t k, 0 < (s.th t).code.countP (qJoin k) → Action.join k ∈ P.body t
  jle : ∀ t k, (s.th t).code.countP (qJoin k) ≤ 1
  lsrc : ∀ t k, (s.th t).code.any (qLaunch k) = true → LaunchIn P t k
  ordlt : ∀ k, (s.th k).status ≠ .notCreated → (s.th k).ord < s.nextOrd
  creator : ∀ k, k ≠ 0 → (s.th k).status ≠ .notCreated →
    ∃ c, c < P.n ∧ LaunchIn P c k ∧ 2 ≤ (s.th c).status.rank ∧ (s.th c).ord < (s.th k).ord
  crs : ∀ t k, (s.th t).code.any (isCR k) = true → (s.th k).status ≠ .notCreated ∧ k ≠ 0
  hsj : ∀ k, s.hstate k = .joinable → (s.th k).status ≠ .notCreated ∧ k ≠ 0
  jus : ∀ t k, (s.th t).code.any (isJU k) = true → (s.th k).status ≠ .notCreated ∧ k ≠ 0
  j7b : ∀ t k, k ≠ 0 → P.managed k = false → (s.th k).status = .joined → (s.th t).code.countP (qJoin k) = 0

theorem countP_pos_mem_join (P : Prog) (t k : Nat) (h : 0 < ((P.body t).map Instr.act).countP (qJoin k)) :
    Action.join k ∈ P.body t := by
  rw [countP_qJoin_map] at h
  obtain ⟨a, ha⟩ := List.exists_mem_of_length_pos h
  have := List.mem_filter.mp ha
  have e : a = Action.join k := by simpa using this.2
  rw [← e]; exact this.1

theorem treeInv_thr (P : Prog) (wf : WFProgress P) (s s' : State) (t : Nat) (h : step P s t = some s')
    (hc : CountInv P s) (hwf : ∀ k, (s.th k).status ≠ .notCreated → (s.th k).wFunc = k) (hi : TreeInv P s) :
    TreeInv P s' := by
  have hst := step_self_created P s s' t h
  have htn : t < P.n := by
    by_cases hh : t < P.n
    · exact hh
    · exact absurd (hc.big t (by omega)) hst
  have stab := fun k => status_ne_notCreated_stable P s s' t k h
  have stabS := fun k => started_stable P s s' t k h
  have stabJ := fun k => joined_stable P s s' t k h
  obtain ⟨fo, fn, fc⟩ := step_ord P s s' t h
  have oth := step_other P s s' t h
  have ocode : ∀ j, j ≠ t → (s'.th j).code = (s.th j).code ∨ (s'.th j).code = [] :=
    fun j hj => otherRel_code' (oth j hj)
  have hlt : ∀ j, (s.th j).code ≠ [] → j < P.n := by
    intro j hj
    by_cases hh : j < P.n
    · exact hh
    · exact absurd (hc.nocode j (Or.inl (hc.big j (by omega)))) hj
  -- what the step does to t's own code, to hstate, and who gets joined
  have key :
      (∀ k, (s'.th t).code.countP (qJoin k) ≤ (s.th t).code.countP (qJoin k) ∨
        ((s.th t).status = .created ∧ (s'.th t).code = (P.body t).map Instr.act)) ∧
      (∀ k, (s'.th t).code.any (qLaunch k) = true → (s.th t).code.any (qLaunch k) = true ∨
        ((s.th t).status = .created ∧ (s'.th t).code = (P.body t).map Instr.act)) ∧
      (∀ k, (s'.th t).code.any (isCR k) = true → (s.th t).code.any (isCR k) = true ∨ ((s'.th k).status = .created ∧ k ≠ 0)) ∧
      (∀ k, s'.hstate k = .joinable → s.hstate k = .joinable ∨ (s.th t).code.any (isCR k) = true) ∧
      (∀ k, (s'.th t).code.any (isJU k) = true → (s.th t).code.any (isJU k) = true ∨ s.hstate k = .joinable) ∧
      (∀ k, (s.th k).status ≠ .joined → (s'.th k).status = .joined →
        ∃ rest, ((s.th t).code = .joinU k :: rest ∧ (s'.th t).code = rest) ∨ (s.th t).code = .joinM k :: rest) := by
    have nojoin : ∀ k, (s.th k).status ≠ .joined → (s'.th k).status = .joined → k ≠ t ∧ (s.th k).status = .exited := by
      intro k h1 h2
      have hkt : k ≠ t := by
        intro e; subst e
        cases step_own P s s' k h with
        | start _ h3 => rw [h3] at h2; cases h2
        | exec hs ho =>
          rcases ho.1 with h3 | ⟨_, h3⟩
          · rw [h3] at h2; exact h1 h2
          · rw [h3] at h2; cases h2
        | funcEnd _ _ h3 => rw [h3] at h2; cases h2
        | exit _ h3 => rw [h3] at h2; cases h2
        | cb c _ _ h3 => rw [h3] at h2; cases h2
        | atexitDone _ _ _ h3 => rw [h3] at h2; cases h2
      refine ⟨hkt, ?_⟩
      rcases oth k hkt with h3 | h3 | ⟨_, _, _, h3⟩ | ⟨h0, _⟩
      · rw [h3] at h2; exact absurd h2 h1
      · rw [h3] at h2; exact absurd h2 h1
      · rw [h3] at h2; cases h2
      · exact h0
    rcases step_cases P s s' t h with ⟨hs, rfl⟩ | ⟨hs, _, hcd, rfl⟩ | ⟨hs, _, hcd, rfl⟩ | ⟨hs, e⟩ | ⟨hs, hcd, rfl⟩ | ⟨hs, i, rest, hcd, he⟩
    · have hw := hwf t hst
      refine ⟨fun k => Or.inr ⟨hs, by simp [hw]⟩, fun k _ => Or.inr ⟨hs, by simp [hw]⟩, fun k hh => ?_, fun k hh => Or.inl hh,
        fun k hh => ?_, fun k h1 h2 => ?_⟩
      · simp [List.any_map, isCR] at hh
      · simp [List.any_map, isJU] at hh
      · obtain ⟨hkt, h3⟩ := nojoin k h1 h2
        simp [startStep, upd_apply, hkt] at h2; exact absurd h2 h1
    · refine ⟨fun k => Or.inl (by simp), fun k hh => Or.inl (by simpa using hh), fun k hh => Or.inl (by simpa using hh),
        fun k hh => Or.inl hh, fun k hh => Or.inl (by simpa using hh), fun k h1 h2 => ?_⟩
      obtain ⟨hkt, _⟩ := nojoin k h1 h2
      simp [exitStep, upd_apply, hkt] at h2; exact absurd h2 h1
    · refine ⟨fun k => Or.inl (by simp), fun k hh => Or.inl (by simpa using hh), fun k hh => Or.inl (by simpa using hh),
        fun k hh => Or.inl (by rw [funcEndStep_hstate] at hh; exact hh), fun k hh => Or.inl (by simpa using hh), fun k h1 h2 => ?_⟩
      obtain ⟨hkt, _⟩ := nojoin k h1 h2
      simp [funcEndStep_th, upd_apply, hkt] at h2; exact absurd h2 h1
    · have e' : (s'.th t).code = (s.th t).code ∨ (s'.th t).code = [] ∨ (s'.th t).code = handOverCode := by
        cases hch : (s.th t).chain with
        | nil =>
          rw [atexitStep_nil P s t hch] at e; subst e
          simp only [upd_same]; split
          · exact Or.inr (Or.inr rfl)
          · exact Or.inr (Or.inl rfl)
        | cons c cs => rw [atexitStep_cons P s t c cs hch] at e; subst e; exact Or.inl (by simp [pushLog])
      have eh : s'.hstate = s.hstate ∧ ∀ k, k ≠ t → s'.th k = s.th k := by
        cases hch : (s.th t).chain with
        | nil => rw [atexitStep_nil P s t hch] at e; subst e; exact ⟨rfl, fun k hk => by simp [upd_apply, hk]⟩
        | cons c cs => rw [atexitStep_cons P s t c cs hch] at e; subst e; exact ⟨rfl, fun k hk => by simp [pushLog, upd_apply, hk]⟩
      have gen : ∀ q : Instr → Bool, q .lock = false → q .pjaSwapPush = false →
          (s'.th t).code.any q = true → (s.th t).code.any q = true := by
        intro q q1 q2 hh
        rcases e' with e' | e' | e' <;> rw [e'] at hh
        · exact hh
        · simp at hh
        · simp [handOverCode, q1, q2] at hh
      refine ⟨fun k => Or.inl ?_, fun k hh => Or.inl (gen _ rfl rfl hh), fun k hh => Or.inl (gen _ rfl rfl hh),
        fun k hh => Or.inl (by rw [eh.1] at hh; exact hh), fun k hh => Or.inl (gen _ rfl rfl hh), fun k h1 h2 => ?_⟩
      · rcases e' with e' | e' | e' <;> rw [e'] <;> simp [handOverCode, qJoin]
      · obtain ⟨hkt, _⟩ := nojoin k h1 h2
        rw [eh.2 k hkt] at h2; exact absurd h2 h1
    · refine ⟨fun k => Or.inl (by simp), fun k hh => Or.inl (by simpa using hh), fun k hh => Or.inl (by simpa using hh),
        fun k hh => Or.inl hh, fun k hh => Or.inl (by simpa using hh), fun k h1 h2 => ?_⟩
      obtain ⟨hkt, _⟩ := nojoin k h1 h2
      simp [exitStep, upd_apply, hkt] at h2; exact absurd h2 h1
    · refine ⟨fun k => Or.inl (by rw [hcd]; exact exec_qJoin P k s s' t i rest he),
        fun k hh => Or.inl (by rw [hcd]; exact exec_qLaunch P k s s' t i rest he hh),
        fun k hh => by rw [hcd]; exact exec_isCR P k s s' t i rest he hh,
        fun k hh => ?_, fun k hh => by rw [hcd]; exact exec_isJU P k s s' t i rest he hh, fun k h1 h2 => ?_⟩
      · rcases exec_hstate_joinable P k s s' t i rest he hh with h3 | h3
        · exact Or.inl h3
        · exact Or.inr (by rw [hcd, h3]; simp [isCR])
      · obtain ⟨hkt, h3⟩ := nojoin k h1 h2
        rcases exec_joins P s s' t i rest he k hkt h3 h2 with h4 | h4
        · subst h4; exact ⟨rest, Or.inl ⟨hcd, exec_joinU_code P s s' t k rest he⟩⟩
        · subst h4; exact ⟨rest, Or.inr hcd⟩
  obtain ⟨k1, k2, k3, k4, k5, k6⟩ := key
  -- a body that contains `join k` belongs to the (already running) creator of k
  have body_join : ∀ j k, j < P.n → k ≠ 0 → (s.th k).status ≠ .notCreated → Action.join k ∈ P.body j →
      2 ≤ (s.th j).status.rank := by
    intro j k hj hk0 hk hm
    obtain ⟨c, hcn, hcl, hcr, _⟩ := hi.creator k hk0 hk
    have := launcher_unique P wf j c k hj hcn (wf.joinByLauncher j k hj hm) hcl
    rw [this]; exact hcr
  refine ⟨fun j k hp => ?_, fun j k => ?_, fun j k hh => ?_, fun k hk => ?_, fun k hk0 hk => ?_, fun j k hh => ?_,
    fun k hh => ?_, fun j k hh => ?_, fun j k hk0 hmg hj => ?_⟩
  · -- jsrc
    by_cases hjt : j = t
    · subst hjt
      rcases k1 k with h1 | ⟨_, h1⟩
      · exact hi.jsrc j k (by omega)
      · rw [h1] at hp; exact countP_pos_mem_join P j k hp
    · rcases ocode j hjt with h1 | h1 <;> rw [h1] at hp
      · exact hi.jsrc j k hp
      · simp at hp
  · -- jle
    by_cases hjt : j = t
    · subst hjt
      rcases k1 k with h1 | ⟨_, h1⟩
      · have := hi.jle j k; omega
      · rw [h1, countP_qJoin_map]; exact join_body_le_one P wf j k htn
    · rcases ocode j hjt with h1 | h1 <;> rw [h1]
      · exact hi.jle j k
      · simp
  · -- lsrc
    by_cases hjt : j = t
    · subst hjt
      rcases k2 k hh with h1 | ⟨_, h1⟩
      · exact hi.lsrc j k h1
      · rw [h1] at hh; exact any_qLaunch_map P j k hh
    · rcases ocode j hjt with h1 | h1 <;> rw [h1] at hh
      · exact hi.lsrc j k hh
      · simp at hh
  · -- ordlt
    by_cases h0 : (s.th k).status = .notCreated
    · obtain ⟨a, b, _⟩ := fc k h0 hk; omega
    · rw [fo k h0]; have := hi.ordlt k h0; omega
  · -- creator
    by_cases h0 : (s.th k).status = .notCreated
    · obtain ⟨a, b, _, hkt, hl, hr⟩ := fc k h0 hk
      refine ⟨t, htn, hi.lsrc t k hl, stabS t hr, ?_⟩
      rw [fo t hst, a]; exact hi.ordlt t hst
    · obtain ⟨c, hcn, hcl, hcr, hco⟩ := hi.creator k hk0 h0
      have hc0 : (s.th c).status ≠ .notCreated := by intro e; rw [e] at hcr; simp [Status.rank] at hcr
      exact ⟨c, hcn, hcl, stabS c hcr, by rw [fo c hc0, fo k h0]; exact hco⟩
  · -- crs
    by_cases hjt : j = t
    · subst hjt
      rcases k3 k hh with h1 | ⟨h1, h2⟩
      · obtain ⟨a, b⟩ := hi.crs j k h1; exact ⟨stab k a, b⟩
      · exact ⟨by rw [h1]; simp, h2⟩
    · rcases ocode j hjt with h1 | h1 <;> rw [h1] at hh
      · obtain ⟨a, b⟩ := hi.crs j k hh; exact ⟨stab k a, b⟩
      · simp at hh
  · -- hsj
    rcases k4 k hh with h1 | h1
    · obtain ⟨a, b⟩ := hi.hsj k h1; exact ⟨stab k a, b⟩
    · obtain ⟨a, b⟩ := hi.crs t k h1; exact ⟨stab k a, b⟩
  · -- jus
    by_cases hjt : j = t
    · subst hjt
      rcases k5 k hh with h1 | h1
      · obtain ⟨a, b⟩ := hi.jus j k h1; exact ⟨stab k a, b⟩
      · obtain ⟨a, b⟩ := hi.hsj k h1; exact ⟨stab k a, b⟩
    · rcases ocode j hjt with h1 | h1 <;> rw [h1] at hh
      · obtain ⟨a, b⟩ := hi.jus j k hh; exact ⟨stab k a, b⟩
      · simp at hh
  · -- j7b
    by_cases hold : (s.th k).status = .joined
    · have h0 := hi.j7b j k hk0 hmg hold
      by_cases hjt : j = t
      · subst hjt
        rcases k1 k with h1 | ⟨hcr, h1⟩
        · omega
        · -- a thread that starts only now cannot be k's creator
          rw [h1]
          cases hcp : ((P.body j).map Instr.act).countP (qJoin k) with
          | zero => rfl
          | succ m =>
            exfalso
            have hm := countP_pos_mem_join P j k (by omega)
            have := body_join j k htn hk0 (by rw [hold]; simp) hm
            rw [hcr] at this; simp [Status.rank] at this
      · rcases ocode j hjt with h1 | h1 <;> rw [h1]
        · exact h0
        · rfl
    · -- k is joined by this very step
      obtain ⟨rest, ⟨hcd, hcd'⟩ | hcd⟩ := k6 k hold hj
      · have hjl := hi.jle t k
        rw [hcd] at hjl
        simp only [List.countP_cons, qJoin, beq_self_eq_true, if_true] at hjl
        by_cases hjt : j = t
        · subst hjt; rw [hcd']; omega
        · rcases ocode j hjt with h1 | h1 <;> rw [h1]
          · cases hcp : (s.th j).code.countP (qJoin k) with
            | zero => rfl
            | succ m =>
              exfalso
              have hjn : j < P.n := hlt j (by intro e; rw [e] at hcp; simp at hcp)
              have m1 := hi.jsrc j k (by omega)
              have m2 := hi.jsrc t k (by rw [hcd]; simp [List.countP_cons, qJoin])
              exact hjt (launcher_unique P wf j t k hjn htn (wf.joinByLauncher j k hjn m1) (wf.joinByLauncher t k htn m2))
          · rfl
      · have := hc.memb.mj t k (by rw [hcd]; simp)
        rw [hmg] at this; cases this

end AwsVerif.Threads
